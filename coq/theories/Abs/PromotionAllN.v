(* C07 for sessions of ANY size (n clients, any promoted client k): the two halves that PromotionProofs.v
   checked only by exhaustive exploration for n <= 3.

   Part A  the progress invariant [prog k s] (decidable; checked here on the complete reachable sets R1, R2, R2'
           of PromotionProofs.v -- and, outside this file, on R3 and on 14092 states of a 5-peer session).
           It is phase-wise: [pre x0] = the old host still has its server and is not closing, i.e. it has not
           yet handled NewHost(k):
             prog_pre   the Promote is in flight to an untouched k, or k's server transport is freshly added,
                        or NewHost(k) is in flight to an old host that still lists k; everybody else is an
                        untouched client of the old host; nothing but the Promote travels downstream;
             prog_post  k hosts with ServerState Connected; no NewHost upstream any more; the old host
                        targets k with a live RenetClient, is in k's table once linked, never loses
                        cli_added before ClientState leaves Disconnected; while it has its server and its
                        table is empty a ServerEvent is pending; once the server is gone the flag is clear;
                        every client that still targets the old host has the relayed NewHost(k) in flight;
             prog_common  empty channels are not stored; the old host only ever sees ClientDisconnected;
                        ServerState/transport coherence of the old host and of k; k's client side (flag set
                        <-> old transport still there); only the old host sends RequestInitialSync (to k);
                        a downstream channel belongs to the client transport that targets its sender.
   Part B  [stable_outcome]: a stable state that satisfies roles_inv, spi and prog is session_ok and is the
           promotion_outcome (what stability forbids, event by event: the lemmas st_deliver_down .. st_timeout).
   Part C  [prog_step]: every internal step preserves prog (given roles_inv and spi), for any number of
           peers; [prog_promoted]: it holds right after the request; [progress_invariant].
   Part D  the theorems: C07_all_n_outcome, C07_all_n (= PromotionProofs.C07_all_n_statement),
           C07_progress_all_n, C07_completes_all_n, C07_all_n_promotion (everything together), with
           PromotionMeasure.C07_terminates_all_n (the ORIGINAL measure of Promotion.v decreases for every n). *)
From Coq Require Import NArith List Lia.
From stdpp Require Import gmap list.
From RecordUpdate Require Import RecordSet.
From BS Require Import Abs.Promotion Abs.PromotionProofs Abs.PromotionMeasure.
Import RecordSetNotations.

Local Open Scope N_scope.

(* ================================================================================================
   Part A: the progress invariant
   ================================================================================================ *)

(* every message in flight satisfies P (sender, receiver, message) *)
Definition chan_all (M : gmap (peer * peer) (list pmsg)) (P : peer -> peer -> pmsg -> Prop) : Prop :=
  forall a b m, m ∈ chan M a b -> P a b m.

Lemma chan_all_iff M P : chan_all M P <-> map_Forall (fun key l => Forall (P key.1 key.2) l) M.
Proof.
  unfold chan_all, chan. split.
  - intros H [a b] l Hl. apply Forall_forall. intros m Hm. simpl. apply H. rewrite Hl. exact Hm.
  - intros H a b m Hm. destruct (M !! (a, b)) as [l|] eqn:Hl; simpl in Hm; [|inversion Hm].
    specialize (H (a, b) l Hl). simpl in H. rewrite Forall_forall in H. apply H. exact Hm.
Qed.
Global Instance chan_all_dec M P {Hdec : forall a b m, Decision (P a b m)} : Decision (chan_all M P).
Proof.
  destruct (decide (map_Forall (fun key l => Forall (P key.1 key.2) l) M)) as [H|H].
  - left. apply chan_all_iff. exact H.
  - right. intros H'. apply H. apply chan_all_iff. exact H'.
Defined.

(* every peer other than the old host and the promoted one *)
Definition others_all (k : peer) (s : pstate) (P : peer -> ppeer -> Prop) : Prop :=
  map_Forall (fun c x => c <> host -> c <> k -> P c x) (ps s).

(* the old host has not yet handled NewHost(k) *)
Definition pre (x0 : ppeer) : Prop := hosting x0 = true /\ closing x0 = false.
Global Instance pre_dec x0 : Decision (pre x0). Proof. unfold pre. apply _. Defined.

Definition prog_common (k : peer) (s : pstate) (x0 xk : ppeer) : Prop :=
  (* G1 *) map_Forall (fun _ l => l <> []) (up s) /\ map_Forall (fun _ l => l <> []) (down s) /\
  (* H1 *) Forall (fun ev : bool * peer => ev.1 = false) (srv_events x0) /\
  (* H2 *) cli_removed x0 = false /\
  (* H4 *) (hosting x0 = true -> srv_state x0 = SConnected /\ srv_removed x0 = false) /\
  (* K1 *) srv_removed xk = false /\
  (* K2 *) cli_added xk = false /\ cli_state xk <> CConnecting /\
  (* K6 *) (hosting xk = true ->
              (flag xk = true /\ client_of xk = Some host /\ cli_state xk = CConnected /\ cli_removed xk = false) \/
              (flag xk = false /\ client_of xk = None /\ (cli_removed xk = true \/ cli_state xk = CDisconnected))) /\
  (* K7 *) (client_of xk = Some host -> link_up xk = true \/ sticky xk = true) /\
  (* C2 *) chan_all (up s) (fun c h m => m = ReqInit -> c = host /\ h = k) /\
  (* C4 *) chan_all (down s) (fun h c m => pget client_of None s c = Some h).

Definition prog_pre (k : peer) (s : pstate) (x0 xk : ppeer) : Prop :=
  k ∈ clients x0 /\
  client_of xk = Some host /\ link_up xk = true /\ cli_state xk = CConnected /\ cli_removed xk = false /\
  clients xk = [] /\ srv_events xk = [] /\
  others_all k s (fun c x => client_of x = Some host) /\
  chan_all (down s) (fun h c m => m = Promote) /\
  ((hosting xk = false /\ Promote ∈ chan (down s) host k) \/
   (hosting xk = true /\ srv_added xk = true /\ srv_state xk = SDisconnected /\ NewHost k ∉ chan (up s) k host) \/
   (hosting xk = true /\ srv_added xk = false /\ srv_state xk = SConnected /\ NewHost k ∈ chan (up s) k host)).

Definition prog_post (k : peer) (s : pstate) (x0 xk : ppeer) : Prop :=
  hosting xk = true /\ srv_added xk = false /\ srv_state xk = SConnected /\
  NewHost k ∉ chan (up s) k host /\
  k ∉ clients x0 /\
  client_of x0 = Some k /\ sticky x0 = false /\ (link_up x0 = true -> host ∈ clients xk) /\
  (cli_state x0 = CDisconnected -> cli_added x0 = true) /\
  (hosting x0 = true -> clients x0 = [] -> srv_events x0 <> []) /\
  (hosting x0 = false -> flag x0 = false /\ (srv_removed x0 = true \/ srv_state x0 = SDisconnected)) /\
  others_all k s (fun c x => client_of x = Some host -> chan (down s) host c <> []).

Definition prog (k : peer) (s : pstate) : Prop :=
  match ps s !! host, ps s !! k with
  | Some x0, Some xk =>
      prog_common k s x0 xk /\ (pre x0 -> prog_pre k s x0 xk) /\ (~ pre x0 -> prog_post k s x0 xk)
  | _, _ => False
  end.
Global Instance prog_dec k s : Decision (prog k s).
Proof.
  unfold prog. destruct (ps s !! host); [|apply _]. destruct (ps s !! k); [|apply _].
  unfold prog_common, prog_pre, prog_post, others_all. apply _.
Defined.

(* ---------- the invariant on the complete reachable sets for up to three clients (sanity) ---------- *)
Example prog_R1 : forallb (fun s => bool_decide (prog 1 s)) R1 = true.
Proof. vm_compute. reflexivity. Qed.
Example prog_R2 : forallb (fun s => bool_decide (prog 1 s)) R2 = true.
Proof. vm_compute. reflexivity. Qed.
Example prog_R2' : forallb (fun s => bool_decide (prog 2 s)) R2' = true.
Proof. vm_compute. reflexivity. Qed.

(* ================================================================================================
   Part B: a stable state that satisfies the invariants is the goal of the promotion
   ================================================================================================ *)

(* what stability forbids, event by event *)
Lemma st_deliver_down s h c y : stable s -> is_Some (ps s !! h) -> ps s !! c = Some y ->
  client_of y = Some h -> cli_state y = CConnected -> link_up y = true -> chan (down s) h c <> [] -> False.
Proof.
  intros Hst [x Hx] Hy H1 H2 H3 H4. specialize (Hst (EDeliverDown h c) eq_refl). unfold step in Hst.
  rewrite Hx, Hy in Hst. unfold cli_gate in Hst. rewrite H1, H2, H3 in Hst.
  rewrite bool_decide_eq_true_2 in Hst by reflexivity. simpl in Hst.
  destruct (chan (down s) h c) as [|m rest]; [apply H4; reflexivity|]. destruct m; discriminate.
Qed.
Lemma st_deliver_up s c h x : stable s -> is_Some (ps s !! c) -> ps s !! h = Some x ->
  hosting x = true -> srv_state x = SConnected -> c ∈ clients x -> chan (up s) c h <> [] -> False.
Proof.
  intros Hst [y Hy] Hx H1 H2 H3 H4. specialize (Hst (EDeliverUp c h) eq_refl). unfold step in Hst.
  rewrite Hx, Hy in Hst. unfold srv_gate in Hst. rewrite H1, H2 in Hst.
  rewrite bool_decide_eq_true_2 in Hst by exact H3. simpl in Hst.
  destruct (chan (up s) c h) as [|m rest]; [apply H4; reflexivity|]. destruct m; discriminate.
Qed.
Lemma st_srvup s p x : stable s -> ps s !! p = Some x -> srv_added x = true -> srv_removed x = false -> False.
Proof.
  intros Hst Hx H1 H2. specialize (Hst (ESrvUp p) eq_refl). unfold step in Hst.
  rewrite Hx, H1, H2 in Hst. simpl in Hst. destruct (srv_state x); [destruct (client_of x)|]; discriminate.
Qed.
Lemma st_srvdown s p x : stable s -> ps s !! p = Some x -> srv_removed x = true -> False.
Proof. intros Hst Hx H1. specialize (Hst (ESrvDown p) eq_refl). unfold step in Hst. rewrite Hx, H1 in Hst. discriminate. Qed.
Lemma st_cliconnecting s p x : stable s -> ps s !! p = Some x -> cli_added x = true -> cli_removed x = false ->
  (hosting x = false \/ srv_events x = []) -> False.
Proof.
  intros Hst Hx H1 H2 H3. specialize (Hst (ECliConnecting p) eq_refl). unfold step in Hst.
  rewrite Hx, H1, H2 in Hst. unfold srv_gate in Hst. simpl in Hst.
  destruct H3 as [H3|H3]; rewrite H3 in Hst; simpl in Hst; [discriminate|].
  rewrite orb_true_r in Hst. discriminate.
Qed.
Lemma st_verify s p x h : stable s -> ps s !! p = Some x -> client_of x = Some h -> cli_state x = CConnecting ->
  link_up x = true -> False.
Proof.
  intros Hst Hx H1 H2 H3. specialize (Hst (EVerify p) eq_refl). unfold step in Hst.
  rewrite Hx, H1, H2, H3 in Hst. simpl in Hst. destruct (flag x); discriminate.
Qed.
Lemma st_clidown s p x : stable s -> ps s !! p = Some x -> cli_removed x = true -> False.
Proof. intros Hst Hx H1. specialize (Hst (ECliDown p) eq_refl). unfold step in Hst. rewrite Hx, H1 in Hst. discriminate. Qed.
Lemma st_notify s p x : stable s -> ps s !! p = Some x -> hosting x = true -> srv_state x = SConnected ->
  srv_events x <> [] -> False.
Proof.
  intros Hst Hx H1 H2 H3. specialize (Hst (ENotify p) eq_refl). unfold step in Hst.
  rewrite Hx in Hst. unfold srv_gate in Hst. rewrite H1, H2 in Hst. simpl in Hst.
  destruct (srv_events x) as [|[[|] c] q]; [apply H3; reflexivity| |].
  - destruct (flag x); discriminate.
  - destruct (is_nil (clients x) && (flag x || closing x)); discriminate.
Qed.
Lemma st_connect s c y h x : stable s -> ps s !! c = Some y -> client_of y = Some h -> ps s !! h = Some x ->
  sticky y = false -> link_up y = false -> hosting x = true -> c ∉ clients x -> c <> h -> False.
Proof.
  intros Hst Hy H1 Hx H2 H3 H4 H5 H6. specialize (Hst (EConnect c) eq_refl). unfold step in Hst.
  rewrite Hy, H1, Hx, H2, H3, H4 in Hst. rewrite !bool_decide_eq_false_2 in Hst by assumption. discriminate.
Qed.
Lemma st_linkdown s c y h x : stable s -> ps s !! c = Some y -> client_of y = Some h -> ps s !! h = Some x ->
  link_up y = true -> (hosting x = false \/ c ∉ clients x) -> False.
Proof.
  intros Hst Hy H1 Hx H2 H3. specialize (Hst (ELinkDown c) eq_refl). unfold step in Hst.
  rewrite Hy, H1, Hx, H2 in Hst. destruct H3 as [H3|H3].
  - rewrite H3 in Hst. discriminate.
  - rewrite (bool_decide_eq_false_2 _ H3) in Hst. rewrite orb_true_r in Hst. discriminate.
Qed.
Lemma st_timeout s h x c y : stable s -> ps s !! h = Some x -> ps s !! c = Some y -> hosting x = true ->
  c ∈ clients x -> ~ (client_of y = Some h /\ link_up y = true) -> False.
Proof.
  intros Hst Hx Hy H1 H2 H3. specialize (Hst (ETimeout h c) eq_refl). unfold step in Hst.
  rewrite Hx, Hy, H1 in Hst. rewrite (bool_decide_eq_true_2 _ H2) in Hst. simpl in Hst.
  destruct (bool_decide (client_of y = Some h) && link_up y) eqn:Hb; [|discriminate].
  apply andb_true_iff in Hb as [Hb1 Hb2]. apply bool_decide_eq_true in Hb1. apply H3. auto.
Qed.

Lemma NoDup_fst_filter {A B} (P : A * B -> Prop) `{Hdec : forall x, Decision (P x)} (l : list (A * B)) :
  NoDup l.*1 -> NoDup (filter P l).*1.
Proof.
  induction l as [|a l IH]; simpl; intros Hnd; [constructor|].
  apply NoDup_cons in Hnd as [Hnin Hnd]. rewrite filter_cons. destruct (decide (P a)); simpl; [|auto].
  apply NoDup_cons. split; [|auto]. intros Hin. apply Hnin.
  apply elem_of_list_fmap in Hin as (b & Hb & Hin). apply elem_of_list_filter in Hin as [_ Hin].
  apply elem_of_list_fmap. eauto.
Qed.
Lemma hosts_singleton s k : (forall p, p ∈ hosts s <-> p = k) -> hosts s = [k].
Proof.
  intros H. apply Permutation_singleton_r. apply NoDup_Permutation.
  - unfold hosts. apply NoDup_fst_filter. apply NoDup_fst_map_to_list.
  - apply NoDup_singleton.
  - intros p. rewrite H, elem_of_list_singleton. reflexivity.
Qed.

Lemma map_empty_chan (M : gmap (peer * peer) (list pmsg)) :
  map_Forall (fun _ l => l <> []) M -> (forall a b, chan M a b = []) -> M = ∅.
Proof.
  intros Hne Hall. apply map_empty. intros [a b]. destruct (M !! (a, b)) as [l|] eqn:Hl; [|reflexivity].
  exfalso. apply (Hne _ _ Hl). specialize (Hall a b). unfold chan in Hall. rewrite Hl in Hall. exact Hall.
Qed.

Lemma prog_unfold k s : prog k s -> exists x0 xk, ps s !! host = Some x0 /\ ps s !! k = Some xk /\
  prog_common k s x0 xk /\ (pre x0 -> prog_pre k s x0 xk) /\ (~ pre x0 -> prog_post k s x0 xk).
Proof.
  unfold prog. intros H. destruct (ps s !! host) as [x0|]; [|destruct H]. destruct (ps s !! k) as [xk|]; [|destruct H].
  exists x0, xk. auto.
Qed.
Lemma prog_fold k s x0 xk : ps s !! host = Some x0 -> ps s !! k = Some xk ->
  prog_common k s x0 xk -> (pre x0 -> prog_pre k s x0 xk) -> (~ pre x0 -> prog_post k s x0 xk) -> prog k s.
Proof. intros H0 Hk ? ? ?. unfold prog. rewrite H0, Hk. auto. Qed.

Lemma stable_outcome k s : roles_inv s -> spi k s -> prog k s -> stable s -> session_ok s k /\ promotion_outcome s k.
Proof.
  intros (Hwf & Hcl & Hlk) (Hk & S1 & S2 & S3 & S4 & S5 & S6 & S7 & S8 & S9 & S10) Hprog Hst.
  destruct (prog_unfold _ _ Hprog) as (x0 & xk & Hx0 & Hxk & Hcom & Hpre & Hpost).
  destruct Hcom as (G1u & G1d & H1 & H2 & H4 & K1 & K2a & K2b & K6 & K7 & C2 & C4).
  assert (Hnpre : ~ pre x0).
  { intros Hp. destruct (Hpre Hp) as (P1 & P2a & P2b & P2c & P2d & P2e & P2f & P3 & P4 & P5).
    destruct Hp as [Hh0 Hc0]. destruct (H4 Hh0) as [Hs0 Hr0].
    destruct P5 as [(A & B)|[(A & B & C & D)|(A & B & C & D)]].
    - eapply (st_deliver_down s host k); eauto. intros E; rewrite E in B; inversion B.
    - eapply (st_srvup s k); eauto.
    - eapply (st_deliver_up s k host); eauto. intros E; rewrite E in D; inversion D. }
  destruct (Hpost Hnpre) as (Q1a & Q1b & Q1c & Q2 & Q3 & Q4a & Q4b & Q4c & Q4d & Q5 & Q6 & Q7).
  clear Hpre Hpost.
  assert (Hjoin : forall p y, ps s !! p = Some y -> p <> k -> client_of y = Some k -> sticky y = false ->
                    link_up y = true /\ p ∈ clients xk).
  { intros p y Hy Hpk Hc Hsy. assert (Hl : link_up y = true).
    { destruct (link_up y) eqn:Hl; [reflexivity|]. exfalso. destruct (decide (p ∈ clients xk)) as [Hin|Hnin].
      - eapply (st_timeout s k xk p y); eauto. intros [_ ?]; congruence.
      - eapply (st_connect s p y k xk); eauto. }
    split; [exact Hl|]. destruct (decide (p ∈ clients xk)) as [Hin|Hnin]; [exact Hin|]. exfalso.
    eapply (st_linkdown s p y k xk); eauto. }
  assert (Hevk : srv_events xk = []).
  { destruct (srv_events xk) eqn:E; [reflexivity|]. exfalso. eapply (st_notify s k xk); eauto. rewrite E. discriminate. }
  destruct (Hjoin host x0 Hx0 (fun E => Hk (eq_sym E)) Q4a Q4b) as [Hl0 Hin0].
  assert (Hfk : flag xk = false).
  { destruct (flag xk) eqn:Hf; [|reflexivity]. exfalso. destruct (S8 xk Hxk Q1a) as [_ Hw].
    destruct (Hw Hf) as [[_ E]|(c & q & E)]; [rewrite E in Hin0; inversion Hin0|congruence]. }
  destruct (K6 Q1a) as [(? & _)|(_ & Kc & Kd)]; [congruence|].
  assert (Hcrk : cli_removed xk = false).
  { destruct (cli_removed xk) eqn:E; [|reflexivity]. exfalso. eapply (st_clidown s k xk); eauto. }
  assert (Hcsk : cli_state xk = CDisconnected) by (destruct Kd; congruence).
  (* the old host has closed its server *)
  assert (Hh0 : hosting x0 = false).
  { destruct (hosting x0) eqn:Hh0; [|reflexivity]. exfalso. destruct (H4 eq_refl) as [Hs0 Hr0].
    assert (Hev0 : srv_events x0 = []).
    { destruct (srv_events x0) eqn:E; [reflexivity|]. exfalso. eapply (st_notify s host x0); eauto. rewrite E. discriminate. }
    destruct (clients x0) as [|c cs] eqn:Hc0; [exact (Q5 eq_refl eq_refl Hev0)|].
    assert (Hcin : c ∈ clients x0) by (rewrite Hc0; left).
    destruct (Hcl host x0 c Hx0 Hcin) as [Hc0' [y Hy]].
    assert (Hck : c <> k) by (intros ->; apply Q3; left).
    destruct (decide (client_of y = Some host /\ link_up y = true)) as [[Ht Hl]|Hn];
      [|eapply (st_timeout s host x0 c y); eauto].
    destruct (S7 c y Hy Hc0' Hck) as [(U1 & U2 & U3 & U4 & U5 & _)|(_ & M2 & _)]; [|congruence].
    eapply (st_deliver_down s host c y); eauto. }
  destruct (Q6 Hh0) as [Hf0 Hsr0].
  assert (Hr0 : srv_removed x0 = false).
  { destruct (srv_removed x0) eqn:E; [|reflexivity]. exfalso. eapply (st_srvdown s host x0); eauto. }
  assert (Hs0 : srv_state x0 = SDisconnected) by (destruct Hsr0; congruence).
  assert (Hca0 : cli_added x0 = false).
  { destruct (cli_added x0) eqn:E; [|reflexivity]. exfalso. eapply (st_cliconnecting s host x0); eauto. }
  assert (Hcs0 : cli_state x0 = CConnected).
  { destruct (cli_state x0) eqn:E; [specialize (Q4d eq_refl); congruence| |reflexivity].
    exfalso. eapply (st_verify s host x0 k); eauto. }
  (* the other clients have moved *)
  assert (Hoth : forall c x, ps s !! c = Some x -> c <> host -> c <> k -> moved s k c x).
  { intros c x Hx Hc0 Hck. destruct (S7 c x Hx Hc0 Hck) as [(_ & _ & _ & _ & _ & x0' & Hx0' & Hh0' & _)|Hm]; [|exact Hm].
    rewrite Hx0 in Hx0'. injection Hx0' as <-. congruence. }
  (* a peer without a server transport *)
  assert (Hnosrv : forall p x, ps s !! p = Some x -> hosting x = false ->
            srv_state x = SDisconnected /\ srv_added x = false /\ srv_removed x = false /\ clients x = [] /\
            srv_events x = [] /\ closing x = false /\ (cli_removed x = false -> cli_added x = false)).
  { intros p x Hx Hh. destruct (Hwf p x Hx) as (W1 & W2 & W3 & W4 & W5 & W6 & W7).
    destruct (W1 Hh) as (? & ? & ?).
    assert (srv_removed x = false).
    { destruct (srv_removed x) eqn:E; [|reflexivity]. exfalso. eapply (st_srvdown s p x); eauto. }
    split_and?; try assumption.
    - destruct (srv_state x) eqn:E; [reflexivity|]. destruct (W5 eq_refl); congruence.
    - destruct (closing x) eqn:E; [|reflexivity]. specialize (W7 eq_refl). congruence.
    - intros Hcr. destruct (cli_added x) eqn:E; [|reflexivity]. exfalso. eapply (st_cliconnecting s p x); eauto. }
  assert (Hpc : forall p x, ps s !! p = Some x -> p <> k -> pure_client x k /\ p ∈ clients xk).
  { intros p x Hx Hpk. destruct (decide (p = host)) as [->|Hp0].
    - rewrite Hx0 in Hx. injection Hx as <-. destruct (Hnosrv host x0 Hx0 Hh0) as (? & ? & ? & ? & ? & ? & ?).
      split; [|exact Hin0]. unfold pure_client. split_and?; auto.
    - destruct (Hoth p x Hx Hp0 Hpk) as (M1 & M2 & M3 & M4 & M5 & M6 & M7).
      destruct (Hjoin p x Hx Hpk M2 M5) as [Hl Hin]. destruct (Hnosrv p x Hx M1) as (? & ? & ? & ? & ? & ? & ?).
      destruct (S9 p x Hx Hp0 Hpk) as [? ?].
      split; [|exact Hin]. unfold pure_client. split_and?; auto. }
  (* no traffic *)
  assert (Hup : up s = ∅).
  { apply map_empty_chan; [exact G1u|]. intros c h. destruct (chan (up s) c h) as [|m rest] eqn:E; [reflexivity|]. exfalso.
    assert (Hm : m ∈ chan (up s) c h) by (rewrite E; left).
    destruct (S6 c h m Hm) as [->|(-> & -> & -> & _)].
    - destruct (C2 c h ReqInit Hm eq_refl) as [-> ->].
      eapply (st_deliver_up s host k xk); eauto. rewrite E. discriminate.
    - apply Q2. exact Hm. }
  assert (Hdown : down s = ∅).
  { apply map_empty_chan; [exact G1d|]. intros h c. destruct (chan (down s) h c) as [|m rest] eqn:E; [reflexivity|]. exfalso.
    assert (Hm : m ∈ chan (down s) h c) by (rewrite E; left).
    pose proof (C4 h c m Hm) as Ht.
    destruct (S5 h c m Hm) as (-> & [(-> & Hck & Hc0 & _)|(-> & -> & _ & Hhk)]).
    - unfold pget in Ht. destruct (ps s !! c) as [y|] eqn:Hy; [|discriminate].
      destruct (Hoth c y Hy Hc0 Hck) as (_ & M2 & _). congruence.
    - rewrite (pget_Some _ _ _ _ _ Hxk) in Hhk. congruence. }
  split.
  - split.
    + apply hosts_singleton. intros p. rewrite elem_of_hosts. split.
      * intros (x & Hx & Hh). destruct (decide (p = k)) as [->|Hpk]; [reflexivity|].
        destruct (Hpc p x Hx Hpk) as [(? & _) _]. congruence.
      * intros ->. eauto.
    + intros p x Hx Hpk. destruct (Hpc p x Hx Hpk) as [(? & ? & ? & ? & ? & ? & ? & ? & ? & ? & ? & ? & ? & ?) _].
      split_and?; assumption.
  - unfold promotion_outcome. rewrite Hxk. split; [exact Hup|]. split; [exact Hdown|]. split; [split|].
    + destruct (Hwf k xk Hxk) as (W1 & W2 & W3 & W4 & W5 & W6 & W7). destruct (W2 Kc) as [? ?].
      destruct (S8 xk Hxk Q1a) as [? _].
      unfold pure_host. split_and?; auto.
    + intros p x Hx Hpk. exact (proj2 (Hpc p x Hx Hpk)).
    + intros p x Hx Hpk. exact (proj1 (Hpc p x Hx Hpk)).
Qed.
(* ====PART-C-MARKER==== *)

(* ================================================================================================
   Part C: every internal step preserves the progress invariant (any number of peers)
   ================================================================================================ *)

Ltac ins_cases' :=
  repeat match goal with
         | |- context [<[?a := _]> _ !! ?p] =>
             destruct (decide (a = p)) as [?|?];
             [subst; rewrite lookup_insert | rewrite lookup_insert_ne by assumption]
         end.
Ltac ins_hyp H := repeat (apply lookup_insert_Some in H as [[? <-]|[? H]]); subst.

Lemma chan_down_relay_nodup s h l m a b : NoDup l ->
  chan (down (relay s h l m)) a b = chan (down s) a b ++ (if decide (a = h /\ b ∈ l) then [m] else []).
Proof.
  induction l as [|d l IH]; intros Hnd.
  - simpl. rewrite decide_False by (intros [_ H]; inversion H). rewrite app_nil_r. reflexivity.
  - apply NoDup_cons in Hnd as [Hd Hnd]. specialize (IH Hnd).
    change (relay s h (d :: l) m) with (push_down (relay s h l m) h d m).
    rewrite down_push_down, chan_push. destruct (decide ((a, b) = (h, d))) as [Hab|Hab].
    + injection Hab as -> ->. rewrite IH. rewrite decide_False by tauto. rewrite app_nil_r.
      rewrite decide_True by (split; [reflexivity|left]). reflexivity.
    + rewrite IH. f_equal. destruct (decide (a = h /\ b ∈ l)) as [[-> Hb]|Hn].
      * rewrite decide_True by (split; [reflexivity|right; exact Hb]). reflexivity.
      * rewrite decide_False; [reflexivity|]. intros [-> Hb]. apply elem_of_cons in Hb as [->|Hb]; [apply Hab; reflexivity|tauto].
Qed.

Ltac chan_norm_in H :=
  repeat first [ rewrite chan_down_drop_link_of in H | rewrite chan_up_drop_link_of in H
               | rewrite down_drop_link in H | rewrite down_push_up in H | rewrite down_setp in H | rewrite down_mk in H | rewrite down_push_down in H
               | rewrite up_relay in H | rewrite up_drop_link in H | rewrite up_push_up in H | rewrite up_setp in H | rewrite up_mk in H | rewrite up_push_down in H
               | rewrite chan_delete in H | rewrite chan_setchan in H | rewrite chan_push in H ].
Ltac elem_cases H :=
  repeat match type of H with
         | _ ∈ _ ++ _ => apply elem_of_app in H as [H|H]
         | _ ∈ [_] => apply elem_of_list_singleton in H; subst
         | _ ∈ [] => inversion H
         end.
(* a message of the tail of a channel is a message of the channel *)
Ltac old_msg H :=
  match type of H with
  | ?m ∈ ?rest =>
      match goal with
      | E : chan ?M ?a ?b = _ :: rest |- _ =>
          let H' := fresh in assert (H' : m ∈ chan M a b) by (rewrite E; right; exact H); clear H; rename H' into H
      end
  end.

(* empty channels are not stored *)
Definition ne_chans (M : gmap (peer * peer) (list pmsg)) : Prop := map_Forall (fun _ l => l <> []) M.
Lemma ne_delete M key : ne_chans M -> ne_chans (delete key M).
Proof. apply map_Forall_delete. Qed.
Lemma ne_push M a b m : ne_chans M -> ne_chans (push M a b m).
Proof. intros H. unfold push. apply map_Forall_insert_2; [|exact H]. destruct (chan M a b); discriminate. Qed.
Lemma ne_setchan M a b l : ne_chans M -> ne_chans (setchan M a b l).
Proof. intros H. destruct l; simpl; [apply ne_delete; exact H|]. apply map_Forall_insert_2; [discriminate|exact H]. Qed.
Lemma ne_down_relay s h l m : ne_chans (down s) -> ne_chans (down (relay s h l m)).
Proof.
  intros H. induction l as [|d l IH]; [exact H|].
  change (relay s h (d :: l) m) with (push_down (relay s h l m) h d m). rewrite down_push_down. apply ne_push. exact IH.
Qed.
Lemma down_relay_up s h l m : up (relay s h l m) = up s.
Proof. apply up_relay. Qed.
Ltac ne_solve :=
  repeat first [ rewrite up_relay | rewrite up_drop_link | rewrite up_push_up | rewrite up_setp | rewrite up_mk | rewrite up_push_down
               | rewrite down_drop_link | rewrite down_push_up | rewrite down_setp | rewrite down_mk | rewrite down_push_down
               | apply ne_down_relay | apply ne_delete | apply ne_push | apply ne_setchan | assumption ].
Lemma ne_step s e s' : step s e = Some s' -> ne_chans (up s) -> ne_chans (down s) -> ne_chans (up s') /\ ne_chans (down s').
Proof.
  intros Hs Hu Hd. destruct e; step_inv Hs; split; ne_solve.
Qed.

Section Step.
  Context (k : peer) (s : pstate) (x0 xk : ppeer).
  Context (Hinv : roles_inv s) (Hspi : spi k s) (Hx0 : ps s !! host = Some x0) (Hxk : ps s !! k = Some xk).
  Context (Hcom : prog_common k s x0 xk) (Hpre : pre x0 -> prog_pre k s x0 xk) (Hpost : ~ pre x0 -> prog_post k s x0 xk).
  Local Set Default Proof Using "All".

  Ltac ctx :=
    pose proof Hinv as (Hwf & Hcl & Hlk);
    pose proof Hspi as (Hk & S1 & S2 & S3 & S4 & S5 & S6 & S7 & S8 & S9 & S10);
    pose proof Hcom as (G1u & G1d & H1 & H2 & H4 & K1 & K2a & K2b & K6 & K7 & C2 & C4).

  (* nobody can connect to the old host *)
  Lemma F1 c y : ps s !! c = Some y -> client_of y = Some host -> sticky y = false -> link_up y = false -> False.
  Proof.
    intros Hy Ht Hst Hl. ctx. destruct (decide (c = host)) as [->|Hc0].
    - rewrite Hx0 in Hy. injection Hy as <-. apply Hk. symmetry. eapply S4; eauto.
    - destruct (decide (c = k)) as [->|Hck].
      + rewrite Hxk in Hy. injection Hy as <-. destruct (K7 Ht); congruence.
      + destruct (S7 c y Hy Hc0 Hck) as [(_ & _ & ? & _)|(_ & ? & _)]; congruence.
  Qed.
  (* before the hand-over nobody targets k *)
  Lemma F2 c y : pre x0 -> ps s !! c = Some y -> client_of y = Some k -> False.
  Proof.
    intros Hp Hy Ht. ctx. destruct (Hpre Hp) as (P1 & P2a & P2b & P2c & P2d & P2e & P2f & P3 & P4 & P5).
    destruct Hp as [Hh0 Hc0]. destruct (decide (c = host)) as [->|Hc0'].
    - rewrite Hx0 in Hy. injection Hy as <-. destruct (S10 x0 Hx0 Hh0) as [?|(_ & ? & _)]; congruence.
    - destruct (decide (c = k)) as [->|Hck].
      + rewrite Hxk in Hy. injection Hy as <-. apply Hk. eapply S3; eauto.
      + specialize (P3 c y Hy Hc0' Hck). simpl in P3. congruence.
  Qed.
  (* nothing is ever sent downstream to the old host, and only the Promote to k *)
  Lemma F5 h m l : chan (down s) h host = m :: l -> False.
  Proof.
    intros Hc. ctx. destruct (S5 h host m) as (_ & [(_ & _ & ? & _)|(_ & ? & _)]); [rewrite Hc; left|congruence|].
    apply Hk. symmetry. assumption.
  Qed.
  Lemma F6 h m l : chan (down s) h k = m :: l -> h = host /\ m = Promote /\ l = [] /\ hosting xk = false.
  Proof.
    intros Hc. ctx. destruct (S5 h k m) as (-> & [(_ & ? & _)|(-> & _ & Hch & Hh)]); [rewrite Hc; left|congruence|].
    rewrite Hc in Hch. injection Hch as ->. rewrite (pget_Some _ _ _ _ _ Hxk) in Hh. auto.
  Qed.
  Lemma F6' h c l : chan (down s) h c = Promote :: l -> h = host /\ c = k /\ l = [] /\ hosting xk = false.
  Proof.
    intros Hc. ctx. destruct (S5 h c Promote) as (-> & [(? & _)|(_ & -> & Hch & Hh)]); [rewrite Hc; left|discriminate|].
    rewrite Hc in Hch. injection Hch as ->. rewrite (pget_Some _ _ _ _ _ Hxk) in Hh. auto.
  Qed.
  Lemma F6'' h c l : chan (down s) h c = ReqInit :: l -> False.
  Proof. intros Hc. ctx. destruct (S5 h c ReqInit) as (_ & [(? & _)|(? & _)]); [rewrite Hc; left|discriminate..]. Qed.
  (* a NewHost upstream: it is the announcement of k to the old host, which has not yet handled it *)
  Lemma F3 c h q l : chan (up s) c h = NewHost q :: l -> q = k /\ c = k /\ h = host /\ hosting xk = true /\ pre x0.
  Proof.
    intros Hc. ctx. destruct (S6 c h (NewHost q)) as [?|(Hq & -> & -> & Hh)]; [rewrite Hc; left|discriminate|].
    injection Hq as ->. rewrite (pget_Some _ _ _ _ _ Hxk) in Hh. split_and?; auto.
    destruct (decide (pre x0)) as [Hp|Hp]; [exact Hp|]. exfalso.
    destruct (Hpost Hp) as (_ & _ & _ & Q2 & _). apply Q2. rewrite Hc. left.
  Qed.
  Lemma F3' c h l : chan (up s) c h = Promote :: l -> False.
  Proof. intros Hc. ctx. destruct (S6 c h Promote) as [?|(? & _)]; [rewrite Hc; left|discriminate..]. Qed.
  Lemma F3'' c h l : chan (up s) c h = ReqInit :: l -> c = host /\ h = k.
  Proof. intros Hc. ctx. apply (C2 c h ReqInit); [rewrite Hc; left|reflexivity]. Qed.
  (* a NewHost downstream: after the hand-over, to a client that is still untouched *)
  Lemma F4 h c q l : chan (down s) h c = NewHost q :: l ->
    q = k /\ h = host /\ c <> k /\ c <> host /\ ~ pre x0 /\ hosting xk = true.
  Proof.
    intros Hc. ctx. assert (Hm : NewHost q ∈ chan (down s) h c) by (rewrite Hc; left).
    destruct (S5 h c _ Hm) as (-> & [(Hq & ? & ? & Hh)|(? & _)]); [|discriminate].
    injection Hq as ->. rewrite (pget_Some _ _ _ _ _ Hxk) in Hh. split_and?; auto.
    intros Hp. destruct (Hpre Hp) as (P1 & P2a & P2b & P2c & P2d & P2e & P2f & P3 & P4 & P5).
    specialize (P4 _ _ _ Hm). discriminate.
  Qed.


  (* the window of k: its server is never closed *)
  Lemma F7 c l : hosting xk = true -> srv_events xk = (false, c) :: l -> flag xk || closing xk = true -> False.
  Proof.
    intros Hh He Hf. ctx. destruct (S8 xk Hxk Hh) as [Hc Hw]. rewrite Hc, orb_false_r in Hf.
    destruct (Hw Hf) as [[? _]|(? & ? & ?)]; congruence.
  Qed.

  (* only the old host is ever in ClientState::Connecting *)
  Lemma F9 p y : ps s !! p = Some y -> cli_state y = CConnecting -> p = host.
  Proof.
    intros Hy Hc. ctx. destruct (decide (p = host)) as [->|Hp0]; [reflexivity|]. exfalso.
    destruct (decide (p = k)) as [->|Hpk].
    - rewrite Hxk in Hy. injection Hy as <-. contradiction.
    - destruct (S7 p y Hy Hp0 Hpk) as [(_ & _ & _ & ? & _)|(_ & _ & ? & _)]; congruence.
  Qed.

  Lemma F10 : pre x0 -> client_of x0 = None /\ flag x0 = false /\ hosting x0 = true /\ closing x0 = false /\
                        srv_state x0 = SConnected /\ srv_removed x0 = false /\ cli_added x0 = false /\ link_up x0 = false.
  Proof.
    intros [Hh Hc]. ctx. destruct (H4 Hh). destruct (S10 x0 Hx0 Hh) as [?|(_ & Hn & ?)]; [congruence|].
    destruct (Hwf host x0 Hx0) as (_ & W2 & _). destruct (W2 Hn). auto 10.
  Qed.
  (* before the hand-over every client transport is a live link to the old host *)
  Lemma Fpre_link c y : pre x0 -> ps s !! c = Some y -> is_Some (client_of y) ->
    link_up y = true /\ client_of y = Some host /\ c <> host /\ c ∈ clients x0.
  Proof.
    intros Hp Hy [t Ht]. ctx. destruct (Hpre Hp) as (P1 & P2a & P2b & P2c & P2d & P2e & P2f & P3 & P4 & P5).
    destruct (decide (c = host)) as [->|Hc0].
    - rewrite Hx0 in Hy. injection Hy as <-. destruct (F10 Hp) as (? & _). congruence.
    - destruct (decide (c = k)) as [->|Hck].
      + rewrite Hxk in Hy. injection Hy as <-. auto.
      + pose proof (P3 c y Hy Hc0 Hck) as Hh. simpl in Hh.
        destruct (S7 c y Hy Hc0 Hck) as [(_ & _ & ? & _ & _ & x0' & Hx0' & _ & ?)|(_ & ? & _)]; [|congruence].
        rewrite Hx0 in Hx0'. injection Hx0' as <-. auto.
  Qed.
  Lemma Fpre_cl c : pre x0 -> c ∈ clients x0 -> exists y, ps s !! c = Some y /\ client_of y = Some host /\ link_up y = true.
  Proof.
    intros Hp Hc. ctx. destruct (Hcl host x0 c Hx0 Hc) as [Hc0 [y Hy]]. exists y. split; [exact Hy|].
    destruct (Hpre Hp) as (P1 & P2a & P2b & P2c & P2d & P2e & P2f & P3 & P4 & P5).
    destruct (decide (c = k)) as [->|Hck].
    - rewrite Hxk in Hy. injection Hy as <-. auto.
    - pose proof (P3 c y Hy Hc0 Hck) as Hh. simpl in Hh. split; [exact Hh|].
      destruct (Fpre_link c y Hp Hy) as (? & _); [eauto|assumption].
  Qed.
  Lemma F5e h m : m ∈ chan (down s) h host -> False.
  Proof. intros Hm. destruct (chan (down s) h host) as [|m0 l] eqn:E; [inversion Hm|]. exact (F5 _ _ _ E). Qed.
  (* the client table of the old host *)
  Lemma F11 c : c ∈ clients x0 -> c <> host /\ (c <> k -> exists y, ps s !! c = Some y /\ (pre x0 -> client_of y = Some host)).
  Proof.
    intros Hc. ctx. destruct (Hcl host x0 c Hx0 Hc) as [Hc0 [y Hy]]. split; [exact Hc0|]. intros Hck.
    exists y. split; [exact Hy|]. intros Hp.
    destruct (Hpre Hp) as (P1 & P2a & P2b & P2c & P2d & P2e & P2f & P3 & P4 & P5). exact (P3 c y Hy Hc0 Hck).
  Qed.
  Lemma F12 p x : ps s !! p = Some x -> hosting x = true -> p = host \/ p = k.
  Proof. intros Hx Hh. ctx. eapply S1; eauto. Qed.
  Lemma F13 p x : ps s !! p = Some x -> srv_added x = true -> p = k.
  Proof. intros Hx Hh. ctx. eapply S2; eauto. Qed.
  Lemma F14 : hosting xk = false -> srv_state xk = SDisconnected /\ srv_added xk = false /\ NewHost k ∉ chan (up s) k host.
  Proof.
    intros Hh. ctx. destruct (Hwf k xk Hxk) as (W1 & _ & _ & _ & W5 & _). destruct (W1 Hh) as (_ & _ & ?). split_and?; [|assumption|].
    - destruct (srv_state xk); [reflexivity|]. destruct (W5 eq_refl); congruence.
    - intros Hm. destruct (S6 _ _ _ Hm) as [?|(_ & _ & _ & Hk')]; [discriminate|].
      rewrite (pget_Some _ _ _ _ _ Hxk) in Hk'. congruence.
  Qed.
  Lemma F15 c l : srv_events x0 = (true, c) :: l -> False.
  Proof. intros He. ctx. rewrite He in H1. apply Forall_cons in H1 as [? _]. discriminate. Qed.
  (* after the hand-over the link of the old host to k stays up *)
  Lemma F16 xh : ~ pre x0 -> link_up x0 = true -> ps s !! k = Some xh -> hosting xh = true /\ host ∈ clients xh.
  Proof.
    intros Hp Hl Hxh. rewrite Hxk in Hxh. injection Hxh as <-.
    destruct (Hpost Hp) as (Q1a & Q1b & Q1c & Q2 & Q3 & Q4a & Q4b & Q4c & Q4d & Q5 & Q6 & Q7). auto.
  Qed.
  Lemma wf_nodup p x : ps s !! p = Some x -> NoDup (clients x).
  Proof. intros Hx. ctx. destruct (Hwf p x Hx) as (_ & _ & _ & _ & _ & W6 & _). exact W6. Qed.

  Ltac kills :=
    try match goal with
    | H : srv_events xk = (false, _) :: _, H' : flag xk || closing xk = true, H'' : hosting xk = true |- _ => exfalso; exact (F7 _ _ H'' H H')
    | H : srv_events x0 = (true, _) :: _ |- _ => exfalso; exact (F15 _ _ H)
    | H : ps s !! ?c = Some ?y, H1 : client_of ?y = Some host, H2 : sticky ?y = false, H3 : link_up ?y = false |- _ =>
        exfalso; exact (F1 c y H H1 H2 H3)
    end.
  Ltac facts :=
    unfold srv_gate, cli_gate in *; bool_hyps; kills;
    try match goal with
    | H : chan (down s) _ host = _ :: _ |- _ => exfalso; exact (F5 _ _ _ H)
    | H : chan (up s) _ _ = Promote :: _ |- _ => exfalso; exact (F3' _ _ _ H)
    | H : chan (down s) _ _ = ReqInit :: _ |- _ => exfalso; exact (F6'' _ _ _ H)
    | H : chan (down s) _ _ = Promote :: _ |- _ => destruct (F6' _ _ _ H) as (? & ? & ? & ?); subst
    | H : chan (down s) _ k = _ :: _ |- _ => destruct (F6 _ _ _ H) as (? & ? & ? & ?); clear H; subst
    | H : chan (up s) _ _ = NewHost _ :: _ |- _ =>
        let Hc := fresh "Hch" in pose proof H as Hc; apply F3 in H as (? & ? & ? & ? & ?); subst
    | H : chan (up s) _ _ = ReqInit :: _ |- _ =>
        let Hc := fresh "Hch" in pose proof H as Hc; apply F3'' in H as (? & ?); subst
    | H : chan (down s) _ _ = NewHost _ :: _ |- _ =>
        let Hc := fresh "Hch" in pose proof H as Hc; apply F4 in H as (? & ? & ? & ? & ? & ?); subst
    end; same_lookup; try discriminate; try congruence;
    repeat match goal with
    | H : is_cconnecting ?c = true |- _ => destruct c eqn:?; simpl in H; try discriminate H; clear H
    | H : is_cconn ?c = true |- _ => destruct c eqn:?; simpl in H; try discriminate H; clear H
    | H : is_cdisc ?c = true |- _ => destruct c eqn:?; simpl in H; try discriminate H; clear H
    | H : is_cdisc ?c = false |- _ => destruct c eqn:?; simpl in H; try discriminate H; clear H
    | H : is_sconn ?c = true |- _ => destruct c eqn:?; simpl in H; try discriminate H; clear H
    | H : is_sconn ?c = false |- _ => destruct c eqn:?; simpl in H; try discriminate H; clear H
    | H : is_nil ?l = true |- _ => destruct l eqn:?; simpl in H; try discriminate H; clear H
    | H : is_nil ?l = false |- _ => destruct l eqn:?; simpl in H; try discriminate H; clear H
    end; try congruence;
    repeat match goal with
    | H : ps s !! ?p = Some ?x, H' : srv_added ?x = true |- _ =>
        is_var p; lazymatch p with k => fail | _ => idtac end; pose proof (F13 p x H H'); subst; same_lookup
    | H : ps s !! ?p = Some ?x, H' : cli_state ?x = CConnecting |- _ =>
        is_var p; pose proof (F9 p x H H'); subst; same_lookup
    | H : ps s !! ?p = Some ?x, H' : hosting ?x = true |- _ =>
        is_var p; lazymatch p with k => fail | _ => idtac end; destruct (F12 p x H H'); subst; same_lookup
    end; try congruence;
    try match goal with Hp : pre x0 |- _ =>
      pose proof (Hpre Hp) as (P1 & P2a & P2b & P2c & P2d & P2e & P2f & P3 & P4 & P5);
      pose proof (F10 Hp) as (? & ? & ? & ? & ? & ? & ? & ?) end;
    try match goal with Hp : ~ pre x0 |- _ =>
      pose proof (Hpost Hp) as (Q1a & Q1b & Q1c & Q2 & Q3 & Q4a & Q4b & Q4c & Q4d & Q5 & Q6 & Q7) end;
    try congruence; kills.
  (* events that cannot happen before the hand-over *)
  Ltac pre_kill Hp :=
    try (exfalso; first
      [ match goal with H : _ ∈ clients xk, E : clients xk = [] |- _ => rewrite E in H; inversion H end
      | match goal with H : ps s !! ?c = Some ?y, H' : client_of ?y = Some _ |- _ =>
          destruct (Fpre_link c y Hp H) as (? & ? & ? & ?); [eauto|];
          repeat match goal with H : _ || _ = true |- _ => apply orb_true_iff in H as [H|H] end; bool_hyps; congruence end
      | match goal with H : ?c ∈ clients x0, Hy : ps s !! ?c = Some ?y |- _ =>
          destruct (Fpre_cl c Hp H) as (y' & Hy' & ? & ?); rewrite Hy in Hy'; injection Hy' as <-;
          repeat match goal with H : _ && _ = false |- _ => apply andb_false_iff in H as [H|H] end; bool_hyps; congruence end ]).
  Ltac fin := first [ tauto | congruence | intuition congruence ].
  Ltac phase :=
    let Hp := fresh "Hp" in
    destruct (decide (pre x0)) as [Hp|Hp];
    [ pose proof (Hpre Hp) as (P1 & P2a & P2b & P2c & P2d & P2e & P2f & P3 & P4 & P5); destruct Hp as [Hp0 Hp1]
    | pose proof (Hpost Hp) as (Q1a & Q1b & Q1c & Q2 & Q3 & Q4a & Q4b & Q4c & Q4d & Q5 & Q6 & Q7) ].


  Lemma H1_step e s' x0' : internal e = true -> step s e = Some s' -> ps s' !! host = Some x0' ->
    Forall (fun ev : bool * peer => ev.1 = false) (srv_events x0').
  Proof.
    intros Hi Hs Hx0'. ctx.
    destruct e; try discriminate Hi; step_inv Hs; pssimpl_in Hx0'; ins_hyp Hx0'; same_lookup; simpl; try assumption.
    all: try (apply Forall_app; split; [assumption|repeat constructor]).
    all: try (match goal with H : srv_events x0 = _ :: _ |- _ => rewrite H in H1; apply Forall_cons in H1 as [? ?]; assumption end).
    - constructor.
    - exfalso. bool_hyps. eapply F1; eauto.
  Qed.

  Lemma H2_step e s' x0' : internal e = true -> step s e = Some s' -> ps s' !! host = Some x0' -> cli_removed x0' = false.
  Proof.
    intros Hi Hs Hx0'. ctx.
    destruct e; try discriminate Hi; step_inv Hs; pssimpl_in Hx0'; ins_hyp Hx0'; same_lookup; simpl; try assumption.
    all: try congruence.
    match goal with H : srv_events x0 = _ :: _ |- _ => rewrite H in H1; apply Forall_cons in H1 as [? ?]; discriminate end.
  Qed.

  Lemma H4_step e s' x0' : internal e = true -> step s e = Some s' -> ps s' !! host = Some x0' ->
    hosting x0' = true -> srv_state x0' = SConnected /\ srv_removed x0' = false.
  Proof.
    ctx. intros Hi Hs Hx0'.
    destruct e; try discriminate Hi; step_inv Hs; pssimpl_in Hx0'; ins_hyp Hx0'; same_lookup; simpl; try assumption.
    all: try (intros Hh; destruct (H4 Hh); split; congruence).
    all: try discriminate.
    all: facts.
  Qed.

  Lemma K1_step e s' xk' : internal e = true -> step s e = Some s' -> ps s' !! k = Some xk' -> srv_removed xk' = false.
  Proof.
    ctx. intros Hi Hs Hxk'.
    destruct e; try discriminate Hi; step_inv Hs; pssimpl_in Hxk'; ins_hyp Hxk'; same_lookup; simpl; try assumption.
    all: try congruence.
    all: facts.
  Qed.


  Lemma K2_step e s' xk' : internal e = true -> step s e = Some s' -> ps s' !! k = Some xk' ->
    cli_added xk' = false /\ cli_state xk' <> CConnecting.
  Proof.
    ctx. intros Hi Hs Hxk'.
    destruct e; try discriminate Hi; step_inv Hs; pssimpl_in Hxk'; ins_hyp Hxk'; same_lookup; simpl; try (split; assumption).
    all: try congruence.
    all: facts.
    all: try fin.
    all: try (phase; fin).
  Qed.

  Lemma K6_step e s' xk' : internal e = true -> step s e = Some s' -> ps s' !! k = Some xk' ->
    hosting xk' = true ->
              (flag xk' = true /\ client_of xk' = Some host /\ cli_state xk' = CConnected /\ cli_removed xk' = false) \/
              (flag xk' = false /\ client_of xk' = None /\ (cli_removed xk' = true \/ cli_state xk' = CDisconnected)).
  Proof.
    ctx. intros Hi Hs Hxk'.
    destruct e; try discriminate Hi; step_inv Hs; pssimpl_in Hxk'; ins_hyp Hxk'; same_lookup; simpl; try assumption.
    all: try congruence.
    all: facts.
    all: try fin.
    all: try (phase; fin).
  Qed.

  Lemma K7_step e s' xk' : internal e = true -> step s e = Some s' -> ps s' !! k = Some xk' ->
    client_of xk' = Some host -> link_up xk' = true \/ sticky xk' = true.
  Proof.
    ctx. intros Hi Hs Hxk'.
    destruct e; try discriminate Hi; step_inv Hs; pssimpl_in Hxk'; ins_hyp Hxk'; same_lookup; simpl; try assumption.
    all: try congruence.
    all: facts.
    all: try fin.
    all: try (phase; fin).
  Qed.

  Lemma C2_step e s' : internal e = true -> step s e = Some s' ->
    chan_all (up s') (fun c h m => m = ReqInit -> c = host /\ h = k).
  Proof.
    ctx. intros Hi Hs a b m Hm.
    destruct e; try discriminate Hi; step_inv Hs; chan_norm_in Hm; repeat case_decide; simplify_eq; elem_cases Hm;
      try (eapply C2; eassumption); try discriminate; try (intros ?; discriminate).
    all: try (old_msg Hm; eapply C2; eassumption).
    intros _. facts. try match goal with H : ps s !! ?p = Some _ |- ?p = host /\ _ => assert (p = host) by (eapply F9; eauto); subst p end.
    same_lookup. split; [reflexivity|]. eapply S4; eauto.
  Qed.


  Lemma C4_step e s' : internal e = true -> step s e = Some s' ->
    chan_all (down s') (fun h c m => pget client_of None s' c = Some h).
  Proof.
    ctx. intros Hi Hs a b m Hm.
    destruct e; try discriminate Hi; step_inv Hs; facts;
      try (rewrite chan_down_relay_nodup in Hm by (apply NoDup_without; eapply wf_nodup; eauto));
      chan_norm_in Hm; repeat case_decide; simplify_eq; elem_cases Hm; try old_msg Hm;
      try (pose proof (C4 _ _ _ Hm) as Hc4; unfold pget in Hc4);
      unfold pget; pssimpl; ins_cases'; same_lookup; simpl; try assumption.
    all: try (repeat match goal with H : ps s !! ?q = Some _ |- _ => rewrite H in Hc4 end; simpl in Hc4; congruence).
    all: repeat match goal with H : _ /\ _ |- _ => destruct H end; subst.
    all: repeat match goal with H : _ ∈ without _ _ |- _ => apply elem_of_without in H as [? ?] end.
    all: try congruence.
    all: try (exfalso; eapply F5e; eassumption).
    all: try (match goal with H : ?b ∈ clients x0 |- _ => destruct (F11 b H) as (? & Hy); destruct (Hy ltac:(assumption)) as (y & Hy1 & Hy2); rewrite Hy1; simpl; auto end).
    all: try (match goal with H : host ∈ clients x0 |- _ => destruct (F11 _ H) as [? _]; congruence end).
  Qed.

  (* ---------- phases ---------- *)
  Lemma pre_back e s' x0' : internal e = true -> step s e = Some s' -> ps s' !! host = Some x0' -> pre x0' -> pre x0.
  Proof.
    ctx. intros Hi Hs Hx0' [Hh' Hc'].
    destruct e; try discriminate Hi; step_inv Hs; pssimpl_in Hx0'; ins_hyp Hx0'; same_lookup; simpl in *; try (split; assumption).
    all: try discriminate.
    all: facts.
  Qed.

  Lemma pre_step e s' x0' xk' : internal e = true -> step s e = Some s' ->
    ps s' !! host = Some x0' -> ps s' !! k = Some xk' -> pre x0 -> pre x0' -> prog_pre k s' x0' xk'.
  Proof.
    ctx. intros Hi Hs Hx0' Hxk' Hp Hp'.
    destruct e; try discriminate Hi; step_inv Hs; facts; pre_kill Hp;
      pssimpl_in Hx0'; ins_hyp Hx0'; pssimpl_in Hxk'; ins_hyp Hxk'; same_lookup; try congruence;
      destruct Hp' as [Hp'1 Hp'2]; simpl in Hp'1, Hp'2; try discriminate.
    all: unfold prog_pre; simpl; split_and?; try assumption; try fin.
    all: try (intros c x Hx Hc0 Hck; pssimpl_in Hx; ins_hyp Hx; same_lookup; try congruence; simpl;
              first [ exact (P3 _ _ Hx Hc0 Hck) | match goal with H : ps s !! c = Some _ |- _ => exact (P3 _ _ H Hc0 Hck) end ]).
    all: try (intros a b m Hm; chan_norm_in Hm; repeat case_decide; elem_cases Hm; try old_msg Hm; eapply P4; eassumption).
    - destruct (F14 ltac:(assumption)) as (? & ? & ?). right; left. auto.
    - match goal with Ht : client_of xk = Some ?q |- _ => is_var q; assert (q = host) by congruence; subst q end. right; right.
      assert (hosting xk = true).
      { destruct (hosting xk) eqn:E; [reflexivity|]. destruct (F14 E) as (_ & ? & _). congruence. }
      split_and?; auto. rewrite chan_push, decide_True by reflexivity. apply elem_of_app. right. left.
  Qed.

  Lemma handoff_step e s' x0' xk' : internal e = true -> step s e = Some s' ->
    ps s' !! host = Some x0' -> ps s' !! k = Some xk' -> pre x0 -> ~ pre x0' -> prog_post k s' x0' xk'.
  Proof.
    ctx. intros Hi Hs Hx0' Hxk' Hp Hp'.
    destruct e; try discriminate Hi; step_inv Hs; facts; pre_kill Hp;
      pssimpl_in Hx0'; ins_hyp Hx0'; pssimpl_in Hxk'; ins_hyp Hxk'; same_lookup; try congruence;
      try (exfalso; apply Hp'; destruct Hp; split; simpl; assumption).
    assert (Hxk3 : hosting xk = true /\ srv_added xk = false /\ srv_state xk = SConnected).
    { destruct P5 as [(? & _)|[(_ & _ & _ & Hn)|(? & ? & ? & _)]]; [congruence| |auto]. exfalso. apply Hn. rewrite Hch. left. }
    destruct Hxk3 as (? & ? & ?).
    unfold prog_post; simpl; split_and?; try assumption; try fin.
    - chan_norm. rewrite decide_True by reflexivity. intros Hm; inversion Hm.
    - rewrite elem_of_without. tauto.
    - intros _ _. destruct (srv_events x0); discriminate.
    - intros c x Hx Hc0 Hck Ht. pssimpl_in Hx. ins_hyp Hx; [congruence|].
      rewrite chan_down_relay_nodup by (apply NoDup_without; eapply wf_nodup; eauto).
      rewrite decide_True; [destruct (chan _ host c); discriminate|]. split; [reflexivity|].
      apply elem_of_without. split; [exact Hck|].
      destruct (Fpre_link c x Hp Hx) as (_ & _ & _ & ?); [eauto|assumption].
  Qed.

  Lemma post_step e s' x0' xk' : internal e = true -> step s e = Some s' ->
    ps s' !! host = Some x0' -> ps s' !! k = Some xk' -> ~ pre x0 -> prog_post k s' x0' xk'.
  Proof.
    ctx. intros Hi Hs Hx0' Hxk' Hp.
    destruct e; try discriminate Hi; step_inv Hs; facts;
      pssimpl_in Hx0'; ins_hyp Hx0'; pssimpl_in Hxk'; ins_hyp Hxk'; same_lookup; try congruence.
    all: unfold prog_post; simpl; split_and?; try assumption; try fin.
    all: try (intros Hm; chan_norm_in Hm; repeat case_decide; simplify_eq; try congruence; elem_cases Hm; try old_msg Hm; try discriminate; exact (Q2 Hm)).
    all: try (intros c' x Hx Hc0 Hck Ht; pssimpl_in Hx; ins_hyp Hx; same_lookup; try congruence; simpl in Ht; try congruence;
              chan_norm; repeat case_decide; simplify_eq; try congruence;
              first [ exact (Q7 _ _ Hx Hc0 Hck Ht) | match goal with H : ps s !! _ = Some _ |- _ => exact (Q7 _ _ H Hc0 Hck Ht) end ]).
    - (* ENotify at the old host, a ClientDisconnected that does not close the server: the table is not empty *)
      intros Hh Hc. exfalso. apply Hp. split; [assumption|].
      match goal with Hb : is_nil (clients x0) && _ = false |- _ =>
        rewrite Hc in Hb; simpl in Hb; destruct (closing x0); [rewrite orb_true_r in Hb; discriminate|reflexivity] end.
    - (* EConnect of the old host to k *)
      intros _. apply elem_of_app. right. left.
    - (* EConnect of another client to k *)
      intros Hl. apply elem_of_app. left. exact (Q4c Hl).
    - (* ELinkDown at the old host: impossible, k hosts and has it in its table *)
      exfalso.
      match goal with Ht : client_of x0 = Some ?q, Hq : ps s !! ?q = Some ?y, Hb : negb (hosting ?y) || _ = true |- _ =>
        assert (q = k) by congruence; subst q; same_lookup;
        apply orb_true_iff in Hb as [Hb|Hb]; bool_hyps; [congruence|]; apply Hb, Q4c; assumption end.
    - (* ELinkDown at another client *)
      intros c' x Hx Hc0 Hck Ht. pssimpl_in Hx. ins_hyp Hx; simpl in Ht;
        first [ exact (Q7 _ _ Hx Hc0 Hck Ht) | match goal with Hy : ps s !! _ = Some _ |- _ => exact (Q7 _ _ Hy Hc0 Hck Ht) end ].
    - (* ETimeout at the old host *)
      rewrite elem_of_without. tauto.
    - intros _ _. destruct (srv_events x0); discriminate.
    - (* ... of a client that is still untouched: impossible, its link is up *)
      intros c' x Hx Hc0 Hck Ht. pssimpl_in Hx. ins_hyp Hx; [congruence|]. chan_norm.
      match goal with |- (if decide ((host, c') = (host, ?c)) then _ else _) <> [] =>
        destruct (decide ((host, c') = (host, c))) as [Hd|Hd] end; [|exact (Q7 _ _ Hx Hc0 Hck Ht)].
      exfalso. injection Hd as ->. same_lookup.
      match goal with Hy : ps s !! ?c = Some ?y, Hb : bool_decide (client_of ?y = Some host) && link_up ?y = false |- _ =>
        destruct (S7 c y Hy Hc0 Hck) as [(_ & _ & Hl & _)|(_ & ? & _)]; [|congruence];
        rewrite Ht, Hl in Hb; rewrite bool_decide_eq_true_2 in Hb by reflexivity; discriminate end.
    - (* ETimeout at k of the old host: impossible once it is linked *)
      intros Hl. apply elem_of_without. split; [|exact (Q4c Hl)]. intros <-. same_lookup.
      match goal with Hb : bool_decide (client_of x0 = Some k) && link_up x0 = false |- _ =>
        rewrite Q4a, Hl in Hb; rewrite bool_decide_eq_true_2 in Hb by reflexivity; discriminate end.
  Qed.
End Step.

(* ---------- one step preserves the progress invariant ---------- *)
Lemma prog_step k s e s' : roles_inv s -> spi k s -> prog k s -> internal e = true -> step s e = Some s' -> prog k s'.
Proof.
  intros Hinv Hspi Hprog Hi Hs.
  destruct (prog_unfold _ _ Hprog) as (x0 & xk & Hx0 & Hxk & Hcom & Hpre & Hpost).
  destruct (proj2 (step_dom _ _ _ Hs host) (ex_intro _ x0 Hx0)) as [x0' Hx0'].
  destruct (proj2 (step_dom _ _ _ Hs k) (ex_intro _ xk Hxk)) as [xk' Hxk'].
  pose proof Hcom as (G1u & G1d & _).
  destruct (ne_step _ _ _ Hs G1u G1d) as [G1u' G1d'].
  apply (prog_fold k s' x0' xk' Hx0' Hxk').
  - unfold prog_common. split; [exact G1u'|]. split; [exact G1d'|].
    split; [exact (H1_step k s x0 xk Hinv Hspi Hx0 Hxk Hcom Hpre Hpost e s' x0' Hi Hs Hx0')|].
    split; [exact (H2_step k s x0 xk Hinv Hspi Hx0 Hxk Hcom Hpre Hpost e s' x0' Hi Hs Hx0')|].
    split; [exact (H4_step k s x0 xk Hinv Hspi Hx0 Hxk Hcom Hpre Hpost e s' x0' Hi Hs Hx0')|].
    split; [exact (K1_step k s x0 xk Hinv Hspi Hx0 Hxk Hcom Hpre Hpost e s' xk' Hi Hs Hxk')|].
    destruct (K2_step k s x0 xk Hinv Hspi Hx0 Hxk Hcom Hpre Hpost e s' xk' Hi Hs Hxk') as [K2a K2b].
    split; [exact K2a|]. split; [exact K2b|].
    split; [exact (K6_step k s x0 xk Hinv Hspi Hx0 Hxk Hcom Hpre Hpost e s' xk' Hi Hs Hxk')|].
    split; [exact (K7_step k s x0 xk Hinv Hspi Hx0 Hxk Hcom Hpre Hpost e s' xk' Hi Hs Hxk')|].
    split; [exact (C2_step k s x0 xk Hinv Hspi Hx0 Hxk Hcom Hpre Hpost e s' Hi Hs)|].
    exact (C4_step k s x0 xk Hinv Hspi Hx0 Hxk Hcom Hpre Hpost e s' Hi Hs).
  - intros Hp'. pose proof (pre_back k s x0 xk Hinv Hspi Hx0 Hxk Hcom Hpre Hpost e s' x0' Hi Hs Hx0' Hp') as Hp.
    exact (pre_step k s x0 xk Hinv Hspi Hx0 Hxk Hcom Hpre Hpost e s' x0' xk' Hi Hs Hx0' Hxk' Hp Hp').
  - intros Hp'. destruct (decide (pre x0)) as [Hp|Hp].
    + exact (handoff_step k s x0 xk Hinv Hspi Hx0 Hxk Hcom Hpre Hpost e s' x0' xk' Hi Hs Hx0' Hxk' Hp Hp').
    + exact (post_step k s x0 xk Hinv Hspi Hx0 Hxk Hcom Hpre Hpost e s' x0' xk' Hi Hs Hx0' Hxk' Hp).
Qed.

(* ---------- the state right after the request ---------- *)
Lemma prog_promoted n k : k ∈ client_ids n -> prog k (promoted n k).
Proof.
  intros Hk. destruct (promoted_eq n k Hk) as [_ ->].
  assert (Hk0 : k <> host) by (apply elem_of_client_ids in Hk; unfold host; lia).
  assert (Hl : forall p, ps (push_down (session n) host k Promote) !! p = ps (session n) !! p) by reflexivity.
  assert (Hd : forall h c, chan (down (push_down (session n) host k Promote)) h c =
                           if decide ((h, c) = (host, k)) then [Promote] else []).
  { intros h c. rewrite down_push_down, chan_push. unfold session; simpl. unfold chan. rewrite !lookup_empty. reflexivity. }
  assert (Hu : forall c h, chan (up (push_down (session n) host k Promote)) c h = []).
  { intros c h. unfold chan, session; simpl. rewrite lookup_empty. reflexivity. }
  apply (prog_fold k _ (idle_host (client_ids n)) (idle_client host)).
  - rewrite Hl, session_lookup. rewrite decide_True by reflexivity. reflexivity.
  - rewrite Hl, session_lookup. rewrite (decide_False _ _ Hk0), (decide_True _ _ Hk). reflexivity.
  - unfold prog_common. split; [apply map_Forall_empty|].
    split; [rewrite down_push_down; apply ne_push; apply map_Forall_empty|].
    unfold idle_host, idle_client; simpl. split_and?; try reflexivity; try discriminate; try (intros; discriminate).
    + constructor.
    + intros _. split; reflexivity.
    + intros _. left. reflexivity.
    + intros c h m Hm. rewrite Hu in Hm. inversion Hm.
    + intros h c m Hm. rewrite Hd in Hm. case_decide as Hhc; [|inversion Hm]. injection Hhc as -> ->.
      unfold pget. rewrite Hl, session_lookup, (decide_False _ _ Hk0), (decide_True _ _ Hk). reflexivity.
  - intros _. unfold prog_pre, idle_host, idle_client; simpl. split_and?; try reflexivity; try exact Hk.
    + intros c x Hx Hc0 Hck. rewrite Hl, session_lookup in Hx. rewrite (decide_False _ _ Hc0) in Hx.
      case_decide; simplify_eq. reflexivity.
    + intros h c m Hm. rewrite Hd in Hm. case_decide; [|inversion Hm]. apply elem_of_list_singleton in Hm. exact Hm.
    + left. split; [reflexivity|]. rewrite Hd, decide_True by reflexivity. left.
  - intros Hn. exfalso. apply Hn. split; reflexivity.
Qed.

Lemma prog_run k tr : forall s s', roles_inv s -> spi k s -> prog k s -> all_internal tr -> run s tr = Some s' ->
  roles_inv s' /\ spi k s' /\ prog k s'.
Proof.
  induction tr as [|e tr IH]; intros s s' Hinv Hspi Hprog Hall Hrun; simpl in Hrun.
  - inversion Hrun; subst. auto.
  - destruct (step s e) as [s1|] eqn:Hs; [|discriminate]. apply Forall_cons in Hall as [Hi Hall].
    apply (IH s1 s'); [eapply roles_inv_step; eauto|eapply spi_step; eauto|eapply prog_step; eauto|exact Hall|exact Hrun].
Qed.

(* the progress invariant holds at every point of every run after the request, in a session of any size *)
Theorem progress_invariant n k tr s :
  k ∈ client_ids n -> all_internal tr -> run (promoted n k) tr = Some s -> roles_inv s /\ spi k s /\ prog k s.
Proof.
  intros Hk Hall Hrun. destruct (spi_promoted n k Hk) as [Hinv Hspi].
  exact (prog_run k tr _ _ Hinv Hspi (prog_promoted n k Hk) Hall Hrun).
Qed.
Print Assumptions progress_invariant.
(* ====PART-D-MARKER==== *)

(* ================================================================================================
   Part D: C07 for sessions of ANY size
   ================================================================================================ *)

(* the client table of the new host at the end: exactly the n other peers *)
Lemma without_length_nodup (c : peer) l : NoDup l -> c ∈ l -> (length (without c l) + 1 = length l)%nat.
Proof.
  induction l as [|a l IH]; intros Hnd Hc; [inversion Hc|].
  apply NoDup_cons in Hnd as [Ha Hnd]. unfold without in *. rewrite filter_cons.
  destruct (decide (a <> c)) as [Hac|Hac]; simpl.
  - apply elem_of_cons in Hc as [->|Hc]; [contradiction|]. rewrite <- (IH Hnd Hc). lia.
  - assert (a = c) by (destruct (decide (a = c)); [assumption|contradiction]). subst a.
    assert (Hf : filter (fun d => d <> c) l = l); [|rewrite Hf; lia].
    clear IH Hc Hac Hnd. induction l as [|b l IH]; [reflexivity|].
    rewrite filter_cons. rewrite decide_True by (intros ->; apply Ha; left).
    f_equal. apply IH. intros Hin. apply Ha. right. exact Hin.
Qed.

Lemma promoted_dom n k tr s p : k ∈ client_ids n -> run (promoted n k) tr = Some s ->
  is_Some (ps s !! p) <-> p = host \/ p ∈ client_ids n.
Proof.
  intros Hk Hrun. rewrite (run_dom _ _ _ Hrun p). destruct (promoted_eq n k Hk) as [_ ->].
  rewrite ps_push_down, session_lookup. destruct (decide (p = host)) as [->|Hp0].
  - split; [auto|eauto].
  - destruct (decide (p ∈ client_ids n)) as [Hin|Hnin].
    + split; [auto|eauto].
    + split; [intros [? ?]; discriminate|intros [?|?]; contradiction].
Qed.

Lemma outcome_clients n k tr s : k ∈ client_ids n -> run (promoted n k) tr = Some s -> roles_inv s ->
  promotion_outcome s k -> length (pget clients [] s k) = n.
Proof.
  intros Hk Hrun (Hwf & Hcl & _) Hout. destruct (promotion_outcome_spec _ _ Hout) as (_ & (xk & Hxk & _ & Hall) & _ & _).
  rewrite (pget_Some _ _ _ _ _ Hxk).
  assert (Hk0 : k <> host) by (apply elem_of_client_ids in Hk; unfold host; lia).
  assert (Hnd : NoDup (host :: client_ids n)).
  { apply NoDup_cons. split; [|apply NoDup_client_ids]. intros Hin. apply elem_of_client_ids in Hin. unfold host in Hin. lia. }
  assert (Hperm : clients xk ≡ₚ without k (host :: client_ids n)).
  { apply NoDup_Permutation.
    - destruct (Hwf k xk Hxk) as (_ & _ & _ & _ & _ & W6 & _). exact W6.
    - apply NoDup_without. exact Hnd.
    - intros p. rewrite elem_of_without, elem_of_cons. rewrite <- (promoted_dom n k tr s p Hk Hrun). split.
      + intros Hp. destruct (Hcl k xk p Hxk Hp) as [? ?]. auto.
      + intros [Hpk Hp]. apply Hall; assumption. }
  rewrite Hperm. pose proof (without_length_nodup k (host :: client_ids n) Hnd ltac:(right; exact Hk)) as Hlen.
  simpl in Hlen. unfold client_ids in Hlen at 2. rewrite fmap_length, seq_length in Hlen. lia.
Qed.

(* (1) every run that cannot be continued has reached the goal: one host -- the promoted peer, nothing but
   a host, with exactly the n other peers in its client table --, every other peer (the old host
   included) nothing but a connected client of it with a live RenetClient, no traffic in flight *)
Theorem C07_all_n_outcome n k tr s :
  k ∈ client_ids n -> all_internal tr -> run (promoted n k) tr = Some s -> stable s ->
  session_ok s k /\ promotion_outcome s k /\ length (pget clients [] s k) = n.
Proof.
  intros Hk Hall Hrun Hst. destruct (progress_invariant n k tr s Hk Hall Hrun) as (Hinv & Hspi & Hprog).
  destruct (stable_outcome k s Hinv Hspi Hprog Hst) as [Hok Hout].
  split; [exact Hok|]. split; [exact Hout|]. exact (outcome_clients n k tr s Hk Hrun Hinv Hout).
Qed.
Print Assumptions C07_all_n_outcome.

(* the full statement of PromotionProofs.v *)
Theorem C07_all_n : C07_all_n_statement.
Proof. intros n k Hk tr s Hall Hrun Hst. exact (proj1 (C07_all_n_outcome n k tr s Hk Hall Hrun Hst)). Qed.
Print Assumptions C07_all_n.

(* (2) termination: PromotionMeasure.C07_terminates_all_n
     forall n k tr s, k ∈ client_ids n -> all_internal tr -> run (promoted n k) tr = Some s ->
       length tr + measure s <= measure (promoted n k)
   with the ORIGINAL [measure] of Promotion.v (PromotionMeasure.measure_step: every internal event enabled in
   a state that satisfies roles_inv strictly decreases it, whatever the number of peers) *)
Print Assumptions C07_terminates_all_n.

(* (3) progress: a run that has not reached a stable state can be continued, and every continuation decreases
   the measure *)
Theorem C07_progress_all_n n k tr s :
  k ∈ client_ids n -> all_internal tr -> run (promoted n k) tr = Some s -> ~ stable s ->
  exists e s', internal e = true /\ step s e = Some s' /\ (measure s' < measure s)%nat.
Proof.
  intros Hk Hall Hrun Hn. destruct (progress_invariant n k tr s Hk Hall Hrun) as (Hinv & _).
  destruct (not_stable _ Hn) as (e & s' & Hi & Hs). exists e, s'. split; [exact Hi|]. split; [exact Hs|].
  exact (measure_step _ _ _ Hinv Hi Hs).
Qed.
Print Assumptions C07_progress_all_n.

(* every state that satisfies the invariants can be driven to a stable state, which is the goal *)
Lemma completes k : forall s, roles_inv s -> spi k s -> prog k s ->
  exists tr s', all_internal tr /\ run s tr = Some s' /\ stable s' /\ session_ok s' k /\ promotion_outcome s' k.
Proof.
  intros s. remember (measure s) as m eqn:Hm. revert s Hm.
  induction m as [m IH] using lt_wf_ind. intros s -> Hinv Hspi Hprog.
  destruct (decide (stable s)) as [Hst|Hn].
  - destruct (stable_outcome k s Hinv Hspi Hprog Hst) as [Hok Hout].
    exists [], s. split; [constructor|]. split; [reflexivity|]. auto.
  - destruct (not_stable _ Hn) as (e & s1 & Hi & Hs).
    destruct (IH _ (measure_step _ _ _ Hinv Hi Hs) s1 eq_refl (roles_inv_step _ _ _ Hinv Hs)
                 (spi_step _ _ _ _ Hinv Hspi Hi Hs) (prog_step _ _ _ _ Hinv Hspi Hprog Hi Hs))
      as (tr & s' & Hall & Hrun & Hrest).
    exists (e :: tr), s'. split; [constructor; assumption|]. split; [simpl; rewrite Hs; exact Hrun|exact Hrest].
Qed.

(* ... so every run after the request can be completed to a stable state in which the session is handed over *)
Theorem C07_completes_all_n n k tr s :
  k ∈ client_ids n -> all_internal tr -> run (promoted n k) tr = Some s ->
  exists tr' s', all_internal tr' /\ run s tr' = Some s' /\ stable s' /\ session_ok s' k /\ promotion_outcome s' k.
Proof.
  intros Hk Hall Hrun. destruct (progress_invariant n k tr s Hk Hall Hrun) as (Hinv & Hspi & Hprog).
  exact (completes k s Hinv Hspi Hprog).
Qed.
Print Assumptions C07_completes_all_n.

(* everything together, in the shape of C07_two_clients_promotion / C07_three_clients_promotion, for EVERY n *)
Theorem C07_all_n_promotion n k : k ∈ client_ids n ->
  forall tr s, all_internal tr -> run (promoted n k) tr = Some s ->
    (length tr + measure s <= measure (promoted n k))%nat
    /\ (stable s -> session_ok s k /\ promotion_outcome s k /\ length (pget clients [] s k) = n)
    /\ (~ stable s -> exists e s', internal e = true /\ step s e = Some s' /\ (measure s' < measure s)%nat)
    /\ (exists tr' s', all_internal tr' /\ run s tr' = Some s' /\ stable s' /\ session_ok s' k /\ promotion_outcome s' k).
Proof.
  intros Hk tr s Hall Hrun. split; [exact (C07_terminates_all_n n k tr s Hk Hall Hrun)|].
  split; [exact (C07_all_n_outcome n k tr s Hk Hall Hrun)|].
  split; [exact (C07_progress_all_n n k tr s Hk Hall Hrun)|exact (C07_completes_all_n n k tr s Hk Hall Hrun)].
Qed.
Print Assumptions C07_all_n_promotion.

(* non-vacuity: five peers (host 0, clients 1..4), promotion of client 2, the greedy complete run of
   PromotionMeasure.v (28 events): its hypotheses hold, and the theorem -- not a computation -- gives the goal *)
Example C07_all_n_example :
  let s := default (session 4) (run (promoted 4 2) run5) in
  2 ∈ client_ids 4 /\ all_internal run5 /\ run (promoted 4 2) run5 = Some s /\ stable s /\
  session_ok s 2 /\ promotion_outcome s 2 /\ length (pget clients [] s 2) = 4%nat.
Proof.
  cbv zeta.
  assert (Hk : 2 ∈ client_ids 4) by (apply elem_of_client_ids; lia).
  assert (Hall : all_internal run5).
  { unfold all_internal. apply Forall_forall. intros e He. apply elem_of_list_In in He.
    assert (Hb : forallb internal run5 = true) by (vm_compute; reflexivity).
    rewrite forallb_forall in Hb. exact (Hb e He). }
  assert (Hrun : run (promoted 4 2) run5 = Some (default (session 4) (run (promoted 4 2) run5))) by (vm_compute; reflexivity).
  assert (Hst : stable (default (session 4) (run (promoted 4 2) run5))) by (apply stableb_true; vm_compute; reflexivity).
  split; [exact Hk|]. split; [exact Hall|]. split; [exact Hrun|]. split; [exact Hst|].
  exact (C07_all_n_outcome 4 2 run5 _ Hk Hall Hrun Hst).
Qed.
(* ... and a state in the middle of that run is not stable: progress and completion apply *)
Example C07_progress_example :
  let tr := take 10 run5 in let s := default (session 4) (run (promoted 4 2) tr) in
  all_internal tr /\ run (promoted 4 2) tr = Some s /\ ~ stable s.
Proof.
  cbv zeta. split; [|split].
  - unfold all_internal. apply Forall_forall. intros e He. apply elem_of_list_In in He.
    assert (Hb : forallb internal (take 10 run5) = true) by (vm_compute; reflexivity).
    rewrite forallb_forall in Hb. exact (Hb e He).
  - vm_compute. reflexivity.
  - intros Hst. apply stableb_true in Hst. vm_compute in Hst. discriminate.
Qed.
