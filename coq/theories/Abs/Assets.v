(* Event-level abstraction of the replication of ONE uuid-identified asset of bevy_sync (property C06).

   Part A: one asset id of a URL class (mesh / image / audio): the announcement travels as a message
           "asset updated, fetch it from <owner>", the content is fetched over HTTP from the owner's
           endpoint.
   Part M: one material id: the content travels inline in the message.

   Rust: /repo/src/networking/assets/mod.rs  SyncAssetTransfer::{request, serve_mesh/_image/_audio},
           process_mesh_assets / process_image_assets / process_audio_assets
         /repo/src/server/track.rs, client/track.rs  react_on_changed_{meshes,images,audios,materials}
         /repo/src/lib_priv.rs  skip_network_handle_change, apply_material_change_from_network,
           pushed_handles_from_network
         /repo/src/server/receiver.rs, client/receiver.rs  Message::{Mesh,Image,Audio}Updated,
           StandardMaterialUpdated (the host relays with repeat_except_for_client, always)
         /repo/src/full_sync/mod.rs  check_meshes / check_images / check_audios (serve + announce),
           check_materials; client/mod.rs: the joining client also runs build_full_sync locally
   Frame-level model: theories/Sync/Model.v  insert_asset, react_on_changed_assets, request_asset,
         process_assets, CApplyMaterial, serve_all, build_full_sync, MAsset / MMaterial, last_schedule.

   Per peer, for the ONE id:
     store    Assets<T>[uuid]
     events   AssetEvent::{Added,Modified} of the id the react system has not read yet (each local
              insert AND each applied download / inline update produces one)
     tok      pushed_handles_from_network[id]: a COUNTER (repair R1 of defect S7): every asset applied from
              the network increments it, skip_network_handle_change decrements it at each event it
              swallows; an event that finds the counter at 0 is a local change.
     served   this peer's HTTP cache entry of the id.  SyncAssetTransfer::request no longer looks at it
              (repair R2 of defect S12): an announcement always starts a download.
     pending  downloads started and not yet applied: the owner to fetch from

   What is abstracted away (documented, not modelled):
   - "readable next frame": an event inserted in frame k is read by the react system in frame k+1 at the
     earliest; a react run therefore reads a PREFIX of the unread events.  [AReact1] handles exactly one
     event; [AReact] (one whole run over everything unread) is by definition [events] times [AReact1].
     Every run of the frame-level model is an interleaving of AReact1 steps.
   - download = HTTP GET + process_*_assets, atomically: the content is the owner's cache entry at that
     moment (None = 404: nothing is applied).  The real transfer reads the cache when the response is
     built and applies later; two concurrent transfers of one id can complete out of order (and
     meshes_to_apply is a map: two completions before one process run coalesce).  Neither is modelled.
   - the token set is keyed by uuid only: a material and a mesh under the same uuid share the token.
     One id of one class here.
   - a content that fails to decode (process_image_assets) leaves a token without an event.
   - all classes enabled on every peer.

   Everything is executable. *)
From Coq Require Import NArith List Lia.
From stdpp Require Import gmap list.

Definition peer := N.      (* 0 = host *)
Definition content := N.
Definition host : peer := 0%N.

(* ---------- reliable ordered channels (generic in the message type) --------------------------- *)

Definition lget {A} (L : gmap (peer * peer) (list A)) (a b : peer) : list A := default [] (L !! (a, b)).
Definition push_link {A} (L : gmap (peer * peer) (list A)) (a b : peer) (vs : list A) :=
  <[(a, b) := lget L a b ++ vs]> L.
(* server.broadcast / repeat_except_for_client: one copy per destination *)
Definition send_to {A} (L : gmap (peer * peer) (list A)) (src : peer) (dsts : list peer) (vs : list A) :=
  foldr (fun d L => push_link L src d vs) L dsts.
Definition others (src : peer) (l : list peer) : list peer := filter (fun c => c <> src) l.
Definition clients (n : nat) : list peer := N.of_nat <$> seq 1 n.

(* ================================================================================================
   Part A: one asset id of a URL class
   ================================================================================================ *)

Record apeer := APeer {
  store : option content;
  events : nat;
  tok : nat;
  served : option content;
  pending : list peer
}.

Record astate := AState {
  ap : gmap peer apeer;
  aconn : list peer;                          (* connected clients, in connection order *)
  alinks : gmap (peer * peer) (list peer)     (* src -> dst, head = oldest; a message is the OWNER to fetch from *)
}.

Inductive aevent :=
| APublish (p : peer) (c : content)   (* the application inserts content c under the uuid on p *)
| AReact (p : peer)                   (* one run of react_on_changed_* of p over everything unread *)
| AReact1 (p : peer)                  (* ... over the oldest unread event only *)
| ADeliver (src dst : peer)           (* dst handles the oldest message of src -> dst *)
| ADownload (p : peer)                (* the oldest pending download of p completes and is applied *)
| AJoin (c : peer) (pre : option content).
                                      (* c connects holding [pre] under the uuid (None: a fresh client);
                                         the host answers with the snapshot *)

Global Instance aevent_eq_dec : EqDecision aevent.
Proof. solve_decision. Defined.

Definition apeer0 : apeer := APeer None 0 0 None [].
Definition getp (s : astate) (p : peer) : apeer := default apeer0 (ap s !! p).
Definition pstore (s : astate) (p : peer) : option content := store (getp s p).
Definition pevents (s : astate) (p : peer) : nat := events (getp s p).
Definition ptok (s : astate) (p : peer) : nat := tok (getp s p).
Definition pserved (s : astate) (p : peer) : option content := served (getp s p).
Definition ppending (s : astate) (p : peer) : list peer := pending (getp s p).
Definition link (s : astate) (a b : peer) : list peer := lget (alinks s) a b.
Definition pexists (s : astate) (p : peer) : bool := bool_decide (is_Some (ap s !! p)).

Definition set_peer (s : astate) (p : peer) (x : apeer) : astate :=
  AState (<[p := x]> (ap s)) (aconn s) (alinks s).

(* host: server.clients_id(); client: the host *)
Definition dsts_of (s : astate) (p : peer) : list peer := if (p =? host)%N then aconn s else [host].

(* One AssetEvent of the id handled by react_on_changed_*:
     let Some(asset) = assets.get(id) else continue;
     if track.skip_network_handle_change(id) { continue }      -- consumes ONE token if there is one
     let url = sync_assets.serve_*(id, asset);  send {id, url} -- CURRENT content of the store
   second component: an announcement is sent *)
Definition react1_peer (x : apeer) : apeer * bool :=
  match events x with
  | O => (x, false)
  | S k =>
      match store x with
      | None => (APeer None k (tok x) (served x) (pending x), false)
      | Some c =>
          match tok x with
          | S t => (APeer (Some c) k t (served x) (pending x), false)
          | O => (APeer (Some c) k 0 (Some c) (pending x), true)
          end
      end
  end.

Definition areact1 (s : astate) (p : peer) : option astate :=
  match ap s !! p with
  | None => None
  | Some x =>
      let '(x', ann) := react1_peer x in
      Some (AState (<[p := x']> (ap s)) (aconn s)
                   (if ann then send_to (alinks s) p (dsts_of s p) [p] else alinks s))
  end.

Fixpoint areact_n (k : nat) (s : astate) (p : peer) : option astate :=
  match k with
  | O => Some s
  | S k => match areact1 s p with Some s1 => areact_n k s1 p | None => None end
  end.

(* full_sync::check_meshes on the host (and, on a joining client, its local build_full_sync) *)
Definition serve_store (x : apeer) : apeer :=
  APeer (store x) (events x) (tok x) (match store x with Some c => Some c | None => served x end) (pending x).

Definition astep (s : astate) (e : aevent) : option astate :=
  match e with
  | APublish p c =>
      match ap s !! p with
      | None => None
      | Some x => Some (set_peer s p (APeer (Some c) (S (events x)) (tok x) (served x) (pending x)))
      end
  | AReact p =>
      match ap s !! p with
      | None => None
      | Some x => areact_n (events x) s p
      end
  | AReact1 p => areact1 s p
  | ADeliver src dst =>
      match link s src dst, ap s !! dst with
      | o :: rest, Some x =>
          let L := <[(src, dst) := rest]> (alinks s) in
          (* SyncAssetTransfer::request: always starts the download, whatever this peer's cache holds *)
          let x' := APeer (store x) (events x) (tok x) (served x) (pending x ++ [o]) in
          Some (AState (<[dst := x']> (ap s)) (aconn s)
                       (* the host relays, always *)
                       (if (dst =? host)%N then send_to L host (others src (aconn s)) [o] else L))
      | _, _ => None
      end
  | ADownload p =>
      match ap s !! p with
      | None => None
      | Some x =>
          match pending x with
          | [] => None
          | o :: rest =>
              match pserved s o with
              | None => Some (set_peer s p (APeer (store x) (events x) (tok x) (served x) rest))   (* 404 *)
              | Some c => Some (set_peer s p (APeer (Some c) (S (events x)) (S (tok x)) (served x) rest))
              end
          end
      end
  | AJoin c pre =>
      if (c =? host)%N || bool_decide (c ∈ aconn s) || pexists s c then None
      else
        let h := getp s host in
        match last (pending h) with
        | Some o =>
            (* repair of S26 (8b1d5d0): the host is still downloading the id: the snapshot hands on the
               owner it was told to fetch from (the latest request), and serves nothing *)
            Some (AState (<[c := APeer pre 0 0 pre []]> (ap s)) (aconn s ++ [c]) (push_link (alinks s) host c [o]))
        | None =>
            Some (AState (<[c := APeer pre 0 0 pre []]> (<[host := serve_store h]> (ap s)))
                         (aconn s ++ [c])
                         (match store h with
                          | Some _ => push_link (alinks s) host c [host]
                          | None => alinks s
                          end))
        end
  end.

Fixpoint arun (s : astate) (tr : list aevent) : option astate :=
  match tr with
  | [] => Some s
  | e :: tr => match astep s e with Some s' => arun s' tr | None => None end
  end.

(* host + clients 1..n, all connected, the id nowhere *)
Definition ainit (n : nat) : astate :=
  AState (list_to_map ((fun p => (p, apeer0)) <$> (host :: clients n))) (clients n) ∅.

(* ---------- quiescence ------------------------------------------------------------------------- *)

Definition apeer_idle (x : apeer) : Prop := events x = 0%nat /\ tok x = 0%nat /\ pending x = [].
Definition aquiescent (s : astate) : Prop :=
  map_Forall (fun _ l => l = []) (alinks s) /\ map_Forall (fun _ x => apeer_idle x) (ap s).
Global Instance apeer_idle_dec x : Decision (apeer_idle x).
Proof. unfold apeer_idle. apply _. Defined.
Global Instance aquiescent_dec s : Decision (aquiescent s).
Proof. unfold aquiescent. apply _. Defined.
Definition aquiescentb (s : astate) : bool := bool_decide (aquiescent s).

(* ---------- well-formed states (an invariant of every run from [ainit n]) ----------------------- *)

Definition peers (s : astate) (p : peer) : Prop := p = host \/ p ∈ aconn s.

Definition awf (s : astate) : Prop :=
  NoDup (aconn s) /\ host ∉ aconn s /\
  (forall p, is_Some (ap s !! p) <-> peers s p) /\
  (forall a b, link s a b <> [] -> (a = host /\ b ∈ aconn s) \/ (b = host /\ a ∈ aconn s)).

(* ---------- observations on traces -------------------------------------------------------------- *)

Definition published (tr : list aevent) : list content :=
  omap (fun e => match e with APublish _ c => Some c | _ => None end) tr.
Definition publishers (tr : list aevent) : list peer :=
  omap (fun e => match e with APublish p _ => Some p | _ => None end) tr.
Definition joins (tr : list aevent) : list (peer * option content) :=
  omap (fun e => match e with AJoin c pre => Some (c, pre) | _ => None end) tr.
Definition only_publisher (w : peer) (tr : list aevent) : Prop := Forall (fun p => p = w) (publishers tr).
Definition no_joins (tr : list aevent) : Prop := joins tr = [].
Definition fresh_joins (tr : list aevent) : Prop := Forall (fun j => j.2 = None) (joins tr).

(* neither a publication nor a join *)
Definition plain (e : aevent) : Prop :=
  match e with APublish _ _ | AJoin _ _ => False | _ => True end.
Global Instance plain_dec e : Decision (plain e).
Proof. destruct e; simpl; apply _. Defined.

(* [bad s e] holds at some step of the run *)
Fixpoint scan (bad : astate -> aevent -> bool) (s : astate) (tr : list aevent) : bool :=
  match tr with
  | [] => false
  | e :: tr => bad s e || match astep s e with Some s' => scan bad s' tr | None => false end
  end.

(* a client joins while the host is still downloading the id: the snapshot is built from Assets<T>,
   the later completion is swallowed by its token: the joiner is never told *)
Definition bad_join_window (s : astate) (e : aevent) : bool :=
  match e with
  | AJoin _ _ => match ppending s host with [] => false | _ => true end
  | _ => false
  end.
Definition known_join_window (s : astate) (tr : list aevent) : bool := scan bad_join_window s tr.

(* the joins the C06 theorems allow: fresh clients, none of them inside the join window *)
Definition joins_ok (s : astate) (tr : list aevent) : Prop :=
  fresh_joins tr /\ known_join_window s tr = false.
Global Instance joins_ok_dec s tr : Decision (joins_ok s tr).
Proof. unfold joins_ok, fresh_joins. apply _. Defined.

(* the publisher changes only in quiescent states: a publication by a peer other than the previous
   publisher [w] happens in a quiescent state; the same peer may publish at any pace *)
Fixpoint handover_at_quiescence (w : peer) (s : astate) (tr : list aevent) : bool :=
  match tr with
  | [] => true
  | e :: tr =>
      match astep s e with
      | None => true
      | Some s' =>
          match e with
          | APublish p _ => (bool_decide (p = w) || aquiescentb s) && handover_at_quiescence p s' tr
          | _ => handover_at_quiescence w s' tr
          end
      end
  end.

(* every publication and every join happens in a quiescent state ("drain-separated") *)
Fixpoint ops_at_quiescence (s : astate) (tr : list aevent) : bool :=
  match tr with
  | [] => true
  | e :: tr =>
      match astep s e with
      | None => true
      | Some s' => (if decide (plain e) then true else aquiescentb s) && ops_at_quiescence s' tr
      end
  end.

(* number of messages an event hands to the network *)
Definition sent1 (s : astate) (e : aevent) : nat :=
  match e with
  | AReact1 p => if (react1_peer (getp s p)).2 then length (dsts_of s p) else 0
  | ADeliver src dst =>
      match link s src dst with
      | _ :: _ => if (dst =? host)%N then length (others src (aconn s)) else 0
      | [] => 0
      end
  | AJoin _ _ => match last (ppending s host) with
                 | Some _ => 1
                 | None => match pstore s host with Some _ => 1 | None => 0 end
                 end
  | _ => 0
  end.
(* an AReact1 step of p that ORIGINATES an announcement (a local change, not a relay, not a snapshot) *)
Definition originates (s : astate) (p : peer) : bool := (react1_peer (getp s p)).2.

Fixpoint sent_react (k : nat) (s : astate) (p : peer) : nat :=
  match k with
  | O => 0
  | S k => match areact1 s p with Some s1 => sent1 s (AReact1 p) + sent_react k s1 p | None => 0 end
  end.
Definition sent_by (s : astate) (e : aevent) : nat :=
  match e with
  | AReact p => sent_react (pevents s p) s p
  | _ => sent1 s e
  end.
Fixpoint total_sent (s : astate) (tr : list aevent) : nat :=
  match tr with
  | [] => 0
  | e :: tr => match astep s e with Some s' => sent_by s e + total_sent s' tr | None => 0 end
  end.
(* number of HTTP transfers started and applied *)
Fixpoint total_downloads (s : astate) (tr : list aevent) : nat :=
  match tr with
  | [] => 0
  | e :: tr =>
      match astep s e with
      | Some s' => (match e with ADownload _ => 1 | _ => 0 end) + total_downloads s' tr
      | None => 0
      end
  end.

(* ---------- examples (non-vacuity of the model) ------------------------------------------------- *)

Definition aview (s : astate) (ps : list peer) : list (option content) * bool := (pstore s <$> ps, aquiescentb s).

(* 3 peers, client 1 publishes; the host downloads from client 1 and relays the announcement; client 2
   downloads from client 1 directly; quiescent, equal contents; only client 1 serves *)
Definition ex_client_publishes : list aevent :=
  [APublish 1 10; AReact 1; ADeliver 1 0; ADownload 0; ADeliver 0 2; AReact 0; ADownload 2; AReact 2]%N.
Example ex_client_publishes_runs :
  (fun s => (aview s [0; 1; 2]%N, pserved s <$> [0; 1; 2]%N)) <$> arun (ainit 2) ex_client_publishes
  = Some (([Some 10; Some 10; Some 10]%N, true), [None; Some 10%N; None]).
Proof. vm_compute. reflexivity. Qed.
Example ex_client_publishes_traffic :
  total_sent (ainit 2) ex_client_publishes = 2%nat /\ total_downloads (ainit 2) ex_client_publishes = 2%nat /\
  known_join_window (ainit 2) ex_client_publishes = false /\
  ops_at_quiescence (ainit 2) ex_client_publishes = true.
Proof. vm_compute. auto. Qed.

(* the host publishes; every client downloads from the host *)
Example ex_host_publishes :
  (fun s => aview s [0; 1; 2; 3]%N) <$>
  arun (ainit 3) [APublish 0 10; AReact1 0; ADeliver 0 3; ADeliver 0 1; ADownload 1; ADeliver 0 2; ADownload 3;
                  AReact 1; ADownload 2; AReact 3; AReact 2]%N
  = Some ([Some 10; Some 10; Some 10; Some 10]%N, true).
Proof. vm_compute. reflexivity. Qed.

(* drain-separated overwrites by one publisher replicate: the receivers swallowed their event with the token *)
Example ex_overwrite_drained :
  (fun s => aview s [0; 1; 2]%N) <$>
  arun (ainit 2) (ex_client_publishes ++
                  [APublish 1 20; AReact 1; ADeliver 1 0; ADeliver 0 2; ADownload 2; ADownload 0; AReact 0; AReact 2]%N)
  = Some ([Some 20; Some 20; Some 20]%N, true).
Proof. vm_compute. reflexivity. Qed.

(* a download fetches the owner's CURRENT cache entry: a burst is coalesced by the transfer *)
Example ex_burst_coalesced :
  (fun s => aview s [0; 1]%N) <$>
  arun (ainit 1) [APublish 0 10; AReact 0; APublish 0 20; AReact 0; ADeliver 0 1; ADownload 1; AReact 1;
                  ADeliver 0 1; ADownload 1; AReact 1]%N
  = Some ([Some 20; Some 20]%N, true).
Proof. vm_compute. reflexivity. Qed.

(* a fresh client joins after the publication and fetches from the host *)
Example ex_join :
  (fun s => (aview s [0; 1; 2; 3]%N, pserved s host)) <$>
  arun (ainit 2) (ex_client_publishes ++ [AJoin 3 None; ADeliver 0 3; ADownload 3; AReact 3]%N)
  = Some (([Some 10; Some 10; Some 10; Some 10]%N, true), Some 10%N).
Proof. vm_compute. reflexivity. Qed.

(* ================================================================================================
   Part M: one material id (inline content)
   ================================================================================================ *)

Record mpeer := MPeer {
  mstore : option content;
  mevents : nat;
  mtok : nat
}.

Record mstate := MState {
  mp : gmap peer mpeer;
  mconn : list peer;
  mlinks : gmap (peer * peer) (list content)    (* a message is the CONTENT *)
}.

Inductive mevent :=
| MPublish (p : peer) (c : content)
| MReact (p : peer)                  (* one run of react_on_changed_materials over everything unread *)
| MReact1 (p : peer)                 (* ... over the oldest unread event only *)
| MDeliver (src dst : peer)          (* apply_material_change_from_network (+ relay on the host) *)
| MJoin (c : peer).                  (* a fresh client connects; check_materials: the snapshot *)

Global Instance mevent_eq_dec : EqDecision mevent.
Proof. solve_decision. Defined.

Definition mpeer0 : mpeer := MPeer None 0 0.
Definition mgetp (s : mstate) (p : peer) : mpeer := default mpeer0 (mp s !! p).
Definition mpstore (s : mstate) (p : peer) : option content := mstore (mgetp s p).
Definition mpevents (s : mstate) (p : peer) : nat := mevents (mgetp s p).
Definition mptok (s : mstate) (p : peer) : nat := mtok (mgetp s p).
Definition mlink (s : mstate) (a b : peer) : list content := lget (mlinks s) a b.
Definition mdsts_of (s : mstate) (p : peer) : list peer := if (p =? host)%N then mconn s else [host].

(* one AssetEvent<StandardMaterial> of the id: one token of the counter swallows it; otherwise the message
   carries the CURRENT content of the store, not the content at the time of the event *)
Definition mreact1_peer (x : mpeer) : mpeer * option content :=
  match mevents x with
  | O => (x, None)
  | S k =>
      match mstore x with
      | None => (MPeer None k (mtok x), None)
      | Some c =>
          match mtok x with
          | S t => (MPeer (Some c) k t, None)
          | O => (MPeer (Some c) k 0, Some c)
          end
      end
  end.

Definition mreact1 (s : mstate) (p : peer) : option mstate :=
  match mp s !! p with
  | None => None
  | Some x =>
      let '(x', ann) := mreact1_peer x in
      Some (MState (<[p := x']> (mp s)) (mconn s)
                   (match ann with Some c => send_to (mlinks s) p (mdsts_of s p) [c] | None => mlinks s end))
  end.

Fixpoint mreact_n (k : nat) (s : mstate) (p : peer) : option mstate :=
  match k with
  | O => Some s
  | S k => match mreact1 s p with Some s1 => mreact_n k s1 p | None => None end
  end.

Definition mstep (s : mstate) (e : mevent) : option mstate :=
  match e with
  | MPublish p c =>
      match mp s !! p with
      | None => None
      | Some x => Some (MState (<[p := MPeer (Some c) (S (mevents x)) (mtok x)]> (mp s)) (mconn s) (mlinks s))
      end
  | MReact p =>
      match mp s !! p with
      | None => None
      | Some x => mreact_n (mevents x) s p
      end
  | MReact1 p => mreact1 s p
  | MDeliver src dst =>
      match mlink s src dst, mp s !! dst with
      | c :: rest, Some x =>
          let L := <[(src, dst) := rest]> (mlinks s) in
          Some (MState (<[dst := MPeer (Some c) (S (mevents x)) (S (mtok x))]> (mp s)) (mconn s)
                       (if (dst =? host)%N then send_to L host (others src (mconn s)) [c] else L))
      | _, _ => None
      end
  | MJoin c =>
      if (c =? host)%N || bool_decide (c ∈ mconn s) || bool_decide (is_Some (mp s !! c)) then None
      else Some (MState (<[c := mpeer0]> (mp s)) (mconn s ++ [c])
                        (match mpstore s host with
                         | Some v => push_link (mlinks s) host c [v]
                         | None => mlinks s
                         end))
  end.

Fixpoint mrun (s : mstate) (tr : list mevent) : option mstate :=
  match tr with
  | [] => Some s
  | e :: tr => match mstep s e with Some s' => mrun s' tr | None => None end
  end.

Definition minit (n : nat) : mstate :=
  MState (list_to_map ((fun p => (p, mpeer0)) <$> (host :: clients n))) (clients n) ∅.

Definition mpeer_idle (x : mpeer) : Prop := mevents x = 0%nat /\ mtok x = 0%nat.
Definition mquiescent (s : mstate) : Prop :=
  map_Forall (fun _ l => l = []) (mlinks s) /\ map_Forall (fun _ x => mpeer_idle x) (mp s).
Global Instance mpeer_idle_dec x : Decision (mpeer_idle x).
Proof. unfold mpeer_idle. apply _. Defined.
Global Instance mquiescent_dec s : Decision (mquiescent s).
Proof. unfold mquiescent. apply _. Defined.
Definition mquiescentb (s : mstate) : bool := bool_decide (mquiescent s).

Definition mpeers (s : mstate) (p : peer) : Prop := p = host \/ p ∈ mconn s.

Definition mwf (s : mstate) : Prop :=
  NoDup (mconn s) /\ host ∉ mconn s /\
  (forall p, is_Some (mp s !! p) <-> mpeers s p) /\
  (forall a b, mlink s a b <> [] -> (a = host /\ b ∈ mconn s) \/ (b = host /\ a ∈ mconn s)).

Definition mpublished (tr : list mevent) : list content :=
  omap (fun e => match e with MPublish _ c => Some c | _ => None end) tr.
Definition mpublishers (tr : list mevent) : list peer :=
  omap (fun e => match e with MPublish p _ => Some p | _ => None end) tr.
Definition monly_publisher (w : peer) (tr : list mevent) : Prop := Forall (fun p => p = w) (mpublishers tr).
Definition mplain (e : mevent) : Prop :=
  match e with MPublish _ _ | MJoin _ => False | _ => True end.
Global Instance mplain_dec e : Decision (mplain e).
Proof. destruct e; simpl; apply _. Defined.

Definition mjoins (tr : list mevent) : list peer :=
  omap (fun e => match e with MJoin c => Some c | _ => None end) tr.

(* the publisher changes only in quiescent states (the same peer may publish at any pace) *)
Fixpoint mhandover_at_quiescence (w : peer) (s : mstate) (tr : list mevent) : bool :=
  match tr with
  | [] => true
  | e :: tr =>
      match mstep s e with
      | None => true
      | Some s' =>
          match e with
          | MPublish p _ => (bool_decide (p = w) || mquiescentb s) && mhandover_at_quiescence p s' tr
          | _ => mhandover_at_quiescence w s' tr
          end
      end
  end.

(* what an MReact1 step of p would ORIGINATE (a local change; not a relay, not a snapshot) *)
Definition moriginates (s : mstate) (p : peer) : option content := (mreact1_peer (mgetp s p)).2.

Fixpoint mops_at_quiescence (s : mstate) (tr : list mevent) : bool :=
  match tr with
  | [] => true
  | e :: tr =>
      match mstep s e with
      | None => true
      | Some s' => (if decide (mplain e) then true else mquiescentb s) && mops_at_quiescence s' tr
      end
  end.

Definition msent1 (s : mstate) (e : mevent) : nat :=
  match e with
  | MReact1 p => match moriginates s p with Some _ => length (mdsts_of s p) | None => 0 end
  | MDeliver src dst =>
      match mlink s src dst with
      | _ :: _ => if (dst =? host)%N then length (others src (mconn s)) else 0
      | [] => 0
      end
  | MJoin _ => match mpstore s host with Some _ => 1 | None => 0 end
  | _ => 0
  end.
Fixpoint msent_react (k : nat) (s : mstate) (p : peer) : nat :=
  match k with
  | O => 0
  | S k => match mreact1 s p with Some s1 => msent1 s (MReact1 p) + msent_react k s1 p | None => 0 end
  end.
Definition msent_by (s : mstate) (e : mevent) : nat :=
  match e with
  | MReact p => msent_react (mpevents s p) s p
  | _ => msent1 s e
  end.
Fixpoint mtotal_sent (s : mstate) (tr : list mevent) : nat :=
  match tr with
  | [] => 0
  | e :: tr => match mstep s e with Some s' => msent_by s e + mtotal_sent s' tr | None => 0 end
  end.

Definition mview (s : mstate) (ps : list peer) : list (option content) * bool := (mpstore s <$> ps, mquiescentb s).

(* client 1 publishes, the host applies and relays, client 2 applies; the tokens swallow the echoes *)
Example ex_material :
  (fun s => mview s [0; 1; 2]%N) <$>
  mrun (minit 2) [MPublish 1 10; MReact 1; MDeliver 1 0; MDeliver 0 2; MReact 0; MReact 2;
                  MPublish 1 20; MReact 1; MDeliver 1 0; MReact 0; MDeliver 0 2; MReact 2]%N
  = Some ([Some 20; Some 20; Some 20]%N, true).
Proof. vm_compute. reflexivity. Qed.

Example ex_material_join :
  (fun s => mview s [0; 1; 2; 3]%N) <$>
  mrun (minit 2) [MPublish 0 10; MReact 0; MJoin 3; MDeliver 0 3; MDeliver 0 1; MDeliver 0 2;
                  MReact 1; MReact 2; MReact 3]%N
  = Some ([Some 10; Some 10; Some 10; Some 10]%N, true).
Proof. vm_compute. reflexivity. Qed.
