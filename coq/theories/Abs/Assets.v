(* placeholder *)
