(* Proofs about Abs/Downloads.v (no definitions of the model here). *)
From Coq Require Import Arith List Bool Lia.
Import ListNotations.
From BS Require Import Abs.Downloads.

Ltac proj :=
  cbn [version owed total base present requested arrived flights slot taken applied fst snd andb negb] in *.

(* ------------------------------------------------------------------------------------------ *)
(* 1, 2: the S31 history, before and after the repair                                          *)
(* ------------------------------------------------------------------------------------------ *)

Theorem downloads_unnumbered_refuted :
  exists tr s, no_fail tr /\ drun false dinit tr = Some s /\ dquiet s /\ version s > 0 /\ applied s <> Some (version s).
Proof.
  exists overtaking, (DState 2 0 2 2 false 0 0 [] None false (Some 1)).
  split; [vm_compute; reflexivity|].
  split; [vm_compute; reflexivity|].
  split; [vm_compute; repeat split|].
  split; [vm_compute; lia|].
  vm_compute. intros H. discriminate H.
Qed.

Example overtaking_repaired :
  exists s, drun true dinit overtaking_prefix = Some s /\ dquiet s /\ applied s = Some (version s) /\ version s = 2.
Proof.
  exists (DState 2 0 2 2 false 0 0 [] None false (Some 2)).
  split; [vm_compute; reflexivity|].
  split; [vm_compute; repeat split|].
  split; vm_compute; reflexivity.
Qed.

(* ------------------------------------------------------------------------------------------ *)
(* the list functions                                                                          *)
(* ------------------------------------------------------------------------------------------ *)

Lemma phase_of_In : forall n fl p, phase_of n fl = Some p -> In (n, p) fl.
Proof.
  intros n fl. induction fl as [|[m q] fl IH]; intros p H; cbn [phase_of] in H.
  - discriminate H.
  - destruct (Nat.eqb m n) eqn:E.
    + apply Nat.eqb_eq in E. injection H as H. subst. left. reflexivity.
    + right. apply IH. exact H.
Qed.

Lemma In_set_phase : forall n p fl m q,
  In (m, q) (set_phase n p fl) -> In (m, q) fl \/ (m = n /\ q = p).
Proof.
  intros n p fl. induction fl as [|[k r] fl IH]; intros m q H; cbn [set_phase] in H.
  - destruct H.
  - destruct (Nat.eqb k n) eqn:E.
    + apply Nat.eqb_eq in E. destruct H as [H|H].
      * injection H as H1 H2. subst. right. split; reflexivity.
      * left. right. exact H.
    + destruct H as [H|H].
      * left. left. exact H.
      * destruct (IH m q H) as [H'|H'].
        -- left. right. exact H'.
        -- right. exact H'.
Qed.

Lemma In_remove_flight : forall n fl x, In x (remove_flight n fl) -> In x fl.
Proof.
  intros n fl. induction fl as [|[k r] fl IH]; intros x H; cbn [remove_flight] in H.
  - destruct H.
  - destruct (Nat.eqb k n).
    + right. exact H.
    + destruct H as [H|H].
      * left. exact H.
      * right. apply IH. exact H.
Qed.

Lemma phase_of_set_phase_ne : forall n p fl m, m <> n -> phase_of m (set_phase n p fl) = phase_of m fl.
Proof.
  intros n p fl m Hne. induction fl as [|[k r] fl IH]; cbn [set_phase phase_of].
  - reflexivity.
  - destruct (Nat.eqb k n) eqn:E.
    + apply Nat.eqb_eq in E. subst k. cbn [phase_of].
      destruct (Nat.eqb n m) eqn:E2.
      * apply Nat.eqb_eq in E2. subst. contradiction Hne. reflexivity.
      * reflexivity.
    + cbn [phase_of]. destruct (Nat.eqb k m); [reflexivity|exact IH].
Qed.

Lemma phase_of_set_phase_eq : forall n p fl q, phase_of n fl = Some q -> phase_of n (set_phase n p fl) = Some p.
Proof.
  intros n p fl. induction fl as [|[k r] fl IH]; intros q H; cbn [phase_of] in H.
  - discriminate H.
  - cbn [set_phase]. destruct (Nat.eqb k n) eqn:E.
    + cbn [phase_of]. rewrite E. reflexivity.
    + cbn [phase_of]. rewrite E. apply IH with q. exact H.
Qed.

Lemma phase_of_remove_ne : forall n fl m, m <> n -> phase_of m (remove_flight n fl) = phase_of m fl.
Proof.
  intros n fl m Hne. induction fl as [|[k r] fl IH]; cbn [remove_flight phase_of].
  - reflexivity.
  - destruct (Nat.eqb k n) eqn:E.
    + apply Nat.eqb_eq in E. subst k.
      destruct (Nat.eqb n m) eqn:E2.
      * apply Nat.eqb_eq in E2. subst. contradiction Hne. reflexivity.
      * reflexivity.
    + cbn [phase_of]. destruct (Nat.eqb k m); [reflexivity|exact IH].
Qed.

Lemma phase_of_app_some : forall m fl l p, phase_of m fl = Some p -> phase_of m (fl ++ l) = Some p.
Proof.
  intros m fl l. induction fl as [|[k r] fl IH]; intros p H; cbn [phase_of] in H.
  - discriminate H.
  - cbn [app phase_of]. destruct (Nat.eqb k m); [exact H|apply IH; exact H].
Qed.

Lemma phase_of_app_none : forall m fl l, phase_of m fl = None -> phase_of m (fl ++ l) = phase_of m l.
Proof.
  intros m fl l. induction fl as [|[k r] fl IH]; intros H; cbn [phase_of] in H.
  - reflexivity.
  - cbn [app phase_of]. destruct (Nat.eqb k m); [discriminate H|apply IH; exact H].
Qed.

(* ------------------------------------------------------------------------------------------ *)
(* the shape of the steps that end with [collect]                                              *)
(* ------------------------------------------------------------------------------------------ *)

Definition finish_pre (s : dstate) (n : nat) : dstate :=
  DState (version s) (owed s) (total s) (base s) (present s) (requested s) (arrived s)
         (remove_flight n (flights s)) (slot s) (taken s) (applied s).

Definition applied_pre (s : dstate) : dstate :=
  DState (version s) (owed s) (total s) (base s) (present s) (requested s) (arrived s)
         (flights s) (slot s) false (applied s).

Lemma dstep_finish_inv : forall b s n s' o,
  dstep b s (DFinish n) = Some (s', o) ->
  phase_of n (flights s) = Some Landed /\ s' = fst (collect (finish_pre s n)).
Proof.
  intros b s n s' o H. unfold dstep in H. unfold finish_pre.
  destruct (phase_of n (flights s)) as [[|v|]|]; try discriminate H.
  cbv zeta in H. destruct (collect _) as [s2 r]. injection H as E1 E2. subst.
  split; reflexivity.
Qed.

Lemma dstep_finish : forall b s n,
  phase_of n (flights s) = Some Landed ->
  exists o, dstep b s (DFinish n) = Some (fst (collect (finish_pre s n)), o).
Proof.
  intros b s n H. unfold dstep, finish_pre. rewrite H. cbv zeta.
  destruct (collect _) as [s2 r]. exists (ORemoved r). reflexivity.
Qed.

Lemma dstep_applied_inv : forall b s s' o,
  dstep b s DApplied = Some (s', o) ->
  taken s = true /\ s' = fst (collect (applied_pre s)).
Proof.
  intros b s s' o H. unfold dstep in H. unfold applied_pre.
  destruct (taken s); [|discriminate H].
  cbv zeta in H. destruct (collect _) as [s2 r]. injection H as E1 E2. subst.
  split; reflexivity.
Qed.

Lemma dstep_applied : forall b s,
  taken s = true ->
  exists o, dstep b s DApplied = Some (fst (collect (applied_pre s)), o).
Proof.
  intros b s H. unfold dstep, applied_pre. rewrite H. cbv zeta.
  destruct (collect _) as [s2 r]. exists (ORemoved r). reflexivity.
Qed.

Lemma collect_fields : forall s,
  version (fst (collect s)) = version s /\ owed (fst (collect s)) = owed s /\
  flights (fst (collect s)) = flights s /\ slot (fst (collect s)) = slot s /\
  taken (fst (collect s)) = taken s /\ applied (fst (collect s)) = applied s /\
  total (fst (collect s)) = total s.
Proof.
  intros s. unfold collect.
  destruct (present s && (length (flights s) =? 0) &&
            negb (match slot s with Some _ => true | None => false end)); proj; repeat split.
Qed.

(* ------------------------------------------------------------------------------------------ *)
(* the invariant of every run                                                                  *)
(* ------------------------------------------------------------------------------------------ *)

Record Inv (s : dstate) : Prop := {
  inv_ver : total s + owed s = version s;
  inv_pres : present s = true -> base s + requested s = total s /\ 1 <= requested s;
  inv_abs : present s = false -> flights s = [] /\ slot s = None /\ requested s = 0 /\ arrived s = 0;
  inv_arr : arrived s <= requested s;
  inv_num : forall n p, In (n, p) (flights s) -> 1 <= n <= requested s;
  inv_fet : forall n v, In (n, Fetched v) (flights s) -> base s + n <= v <= version s;
  inv_new : arrived s > 0 ->
            exists v, (slot s = Some v \/ (slot s = None /\ applied s = Some v)) /\
                      base s + arrived s <= v <= version s;
  inv_slot : forall v, slot s = Some v -> 1 <= v <= version s;
  inv_app : forall v, applied s = Some v -> 1 <= v <= version s
}.

Lemma inv_init : Inv dinit.
Proof.
  constructor; unfold dinit; proj.
  - reflexivity.
  - intros H. discriminate H.
  - intros _. repeat split.
  - lia.
  - intros n p H. destruct H.
  - intros n v H. destruct H.
  - intros H. lia.
  - intros v H. discriminate H.
  - intros v H. discriminate H.
Qed.

Lemma collect_true : forall s,
  present s && (length (flights s) =? 0) && negb (match slot s with Some _ => true | None => false end) = true ->
  present s = true /\ flights s = [] /\ slot s = None.
Proof.
  intros s Hc. apply andb_true_iff in Hc as [Hc Hsl]. apply andb_true_iff in Hc as [Hpr Hfl].
  apply Nat.eqb_eq in Hfl. apply length_zero_iff_nil in Hfl.
  split; [exact Hpr|]. split; [exact Hfl|].
  destruct (slot s); [discriminate Hsl|reflexivity].
Qed.

Lemma inv_collect : forall s, Inv s -> Inv (fst (collect s)).
Proof.
  intros s HI. unfold collect.
  destruct (present s && (length (flights s) =? 0) &&
            negb (match slot s with Some _ => true | None => false end)) eqn:Hc; cbn [fst]; [|exact HI].
  apply collect_true in Hc as (Hpr & Hfl & Hsl).
  destruct HI as [Hver Hpres Habs Harr Hnum Hfet Hnew Hslot Happ].
  constructor; proj.
  - exact Hver.
  - intros H. discriminate H.
  - intros _. repeat split; assumption.
  - lia.
  - rewrite Hfl. intros n p H. destruct H.
  - rewrite Hfl. intros n v H. destruct H.
  - intros H. lia.
  - exact Hslot.
  - exact Happ.
Qed.

Lemma absent_no_phase : forall s n p,
  (present s = false -> flights s = [] /\ slot s = None /\ requested s = 0 /\ arrived s = 0) ->
  phase_of n (flights s) = Some p -> present s = true.
Proof.
  intros s n p Habs Hph. destruct (present s) eqn:Hp; [reflexivity|].
  destruct (Habs eq_refl) as [Hf _]. rewrite Hf in Hph. discriminate Hph.
Qed.

Lemma step_inv : forall s e s' o, Inv s -> dstep true s e = Some (s', o) -> Inv s'.
Proof.
  intros s e s' o HI Hs.
  destruct e as [| |n|n|n|n| |].
  - (* DPublish *)
    destruct HI as [Hver Hpres Habs Harr Hnum Hfet Hnew Hslot Happ].
    unfold dstep in Hs. injection Hs as Es Eo. subst s' o.
    constructor; proj.
    + lia.
    + exact Hpres.
    + exact Habs.
    + exact Harr.
    + exact Hnum.
    + intros n v Hin. specialize (Hfet n v Hin). lia.
    + intros Ha. destruct (Hnew Ha) as [v [Hv Hb]]. exists v. split; [exact Hv|lia].
    + intros v Hv. specialize (Hslot v Hv). lia.
    + intros v Hv. specialize (Happ v Hv). lia.
  - (* DRequest *)
    destruct HI as [Hver Hpres Habs Harr Hnum Hfet Hnew Hslot Happ].
    unfold dstep in Hs. destruct (owed s) as [|k] eqn:Ho; [discriminate Hs|].
    cbv zeta in Hs. injection Hs as Es Eo. subst s' o.
    constructor; proj.
    + lia.
    + intros _. destruct (present s) eqn:Hp.
      * destruct (Hpres eq_refl) as [H1 H2]. lia.
      * destruct (Habs eq_refl) as (H1 & H2 & H3 & H4). lia.
    + intros H. discriminate H.
    + lia.
    + intros n p Hin. apply in_app_or in Hin as [Hin|[Heq|Hf]].
      * specialize (Hnum n p Hin). lia.
      * injection Heq as E1 E2. subst. lia.
      * destruct Hf.
    + intros n v Hin. apply in_app_or in Hin as [Hin|[Heq|Hf]].
      * destruct (present s) eqn:Hp.
        -- apply Hfet. exact Hin.
        -- destruct (Habs eq_refl) as [Hf _]. rewrite Hf in Hin. destruct Hin.
      * discriminate Heq.
      * destruct Hf.
    + intros Ha. destruct (present s) eqn:Hp.
      * exact (Hnew Ha).
      * destruct (Habs eq_refl) as (H1 & H2 & H3 & H4). lia.
    + exact Hslot.
    + exact Happ.
  - (* DFetch *)
    destruct HI as [Hver Hpres Habs Harr Hnum Hfet Hnew Hslot Happ].
    unfold dstep in Hs.
    destruct (phase_of n (flights s)) as [[|v|]|] eqn:Hph; try discriminate Hs.
    injection Hs as Es Eo. subst s' o.
    pose proof (absent_no_phase s n _ Habs Hph) as Hp.
    pose proof (phase_of_In _ _ _ Hph) as Hin0.
    constructor; proj; try assumption.
    + intros Hp'. rewrite Hp in Hp'. discriminate Hp'.
    + intros m p Hin. apply In_set_phase in Hin as [Hin|[Hm Hq]].
      * exact (Hnum m p Hin).
      * subst m. exact (Hnum n _ Hin0).
    + intros m v Hin. apply In_set_phase in Hin as [Hin|[Hm Hq]].
      * exact (Hfet m v Hin).
      * subst m. injection Hq as Hq. subst v.
        specialize (Hnum n _ Hin0). destruct (Hpres Hp) as [H1 H2]. lia.
  - (* DArrive *)
    destruct HI as [Hver Hpres Habs Harr Hnum Hfet Hnew Hslot Happ].
    unfold dstep in Hs.
    destruct (phase_of n (flights s)) as [[|v|]|] eqn:Hph; try discriminate Hs.
    pose proof (absent_no_phase s n _ Habs Hph) as Hp.
    pose proof (phase_of_In _ _ _ Hph) as Hin0.
    proj. destruct (n <? arrived s) eqn:Hlt; injection Hs as Es Eo; subst s' o.
    + constructor; proj; try assumption.
      * intros Hp'. rewrite Hp in Hp'. discriminate Hp'.
      * intros m p Hin. apply In_set_phase in Hin as [Hin|[Hm Hq]].
        -- exact (Hnum m p Hin).
        -- subst m. exact (Hnum n _ Hin0).
      * intros m v' Hin. apply In_set_phase in Hin as [Hin|[Hm Hq]].
        -- exact (Hfet m v' Hin).
        -- discriminate Hq.
    + constructor; proj; try assumption.
      * intros Hp'. rewrite Hp in Hp'. discriminate Hp'.
      * specialize (Hnum n _ Hin0). lia.
      * intros m p Hin. apply In_set_phase in Hin as [Hin|[Hm Hq]].
        -- exact (Hnum m p Hin).
        -- subst m. exact (Hnum n _ Hin0).
      * intros m v' Hin. apply In_set_phase in Hin as [Hin|[Hm Hq]].
        -- exact (Hfet m v' Hin).
        -- discriminate Hq.
      * intros _. exists v. split; [left; reflexivity|]. exact (Hfet n v Hin0).
      * intros v' Hv'. injection Hv' as Hv'. subst v'.
        specialize (Hfet n v Hin0). specialize (Hnum n _ Hin0). lia.
  - (* DFail *)
    destruct HI as [Hver Hpres Habs Harr Hnum Hfet Hnew Hslot Happ].
    unfold dstep in Hs.
    destruct (phase_of n (flights s)) as [[|v|]|] eqn:Hph; try discriminate Hs;
      injection Hs as Es Eo; subst s' o;
      pose proof (absent_no_phase s n _ Habs Hph) as Hp;
      pose proof (phase_of_In _ _ _ Hph) as Hin0.
    + constructor; proj; try assumption.
      * intros Hp'. rewrite Hp in Hp'. discriminate Hp'.
      * intros m p Hin. apply In_set_phase in Hin as [Hin|[Hm Hq]].
        -- exact (Hnum m p Hin).
        -- subst m. exact (Hnum n _ Hin0).
      * intros m v' Hin. apply In_set_phase in Hin as [Hin|[Hm Hq]].
        -- exact (Hfet m v' Hin).
        -- discriminate Hq.
    + constructor; proj; try assumption.
      * intros Hp'. rewrite Hp in Hp'. discriminate Hp'.
      * intros m p Hin. apply In_set_phase in Hin as [Hin|[Hm Hq]].
        -- exact (Hnum m p Hin).
        -- subst m. exact (Hnum n _ Hin0).
      * intros m v' Hin. apply In_set_phase in Hin as [Hin|[Hm Hq]].
        -- exact (Hfet m v' Hin).
        -- discriminate Hq.
  - (* DFinish *)
    apply dstep_finish_inv in Hs as [Hph Es]. subst s'. apply inv_collect.
    destruct HI as [Hver Hpres Habs Harr Hnum Hfet Hnew Hslot Happ].
    pose proof (absent_no_phase s n _ Habs Hph) as Hp.
    unfold finish_pre. constructor; proj; try assumption.
    + intros Hp'. rewrite Hp in Hp'. discriminate Hp'.
    + intros m p Hin. apply In_remove_flight in Hin. exact (Hnum m p Hin).
    + intros m v Hin. apply In_remove_flight in Hin. exact (Hfet m v Hin).
  - (* DTake *)
    destruct HI as [Hver Hpres Habs Harr Hnum Hfet Hnew Hslot Happ].
    unfold dstep in Hs.
    destruct (slot s) as [v|] eqn:Hsl; [|discriminate Hs].
    destruct (taken s) eqn:Htk; [discriminate Hs|].
    injection Hs as Es Eo. subst s' o.
    constructor; proj; try assumption.
    + intros Hp. destruct (Habs Hp) as (H1 & H2 & H3 & H4). discriminate H2.
    + intros Ha. destruct (Hnew Ha) as [v' [[Hv'|[Hv' _]] Hb]]; [|discriminate Hv'].
      injection Hv' as Hv'. subst v'. exists v. split; [right; split; reflexivity|exact Hb].
    + intros v' Hv'. discriminate Hv'.
  - (* DApplied *)
    apply dstep_applied_inv in Hs as [Htk Es]. subst s'. apply inv_collect.
    destruct HI as [Hver Hpres Habs Harr Hnum Hfet Hnew Hslot Happ].
    unfold applied_pre. constructor; proj; assumption.
Qed.

Lemma run_inv : forall tr s s', Inv s -> drun true s tr = Some s' -> Inv s'.
Proof.
  induction tr as [|e tr IH]; intros s s' HI Hr; cbn [drun] in Hr.
  - injection Hr as Hr. subst. exact HI.
  - destruct (dstep true s e) as [[s1 o]|] eqn:Hs; [|discriminate Hr].
    apply IH with s1; [|exact Hr]. apply step_inv with s e o; assumption.
Qed.

(* ------------------------------------------------------------------------------------------ *)
(* the invariant of the runs without failures                                                  *)
(* ------------------------------------------------------------------------------------------ *)

Definition live (n : nat) (fl : list (nat * phase)) : Prop :=
  phase_of n fl = Some Asked \/ exists v, phase_of n fl = Some (Fetched v).

Record InvNF (s : dstate) : Prop := {
  nf_cov : forall n, arrived s < n <= requested s -> live n (flights s);
  nf_abs : present s = false -> total s > 0 ->
           exists v, applied s = Some v /\ total s <= v <= version s
}.

Lemma nf_init : InvNF dinit.
Proof.
  constructor; unfold dinit; proj.
  - intros n H. lia.
  - intros _ H. lia.
Qed.

Lemma live_not_landed : forall n fl, live n fl -> phase_of n fl <> Some Landed.
Proof.
  intros n fl [H|[v H]] H'; rewrite H in H'; discriminate H'.
Qed.

Lemma nf_collect : forall s, Inv s -> InvNF s -> InvNF (fst (collect s)).
Proof.
  intros s HI HN. unfold collect.
  destruct (present s && (length (flights s) =? 0) &&
            negb (match slot s with Some _ => true | None => false end)) eqn:Hc; cbn [fst]; [|exact HN].
  apply collect_true in Hc as (Hpr & Hfl & Hsl).
  destruct HI as [Hver Hpres Habs Harr Hnum Hfet Hnew Hslot Happ].
  destruct HN as [Hcov Hnab].
  constructor; proj.
  - intros n H. lia.
  - intros _ Htot. destruct (Hpres Hpr) as [H1 H2].
    assert (Har : arrived s = requested s).
    { destruct (Nat.eq_dec (arrived s) (requested s)) as [E|E]; [exact E|].
      assert (Hl : live (requested s) (flights s)) by (apply Hcov; lia).
      rewrite Hfl in Hl. destruct Hl as [Hl|[v Hl]]; discriminate Hl. }
    assert (Ha : arrived s > 0) by lia.
    destruct (Hnew Ha) as [v [[Hv|[_ Hv]] Hb]].
    + rewrite Hsl in Hv. discriminate Hv.
    + exists v. split; [exact Hv|lia].
Qed.

Lemma step_nf : forall s e s' o,
  Inv s -> InvNF s -> is_fail e = false -> dstep true s e = Some (s', o) -> InvNF s'.
Proof.
  intros s e s' o HI HN He Hs.
  destruct e as [| |n|n|n|n| |].
  - (* DPublish *)
    destruct HN as [Hcov Hnab].
    unfold dstep in Hs. injection Hs as Es Eo. subst s' o.
    constructor; proj.
    + exact Hcov.
    + intros Hp Ht. destruct (Hnab Hp Ht) as [v [Hv Hb]]. exists v. split; [exact Hv|lia].
  - (* DRequest *)
    destruct HI as [Hver Hpres Habs Harr Hnum Hfet Hnew Hslot Happ].
    destruct HN as [Hcov Hnab].
    unfold dstep in Hs. destruct (owed s) as [|k] eqn:Ho; [discriminate Hs|].
    cbv zeta in Hs. injection Hs as Es Eo. subst s' o.
    constructor; proj.
    + intros m Hm. unfold live.
      destruct (Nat.eq_dec m (S (requested s))) as [E|E].
      * subst m. destruct (phase_of (S (requested s)) (flights s)) as [p|] eqn:Hp0.
        -- apply phase_of_In in Hp0. specialize (Hnum _ _ Hp0). lia.
        -- rewrite (phase_of_app_none _ _ _ Hp0). cbn [phase_of]. rewrite Nat.eqb_refl.
           left. reflexivity.
      * assert (Hl : live m (flights s)) by (apply Hcov; lia).
        destruct Hl as [Hl|[v Hl]].
        -- left. apply phase_of_app_some. exact Hl.
        -- right. exists v. apply phase_of_app_some. exact Hl.
    + intros H. discriminate H.
  - (* DFetch *)
    destruct HN as [Hcov Hnab].
    unfold dstep in Hs.
    destruct (phase_of n (flights s)) as [[|v|]|] eqn:Hph; try discriminate Hs.
    injection Hs as Es Eo. subst s' o.
    constructor; proj.
    + intros m Hm. unfold live. destruct (Nat.eq_dec m n) as [E|E].
      * subst m. right. exists (version s). apply phase_of_set_phase_eq with Asked. exact Hph.
      * rewrite (phase_of_set_phase_ne _ _ _ _ E). apply Hcov. exact Hm.
    + exact Hnab.
  - (* DArrive *)
    destruct HI as [Hver Hpres Habs Harr Hnum Hfet Hnew Hslot Happ].
    destruct HN as [Hcov Hnab].
    unfold dstep in Hs.
    destruct (phase_of n (flights s)) as [[|v|]|] eqn:Hph; try discriminate Hs.
    proj. destruct (n <? arrived s) eqn:Hlt; injection Hs as Es Eo; subst s' o.
    + apply Nat.ltb_lt in Hlt. constructor; proj.
      * intros m Hm. unfold live. assert (E : m <> n) by lia.
        rewrite (phase_of_set_phase_ne _ _ _ _ E). apply Hcov. exact Hm.
      * exact Hnab.
    + constructor; proj.
      * intros m Hm. unfold live. assert (E : m <> n) by lia.
        rewrite (phase_of_set_phase_ne _ _ _ _ E). apply Hcov.
        apply Nat.ltb_ge in Hlt. lia.
      * exact Hnab.
  - (* DFail *)
    cbn [is_fail] in He. discriminate He.
  - (* DFinish *)
    apply dstep_finish_inv in Hs as [Hph Es].
    assert (HI1 : Inv (finish_pre s n)).
    { destruct HI as [Hver Hpres Habs Harr Hnum Hfet Hnew Hslot Happ].
      pose proof (absent_no_phase s n _ Habs Hph) as Hp.
      unfold finish_pre. constructor; proj; try assumption.
      + intros Hp'. rewrite Hp in Hp'. discriminate Hp'.
      + intros m p Hin. apply In_remove_flight in Hin. exact (Hnum m p Hin).
      + intros m v Hin. apply In_remove_flight in Hin. exact (Hfet m v Hin). }
    subst s'. apply nf_collect; [exact HI1|].
    destruct HN as [Hcov Hnab].
    unfold finish_pre. constructor; proj.
    + intros m Hm. specialize (Hcov m Hm). unfold live.
      assert (E : m <> n).
      { intros E. subst m. apply live_not_landed in Hcov. contradiction. }
      rewrite (phase_of_remove_ne _ _ _ E). exact Hcov.
    + exact Hnab.
  - (* DTake *)
    destruct HI as [Hver Hpres Habs Harr Hnum Hfet Hnew Hslot Happ].
    destruct HN as [Hcov Hnab].
    unfold dstep in Hs.
    destruct (slot s) as [v|] eqn:Hsl; [|discriminate Hs].
    destruct (taken s) eqn:Htk; [discriminate Hs|].
    injection Hs as Es Eo. subst s' o.
    constructor; proj.
    + exact Hcov.
    + intros Hp. destruct (Habs Hp) as (H1 & H2 & H3 & H4). discriminate H2.
  - (* DApplied *)
    apply dstep_applied_inv in Hs as [Htk Es].
    assert (HI1 : Inv (applied_pre s)).
    { destruct HI as [Hver Hpres Habs Harr Hnum Hfet Hnew Hslot Happ].
      unfold applied_pre. constructor; proj; assumption. }
    subst s'. apply nf_collect; [exact HI1|].
    destruct HN as [Hcov Hnab].
    unfold applied_pre. constructor; proj; assumption.
Qed.

Lemma no_fail_cons : forall e tr, no_fail (e :: tr) -> is_fail e = false /\ no_fail tr.
Proof.
  intros e tr H. unfold no_fail in *. cbn [forallb] in H.
  apply andb_true_iff in H as [H1 H2]. split; [|exact H2].
  destruct (is_fail e); [discriminate H1|reflexivity].
Qed.

Lemma run_nf : forall tr s s',
  Inv s -> InvNF s -> no_fail tr -> drun true s tr = Some s' -> InvNF s'.
Proof.
  induction tr as [|e tr IH]; intros s s' HI HN Hnf Hr; cbn [drun] in Hr.
  - injection Hr as Hr. subst. exact HN.
  - destruct (dstep true s e) as [[s1 o]|] eqn:Hs; [|discriminate Hr].
    apply no_fail_cons in Hnf as [He Hnf].
    apply IH with s1; [| |exact Hnf|exact Hr].
    + apply step_inv with s e o; assumption.
    + apply step_nf with s e o; assumption.
Qed.

(* ------------------------------------------------------------------------------------------ *)
(* 3: convergence                                                                              *)
(* ------------------------------------------------------------------------------------------ *)

Theorem downloads_converge :
  forall tr s, no_fail tr -> drun true dinit tr = Some s -> dquiet s -> version s > 0 ->
    applied s = Some (version s).
Proof.
  intros tr s Hnf Hr Hq Hv.
  pose proof (run_inv tr dinit s inv_init Hr) as HI.
  pose proof (run_nf tr dinit s inv_init nf_init Hnf Hr) as HN.
  destruct Hq as (How & Hfl & Hsl & Htk).
  destruct HI as [Hver Hpres Habs Harr Hnum Hfet Hnew Hslot Happ].
  destruct HN as [Hcov Hnab].
  destruct (present s) eqn:Hp.
  - destruct (Hpres eq_refl) as [H1 H2].
    assert (Har : arrived s = requested s).
    { destruct (Nat.eq_dec (arrived s) (requested s)) as [E|E]; [exact E|].
      assert (Hl : live (requested s) (flights s)) by (apply Hcov; lia).
      rewrite Hfl in Hl. destruct Hl as [Hl|[v Hl]]; discriminate Hl. }
    assert (Ha : arrived s > 0) by lia.
    destruct (Hnew Ha) as [v [[Hv'|[_ Hv']] Hb]].
    + rewrite Hsl in Hv'. discriminate Hv'.
    + rewrite Hv'. f_equal. lia.
  - assert (Ht : total s > 0) by lia.
    destruct (Hnab eq_refl Ht) as [v [Hv' Hb]].
    rewrite Hv'. f_equal. lia.
Qed.

(* ------------------------------------------------------------------------------------------ *)
(* 4: safety                                                                                   *)
(* ------------------------------------------------------------------------------------------ *)

Theorem downloads_safe :
  forall tr s, drun true dinit tr = Some s ->
    (flights s <> [] -> present s = true) /\
    arrived s <= requested s /\
    (present s = false -> requested s = 0 /\ arrived s = 0) /\
    (forall v, applied s = Some v -> 1 <= v <= version s) /\
    (forall v, slot s = Some v -> 1 <= v <= version s).
Proof.
  intros tr s Hr.
  pose proof (run_inv tr dinit s inv_init Hr) as HI.
  destruct HI as [Hver Hpres Habs Harr Hnum Hfet Hnew Hslot Happ].
  split; [|split; [|split; [|split]]].
  - intros Hf. destruct (present s) eqn:Hp; [reflexivity|].
    destruct (Habs eq_refl) as [H1 _]. contradiction.
  - exact Harr.
  - intros Hp. destruct (Habs Hp) as (H1 & H2 & H3 & H4). split; assumption.
  - exact Happ.
  - exact Hslot.
Qed.

(* ------------------------------------------------------------------------------------------ *)
(* 5: every state can be completed                                                             *)
(* ------------------------------------------------------------------------------------------ *)

Definition reach (s s' : dstate) : Prop :=
  exists tr, drun true s tr = Some s' /\ no_fail tr.

Lemma drun_app : forall b t1 t2 s,
  drun b s (t1 ++ t2) = match drun b s t1 with Some s' => drun b s' t2 | None => None end.
Proof.
  intros b t1 t2. induction t1 as [|e t1 IH]; intros s; cbn [app drun].
  - reflexivity.
  - destruct (dstep b s e) as [[s1 o]|]; [apply IH|reflexivity].
Qed.

Lemma no_fail_app : forall t1 t2, no_fail t1 -> no_fail t2 -> no_fail (t1 ++ t2).
Proof.
  intros t1 t2 H1 H2. unfold no_fail in *. rewrite forallb_app. rewrite H1, H2. reflexivity.
Qed.

Lemma reach_refl : forall s, reach s s.
Proof.
  intros s. exists []. split; reflexivity.
Qed.

Lemma reach_trans : forall s1 s2 s3, reach s1 s2 -> reach s2 s3 -> reach s1 s3.
Proof.
  intros s1 s2 s3 [t1 [H1 N1]] [t2 [H2 N2]]. exists (t1 ++ t2). split.
  - rewrite drun_app. rewrite H1. exact H2.
  - apply no_fail_app; assumption.
Qed.

Lemma reach_step : forall s e s' o, is_fail e = false -> dstep true s e = Some (s', o) -> reach s s'.
Proof.
  intros s e s' o He Hs. exists [e]. split.
  - cbn [drun]. rewrite Hs. reflexivity.
  - unfold no_fail. cbn [forallb]. rewrite He. reflexivity.
Qed.

(* all owed announcements are handled *)
Lemma reach_requests : forall k s, owed s = k ->
  exists s', reach s s' /\ owed s' = 0 /\ version s' = version s.
Proof.
  induction k as [|k IH]; intros s Ho.
  - exists s. split; [apply reach_refl|]. split; [exact Ho|reflexivity].
  - pose (s1 := DState (version s) k (S (total s)) (if present s then base s else total s) true
                       (S (requested s)) (arrived s) (flights s ++ [(S (requested s), Asked)])
                       (slot s) (taken s) (applied s)).
    assert (Hs : dstep true s DRequest = Some (s1, ONumber (S (requested s)))).
    { unfold dstep. rewrite Ho. reflexivity. }
    destruct (IH s1 eq_refl) as [s' [Hr [Ho' Hv']]].
    exists s'. split; [|split; [exact Ho'|exact Hv']].
    apply reach_trans with s1; [|exact Hr].
    apply reach_step with DRequest (ONumber (S (requested s))); [reflexivity|exact Hs].
Qed.

(* the download at the head of the list is brought to its end *)
Lemma reach_head_landed : forall s n fl, flights s = (n, Landed) :: fl ->
  exists s', reach s s' /\ flights s' = fl /\ owed s' = owed s /\ version s' = version s.
Proof.
  intros s n fl Hfl.
  assert (Hph : phase_of n (flights s) = Some Landed).
  { rewrite Hfl. cbn [phase_of]. rewrite Nat.eqb_refl. reflexivity. }
  destruct (dstep_finish true s n Hph) as [o Hs].
  exists (fst (collect (finish_pre s n))).
  split; [apply reach_step with (DFinish n) o; [reflexivity|exact Hs]|].
  destruct (collect_fields (finish_pre s n)) as (Hv & Ho & Hf & _).
  rewrite Hv, Ho, Hf. unfold finish_pre. proj. rewrite Hfl. cbn [remove_flight].
  rewrite Nat.eqb_refl. repeat split.
Qed.

Lemma reach_head_fetched : forall s n v fl, flights s = (n, Fetched v) :: fl ->
  exists s', reach s s' /\ flights s' = fl /\ owed s' = owed s /\ version s' = version s.
Proof.
  intros s n v fl Hfl.
  assert (Hph : phase_of n (flights s) = Some (Fetched v)).
  { rewrite Hfl. cbn [phase_of]. rewrite Nat.eqb_refl. reflexivity. }
  assert (Hs : exists s1 o, dstep true s (DArrive n) = Some (s1, o) /\
                 flights s1 = set_phase n Landed (flights s) /\ owed s1 = owed s /\ version s1 = version s).
  { unfold dstep. rewrite Hph. cbn [andb].
    destruct (n <? arrived s); eexists; eexists; (split; [reflexivity|]); proj; repeat split. }
  destruct Hs as [s1 [o [Hs [Hf1 [Ho1 Hv1]]]]].
  rewrite Hfl in Hf1. cbn [set_phase] in Hf1. rewrite Nat.eqb_refl in Hf1.
  destruct (reach_head_landed s1 n fl Hf1) as [s' [Hr [Hf' [Ho' Hv']]]].
  exists s'. split; [|split; [exact Hf'|split; [rewrite Ho'; exact Ho1|rewrite Hv'; exact Hv1]]].
  apply reach_trans with s1; [|exact Hr].
  apply reach_step with (DArrive n) o; [reflexivity|exact Hs].
Qed.

Lemma reach_head_asked : forall s n fl, flights s = (n, Asked) :: fl ->
  exists s', reach s s' /\ flights s' = fl /\ owed s' = owed s /\ version s' = version s.
Proof.
  intros s n fl Hfl.
  assert (Hph : phase_of n (flights s) = Some Asked).
  { rewrite Hfl. cbn [phase_of]. rewrite Nat.eqb_refl. reflexivity. }
  pose (s1 := DState (version s) (owed s) (total s) (base s) (present s) (requested s) (arrived s)
                     (set_phase n (Fetched (version s)) (flights s)) (slot s) (taken s) (applied s)).
  assert (Hs : dstep true s (DFetch n) = Some (s1, ONone)).
  { unfold dstep. rewrite Hph. reflexivity. }
  assert (Hf1 : flights s1 = (n, Fetched (version s)) :: fl).
  { unfold s1. proj. rewrite Hfl. cbn [set_phase]. rewrite Nat.eqb_refl. reflexivity. }
  destruct (reach_head_fetched s1 n (version s) fl Hf1) as [s' [Hr [Hf' [Ho' Hv']]]].
  exists s'. split; [|split; [exact Hf'|split; [exact Ho'|exact Hv']]].
  apply reach_trans with s1; [|exact Hr].
  apply reach_step with (DFetch n) ONone; [reflexivity|exact Hs].
Qed.

Lemma reach_flights : forall fl s, flights s = fl ->
  exists s', reach s s' /\ flights s' = [] /\ owed s' = owed s /\ version s' = version s.
Proof.
  induction fl as [|[n p] fl IH]; intros s Hfl.
  - exists s. split; [apply reach_refl|]. split; [exact Hfl|split; reflexivity].
  - assert (H1 : exists s1, reach s s1 /\ flights s1 = fl /\ owed s1 = owed s /\ version s1 = version s).
    { destruct p as [|v|].
      - apply reach_head_asked with n. exact Hfl.
      - apply reach_head_fetched with n v. exact Hfl.
      - apply reach_head_landed with n. exact Hfl. }
    destruct H1 as [s1 [Hr1 [Hf1 [Ho1 Hv1]]]].
    destruct (IH s1 Hf1) as [s' [Hr [Hf' [Ho' Hv']]]].
    exists s'. split; [apply reach_trans with s1; assumption|].
    split; [exact Hf'|]. split; [rewrite Ho'; exact Ho1|rewrite Hv'; exact Hv1].
Qed.

(* what waits is applied *)
Lemma reach_untake : forall s, taken s = true ->
  exists s', reach s s' /\ taken s' = false /\ slot s' = slot s /\ flights s' = flights s /\
             owed s' = owed s /\ version s' = version s.
Proof.
  intros s Htk. destruct (dstep_applied true s Htk) as [o Hs].
  exists (fst (collect (applied_pre s))).
  split; [apply reach_step with DApplied o; [reflexivity|exact Hs]|].
  destruct (collect_fields (applied_pre s)) as (Hv & Ho & Hf & Hsl & Ht & _).
  rewrite Hv, Ho, Hf, Hsl, Ht. unfold applied_pre. proj. repeat split.
Qed.

Lemma reach_take : forall s v, slot s = Some v -> taken s = false ->
  exists s', reach s s' /\ taken s' = true /\ slot s' = None /\ flights s' = flights s /\
             owed s' = owed s /\ version s' = version s.
Proof.
  intros s v Hsl Htk.
  pose (s1 := DState (version s) (owed s) (total s) (base s) (present s) (requested s) (arrived s)
                     (flights s) None true (Some v)).
  assert (Hs : dstep true s DTake = Some (s1, ONone)).
  { unfold dstep. rewrite Hsl, Htk. reflexivity. }
  exists s1. split; [apply reach_step with DTake ONone; [reflexivity|exact Hs]|].
  unfold s1. proj. repeat split.
Qed.

Lemma reach_tail : forall s, owed s = 0 -> flights s = [] ->
  exists s', reach s s' /\ dquiet s' /\ version s' = version s.
Proof.
  intros s Ho Hfl.
  (* first: not taken *)
  assert (H1 : exists s1, reach s s1 /\ taken s1 = false /\ flights s1 = [] /\ owed s1 = 0 /\
                          version s1 = version s).
  { destruct (taken s) eqn:Htk.
    - destruct (reach_untake s Htk) as [s1 (Hr & Ht & Hsl & Hf & Ho1 & Hv1)].
      exists s1. split; [exact Hr|]. split; [exact Ht|].
      split; [rewrite Hf; exact Hfl|]. split; [rewrite Ho1; exact Ho|exact Hv1].
    - exists s. split; [apply reach_refl|]. repeat split; assumption. }
  destruct H1 as [s1 (Hr1 & Ht1 & Hf1 & Ho1 & Hv1)].
  destruct (slot s1) as [v|] eqn:Hsl1.
  - destruct (reach_take s1 v Hsl1 Ht1) as [s2 (Hr2 & Ht2 & Hsl2 & Hf2 & Ho2 & Hv2)].
    destruct (reach_untake s2 Ht2) as [s3 (Hr3 & Ht3 & Hsl3 & Hf3 & Ho3 & Hv3)].
    exists s3. split; [|split].
    + apply reach_trans with s1; [exact Hr1|]. apply reach_trans with s2; assumption.
    + unfold dquiet. split; [|split; [|split]].
      * rewrite Ho3, Ho2. exact Ho1.
      * rewrite Hf3, Hf2. exact Hf1.
      * rewrite Hsl3. exact Hsl2.
      * exact Ht3.
    + rewrite Hv3, Hv2. exact Hv1.
  - exists s1. split; [exact Hr1|]. split; [|exact Hv1].
    unfold dquiet. repeat split; assumption.
Qed.

Lemma complete_any : forall s, exists s', reach s s' /\ dquiet s' /\ version s' = version s.
Proof.
  intros s.
  destruct (reach_requests (owed s) s eq_refl) as [s1 (Hr1 & Ho1 & Hv1)].
  destruct (reach_flights (flights s1) s1 eq_refl) as [s2 (Hr2 & Hf2 & Ho2 & Hv2)].
  assert (Ho2' : owed s2 = 0) by (rewrite Ho2; exact Ho1).
  destruct (reach_tail s2 Ho2' Hf2) as [s3 (Hr3 & Hq3 & Hv3)].
  exists s3. split; [|split; [exact Hq3|]].
  - apply reach_trans with s1; [exact Hr1|]. apply reach_trans with s2; assumption.
  - rewrite Hv3, Hv2. exact Hv1.
Qed.

Theorem downloads_complete :
  forall tr s, drun true dinit tr = Some s ->
    exists tr' s', drun true s tr' = Some s' /\ dquiet s' /\ version s' = version s /\ (no_fail tr -> no_fail tr').
Proof.
  intros tr s _.
  destruct (complete_any s) as [s' ([tr' [Hr Hnf]] & Hq & Hv)].
  exists tr', s'. split; [exact Hr|]. split; [exact Hq|]. split; [exact Hv|].
  intros _. exact Hnf.
Qed.

Print Assumptions downloads_unnumbered_refuted.
Print Assumptions overtaking_repaired.
Print Assumptions downloads_converge.
Print Assumptions downloads_safe.
Print Assumptions downloads_complete.
