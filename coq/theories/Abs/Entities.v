(* Event-level abstraction of the ENTITY slice of bevy_sync (property C01, traffic bound of C09).

   One host (peer 0) and any number of clients exchange EntitySpawn / EntityDelete /
   InitialSync / FinishedInitialSync over reliable ordered links (renet ReliableOrdered channel).
   The frame-level model is theories/Sync/Model.v (entity_created, entity_removed_server/client,
   server_received, client_received, CSendInitialSync); this file keeps only what matters for
   entity convergence and makes ONE observable thing happen per event:

     EvSpawn p u    entity_created_on_server / entity_created_on_client picks up ONE newly
                    marked entity and gives it the fresh uuid u
     EvDespawn p u  entity_removed_from_server / _client notices that ONE tracked entity is gone
     EvDeliver a b  poll_for_messages handles ONE message (server_received_a_message /
                    client_received_a_message)
     EvConnect c    ServerEvent::ClientConnected for c + c's verify_client_connected
                    (clears despawned_locally, InitialSync request)
     EvLeave c      c vanishes from RenetServer::clients_id

   What a client that is NOT connected may do (design decision, documented as requested):
   the client's tracker systems (entity_created_on_client, entity_removed_from_client) and its
   poll_for_messages run only in ClientState::Connected.  A non-connected client therefore
   neither announces new entities nor notices despawns nor handles messages: EvSpawn c / EvDespawn c
   are enabled only while c is in [conn]; an entity marked earlier is picked up by the first tracker
   run after the connection, i.e. it is an EvSpawn after EvConnect.  "Connected" is a single notion
   here: the host-side table [conn] (the client side reaches ClientState::Connected no earlier than
   the host-side handshake, and c's first message on (c,0) is its EReqInit).

   S18 repair (despawned_locally): a client remembers the uuids of synchronized entities it has
   despawned ITSELF during the current session ([tomb]) and its receiver ignores an ESpawn for one of
   them (checked before the duplicate guard).  The host keeps no tombstones.  EvLeave keeps the
   departed client's entities and tombstones; the tombstones are cleared by the next EvConnect
   (verify_client_connected, the moment the client requests its initial sync).

   Everything is computable (lists + gmap + decidable equality on N): step, run, init, quiescentb,
   agreeb, known_S11, dropped_uuids, spec_alive are meant to be extracted and replayed against real
   traces. *)
From Coq Require Import NArith List Bool Lia.
From stdpp Require Import gmap list.
Local Open Scope N_scope.

Definition uuid := N.
Definition peer := N.     (* peer 0 is the host *)

Inductive emsg := ESpawn (u : uuid) | EDelete (u : uuid) | EReqInit | EFinInit.

Global Instance emsg_eq_dec : EqDecision emsg.
Proof. solve_decision. Defined.

Record astate := {
  ents   : gmap peer (list uuid);          (* per peer: uuids of its live synchronized entities, one element per live entity *)
  conn   : list peer;                      (* clients in the host's client table *)
  synced : list peer;                      (* clients whose snapshot has been enqueued *)
  links  : gmap (peer * peer) (list emsg); (* (src, dst) -> FIFO queue *)
  used   : list uuid;                      (* uuids ever created (freshness) *)
  sent   : N;                              (* ghost counter: messages ever enqueued (C09) *)
  tomb   : gmap peer (list uuid);          (* per CLIENT: uuids of synchronized entities it has despawned itself
                                              in its current session (despawned_locally; cleared by EvConnect) *)
}.

Inductive event :=
| EvSpawn (p : peer) (u : uuid)
| EvDespawn (p : peer) (u : uuid)
| EvDeliver (src dst : peer)
| EvConnect (c : peer)
| EvLeave (c : peer).

(* ---------- views ---------------------------------------------------------------------------- *)

Definition get_ents (s : astate) (p : peer) : list uuid := default [] (ents s !! p).
Definition get_link (s : astate) (a b : peer) : list emsg := default [] (links s !! (a, b)).
Definition get_tomb (s : astate) (p : peer) : list uuid := default [] (tomb s !! p).

(* remove ONE occurrence *)
Fixpoint remove1 (u : uuid) (l : list uuid) : list uuid :=
  match l with
  | [] => []
  | x :: l' => if decide (x = u) then l' else x :: remove1 u l'
  end.

(* ---------- state updates -------------------------------------------------------------------- *)

Definition set_ents (s : astate) (p : peer) (l : list uuid) : astate :=
  {| ents := <[p := l]> (ents s); conn := conn s; synced := synced s; links := links s;
     used := used s; sent := sent s; tomb := tomb s |}.

Definition add_used (s : astate) (u : uuid) : astate :=
  {| ents := ents s; conn := conn s; synced := synced s; links := links s;
     used := u :: used s; sent := sent s; tomb := tomb s |}.

(* a CLIENT remembers that it has despawned u itself; the host keeps no tombstones *)
Definition add_tomb (s : astate) (p : peer) (u : uuid) : astate :=
  {| ents := ents s; conn := conn s; synced := synced s; links := links s;
     used := used s; sent := sent s;
     tomb := if decide (p = 0) then tomb s else <[p := u :: get_tomb s p]> (tomb s) |}.

(* a new session starts: the client forgets its tombstones *)
Definition clear_tomb (s : astate) (c : peer) : astate :=
  {| ents := ents s; conn := conn s; synced := synced s; links := links s;
     used := used s; sent := sent s; tomb := <[c := []]> (tomb s) |}.

Definition set_conn (s : astate) (cs sy : list peer) : astate :=
  {| ents := ents s; conn := cs; synced := sy; links := links s; used := used s; sent := sent s; tomb := tomb s |}.

(* enqueue ms at the tail of link (a,b) *)
Definition send (s : astate) (a b : peer) (ms : list emsg) : astate :=
  {| ents := ents s; conn := conn s; synced := synced s;
     links := <[(a, b) := get_link s a b ++ ms]> (links s);
     used := used s; sent := sent s + N.of_nat (length ms); tomb := tomb s |}.

(* replace the queue of (a,b) (used to pop the head) *)
Definition set_link (s : astate) (a b : peer) (q : list emsg) : astate :=
  {| ents := ents s; conn := conn s; synced := synced s; links := <[(a, b) := q]> (links s);
     used := used s; sent := sent s; tomb := tomb s |}.

Definition drop_links (s : astate) (c : peer) : astate :=
  {| ents := ents s; conn := conn s; synced := synced s;
     links := delete (0, c) (delete (c, 0) (links s));
     used := used s; sent := sent s; tomb := tomb s |}.

(* the host sends m to every client of cs *)
Definition bcast (s : astate) (cs : list peer) (m : emsg) : astate :=
  foldr (fun c s => send s 0 c [m]) s cs.

Definition others (s : astate) (c : peer) : list peer := filter (fun x => x <> c) (conn s).

(* host: broadcast to conn; client: one message to the host *)
Definition announce (s : astate) (p : peer) (m : emsg) : astate :=
  if decide (p = 0) then bcast s (conn s) m else send s p 0 [m].

Definition peer_on (s : astate) (p : peer) : bool :=
  bool_decide (p = 0) || bool_decide (p ∈ conn s).

(* ---------- handlers ------------------------------------------------------------------------- *)

(* server_received_a_message, from client c *)
Definition host_handle (s : astate) (c : peer) (m : emsg) : astate :=
  match m with
  | ESpawn u =>                   (* no duplicate check on the host *)
      bcast (set_ents s 0 (u :: get_ents s 0)) (others s c) (ESpawn u)
  | EDelete u =>                  (* despawn if known; ALWAYS repeat_except_for_client *)
      bcast (set_ents s 0 (remove1 u (get_ents s 0))) (others s c) (EDelete u)
  | EReqInit =>                   (* send_initial_sync *)
      let s := send s 0 c ((ESpawn <$> get_ents s 0) ++ [EFinInit]) in
      set_conn s (conn s) (c :: synced s)
  | EFinInit => s
  end.

(* client_received_a_message on client c; clients never relay *)
Definition client_handle (s : astate) (c : peer) (m : emsg) : astate :=
  match m with
  | ESpawn u =>
      if bool_decide (u ∈ get_tomb s c) then s          (* despawned_locally: ignored (S18 repair) *)
      else if bool_decide (u ∈ get_ents s c) then s     (* duplicate guard *)
      else set_ents s c (u :: get_ents s c)
  | EDelete u => set_ents s c (remove1 u (get_ents s c))
  | EReqInit | EFinInit => s
  end.

(* ---------- transition function -------------------------------------------------------------- *)

Definition step (s : astate) (e : event) : option astate :=
  match e with
  | EvSpawn p u =>
      if peer_on s p && bool_decide (u ∉ used s) then
        Some (announce (add_used (set_ents s p (u :: get_ents s p)) u) p (ESpawn u))
      else None
  | EvDespawn p u =>
      if peer_on s p && bool_decide (u ∈ get_ents s p) then
        Some (announce (add_tomb (set_ents s p (remove1 u (get_ents s p))) p u) p (EDelete u))
      else None
  | EvDeliver src dst =>
      match get_link s src dst with
      | [] => None
      | m :: q =>
          let s1 := set_link s src dst q in
          if decide (dst = 0) then
            if decide (src = 0) then None else Some (host_handle s1 src m)
          else if decide (src = 0) then Some (client_handle s1 dst m)
          else None
      end
  | EvConnect c =>
      if bool_decide (c <> 0) && bool_decide (c ∉ conn s) then
        Some (send (clear_tomb (set_conn s (c :: conn s) (synced s)) c) c 0 [EReqInit])
      else None
  | EvLeave c =>
      if bool_decide (c ∈ conn s) then
        Some (drop_links (set_conn s (filter (fun x => x <> c) (conn s))
                                     (filter (fun x => x <> c) (synced s))) c)
      else None
  end.

Fixpoint run (s : astate) (tr : list event) : option astate :=
  match tr with
  | [] => Some s
  | e :: tr' => match step s e with Some s' => run s' tr' | None => None end
  end.

Definition init : astate :=
  {| ents := ∅; conn := []; synced := []; links := ∅; used := []; sent := 0; tomb := ∅ |}.

(* ---------- observations --------------------------------------------------------------------- *)

Definition quiescentb (s : astate) : bool :=
  forallb (fun kq => match snd kq with [] => true | _ => false end) (map_to_list (links s)).
Definition quiescent (s : astate) : Prop := forall a b, get_link s a b = [].

Definition same_set (l1 l2 : list uuid) : bool :=
  forallb (fun u => bool_decide (u ∈ l2)) l1 && forallb (fun u => bool_decide (u ∈ l1)) l2.

(* the host and every connected, synced client hold the same set of uuids, each exactly once *)
Definition agree (s : astate) : Prop :=
  NoDup (get_ents s 0) /\
  forall c, c ∈ conn s -> c ∈ synced s ->
    NoDup (get_ents s c) /\ forall u, u ∈ get_ents s c <-> u ∈ get_ents s 0.

Definition agreeb (s : astate) : bool :=
  bool_decide (NoDup (get_ents s 0)) &&
  forallb (fun c => if bool_decide (c ∈ synced s)
                    then bool_decide (NoDup (get_ents s c)) && same_set (get_ents s c) (get_ents s 0)
                    else true) (conn s).

(* ---------- specification side: what the trace says ------------------------------------------ *)

Definition spawned (tr : list event) : list uuid :=
  omap (fun e => match e with EvSpawn _ u => Some u | _ => None end) tr.
Definition despawned (tr : list event) : list uuid :=
  omap (fun e => match e with EvDespawn _ u => Some u | _ => None end) tr.
(* uuids spawned in tr and not despawned in tr *)
Definition spec_alive (tr : list event) : list uuid :=
  filter (fun u => u ∉ despawned tr) (spawned tr).

Definition msg_uuid (m : emsg) : list uuid :=
  match m with ESpawn u | EDelete u => [u] | _ => [] end.

(* generic monitors over a run: [scan bad s tr] = some step of the run of tr from s is taken in a
   state/event pair satisfying bad; [collect f s tr] concatenates f over the steps *)
Fixpoint scan (bad : astate -> event -> bool) (s : astate) (tr : list event) : bool :=
  match tr with
  | [] => false
  | e :: tr' => bad s e || match step s e with Some s' => scan bad s' tr' | None => false end
  end.
Fixpoint collect {A} (f : astate -> event -> list A) (s : astate) (tr : list event) : list A :=
  match tr with
  | [] => []
  | e :: tr' => f s e ++ match step s e with Some s' => collect f s' tr' | None => [] end
  end.

(* uuids mentioned by announcements that were LOST because their sender left while they were
   still in flight towards the host.  For these uuids the trace alone does not determine the
   outcome (a lost ESpawn: the entity stays local to the departed client; a lost EDelete: the entity
   survives everywhere else); for all other uuids the host ends with exactly spec_alive. *)
Definition dropped_at (s : astate) (e : event) : list uuid :=
  match e with EvLeave c => mjoin (msg_uuid <$> get_link s c 0) | _ => [] end.
Definition dropped_uuids (tr : list event) : list uuid := collect dropped_at init tr.

(* membership of u at a client WITHOUT a tombstone for u after it has handled the queue q, starting
   from membership b (with a tombstone for u the client does not hold u and never will) *)
Definition after_msg (u : uuid) (b : bool) (m : emsg) : bool :=
  match m with
  | ESpawn v => if decide (v = u) then true else b
  | EDelete v => if decide (v = u) then false else b
  | _ => b
  end.
Definition after_msgs (u : uuid) (b : bool) (q : list emsg) : bool := foldl (after_msg u) b q.

(* c's InitialSync request has not been handled yet (it is always the head of (c,0)) *)
Definition pending (s : astate) (c : peer) : bool :=
  match get_link s c 0 with EReqInit :: _ => true | _ => false end.

(* ---------- known defect classes ------------------------------------------------------------- *)

(* S11: a client (re-)connects while it still holds synchronized entities from an earlier
   session.  (A client that was never connected holds nothing: EvSpawn needs a connection.)
   The snapshot carries no deletions and the host never learns about entities whose ESpawn was
   dropped, so stale replicas survive. *)
Definition bad_S11 (s : astate) (e : event) : bool :=
  match e with
  | EvConnect c => match get_ents s c with [] => false | _ => true end
  | _ => false
  end.
Definition known_S11 (tr : list event) : bool := scan bad_S11 init tr.

(* S18 (a client despawns its replica of u while a live / snapshot duplicate ESpawn u is still on its
   way to it, and the late ESpawn re-creates u on that client only) is REPAIRED: the client keeps the
   uuids it has despawned itself during the CURRENT session ([tomb], despawned_locally, cleared when
   the client requests its next initial sync) and its receiver ignores an EntitySpawn for one of
   them.  The classes known_S18 / known_S18_window are gone.  (Tombstones that survived a
   re-connection would be a defect of their own: the EDelete that justified one may have been
   dropped with the link, the host then still holds u and the snapshot's ESpawn u would be ignored
   for ever; see EntitiesProofs.lost_delete_rejoin_agrees.) *)

(* ---------- traffic monitors (C09) ----------------------------------------------------------- *)

Definition is_op (e : event) : bool :=
  match e with EvSpawn _ _ | EvDespawn _ _ => true | _ => false end.
Definition is_connect (e : event) : bool :=
  match e with EvConnect _ => true | _ => false end.
Fixpoint countb (f : event -> bool) (tr : list event) : N :=
  match tr with
  | [] => 0
  | e :: tr' => (if f e then 1 else 0) + countb f tr'
  end.
Definition ops (tr : list event) : N := countb is_op tr.
Definition connects (tr : list event) : N := countb is_connect tr.

(* size of the snapshot built by this step (0 if the step is not the handling of an EReqInit) *)
Definition snapshot_at (s : astate) (e : event) : list N :=
  match e with
  | EvDeliver src dst =>
      match get_link s src dst with
      | EReqInit :: _ =>
          if decide (dst = 0) then
            if decide (src = 0) then [] else [N.of_nat (length (get_ents s 0)) + 1]
          else []
      | _ => []
      end
  | _ => []
  end.
Definition snapshots (tr : list event) : N := foldr N.add 0 (collect snapshot_at init tr).

(* largest client table seen during the run (including the final state) *)
Fixpoint max_conn (s : astate) (tr : list event) : N :=
  N.max (N.of_nat (length (conn s)))
        (match tr with
         | [] => 0
         | e :: tr' => match step s e with Some s' => max_conn s' tr' | None => 0 end
         end).
