(* The termination measure of Promotion.v decreases with every internal event, in sessions of ANY size.

   PromotionProofs.v checks [measure s' < measure s] by exhaustive computation for 1, 2 and 3 clients
   only.  Here it is proved for arbitrary states that satisfy [roles_inv] (the invariant of every run,
   PromotionProofs.roles_inv_step), any number of peers:

     measure_step           one internal event strictly decreases [measure]
     measure_run            length tr + measure s' <= measure s along every internal run
     C07_terminates_all_n   every internal run after one promotion request, in a session of n clients,
                            is no longer than [measure (promoted n k)]

   [roles_inv] is needed in exactly one place: a NewHost received by a host is relayed to its other
   clients, 10 each, which is paid by the 10 + 10 N of the upstream NewHost only because the client
   table is a duplicate-free list of peers of the session (fewer than N of them).

   Method: [measure s] is [M N s] with N the number of peers, which no event changes; [M N] is a sum
   over three finite maps, and every operator that [step] builds states with changes it by a known
   amount (Part 2).  The proof of [M_step] collects these equations for the state built by each
   branch of [step] and leaves linear arithmetic. *)
From Coq Require Import NArith List Lia.
From stdpp Require Import gmap list.
From RecordUpdate Require Import RecordSet.
From BS Require Import Abs.Promotion Abs.PromotionProofs.
Import RecordSetNotations.

(* ================================================================================================
   Part 1: sums over finite maps
   ================================================================================================ *)

Lemma sum_list_perm l l' : l ≡ₚ l' -> sum_list l = sum_list l'.
Proof.
  intros Hp. induction Hp as [|a l l' _ IH|a b l|l1 l2 l3 _ IH1 _ IH2]; simpl.
  - reflexivity.
  - rewrite IH. reflexivity.
  - lia.
  - rewrite IH1. exact IH2.
Qed.

Section gsum.
  Context `{Countable K} {A : Type} (g : A -> nat).

  Definition gsum (m : gmap K A) : nat := sum_list ((fun kv => g kv.2) <$> map_to_list m).
  Definition oval (o : option A) : nat := match o with Some v => g v | None => 0 end.

  Lemma gsum_insert_fresh m k v : m !! k = None -> gsum (<[k:=v]> m) = g v + gsum m.
  Proof.
    intros Hk. unfold gsum.
    rewrite (sum_list_perm _ _ (fmap_Permutation (fun kv : K * A => g kv.2) _ _ (map_to_list_insert m k v Hk))).
    reflexivity.
  Qed.

  Lemma gsum_delete m k : gsum (delete k m) + oval (m !! k) = gsum m.
  Proof.
    destruct (m !! k) as [a|] eqn:E; simpl.
    - rewrite <- (insert_delete m k a E) at 2. rewrite gsum_insert_fresh by apply lookup_delete. lia.
    - rewrite delete_notin by exact E. lia.
  Qed.

  Lemma gsum_insert m k v : gsum (<[k:=v]> m) + oval (m !! k) = gsum m + g v.
  Proof.
    rewrite <- insert_delete_insert. rewrite gsum_insert_fresh by apply lookup_delete.
    pose proof (gsum_delete m k) as Hd. lia.
  Qed.
End gsum.

(* ================================================================================================
   Part 2: the measure with the number of peers as a parameter, and what each operator does to it
   ================================================================================================ *)

Definition lsum (f : pmsg -> nat) (l : list pmsg) : nat := sum_list (f <$> l).
Definition csum (f : pmsg -> nat) (C : gmap (peer * peer) (list pmsg)) : nat := gsum (lsum f) C.
Definition M (N : nat) (s : pstate) : nat :=
  gsum (w_peer N) (ps s) + csum (w_up N) (up s) + csum (w_down N) (down s).

Lemma measure_M s : measure s = M (length (map_to_list (ps s))) s.
Proof. reflexivity. Qed.

Lemma lsum_nil f : lsum f [] = 0.
Proof. reflexivity. Qed.
Lemma lsum_cons f m l : lsum f (m :: l) = f m + lsum f l.
Proof. reflexivity. Qed.
Lemma lsum_snoc f l m : lsum f (l ++ [m]) = lsum f l + f m.
Proof. rewrite <- (Nat.add_0_r (f m)). induction l as [|a l IH]; [reflexivity|]. simpl. rewrite !lsum_cons, IH. lia. Qed.

Lemma oval_chan f C a b : oval (lsum f) (C !! (a, b)) = lsum f (chan C a b).
Proof. unfold chan. destruct (C !! (a, b)); reflexivity. Qed.

Lemma csum_insert f C a b l : csum f (<[(a, b) := l]> C) + lsum f (chan C a b) = csum f C + lsum f l.
Proof. unfold csum. rewrite <- oval_chan. apply gsum_insert. Qed.
Lemma csum_delete f C a b : csum f (delete (a, b) C) + lsum f (chan C a b) = csum f C.
Proof. unfold csum. rewrite <- oval_chan. apply gsum_delete. Qed.
Lemma csum_delete_le f C a b : csum f (delete (a, b) C) <= csum f C.
Proof. pose proof (csum_delete f C a b). lia. Qed.
Lemma csum_setchan f C a b l : csum f (setchan C a b l) + lsum f (chan C a b) = csum f C + lsum f l.
Proof.
  destruct l as [|m l]; simpl.
  - rewrite lsum_nil. pose proof (csum_delete f C a b). lia.
  - apply csum_insert.
Qed.
Lemma csum_push f C a b m : csum f (push C a b m) = csum f C + f m.
Proof. unfold push. pose proof (csum_insert f C a b (chan C a b ++ [m])) as Hi. rewrite lsum_snoc in Hi. lia. Qed.

Definition owp (N : nat) (o : option ppeer) : nat := oval (w_peer N) o.

Lemma M_setp N s p x : M N (setp s p x) + owp N (ps s !! p) = M N s + w_peer N x.
Proof. unfold M, owp. simpl. pose proof (gsum_insert (w_peer N) (ps s) p x). lia. Qed.
Lemma M_push_up N s a b m : M N (push_up s a b m) = M N s + w_up N m.
Proof. unfold M. simpl. rewrite csum_push. lia. Qed.
Lemma M_push_down N s a b m : M N (push_down s a b m) = M N s + w_down N m.
Proof. unfold M. simpl. rewrite csum_push. lia. Qed.
Lemma M_drop_link N s c h : M N (drop_link s c h) <= M N s.
Proof.
  unfold M. simpl. pose proof (csum_delete_le (w_up N) (up s) c h). pose proof (csum_delete_le (w_down N) (down s) h c). lia.
Qed.
Lemma M_drop_link_of N s c t : M N (drop_link_of s c t) <= M N s.
Proof. destruct t; simpl; [apply M_drop_link|lia]. Qed.
Lemma M_relay N s h l m : M N (relay s h l m) = M N s + length l * w_down N m.
Proof. induction l as [|d l IH]; simpl; [lia|]. rewrite M_push_down, IH. lia. Qed.
Lemma M_pop_down N s h c l :
  M N (PState (ps s) (up s) (setchan (down s) h c l)) + lsum (w_down N) (chan (down s) h c) = M N s + lsum (w_down N) l.
Proof. unfold M. simpl. pose proof (csum_setchan (w_down N) (down s) h c l). lia. Qed.
Lemma M_pop_up N s c h l :
  M N (PState (ps s) (setchan (up s) c h l) (down s)) + lsum (w_up N) (chan (up s) c h) = M N s + lsum (w_up N) l.
Proof. unfold M. simpl. pose proof (csum_setchan (w_up N) (up s) c h l). lia. Qed.

Global Arguments M : simpl never.
Global Arguments lsum : simpl never.

(* ================================================================================================
   Part 3: one internal event
   ================================================================================================ *)

(* the number of peers never changes *)
Lemma same_dom_length (m m' : gmap peer ppeer) :
  (forall p, is_Some (m' !! p) <-> is_Some (m !! p)) -> length (map_to_list m') = length (map_to_list m).
Proof.
  intros Hd. change (size m' = size m). rewrite <- !size_dom. f_equal. apply sets.set_eq. intros p.
  rewrite !elem_of_dom. apply Hd.
Qed.
Lemma step_npeers s e s' : step s e = Some s' -> length (map_to_list (ps s')) = length (map_to_list (ps s)).
Proof. intros Hs. apply same_dom_length. apply (step_dom _ _ _ Hs). Qed.

(* a client table is a duplicate-free list of peers of the session *)
Lemma clients_bound s h x : roles_inv s -> ps s !! h = Some x -> length (clients x) <= length (map_to_list (ps s)).
Proof.
  intros (Hwf & Hcl & _) Hx.
  destruct (Hwf _ _ Hx) as (_ & _ & _ & _ & _ & Hnd & _).
  rewrite <- (fmap_length fst (map_to_list (ps s))). apply submseteq_length. apply NoDup_submseteq; [exact Hnd|].
  intros c Hc. apply (elem_of_peers_of s c). apply (Hcl _ _ _ Hx Hc).
Qed.

Lemma without_length c l : c ∈ l -> length (without c l) + 1 <= length l.
Proof. intros Hc. pose proof (filter_length_lt (fun d => d <> c) l c Hc) as Hlt. unfold without. cut (length (filter (fun d => d <> c) l) < length l); [lia|]. apply Hlt. intros Hne. apply Hne. reflexivity. Qed.

(* the equations of Part 2 for every operator in the state t, as premises of the goal *)
Ltac mfacts N t :=
  lazymatch t with
  | setp ?s0 ?p ?x => generalize (M_setp N s0 p x); mfacts N s0
  | push_up ?s0 ?a ?b ?m => generalize (M_push_up N s0 a b m); mfacts N s0
  | push_down ?s0 ?a ?b ?m => generalize (M_push_down N s0 a b m); mfacts N s0
  | drop_link ?s0 ?a ?b => generalize (M_drop_link N s0 a b); mfacts N s0
  | drop_link_of ?s0 ?a ?t0 => generalize (M_drop_link_of N s0 a t0); mfacts N s0
  | relay ?s0 ?h ?l ?m => generalize (M_relay N s0 h l m); mfacts N s0
  | PState (ps ?s0) (up ?s0) (setchan (down ?s0) ?h ?c ?l) => generalize (M_pop_down N s0 h c l)
  | PState (ps ?s0) (setchan (up ?s0) ?c ?h ?l) (down ?s0) => generalize (M_pop_up N s0 c h l)
  | _ => idtac
  end.

(* what the guards of the branch say, used from left to right *)
Ltac use_guards :=
  repeat match goal with
         | H : ps ?s !! ?q = Some _ |- context [ps ?s !! ?q] => rewrite H
         | H : chan ?C ?a ?b = _ :: _ |- context [chan ?C ?a ?b] => rewrite H
         | H : ?t = true |- context [?t] => rewrite H
         | H : ?t = false |- context [?t] => rewrite H
         | H : client_of ?x = _ |- context [client_of ?x] => rewrite H
         | H : srv_events ?x = _ |- context [srv_events ?x] => rewrite H
         | H : srv_state ?x = _ |- context [srv_state ?x] => rewrite H
         end.

Local Arguments Nat.add : simpl never.
Local Arguments Nat.mul : simpl never.

Lemma M_step N s e s' :
  (forall h x, ps s !! h = Some x -> length (clients x) <= N) ->
  internal e = true -> step s e = Some s' -> M N s' < M N s.
Proof.
  intros HN Hi Hs.
  destruct e; try discriminate Hi; step_inv Hs;
    match goal with |- M N ?t < _ => mfacts N t end;
    unfold srv_gate, cli_gate in *; bool_hyps;
    repeat match goal with
           | H : ?c ∈ clients ?x |- _ => generalize (without_length c (clients x) H); clear H
           end;
    repeat match goal with
           | H : ps s !! _ = Some ?x |- _ =>
               lazymatch goal with
               | |- context [length (clients x) <= N] => fail
               | _ => generalize (HN _ _ H)
               end
           end;
    rewrite ?ps_mk, ?ps_setp; rewrite ?lookup_insert_ne by congruence;
    use_guards; unfold owp, oval, w_peer, w_link; rewrite ?lsum_cons; simpl; rewrite ?app_length; simpl;
    use_guards; simpl; intros; lia.
Qed.

(* ================================================================================================
   Part 4: the theorems
   ================================================================================================ *)

(* every internal event strictly decreases the measure of Promotion.v: sessions of any size *)
Theorem measure_step s e s' : roles_inv s -> internal e = true -> step s e = Some s' -> (measure s' < measure s)%nat.
Proof.
  intros Hinv Hi Hs. rewrite !measure_M, (step_npeers _ _ _ Hs).
  apply (M_step _ s e s'); [|exact Hi|exact Hs].
  intros h x Hx. exact (clients_bound s h x Hinv Hx).
Qed.
Print Assumptions measure_step.

Theorem measure_run tr : forall s s', roles_inv s -> all_internal tr -> run s tr = Some s' ->
  (length tr + measure s' <= measure s)%nat.
Proof.
  induction tr as [|e tr IH]; intros s s' Hinv Hall Hrun; simpl in Hrun.
  - injection Hrun as <-. simpl. lia.
  - destruct (step s e) as [s1|] eqn:Hs; [|discriminate].
    apply Forall_cons in Hall as [Hi Hall].
    pose proof (measure_step _ _ _ Hinv Hi Hs) as Hlt.
    pose proof (IH _ _ (roles_inv_step _ _ _ Hinv Hs) Hall Hrun) as Hle.
    simpl. lia.
Qed.
Print Assumptions measure_run.

(* C07, termination half, for every number of clients: after the promotion request of any client k
   the session moves at most [measure (promoted n k)] times by itself *)
Theorem C07_terminates_all_n : forall n k tr s, k ∈ client_ids n -> all_internal tr ->
  run (promoted n k) tr = Some s -> (length tr + measure s <= measure (promoted n k))%nat.
Proof.
  intros n k tr s Hk Hall Hrun. destruct (spi_promoted n k Hk) as [Hinv _].
  exact (measure_run tr _ _ Hinv Hall Hrun).
Qed.
Print Assumptions C07_terminates_all_n.

(* so every internal run from a state of the invariant is finite, and a run that has used up the
   measure has reached a stable state *)
Corollary run_length_bounded tr s s' : roles_inv s -> all_internal tr -> run s tr = Some s' ->
  (length tr <= measure s)%nat.
Proof. intros Hinv Hall Hrun. pose proof (measure_run tr s s' Hinv Hall Hrun). lia. Qed.

Corollary measure_zero_stable s : roles_inv s -> measure s = 0%nat -> stable s.
Proof.
  intros Hinv H0 e Hi. destruct (step s e) as [s'|] eqn:Hs; [|reflexivity].
  pose proof (measure_step _ _ _ Hinv Hi Hs). lia.
Qed.

(* ---------- non-vacuity ---------------------------------------------------------------------------- *)

(* five peers (host 0, clients 1..4), promotion of client 2: 5 peers, one Promote in flight *)
Example measure_promoted_4_2 :
  (length (map_to_list (ps (promoted 4 2%N))), measure (promoted 4 2%N)) = (5, 78)%nat.
Proof. vm_compute. reflexivity. Qed.

(* a complete run: always the first enabled internal event, until nothing is enabled: 28 events, ends
   stable with peer 2 hosting everybody (measure 16: four client entries and four live links), and
   28 + 16 <= 78 *)
Fixpoint greedy (fuel : nat) (s : pstate) : list pevent :=
  match fuel with
  | O => []
  | S fuel =>
      match enabled s with
      | [] => []
      | e :: _ => match step s e with Some s' => e :: greedy fuel s' | None => [] end
      end
  end.
Definition run5 : list pevent := greedy 200 (promoted 4 2%N).
Example run5_trace :
  run5 = [EDeliverDown 0 2; ESrvUp 2; EDeliverUp 2 0; ENotify 0; ECliConnecting 0; EConnect 0; EVerify 0; ENotify 2;
          ECliDown 2; EDeliverDown 0 1; ECliConnecting 1; EConnect 1; ENotify 2; ETimeout 0 1; ENotify 0;
          EDeliverDown 0 3; ECliConnecting 3; EConnect 3; ENotify 2; ETimeout 0 3; ENotify 0;
          EDeliverDown 0 4; ECliConnecting 4; EConnect 4; ENotify 2; ETimeout 0 4; ENotify 0; ESrvDown 0]%N.
Proof. vm_compute. reflexivity. Qed.

Example run5_respects_bound :
  (length run5, forallb internal run5,
   (fun s => (measure s, stableb s, bool_decide (session_ok s 2%N), (length run5 + measure s <=? measure (promoted 4 2%N))%nat))
     <$> run (promoted 4 2%N) run5)
  = (28%nat, true, Some (16%nat, true, true, true)).
Proof. vm_compute. reflexivity. Qed.

(* the hypotheses of measure_step hold on a 5-peer state and its conclusion is a real decrease *)
Example measure_step_5_peers :
  roles_inv (promoted 4 2%N) /\ internal (EDeliverDown 0%N 2%N) = true /\
  (measure <$> step (promoted 4 2%N) (EDeliverDown 0%N 2%N)) = Some 77%nat.
Proof. split; [apply spi_promoted, elem_of_client_ids; lia|]. split; vm_compute; reflexivity. Qed.
