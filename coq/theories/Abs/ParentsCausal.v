(* C05 under CAUSALLY ORDERED operations (the natural reading of "non-conflicting operations"), for the
   event-level parent-link model of Parents.v.

   Premise.  A peer p may re-parent the child as soon as it has SEEN the previous operation: no link
   of the previous author q is still on its way to p -- q's announcing system has nothing to send
   ([parmed s q = false]), nothing travels q -> host, nothing travels host -> p -- and (natural
   reading) p has the previous operation's parent.  The session need NOT be drained: relays to third
   peers may still be in flight, flags may be raised anywhere.  Operations of one and the same peer at
   any pace, joins at any moment, with ONE exception found by the proof (a defect of the token, see
   [C05_causal_naive_refuted]): the host holds an unconsumed token x (it applied x from the network,
   its announcing system has not run since), re-parents to v <> x, a client JOINS (the snapshot
   carries v), and the host re-parents BACK to x before its announcing system runs: that system then
   finds parent = token and stays silent; the joiner keeps v for ever.

   Main results (all closed under the global context):
     C05_causal_converge             the convergence theorem under [causally_ordered]
     C05_causal_converge_flight      the same under the weaker [causally_ordered_flight] (no value test:
                                     "nothing in flight" alone implies that p has the parent)
     causal_flight_has_seen          ... that implication, on every run from [pinit n]
     C05_causal_every_quiescent_state, C05_causal_terminates, C05_causal_every_drain
     drain_separated_is_causal       [writers_drain_separated] => [causally_ordered] on runs from pinit n
     C05_converges_from_causal       the drain-separated theorem re-derived from the causal one
     C05_causal_naive_refuted        the premise without the join / revert side condition is NOT enough
     causally_ordered_naive_relation, C05_causal_converge_no_join_in_window
                                     final => naive; naive + no join inside the host's token window => final
     examples: a causal chain of three writers that is never quiescent in between (also with joins in
     the middle); a concurrent pair and an A -> B -> A trap (value equality alone) that the premise
     rejects and that diverge; each conjunct of [flight_clear] is needed ([flight_clear_is_tight]).
   Nothing is partial. *)
From Coq Require Import NArith List Lia.
From stdpp Require Import gmap list.
From BS Require Import Abs.Parents Abs.ParentsProofs.
From BS Require Export Abs.ParentsPremise.

(* ================================================================================================
   Part 1: the premise (executable)
   ================================================================================================ *)

(* flight_clear, host_window, set_ok, revert_ok, co_from, causally_ordered, causally_ordered_flight:
   Abs/ParentsPremise.v (model side: extracted for the driver) *)

(* the NAIVE premise: the same without the join / revert side condition *)
Fixpoint con_from (w : option peer) (t : option puid) (s : pstate) (tr : list pevent) : bool :=
  match tr with
  | [] => true
  | e :: tr =>
      match pstep s e with
      | None => true
      | Some s' =>
          match e with
          | PSet p u => set_ok true w t s p && con_from (Some p) (Some u) s' tr
          | _ => con_from w t s' tr
          end
      end
  end.
Definition causally_ordered_naive (s : pstate) (tr : list pevent) : bool := con_from None None s tr.

(* ================================================================================================
   Part 2: examples (non-vacuity, what the premise rejects, the refutation of the naive premise)
   ================================================================================================ *)

(* 3 peers.  Client 1 sets 7; the host, having applied it, immediately sets 8 while its relay of 7 to
   client 2 is still in flight; client 2, as soon as it has applied 8, sets 9 (its announcing system has
   not even seen the application of 8: the token 8 is still there).  No state strictly inside the run is
   quiescent; the operations are NOT drain separated. *)
Definition ex_causal_chain : list pevent :=
  [PSet 1 7; PAnnounce 1; PDeliver 1 0;
   PSet 0 8; PAnnounce 0; PDeliver 0 2; PDeliver 0 2;
   PSet 2 9; PAnnounce 2; PDeliver 2 0; PDeliver 0 1; PDeliver 0 1; PAnnounce 0; PAnnounce 1]%N.

Example causal_chain_nonvacuous :
  causally_ordered (pinit 2) ex_causal_chain = true /\
  writers_drain_separated (pinit 2) ex_causal_chain = false /\
  psets ex_causal_chain = [(1, 7); (0, 8); (2, 9)]%N /\ last_set ex_causal_chain = Some 9%N /\
  (fun s => pview s [0; 1; 2]%N) <$> prun (pinit 2) ex_causal_chain = Some ([Some 9; Some 9; Some 9]%N, true) /\
  (* when the host sets 8 its relay of 7 to client 2 is in flight, its own flag and token are there *)
  (fun s => (plink s 0 2, ppar s 0, ptok s 0, pchg s 0, ppar s 2))%N <$> prun (pinit 2) (take 3 ex_causal_chain)
    = Some ([7]%N, Some 7%N, Some 7%N, true, None) /\
  (* when client 2 sets 9 client 1 has not yet received 8; client 2's flag and token are there *)
  (fun s => (plink s 0 1, ppar s 1, ppar s 2, ptok s 2, pchg s 2))%N <$> prun (pinit 2) (take 7 ex_causal_chain)
    = Some ([8]%N, Some 7%N, Some 8%N, Some 8%N, true) /\
  forallb (fun s => negb (pquiescentb s)) (tail (removelast (pstates (pinit 2) ex_causal_chain))) = true.
Proof. vm_compute. repeat split; reflexivity. Qed.

(* a genuinely concurrent pair (the host and client 1 at the same time): rejected, and it ends
   quiescent with SWAPPED parents (the trace of [conflict_diverges]) *)
Definition ex_concurrent : list pevent :=
  [PSet 0 1; PSet 1 2; PAnnounce 0; PAnnounce 1; PDeliver 0 1; PDeliver 1 0; PAnnounce 0; PAnnounce 1]%N.
Example concurrent_rejected_and_diverges :
  causally_ordered (pinit 1) ex_concurrent = false /\ causally_ordered_flight (pinit 1) ex_concurrent = false /\
  causally_ordered_naive (pinit 1) ex_concurrent = false /\
  (fun s => pview s [0; 1]%N) <$> prun (pinit 1) ex_concurrent = Some ([Some 2; Some 1]%N, true) /\
  last_set ex_concurrent = Some 2%N.
Proof. vm_compute. repeat split; reflexivity. Qed.

(* three peers, two clients at the same time: the clients end with different parents *)
Example concurrent_clients_rejected_and_diverge :
  let tr := [PSet 1 7; PSet 2 8; PAnnounce 1; PAnnounce 2; PDeliver 1 0; PDeliver 2 0; PDeliver 0 1; PDeliver 0 2;
             PAnnounce 0; PAnnounce 1; PAnnounce 2]%N in
  causally_ordered (pinit 2) tr = false /\
  (fun s => pview s [0; 1; 2]%N) <$> prun (pinit 2) tr = Some ([Some 8; Some 8; Some 7]%N, true).
Proof. vm_compute. auto. Qed.

(* A -> B -> A: client 1 re-parents 7 -> 8 -> 7 at full pace; the host has applied the FIRST 7 when it
   sets 9: it does have the parent of the last operation (value equality alone is fooled), but 8 and 7
   are still in flight towards it.  Rejected ([flight_clear] fails); the host and client 2 end with 7,
   client 1 with 9. *)
Definition ex_aba : list pevent :=
  [PSet 1 7; PAnnounce 1; PSet 1 8; PAnnounce 1; PSet 1 7; PAnnounce 1; PDeliver 1 0;
   PSet 0 9; PAnnounce 0; PDeliver 1 0; PDeliver 1 0; PDeliver 0 1; PDeliver 0 2; PDeliver 0 2; PDeliver 0 2;
   PDeliver 0 2; PAnnounce 0; PAnnounce 1; PAnnounce 2]%N.
Example aba_rejected_and_diverges :
  causally_ordered (pinit 2) ex_aba = false /\
  (fun s => (ppar s 0, last_set (take 7 ex_aba), plink s 1 0, flight_clear s 1 0))%N <$> prun (pinit 2) (take 7 ex_aba)
    = Some (Some 7%N, Some 7%N, [8; 7]%N, false) /\
  (fun s => pview s [0; 1; 2]%N) <$> prun (pinit 2) ex_aba = Some ([Some 7; Some 9; Some 7]%N, true) /\
  last_set ex_aba = Some 9%N.
Proof. vm_compute. repeat split; reflexivity. Qed.

(* THE REFUTATION OF THE NAIVE PREMISE.  Client 1 sets 7; the host applies it (token 7, flag raised)
   and, causally after, sets 8; client 2 JOINS (the snapshot carries 8); the host sets 7 again, all this
   before the host's announcing system runs.  That system finds parent = token = 7: silent.  The joiner
   applies the snapshot: 8.  Quiescent; host and client 1 have 7, client 2 has 8. *)
Definition ex_join_in_window : list pevent :=
  [PSet 1 7; PAnnounce 1; PDeliver 1 0; PSet 0 8; PJoin 2; PSet 0 7; PAnnounce 0; PDeliver 0 2; PAnnounce 2]%N.

Theorem C05_causal_naive_refuted :
  exists n tr s', prun (pinit n) tr = Some s' /\ causally_ordered_naive (pinit n) tr = true /\ pquiescent s' /\
    exists p, ppeers s' p /\ ppar s' p <> last_set tr.
Proof.
  exists 1, ex_join_in_window.
  destruct (prun (pinit 1) ex_join_in_window) as [s|] eqn:Hrun; [|vm_compute in Hrun; discriminate].
  assert (Hv : (fun s => (pquiescentb s, pconn s, ppar s 2%N)) <$> prun (pinit 1) ex_join_in_window
               = Some (true, [1; 2]%N, Some 8%N)) by (vm_compute; reflexivity).
  rewrite Hrun in Hv. simpl in Hv. injection Hv as Hq Hc H2.
  exists s. split; [reflexivity|]. split; [vm_compute; reflexivity|].
  split; [apply (bool_decide_eq_true_1 (pquiescent s)); exact Hq|].
  exists 2%N. split.
  - right. rewrite Hc. apply elem_of_list_In. simpl. auto.
  - rewrite H2. vm_compute. discriminate.
Qed.
Print Assumptions C05_causal_naive_refuted.

Example join_in_window_details :
  (fun s => pview s [0; 1; 2]%N) <$> prun (pinit 1) ex_join_in_window = Some ([Some 7; Some 7; Some 8]%N, true) /\
  last_set ex_join_in_window = Some 7%N /\
  causally_ordered_naive (pinit 1) ex_join_in_window = true /\
  causally_ordered (pinit 1) ex_join_in_window = false /\
  (* the prefix up to the join is fine; so is the run where the host reverts to another parent, or
     where its announcing system runs before the revert *)
  causally_ordered (pinit 1) (take 5 ex_join_in_window) = true /\
  (fun s => (host_window s, ppar s 0, ptok s 0))%N <$> prun (pinit 1) (take 4 ex_join_in_window)
    = Some (true, Some 8%N, Some 7%N) /\
  (let tr := [PSet 1 7; PAnnounce 1; PDeliver 1 0; PSet 0 8; PJoin 2; PAnnounce 0; PSet 0 7; PAnnounce 0;
              PDeliver 0 1; PDeliver 0 1; PDeliver 0 2; PDeliver 0 2; PDeliver 0 2; PAnnounce 1; PAnnounce 2]%N in
   causally_ordered (pinit 1) tr = true /\
   (fun s => pview s [0; 1; 2]%N) <$> prun (pinit 1) tr = Some ([Some 7; Some 7; Some 7]%N, true)).
Proof. vm_compute. repeat split; reflexivity. Qed.

(* ================================================================================================
   Part 3: the block invariant of a writer that may HOLD A TOKEN (it took over in the middle of an
   exchange).  Compared with [Bk] of ParentsProofs.v: "flag raised" becomes "armed", and two clauses
   say what an unconsumed token of the writer stands for: the parent that everybody else is going to
   end with if the writer says nothing more.
   ================================================================================================ *)

Lemma armed_msg s p :
  psync_inv s -> parmed s p = true ->
  pchg s p = true /\ exists u, ppar s p = Some u /\ ptok s p <> Some u /\ pann_msg (pget s p) = [u].
Proof.
  intros Hinv Ha. unfold parmed in Ha. apply andb_true_iff in Ha as [Hc Hne].
  apply negb_true_iff, bool_decide_eq_false in Hne.
  split; [exact Hc|]. destruct (Hinv p) as [_ Hpar]. specialize (Hpar Hc).
  unfold pann_msg. unfold ppar, ptok in *. destruct (par (pget s p)) as [u|]; [|contradiction].
  exists u. split; [reflexivity|]. split; [congruence|].
  rewrite bool_decide_eq_false_2 by congruence. reflexivity.
Qed.

(* the token of an unarmed peer is its current parent *)
Lemma unarmed_tok s p x : psync_inv s -> parmed s p = false -> ptok s p = Some x -> ppar s p = Some x.
Proof.
  intros Hinv Ha Ht. destruct (Hinv p) as [Hc _]. rewrite Ht in Hc. specialize (Hc ltac:(discriminate)).
  unfold parmed in Ha. rewrite Hc in Ha. simpl in Ha. apply negb_false_iff, bool_decide_eq_true in Ha. congruence.
Qed.

Lemma rarmed_pann x : rarmed (pann_peer x) = false.
Proof. reflexivity. Qed.

Lemma rarmed_pset u x : rarmed (pset_rec u x) = negb (bool_decide (Some u = tok x)).
Proof. reflexivity. Qed.

Lemma unarmed_nochg s p : pchg s p = false -> parmed s p = false.
Proof. intros H. unfold parmed. rewrite H. reflexivity. Qed.

Record Ck (w : peer) (lk : bool) (s : pstate) : Prop := {
  ck_w : ppeers s w;
  ck_quiet : forall p, p <> w -> parmed s p = false;
  ck_up : forall c, c ∈ pconn s -> c <> w -> plink s c host = [];
  ck_wdown : w <> host -> plink s host w = [];
  ck_wup : w <> host -> parmed s w = true \/ last_or (plink s w host) (ppar s host) = ppar s w;
  ck_down : forall c, c ∈ pconn s -> c <> w ->
    (w = host /\ parmed s host = true) \/ last_or (plink s host c) (ppar s c) = ppar s host;
  (* the writer's token: what the host is going to end with / what every client is going to end with *)
  ck_tokc : w <> host -> forall x, ptok s w = Some x -> last_or (plink s w host) (ppar s host) = Some x;
  ck_tokh : w = host -> lk = false -> forall x, ptok s host = Some x ->
    forall c, c ∈ pconn s -> last_or (plink s host c) (ppar s c) = Some x;
  (* the ghost flag: a client joined inside the host's token window, which is still open *)
  ck_lk : lk = true -> w = host /\ parmed s host = true /\ ptok s host <> None
}.

Lemma ck_quiescent_agree w lk s : pquiescent s -> Ck w lk s -> Agree s (ppar s w).
Proof.
  intros Hq HC.
  assert (Hun : forall p, parmed s p = false) by (intros p; apply quiescent_unarmed; exact Hq).
  assert (Hh : ppar s host = ppar s w).
  { destruct (decide (w = host)) as [->|Hne]; [reflexivity|].
    destruct (ck_wup w lk s HC Hne) as [H|H]; [rewrite Hun in H; discriminate|].
    rewrite (quiescent_link _ _ _ Hq) in H. exact H. }
  intros p [->|Hp]; [exact Hh|].
  destruct (decide (p = w)) as [->|Hne]; [reflexivity|].
  destruct (ck_down w lk s HC p Hp Hne) as [[_ H]|H]; [rewrite Hun in H; discriminate|].
  rewrite (quiescent_link _ _ _ Hq) in H. simpl in H. congruence.
Qed.

(* a drain-separated block is a causal block (no token, nothing leaked) *)
Lemma bk_ck w s : psync_inv s -> Bk w s -> Ck w false s.
Proof.
  intros Hinv [Hw Htok Hquiet Hup Hwdown Hwup Hdown].
  assert (Harm : pchg s w = true -> parmed s w = true).
  { intros Hc. unfold parmed. rewrite Hc, Htok. destruct (Hinv w) as [_ Hp]. specialize (Hp Hc).
    rewrite bool_decide_eq_false_2 by exact Hp. reflexivity. }
  split; try assumption.
  - intros Hwh. destruct (Hwup Hwh) as [H|H]; [left; apply Harm; exact H|right; exact H].
  - intros c Hc Hne. destruct (Hdown c Hc Hne) as [[-> H]|H]; [left; split; [reflexivity|apply Harm; exact H]|right; exact H].
  - intros _ x Hx. rewrite Htok in Hx. discriminate.
  - intros -> _ x Hx. rewrite Htok in Hx. discriminate.
  - discriminate.
Qed.

(* TAKING OVER: p <> w may start its own block as soon as nothing of w is in flight towards it; and then
   p has w's parent *)
Lemma ck_handoff w lk s p :
  pwf s -> psync_inv s -> Ck w lk s -> ppeers s p -> p <> w -> flight_clear s w p = true ->
  Ck p false s /\ lk = false /\ ppar s p = ppar s w.
Proof.
  intros Hwf Hinv HC Hp Hpw Hfc. pose proof HC as [Hw Hquiet Hup Hwdown Hwup Hdown Htokc Htokh Hlk].
  unfold flight_clear in Hfc. apply andb_true_iff in Hfc as [Hfc Hf3]. apply andb_true_iff in Hfc as [Hf1 Hf2].
  apply negb_true_iff in Hf1.
  assert (Hwl : w <> host -> plink s w host = []).
  { intros Hwh. apply orb_true_iff in Hf2 as [H|H]; [apply N.eqb_eq in H; contradiction|].
    apply bool_decide_eq_true in H. exact H. }
  assert (Hpl : p <> host -> plink s host p = []).
  { intros Hph. apply orb_true_iff in Hf3 as [H|H]; [apply N.eqb_eq in H; contradiction|].
    apply bool_decide_eq_true in H. exact H. }
  assert (Hlk0 : lk = false).
  { destruct lk; [|reflexivity]. destruct (Hlk eq_refl) as (-> & Ha & _). congruence. }
  assert (Hun : forall q, parmed s q = false).
  { intros q. destruct (decide (q = w)) as [->|Hq]; [exact Hf1|apply Hquiet; exact Hq]. }
  (* the host has the writer's parent *)
  assert (Hhw : ppar s host = ppar s w).
  { destruct (decide (w = host)) as [->|Hwh]; [reflexivity|].
    destruct (Hwup Hwh) as [H|H]; [congruence|]. rewrite (Hwl Hwh) in H. exact H. }
  (* every client with an empty link from the host has the host's parent *)
  assert (Hch : forall c, c ∈ pconn s -> plink s host c = [] -> ppar s c = ppar s host).
  { intros c Hc Hl. destruct (decide (c = w)) as [->|Hcw]; [symmetry; exact Hhw|].
    destruct (Hdown c Hc Hcw) as [[_ H]|H]; [rewrite Hun in H; discriminate|]. rewrite Hl in H. exact H. }
  (* every client's link from the host ends with the host's parent *)
  assert (Hcl : forall c, c ∈ pconn s -> last_or (plink s host c) (ppar s c) = ppar s host).
  { intros c Hc. destruct (decide (c = w)) as [->|Hcw].
    - pose proof (wf_conn_ne s w Hwf Hc) as Hwh. rewrite (Hwdown Hwh). simpl. symmetry. exact Hhw.
    - destruct (Hdown c Hc Hcw) as [[_ H]|H]; [rewrite Hun in H; discriminate|exact H]. }
  assert (Hph : ppar s p = ppar s host).
  { destruct Hp as [->|Hpc]; [reflexivity|]. apply Hch; [exact Hpc|].
    apply Hpl. eapply wf_conn_ne; eauto. }
  (* nothing travels towards the host *)
  assert (Hnoup : forall c, c ∈ pconn s -> plink s c host = []).
  { intros c Hc. destruct (decide (c = w)) as [->|Hcw]; [|apply Hup; assumption].
    apply Hwl. eapply wf_conn_ne; eauto. }
  split; [|split; [exact Hlk0|congruence]].
  split.
  - exact Hp.
  - intros q _. apply Hun.
  - intros c Hc _. apply Hnoup. exact Hc.
  - exact Hpl.
  - intros Hph'. right. destruct Hp as [E|Hpc]; [contradiction|].
    rewrite (Hnoup p Hpc). simpl. symmetry. exact Hph.
  - intros c Hc _. right. apply Hcl. exact Hc.
  - intros Hph' x Hx. destruct Hp as [E|Hpc]; [contradiction|].
    rewrite (Hnoup p Hpc). simpl. rewrite <- Hph. apply (unarmed_tok s p x Hinv (Hun p) Hx).
  - intros -> _ x Hx c Hc. rewrite (Hcl c Hc). apply (unarmed_tok s host x Hinv (Hun host) Hx).
  - discriminate.
Qed.

Lemma ck_lk_host_unarmed w lk s : Ck w lk s -> parmed s host = false -> lk = false.
Proof.
  intros HC Hu. destruct lk; [|reflexivity]. destruct (ck_lk w true s HC eq_refl) as (_ & Ha & _). congruence.
Qed.

Definition next_lk (lk : bool) (s : pstate) (e : pevent) : bool :=
  match e with
  | PAnnounce p => lk && negb (bool_decide (p = host))
  | PJoin _ => lk || host_window s
  | _ => lk
  end.

Lemma revert_ok_host lk s u : revert_ok lk s host u = true -> lk = true -> ptok s host <> Some u.
Proof.
  intros H -> E. unfold revert_ok in H. apply negb_true_iff in H. apply andb_false_iff in H as [H|H].
  - apply andb_false_iff in H as [H|H]; [discriminate|]. apply bool_decide_eq_false in H. apply H. reflexivity.
  - apply bool_decide_eq_false in H. contradiction.
Qed.

Lemma last_or_cons u l d : last_or (u :: l) d = last_or l (Some u).
Proof. reflexivity. Qed.

(* the block invariant is preserved by every event except a PSet of another peer and a revert of the
   host to its token's parent after a join in its token window *)
Lemma ck_step w lk s e s' :
  pwf s -> psync_inv s -> Ck w lk s -> pstep s e = Some s' ->
  match e with PSet p u => p = w /\ revert_ok lk s p u = true | _ => True end ->
  Ck w (next_lk lk s e) s' /\ ppar s' w = match e with PSet _ u => Some u | _ => ppar s w end.
Proof.
  intros Hwf Hinv HC Hstep Hok. pose proof (wf_nodup s Hwf) as Hnd.
  pose proof HC as [Hw Hquiet Hup Hwdown Hwup Hdown Htokc Htokh Hlk].
  destruct e as [p u|p|src dst|c]; cbn [next_lk].
  - (* PSet w u *)
    destruct Hok as [-> Hrev]. apply step_set in Hstep as (_ & Hc & Hl & _ & Hg).
    assert (Hlk' : forall a b, plink s' a b = plink s a b) by (intros a b; unfold plink; rewrite Hl; reflexivity).
    assert (Hgw : pget s' w = pset_rec u (pget s w)) by (rewrite Hg; destruct (decide (w = w)); [reflexivity|contradiction]).
    assert (Hgo : forall q, q <> w -> pget s' q = pget s q) by (intros q Hq; rewrite Hg; destruct (decide (q = w)); [contradiction|reflexivity]).
    assert (Hpo : forall q, q <> w -> ppar s' q = ppar s q) by (intros q Hq; unfold ppar; rewrite (Hgo q Hq); reflexivity).
    assert (Haw : parmed s' w = negb (bool_decide (Some u = ptok s w))) by (rewrite parmed_rarmed, Hgw; reflexivity).
    assert (Htw : ptok s' w = ptok s w) by (unfold ptok; rewrite Hgw; reflexivity).
    assert (Hpw : ppar s' w = Some u) by (unfold ppar; rewrite Hgw; reflexivity).
    split; [|exact Hpw]. split.
    + unfold ppeers. rewrite Hc. exact Hw.
    + intros q Hq. rewrite !parmed_rarmed, Hgo by exact Hq. rewrite <- parmed_rarmed. apply Hquiet. exact Hq.
    + intros c. rewrite Hc, Hlk'. apply Hup.
    + rewrite Hlk'. exact Hwdown.
    + intros Hwh. rewrite Haw, Hlk', Hpw, (Hpo host) by congruence.
      destruct (decide (Some u = ptok s w)) as [E|E].
      * right. apply Htokc; [exact Hwh|symmetry; exact E].
      * left. rewrite bool_decide_eq_false_2 by exact E. reflexivity.
    + intros c. rewrite Hc. intros Hcc Hne. destruct (decide (w = host)) as [Hwh|Hwh].
      * subst w. rewrite Haw. destruct (decide (Some u = ptok s host)) as [E|E].
        -- right. rewrite Hlk', Hpw, (Hpo c Hne). apply Htokh; [reflexivity| |symmetry; exact E|exact Hcc].
           destruct lk; [|reflexivity]. exfalso. apply (revert_ok_host _ _ _ Hrev eq_refl). symmetry. exact E.
        -- left. split; [reflexivity|]. rewrite bool_decide_eq_false_2 by exact E. reflexivity.
      * right. destruct (Hdown c Hcc Hne) as [[E _]|H]; [contradiction|].
        rewrite Hlk', (Hpo c Hne), (Hpo host) by congruence. exact H.
    + intros Hwh x. rewrite Htw, Hlk', (Hpo host) by congruence. apply Htokc. exact Hwh.
    + intros -> Hl0 x. rewrite Htw. intros Hx c. rewrite Hc, Hlk'. intros Hcc.
      rewrite (Hpo c) by (eapply wf_conn_ne; eauto). apply Htokh; auto.
    + intros Hl1. destruct (Hlk Hl1) as (-> & Ha & Ht). split; [reflexivity|].
      rewrite Haw, Htw. split; [|exact Ht]. pose proof (revert_ok_host _ _ _ Hrev Hl1) as Hne.
      rewrite bool_decide_eq_false_2 by congruence. reflexivity.
  - (* PAnnounce p *)
    apply step_announce in Hstep as (_ & [(Hnc & ->)|(Hpc & Hc & _ & Hg & Hl)]); [| |exact Hnd].
    { (* flag down: nothing happens *)
      split; [|reflexivity]. destruct (decide (p = host)) as [->|Hph].
      - rewrite bool_decide_eq_true_2 by reflexivity. rewrite andb_false_r.
        rewrite (ck_lk_host_unarmed w lk s HC (unarmed_nochg s host Hnc)) in HC. exact HC.
      - rewrite bool_decide_eq_false_2 by exact Hph. rewrite andb_true_r. exact HC. }
    assert (Hpar : forall q, ppar s' q = ppar s q).
    { intros q. unfold ppar. rewrite Hg. destruct (decide (q = p)) as [->|_]; reflexivity. }
    assert (Hgo : forall q, q <> p -> pget s' q = pget s q) by (intros q Hq; rewrite Hg; destruct (decide (q = p)); [contradiction|reflexivity]).
    assert (Hgp : pget s' p = pann_peer (pget s p)) by (rewrite Hg; destruct (decide (p = p)); [reflexivity|contradiction]).
    assert (Hap : parmed s' p = false) by (rewrite parmed_rarmed, Hgp; reflexivity).
    assert (Htp : ptok s' p = None) by (unfold ptok; rewrite Hgp; reflexivity).
    split; [|apply Hpar].
    destruct (decide (p = w)) as [->|Hpw].
    + (* the writer's announcing system runs *)
      assert (Hlkn : lk && negb (bool_decide (w = host)) = true -> False).
      { intros H. apply andb_true_iff in H as [H1 H2]. destruct (Hlk H1) as (E & _).
        rewrite bool_decide_eq_true_2 in H2 by exact E. discriminate. }
      destruct (parmed s w) eqn:Haw.
      * (* armed: it announces its current parent *)
        destruct (armed_msg s w Hinv Haw) as (_ & u & Hwu & _ & Hmsg). rewrite Hmsg in Hl.
        split.
        -- unfold ppeers. rewrite Hc. exact Hw.
        -- intros q Hq. rewrite parmed_rarmed, Hgo by exact Hq. rewrite <- parmed_rarmed. apply Hquiet. exact Hq.
        -- intros c. rewrite Hc. intros Hcc Hne. rewrite Hl.
           destruct (decide (c = w /\ _)) as [[E _]|_]; [contradiction|]. apply Hup; assumption.
        -- intros Hwh. rewrite Hl. destruct (decide (host = w /\ _)) as [[E _]|_]; [congruence|]. apply Hwdown. exact Hwh.
        -- intros Hwh. right. rewrite Hl. rewrite (pdsts_client s w Hwh).
           destruct (decide (w = w /\ host ∈ [host])) as [_|Hn].
           ++ rewrite last_or_snoc, Hpar. symmetry. exact Hwu.
           ++ exfalso. apply Hn. split; [reflexivity|apply elem_of_list_singleton; reflexivity].
        -- intros c. rewrite Hc. intros Hcc Hne. right. rewrite Hl, !Hpar.
           destruct (decide (host = w /\ c ∈ pdsts s w)) as [[<- _]|Hn].
           ++ rewrite last_or_snoc. symmetry. exact Hwu.
           ++ destruct (Hdown c Hcc Hne) as [[-> _]|H]; [|exact H].
              exfalso. apply Hn. split; [reflexivity|]. exact Hcc.
        -- intros _ x Hx. rewrite Htp in Hx. discriminate.
        -- intros -> _ x Hx. rewrite Htp in Hx. discriminate.
        -- intros H. destruct (Hlkn H).
      * (* not armed (the flag was raised by an application from the network): silent *)
        pose proof (unarmed_msg s w Hinv Hpc Haw) as Hmsg. rewrite Hmsg in Hl.
        assert (Hlk' : forall a b, plink s' a b = plink s a b).
        { intros a b. rewrite Hl. destruct (decide _); [apply app_nil_r|reflexivity]. }
        split.
        -- unfold ppeers. rewrite Hc. exact Hw.
        -- intros q Hq. rewrite parmed_rarmed, Hgo by exact Hq. rewrite <- parmed_rarmed. apply Hquiet. exact Hq.
        -- intros c. rewrite Hc, Hlk'. apply Hup.
        -- rewrite Hlk'. exact Hwdown.
        -- intros Hwh. right. rewrite Hlk', !Hpar. destruct (Hwup Hwh) as [H|H]; [discriminate|exact H].
        -- intros c. rewrite Hc. intros Hcc Hne. right. rewrite Hlk', !Hpar.
           destruct (Hdown c Hcc Hne) as [[E H]|H]; [exfalso; subst w; congruence|exact H].
        -- intros _ x Hx. rewrite Htp in Hx. discriminate.
        -- intros -> _ x Hx. rewrite Htp in Hx. discriminate.
        -- intros H. destruct (Hlkn H).
    + (* somebody else: its flag goes down, nothing is sent *)
      pose proof (unarmed_msg s p Hinv Hpc (Hquiet p Hpw)) as Hmsg. rewrite Hmsg in Hl.
      assert (Hlk' : forall a b, plink s' a b = plink s a b).
      { intros a b. rewrite Hl. destruct (decide _); [apply app_nil_r|reflexivity]. }
      assert (Hsw : parmed s' w = parmed s w /\ ptok s' w = ptok s w).
      { rewrite !parmed_rarmed. unfold ptok. rewrite (Hgo w) by congruence. auto. }
      destruct Hsw as [Haw Htw].
      split.
      * unfold ppeers. rewrite Hc. exact Hw.
      * intros q Hq. destruct (decide (q = p)) as [->|Hqp]; [exact Hap|].
        rewrite parmed_rarmed, Hgo by exact Hqp. rewrite <- parmed_rarmed. apply Hquiet. exact Hq.
      * intros c. rewrite Hc, Hlk'. apply Hup.
      * rewrite Hlk'. exact Hwdown.
      * intros Hwh. rewrite Hlk', !Hpar, Haw. apply Hwup. exact Hwh.
      * intros c. rewrite Hc. intros Hcc Hne. rewrite Hlk', !Hpar.
        destruct (Hdown c Hcc Hne) as [[-> H]|H]; [|right; exact H].
        left. split; [reflexivity|]. rewrite Haw. exact H.
      * intros Hwh x. rewrite Htw, Hlk', Hpar. apply Htokc. exact Hwh.
      * intros -> Hl0 x. rewrite Htw. intros Hx c. rewrite Hc, Hlk', Hpar. intros Hcc.
        apply andb_false_iff in Hl0 as [Hl0|Hl0].
        -- apply Htokh; auto.
        -- apply negb_false_iff, bool_decide_eq_true in Hl0. congruence.
      * intros H. apply andb_true_iff in H as [H1 _]. destruct (Hlk H1) as (-> & Ha & Ht).
        split; [reflexivity|]. rewrite Haw, Htw. auto.
  - (* PDeliver src dst *)
    apply step_deliver in Hstep as (u & rest & Hl0 & _ & Hc & _ & Hg & Hl); [|exact Hnd].
    assert (Hgo : forall q, q <> dst -> pget s' q = pget s q) by (intros q Hq; rewrite Hg; destruct (decide (q = dst)); [contradiction|reflexivity]).
    assert (Hgd : pget s' dst = pdel_peer u (pget s dst)) by (rewrite Hg; destruct (decide (dst = dst)); [reflexivity|contradiction]).
    assert (Hpd : ppar s' dst = Some u) by (unfold ppar; rewrite Hgd; apply par_pdel).
    assert (Hends : (src = host /\ dst ∈ pconn s) \/ (dst = host /\ src ∈ pconn s)).
    { apply (wf_link s src dst Hwf). rewrite Hl0. discriminate. }
    assert (Hquiet' : forall q, q <> w -> parmed s' q = false).
    { intros q Hq. rewrite parmed_rarmed. destruct (decide (q = dst)) as [->|Hqd].
      - rewrite Hgd. apply rarmed_pdel. rewrite <- parmed_rarmed. apply Hquiet. exact Hq.
      - rewrite Hgo by exact Hqd. rewrite <- parmed_rarmed. apply Hquiet. exact Hq. }
    destruct Hends as [[-> Hdc]|[-> Hsc]].
    + (* host -> dst: dst is not the writer *)
      pose proof (wf_conn_ne s dst Hwf Hdc) as Hdh.
      assert (Hdw : dst <> w).
      { intros ->. rewrite (Hwdown Hdh) in Hl0. discriminate. }
      assert (Hlk' : forall a b, plink s' a b = if decide ((a, b) = (host, dst)) then rest else plink s a b).
      { intros a b. rewrite Hl. destruct (decide (dst = host /\ _)) as [[E _]|_]; [contradiction|]. apply app_nil_r. }
      assert (Hsw : parmed s' w = parmed s w /\ ptok s' w = ptok s w /\ ppar s' w = ppar s w).
      { rewrite !parmed_rarmed. unfold ptok, ppar. rewrite (Hgo w) by congruence. auto. }
      destruct Hsw as (Haw & Htw & Hpw).
      assert (Hsh : parmed s' host = parmed s host /\ ptok s' host = ptok s host /\ ppar s' host = ppar s host).
      { rewrite !parmed_rarmed. unfold ptok, ppar. rewrite (Hgo host) by congruence. auto. }
      destruct Hsh as (Hah & Hth & Hph).
      split; [|exact Hpw]. split.
      * unfold ppeers. rewrite Hc. exact Hw.
      * exact Hquiet'.
      * intros c. rewrite Hc. intros Hcc Hne. rewrite Hlk'.
        destruct (decide ((c, host) = (host, dst))) as [E|_]; [|apply Hup; assumption].
        exfalso. injection E as -> _. eapply wf_host; eauto.
      * intros Hwh. rewrite Hlk'. destruct (decide ((host, w) = (host, dst))) as [E|_]; [congruence|]. apply Hwdown. exact Hwh.
      * intros Hwh. rewrite Hlk'. destruct (decide ((w, host) = (host, dst))) as [E|_]; [congruence|].
        rewrite Haw, Hpw, Hph. apply Hwup. exact Hwh.
      * intros c. rewrite Hc. intros Hcc Hne.
        rewrite Hah, Hph, Hlk'. destruct (Hdown c Hcc Hne) as [H|H]; [left; exact H|]. right.
        destruct (decide ((host, c) = (host, dst))) as [E|Hn].
        -- injection E as ->. rewrite Hpd. rewrite Hl0 in H. exact H.
        -- unfold ppar at 1. rewrite Hgo by congruence. exact H.
      * intros Hwh x. rewrite Htw, Hlk', Hph. destruct (decide ((w, host) = (host, dst))) as [E|_]; [congruence|].
        apply Htokc. exact Hwh.
      * intros -> Hlf x. rewrite Hth. intros Hx c. rewrite Hc, Hlk'. intros Hcc.
        pose proof (Htokh eq_refl Hlf x Hx c Hcc) as H.
        destruct (decide ((host, c) = (host, dst))) as [E|Hn].
        -- injection E as ->. rewrite Hpd. rewrite Hl0 in H. exact H.
        -- unfold ppar. rewrite Hgo by congruence. exact H.
      * intros H. destruct (Hlk H) as (-> & Ha & Ht). split; [reflexivity|]. rewrite Hah, Hth. auto.
    + (* src -> host: src is the writer, a client; the host relays to everybody else *)
      pose proof (wf_conn_ne s src Hwf Hsc) as Hsh.
      assert (src = w) as -> by (destruct (decide (src = w)) as [E|Hne]; [exact E|rewrite (Hup src Hsc Hne) in Hl0; discriminate]).
      assert (Hsw : parmed s' w = parmed s w /\ ptok s' w = ptok s w /\ ppar s' w = ppar s w).
      { rewrite !parmed_rarmed. unfold ptok, ppar. rewrite (Hgo w) by exact Hsh. auto. }
      destruct Hsw as (Haw & Htw & Hpw).
      assert (Hupl : plink s' w host = rest).
      { rewrite Hl. destruct (decide ((w, host) = (w, host))) as [_|Hn]; [|contradiction].
        destruct (decide (host = host /\ w = host /\ _)) as [(_ & E & _)|_]; [contradiction|]. apply app_nil_r. }
      split; [|exact Hpw]. split.
      * unfold ppeers. rewrite Hc. exact Hw.
      * exact Hquiet'.
      * intros c. rewrite Hc. intros Hcc Hne. rewrite Hl. pose proof (wf_conn_ne s c Hwf Hcc) as Hch.
        destruct (decide ((c, host) = (w, host))) as [E|_]; [congruence|].
        destruct (decide (host = host /\ c = host /\ _)) as [(_ & E & _)|_]; [contradiction|].
        rewrite app_nil_r. apply Hup; assumption.
      * intros _. rewrite Hl. destruct (decide ((host, w) = (w, host))) as [E|_]; [congruence|].
        destruct (decide (host = host /\ host = host /\ w ∈ pothers w (pconn s))) as [(_ & _ & E)|_].
        -- apply elem_of_pothers in E. tauto.
        -- rewrite app_nil_r. apply Hwdown. exact Hsh.
      * intros _. rewrite Hupl, Haw, Hpw, Hpd.
        destruct (Hwup Hsh) as [H|H]; [left; exact H|right]. rewrite Hl0 in H. exact H.
      * intros c. rewrite Hc. intros Hcc Hne. right. rewrite Hl, Hpd.
        destruct (decide ((host, c) = (w, host))) as [E|_]; [congruence|].
        destruct (decide (host = host /\ host = host /\ c ∈ pothers w (pconn s))) as [_|Hn].
        -- apply last_or_snoc.
        -- exfalso. apply Hn. split; [reflexivity|]. split; [reflexivity|]. apply elem_of_pothers. auto.
      * intros _ x. rewrite Htw, Hupl, Hpd. intros Hx. pose proof (Htokc Hsh x Hx) as H. rewrite Hl0 in H. exact H.
      * intros E. congruence.
      * intros H. destruct (Hlk H) as (E & _). congruence.
  - (* PJoin c *)
    pose proof (join_par s c s' ) as Hpar. specialize (fun q => Hpar q Hstep).
    pose proof (join_chg s c s' ) as Hchg. specialize (fun q => Hchg q Hstep).
    apply step_join in Hstep as (Hch & Hcn & Hnone & Hc & _ & Hg & Hl).
    assert (Harm : forall q, parmed s' q = parmed s q) by (intros q; rewrite !parmed_rarmed, Hg; reflexivity).
    assert (Htk : forall q, ptok s' q = ptok s q) by (intros q; unfold ptok; rewrite Hg; reflexivity).
    assert (Hcw : c <> w) by (intros ->; destruct Hw as [E|E]; contradiction).
    assert (Hnew : plink s' host c = plink_msg (ppar s host)).
    { rewrite Hl. destruct (decide ((host, c) = (host, c))) as [_|Hn]; [|contradiction].
      rewrite (wf_link_nil s host c Hwf (wf_host s Hwf) Hcn). reflexivity. }
    assert (Hpc : ppar s c = None) by (unfold ppar; rewrite (pget_none _ _ Hnone); reflexivity).
    split; [|apply Hpar]. split.
    + unfold ppeers. rewrite Hc. destruct Hw as [E|E]; [left; exact E|right; apply elem_of_app; left; exact E].
    + intros q Hq. rewrite Harm. apply Hquiet. exact Hq.
    + intros c0. rewrite Hc. intros Hcc Hne. rewrite Hl.
      destruct (decide ((c0, host) = (host, c))) as [E|_]; [congruence|].
      apply elem_of_app in Hcc as [Hcc|Hcc]; [apply Hup; assumption|].
      apply elem_of_list_singleton in Hcc. subst c0. apply (wf_link_nil s c host Hwf Hcn (wf_host s Hwf)).
    + intros Hwh. rewrite Hl. destruct (decide ((host, w) = (host, c))) as [E|_]; [congruence|]. apply Hwdown. exact Hwh.
    + intros Hwh. rewrite Hl, Harm, !Hpar. destruct (decide ((w, host) = (host, c))) as [E|_]; [congruence|]. apply Hwup. exact Hwh.
    + intros c0. rewrite Hc. intros Hcc Hne. rewrite Harm, !Hpar.
      apply elem_of_app in Hcc as [Hcc|Hcc].
      * rewrite Hl. destruct (decide ((host, c0) = (host, c))) as [E|_]; [congruence|]. apply Hdown; assumption.
      * apply elem_of_list_singleton in Hcc. subst c0. right. rewrite Hnew, Hpc.
        destruct (ppar s host); reflexivity.
    + intros Hwh x. rewrite Htk, Hl, Hpar. destruct (decide ((w, host) = (host, c))) as [E|_]; [congruence|].
      apply Htokc. exact Hwh.
    + intros -> Hlf x. rewrite Htk. intros Hx c0. rewrite Hc, Hpar. intros Hcc.
      apply orb_false_iff in Hlf as [Hlf Hwin].
      apply elem_of_app in Hcc as [Hcc|Hcc].
      * rewrite Hl. destruct (decide ((host, c0) = (host, c))) as [E|_]; [congruence|]. apply Htokh; auto.
      * apply elem_of_list_singleton in Hcc. subst c0. rewrite Hnew, Hpc.
        (* outside the token window the snapshot carries the token's parent *)
        assert (Hun : parmed s host = false).
        { unfold host_window in Hwin. apply andb_false_iff in Hwin as [H|H]; [exact H|].
          apply bool_decide_eq_false in H. exfalso. apply H. rewrite Hx. discriminate. }
        rewrite (unarmed_tok s host x Hinv Hun Hx). reflexivity.
    + intros H. rewrite Harm, Htk. apply orb_true_iff in H as [H|H]; [apply Hlk; exact H|].
      unfold host_window in H. apply andb_true_iff in H as [Ha Ht]. apply bool_decide_eq_true in Ht.
      split; [|auto]. destruct (decide (w = host)) as [E|E]; [exact E|].
      rewrite (Hquiet host) in Ha by congruence. discriminate.
Qed.

(* ================================================================================================
   Part 4: histories.  [CI w t lk s]: w = the author of the last PSet (None: nothing has ever been
   set), t = the parent it gave, lk = the ghost flag of the premise.
   ================================================================================================ *)

Definition CI (w : option peer) (t : option puid) (lk : bool) (s : pstate) : Prop :=
  match w with Some w => Ck w lk s /\ ppar s w = t | None => Ph0 s /\ t = None /\ lk = false end.

Lemma ci_quiescent_agree w t lk s : CI w t lk s -> pquiescent s -> Agree s t.
Proof.
  destruct w as [w|]; simpl.
  - intros [HC Ht] Hq. subst t. eapply ck_quiescent_agree; eauto.
  - intros (HP & -> & _) _ p _. apply HP.
Qed.

(* what the history must respect at each event *)
Definition cev_ok (vl : bool) (w : option peer) (t : option puid) (lk : bool) (s : pstate) (e : pevent) : Prop :=
  match e with PSet p u => set_ok vl w t s p = true /\ revert_ok lk s p u = true | _ => True end.

Lemma revert_ok_false s p u : revert_ok false s p u = true.
Proof. reflexivity. Qed.

Lemma ph0_window s : Ph0 s -> host_window s = false.
Proof. intros [_ Hp]. unfold host_window. destruct (Hp host) as [Hc _]. rewrite (unarmed_nochg s host Hc). reflexivity. Qed.

Lemma ci_step w t lk s e s' :
  pwf s -> psync_inv s -> CI w t lk s -> cev_ok false w t lk s e -> pstep s e = Some s' ->
  CI (next_writer w e) (next_target t e) (next_lk lk s e) s'.
Proof.
  intros Hwf Hinv HP Hok Hstep.
  destruct w as [w|]; simpl in HP.
  - destruct HP as [HC Ht]. destruct e as [p u|p|src dst|c]; simpl in Hok; cbn [next_writer next_target CI].
    + destruct Hok as [Hset Hrev]. destruct (decide (w = p)) as [->|Hne].
      * destruct (ck_step p lk s (PSet p u) s' Hwf Hinv HC Hstep (conj eq_refl Hrev)) as [HC' Hpar].
        split; assumption.
      * unfold set_ok in Hset. rewrite bool_decide_eq_false_2 in Hset by exact Hne. simpl in Hset.
        pose proof (set_peer_exists s p u s' Hwf Hstep) as Hp.
        destruct (ck_handoff w lk s p Hwf Hinv HC Hp ltac:(congruence) Hset) as (HCp & -> & _).
        destruct (ck_step p false s (PSet p u) s' Hwf Hinv HCp Hstep (conj eq_refl (revert_ok_false s p u))) as [HC' Hpar].
        split; assumption.
    + destruct (ck_step w lk s (PAnnounce p) s' Hwf Hinv HC Hstep I) as [HC' Hpar]. split; [exact HC'|congruence].
    + destruct (ck_step w lk s (PDeliver src dst) s' Hwf Hinv HC Hstep I) as [HC' Hpar]. split; [exact HC'|congruence].
    + destruct (ck_step w lk s (PJoin c) s' Hwf Hinv HC Hstep I) as [HC' Hpar]. split; [exact HC'|congruence].
  - destruct HP as (HP & -> & ->). pose proof (ph0_quiescent s HP) as Hq.
    destruct e as [p u|p|src dst|c]; cbn [next_writer next_target next_lk CI].
    + pose proof (set_peer_exists s p u s' Hwf Hstep) as Hp.
      assert (Ha : Agree s None) by (intros q _; apply HP).
      pose proof (bk_ck p s Hinv (bk_start s None p Hinv Hq Ha Hp)) as HCp.
      destruct (ck_step p false s (PSet p u) s' Hwf Hinv HCp Hstep (conj eq_refl (revert_ok_false s p u))) as [HC' Hpar].
      split; assumption.
    + destruct (quiescent_is_stable s Hq _ _ Hstep) as [[]| ->]. auto.
    + destruct (quiescent_is_stable s Hq _ _ Hstep) as [[]| ->]. auto.
    + split; [eapply ph0_join; eauto|]. split; [reflexivity|]. apply (ph0_window s HP).
Qed.

Lemma co_scan vl w t lk s e s' tr :
  pstep s e = Some s' -> co_from vl w t lk s (e :: tr) = true ->
  cev_ok vl w t lk s e /\ co_from vl (next_writer w e) (next_target t e) (next_lk lk s e) s' tr = true.
Proof.
  intros Hstep H. simpl in H. rewrite Hstep in H.
  destruct e as [p u|p|src dst|c]; simpl; try (split; [exact I|exact H]).
  apply andb_true_iff in H as [H Hc]. apply andb_true_iff in H as [Ha Hb]. auto.
Qed.

Lemma set_ok_weaken w t s p : set_ok true w t s p = true -> set_ok false w t s p = true.
Proof.
  unfold set_ok. destruct w as [q|]; [|auto]. intros H. apply orb_true_iff in H as [H|H].
  - rewrite H. reflexivity.
  - apply andb_true_iff in H as [_ H]. rewrite H. simpl. apply orb_true_r.
Qed.

(* the premise with the value test implies the premise without *)
Lemma co_weaken tr : forall w t lk s, co_from true w t lk s tr = true -> co_from false w t lk s tr = true.
Proof.
  induction tr as [|e tr IH]; intros w t lk s H; [reflexivity|]. simpl in *.
  destruct (pstep s e) as [s1|]; [|reflexivity].
  destruct e as [p u|p|src dst|c]; try (apply IH; exact H).
  apply andb_true_iff in H as [H Hc]. apply andb_true_iff in H as [Ha Hb].
  rewrite (set_ok_weaken _ _ _ _ Ha), Hb, (IH _ _ _ _ Hc). reflexivity.
Qed.

Lemma C05_causal_general tr : forall w t lk s s',
  pwf s -> psync_inv s -> CI w t lk s -> co_from false w t lk s tr = true -> prun s tr = Some s' ->
  pwf s' /\ psync_inv s' /\ exists lk', CI (writer_after w tr) (target_after t tr) lk' s'.
Proof.
  induction tr as [|e tr IH]; intros w t lk s s' Hwf Hinv HP Hco Hrun.
  - simpl in Hrun. injection Hrun as <-. eauto.
  - simpl in Hrun. destruct (pstep s e) as [s1|] eqn:Hs; [|discriminate].
    destruct (co_scan false w t lk s e s1 tr Hs Hco) as (Hok & Hco').
    rewrite target_after_cons, writer_after_cons. apply (IH _ _ (next_lk lk s e) s1); try assumption.
    + eapply step_wf; eauto.
    + eapply step_sync_inv; eauto.
    + eapply ci_step; eauto.
Qed.

Lemma ci_init n : CI None None false (pinit n).
Proof. simpl. split; [apply ph0_init|auto]. Qed.

Lemma pinit_causal_general n tr s' :
  prun (pinit n) tr = Some s' -> causally_ordered_flight (pinit n) tr = true ->
  pwf s' /\ psync_inv s' /\ exists lk', CI (writer_after None tr) (last_set tr) lk' s'.
Proof.
  intros Hrun Hco.
  apply (C05_causal_general tr None None false (pinit n) s' (pinit_wf n) (pinit_sync_inv n) (ci_init n) Hco Hrun).
Qed.

(* THE THEOREM (C05, causal form), at its strongest: the premise WITHOUT the value test.  Operations on
   the child's parent by any peers, with any parents; operations of one and the same peer at any pace
   (A -> B -> A included); a peer other than the author of the previous operation re-parents only when
   nothing of that author is in flight towards it -- the session need not be drained --; joins at any
   moment; the host does not revert to its token's parent after a join inside its token window.  Then
   at every quiescent state all peers have the parent given by the last operation. *)
Theorem C05_causal_converge_flight n tr s' :
  prun (pinit n) tr = Some s' -> causally_ordered_flight (pinit n) tr = true ->
  pquiescent s' -> forall p, ppeers s' p -> ppar s' p = last_set tr.
Proof.
  intros Hrun Hco Hq. destruct (pinit_causal_general n tr s' Hrun Hco) as (_ & _ & lk' & HP).
  apply (ci_quiescent_agree _ _ _ _ HP Hq).
Qed.
Print Assumptions C05_causal_converge_flight.

(* ... and with the natural premise (p has the previous operation's parent AND nothing is in flight) *)
Theorem C05_causal_converge n tr s' :
  prun (pinit n) tr = Some s' -> causally_ordered (pinit n) tr = true ->
  pquiescent s' -> forall p, ppeers s' p -> ppar s' p = last_set tr.
Proof.
  intros Hrun Hco. apply (C05_causal_converge_flight n tr s' Hrun). apply co_weaken. exact Hco.
Qed.
Print Assumptions C05_causal_converge.

(* the value test is redundant: when nothing of the previous author is in flight towards p, p HAS the
   previous operation's parent ("p has seen it") *)
Lemma set_ok_strengthen w t lk s p :
  pwf s -> psync_inv s -> CI w t lk s -> ppeers s p -> set_ok false w t s p = true -> set_ok true w t s p = true.
Proof.
  intros Hwf Hinv HP Hp H. unfold set_ok in *. destruct w as [q|]; [|reflexivity].
  destruct (decide (q = p)) as [E|Hne]; [rewrite (bool_decide_eq_true_2 _ E); reflexivity|].
  rewrite bool_decide_eq_false_2 in H |- * by exact Hne. simpl in H |- *.
  destruct HP as [HC Ht].
  destruct (ck_handoff q lk s p Hwf Hinv HC Hp ltac:(congruence) H) as (_ & _ & Hpar).
  rewrite H, andb_true_r. apply bool_decide_eq_true_2. congruence.
Qed.

Lemma co_strengthen tr : forall w t lk s,
  pwf s -> psync_inv s -> CI w t lk s -> co_from false w t lk s tr = true -> co_from true w t lk s tr = true.
Proof.
  induction tr as [|e tr IH]; intros w t lk s Hwf Hinv HP Hco; [reflexivity|].
  simpl. destruct (pstep s e) as [s1|] eqn:Hs; [|reflexivity].
  destruct (co_scan false w t lk s e s1 tr Hs Hco) as (Hok & Hco').
  assert (Hrest : co_from true (next_writer w e) (next_target t e) (next_lk lk s e) s1 tr = true).
  { apply IH; [eapply step_wf; eauto|eapply step_sync_inv; eauto|eapply ci_step; eauto|exact Hco']. }
  destruct e as [p u|p|src dst|c]; try exact Hrest.
  destruct Hok as [Ha Hb]. simpl in Hrest. rewrite Hb, Hrest, !andb_true_r.
  apply (set_ok_strengthen w t lk s p Hwf Hinv HP); [|exact Ha]. eapply set_peer_exists; eauto.
Qed.

Theorem causal_flight_has_seen n tr : causally_ordered_flight (pinit n) tr = causally_ordered (pinit n) tr.
Proof.
  unfold causally_ordered_flight, causally_ordered.
  destruct (co_from false None None false (pinit n) tr) eqn:H1.
  - symmetry. apply co_strengthen; [apply pinit_wf|apply pinit_sync_inv|apply ci_init|exact H1].
  - destruct (co_from true None None false (pinit n) tr) eqn:H2; [|reflexivity].
    apply co_weaken in H2. congruence.
Qed.
Print Assumptions causal_flight_has_seen.

(* prefixes, drains *)
Lemma co_from_prefix vl tr1 tr2 : forall w t lk s,
  co_from vl w t lk s (tr1 ++ tr2) = true -> co_from vl w t lk s tr1 = true.
Proof.
  induction tr1 as [|e tr1 IH]; intros w t lk s H; simpl in *; [reflexivity|].
  destruct (pstep s e) as [s1|]; [|reflexivity]. destruct e; eauto.
  apply andb_true_iff in H as [Ha Hb]. rewrite Ha. simpl. eauto.
Qed.

Lemma co_from_drain vl tr : Forall drain_event tr -> forall w t lk s, co_from vl w t lk s tr = true.
Proof.
  intros Hd. induction Hd as [|e tr He Hd IH]; intros w t lk s; simpl; [reflexivity|].
  destruct (pstep s e) as [s1|]; [|reflexivity]. destruct e; simpl in He; try contradiction; apply IH.
Qed.

Lemma drain_after tr : Forall drain_event tr -> forall (w : option peer) (t : option puid),
  writer_after w tr = w /\ target_after t tr = t.
Proof.
  intros Hd. induction Hd as [|e tr He _ IH]; intros w t; [auto|].
  rewrite writer_after_cons, target_after_cons. destruct e; simpl in He; try contradiction; apply IH.
Qed.

Theorem C05_causal_every_quiescent_state n tr1 tr2 s1 :
  prun (pinit n) tr1 = Some s1 -> causally_ordered (pinit n) (tr1 ++ tr2) = true ->
  pquiescent s1 -> forall p, ppeers s1 p -> ppar s1 p = last_set tr1.
Proof.
  intros Hrun Hco. apply (C05_causal_converge n tr1 s1 Hrun). eapply co_from_prefix. exact Hco.
Qed.
Print Assumptions C05_causal_every_quiescent_state.

(* after ANY such history (quiescent or not) every continuation by announce / deliver events that
   reaches a quiescent state has the last parent everywhere; one of them does; none goes on for ever *)
Theorem C05_causal_terminates n tr s' :
  prun (pinit n) tr = Some s' -> causally_ordered (pinit n) tr = true ->
  (forall tr2 s'', Forall drain_event tr2 -> prun s' tr2 = Some s'' -> pquiescent s'' ->
     forall p, ppeers s'' p -> ppar s'' p = last_set tr) /\
  (forall tr2 s'', Forall drain_event tr2 -> prun s' tr2 = Some s'' ->
     peffective_count s' tr2 <= pmeasure s' /\ ptotal_sent s' tr2 <= ppotential (length (pconn s')) s') /\
  (exists tr2 s'', Forall drain_event tr2 /\ prun s' tr2 = Some s'' /\ pquiescent s'') /\
  (forall (st : nat -> pstate) (ev : nat -> pevent), st 0 = s' ->
     (forall i, drain_event (ev i) /\ effective (st i) (ev i) = true /\ pstep (st i) (ev i) = Some (st (S i))) -> False).
Proof.
  intros Hrun Hco. apply co_weaken in Hco.
  destruct (pinit_causal_general n tr s' Hrun Hco) as (Hwf & Hinv & lk' & HP).
  split; [|split; [|split]].
  - intros tr2 s'' Hd Hrun2 Hq.
    destruct (C05_causal_general tr2 _ _ lk' s' s'' Hwf Hinv HP (co_from_drain false tr2 Hd _ _ _ _) Hrun2)
      as (_ & _ & lk'' & HP').
    destruct (drain_after tr2 Hd (writer_after None tr) (last_set tr)) as [E1 E2]. rewrite E1, E2 in HP'.
    apply (ci_quiescent_agree _ _ _ _ HP' Hq).
  - intros tr2 s'' Hd Hrun2. destruct (drain_run _ tr2 s' s'' Hwf (le_n _) Hd Hrun2) as (_ & _ & H1 & H2). lia.
  - apply drain_terminates. exact Hwf.
  - intros st ev H0 Hinf. apply (no_infinite_exchange st ev); [rewrite H0; exact Hwf|exact Hinf].
Qed.
Print Assumptions C05_causal_terminates.

Corollary C05_causal_every_drain n tr tr2 s'' :
  causally_ordered (pinit n) tr = true -> Forall drain_event tr2 ->
  prun (pinit n) (tr ++ tr2) = Some s'' -> pquiescent s'' ->
  forall p, ppeers s'' p -> ppar s'' p = last_set tr.
Proof.
  intros Hco Hd Hrun Hq. rewrite prun_app in Hrun. destruct (prun (pinit n) tr) as [s'|] eqn:Hr; [|discriminate].
  destruct (C05_causal_terminates n tr s' Hr Hco) as (H & _). apply (H tr2 s'' Hd Hrun Hq).
Qed.

(* ================================================================================================
   Part 5: the causal theorem SUBSUMES the drain-separated one
   ================================================================================================ *)

Lemma phI_window w t s : PhI w t s -> host_window s = false.
Proof.
  destruct w as [w|]; simpl.
  - intros [HB _]. unfold host_window. destruct (decide (w = host)) as [->|Hne].
    + rewrite (bk_tok host s HB). rewrite bool_decide_eq_false_2 by (intros H; apply H; reflexivity). apply andb_false_r.
    + rewrite (bk_quiet w s HB host) by congruence. reflexivity.
  - intros [HP _]. apply ph0_window. exact HP.
Qed.

Lemma quiescent_flight_clear s q p : pquiescent s -> flight_clear s q p = true.
Proof.
  intros Hq. unfold flight_clear. rewrite (quiescent_unarmed s q Hq), !(quiescent_link s _ _ Hq).
  rewrite !bool_decide_eq_true_2 by reflexivity. rewrite !orb_true_r. reflexivity.
Qed.

Lemma wds_co tr : forall w t s,
  pwf s -> psync_inv s -> PhI w t s -> wds_from w s tr = true -> co_from true w t false s tr = true.
Proof.
  induction tr as [|e tr IH]; intros w t s Hwf Hinv HP Hwds; [reflexivity|].
  simpl. destruct (pstep s e) as [s1|] eqn:Hs; [|reflexivity].
  destruct (scan_ev_ok w s e s1 tr Hs Hwds) as (Hok & Hwds').
  assert (Hrest : co_from true (next_writer w e) (next_target t e) false s1 tr = true).
  { apply IH; [eapply step_wf; eauto|eapply step_sync_inv; eauto|eapply phI_step; eauto|exact Hwds']. }
  destruct e as [p u|p|src dst|c]; simpl in Hrest.
  - rewrite Hrest, revert_ok_false, !andb_true_r.
    unfold set_ok. destruct w as [q|]; [|reflexivity]. simpl in Hok. destruct Hok as [E|Hq].
    + rewrite (bool_decide_eq_true_2 _ E). reflexivity.
    + assert (Hpt : ppar s p = t).
      { apply (phI_quiescent_agree (Some q) t s HP Hq). eapply set_peer_exists; eauto. }
      rewrite (quiescent_flight_clear s q p Hq), (bool_decide_eq_true_2 _ Hpt). simpl. apply orb_true_r.
  - exact Hrest.
  - exact Hrest.
  - rewrite (phI_window w t s HP). exact Hrest.
Qed.

(* every drain-separated history is causally ordered *)
Theorem drain_separated_is_causal n tr :
  writers_drain_separated (pinit n) tr = true -> causally_ordered (pinit n) tr = true.
Proof.
  intros H. apply (wds_co tr None None (pinit n) (pinit_wf n) (pinit_sync_inv n)); [|exact H].
  split; [apply ph0_init|reflexivity].
Qed.
Print Assumptions drain_separated_is_causal.

(* ... strictly: [causal_chain_nonvacuous] is causally ordered and not drain separated.  The theorem of
   ParentsProofs.v is a corollary of the causal one: *)
Corollary C05_converges_from_causal n tr s' :
  prun (pinit n) tr = Some s' -> writers_drain_separated (pinit n) tr = true ->
  pquiescent s' -> forall p, ppeers s' p -> ppar s' p = last_set tr.
Proof. intros Hrun Hwds. apply (C05_causal_converge n tr s' Hrun). apply drain_separated_is_causal. exact Hwds. Qed.
Print Assumptions C05_converges_from_causal.

(* the theorem applies to the chain of Part 2: every quiescent drain of it has 9 everywhere *)
Example causal_chain_applied tr2 s'' :
  Forall drain_event tr2 -> prun (pinit 2) (ex_causal_chain ++ tr2) = Some s'' -> pquiescent s'' ->
  forall p, ppeers s'' p -> ppar s'' p = Some 9%N.
Proof.
  intros Hd Hrun Hq.
  apply (C05_causal_every_drain 2 ex_causal_chain tr2 s''); [vm_compute; reflexivity|assumption..].
Qed.

(* ... and to its prefix cut in the middle of everything (client 2 has just set 9; 8 is in flight to
   client 1, nothing has been announced by client 2) *)
Example causal_chain_prefix_applied tr2 s'' :
  Forall drain_event tr2 -> prun (pinit 2) (take 8 ex_causal_chain ++ tr2) = Some s'' -> pquiescent s'' ->
  forall p, ppeers s'' p -> ppar s'' p = Some 9%N.
Proof.
  intros Hd Hrun Hq.
  apply (C05_causal_every_drain 2 (take 8 ex_causal_chain) tr2 s''); [vm_compute; reflexivity|assumption..].
Qed.

(* ================================================================================================
   Part 6: more examples: joins inside a causal chain; every conjunct of [flight_clear] is needed
   ================================================================================================ *)

(* the chain of Part 2 with two joins in the middle: client 3 joins INSIDE the host's token window (the
   host holds token 7 and has just set 8: the snapshot carries 8) -- allowed, the host does not revert
   --, client 4 joins when client 2 has set 9 and not yet announced it *)
Definition ex_causal_chain_joins : list pevent :=
  [PSet 1 7; PAnnounce 1; PDeliver 1 0;
   PSet 0 8; PJoin 3; PAnnounce 0; PDeliver 0 2; PDeliver 0 2;
   PSet 2 9; PJoin 4; PAnnounce 2; PDeliver 2 0;
   PDeliver 0 1; PDeliver 0 1; PDeliver 0 3; PDeliver 0 3; PDeliver 0 3; PDeliver 0 4; PDeliver 0 4;
   PAnnounce 0; PAnnounce 1; PAnnounce 3; PAnnounce 4]%N.
Example causal_chain_joins_nonvacuous :
  causally_ordered (pinit 2) ex_causal_chain_joins = true /\
  writers_drain_separated (pinit 2) ex_causal_chain_joins = false /\
  (fun s => host_window s) <$> prun (pinit 2) (take 4 ex_causal_chain_joins) = Some true /\
  (fun s => pview s [0; 1; 2; 3; 4]%N) <$> prun (pinit 2) ex_causal_chain_joins
    = Some ([Some 9; Some 9; Some 9; Some 9; Some 9]%N, true) /\
  forallb (fun s => negb (pquiescentb s)) (tail (removelast (pstates (pinit 2) ex_causal_chain_joins))) = true.
Proof. vm_compute. repeat split; reflexivity. Qed.

(* Each of the three conjuncts of [flight_clear] is needed, even with the value test: three runs in
   which the new writer HAS the previous operation's parent, exactly one conjunct fails, and the run
   ends quiescent in disagreement.
   (a) the previous author is still armed (client 1: 7, announced and applied by the host; then 8, 7
       without announcing): the host sets 9;
   (b) something travels from the previous author to the host ([ex_aba]);
   (c) something travels from the host to the new writer (the host: 7, 8, 7 announced at full pace;
       client 1 has applied the first 7 and sets 9). *)
Definition ex_need_armed : list pevent :=
  [PSet 1 7; PAnnounce 1; PDeliver 1 0; PAnnounce 0; PSet 1 8; PSet 1 7;
   PSet 0 9; PAnnounce 0; PAnnounce 1; PDeliver 0 1; PDeliver 1 0; PAnnounce 0; PAnnounce 1]%N.
Definition ex_need_down : list pevent :=
  [PSet 0 7; PAnnounce 0; PSet 0 8; PAnnounce 0; PSet 0 7; PAnnounce 0; PDeliver 0 1;
   PSet 1 9; PAnnounce 1; PDeliver 0 1; PDeliver 0 1; PDeliver 1 0; PAnnounce 0; PAnnounce 1]%N.
Definition handoff_view (s : pstate) (q p : peer) :=
  (ppar s p, negb (parmed s q), bool_decide (plink s q host = []), bool_decide (plink s host p = [])).
Example flight_clear_is_tight :
  (* (a) *)
  (fun s => handoff_view s 1 0)%N <$> prun (pinit 1) (take 6 ex_need_armed) = Some (Some 7%N, false, true, true) /\
  last_set (take 6 ex_need_armed) = Some 7%N /\ causally_ordered (pinit 1) ex_need_armed = false /\
  (fun s => pview s [0; 1]%N) <$> prun (pinit 1) ex_need_armed = Some ([Some 7; Some 9]%N, true) /\
  (* (b) *)
  (fun s => handoff_view s 1 0)%N <$> prun (pinit 2) (take 7 ex_aba) = Some (Some 7%N, true, false, true) /\
  last_set (take 7 ex_aba) = Some 7%N /\ causally_ordered (pinit 2) ex_aba = false /\
  (fun s => pview s [0; 1; 2]%N) <$> prun (pinit 2) ex_aba = Some ([Some 7; Some 9; Some 7]%N, true) /\
  (* (c) *)
  (fun s => handoff_view s 0 1)%N <$> prun (pinit 1) (take 7 ex_need_down) = Some (Some 7%N, true, true, false) /\
  last_set (take 7 ex_need_down) = Some 7%N /\ causally_ordered (pinit 1) ex_need_down = false /\
  (fun s => pview s [0; 1]%N) <$> prun (pinit 1) ex_need_down = Some ([Some 9; Some 7]%N, true).
Proof. vm_compute. repeat split; reflexivity. Qed.

(* ================================================================================================
   Part 7: the naive premise and the final one.  final => naive; naive + "no client joins inside the
   host's token window" => final.  (The refutation [C05_causal_naive_refuted] needs such a join AND the
   host's revert to the token's parent: [revert_ok] forbids only the combination.)
   ================================================================================================ *)

Fixpoint no_join_in_window (s : pstate) (tr : list pevent) : bool :=
  match tr with
  | [] => true
  | e :: tr =>
      match pstep s e with
      | None => true
      | Some s' => match e with PJoin _ => negb (host_window s) | _ => true end && no_join_in_window s' tr
      end
  end.

Lemma co_naive_of_co tr : forall w t lk s, co_from true w t lk s tr = true -> con_from w t s tr = true.
Proof.
  induction tr as [|e tr IH]; intros w t lk s H; [reflexivity|]. simpl in *.
  destruct (pstep s e) as [s1|]; [|reflexivity].
  destruct e as [p u|p|src dst|c]; try (eapply IH; exact H).
  apply andb_true_iff in H as [H Hc]. apply andb_true_iff in H as [Ha _].
  rewrite Ha. simpl. eapply IH. exact Hc.
Qed.

Lemma co_of_naive tr : forall w t s,
  con_from w t s tr = true -> no_join_in_window s tr = true -> co_from true w t false s tr = true.
Proof.
  induction tr as [|e tr IH]; intros w t s H Hj; [reflexivity|]. simpl in *.
  destruct (pstep s e) as [s1|]; [|reflexivity].
  apply andb_true_iff in Hj as [Hj1 Hj2].
  destruct e as [p u|p|src dst|c]; try (apply IH; assumption).
  - apply andb_true_iff in H as [Ha Hc]. rewrite Ha, revert_ok_false. simpl. apply IH; assumption.
  - apply negb_true_iff in Hj1. rewrite Hj1. simpl. apply IH; assumption.
Qed.

Theorem causally_ordered_naive_relation s tr :
  (causally_ordered s tr = true -> causally_ordered_naive s tr = true) /\
  (causally_ordered_naive s tr = true -> no_join_in_window s tr = true -> causally_ordered s tr = true).
Proof. split; [apply co_naive_of_co|apply co_of_naive]. Qed.

Corollary C05_causal_converge_no_join_in_window n tr s' :
  prun (pinit n) tr = Some s' -> causally_ordered_naive (pinit n) tr = true -> no_join_in_window (pinit n) tr = true ->
  pquiescent s' -> forall p, ppeers s' p -> ppar s' p = last_set tr.
Proof.
  intros Hrun Hco Hj. apply (C05_causal_converge n tr s' Hrun). apply co_of_naive; assumption.
Qed.
Print Assumptions C05_causal_converge_no_join_in_window.

(* in particular without joins the naive premise is enough *)
Example naive_refutation_needs_the_join :
  no_join_in_window (pinit 1) ex_join_in_window = false /\
  no_join_in_window (pinit 2) ex_causal_chain = true /\
  no_join_in_window (pinit 2) ex_causal_chain_joins = false /\ causally_ordered (pinit 2) ex_causal_chain_joins = true.
Proof. vm_compute. auto. Qed.
