(* Event-level abstraction of the replication of ONE component key (one synchronized entity x one
   registered component type) of bevy_sync, with the "applied from network, swallow the next
   detection" token mechanism.

   Rust: /repo/src/lib_priv.rs  sync_detect / SyncTrackerRes::signal_component_changed /
         apply_component_change_from_network, server/receiver.rs + client/receiver.rs
         (Message::ComponentUpdated), server/mod.rs + client/mod.rs react_on_changed_components.
   Frame-level model: theories/Sync/Model.v  sync_detect, signal_component_changed,
         react_on_changed_components, apply_component_change, CApplyComp, MComp.

   Everything here is executable (total functions, decidable validity): the model is meant to be
   run against real traces as well as reasoned about (ValuesProofs.v). *)
From Coq Require Import NArith List Lia.
From stdpp Require Import gmap list.

Definition peer := N.   (* 0 = host *)
Definition value := N.  (* value equality (Rust: reflect_partial_eq) is Leibniz equality here; values that
                           differ from themselves (NaN-like floats) are outside this abstraction: for such a
                           value the "equal => not applied" test never fires and every delivery re-applies. *)
Definition host : peer := 0%N.

Record vpeer := VPeer {
  cur : option value;    (* the component's value on this peer, None = component absent *)
  dirty : bool;          (* a local write the change detector has not yet seen *)
  token : bool;          (* an update applied from the network the detector has not yet seen
                            (pushed_component_from_network contains the key) *)
  outq : list value      (* changed_components_to_send, not yet handed to renet *)
}.

Record vstate := VState {
  vp : gmap peer vpeer;
  vconn : list peer;                          (* connected clients, in connection order *)
  vlinks : gmap (peer * peer) (list value)    (* reliable ordered channel src -> dst, head = oldest *)
}.

Inductive vevent :=
| VWrite (p : peer) (v : value)  (* the application writes v on p *)
| VDetect (p : peer)             (* sync_detect::<T> of p runs *)
| VSend (p : peer)               (* react_on_changed_components of p runs *)
| VDeliver (src dst : peer)      (* dst applies the oldest message of src -> dst *)
| VJoin (c : peer).              (* c connects; the host answers with the snapshot *)

Global Instance vevent_eq_dec : EqDecision vevent.
Proof. solve_decision. Defined.

(* ---------- getters (total, with defaults) ------------------------------------------------ *)

Definition vpeer0 : vpeer := VPeer None false false [].
Definition getp (s : vstate) (p : peer) : vpeer := default vpeer0 (vp s !! p).
Definition pcur (s : vstate) (p : peer) : option value := cur (getp s p).
Definition pdirty (s : vstate) (p : peer) : bool := dirty (getp s p).
Definition ptoken (s : vstate) (p : peer) : bool := token (getp s p).
Definition poutq (s : vstate) (p : peer) : list value := outq (getp s p).
Definition lget (L : gmap (peer * peer) (list value)) (a b : peer) : list value := default [] (L !! (a, b)).
Definition link (s : vstate) (a b : peer) : list value := lget (vlinks s) a b.
Definition pexists (s : vstate) (p : peer) : bool := bool_decide (is_Some (vp s !! p)).

(* ---------- channel operations -------------------------------------------------------------- *)

Definition push_link (L : gmap (peer * peer) (list value)) (a b : peer) (vs : list value) :=
  <[(a, b) := lget L a b ++ vs]> L.

(* server.broadcast_message / repeat_except_for_client: one copy per destination *)
Definition send_to (L : gmap (peer * peer) (list value)) (src : peer) (dsts : list peer) (vs : list value) :=
  foldr (fun d L => push_link L src d vs) L dsts.

Definition others (src : peer) (l : list peer) : list peer := filter (fun c => c <> src) l.

(* ---------- one event ------------------------------------------------------------------------- *)

Definition set_peer (s : vstate) (p : peer) (x : vpeer) : vstate :=
  VState (<[p := x]> (vp s)) (vconn s) (vlinks s).

(* sync_detect + signal_component_changed.  Changed<T> is ONE flag, raised both by a local write
   and by a network apply: here it is [dirty || token].  If the token is present it is removed and
   NOTHING is queued.  The token remembers the change tick of the network apply and is only honoured
   if the component has not been written since (fix e13e196): here a [VWrite] clears the token, so a
   local write that lands between the network apply and this detector run IS announced ([ex_swallow]).
   A local write that landed BEFORE the network apply (dirty and token both set) is still swallowed:
   its value has been overwritten by the applied one. *)
Definition vdetect (x : vpeer) : vpeer :=
  if token x then VPeer (cur x) false false (outq x)
  else VPeer (cur x) false false (outq x ++ match cur x with Some v => [v] | None => [] end).

(* the host's queue goes out to the connected clients (what VSend host does) *)
Definition vflush_host (s : vstate) : vstate :=
  match vp s !! host with
  | None => s
  | Some x =>
      match outq x with
      | [] => s
      | q => VState (<[host := VPeer (cur x) (dirty x) (token x) []]> (vp s)) (vconn s)
                    (send_to (vlinks s) host (vconn s) q)
      end
  end.

Definition vstep (s : vstate) (e : vevent) : option vstate :=
  match e with
  | VWrite p v =>
      match vp s !! p with
      | None => None
      | Some x => Some (set_peer s p (VPeer (Some v) true false (outq x)))   (* a write invalidates the token *)
      end
  | VDetect p =>
      match vp s !! p with
      | None => None
      | Some x => if dirty x || token x then Some (set_peer s p (vdetect x)) else Some s
      end
  | VSend p =>
      match vp s !! p with
      | None => None
      | Some x =>
          match outq x with
          | [] => Some s
          | q => let dsts := if (p =? host)%N then vconn s else [host] in
                 Some (VState (<[p := VPeer (cur x) (dirty x) (token x) []]> (vp s)) (vconn s)
                              (send_to (vlinks s) p dsts q))
          end
      end
  | VDeliver src dst =>
      match link s src dst, vp s !! dst with
      | v :: rest, Some x =>
          let L := <[(src, dst) := rest]> (vlinks s) in
          if bool_decide (cur x = Some v) then Some (VState (vp s) (vconn s) L)   (* equal: not applied, not relayed *)
          else Some (VState (<[dst := VPeer (Some v) (dirty x) true (outq x)]> (vp s)) (vconn s)
                            (if (dst =? host)%N then send_to L host (others src (vconn s)) [v] else L))
      | _, _ => None
      end
  | VJoin c =>
      if (c =? host)%N || bool_decide (c ∈ vconn s) || pexists s c then None
      else
        (* repair of S21 (8f66353): send_initial_sync first sends what the host has detected and not
           sent yet to the clients connected so far, then builds the snapshot *)
        let s := vflush_host s in
        Some (VState (<[c := vpeer0]> (vp s)) (vconn s ++ [c])
                     (match pcur s host with
                      | Some v => push_link (vlinks s) host c [v]     (* the snapshot *)
                      | None => vlinks s
                      end))
  end.

Fixpoint vrun (s : vstate) (tr : list vevent) : option vstate :=
  match tr with
  | [] => Some s
  | e :: tr => match vstep s e with Some s' => vrun s' tr | None => None end
  end.

(* host + clients 1..n, all connected, no value anywhere *)
Definition clients (n : nat) : list peer := N.of_nat <$> seq 1 n.
Definition vinit (n : nat) : vstate :=
  VState (list_to_map ((fun p => (p, vpeer0)) <$> (host :: clients n))) (clients n) ∅.

(* ---------- quiescence ------------------------------------------------------------------------ *)

Definition peer_idle (x : vpeer) : Prop := outq x = [] /\ dirty x = false /\ token x = false.
Definition vquiescent (s : vstate) : Prop :=
  map_Forall (fun _ l => l = []) (vlinks s) /\ map_Forall (fun _ x => peer_idle x) (vp s).
Global Instance peer_idle_dec x : Decision (peer_idle x).
Proof. unfold peer_idle. apply _. Defined.
Global Instance vquiescent_dec s : Decision (vquiescent s).
Proof. unfold vquiescent. apply _. Defined.
Definition vquiescentb (s : vstate) : bool := bool_decide (vquiescent s).

(* ---------- well-formed states (an invariant of every run from [vinit n]) --------------------- *)

Definition vwf (s : vstate) : Prop :=
  NoDup (vconn s) /\ host ∉ vconn s /\
  (forall p, is_Some (vp s !! p) <-> p = host \/ p ∈ vconn s) /\
  (forall a b, link s a b <> [] -> (a = host /\ b ∈ vconn s) \/ (b = host /\ a ∈ vconn s)).

(* ---------- observations on traces ------------------------------------------------------------ *)

Definition written (tr : list vevent) : list value :=
  omap (fun e => match e with VWrite _ v => Some v | _ => None end) tr.
Definition writers (tr : list vevent) : list peer :=
  omap (fun e => match e with VWrite p _ => Some p | _ => None end) tr.
Definition joiners (tr : list vevent) : list peer :=
  omap (fun e => match e with VJoin c => Some c | _ => None end) tr.
Definition only_writer (w : peer) (tr : list vevent) : Prop := Forall (fun p => p = w) (writers tr).

(* the values p displays along the run from s, one entry per CHANGE of [pcur s p] *)
Fixpoint displayed (p : peer) (s : vstate) (tr : list vevent) : list value :=
  match tr with
  | [] => []
  | e :: tr =>
      match vstep s e with
      | None => []
      | Some s' =>
          (if bool_decide (pcur s' p = pcur s p) then []
           else match pcur s' p with Some v => [v] | None => [] end) ++ displayed p s' tr
      end
  end.

(* every state visited (including the first and the last) *)
Fixpoint vstates (s : vstate) (tr : list vevent) : list vstate :=
  s :: match tr with
       | [] => []
       | e :: tr => match vstep s e with Some s' => vstates s' tr | None => [] end
       end.

(* number of messages an event hands to the network *)
Definition sent_by (s : vstate) (e : vevent) : nat :=
  match e with
  | VSend p => length (poutq s p) * (if (p =? host)%N then length (vconn s) else 1)
  | VDeliver src dst =>
      match link s src dst with
      | v :: _ => if bool_decide (pcur s dst = Some v) then 0
                  else if (dst =? host)%N then length (others src (vconn s)) else 0
      | [] => 0
      end
  | VJoin _ => match pcur s host with Some _ => 1 | None => 0 end
  | _ => 0
  end.
Fixpoint total_sent (s : vstate) (tr : list vevent) : nat :=
  match tr with
  | [] => 0
  | e :: tr => match vstep s e with Some s' => sent_by s e + total_sent s' tr | None => 0 end
  end.

(* ---------- drain separation -------------------------------------------------------------------
   [g] = the peer that has written since the state was last quiescent (None = nobody).
   drain_separated: between two VWrite by DIFFERENT peers the state is quiescent at least once.
   joiners_settled: between [VJoin c] and a later [VWrite c _] the state is quiescent at least once
   (the snapshot travelling to c is a host message that conflicts with c's own write:
   see [C02_join_window_refuted]; since fix e13e196 the weaker [joiners_received], end of this file, is
   enough). [blk] = the peers that joined since the last quiescent state. *)
Fixpoint ds_from (g : option peer) (s : vstate) (tr : list vevent) : bool :=
  match tr with
  | [] => true
  | e :: tr =>
      let g := if vquiescentb s then None else g in
      match vstep s e with
      | None => true
      | Some s' =>
          match e with
          | VWrite p _ => bool_decide (g = None \/ g = Some p) && ds_from (Some p) s' tr
          | _ => ds_from g s' tr
          end
      end
  end.
Definition drain_separated (s : vstate) (tr : list vevent) : Prop := ds_from None s tr = true.

Fixpoint js_from (blk : list peer) (s : vstate) (tr : list vevent) : bool :=
  match tr with
  | [] => true
  | e :: tr =>
      let blk := if vquiescentb s then [] else blk in
      match vstep s e with
      | None => true
      | Some s' =>
          match e with
          | VWrite p _ => bool_decide (p ∉ blk) && js_from blk s' tr
          | VJoin c => js_from (c :: blk) s' tr
          | _ => js_from blk s' tr
          end
      end
  end.
Definition joiners_settled (s : vstate) (tr : list vevent) : Prop := js_from [] s tr = true.

(* every VJoin happens while the host has nothing queued (was needed when the host itself writes,
   before the repair 8f66353 of S21: the join now flushes the queue first; kept for the old statement) *)
Fixpoint joins_clean (s : vstate) (tr : list vevent) : bool :=
  match tr with
  | [] => true
  | e :: tr =>
      match vstep s e with
      | None => true
      | Some s' =>
          match e with
          | VJoin _ => bool_decide (poutq s host = []) && joins_clean s' tr
          | _ => joins_clean s' tr
          end
      end
  end.

(* ---------- examples (non-vacuity of the model) ----------------------------------------------- *)

Definition view (s : vstate) (ps : list peer) : list (option value) * bool := (pcur s <$> ps, vquiescentb s).

(* 3 peers, writer = client 1, burst 10,20,30 with the host two events behind; client 2 is reached
   through the host's relay; ends quiescent with 30 everywhere. *)
Definition ex_burst : list vevent :=
  [VWrite 1 10; VDetect 1; VSend 1; VWrite 1 20; VDetect 1; VSend 1; VWrite 1 30;
   VDeliver 1 0; VDetect 1; VDeliver 0 2; VSend 1; VDeliver 1 0; VDetect 0; VDeliver 1 0;
   VDeliver 0 2; VDetect 2; VDeliver 0 2; VDetect 0; VDetect 2]%N.
Example ex_burst_runs :
  (fun s => view s [0; 1; 2]%N) <$> vrun (vinit 2) ex_burst = Some ([Some 30; Some 30; Some 30]%N, true).
Proof. vm_compute. reflexivity. Qed.
Example ex_burst_displayed : displayed 2%N (vinit 2) ex_burst = [10; 20; 30]%N.
Proof. vm_compute. reflexivity. Qed.

(* the detector coalesces: two writes before one detection announce only the second *)
Example ex_coalesce :
  displayed 0%N (vinit 2) [VWrite 1 10; VWrite 1 20; VDetect 1; VSend 1; VDeliver 1 0]%N = [20%N].
Proof. vm_compute. reflexivity. Qed.

(* a local write between a network apply and the next detector run is NOT swallowed any more (it was
   before fix e13e196): the write clears the token, the detector queues 99, everybody ends with 99 *)
Example ex_swallow :
  (fun s => (view s [0; 1; 2]%N, poutq s 2%N)) <$>
  vrun (vinit 2) [VWrite 1 10; VDetect 1; VSend 1; VDeliver 1 0; VDeliver 0 2; VWrite 2 99; VDetect 2; VDetect 0]%N
  = Some (([Some 10; Some 10; Some 99]%N, false), [99%N]) /\
  (fun s => view s [0; 1; 2]%N) <$>
  vrun (vinit 2) [VWrite 1 10; VDetect 1; VSend 1; VDeliver 1 0; VDeliver 0 2; VWrite 2 99; VDetect 2; VDetect 0;
                  VSend 2; VDeliver 2 0; VDeliver 0 1; VDetect 0; VDetect 1]%N
  = Some ([Some 99; Some 99; Some 99]%N, true).
Proof. vm_compute. auto. Qed.

(* a join while an update is in flight *)
Example ex_join :
  (fun s => view s [0; 1; 2; 3]%N) <$>
  vrun (vinit 2) [VWrite 1 10; VDetect 1; VSend 1; VDeliver 1 0; VWrite 1 20; VDetect 1; VSend 1; VJoin 3;
                  VDeliver 1 0; VDeliver 0 3; VDeliver 0 3; VDeliver 0 2; VDeliver 0 2;
                  VDetect 0; VDetect 2; VDetect 3]%N
  = Some ([Some 20; Some 20; Some 20; Some 20]%N, true).
Proof. vm_compute. reflexivity. Qed.

(* ---------- C09 (component part): arming, effective events, termination measure ---------------
   Additions only; everything is executable. Proofs: ValuesProofs.v, Part 9. *)

(* [varmed s p]: p is going to announce something without any further write: its queue is non-empty, or
   its change flag was raised by a local write and no token will swallow it. *)
Definition armedx (x : vpeer) : bool :=
  match outq x with [] => false | _ => true end || (dirty x && negb (token x)).
Definition varmed (s : vstate) (p : peer) : bool := armedx (getp s p).

(* an event that does something: a detector run with the change flag up, a send of a non-empty queue,
   any delivery *)
Definition effective (s : vstate) (e : vevent) : bool :=
  match e with
  | VDetect p => pdirty s p || ptoken s p
  | VSend p => match poutq s p with [] => false | _ => true end
  | VDeliver _ _ => true
  | _ => false
  end.

(* tr runs from s and every event of it is effective *)
Fixpoint effective_run (s : vstate) (tr : list vevent) : bool :=
  match tr with
  | [] => true
  | e :: tr => effective s e && match vstep s e with Some s' => effective_run s' tr | None => false end
  end.

(* the events of the run that hand at least one message to the network *)
Fixpoint emitters (s : vstate) (tr : list vevent) : list vevent :=
  match tr with
  | [] => []
  | e :: tr =>
      match vstep s e with
      | None => []
      | Some s' => (match sent_by s e with O => [] | S _ => [e] end) ++ emitters s' tr
      end
  end.

Fixpoint sum_with {A} (f : A -> nat) (l : list A) : nat :=
  match l with [] => O | x :: l => (f x + sum_with f l)%nat end.

(* termination measure, n = number of connected clients:
   a message host -> client costs 2 (its delivery, the flag it may raise);
   a message client -> host costs 2n+2 (its delivery, the host's flag, n relayed messages);
   a queued value costs one more than the messages its send creates;
   a raised change flag costs 1, plus a queued value if no token swallows it. *)
Definition qcost (n : nat) (p : peer) : nat := if (p =? host)%N then (2 * n + 1)%nat else (2 * n + 3)%nat.
Definition peer_cost (n : nat) (p : peer) (x : vpeer) : nat :=
  ((if dirty x || token x then 1 else 0) + (if dirty x && negb (token x) then qcost n p else 0) +
   length (outq x) * qcost n p)%nat.
Definition down_msgs (s : vstate) : nat := sum_with (fun c => length (link s host c)) (vconn s).
Definition up_msgs (s : vstate) : nat := sum_with (fun c => length (link s c host)) (vconn s).
Definition vmeasure (s : vstate) : nat :=
  let n := length (vconn s) in
  (sum_with (fun p => peer_cost n p (getp s p)) (host :: vconn s) + 2 * down_msgs s + (2 * n + 2) * up_msgs s)%nat.

(* traffic potential, M = a bound on the number of connected clients: the messages the pending work can
   still cause (an armed flag or a queued value: M; a message towards the host: its M-1 relays) *)
Definition armed_units (x : vpeer) : nat := ((if dirty x && negb (token x) then 1 else 0) + length (outq x))%nat.
Definition vpot (M : nat) (s : vstate) : nat :=
  (sum_with (fun p => armed_units (getp s p)) (host :: vconn s) * M + up_msgs s * (M - 1))%nat.

(* one effective plain event of a well-formed non-quiescent state, None if there is none *)
Definition peer_event (s : vstate) (p : peer) : option vevent :=
  if pdirty s p || ptoken s p then Some (VDetect p)
  else match poutq s p with
       | _ :: _ => Some (VSend p)
       | [] => match link s host p, link s p host with
               | _ :: _, _ => Some (VDeliver host p)
               | [], _ :: _ => Some (VDeliver p host)
               | [], [] => None
               end
       end.
Fixpoint first_some {A B} (f : A -> option B) (l : list A) : option B :=
  match l with
  | [] => None
  | x :: l => match f x with Some y => Some y | None => first_some f l end
  end.
Definition next_event (s : vstate) : option vevent := first_some (peer_event s) (host :: vconn s).

(* a drain schedule: effective plain events until none is left (or the fuel runs out) *)
Fixpoint vdrain (fuel : nat) (s : vstate) : list vevent :=
  match fuel with
  | O => []
  | S k => match next_event s with
           | None => []
           | Some e => match vstep s e with Some s' => e :: vdrain k s' | None => [] end
           end
  end.

(* nobody is armed (checked on the existing peers; an absent peer is never armed) *)
Definition unarmedb (s : vstate) : bool := forallb (fun p => negb (varmed s p)) (host :: vconn s).

(* ---------- the residue of [joiners_settled] after fix e13e196 -----------------------------------
   joiners_received: a client that joined since the last quiescent state does not write while its
   snapshot is still travelling towards it (weaker than [joiners_settled]: see
   [joiners_settled_received]; still needed: see [C02_join_window_refuted]). *)
Fixpoint jr_from (blk : list peer) (s : vstate) (tr : list vevent) : bool :=
  match tr with
  | [] => true
  | e :: tr =>
      let blk := if vquiescentb s then [] else blk in
      match vstep s e with
      | None => true
      | Some s' =>
          match e with
          | VWrite p _ => bool_decide (p ∉ blk \/ link s host p = []) && jr_from blk s' tr
          | VJoin c => jr_from (c :: blk) s' tr
          | _ => jr_from blk s' tr
          end
      end
  end.
Definition joiners_received (s : vstate) (tr : list vevent) : Prop := jr_from [] s tr = true.
