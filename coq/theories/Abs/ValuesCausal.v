(* C02 under CAUSALLY ORDERED writes (weaker than drain separation).  Additions to Values.v / ValuesProofs.v;
   nothing there is changed. *)
From Coq Require Import NArith List Lia.
From stdpp Require Import gmap list.
From BS Require Import Abs.Values Abs.ValuesProofs.
From BS Require Export Abs.ValuesPremise.

Local Open Scope N_scope.

(* ================================================================================================
   Part 1: the premise
   ================================================================================================ *)

(* nilb, seenb, co_from, causally_ordered: Abs/ValuesPremise.v (model side: extracted for the driver) *)

(* The NAIVE reading: "p has seen the previous write" := p displays the value of the previous write, plus a
   side condition [side s w p] (w = previous author).  Refuted below for three increasingly strong side
   conditions: comparing VALUES cannot tell whether the message of the previous write has arrived. *)
Fixpoint nco_from (side : vstate -> peer -> peer -> bool) (g : option (peer * value)) (s : vstate)
         (tr : list vevent) : bool :=
  match tr with
  | [] => true
  | e :: tr =>
      match vstep s e with
      | None => true
      | Some s' =>
          match e with
          | VWrite p v =>
              match g with
              | None => true
              | Some (w, u) => bool_decide (w = p) || (bool_decide (pcur s p = Some u) && side s w p)
              end && nco_from side (Some (p, v)) s' tr
          | _ => nco_from side g s' tr
          end
      end
  end.
Definition naive_causal side (s : vstate) (tr : list vevent) : bool := nco_from side None s tr.

(* side 0: p itself has nothing pending (not armed, hence empty queue) *)
Definition side_idle (s : vstate) (w p : peer) : bool := negb (varmed s p).
(* side 1: moreover both links between p and the host are empty *)
Definition side_links (s : vstate) (w p : peer) : bool :=
  negb (varmed s p) && nilb (link s host p) && nilb (link s p host).
(* side 2: moreover EVERY link of the session is empty and every peer but w is unarmed *)
Definition all_links_empty (s : vstate) : bool := bool_decide (map_Forall (fun _ l => l = []) (vlinks s)).
Definition side_all_links (s : vstate) (w p : peer) : bool :=
  all_links_empty s && forallb (fun q => bool_decide (q = w) || negb (varmed s q)) (host :: vconn s).

(* A -> B -> A at the host, one client: the client shows 10 = the value of the previous write after the FIRST
   of three messages; it writes 20; the remaining messages 11, 10 overwrite it; the token swallows the
   announcement: 20 is lost, everybody ends with 10. *)
Definition ex_aba_host : list vevent :=
  [VWrite 0 10; VDetect 0; VSend 0; VWrite 0 11; VDetect 0; VSend 0; VWrite 0 10; VDetect 0; VSend 0;
   VDeliver 0 1; VWrite 1 20; VDeliver 0 1; VDeliver 0 1; VDetect 1].
(* the same one hop further away: the stale messages are still on the uplink of the previous author *)
Definition ex_aba_relay : list vevent :=
  [VWrite 1 10; VDetect 1; VSend 1; VWrite 1 11; VDetect 1; VSend 1; VWrite 1 10; VDetect 1; VSend 1;
   VDeliver 1 0; VDeliver 0 2; VDetect 0; VDetect 2;
   VWrite 2 20; VDeliver 1 0; VDeliver 1 0; VDeliver 0 2; VDeliver 0 2; VDetect 2; VDetect 0].
(* the previous author re-writes the value everybody already shows and has not announced it yet: all links
   are empty, yet the re-announcement crosses the next write *)
Definition ex_rewrite_same : list vevent :=
  [VWrite 1 10; VDetect 1; VSend 1; VDeliver 1 0; VDeliver 0 2; VDetect 0; VDetect 2;
   VWrite 1 10; VWrite 2 20; VDetect 1; VSend 1; VDetect 2; VSend 2;
   VDeliver 2 0; VDeliver 1 0; VDeliver 0 1; VDeliver 0 2; VDetect 0; VDetect 1; VDetect 2].

Example naive_witnesses :
  (naive_causal side_idle (vinit 1) ex_aba_host = true /\ joiners_received (vinit 1) ex_aba_host /\
   last (written ex_aba_host) = Some 20 /\
   (fun s => view s [0; 1]) <$> vrun (vinit 1) ex_aba_host = Some ([Some 10; Some 10], true)) /\
  (naive_causal side_links (vinit 2) ex_aba_relay = true /\ joiners_received (vinit 2) ex_aba_relay /\
   last (written ex_aba_relay) = Some 20 /\
   (fun s => view s [0; 1; 2]) <$> vrun (vinit 2) ex_aba_relay = Some ([Some 10; Some 10; Some 10], true)) /\
  (naive_causal side_all_links (vinit 2) ex_rewrite_same = true /\ joiners_received (vinit 2) ex_rewrite_same /\
   last (written ex_rewrite_same) = Some 20 /\
   (fun s => view s [0; 1; 2]) <$> vrun (vinit 2) ex_rewrite_same = Some ([Some 10; Some 20; Some 10], true)).
Proof. vm_compute. auto 20. Qed.

(* ================================================================================================
   Part 2: the invariant
   [CInv g lw s]: g = Some w: the single-writer phase invariant of ValuesProofs.v holds for w, the author of
   the most recent write, and w shows lw, the most recent write; g = None: nobody has written yet.
   The only new proof obligation is the HANDOVER: a write by p <> w in a state where p has seen w.
   ================================================================================================ *)

Lemma nilb_nil l : nilb l = true -> l = [].
Proof. destruct l; [reflexivity|discriminate]. Qed.

Lemma seenb_spec s w p :
  seenb s w p = true -> varmed s w = false /\ link s w host = [] /\ link s host p = [].
Proof.
  unfold seenb. intros H. apply andb_prop in H as [H H3]. apply andb_prop in H as [H1 H2].
  apply negb_true_iff in H1. split; [exact H1|]. split; apply nilb_nil; assumption.
Qed.

(* the previous author w is idle: nothing queued, no undetected write (its token is down in its own phase) *)
Lemma unarmed_owner_idle w s : Disc w s -> varmed s w = false -> pdirty s w = false /\ poutq s w = [].
Proof.
  intros HD Hu. split; [|apply unarmed_outq, Hu].
  pose proof (disc_token _ _ HD) as Ht. unfold varmed, armedx in Hu. unfold pdirty, ptoken in *.
  apply orb_false_iff in Hu as [_ Hu]. rewrite Ht in Hu. simpl in Hu. rewrite andb_true_r in Hu. exact Hu.
Qed.

(* handover: p has seen everything w wrote, p writes: p's phase starts *)
Lemma handover_write w p v s s1 :
  vwf s -> Phase w s -> p <> w -> seenb s w p = true -> vstep s (VWrite p v) = Some s1 -> Phase p s1.
Proof.
  intros Hwf [HD HC] Hpw Hseen Hstep.
  apply seenb_spec in Hseen as (Hu & Hup & Hdown).
  destruct (unarmed_owner_idle w s HD Hu) as [Hdw How].
  apply step_write in Hstep as (_ & Hcn & Hl & _ & Hp & Hq).
  assert (Hlk : forall a b, link s1 a b = link s a b) by (intros; unfold link; rewrite Hl; reflexivity).
  assert (Hidle : forall q, q <> p -> pdirty s q = false /\ poutq s q = []).
  { intros q Hqp. destruct (decide (q = w)) as [->|Hqw]; [auto|apply (disc_idle _ _ HD), Hqw]. }
  assert (Hups : forall c, c <> p -> link s c host = []).
  { intros c Hcp. destruct (decide (c = w)) as [->|Hcw]; [exact Hup|apply (disc_up _ _ HD), Hcw]. }
  split.
  - split.
    + intros q Hqp. unfold pdirty, poutq. rewrite Hq by exact Hqp. apply Hidle, Hqp.
    + unfold ptoken. rewrite Hp. reflexivity.
    + intros c. rewrite Hlk. destruct (link s c p) eqn:E; [reflexivity|]. exfalso.
      assert (Hne : link s c p <> []) by (rewrite E; discriminate).
      destruct (wf_link s c p Hwf Hne) as [[-> _]|[-> Hc]]; [apply Hne, Hdown|].
      apply Hne. destruct (decide (c = w)) as [->|Hcw]; [exact Hup|apply (disc_up _ _ HD), Hcw].
    + intros c Hcp. rewrite Hlk. apply Hups, Hcp.
  - assert (Hd1 : pdirty s1 p = true) by (unfold pdirty; rewrite Hp; reflexivity).
    split; rewrite ?Hcn.
    + intros -> Hd'. congruence.
    + intros -> Hd'. congruence.
    + intros _ Hd'. congruence.
    + intros Hph c Hc Hcp. rewrite Hlk. unfold pcur. rewrite !Hq by congruence. fold (pcur s c) (pcur s host).
      destruct (decide (w = host)) as [->|Hwh].
      * pose proof (conv_h1 _ _ HC eq_refl Hdw c Hc) as H1. rewrite How, app_nil_r in H1. exact H1.
      * destruct (decide (c = w)) as [->|Hcw].
        -- rewrite (disc_in _ _ HD host). simpl.
           pose proof (conv_k1 _ _ HC Hwh Hdw) as H1. rewrite Hup, How in H1. simpl in H1. symmetry. exact H1.
        -- apply (conv_k2 _ _ HC Hwh c Hc Hcw).
    + intros _. unfold pcur. rewrite Hp. simpl. eauto.
Qed.

(* what the premise implies: p displays the value of the previous write (the clause of the naive reading) *)
Lemma seen_value w p s :
  vwf s -> Phase w s -> peers s p -> seenb s w p = true -> pcur s p = pcur s w.
Proof.
  intros Hwf [HD HC] Hp Hseen. destruct (decide (p = w)) as [->|Hpw]; [reflexivity|].
  apply seenb_spec in Hseen as (Hu & Hup & Hdown).
  destruct (unarmed_owner_idle w s HD Hu) as [Hdw How].
  destruct (decide (w = host)) as [->|Hwh].
  - destruct Hp as [->|Hp]; [reflexivity|].
    pose proof (conv_h1 _ _ HC eq_refl Hdw p Hp) as H1. rewrite Hdown, How in H1. exact H1.
  - pose proof (conv_k1 _ _ HC Hwh Hdw) as H1. rewrite Hup, How in H1. simpl in H1.
    destruct Hp as [->|Hp]; [exact H1|].
    pose proof (conv_k2 _ _ HC Hwh p Hp Hpw) as H2. rewrite Hdown in H2. simpl in H2. congruence.
Qed.

Record CInv (g : option peer) (lw : option value) (s : vstate) : Prop := {
  ci_wf : vwf s;
  ci_phase : forall w, g = Some w -> Phase w s /\ peers s w /\ pcur s w = lw;
  ci_none : g = None -> Calm s /\ (forall p, link s host p = []) /\ pcur s host = None /\ lw = None
}.

Lemma cinv_agree g lw s : CInv g lw s -> vquiescent s -> Agree s lw.
Proof.
  intros [Hwf Hph Hnone] Hq. destruct g as [w|].
  - destruct (Hph w eq_refl) as (HP & _ & <-). apply phase_quiescent_agree; assumption.
  - destruct (Hnone eq_refl) as (HC & _ & Hh & ->). rewrite <- Hh. apply calm_quiescent_agree; assumption.
Qed.

Lemma cinv_step_nonwrite g lw s e s1 :
  CInv g lw s -> no_write e -> vstep s e = Some s1 -> CInv g lw s1.
Proof.
  intros [Hwf Hph Hnone] Hnw Hstep. split.
  - eapply step_wf; eauto.
  - intros w Hg. destruct (Hph w Hg) as (HP & Hpw & Hlw). split; [|split].
    + eapply phase_step; [exact Hwf|exact HP| |exact Hstep]. destruct e; simpl in *; try contradiction; exact I.
    + eapply peers_step; eauto.
    + rewrite <- Hlw. eapply phase_cur_w; [exact Hwf|exact (proj1 HP)|exact Hnw|exact Hstep].
  - intros Hg. destruct (Hnone Hg) as (HC & Hl & Hh & Hlw).
    destruct (calm_step s e s1 Hwf HC Hnw Hstep) as (HC1 & Hh1 & Hlk).
    split; [exact HC1|]. split; [|split; [congruence|exact Hlw]].
    intros p. destruct (decide (e = VJoin p)) as [->|Hne]; [|apply Hlk; [apply Hl|exact Hne]].
    (* nobody has written yet: the host's queue is empty, the join has nothing to flush *)
    rewrite (join_noflush s p (proj2 (calm_idle _ HC host))) in Hstep.
    apply step_join0 in Hstep as (_ & _ & _ & _ & _ & _ & Hlj). rewrite Hlj.
    destruct (decide ((host, p) = (host, p))) as [_|Hn]; [|congruence].
    unfold snapshot. rewrite Hl, Hh. reflexivity.
Qed.

Lemma cinv_step_write g lw s p v s1 :
  CInv g lw s -> vstep s (VWrite p v) = Some s1 ->
  match g with None => true | Some w => bool_decide (w = p) || seenb s w p end = true ->
  CInv (Some p) (Some v) s1.
Proof.
  intros [Hwf Hph Hnone] Hstep Hok.
  assert (HP1 : Phase p s1).
  { destruct g as [w|].
    - destruct (Hph w eq_refl) as (HP & _ & _). apply orb_prop in Hok as [Hok|Hok].
      + apply bool_decide_eq_true in Hok. subst w.
        eapply phase_step; [exact Hwf|exact HP| |exact Hstep]. reflexivity.
      + destruct (decide (p = w)) as [->|Hpw].
        * eapply phase_step; [exact Hwf|exact HP| |exact Hstep]. reflexivity.
        * eapply handover_write; eauto.
    - destruct (Hnone eq_refl) as (HC & Hl & _ & _). eapply calm_write_phase; eauto. }
  split.
  - eapply step_wf; eauto.
  - intros w [= <-]. split; [exact HP1|].
    apply step_write in Hstep as (Hex & Hcn & _ & _ & Hpv & _). split.
    + unfold peers. rewrite Hcn. apply (wf_exists s p Hwf), Hex.
    + unfold pcur. rewrite Hpv. reflexivity.
  - intros [=].
Qed.

Lemma C02_causal_general tr : forall g lw s s',
  CInv g lw s -> vrun s tr = Some s' -> co_from g s tr = true ->
  exists g', CInv g' (lastd lw (written tr)) s'.
Proof.
  induction tr as [|e tr IH]; intros g lw s s' HI Hrun Hco.
  - simpl in Hrun. inversion Hrun; subst. exists g. exact HI.
  - cbn [vrun] in Hrun. cbn [co_from] in Hco.
    destruct (vstep s e) as [s1|] eqn:Hstep; [|discriminate].
    destruct e as [p v|p|p|src dst|c];
      [|cbn [written omap];
        (eapply IH; [eapply cinv_step_nonwrite; [exact HI| |exact Hstep]; exact I|exact Hrun|exact Hco])..].
    apply andb_prop in Hco as [Hok Hco].
    change (written (VWrite p v :: tr)) with (v :: written tr). rewrite lastd_cons.
    eapply (IH (Some p)); [|exact Hrun|exact Hco].
    eapply cinv_step_write; eauto.
Qed.

Lemma cinv_init n : CInv None None (vinit n).
Proof.
  assert (Hc : forall p, pcur (vinit n) p = None) by (intros; unfold pcur; rewrite vinit_getp; reflexivity).
  split.
  - apply vinit_wf.
  - intros w [=].
  - intros _. split; [|split; [intros p; apply vinit_link|split; [apply Hc|reflexivity]]].
    apply (quiescent_calm _ None (vinit_quiescent n)). intros p _. apply Hc.
Qed.

(* ================================================================================================
   Part 3: C02 for causally ordered writes
   ================================================================================================ *)

(* The premise on joiners is not needed: a joiner is never the author of the previous write when it first
   writes, so [causally_ordered] itself makes it wait for its snapshot ([link s host c = []]). *)
Theorem C02_causal_converge_strong n tr s' :
  vrun (vinit n) tr = Some s' ->
  causally_ordered (vinit n) tr = true ->
  vquiescent s' ->
  forall p, peers s' p -> pcur s' p = last (written tr).
Proof.
  intros Hrun Hco Hq.
  destruct (C02_causal_general tr None None (vinit n) s' (cinv_init n) Hrun Hco) as (g' & HI).
  rewrite <- lastd_None_last. exact (cinv_agree _ _ _ HI Hq).
Qed.
Print Assumptions C02_causal_converge_strong.

(* the statement as asked for *)
Theorem C02_causal_converge n tr s' :
  vrun (vinit n) tr = Some s' ->
  causally_ordered (vinit n) tr = true -> joiners_received (vinit n) tr ->
  vquiescent s' ->
  forall p, peers s' p -> pcur s' p = last (written tr).
Proof. intros Hrun Hco _. exact (C02_causal_converge_strong n tr s' Hrun Hco). Qed.
Print Assumptions C02_causal_converge.

(* the premise is prefix-closed: the conclusion holds at EVERY quiescent state along the run *)
Lemma co_from_prefix g s tr1 tr2 : co_from g s (tr1 ++ tr2) = true -> co_from g s tr1 = true.
Proof.
  revert g s. induction tr1 as [|e tr1 IH]; intros g s H; [reflexivity|].
  cbn [app co_from] in *. destruct (vstep s e) as [s1|]; [|reflexivity].
  destruct e; try (eapply IH; exact H).
  apply andb_prop in H as [H1 H2]. rewrite H1. simpl. eapply IH; exact H2.
Qed.

Theorem C02_causal_every_quiescent_state n tr1 tr2 s1 :
  causally_ordered (vinit n) (tr1 ++ tr2) = true ->
  vrun (vinit n) tr1 = Some s1 -> vquiescent s1 ->
  forall p, peers s1 p -> pcur s1 p = last (written tr1).
Proof.
  intros Hco Hrun Hq. eapply C02_causal_converge_strong; eauto. eapply co_from_prefix; exact Hco.
Qed.
Print Assumptions C02_causal_every_quiescent_state.

(* at every write that the premise lets through, the writer displays the most recent write (the value clause
   of the naive reading is a CONSEQUENCE of [seenb]) *)
Definition write_ok (g : option peer) (s : vstate) (p : peer) : bool :=
  match g with None => true | Some w => bool_decide (w = p) || seenb s w p end.

Lemma co_at_write tr1 : forall g lw s0 s p v tr2 s1,
  CInv g lw s0 -> vrun s0 tr1 = Some s -> vstep s (VWrite p v) = Some s1 ->
  co_from g s0 (tr1 ++ VWrite p v :: tr2) = true ->
  exists g', CInv g' (lastd lw (written tr1)) s /\ write_ok g' s p = true.
Proof.
  induction tr1 as [|e tr1 IH]; intros g lw s0 s p v tr2 s1 HI Hrun Hstep Hco.
  - simpl in Hrun. inversion Hrun; subst. exists g. split; [exact HI|].
    cbn [app co_from] in Hco. rewrite Hstep in Hco. apply andb_prop in Hco. apply Hco.
  - cbn [vrun] in Hrun. cbn [app co_from] in Hco. destruct (vstep s0 e) as [s2|] eqn:Hs; [|discriminate].
    destruct e as [q u|q|q|src dst|c];
      [|cbn [written omap];
        (eapply IH; [eapply cinv_step_nonwrite; [exact HI| |exact Hs]; exact I|exact Hrun|exact Hstep|exact Hco])..].
    apply andb_prop in Hco as [Hok Hco].
    change (written (VWrite q u :: tr1)) with (u :: written tr1). rewrite lastd_cons.
    eapply (IH (Some q)); [|exact Hrun|exact Hstep|exact Hco]. eapply cinv_step_write; eauto.
Qed.

Theorem causal_writer_is_current n tr1 p v tr2 s :
  causally_ordered (vinit n) (tr1 ++ VWrite p v :: tr2) = true ->
  vrun (vinit n) tr1 = Some s -> is_Some (vstep s (VWrite p v)) ->
  pcur s p = last (written tr1).
Proof.
  intros Hco Hrun [s1 Hstep].
  destruct (co_at_write tr1 None None (vinit n) s p v tr2 s1 (cinv_init n) Hrun Hstep Hco)
    as (g & [Hwf Hph Hnone] & Hok).
  rewrite <- lastd_None_last.
  assert (Hp : peers s p).
  { apply step_write in Hstep as (Hex & _). apply (wf_exists s p Hwf), Hex. }
  destruct g as [w|]; unfold write_ok in Hok.
  - destruct (Hph w eq_refl) as (HP & _ & Hlw). rewrite <- Hlw.
    apply orb_prop in Hok as [Hok|Hok]; [apply bool_decide_eq_true in Hok; subst; reflexivity|].
    eapply seen_value; eauto.
  - destruct (Hnone eq_refl) as (HC & Hl & Hh & ->).
    destruct Hp as [->|Hp]; [exact Hh|].
    pose proof (calm_down _ HC p Hp) as H1. rewrite Hl in H1. simpl in H1. congruence.
Qed.
Print Assumptions causal_writer_is_current.

(* ================================================================================================
   Part 4: relation to drain separation and to [joiners_received]
   ================================================================================================ *)

(* the write step of [C02_general] (ValuesProofs.v), as a lemma *)
Lemma c02_step_write g blk lw s p v s1 :
  C02Inv g blk lw s -> g = None \/ g = Some p -> p ∉ blk \/ link s host p = [] ->
  vstep s (VWrite p v) = Some s1 -> C02Inv (Some p) blk (Some v) s1.
Proof.
  intros [Hwf Hph Hcalm Hop Hl] Hg Hb Hstep.
  assert (Hp1 : Phase p s1).
  { destruct Hg as [Hg|Hg].
    - destruct (Hcalm Hg) as [HC Hlb]. eapply calm_write_phase; [exact Hwf|exact HC| |exact Hstep].
      destruct Hb as [Hb|Hb]; [apply Hlb, Hb|exact Hb].
    - eapply phase_step; [exact Hwf|exact (Hph p Hg)| |exact Hstep]. reflexivity. }
  split.
  - eapply step_wf; eauto.
  - intros w [= <-]. exact Hp1.
  - intros [=].
  - simpl. apply step_write in Hstep as (Hex & Hcn & _). unfold peers. rewrite Hcn. apply (wf_exists s p Hwf), Hex.
  - simpl. apply step_write in Hstep as (_ & _ & _ & _ & Hpv & _). unfold pcur. rewrite Hpv. reflexivity.
Qed.

(* [g] = the writer since the last quiescent state (ds_from), [cg] = the author of the most recent write *)
Lemma ds_co_from tr : forall g blk lw s cg,
  C02Inv g blk lw s -> (forall w, g = Some w -> cg = Some w) ->
  ds_from g s tr = true -> jr_from blk s tr = true -> co_from cg s tr = true.
Proof.
  induction tr as [|e tr IH]; intros g blk lw s cg HI Hrel Hds Hjs; [reflexivity|].
  cbn [ds_from] in Hds. cbn [jr_from] in Hjs. cbn [co_from].
  destruct (vstep s e) as [s1|] eqn:Hstep; [|reflexivity].
  apply c02_reset in HI.
  assert (Hrel' : forall w, (if vquiescentb s then None else g) = Some w -> cg = Some w).
  { intros w Hw. destruct (vquiescentb s); [discriminate|apply Hrel, Hw]. }
  revert HI Hrel' Hds Hjs. clear Hrel.
  generalize (if vquiescentb s then None else g). generalize (if vquiescentb s then [] else blk).
  clear g blk. intros blk g HI Hrel Hds Hjs.
  destruct e as [p v|p|p|src dst|c];
    [|(eapply IH; [eapply c02_step_nonwrite; [exact HI| |exact Hstep]; exact I|exact Hrel|exact Hds|exact Hjs])..].
  apply andb_prop in Hds as [Hg Hds]. apply bool_decide_eq_true in Hg.
  apply andb_prop in Hjs as [Hb Hjs]. apply bool_decide_eq_true in Hb.
  apply andb_true_intro. split.
  - destruct cg as [w|]; [|reflexivity]. destruct Hg as [Hg|Hg].
    + (* nobody wrote since the last quiescent state: everything w announced has arrived everywhere *)
      destruct (c02_calm _ _ _ _ HI Hg) as [HC Hlb].
      assert (Hlp : link s host p = []) by (destruct Hb as [Hb|Hb]; [apply Hlb, Hb|exact Hb]).
      destruct (calm_idle _ HC w) as [Hd Ho].
      apply orb_true_intro. right. unfold seenb, varmed, armedx.
      unfold pdirty in Hd. unfold poutq in Ho. rewrite Hd, Ho, (calm_up _ HC w), Hlp. reflexivity.
    + pose proof (Hrel p Hg) as E. apply orb_true_intro. left. apply bool_decide_eq_true. congruence.
  - eapply (IH (Some p) blk); [eapply c02_step_write; eauto| |exact Hds|exact Hjs].
    intros w Hw. exact Hw.
Qed.

(* drain separation (with its premise on joiners) is a special case of causal order *)
Theorem drain_separated_is_causal_from g blk lw s tr :
  C02Inv g blk lw s -> ds_from g s tr = true -> jr_from blk s tr = true -> co_from g s tr = true.
Proof. intros HI. apply (ds_co_from tr g blk lw s g HI). auto. Qed.

Theorem drain_separated_is_causal n tr :
  drain_separated (vinit n) tr -> joiners_received (vinit n) tr -> causally_ordered (vinit n) tr = true.
Proof. apply (drain_separated_is_causal_from None [] None (vinit n) tr (c02_init n)). Qed.
Print Assumptions drain_separated_is_causal.

(* hence [C02_values_converge] is a corollary of the causal theorem *)
Corollary C02_values_converge_from_causal n tr s' :
  vrun (vinit n) tr = Some s' ->
  drain_separated (vinit n) tr -> joiners_received (vinit n) tr ->
  vquiescent s' ->
  forall p, peers s' p -> pcur s' p = last (written tr).
Proof.
  intros Hrun Hds Hjs.
  exact (C02_causal_converge n tr s' Hrun (drain_separated_is_causal n tr Hds Hjs) Hjs).
Qed.
Print Assumptions C02_values_converge_from_causal.

(* causal order alone implies the premise on joiners: at every permitted write nothing travels host -> writer *)
Lemma co_jr_from tr : forall g lw s blk,
  CInv g lw s -> co_from g s tr = true -> jr_from blk s tr = true.
Proof.
  induction tr as [|e tr IH]; intros g lw s blk HI Hco; [reflexivity|].
  cbn [co_from] in Hco. cbn [jr_from]. destruct (vstep s e) as [s1|] eqn:Hstep; [|reflexivity].
  destruct e as [p v|p|p|src dst|c];
    [|(eapply IH; [eapply cinv_step_nonwrite; [exact HI| |exact Hstep]; exact I|exact Hco])..].
  apply andb_prop in Hco as [Hok Hco]. apply andb_true_intro. split.
  - apply bool_decide_eq_true. right. destruct HI as [Hwf Hph Hnone]. destruct g as [w|].
    + destruct (Hph w eq_refl) as ([HD _] & _ & _).
      destruct (decide (w = p)) as [->|Hne]; [apply (disc_in _ _ HD)|].
      apply orb_prop in Hok as [Hok|Hok]; [apply bool_decide_eq_true in Hok; contradiction|].
      apply seenb_spec in Hok. apply Hok.
    + apply (Hnone eq_refl).
  - eapply (IH (Some p)); [eapply cinv_step_write; eauto|exact Hco].
Qed.

Theorem causal_implies_joiners_received n tr :
  causally_ordered (vinit n) tr = true -> joiners_received (vinit n) tr.
Proof. apply (co_jr_from tr None None (vinit n) [] (cinv_init n)). Qed.
Print Assumptions causal_implies_joiners_received.

(* ================================================================================================
   Part 5: examples
   ================================================================================================ *)

(* non-vacuity, 3 peers: the host writes 10; client 1 receives it and writes 20 at once, while the host's
   message to client 2 is still in flight; client 2 receives 10, then the relayed 20, and writes 30 at once
   (the tokens of the host and of client 2 are still up).  No state between the first write and the last
   event is quiescent; the trace is NOT drain separated; the premise holds; everybody ends with 30. *)
Definition ex_causal_chain : list vevent :=
  [VWrite 0 10; VDetect 0; VSend 0; VDeliver 0 1;
   VWrite 1 20; VDetect 1; VSend 1; VDeliver 1 0; VDeliver 0 2; VDeliver 0 2;
   VWrite 2 30; VDetect 2; VSend 2; VDeliver 2 0; VDeliver 0 1; VDetect 0; VDetect 1].
Example C02_causal_nonvacuous :
  causally_ordered (vinit 2) ex_causal_chain = true /\
  ds_from None (vinit 2) ex_causal_chain = false /\
  joiners_received (vinit 2) ex_causal_chain /\
  (* the relay to client 2 is in flight when client 1 writes *)
  (fun s => link s 0 2) <$> vrun (vinit 2) (take 4 ex_causal_chain) = Some [10] /\
  (* quiescent at the two ends only *)
  vquiescentb <$> vstates (vinit 2) ex_causal_chain = true :: replicate 16 false ++ [true] /\
  last (written ex_causal_chain) = Some 30 /\
  (fun s => view s [0; 1; 2]) <$> vrun (vinit 2) ex_causal_chain = Some ([Some 30; Some 30; Some 30], true).
Proof. vm_compute. auto 10. Qed.

(* a joiner in a causal chain: client 2 joins while 20 is on its way to the host, gets the snapshot 10 and
   then the relayed 20, and writes at once *)
Definition ex_causal_join : list vevent :=
  [VWrite 0 10; VDetect 0; VSend 0; VDeliver 0 1; VWrite 1 20; VDetect 1; VSend 1; VJoin 2;
   VDeliver 1 0; VDeliver 0 2; VDeliver 0 2; VWrite 2 30; VDetect 2; VSend 2; VDeliver 2 0; VDeliver 0 1;
   VDetect 0; VDetect 1].
Example C02_causal_join_example :
  causally_ordered (vinit 1) ex_causal_join = true /\ ds_from None (vinit 1) ex_causal_join = false /\
  (fun s => view s [0; 1; 2]) <$> vrun (vinit 1) ex_causal_join = Some ([Some 30; Some 30; Some 30], true).
Proof. vm_compute. auto. Qed.

(* genuinely concurrent writes are rejected by the premise: [ex_conflict] (two clients write before either
   has heard of the other: the session ends quiescent and SPLIT, 20 / 20 / 10) and the first trace of
   [C02_lost_write_example] (client 2 writes while 10 is on its way to it: 99 is lost, everybody ends with 10) *)
Example C02_causal_rejects_concurrent :
  let tr := [VWrite 1 10; VDetect 1; VSend 1; VDeliver 1 0; VWrite 2 99; VDeliver 0 2; VDetect 2; VDetect 0] in
  causally_ordered (vinit 2) ex_conflict = false /\
  (fun s => view s [0; 1; 2]) <$> vrun (vinit 2) ex_conflict = Some ([Some 20; Some 20; Some 10], true) /\
  causally_ordered (vinit 2) tr = false /\ last (written tr) = Some 99 /\
  (fun s => view s [0; 1; 2]) <$> vrun (vinit 2) tr = Some ([Some 10; Some 10; Some 10], true).
Proof. vm_compute. auto 10. Qed.

(* the three refutation traces of the naive reading are rejected by [causally_ordered], each by a different
   conjunct of [seenb]: host -> p not empty / w -> host not empty / w armed *)
Example naive_witnesses_rejected :
  causally_ordered (vinit 1) ex_aba_host = false /\
  causally_ordered (vinit 2) ex_aba_relay = false /\
  causally_ordered (vinit 2) ex_rewrite_same = false /\
  (fun s => (varmed s 0, link s 0 0, link s 0 1)) <$> vrun (vinit 1) (take 10 ex_aba_host) = Some (false, [], [11; 10]) /\
  (fun s => (varmed s 1, link s 1 0, link s 0 2)) <$> vrun (vinit 2) (take 13 ex_aba_relay) = Some (false, [11; 10], []) /\
  (fun s => (varmed s 1, link s 1 0, link s 0 2)) <$> vrun (vinit 2) (take 8 ex_rewrite_same) = Some (true, [], []).
Proof. vm_compute. auto 10. Qed.

(* drain separation ALONE (without the premise on joiners) does not imply causal order -- and must not,
   since causal order alone implies convergence and [ex_join_window] does not converge *)
Example drain_separated_alone_not_causal :
  drain_separated (vinit 1) ex_join_window /\ causally_ordered (vinit 1) ex_join_window = false.
Proof. vm_compute. auto. Qed.

(* the refutation of the naive reading, as a theorem: there is a run satisfying the naive premise (value of
   the previous write displayed, writer idle, every link of the session empty, every peer but the previous
   author unarmed) and [joiners_received] that ends quiescent and split, the last write not shown by all *)
Theorem C02_naive_causal_refuted :
  exists n tr s' p q,
    vrun (vinit n) tr = Some s' /\ naive_causal side_all_links (vinit n) tr = true /\
    naive_causal side_links (vinit n) tr = true /\ naive_causal side_idle (vinit n) tr = true /\
    joiners_received (vinit n) tr /\ vquiescent s' /\ peers s' p /\ peers s' q /\
    pcur s' p <> last (written tr) /\ pcur s' p <> pcur s' q.
Proof.
  exists 2%nat, ex_rewrite_same.
  destruct (vrun (vinit 2) ex_rewrite_same) as [s'|] eqn:Hrun; [|vm_compute in Hrun; discriminate].
  exists s', 2, 1. split; [reflexivity|]. do 4 (split; [vm_compute; reflexivity|]).
  assert (Hv : pcur s' 1 = Some 20 /\ pcur s' 2 = Some 10 /\ vquiescentb s' = true /\ vconn s' = [1; 2]).
  { assert (H : (fun s => (pcur s 1, pcur s 2, vquiescentb s, vconn s)) <$> vrun (vinit 2) ex_rewrite_same
                = Some (Some 20, Some 10, true, [1; 2])) by (vm_compute; reflexivity).
    rewrite Hrun in H. simpl in H. injection H as E1 E2 E3 E4. auto. }
  destruct Hv as (H1 & H2 & Hq & Hc). split; [apply bool_decide_eq_true in Hq; exact Hq|].
  split; [right; rewrite Hc; apply elem_of_list_further, elem_of_list_here|].
  split; [right; rewrite Hc; apply elem_of_list_here|]. split.
  - rewrite H2. vm_compute. congruence.
  - rewrite H2, H1. congruence.
Qed.
Print Assumptions C02_naive_causal_refuted.

(* ... and the minimal one (one client, the write is LOST rather than the session split) *)
Theorem C02_naive_causal_refuted_lost :
  exists n tr s',
    vrun (vinit n) tr = Some s' /\ naive_causal side_idle (vinit n) tr = true /\
    joiners_received (vinit n) tr /\ vquiescent s' /\
    forall p, peers s' p -> pcur s' p <> last (written tr).
Proof.
  exists 1%nat, ex_aba_host.
  destruct (vrun (vinit 1) ex_aba_host) as [s'|] eqn:Hrun; [|vm_compute in Hrun; discriminate].
  exists s'. split; [reflexivity|]. do 2 (split; [vm_compute; reflexivity|]).
  assert (Hv : pcur s' 0 = Some 10 /\ pcur s' 1 = Some 10 /\ vquiescentb s' = true /\ vconn s' = [1]).
  { assert (H : (fun s => (pcur s 0, pcur s 1, vquiescentb s, vconn s)) <$> vrun (vinit 1) ex_aba_host
                = Some (Some 10, Some 10, true, [1])) by (vm_compute; reflexivity).
    rewrite Hrun in H. simpl in H. injection H as E0 E1 E2 E3. auto. }
  destruct Hv as (H0 & H1 & Hq & Hc). split; [apply bool_decide_eq_true in Hq; exact Hq|].
  intros p [->|Hp].
  - unfold host. rewrite H0. vm_compute. congruence.
  - rewrite Hc in Hp. apply elem_of_list_singleton in Hp. subst p. rewrite H1. vm_compute. congruence.
Qed.
Print Assumptions C02_naive_causal_refuted_lost.

(* ================================================================================================
   Part 6: every conjunct of [seenb] is needed
   [co_gen seen] = [co_from] with another test in place of [seenb]; dropping any one of the three conjuncts
   lets through a run that ends quiescent without the last write on every peer.
   ================================================================================================ *)

Fixpoint co_gen (seen : vstate -> peer -> peer -> bool) (g : option peer) (s : vstate) (tr : list vevent) : bool :=
  match tr with
  | [] => true
  | e :: tr =>
      match vstep s e with
      | None => true
      | Some s' =>
          match e with
          | VWrite p _ =>
              match g with None => true | Some w => bool_decide (w = p) || seen s w p end
              && co_gen seen (Some p) s' tr
          | _ => co_gen seen g s' tr
          end
      end
  end.

Lemma co_gen_seenb tr : forall g s, co_gen seenb g s tr = co_from g s tr.
Proof.
  induction tr as [|e tr IH]; intros g s; [reflexivity|]. cbn [co_gen co_from].
  destruct (vstep s e) as [s1|]; [|reflexivity]. destruct e; rewrite ?IH; reflexivity.
Qed.

Definition seen_no_armed (s : vstate) (w p : peer) : bool := nilb (link s w host) && nilb (link s host p).
Definition seen_no_up (s : vstate) (w p : peer) : bool := negb (varmed s w) && nilb (link s host p).
Definition seen_no_down (s : vstate) (w p : peer) : bool := negb (varmed s w) && nilb (link s w host).

Example seenb_conjuncts_needed :
  (co_gen seen_no_armed None (vinit 2) ex_rewrite_same = true /\
   (fun s => view s [0; 1; 2]) <$> vrun (vinit 2) ex_rewrite_same = Some ([Some 10; Some 20; Some 10], true)) /\
  (co_gen seen_no_up None (vinit 2) ex_aba_relay = true /\ last (written ex_aba_relay) = Some 20 /\
   (fun s => view s [0; 1; 2]) <$> vrun (vinit 2) ex_aba_relay = Some ([Some 10; Some 10; Some 10], true)) /\
  (co_gen seen_no_down None (vinit 1) ex_aba_host = true /\ last (written ex_aba_host) = Some 20 /\
   (fun s => view s [0; 1]) <$> vrun (vinit 1) ex_aba_host = Some ([Some 10; Some 10], true)).
Proof. vm_compute. auto 20. Qed.
