(* Event-level abstraction of the replication of the PARENT LINK of ONE synchronized child entity of
   bevy_sync, AFTER THE REPAIR of the parent ping-pong (defect S19).

   Every peer keeps, per child, a VALUE TOKEN [parent_from_network], consumed on use: a receiver that
   applies a parent link from the network (the parent differs -> set_parent) records that parent in
   the token; the announcing system, for every Changed<Parent> child, REMOVES the token and skips the
   child when the token is the child's current parent.  (Before the repair a link applied from the
   network was re-announced by the receiving peer.)

   Rust: /repo/src/server/track.rs  entity_parented_on_server, client/track.rs entity_parented_on_client,
         server/receiver.rs + client/receiver.rs (Message::EntityParented), full_sync/mod.rs build_full_sync
         (the snapshot contains one EntityParented per parented synchronized entity).

   What is kept of a peer: the child's current parent (as a uuid), Bevy's Changed<Parent> flag as seen
   by the peer's announcing system, and the token for the child.  The flag is raised by a local
   set_parent (also when the parent is the same) AND by a link applied from the network (add_child
   stamps the Parent component; the receivers call it only when the parent differs).  The host relays
   EVERY EntityParented it handles to all the other clients, whether or not it changed anything
   (server/receiver.rs: repeat_except_for_client is outside the if).

   Everything here is executable (total functions, decidable validity): the model is meant to be
   run against real traces as well as reasoned about (ParentsProofs.v). *)
From Coq Require Import NArith List Lia.
From stdpp Require Import gmap list.

Definition peer := N.   (* 0 = host *)
Definition puid := N.   (* uuid of a (candidate) parent entity *)
Definition host : peer := 0%N.

Record ppeer := PPeer {
  par : option puid;     (* the child's parent on this peer, None = no Parent component *)
  changed : bool;        (* Changed<Parent> not yet seen by entity_parented_on_{server,client} *)
  tok : option puid      (* parent_from_network: the parent applied from the network, not yet consumed *)
}.

Record pstate := PState {
  pp : gmap peer ppeer;
  pconn : list peer;                          (* connected clients, in connection order *)
  plinks : gmap (peer * peer) (list puid)     (* reliable ordered channel src -> dst, head = oldest *)
}.

Inductive pevent :=
| PSet (p : peer) (u : puid)     (* the application on p makes the child a child of u *)
| PAnnounce (p : peer)           (* entity_parented_on_server / _on_client of p runs *)
| PDeliver (src dst : peer)      (* dst handles the oldest EntityParented of src -> dst *)
| PJoin (c : peer).              (* c connects; the host answers with the snapshot *)

Global Instance pevent_eq_dec : EqDecision pevent.
Proof. solve_decision. Defined.

(* ---------- getters (total, with defaults) ------------------------------------------------ *)

Definition ppeer0 : ppeer := PPeer None false None.
Definition pget (s : pstate) (p : peer) : ppeer := default ppeer0 (pp s !! p).
Definition ppar (s : pstate) (p : peer) : option puid := par (pget s p).
Definition pchg (s : pstate) (p : peer) : bool := changed (pget s p).
Definition ptok (s : pstate) (p : peer) : option puid := tok (pget s p).
Definition plget (L : gmap (peer * peer) (list puid)) (a b : peer) : list puid := default [] (L !! (a, b)).
Definition plink (s : pstate) (a b : peer) : list puid := plget (plinks s) a b.
Definition ppexists (s : pstate) (p : peer) : bool := bool_decide (is_Some (pp s !! p)).

(* ---------- channel operations -------------------------------------------------------------- *)

Definition ppush_link (L : gmap (peer * peer) (list puid)) (a b : peer) (vs : list puid) :=
  <[(a, b) := plget L a b ++ vs]> L.

(* server.broadcast_message / repeat_except_for_client: one copy per destination *)
Definition psend_to (L : gmap (peer * peer) (list puid)) (src : peer) (dsts : list peer) (vs : list puid) :=
  foldr (fun d L => ppush_link L src d vs) L dsts.

Definition pothers (src : peer) (l : list peer) : list peer := filter (fun c => c <> src) l.

(* whom p announces to: the host broadcasts, a client sends to the host *)
Definition pdsts (s : pstate) (p : peer) : list peer := if (p =? host)%N then pconn s else [host].

(* what is put in the snapshot: the current parent, if any *)
Definition plink_msg (o : option puid) : list puid := match o with Some u => [u] | None => [] end.

(* ---------- the three local transitions of a peer record ------------------------------------- *)

(* entity_parented_on_{server,client}, the Changed<Parent> filter matched (flag raised):
   what is sent -- the CURRENT parent unless it is the one in the token -- *)
Definition pann_msg (x : ppeer) : list puid :=
  match par x with
  | Some u => if bool_decide (tok x = Some u) then [] else [u]
  | None => []
  end.
(* -- and the record afterwards: flag seen, token consumed (whatever it was) *)
Definition pann_peer (x : ppeer) : ppeer := PPeer (par x) false None.

(* the receiver of EntityParented u: only if the parent differs: add_child + token := u *)
Definition pdel_peer (u : puid) (x : ppeer) : ppeer :=
  if bool_decide (par x = Some u) then x else PPeer (Some u) true (Some u).

(* set_parent / add_child by the application: the Parent component is (re)stamped even if the parent
   is the same; the token is not touched *)
Definition pset_rec (u : puid) (x : ppeer) : ppeer := PPeer (Some u) true (tok x).

(* ---------- one event ------------------------------------------------------------------------- *)

Definition pset_peer (s : pstate) (p : peer) (x : ppeer) : pstate :=
  PState (<[p := x]> (pp s)) (pconn s) (plinks s).

Definition pstep (s : pstate) (e : pevent) : option pstate :=
  match e with
  | PSet p u =>
      match pp s !! p with
      | None => None
      | Some x => Some (pset_peer s p (pset_rec u x))
      end
  | PAnnounce p =>
      (* Query<(&Parent, &SyncEntity), Changed<Parent>> + the token check *)
      match pp s !! p with
      | None => None
      | Some x =>
          if changed x then
            Some (PState (<[p := pann_peer x]> (pp s)) (pconn s)
                         (psend_to (plinks s) p (pdsts s p) (pann_msg x)))
          else Some s
      end
  | PDeliver src dst =>
      match plink s src dst, pp s !! dst with
      | u :: rest, Some x =>
          let L := <[(src, dst) := rest]> (plinks s) in
          (* the host relays unconditionally *)
          let L := if (dst =? host)%N then psend_to L host (pothers src (pconn s)) [u] else L in
          Some (PState (<[dst := pdel_peer u x]> (pp s)) (pconn s) L)
      | _, _ => None
      end
  | PJoin c =>
      if (c =? host)%N || bool_decide (c ∈ pconn s) || ppexists s c then None
      else Some (PState (<[c := ppeer0]> (pp s)) (pconn s ++ [c])
                        (ppush_link (plinks s) host c (plink_msg (ppar s host))))   (* the snapshot *)
  end.

Fixpoint prun (s : pstate) (tr : list pevent) : option pstate :=
  match tr with
  | [] => Some s
  | e :: tr => match pstep s e with Some s' => prun s' tr | None => None end
  end.

(* lenient replay of a schedule: events that are not enabled (nothing to deliver) are skipped *)
Fixpoint prun_skip (s : pstate) (tr : list pevent) : pstate :=
  match tr with
  | [] => s
  | e :: tr => match pstep s e with Some s' => prun_skip s' tr | None => prun_skip s tr end
  end.

(* host + clients 1..n, all connected, the child has no parent anywhere *)
Definition pclients (n : nat) : list peer := N.of_nat <$> seq 1 n.
Definition pinit (n : nat) : pstate :=
  PState (list_to_map ((fun p => (p, ppeer0)) <$> (host :: pclients n))) (pclients n) ∅.

(* ---------- quiescence ------------------------------------------------------------------------ *)

Definition pquiescent (s : pstate) : Prop :=
  map_Forall (fun _ l => l = []) (plinks s) /\ map_Forall (fun _ x => changed x = false) (pp s).
Global Instance pquiescent_dec s : Decision (pquiescent s).
Proof. unfold pquiescent. apply _. Defined.
Definition pquiescentb (s : pstate) : bool := bool_decide (pquiescent s).

(* ---------- well-formed states (an invariant of every run from [pinit n]) --------------------- *)

Definition ppeers (s : pstate) (p : peer) : Prop := p = host \/ p ∈ pconn s.

Definition pwf (s : pstate) : Prop :=
  NoDup (pconn s) /\ host ∉ pconn s /\
  (forall p, is_Some (pp s !! p) <-> ppeers s p) /\
  (forall a b, plink s a b <> [] -> (a = host /\ b ∈ pconn s) \/ (b = host /\ a ∈ pconn s)).

(* the tracker invariant (also an invariant of every run from [pinit n]): a token is only present
   while the flag is raised; a raised flag means there is a Parent component *)
Definition psync_inv (s : pstate) : Prop :=
  forall p, (ptok s p <> None -> pchg s p = true) /\ (pchg s p = true -> ppar s p <> None).

(* [parmed s p]: p has a LOCAL change that its announcing system will put on the network: the flag
   is raised and the parent is not the one in the token *)
Definition parmed (s : pstate) (p : peer) : bool :=
  pchg s p && negb (bool_decide (ppar s p = ptok s p)).

(* ---------- observations on traces ------------------------------------------------------------ *)

Definition psets (tr : list pevent) : list (peer * puid) :=
  omap (fun e => match e with PSet p u => Some (p, u) | _ => None end) tr.
Definition pjoiners (tr : list pevent) : list peer :=
  omap (fun e => match e with PJoin c => Some c | _ => None end) tr.

(* the parent given by the last PSet of the trace ([t] if there is none) *)
Definition target_after (t : option puid) (tr : list pevent) : option puid :=
  foldl (fun t e => match e with PSet _ u => Some u | _ => t end) t tr.
Definition last_set (tr : list pevent) : option puid := target_after None tr.

(* the peer that issued the last PSet of the trace ([w] if there is none) *)
Definition writer_after (w : option peer) (tr : list pevent) : option peer :=
  foldl (fun w e => match e with PSet p _ => Some p | _ => w end) w tr.

(* announce / deliver only *)
Definition drain_event (e : pevent) : Prop :=
  match e with PAnnounce _ | PDeliver _ _ => True | _ => False end.
Global Instance drain_event_dec e : Decision (drain_event e).
Proof. destruct e; simpl; apply _. Defined.

(* an event that is not a no-op: an announce with the flag raised, a delivery, a set, a join *)
Definition effective (s : pstate) (e : pevent) : bool :=
  match e with PAnnounce p => pchg s p | _ => true end.

(* every state visited (including the first and the last) *)
Fixpoint pstates (s : pstate) (tr : list pevent) : list pstate :=
  s :: match tr with
       | [] => []
       | e :: tr => match pstep s e with Some s' => pstates s' tr | None => [] end
       end.

(* number of messages an event hands to the network *)
Definition psent_by (s : pstate) (e : pevent) : nat :=
  match e with
  | PAnnounce p => if pchg s p then length (pann_msg (pget s p)) * length (pdsts s p) else 0
  | PDeliver src dst =>
      match plink s src dst with
      | _ :: _ => if (dst =? host)%N then length (pothers src (pconn s)) else 0
      | [] => 0
      end
  | PJoin _ => length (plink_msg (ppar s host))
  | PSet _ _ => 0
  end.
(* ... of which: messages ORIGINATED by an announcing system (not relays, not snapshots) *)
Definition pannounced_by (s : pstate) (e : pevent) : nat :=
  match e with PAnnounce _ => psent_by s e | _ => 0 end.

Fixpoint ptotal_sent (s : pstate) (tr : list pevent) : nat :=
  match tr with
  | [] => 0
  | e :: tr => match pstep s e with Some s' => psent_by s e + ptotal_sent s' tr | None => 0 end
  end.
Fixpoint ptotal_announced (s : pstate) (tr : list pevent) : nat :=
  match tr with
  | [] => 0
  | e :: tr => match pstep s e with Some s' => pannounced_by s e + ptotal_announced s' tr | None => 0 end
  end.
Fixpoint peffective_count (s : pstate) (tr : list pevent) : nat :=
  match tr with
  | [] => 0
  | e :: tr => match pstep s e with
               | Some s' => (if effective s e then 1 else 0) + peffective_count s' tr
               | None => 0
               end
  end.

(* ---------- the premises of the convergence theorem (C05) -------------------------------------
   [writers_drain_separated]: whenever a PSet is issued by a peer p and the PREVIOUS PSet of the
   history was issued by a DIFFERENT peer, the state at that moment is quiescent.  Operations of one
   and the same peer may follow each other at any pace, with any parents (A -> B -> A included);
   joins may happen at any moment.  [w] = the peer that issued the previous PSet. *)
Fixpoint wds_from (w : option peer) (s : pstate) (tr : list pevent) : bool :=
  match tr with
  | [] => true
  | e :: tr =>
      match pstep s e with
      | None => true
      | Some s' =>
          match e with
          | PSet p _ =>
              match w with Some q => bool_decide (q = p) || pquiescentb s | None => true end
              && wds_from (Some p) s' tr
          | _ => wds_from w s' tr
          end
      end
  end.
Definition writers_drain_separated (s : pstate) (tr : list pevent) : bool := wds_from None s tr.

(* ---------- termination measure and traffic potential -------------------------------------------
   With n = number of connected clients:
     pups   = messages travelling towards the host,  pdowns = messages travelling from the host
     a raised flag weighs 1, an armed peer 2n+1 (its announcement is worth 2n, see below),
     a message towards the host 2n (it becomes n-1 messages from the host and may raise a flag),
     a message from the host 2 (it may raise a flag).
   [pmeasure] strictly decreases with EVERY effective announce / deliver event, from any state;
   [ppotential M] + messages sent so far never increases along announce / deliver events as long as
   at most M clients are connected. *)
Definition sumf (f : peer -> nat) (l : list peer) : nat := foldr (fun c acc => f c + acc) 0 l.
Definition wsum (f : ppeer -> nat) (s : pstate) : nat :=
  f (pget s host) + sumf (fun c => f (pget s c)) (pconn s).
Definition rarmed (x : ppeer) : bool := changed x && negb (bool_decide (par x = tok x)).
Definition pw1 (n : nat) (x : ppeer) : nat :=
  if changed x then (if bool_decide (par x = tok x) then 1 else 2 * n + 1) else 0.
Definition parm1 (x : ppeer) : nat := if rarmed x then 1 else 0.
Definition pups (s : pstate) : nat := sumf (fun c => length (plink s c host)) (pconn s).
Definition pdowns (s : pstate) : nat := sumf (fun c => length (plink s host c)) (pconn s).
Definition pmeasure (s : pstate) : nat :=
  let n := length (pconn s) in wsum (pw1 n) s + 2 * n * pups s + 2 * pdowns s.
Definition ppotential (M : nat) (s : pstate) : nat := M * wsum parm1 s + (M - 1) * pups s.

(* ---------- examples (non-vacuity of the model) ----------------------------------------------- *)

Definition pview (s : pstate) (ps : list peer) : list (option puid) * bool := (ppar s <$> ps, pquiescentb s).

(* 3 peers: client 1 sets the parent and announces it; the host applies it and relays it to client 2;
   the flags raised by the applications are seen by the announcing systems, which stay silent
   (the token is the current parent).  2 = n messages. *)
Definition ex_single : list pevent :=
  [PSet 1 7; PAnnounce 1; PDeliver 1 0; PAnnounce 0; PDeliver 0 2; PAnnounce 2]%N.
Example ex_single_runs :
  (fun s => pview s [0; 1; 2]%N) <$> prun (pinit 2) ex_single = Some ([Some 7; Some 7; Some 7]%N, true).
Proof. vm_compute. reflexivity. Qed.
Example ex_single_sent : ptotal_sent (pinit 2) ex_single = 2.
Proof. vm_compute. reflexivity. Qed.
Example ex_single_not_quiescent_before :
  forallb (fun s => negb (pquiescentb s)) (tail (removelast (pstates (pinit 2) ex_single))) = true.
Proof. vm_compute. reflexivity. Qed.

(* the host sets the parent: n messages *)
Definition ex_host_sets : list pevent :=
  [PSet 0 7; PAnnounce 0; PDeliver 0 1; PDeliver 0 2; PAnnounce 1; PAnnounce 2]%N.
Example ex_host_sets_runs :
  (fun s => (pview s [0; 1; 2]%N, ptotal_sent (pinit 2) ex_host_sets)) <$> prun (pinit 2) ex_host_sets
  = Some (([Some 7; Some 7; Some 7]%N, true), 2).
Proof. vm_compute. reflexivity. Qed.

(* two re-parentings separated by quiescence, then a join at a quiescent state *)
Example ex_sequential_join :
  (fun s => pview s [0; 1; 2; 3]%N) <$>
  prun (pinit 2) (ex_single ++
    [PSet 2 9; PAnnounce 2; PDeliver 2 0; PDeliver 0 1; PAnnounce 0; PAnnounce 1;
     PJoin 3; PDeliver 0 3; PAnnounce 3])%N
  = Some ([Some 9; Some 9; Some 9; Some 9]%N, true).
Proof. vm_compute. reflexivity. Qed.
