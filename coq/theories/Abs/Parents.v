(* Event-level abstraction of the replication of the PARENT LINK of ONE synchronized child entity of
   bevy_sync.  Unlike component values (Values.v) there is NO "applied from the network, swallow the
   next detection" token for parents: a peer that applies a link from the network re-announces it.

   Rust: /repo/src/server/track.rs  entity_parented_on_server, client/track.rs entity_parented_on_client,
         server/receiver.rs + client/receiver.rs (Message::EntityParented), full_sync/mod.rs build_full_sync
         (the snapshot contains one EntityParented per parented synchronized entity).
   Frame-level model: theories/Sync/Model.v  entity_parented_server, entity_parented_client,
         CSetParentSrv, CSetParentCli, add_child, set_parent_twice, parent_differs, snapshot_parent_msgs.

   What is kept of a peer: the child's current parent (as a uuid) and Bevy's Changed<Parent> flag as
   seen by the peer's announcing system.  The flag is raised by a local set_parent AND by a link
   applied from the network (add_child stamps the Parent component; the receivers call it only when
   the parent differs).  The host relays EVERY EntityParented it handles to all the other clients,
   whether or not it changed anything (server/receiver.rs: repeat_except_for_client is outside the if).

   Everything here is executable (total functions, decidable validity): the model is meant to be
   run against real traces as well as reasoned about (ParentsProofs.v). *)
From Coq Require Import NArith List Lia.
From stdpp Require Import gmap list.

Definition peer := N.   (* 0 = host *)
Definition puid := N.   (* uuid of a (candidate) parent entity *)
Definition host : peer := 0%N.

Record ppeer := PPeer {
  par : option puid;     (* the child's parent on this peer, None = no Parent component *)
  changed : bool         (* Changed<Parent> not yet seen by entity_parented_on_{server,client} *)
}.

Record pstate := PState {
  pp : gmap peer ppeer;
  pconn : list peer;                          (* connected clients, in connection order *)
  plinks : gmap (peer * peer) (list puid)     (* reliable ordered channel src -> dst, head = oldest *)
}.

Inductive pevent :=
| PSet (p : peer) (u : puid)     (* the application on p makes the child a child of u *)
| PAnnounce (p : peer)           (* entity_parented_on_server / _on_client of p runs *)
| PDeliver (src dst : peer)      (* dst handles the oldest EntityParented of src -> dst *)
| PJoin (c : peer).              (* c connects; the host answers with the snapshot *)

Global Instance pevent_eq_dec : EqDecision pevent.
Proof. solve_decision. Defined.

(* ---------- getters (total, with defaults) ------------------------------------------------ *)

Definition ppeer0 : ppeer := PPeer None false.
Definition pget (s : pstate) (p : peer) : ppeer := default ppeer0 (pp s !! p).
Definition ppar (s : pstate) (p : peer) : option puid := par (pget s p).
Definition pchg (s : pstate) (p : peer) : bool := changed (pget s p).
Definition plget (L : gmap (peer * peer) (list puid)) (a b : peer) : list puid := default [] (L !! (a, b)).
Definition plink (s : pstate) (a b : peer) : list puid := plget (plinks s) a b.
Definition ppexists (s : pstate) (p : peer) : bool := bool_decide (is_Some (pp s !! p)).

(* ---------- channel operations -------------------------------------------------------------- *)

Definition ppush_link (L : gmap (peer * peer) (list puid)) (a b : peer) (vs : list puid) :=
  <[(a, b) := plget L a b ++ vs]> L.

(* server.broadcast_message / repeat_except_for_client: one copy per destination *)
Definition psend_to (L : gmap (peer * peer) (list puid)) (src : peer) (dsts : list peer) (vs : list puid) :=
  foldr (fun d L => ppush_link L src d vs) L dsts.

Definition pothers (src : peer) (l : list peer) : list peer := filter (fun c => c <> src) l.

(* whom p announces to: the host broadcasts, a client sends to the host *)
Definition pdsts (s : pstate) (p : peer) : list peer := if (p =? host)%N then pconn s else [host].

(* what is announced / put in the snapshot: the current parent, if any *)
Definition plink_msg (o : option puid) : list puid := match o with Some u => [u] | None => [] end.

(* ---------- one event ------------------------------------------------------------------------- *)

Definition pset_peer (s : pstate) (p : peer) (x : ppeer) : pstate :=
  PState (<[p := x]> (pp s)) (pconn s) (plinks s).

Definition pstep (s : pstate) (e : pevent) : option pstate :=
  match e with
  | PSet p u =>
      (* set_parent / add_child: the Parent component is (re)stamped even if the parent is the same *)
      match pp s !! p with
      | None => None
      | Some _ => Some (pset_peer s p (PPeer (Some u) true))
      end
  | PAnnounce p =>
      (* Query<(&Parent, &SyncEntity), Changed<Parent>>: the CURRENT parent is announced *)
      match pp s !! p with
      | None => None
      | Some x =>
          if changed x then
            Some (PState (<[p := PPeer (par x) false]> (pp s)) (pconn s)
                         (psend_to (plinks s) p (pdsts s p) (plink_msg (par x))))
          else Some s
      end
  | PDeliver src dst =>
      match plink s src dst, pp s !! dst with
      | u :: rest, Some x =>
          let L := <[(src, dst) := rest]> (plinks s) in
          (* the host relays unconditionally *)
          let L := if (dst =? host)%N then psend_to L host (pothers src (pconn s)) [u] else L in
          Some (PState (if bool_decide (par x = Some u) then pp s              (* same parent: nothing applied *)
                        else <[dst := PPeer (Some u) true]> (pp s))            (* applied: Changed<Parent> *)
                       (pconn s) L)
      | _, _ => None
      end
  | PJoin c =>
      if (c =? host)%N || bool_decide (c ∈ pconn s) || ppexists s c then None
      else Some (PState (<[c := ppeer0]> (pp s)) (pconn s ++ [c])
                        (ppush_link (plinks s) host c (plink_msg (ppar s host))))   (* the snapshot *)
  end.

Fixpoint prun (s : pstate) (tr : list pevent) : option pstate :=
  match tr with
  | [] => Some s
  | e :: tr => match pstep s e with Some s' => prun s' tr | None => None end
  end.

(* host + clients 1..n, all connected, the child has no parent anywhere *)
Definition pclients (n : nat) : list peer := N.of_nat <$> seq 1 n.
Definition pinit (n : nat) : pstate :=
  PState (list_to_map ((fun p => (p, ppeer0)) <$> (host :: pclients n))) (pclients n) ∅.

(* ---------- quiescence ------------------------------------------------------------------------ *)

Definition pquiescent (s : pstate) : Prop :=
  map_Forall (fun _ l => l = []) (plinks s) /\ map_Forall (fun _ x => changed x = false) (pp s).
Global Instance pquiescent_dec s : Decision (pquiescent s).
Proof. unfold pquiescent. apply _. Defined.
Definition pquiescentb (s : pstate) : bool := bool_decide (pquiescent s).

(* ---------- well-formed states (an invariant of every run from [pinit n]) --------------------- *)

Definition ppeers (s : pstate) (p : peer) : Prop := p = host \/ p ∈ pconn s.

Definition pwf (s : pstate) : Prop :=
  NoDup (pconn s) /\ host ∉ pconn s /\
  (forall p, is_Some (pp s !! p) <-> ppeers s p) /\
  (forall a b, plink s a b <> [] -> (a = host /\ b ∈ pconn s) \/ (b = host /\ a ∈ pconn s)).

(* ---------- observations on traces ------------------------------------------------------------ *)

Definition psets (tr : list pevent) : list (peer * puid) :=
  omap (fun e => match e with PSet p u => Some (p, u) | _ => None end) tr.
Definition pjoiners (tr : list pevent) : list peer :=
  omap (fun e => match e with PJoin c => Some c | _ => None end) tr.

(* the parent given by the last PSet of the trace ([t] if there is none) *)
Definition target_after (t : option puid) (tr : list pevent) : option puid :=
  foldl (fun t e => match e with PSet _ u => Some u | _ => t end) t tr.
Definition last_set (tr : list pevent) : option puid := target_after None tr.

(* announce / deliver only *)
Definition drain_event (e : pevent) : Prop :=
  match e with PAnnounce _ | PDeliver _ _ => True | _ => False end.
Global Instance drain_event_dec e : Decision (drain_event e).
Proof. destruct e; simpl; apply _. Defined.

(* an event that is not a no-op: an announce with the flag raised, a delivery, a set, a join *)
Definition effective (s : pstate) (e : pevent) : bool :=
  match e with PAnnounce p => pchg s p | _ => true end.

(* every state visited (including the first and the last) *)
Fixpoint pstates (s : pstate) (tr : list pevent) : list pstate :=
  s :: match tr with
       | [] => []
       | e :: tr => match pstep s e with Some s' => pstates s' tr | None => [] end
       end.

(* number of messages an event hands to the network *)
Definition psent_by (s : pstate) (e : pevent) : nat :=
  match e with
  | PAnnounce p => if pchg s p then length (plink_msg (ppar s p)) * length (pdsts s p) else 0
  | PDeliver src dst =>
      match plink s src dst with
      | _ :: _ => if (dst =? host)%N then length (pothers src (pconn s)) else 0
      | [] => 0
      end
  | PJoin _ => length (plink_msg (ppar s host))
  | PSet _ _ => 0
  end.
Fixpoint ptotal_sent (s : pstate) (tr : list pevent) : nat :=
  match tr with
  | [] => 0
  | e :: tr => match pstep s e with Some s' => psent_by s e + ptotal_sent s' tr | None => 0 end
  end.
Fixpoint peffective_count (s : pstate) (tr : list pevent) : nat :=
  match tr with
  | [] => 0
  | e :: tr => match pstep s e with
               | Some s' => (if effective s e then 1 else 0) + peffective_count s' tr
               | None => 0
               end
  end.

(* ---------- the class of histories excluded from the convergence theorem -----------------------
   [known_S19]: the child is re-parented to u while the exchange started by an earlier operation
   (or by a join snapshot) is still in flight -- the state is not quiescent -- and the parent given
   by the previous PSet is a different one.  For histories without joins this is exactly: two
   consecutive PSet with different parents and no quiescent state in between (whoever issues them:
   even the SAME peer re-parenting twice, defect S19, see [C05_pingpong_refuted]).
   Re-parenting to the SAME parent again, by any peer, at any time, is not in the class.
   [t] = the parent given by the last PSet. *)
Fixpoint s19_from (t : option puid) (s : pstate) (tr : list pevent) : bool :=
  match tr with
  | [] => false
  | e :: tr =>
      match pstep s e with
      | None => false
      | Some s' =>
          match e with
          | PSet _ u => (negb (pquiescentb s) && negb (bool_decide (t = Some u))) || s19_from (Some u) s' tr
          | _ => s19_from t s' tr
          end
      end
  end.
Definition known_S19 (s : pstate) (tr : list pevent) : bool := s19_from (ppar s host) s tr.

(* the literal reading, for histories without joins: [g] = the parent given by a PSet since the
   state was last quiescent; two PSet with different parents and no quiescent state in between.
   [known_S19_literal_nojoin] (ParentsProofs.v): the two classes coincide on join-free histories. *)
Fixpoint s19_lit_from (g : option puid) (s : pstate) (tr : list pevent) : bool :=
  match tr with
  | [] => false
  | e :: tr =>
      let g := if pquiescentb s then None else g in
      match pstep s e with
      | None => false
      | Some s' =>
          match e with
          | PSet _ u => match g with Some u' => negb (bool_decide (u' = u)) | None => false end
                        || s19_lit_from (Some u) s' tr
          | _ => s19_lit_from g s' tr
          end
      end
  end.
Definition known_S19_literal (s : pstate) (tr : list pevent) : bool := s19_lit_from None s tr.

(* [joins_safe]: at every PJoin the host has no parent for the child or already has the parent
   given by the last PSet (true in particular for every join at a quiescent state of a history
   outside [known_S19]).  Otherwise the snapshot carries the OLD parent, which the joiner applies and
   echoes back to the host: see [join_any_moment_refuted]. *)
Fixpoint js_from (t : option puid) (s : pstate) (tr : list pevent) : bool :=
  match tr with
  | [] => true
  | e :: tr =>
      match pstep s e with
      | None => true
      | Some s' =>
          match e with
          | PSet _ u => js_from (Some u) s' tr
          | PJoin _ => bool_decide (ppar s host = None \/ ppar s host = t) && js_from t s' tr
          | _ => js_from t s' tr
          end
      end
  end.
Definition joins_safe (s : pstate) (tr : list pevent) : bool := js_from (ppar s host) s tr.

(* the stricter, state-free reading: every join happens at a quiescent state *)
Fixpoint joins_quiescent (s : pstate) (tr : list pevent) : bool :=
  match tr with
  | [] => true
  | e :: tr =>
      match pstep s e with
      | None => true
      | Some s' =>
          match e with
          | PJoin _ => pquiescentb s && joins_quiescent s' tr
          | _ => joins_quiescent s' tr
          end
      end
  end.

(* ---------- termination measure and traffic potential -------------------------------------------
   For the exchange towards parent u, with n = number of connected clients:
     pcnt   = number of peers that do not have u yet + number of raised flags
     pups   = messages travelling towards the host,  pdowns = messages travelling from the host
   [pmeasure] strictly decreases with every effective announce / deliver event of such an exchange;
   [ppotential] + messages sent so far never increases. *)
Definition sumf (f : peer -> nat) (l : list peer) : nat := foldr (fun c acc => f c + acc) 0 l.
Definition pcnt1 (u : puid) (s : pstate) (p : peer) : nat :=
  (if bool_decide (ppar s p = Some u) then 0 else 1) + (if pchg s p then 1 else 0).
Definition pcnt (u : puid) (s : pstate) : nat := pcnt1 u s host + sumf (pcnt1 u s) (pconn s).
Definition pups (s : pstate) : nat := sumf (fun c => length (plink s c host)) (pconn s).
Definition pdowns (s : pstate) : nat := sumf (fun c => length (plink s host c)) (pconn s).
Definition pmeasure (u : puid) (s : pstate) : nat :=
  let n := length (pconn s) in (n + 1) * pcnt u s + n * pups s + pdowns s.
Definition ppotential (u : puid) (s : pstate) : nat :=
  let n := length (pconn s) in n * pcnt u s + (n - 1) * pups s.

(* ---------- examples (non-vacuity of the model) ----------------------------------------------- *)

Definition pview (s : pstate) (ps : list peer) : list (option puid) * bool := (ppar s <$> ps, pquiescentb s).

(* 3 peers: client 1 sets the parent; the host and client 2 follow; client 2 echoes the link to the
   host, which relays the echo to client 1; the host's own announcement reaches both clients; all
   echoes find the parent already in place and die.  6 = 2*(2+1) messages. *)
Definition ex_single : list pevent :=
  [PSet 1 7; PAnnounce 1; PDeliver 1 0; PAnnounce 0; PDeliver 0 2; PDeliver 0 2; PAnnounce 2;
   PDeliver 0 1; PDeliver 2 0; PDeliver 0 1]%N.
Example ex_single_runs :
  (fun s => pview s [0; 1; 2]%N) <$> prun (pinit 2) ex_single = Some ([Some 7; Some 7; Some 7]%N, true).
Proof. vm_compute. reflexivity. Qed.
Example ex_single_sent : ptotal_sent (pinit 2) ex_single = 6.
Proof. vm_compute. reflexivity. Qed.
Example ex_single_not_quiescent_before :
  forallb (fun s => negb (pquiescentb s)) (tail (removelast (pstates (pinit 2) ex_single))) = true.
Proof. vm_compute. reflexivity. Qed.

(* the host sets the parent *)
Example ex_host_sets :
  (fun s => (pview s [0; 1; 2]%N, ptotal_sent (pinit 2) [PSet 0 7; PAnnounce 0; PDeliver 0 1; PDeliver 0 2;
     PAnnounce 1; PAnnounce 2; PDeliver 1 0; PDeliver 2 0; PDeliver 0 1; PDeliver 0 2]%N)) <$>
  prun (pinit 2) [PSet 0 7; PAnnounce 0; PDeliver 0 1; PDeliver 0 2;
     PAnnounce 1; PAnnounce 2; PDeliver 1 0; PDeliver 2 0; PDeliver 0 1; PDeliver 0 2]%N
  = Some (([Some 7; Some 7; Some 7]%N, true), 6).
Proof. vm_compute. reflexivity. Qed.

(* two re-parentings separated by quiescence, then a join at a quiescent state *)
Example ex_sequential_join :
  (fun s => pview s [0; 1; 2; 3]%N) <$>
  prun (pinit 2) (ex_single ++
    [PSet 2 9; PAnnounce 2; PDeliver 2 0; PDeliver 0 1; PAnnounce 0; PAnnounce 1; PDeliver 1 0;
     PDeliver 0 1; PDeliver 0 2; PDeliver 0 2;
     PJoin 3; PDeliver 0 3; PAnnounce 3; PDeliver 3 0; PDeliver 0 1; PDeliver 0 2])%N
  = Some ([Some 9; Some 9; Some 9; Some 9]%N, true).
Proof. vm_compute. reflexivity. Qed.
