(* Convenience wrapper for the reachability driver (ocaml/drv_absprom.ml): the reachable set of the
   promotion model by its hash-table explorer, starting from an empty table. No proofs. *)
From stdpp Require Import gmap.
From BS Require Import Abs.Promotion.
Definition promotion_explore (fuel : nat) (starts : list pstate) : option (list pstate) :=
  explore_h fuel starts ∅ [].
