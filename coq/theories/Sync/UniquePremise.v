(* The premise of the "at most one entity per uuid" theorem of Sync/Proofs/Unique.v, in a file of its own
   (definitions only, no proofs) so that the executable check `frame_freshb` can be extracted with the
   model and evaluated by the driver on every frame of every real run (how often the premise holds is
   reported in the evidence; it is not an alarm when it does not: the premise has known slack). *)
From stdpp Require Import gmap list.
From Coq Require Import NArith.
From RecordUpdate Require Import RecordSet.
From BS Require Import Sync.Types Sync.Model Sync.Observe.
Import RecordSetNotations.
Local Open Scope N_scope.

Definition uuid_unique (pr : peer_state) : Prop :=
  forall e1 e2 en1 en2 u, p_ents pr !! e1 = Some en1 -> en_sync en1 = Some u ->
                          p_ents pr !! e2 = Some en2 -> en_sync en2 = Some u -> e1 = e2.

(* the synchronised entities of a peer: (id, uuid) *)
Definition live_l (pr : peer_state) : list (ent * uuid) :=
  omap (fun x : ent * entity => match en_sync x.2 with Some u => Some (x.1, u) | None => None end) (ents_list pr).

Definition uuid_uniqueb (pr : peer_state) : bool :=
  forallb (fun x : ent * uuid => forallb (fun y : ent * uuid => negb (x.2 =? y.2) || (x.1 =? y.1)) (live_l pr)) (live_l pr).

(* every deferred command waiting in a buffer *)
Definition cmds_l (q : gmap N (list cmd)) : list cmd := map_to_list q ≫= snd.
Definition cmd_holder (c : cmd) : option (ent * uuid) :=
  match c with CSpawnSync e u | CInsertSync e u => Some (e, u) | _ => None end.
Definition holders_l (pr : peer_state) : list (ent * uuid) := live_l pr ++ omap cmd_holder (cmds_l (p_cmdq pr)).

Definition spawn_uuid (m : msg) : option uuid := match m with MSpawn u => Some u | _ => None end.
Definition spawns_of (l : list msg) : list uuid := omap spawn_uuid l.
Definition inbox_spawns (pr : peer_state) : list uuid := map_to_list (n_inbox pr) ≫= (fun x => spawns_of x.2).
Definition marked_liveb (pr : peer_state) (e : ent) : bool :=
  match p_ents pr !! e with Some en => is_some (en_mark en) | None => false end.
Definition marked_l (pr : peer_state) : list ent :=
  omap (fun x : ent * entity => if is_some (en_mark x.2) then Some x.1 else None) (ents_list pr).

Definition pairs_uniqueb (l : list (ent * uuid)) : bool :=
  forallb (fun x : ent * uuid => forallb (fun y : ent * uuid => negb (x.2 =? y.2) || (x.1 =? y.1)) l) l.

(* no foreign holder of the uuid a marked entity is about to get *)
Definition mkfb (pr : peer_state) : bool :=
  forallb (fun e => forallb (fun y : ent * uuid => negb (y.2 =? e) || (y.1 =? e)) (holders_l pr)) (marked_l pr).

Definition nib (pr : peer_state) (u : uuid) : bool :=
  negb (marked_liveb pr u) &&
  forallb (fun c => match c with CInsertSync _ v => negb (v =? u) | _ => true end) (cmds_l (p_cmdq pr)).

Definition strictb (pr : peer_state) : bool :=
  bool_decide (NoDup (inbox_spawns pr)) &&
  forallb (fun u => nib pr u && forallb (fun y : ent * uuid => negb (y.2 =? u)) (holders_l pr)) (inbox_spawns pr).

Fixpoint del_okb (l : list msg) : bool :=
  match l with
  | [] => true
  | MDelete u :: r => negb (memN u (spawns_of r)) && del_okb r
  | _ :: r => del_okb r
  end.
Definition deletes_of (l : list msg) : list uuid := omap (fun m => match m with MDelete u => Some u | _ => None end) l.
Definition dclb (pr : peer_state) : bool :=
  forallb (fun x : peer * list msg =>
             del_okb x.2 &&
             forallb (fun y : peer * list msg => (y.1 =? x.1) || forallb (fun u => negb (memN u (spawns_of y.2))) (deletes_of x.2))
                     (map_to_list (n_inbox pr)))
          (map_to_list (n_inbox pr)).

Definition guardedb (pr : peer_state) : bool :=
  dclb pr &&
  forallb (fun u => nib pr u &&
                    forallb (fun y : ent * uuid =>
                               negb (y.2 =? u) || memN u (t_tomb pr) ||
                               (bool_decide (t_u2e pr !! u = Some y.1) && cmd_get_entity pr y.1))
                            (holders_l pr))
          (inbox_spawns pr).

(* the state at the start of the Update schedule *)
Definition fstart (pr : peer_state) (o : frame_oracle) : peer_state :=
  state_transition (pre_update (pr <| p_out := [] |>) o).

Definition startb (a : peer_state) : bool :=
  mkfb a &&
  if is_srv_connected (s_server a) then strictb a
  else if is_cli_connected (s_client a) then guardedb a
  else true.

Definition frame_freshb (pr : peer_state) (o : frame_oracle) : bool :=
  match p_panic pr with Some _ => true | None => startb (fstart pr o) end.

Fixpoint spawns_fresh_from (g : global) (tr : list step) : bool :=
  match tr with
  | [] => true
  | s :: tr' =>
      match s with
      | StFrame p o => match g !! p with Some pr => frame_freshb pr o | None => true end
      | _ => true
      end && spawns_fresh_from (gstep g s) tr'
  end.
Definition spawns_fresh (n : nat) (tr : list step) : Prop := spawns_fresh_from (init_global n) tr = true.
