(* Executable model of bevy_sync (src/lib_priv.rs, server/*, client/*, bundle_fix.rs,
   full_sync/mod.rs) on top of a slice of the engines it relies on: a mini-ECS with change
   ticks per component and last-run ticks per system, deferred commands applied at the sync
   node and at the end of Update in executable-index order, run conditions, states applied
   at the next frame, renet links as FIFO inboxes.  One function per Rust system / handler,
   same names, same case structure, same early returns; every place where the Rust code can
   panic returns an explicit panic site.  All nondeterminism is an oracle argument.
   Definitions only (proofs are elsewhere, so the model still runs when a proof breaks). *)
From stdpp Require Import gmap list.
From Coq Require Import NArith.
From RecordUpdate Require Import RecordSet.
From BS Require Import Sync.Types.
Import RecordSetNotations.
Local Open Scope N_scope.

Record peer_state := {
  (* configuration *)
  p_id : peer;
  p_sync_types : list tyid;        (* sync_component::<T>() was called: detector + snapshot registration *)
  p_registry : list tyid;          (* type paths the AppTypeRegistry resolves (with ReflectComponent + FromReflect) *)
  p_order : list sysid;            (* executable index order of Update, including SSync *)
  (* world *)
  p_ents : gmap ent entity;
  p_reserved : list ent;           (* Commands::spawn reserved, not yet flushed *)
  p_next_ent : N;
  p_tick : tick;
  p_last_run : gmap N tick;        (* per system key: last run; per condition: key + 5000 *)
  p_cond_bit : gmap N bool;        (* resource_removed's `existed` bit, per system key *)
  (* tracker (SyncTrackerRes) *)
  t_u2e : gmap uuid ent;
  t_e2u : gmap ent uuid;
  t_queue : list (uuid * tyid * value);
  t_ctok : list (uuid * tyid * tick);   (* pushed_component_from_network: key -> change tick of the network apply *)
  t_htok : list uuid;
  t_tomb : list uuid;              (* despawned_locally: synchronized entities this (client) peer despawned itself *)
  t_ptok : gmap uuid uuid;         (* pushed_parent_from_network: links applied from the network, not yet seen by the tracking system *)
  t_mat : bool; t_mesh : bool; t_audio : bool;
  t_promo : bool;
  t_closing : bool;                (* closing_server_after_promotion *)
  (* assets: content digests by uuid, unread asset events per class reader *)
  a_store : gmap N N;                    (* Assets<T> by akey kind uuid: content *)
  a_events : list (akind * uuid);        (* asset events queued in Assets<T> (flushed in Last) *)
  a_ready : list (akind * uuid);         (* asset events readable by the react systems *)
  h_cache : gmap N N;                    (* what this peer's HTTP endpoint serves, by akey (KClass c) uuid *)
  d_pending : list (aclass * uuid * peer);   (* downloads started and not yet applied *)
  n_promote_events : list peer;          (* unread PromoteToHostEvents *)
  p_app_cmds : list (N * cmd);           (* commands the application systems SApp k issue in the next frame they run *)
  (* net *)
  n_setup : bool;
  n_srv_transport : option tick;          (* NetcodeServerTransport, with its added tick *)
  n_cli_transport : option (peer * tick); (* NetcodeClientTransport towards a host *)
  n_clients : list peer;                  (* RenetServer::clients_id() *)
  n_srv_events : list (bool * peer);      (* unread ServerEvents: (true = connected, client) *)
  n_kicked : list peer;                   (* server.disconnect(c) called: ClientDisconnected is emitted by the next renet update *)
  n_status : renet_status;                (* RenetClient status *)
  n_sticky_disconnect : bool;             (* RenetClient::disconnect() was called on this object *)
  n_inbox : gmap peer (list msg);         (* per sender: reliable ordered channel towards this peer *)
  (* states *)
  s_server : sstate; s_client : cstate;
  s_next_server : option sstate; s_next_client : option cstate;
  (* deferred commands per system key *)
  p_cmdq : gmap N (list cmd);
  (* outputs of the current frame *)
  p_out : list (peer * msg);
  p_finished_events : N;                  (* InitialSyncFinished events emitted so far *)
  p_panic : option panic_site;
}.

#[export] Instance eta_peer_state : Settable _ := settable! Build_peer_state
  <p_id; p_sync_types; p_registry; p_order; p_ents; p_reserved; p_next_ent; p_tick; p_last_run; p_cond_bit;
   t_u2e; t_e2u; t_queue; t_ctok; t_htok; t_tomb; t_ptok; t_mat; t_mesh; t_audio; t_promo; t_closing;
   a_store; a_events; a_ready; h_cache; d_pending; n_promote_events; p_app_cmds;
   n_setup; n_srv_transport; n_cli_transport; n_clients; n_srv_events; n_kicked; n_status; n_sticky_disconnect; n_inbox;
   s_server; s_client; s_next_server; s_next_client; p_cmdq; p_out; p_finished_events; p_panic>.

#[export] Instance eta_entity : Settable _ := settable! Build_entity
  <en_mark; en_sync; en_sync_added; en_comps; en_excl; en_parent; en_children>.

(* Every App holds the engine's default StandardMaterial under a uuid id (asset id 0 here,
   perceptual_roughness 0.5): it is part of every snapshot when materials are enabled. *)
Definition init_peer (id : peer) (sync_types registry : list tyid) (order : list sysid) : peer_state :=
  {| p_id := id; p_sync_types := sync_types; p_registry := registry; p_order := order;
     p_ents := ∅; p_reserved := []; p_next_ent := 4294967296; p_tick := 1; p_last_run := ∅; p_cond_bit := ∅;
     t_u2e := ∅; t_e2u := ∅; t_queue := []; t_ctok := []; t_htok := []; t_tomb := []; t_ptok := ∅;
     t_mat := false; t_mesh := false; t_audio := false; t_promo := false; t_closing := false;
     a_store := {[ akey KMaterial 0 := 500 ]}; a_events := []; a_ready := []; h_cache := ∅; d_pending := []; n_promote_events := []; p_app_cmds := [];
     n_setup := false; n_srv_transport := None; n_cli_transport := None; n_clients := []; n_srv_events := []; n_kicked := [];
     n_status := RDisconnected; n_sticky_disconnect := false; n_inbox := ∅;
     s_server := SrvDisconnected; s_client := CliDisconnected; s_next_server := None; s_next_client := None;
     p_cmdq := ∅; p_out := []; p_finished_events := 0; p_panic := None |}.

(* ---------- small helpers ------------------------------------------------------------ *)

Definition memN (x : N) (l : list N) : bool := existsb (N.eqb x) l.
Definition pair_eqb (a b : uuid * tyid) : bool := (a.1 =? b.1) && (a.2 =? b.2).
Definition mem_pair (x : uuid * tyid) (l : list (uuid * tyid)) : bool := existsb (pair_eqb x) l.
Definition remove_pair (x : uuid * tyid) (l : list (uuid * tyid)) := filter (fun y => negb (pair_eqb x y)) l.
Definition removeN (x : N) (l : list N) : list N := filter (fun y => negb (x =? y)) l.
(* the debounce map of components: at most one entry per key *)
Definition tok_find (x : uuid * tyid) (l : list (uuid * tyid * tick)) : option tick :=
  match filter (fun y : uuid * tyid * tick => pair_eqb x y.1) l with (_, k) :: _ => Some k | [] => None end.
Definition tok_remove (x : uuid * tyid) (l : list (uuid * tyid * tick)) : list (uuid * tyid * tick) :=
  filter (fun y : uuid * tyid * tick => negb (pair_eqb x y.1)) l.
(* one occurrence less (the debounce counter of pushed_handles_from_network) *)
Fixpoint remove1N (x : N) (l : list N) : list N :=
  match l with [] => [] | y :: l => if x =? y then l else y :: remove1N x l end.

Definition last_run (pr : peer_state) (k : N) : tick := default 0 (p_last_run pr !! k).

(* a system (or condition) run: takes the current tick as this_run, the counter advances *)
Definition begin_run (pr : peer_state) (k : N) : peer_state * tick :=
  (pr <| p_tick := p_tick pr + 1 |>, p_tick pr).
Definition end_run (pr : peer_state) (k : N) (this : tick) : peer_state :=
  pr <| p_last_run := <[k := this]> (p_last_run pr) |>.

Definition alive (pr : peer_state) (e : ent) : bool := is_some (p_ents pr !! e).
(* Commands::get_entity: alive, or reserved by a spawn of this frame *)
Definition cmd_get_entity (pr : peer_state) (e : ent) : bool := alive pr e || memN e (p_reserved pr).
Definition has_sync (pr : peer_state) (e : ent) : bool :=
  match p_ents pr !! e with Some en => is_some (en_sync en) | None => false end.

Definition push_cmd (pr : peer_state) (k : N) (c : cmd) : peer_state :=
  pr <| p_cmdq := <[k := default [] (p_cmdq pr !! k) ++ [c]]> (p_cmdq pr) |>.

Definition send (pr : peer_state) (dst : peer) (m : msg) : peer_state :=
  pr <| p_out := p_out pr ++ [(dst, m)] |>.
Definition send_all (pr : peer_state) (dsts : list peer) (m : msg) : peer_state :=
  foldl (fun pr d => send pr d m) pr dsts.
(* server: every connected client; repeat_except_for_client *)
Definition broadcast (pr : peer_state) (m : msg) : peer_state := send_all pr (n_clients pr) m.
Definition relay_except (pr : peer_state) (from : peer) (m : msg) : peer_state :=
  send_all pr (removeN from (n_clients pr)) m.
(* client: the host its transport points to (RenetClient::send_message queues even while not
   connected; the queue is dropped with the client object — modelled as sending to nobody) *)
Definition send_up (pr : peer_state) (m : msg) : peer_state :=
  match n_cli_transport pr with Some (h, _) => send pr h m | None => pr end.

Definition set_panic (pr : peer_state) (s : panic_site) : peer_state :=
  match p_panic pr with Some _ => pr | None => pr <| p_panic := Some s |> end.

Definition upd_ent (pr : peer_state) (e : ent) (f : entity -> entity) : peer_state :=
  match p_ents pr !! e with
  | Some en => pr <| p_ents := <[e := f en]> (p_ents pr) |>
  | None => pr
  end.

(* insert or overwrite a component through exclusive world access at the current tick *)
Definition put_comp (now : tick) (t : tyid) (v : value) (en : entity) : entity :=
  match en_comps en !! t with
  | Some c => en <| en_comps := <[t := {| c_val := v; c_added := c_added c; c_changed := now |}]> (en_comps en) |>
  | None => en <| en_comps := <[t := {| c_val := v; c_added := now; c_changed := now |}]> (en_comps en) |>
  end.

Definition has_comp (en : entity) (t : tyid) : bool := is_some (en_comps en !! t).

Definition ents_list (pr : peer_state) : list (ent * entity) := map_to_list (p_ents pr).
Definition sync_is (u : uuid) (en : entity) : bool :=
  match en_sync en with Some v => v =? u | None => false end.

(* ---------- hierarchy (bevy_hierarchy add_child / set_parent) --------------------------- *)

(* world.entity_mut(p).add_child(c): panics if p is dead or p = c (c is alive at all call sites) *)
Definition add_child (pr : peer_state) (p c : ent) : peer_state :=
  if negb (alive pr p) then set_panic pr PEntityMutDead
  else if p =? c then set_panic pr PSetParentSelf
  else
    let now := p_tick pr in
    let previous := match p_ents pr !! c with Some en => fst <$> en_parent en | None => None end in
    (* update_parent: Parent(c) := p, stamped even if equal *)
    let pr := upd_ent pr c (fun en => en <| en_parent := Some (p, now) |>) in
    let pr := match previous with
              | Some q => if q =? p then pr
                          else upd_ent pr q (fun en => en <| en_children := removeN c (en_children en) |>)
              | None => pr
              end in
    upd_ent pr p (fun en => en <| en_children := removeN c (en_children en) ++ [c] |>).

(* the closure body shared by both receivers: if no Parent or a different one, set_parent then add_child *)
Definition parent_differs (pr : peer_state) (c p : ent) : bool :=
  match p_ents pr !! c with
  | Some en => match en_parent en with Some (q, _) => negb (q =? p) | None => true end
  | None => true
  end.

Definition set_parent_twice (pr : peer_state) (c p : ent) : peer_state :=
  let pr := add_child pr p c in
  match p_panic pr with Some _ => pr | None => add_child pr p c end.

(* ---------- tracker -------------------------------------------------------------------- *)

(* SyncTrackerRes::signal_component_changed *)
(* [changed] = the component's change tick as the detector sees it (Ref<T>::last_changed): only the
   change made by the network apply itself is debounced, a later local write is queued *)
Definition signal_component_changed (pr : peer_state) (u : uuid) (t : tyid) (v : value) (changed : tick) : peer_state :=
  match tok_find (u, t) (t_ctok pr) with
  | Some applied_at =>
      let pr := pr <| t_ctok := tok_remove (u, t) (t_ctok pr) |> in
      if applied_at =? changed then pr else pr <| t_queue := t_queue pr ++ [(u, t, v)] |>
  | None => pr <| t_queue := t_queue pr ++ [(u, t, v)] |>
  end.

(* to_skinned_mapper / to_skinned_mesh: joints translated through the maps, unknown ones dropped *)
Definition to_skinned_mapper (pr : peer_state) (joints : list ent) (poses : list N) : value :=
  VMapper (omap (fun e => t_e2u pr !! e) joints) poses.
Definition to_skinned_mesh (pr : peer_state) (joints : list uuid) (poses : list N) : value :=
  VSkin (omap (fun u => t_u2e pr !! u) joints) poses.

(* the type a value is announced / encoded under *)
Definition wire_type (t : tyid) (v : value) : tyid :=
  match v with VMapper _ _ => T_MAPPER | _ => t end.

(* apply_component_change_from_network(world, e_id, name, data) -> changed? *)
Definition apply_component_change (pr : peer_state) (e : ent) (t : tyid) (v : value) : peer_state * bool :=
  (* try_bin_to_reflect: the encoded type must be known to the registry, else the update is ignored *)
  let announced := wire_type t v in
  if negb (memN announced (p_registry pr)) then (pr, false)
  else
    let '(t, v) := match v with
                   | VMapper j p => (T_SKIN, to_skinned_mesh pr j p)
                   | _ => (t, v)
                   end in
    if negb (memN t (p_registry pr)) then (pr, false)
    else match p_ents pr !! e with
         | None => (pr, false)                                      (* world.get_entity(e_id): gone => ignored *)
         | Some en =>
             match en_sync en with
             | None => (pr, false)
             | Some u =>
                 let different := match en_comps en !! t with
                                  | None => true
                                  | Some c => negb (value_eqb (c_val c) v)
                                  end in
                 if different then
                   (* the token is recorded under the type path the detector will announce *)
                   let pr := pr <| t_ctok := (u, announced, p_tick pr) :: tok_remove (u, announced) (t_ctok pr) |> in
                   (upd_ent pr e (put_comp (p_tick pr) t v), true)
                 else (pr, false)
             end
         end.

(* ---------- snapshot (full_sync::build_full_sync), entity / component / parent part ------ *)

Definition snapshot_entity_msgs (pr : peer_state) (e : ent) (en : entity) : list msg :=
  match en_sync en, t_e2u pr !! e with
  | Some _, Some u =>
      MSpawn u ::
      omap (fun '(t, c) =>
              if memN t (p_sync_types pr) && negb (memN t (en_excl en)) then
                Some (match c_val c with
                      | VSkin j p => MComp u T_MAPPER (to_skinned_mapper pr j p)
                      | v => MComp u t v
                      end)
              else None) (map_to_list (en_comps en))
  | _, _ => []
  end.

Definition snapshot_parent_msgs (pr : peer_state) (e : ent) (en : entity) : list msg :=
  match en_sync en, en_parent en with
  | Some _, Some (q, _) =>
      match t_e2u pr !! e, t_e2u pr !! q with
      | Some u, Some pu => [MParented u pu]
      | _, _ => []
      end
  | _, _ => []
  end.

(* check_images, check_materials, check_meshes, check_audios: every uuid asset of an enabled
   class; the three URL classes are (re-)served by the call *)
Definition assets_of_kind (pr : peer_state) (k : akind) : list (uuid * N) :=
  omap (fun '(key, v) => if key `mod` 4 =? kind_num k then Some (key `div` 4, v) else None) (map_to_list (a_store pr)).

Definition class_enabled (pr : peer_state) (k : akind) : bool :=
  match k with
  | KMaterial | KClass AImage => t_mat pr
  | KClass AMesh => t_mesh pr
  | KClass AAudio => t_audio pr
  end.

(* downloads of class c requested and not yet applied (SyncAssetTransfer::pending_downloads): each id
   once, with the owner named by the LATEST request *)
Definition pending_of (pr : peer_state) (c : aclass) : list (uuid * peer) :=
  let l := omap (fun x : aclass * uuid * peer =>
                   if kind_num (KClass x.1.1) =? kind_num (KClass c) then Some (x.1.2, x.2) else None) (d_pending pr) in
  foldr (fun '(a, o) acc => if existsb (fun y : uuid * peer => fst y =? a) acc then acc else (a, o) :: acc) [] l.

(* check_meshes / check_images / check_audios (since the repair of S26, 8b1d5d0): an asset this peer is
   still downloading is announced with the owner it was told to fetch it from — also when it holds no
   copy yet — and is not served; every other asset of the class is served and announced as its own *)
Definition serve_all (pr : peer_state) (c : aclass) : peer_state * list msg :=
  if class_enabled pr (KClass c) then
    let pend := pending_of pr c in
    let l := filter (fun x : uuid * N => negb (existsb (fun y : uuid * peer => fst y =? fst x) pend))
                    (assets_of_kind pr (KClass c)) in
    (pr <| h_cache := foldl (fun h '(a, v) => <[akey (KClass c) a := v]> h) (h_cache pr) l |>,
     ((fun '(a, _) => MAsset c a (p_id pr)) <$> l) ++ ((fun '(a, o) => MAsset c a o) <$> pend))
  else (pr, []).

Definition snapshot_material_msgs (pr : peer_state) : list msg :=
  if t_mat pr then (fun '(a, v) => MMaterial a v) <$> assets_of_kind pr KMaterial else [].

Definition build_full_sync (pr : peer_state) : peer_state * list msg :=
  let es := ents_list pr in
  (* check_entity_components (since the repair of S13, 3ef6cfd): the spawns of every archetype first,
     then, archetype by archetype, the component values. The model has no archetypes: all spawns,
     then all values; the two orders differ only in messages that commute on the receiver (values
     of different entities, all of them known by then). *)
  let m1 := concat ((fun '(e, en) => firstn 1 (snapshot_entity_msgs pr e en)) <$> es) ++
            concat ((fun '(e, en) => skipn 1 (snapshot_entity_msgs pr e en)) <$> es) in
  let m2 := concat ((fun '(e, en) => snapshot_parent_msgs pr e en) <$> es) in
  let '(pr, mi) := serve_all pr AImage in
  let mm := snapshot_material_msgs pr in
  let '(pr, me) := serve_all pr AMesh in
  let '(pr, ma) := serve_all pr AAudio in
  (pr, m1 ++ m2 ++ mi ++ mm ++ me ++ ma).

(* SyncAssetTransfer::request: the download is queued *)
Definition request_asset (pr : peer_state) (c : aclass) (a : uuid) (owner : peer) : peer_state :=
  pr <| d_pending := d_pending pr ++ [(c, a, owner)] |>.

Definition insert_asset (pr : peer_state) (k : akind) (a : uuid) (v : N) : peer_state :=
  pr <| a_store := <[akey k a := v]> (a_store pr) |> <| a_events := a_events pr ++ [(k, a)] |>.

(* react_on_changed_components: the queue of detected changes goes out *)
Definition react_on_changed_components (server : bool) (pr : peer_state) : peer_state :=
  let q := t_queue pr in
  let pr := pr <| t_queue := [] |> in
  foldl (fun pr '(u, t, v) => if server then broadcast pr (MComp u t v) else send_up pr (MComp u t v)) pr q.

(* ---------- deferred commands ------------------------------------------------------------ *)

Definition apply_cmd (pr : peer_state) (c : cmd) : peer_state :=
  match c with
  | CSpawnSync e u =>
      pr <| p_ents := <[e := new_entity <| en_sync := Some u |> <| en_sync_added := p_tick pr |>]> (p_ents pr) |>
         <| p_reserved := removeN e (p_reserved pr) |>
  | CDespawn e | CAppDespawn e => pr <| p_ents := delete e (p_ents pr) |>
  | CAppDespawnUuid u =>
      match filter (fun x : ent * entity => sync_is u x.2) (ents_list pr) with
      | (e, _) :: _ => pr <| p_ents := delete e (p_ents pr) |>
      | [] => pr
      end
  | CInsertSync e u =>
      (* remove::<SyncMark>().try_insert(SyncEntity{uuid}): nothing happens if e is gone *)
      upd_ent pr e (fun en => en <| en_mark := None |> <| en_sync := Some u |> <| en_sync_added := p_tick pr |>)
  | CApplyComp from e u t v =>
      let '(pr', changed) := apply_component_change pr e t v in
      match from with
      | Some c => if changed then relay_except pr' c (MComp u t v) else pr'
      | None => pr'
      end
  | CSetParentSrv from cu pu =>
      match t_u2e pr !! cu, t_u2e pr !! pu with
      | Some c, Some p =>
          if negb (alive pr p) || negb (alive pr c) then pr             (* get_entity(p) / get_entity_mut(c): None => return *)
          else
            let pr := if parent_differs pr c p
                      then (set_parent_twice pr c p) <| t_ptok ::= <[cu := pu]> |>   (* pushed_parent_from_network.insert *)
                      else pr in
            match p_panic pr with
            | Some _ => pr
            | None => relay_except pr from (MParented cu pu)
            end
      | _, _ => pr
      end
  | CSetParentCli c p cu pu =>
      if negb (alive pr p) || negb (alive pr c) then pr                     (* get_entity(p) / get_entity_mut(c): None => return *)
      else if parent_differs pr c p then (set_parent_twice pr c p) <| t_ptok ::= <[cu := pu]> |> else pr
  | CApplyMaterial from a v =>
      let pr := pr <| t_htok := a :: t_htok pr |> in
      let pr := insert_asset pr KMaterial a v in
      match from with
      | Some c => relay_except pr c (MMaterial a v)
      | None => pr
      end
  | CRelay from m => relay_except pr from m
  | CSendInitialSync to =>
      (* repair of S21 (8f66353): what was detected but not sent yet is sent before the snapshot is built *)
      let pr := react_on_changed_components true pr in
      let '(pr, ms) := build_full_sync pr in
      let pr := foldl (fun pr m => send pr to m) pr ms in
      send pr to MFinInit
  | CRequestInitialSync =>
      (* the closure also builds a full sync (serving this peer's assets) that is never sent *)
      let '(pr, _) := build_full_sync pr in
      send_up pr MReqInit
  | CFixInsert e companions =>
      (* try_insert of each companion: nothing happens if e is gone *)
      let now := p_tick pr in
      foldl (fun pr t => upd_ent pr e (put_comp now t (VN 0))) pr companions
  | CAppInsert e t v =>
      if negb (alive pr e) then set_panic pr PInsertDead
      else upd_ent pr e (put_comp (p_tick pr) t v)
  | CStartServer =>
      pr <| n_srv_transport := Some (p_tick pr) |> <| t_promo := true |>
  | CStartClientTo h flag =>
      let pr := pr <| n_cli_transport := Some (h, p_tick pr) |> in
      (* a new RenetClient is inserted together with the transport (repair of S9): whatever happened to
         the old one (disconnect(), a kick) is forgotten *)
      let pr := pr <| n_sticky_disconnect := false |> <| n_status := RConnecting |> in
      if flag then pr <| t_promo := true |> <| t_closing := true |> else pr     (* flag = the old host's deferred closure *)
  | CRemoveClientTransport => pr <| n_cli_transport := None |>
  | CRemoveServerTransport => pr <| n_srv_transport := None |>
  end.

Fixpoint apply_cmds (pr : peer_state) (cs : list cmd) : peer_state :=
  match cs with
  | [] => pr
  | c :: cs' =>
      match p_panic pr with
      | Some _ => pr
      | None => apply_cmds (apply_cmd pr c) cs'
      end
  end.

(* apply_deferred: the buffers of all systems, in executable-index order, FIFO inside a system *)
Definition flush (pr : peer_state) : peer_state :=
  foldl (fun pr s =>
           let k := sys_key s in
           match p_cmdq pr !! k with
           | Some cs => apply_cmds (pr <| p_cmdq := delete k (p_cmdq pr) |>) cs
           | None => pr
           end) pr (p_order pr).

(* ---------- systems: tracking ------------------------------------------------------------- *)

Definition newly_marked (last : tick) (en : entity) : bool :=
  match en_mark en with Some t => last <? t | None => false end.

(* entity_created_on_server / entity_created_on_client. The fresh uuid of entity e is e itself
   (script entities carry globally unique handles; Uuid::new_v4 is assumed never to repeat). *)
Definition entity_created (server : bool) (pr : peer_state) (k : N) (last : tick) : peer_state :=
  foldl (fun pr '(e, en) =>
           if newly_marked last en then
             let u := e in
             let pr := if server then broadcast pr (MSpawn u) else pr in
             let pr := pr <| t_u2e := <[u := e]> (t_u2e pr) |> <| t_e2u := <[e := u]> (t_e2u pr) |> in
             let pr := if server then pr else send_up pr (MSpawn u) in
             push_cmd pr k (CInsertSync e u)
           else pr) pr (ents_list pr).

(* entity_removed_from_server: walks entity_to_uuid *)
Definition entity_removed_server (pr : peer_state) : peer_state :=
  let gone := filter (fun '(e, u) => negb (has_sync pr e)) (map_to_list (t_e2u pr)) in
  let pr := pr <| t_e2u := foldl (fun m '(e, _) => delete e m) (t_e2u pr) gone |> in
  let uuids := remove_dups (snd <$> gone) in
  foldl (fun pr u => broadcast (pr <| t_u2e := delete u (t_u2e pr) |>) (MDelete u)) pr uuids.

(* entity_removed_from_client: walks uuid_to_entity, leaves entity_to_uuid alone *)
Definition entity_removed_client (pr : peer_state) : peer_state :=
  let gone := filter (fun '(u, e) => negb (has_sync pr e)) (map_to_list (t_u2e pr)) in
  let pr := pr <| t_u2e := foldl (fun m '(u, _) => delete u m) (t_u2e pr) gone |> in
  let pr := pr <| t_tomb := (gone.*1) ++ t_tomb pr |> in             (* despawned_locally.insert *)
  foldl (fun pr '(u, _) => send_up pr (MDelete u)) pr gone.

Definition parent_changed (last : tick) (en : entity) : option ent :=
  match en_parent en with Some (p, t) => if last <? t then Some p else None | None => None end.

Definition entity_parented_server (pr : peer_state) (last : tick) : peer_state :=
  foldl (fun pr '(e, en) =>
           match parent_changed last en with
           | Some p =>
               match t_e2u pr !! e, t_e2u pr !! p with
               | Some u, Some pu =>
                   (* skip_network_parent_change: the record is consumed; a link equal to it is not announced *)
                   let pr' := pr <| t_ptok ::= delete u |> in
                   if bool_decide (t_ptok pr !! u = Some pu) then pr' else broadcast pr' (MParented u pu)
               | _, _ => pr
               end
           | None => pr
           end) pr (ents_list pr).

Definition entity_parented_client (pr : peer_state) (last : tick) : peer_state :=
  foldl (fun pr '(e, en) =>
           match parent_changed last en, en_sync en with
           | Some p, Some u =>
               match p_ents pr !! p with
               | Some pen =>
                   match en_sync pen, en_children pen with
                   | Some pu, _ :: _ =>
                       let pr' := pr <| t_ptok ::= delete u |> in
                       if bool_decide (t_ptok pr !! u = Some pu) then pr' else send_up pr' (MParented u pu)
                   | _, _ => pr
                   end
               | None => pr
               end
           | _, _ => pr
           end) pr (ents_list pr).

(* sync_detect::<T> / sync_skinned_mesh *)
Definition sync_detect (pr : peer_state) (t : tyid) (last : tick) : peer_state :=
  foldl (fun pr '(e, en) =>
           match en_sync en, en_comps en !! t with
           | Some u, Some c =>
               if negb (memN t (en_excl en)) && ((last <? c_changed c) || (last <? en_sync_added en)) then
                 match c_val c with
                 | VSkin j p => signal_component_changed pr u T_MAPPER (to_skinned_mapper pr j p) (c_changed c)
                 | v => signal_component_changed pr u t v (c_changed c)
                 end
               else pr
           | _, _ => pr
           end) pr (ents_list pr).

(* react_on_changed_materials / _images / _meshes / _audios *)
Definition react_on_changed_assets (server : bool) (k : akind) (pr : peer_state) : peer_state :=
  let mine := filter (fun x : akind * uuid => kind_num x.1 =? kind_num k) (a_ready pr) in
  let pr := pr <| a_ready := filter (fun x : akind * uuid => negb (kind_num x.1 =? kind_num k)) (a_ready pr) |> in
  foldl (fun pr '(_, a) =>
           match a_store pr !! akey k a with
           | None => pr
           | Some v =>
               if memN a (t_htok pr) then pr <| t_htok := remove1N a (t_htok pr) |>
               else
                 match k with
                 | KMaterial => if server then broadcast pr (MMaterial a v) else send_up pr (MMaterial a v)
                 | KClass c =>
                     let pr := pr <| h_cache := <[akey k a := v]> (h_cache pr) |> in
                     let m := MAsset c a (p_id pr) in
                     if server then broadcast pr m else send_up pr m
                 end
           end) pr mine.

(* process_mesh_assets / process_image_assets / process_audio_assets: downloads that completed
   (oracle: class, id, content) are inserted into Assets<T> with a handle token *)
(* One entry of the oracle list: (class, id, content, forgotten).
   Content [Some v]: process_* applies a download that has arrived (a handle token, the asset inserted).
   Content [None]: nothing is applied.
   [forgotten]: in this frame the real registry of pending downloads removed its entry of the id (its last
   download thread ended or its last arrived bytes were applied, whichever came last, and nothing of the id
   is under way or waiting any more): every request of the id is forgotten. Until then the requests stay
   (the registry holds ONE entry per id with the owner of the LATEST request, which is what [pending_of]
   reads). Which downloads arrive, in which order, and which of them are dropped as outdated (repair of
   defect S31) is the subject of Abs/Downloads.v; here all of that is oracle input. *)
Definition process_assets (pr : peer_state) (c : aclass) (done : list (aclass * uuid * option N * bool)) : peer_state :=
  foldl (fun pr '(c', a, v, forgotten) =>
           if kind_num (KClass c') =? kind_num (KClass c) then
             let pr := match v with Some _ => pr <| t_htok := a :: t_htok pr |> | None => pr end in
             let pr := pr <| d_pending :=
                          if (forgotten : bool)
                          then filter (fun x : aclass * uuid * peer => negb ((kind_num (KClass x.1.1) =? kind_num (KClass c)) && (x.1.2 =? a))) (d_pending pr)
                          else d_pending pr |> in
             match v with Some v => insert_asset pr (KClass c) a v | None => pr end
           else pr) pr done.

(* promote_to_host_event_reader *)
Definition promote_reader (pr : peer_state) : peer_state :=
  let evs := n_promote_events pr in
  foldl (fun pr c => send pr c MPromote) (pr <| n_promote_events := [] |>) evs.

(* ---------- systems: bundle_fix ----------------------------------------------------------- *)

Definition fix_system (pr : peer_state) (k : N) (last : tick) (trigger : tyid) (without : list tyid)
    (companions : list tyid) : peer_state :=
  foldl (fun pr '(e, en) =>
           match en_comps en !! trigger with
           | Some c =>
               if (last <? c_added c) && forallb (fun t => negb (has_comp en t)) without then
                 push_cmd pr k (CFixInsert e companions)
               else pr
           | None => pr
           end) pr (ents_list pr).

(* ---------- receivers --------------------------------------------------------------------- *)

Definition server_received (pr : peer_state) (k : N) (from : peer) (m : msg) : peer_state :=
  match m with
  | MSpawn u =>
      let e := p_next_ent pr in
      let pr := pr <| p_next_ent := e + 1 |> <| p_reserved := e :: p_reserved pr |> in
      let pr := push_cmd pr k (CSpawnSync e u) in
      let pr := pr <| t_u2e := <[u := e]> (t_u2e pr) |> <| t_e2u := <[e := u]> (t_e2u pr) |> in
      relay_except pr from (MSpawn u)
  | MParented c p => push_cmd pr k (CSetParentSrv from c p)
  | MDelete u =>
      let pr := match t_u2e pr !! u with
                | Some e =>
                    if cmd_get_entity pr e then
                      let pr := push_cmd pr k (CDespawn e) in
                      pr <| t_u2e := delete u (t_u2e pr) |> <| t_e2u := delete e (t_e2u pr) |>
                    else pr
                | None => pr
                end in
      relay_except pr from (MDelete u)
  | MComp u t v =>
      match t_u2e pr !! u with
      | Some e => push_cmd pr k (CApplyComp (Some from) e u t v)
      | None => pr
      end
  | MMaterial a v => push_cmd pr k (CApplyMaterial (Some from) a v)
  | MAsset c a owner => push_cmd (request_asset pr c a owner) k (CRelay from m)
  | MPromote => pr
  | MNewHost h =>
      (* server.disconnect(client_id): the connection leaves clients_id() at once, its
         ClientDisconnected event is produced by the next renet update *)
      let pr := pr <| n_clients := removeN from (n_clients pr) |> <| n_kicked := n_kicked pr ++ [from] |> in
      let pr := relay_except pr from (MNewHost h) in
      push_cmd pr k (CStartClientTo h true)
  | MReqInit => push_cmd pr k (CSendInitialSync from)
  | MFinInit => pr
  end.

Definition client_received (pr : peer_state) (k : N) (m : msg) : peer_state :=
  match m with
  | MSpawn u =>
      let dup := match t_u2e pr !! u with Some e => cmd_get_entity pr e | None => false end in
      if memN u (t_tomb pr) || dup then pr                               (* despawned_locally: stale spawn ignored *)
      else
        let e := p_next_ent pr in
        let pr := pr <| p_next_ent := e + 1 |> <| p_reserved := e :: p_reserved pr |> in
        let pr := push_cmd pr k (CSpawnSync e u) in
        pr <| t_u2e := <[u := e]> (t_u2e pr) |> <| t_e2u := <[e := u]> (t_e2u pr) |>
  | MParented c p =>
      match t_u2e pr !! c, t_u2e pr !! p with
      | Some ce, Some pe => push_cmd pr k (CSetParentCli ce pe c p)
      | _, _ => pr
      end
  | MDelete u =>
      match t_u2e pr !! u with
      | Some e =>
          if cmd_get_entity pr e then
            let pr := pr <| t_u2e := delete u (t_u2e pr) |> <| t_e2u := delete e (t_e2u pr) |> in
            push_cmd pr k (CDespawn e)
          else pr
      | None => pr
      end
  | MComp u t v =>
      match t_u2e pr !! u with
      | Some e => push_cmd pr k (CApplyComp None e u t v)
      | None => pr
      end
  | MMaterial a v => push_cmd pr k (CApplyMaterial None a v)
  | MAsset c a owner => request_asset pr c a owner
  | MPromote => push_cmd pr k CStartServer
  | MNewHost h =>
      (* client.disconnect(); cmd.remove_resource; cmd.insert_resource(RenetClient::new, create_client);
         the flag is NOT set (ClientState stays Connected through the swap: nothing would clear it) *)
      let pr := pr <| n_sticky_disconnect := true |> <| n_status := RDisconnected |> in
      let pr := push_cmd pr k CRemoveClientTransport in
      push_cmd pr k (CStartClientTo h false)
  | MReqInit => pr
  | MFinInit => pr <| p_finished_events := p_finished_events pr + 1 |>
  end.

Definition pop_inbox (pr : peer_state) (from : peer) : option (msg * peer_state) :=
  match n_inbox pr !! from with
  | Some (m :: rest) => Some (m, pr <| n_inbox := <[from := rest]> (n_inbox pr) |>)
  | _ => None
  end.

(* poll_for_messages (server): the oracle lists, in visiting order, the client each received
   message came from; a listed message that is not there is ignored (oracle validity) *)
Definition server_poll (pr : peer_state) (k : N) (froms : list peer) : peer_state :=
  foldl (fun pr from =>
           match pop_inbox pr from with
           | Some (m, pr) => server_received pr k from m
           | None => pr
           end) pr froms.

Definition client_poll (pr : peer_state) (k : N) (host : peer) (n : nat) : peer_state :=
  foldl (fun pr _ =>
           match pop_inbox pr host with
           | Some (m, pr) => client_received pr k m
           | None => pr
           end) pr (replicate n tt).

(* ---------- session systems ---------------------------------------------------------------- *)

(* client_connected: reads ServerEvents *)
Definition client_connected (pr : peer_state) (k : N) : peer_state :=
  let evs := n_srv_events pr in
  let pr := pr <| n_srv_events := [] |> in
  foldl (fun pr '(connected, c) =>
           if (connected : bool) then
             if t_promo pr then push_cmd (pr <| t_promo := false |>) k CRemoveClientTransport else pr
           else
             if is_nil (n_clients pr) && (t_promo pr || t_closing pr) then
               push_cmd (pr <| n_clients := [] |> <| t_promo := false |> <| t_closing := false |>) k CRemoveServerTransport
             else pr) pr evs.

Definition verify_client_connected (pr : peer_state) (k : N) : peer_state :=
  match n_status pr with
  | RConnected =>
      let pr := pr <| s_next_client := Some CliConnected |> in
      if negb (t_promo pr) then push_cmd (pr <| t_tomb := [] |>) k CRequestInitialSync   (* new session: despawned_locally.clear() *)
      else pr <| t_promo := false |>
  | _ => pr
  end.

(* ---------- run conditions ------------------------------------------------------------------ *)

Definition ckey (k : N) : N := k + 5000.

(* resource_added::<T>: is_added relative to the condition's own last evaluation *)
Definition cond_resource_added (pr : peer_state) (k : N) (added : option tick) : peer_state * bool :=
  let '(pr, this) := begin_run pr (ckey k) in
  let r := match added with Some t => last_run pr (ckey k) <? t | None => false end in
  (end_run pr (ckey k) this, r).

(* resource_removed::<T>(): stateful closure with an `existed` bit *)
Definition cond_resource_removed (pr : peer_state) (k : N) (exists_now : bool) : peer_state * bool :=
  let existed := default false (p_cond_bit pr !! k) in
  if exists_now then (pr <| p_cond_bit := <[k := true]> (p_cond_bit pr) |>, false)
  else if existed then (pr <| p_cond_bit := <[k := false]> (p_cond_bit pr) |>, true)
  else (pr, false).

Definition server_gate (pr : peer_state) : bool :=
  n_setup pr && is_some (n_srv_transport pr) && is_srv_connected (s_server pr).
Definition client_gate (pr : peer_state) : bool :=
  n_setup pr && is_some (n_cli_transport pr) && is_cli_connected (s_client pr).

(* what the frame's oracle tells one frame of one peer *)
Record frame_oracle := {
  fo_conn_events : list (bool * peer);   (* host: ServerEvents produced by this frame's renet update *)
  fo_clients : list peer;                (* host: RenetServer::clients_id() after this frame's renet update *)
  fo_status : option renet_status;       (* client: RenetClient status after this frame's renet update *)
  fo_srv_poll : list peer;               (* host poll: sender of each message received, in order *)
  fo_cli_poll : nat;                     (* client poll: number of messages received *)
  fo_downloads : list (aclass * uuid * option N * bool);   (* downloads whose payload the process_* systems apply in this frame (None: nothing applied); the flag: the registry forgot the id in this frame *)
}.

Definition run_body (pr : peer_state) (s : sysid) (o : frame_oracle) : peer_state :=
  let k := sys_key s in
  let '(pr, this) := begin_run pr k in
  let last := last_run pr k in
  let pr :=
    match s with
    | SFixVisibility => fix_system pr k last T_VISIBILITY [T_VIEWVIS; T_INHERITEDVIS] [T_VIEWVIS; T_INHERITEDVIS]
    | SFixGlobalTransform => fix_system pr k last T_TRANSFORM [T_GLOBALTRANSFORM] [T_GLOBALTRANSFORM]
    | SFixCubemapFrusta => fix_system pr k last T_POINTLIGHT [T_CUBEMAPFRUSTA] [T_CUBEMAPFRUSTA]
    | SFixCubemapVisible => fix_system pr k last T_POINTLIGHT [T_CUBEMAPVISIBLE] [T_CUBEMAPVISIBLE]
    | SFixSpotFrustum => fix_system pr k last T_SPOTLIGHT [T_FRUSTUM] [T_FRUSTUM]
    | SFixCascadesFrusta => fix_system pr k last T_DIRLIGHT [T_CASCADESFRUSTA] [T_CASCADESFRUSTA]
    | SFixCascadesVisible => fix_system pr k last T_DIRLIGHT [T_CASCADESVISIBLE] [T_CASCADESVISIBLE]
    | SFixCascades => fix_system pr k last T_DIRLIGHT [T_CASCADES] [T_CASCADES]
    | SFixCascadeShadowCfg => fix_system pr k last T_DIRLIGHT [T_CASCADESHADOWCFG] [T_CASCADESHADOWCFG]
    | SSrvConnected => pr <| s_next_server := Some SrvConnected |> <| p_finished_events := p_finished_events pr + 1 |>
    | SSrvDisconnected => pr <| s_next_server := Some SrvDisconnected |>
    | SSrvRemoved => entity_removed_server pr
    | SSrvCreated => entity_created true pr k last
    | SSrvParented => entity_parented_server pr last
    | SSrvReact => react_on_changed_components true pr
    | SSrvMat => react_on_changed_assets true KMaterial pr
    | SSrvImg => react_on_changed_assets true (KClass AImage) pr
    | SSrvMesh => react_on_changed_assets true (KClass AMesh) pr
    | SSrvAudio => react_on_changed_assets true (KClass AAudio) pr
    | SSrvPromote => promote_reader pr
    | SSrvClientConnected => client_connected pr k
    | SSrvPoll => server_poll pr k (fo_srv_poll o)
    | SCliConnecting => pr <| s_next_client := Some CliConnecting |>
    | SCliVerify => verify_client_connected pr k
    | SCliDisconnected => pr <| s_next_client := Some CliDisconnected |>
    | SCliRemoved => entity_removed_client pr
    | SCliCreated => entity_created false pr k last
    | SCliParented => entity_parented_client pr last
    | SCliReact => react_on_changed_components false pr
    | SCliMat => react_on_changed_assets false KMaterial pr
    | SCliImg => react_on_changed_assets false (KClass AImage) pr
    | SCliMesh => react_on_changed_assets false (KClass AMesh) pr
    | SCliAudio => react_on_changed_assets false (KClass AAudio) pr
    | SCliPoll => match n_cli_transport pr with
                  | Some (h, _) => client_poll pr k h (fo_cli_poll o)
                  | None => pr
                  end
    | SProcMesh => process_assets pr AMesh (fo_downloads o)
    | SProcImage => process_assets pr AImage (fo_downloads o)
    | SProcAudio => process_assets pr AAudio (fo_downloads o)
    | SDetect t => sync_detect pr t last
    | SSync => pr
    | SApp n =>
        (* an application system placed by the scheduler like any unordered system: issues its commands *)
        let mine := filter (fun x : N * cmd => x.1 =? n) (p_app_cmds pr) in
        let pr := pr <| p_app_cmds := filter (fun x : N * cmd => negb (x.1 =? n)) (p_app_cmds pr) |> in
        foldl (fun pr x => push_cmd pr k x.2) pr mine
    end in
  end_run pr k this.

(* one position of the Update schedule: conditions (every frame), then the system if they hold *)
Definition run_system (pr : peer_state) (s : sysid) (o : frame_oracle) : peer_state :=
  match p_panic pr with
  | Some _ => pr
  | None =>
    let k := sys_key s in
    match s with
    | SSync => flush pr
    | SSrvConnected =>
        let '(pr, added) := cond_resource_added pr k (n_srv_transport pr) in
        if n_setup pr && negb (is_srv_connected (s_server pr)) && added then run_body pr s o else pr
    | SSrvDisconnected =>
        let '(pr, removed) := cond_resource_removed pr k (is_some (n_srv_transport pr)) in
        if n_setup pr && is_srv_connected (s_server pr) && removed then run_body pr s o else pr
    | SCliConnecting =>
        let '(pr, added) := cond_resource_added pr k (snd <$> n_cli_transport pr) in
        if n_setup pr && is_cli_disconnected (s_client pr) && added then run_body pr s o else pr
    | SCliVerify =>
        if n_setup pr && is_some (n_cli_transport pr) && is_cli_connecting (s_client pr)
        then run_body pr s o else pr
    | SCliDisconnected =>
        let '(pr, removed) := cond_resource_removed pr k (is_some (n_cli_transport pr)) in
        if n_setup pr && negb (is_cli_disconnected (s_client pr)) && removed then run_body pr s o else pr
    | SSrvRemoved | SSrvCreated | SSrvParented | SSrvReact | SSrvPromote | SSrvClientConnected | SSrvPoll =>
        if server_gate pr then run_body pr s o else pr
    | SSrvMat | SSrvImg => if server_gate pr && t_mat pr then run_body pr s o else pr
    | SSrvMesh => if server_gate pr && t_mesh pr then run_body pr s o else pr
    | SSrvAudio => if server_gate pr && t_audio pr then run_body pr s o else pr
    | SCliRemoved | SCliCreated | SCliParented | SCliReact | SCliPoll =>
        if client_gate pr then run_body pr s o else pr
    | SCliMat | SCliImg => if client_gate pr && t_mat pr then run_body pr s o else pr
    | SCliMesh => if client_gate pr && t_mesh pr then run_body pr s o else pr
    | SCliAudio => if client_gate pr && t_audio pr then run_body pr s o else pr
    | SProcMesh | SProcImage | SProcAudio => if n_setup pr then run_body pr s o else pr
    | _ => run_body pr s o
    end
  end.

(* PreUpdate: renet update + transport receive, as reported by the oracle *)
Definition pre_update (pr : peer_state) (o : frame_oracle) : peer_state :=
  let pr := pr <| n_clients := fo_clients o |> <| n_srv_events := n_srv_events pr ++ fo_conn_events o |> <| n_kicked := [] |> in
  match fo_status o with
  | Some st => pr <| n_status := st |>
  | None => pr
  end.

(* StateTransition: NextState written in the previous frame becomes the state; OnEnter systems *)
Definition state_transition (pr : peer_state) : peer_state :=
  let pr := match s_next_client pr with
            | Some st => pr <| s_client := st |> <| s_next_client := None |>
            | None => pr
            end in
  match s_next_server pr with
  | Some st =>
      let entering := is_srv_connected st && negb (is_srv_connected (s_server pr)) in
      let pr := pr <| s_server := st |> <| s_next_server := None |> in
      (* OnEnter(ServerState::Connected): server_promoted_is_ready.run_if(resource_exists::<NetcodeClientTransport>) *)
      if entering && is_some (n_cli_transport pr) then send_up pr (MNewHost (p_id pr)) else pr
  | None => pr
  end.

(* Last: asset events queued during this frame become readable. The systems of PostUpdate / Last
   (and World::clear_trackers) advance the change tick: anything the application writes between
   frames is stamped later than every command applied in the frame. *)
Definition last_schedule (pr : peer_state) : peer_state :=
  pr <| a_ready := a_ready pr ++ a_events pr |> <| a_events := [] |> <| p_tick := p_tick pr + 1 |>.

Definition frame (pr : peer_state) (o : frame_oracle) : peer_state :=
  match p_panic pr with
  | Some _ => pr
  | None =>
      let pr := pr <| p_out := [] |> in
      let pr := pre_update pr o in
      let pr := state_transition pr in
      let pr := foldl (fun pr s => run_system pr s o) pr (p_order pr) in
      let pr := match p_panic pr with Some _ => pr | None => flush pr end in
      last_schedule pr
  end.

(* ---------- application operations (direct world access between frames) ---------------------- *)

Inductive app_op :=
| OSpawn (e : ent) (marked : bool) (comps : list (tyid * value))   (* world.spawn((SyncMark?, comps...)) as script entity e *)
| ODespawn (e : ent)
| OMark (e : ent)
| OWrite (e : ent) (t : tyid) (v : value)                          (* insert or mutate *)
| OExclude (e : ent) (t : tyid) (on : bool)
| OSetParent (c p : ent)
| OAddAsset (k : akind) (a : uuid) (v : N)                          (* Assets<T>::insert(uuid, content) *)
| OPromote (c : peer)                                               (* send_event(PromoteToHostEvent { id: c }) *)
| OAppCmd (n : N) (c : cmd)                                         (* application system n issues command c at its next run *)
| OSetup (host : bool) (target : peer)                             (* add ServerPlugin / ClientPlugin *)
| OSwitches (mat mesh audio : bool)
| ORemoveTransports
| OReg (t : tyid)                                                   (* sync_component::<T>() *)
| OSetRegistry (ts : list tyid)                                     (* what the AppTypeRegistry resolves (observed) *)
| OSetOrder (order : list sysid).                                   (* executable order of Update (observed) *)

Definition app_step (pr : peer_state) (op : app_op) : peer_state :=
  let now := p_tick pr in
  match op with
  | OSpawn e marked comps =>
      let en := new_entity <| en_mark := if marked then Some now else None |> in
      let en := foldl (fun en '(t, v) => put_comp now t v en) en comps in
      pr <| p_ents := <[e := en]> (p_ents pr) |>
  | ODespawn e => pr <| p_ents := delete e (p_ents pr) |>
  | OMark e => upd_ent pr e (fun en => en <| en_mark := Some now |>)
  | OWrite e t v => upd_ent pr e (put_comp now t v)
  | OExclude e t on =>
      upd_ent pr e (fun en => en <| en_excl := if on then t :: removeN t (en_excl en) else removeN t (en_excl en) |>)
  | OSetParent c p => if alive pr c then add_child pr p c else pr
  | OAddAsset k a v => insert_asset pr k a v
  | OPromote c => pr <| n_promote_events := n_promote_events pr ++ [c] |>
  | OAppCmd n c => pr <| p_app_cmds := p_app_cmds pr ++ [(n, c)] |>
  | OSetup host target =>
      let pr := pr <| n_setup := true |> in
      if host then pr <| n_srv_transport := Some now |>
      else pr <| n_cli_transport := Some (target, now) |> <| n_status := RConnecting |>
  | OSwitches m me a => pr <| t_mat := m |> <| t_mesh := me |> <| t_audio := a |>
  | ORemoveTransports => pr <| n_srv_transport := None |> <| n_cli_transport := None |>
  | OReg t => pr <| p_sync_types := t :: removeN t (p_sync_types pr) |>
  | OSetRegistry ts => pr <| p_registry := ts |>
  | OSetOrder order => pr <| p_order := order |>
  end.

(* ---------- the global system ------------------------------------------------------------------ *)

Definition global := gmap peer peer_state.

Definition deliver_out (g : global) (src : peer) (out : list (peer * msg)) : global :=
  foldl (fun g '(dst, m) =>
           match g !! dst with
           | Some pd => <[dst := pd <| n_inbox := <[src := default [] (n_inbox pd !! src) ++ [m]]> (n_inbox pd) |>]> g
           | None => g
           end) g out.

(* keys a message is about: two messages with disjoint keys were produced by unordered
   iterations (query / HashSet order) or concern unrelated objects *)
Definition msg_keys (m : msg) : list N :=
  match m with
  | MSpawn u | MDelete u => [u]
  | MComp u _ v => u :: match v with VMapper joints _ => joints | _ => [] end
  | MParented c p => [c; p]
  | MMaterial a _ => [1099511627776 + akey KMaterial a]
  | MAsset c a _ => [1099511627776 + akey (KClass c) a]
  | MPromote | MNewHost _ | MReqInit | MFinInit => []
  end.
Definition control_msg (m : msg) : bool :=
  match m with MPromote | MNewHost _ | MReqInit | MFinInit => true | _ => false end.
Definition disjoint_keys (a b : msg) : bool :=
  forallb (fun k => negb (memN k (msg_keys b))) (msg_keys a).
(* two messages whose handling commutes (up to the order inside Children lists): updates of
   different components (of the same or different entities), links of different children,
   anything about disjoint sets of entities / assets *)
Definition independent (a b : msg) : bool :=
  negb (control_msg a) && negb (control_msg b) &&
  match a, b with
  | MComp u t _, MComp u' t' _ => negb (u =? u') || negb (t =? t')
  | MParented c _, MParented c' _ => negb (c =? c')
  | _, _ => disjoint_keys a b
  end.

Inductive step :=
| StApp (p : peer) (op : app_op)
| StFrame (p : peer) (o : frame_oracle)
| StReorder (dst src : peer) (i j : nat).
  (* move message i of link src->dst forward to position j <= i, allowed only past messages
     independent of it: the sender's iteration order over a query / hash set is unspecified *)

Definition reorder (l : list msg) (i j : nat) : list msg :=
  match l !! i with
  | Some m =>
      let between := take (i - j) (drop j l) in
      if Nat.leb j i && forallb (independent m) between
      then take j l ++ m :: between ++ drop (S i) l
      else l
  | None => l
  end.

Definition gstep (g : global) (s : step) : global :=
  match s with
  | StApp p op =>
      match g !! p with Some pr => <[p := app_step pr op]> g | None => g end
  | StFrame p o =>
      match g !! p with
      | Some pr =>
          let pr' := frame pr o in
          deliver_out (<[p := pr']> g) p (p_out pr')
      | None => g
      end
  | StReorder dst src i j =>
      match g !! dst with
      | Some pd =>
          match n_inbox pd !! src with
          | Some l => <[dst := pd <| n_inbox := <[src := reorder l i j]> (n_inbox pd) |>]> g
          | None => g
          end
      | None => g
      end
  end.

Definition grun (g : global) (tr : list step) : global := foldl gstep g tr.
