(* The two maps of the tracker (SyncTrackerRes::uuid_to_entity / entity_to_uuid) of the frame-level
   model: one direction of consistency,

     tracker_ok pr : whenever t_u2e names a local entity e for a uuid u, t_e2u names u for e.

   1. It is NOT an invariant of every run allowed by the hierarchy theorems (`hier_conforming`): an
      application that puts SyncMark on an entity which is already synchronised (a network replica)
      makes entity_created_on_* register the SAME entity under a second uuid; the first uuid stays
      in uuid_to_entity while entity_to_uuid is overwritten (tracker_ok_refuted, reachable trace).
   2. Under the premise "SyncMark is only ever put on script entities (ids below 2^32), never on a
      replica" — a premise the no-panic theorems' `conforming` already contains — it holds in every
      reachable state of every peer (grun_tracker_ok), for all orders, oracles, interleavings.
      The inductive invariant is tracker_ok together with PanicLemmas.u2e_ok (uuid_to_entity is
      injective, maps below the allocator, a script entity is registered under its own id only,
      only script entities carry SyncMark).
   3. Consequence for skinned meshes: a peer that holds a skin it received re-announces exactly the
      uuids it received, in the same order (skin_reencode, skin_via_snapshot). *)
From stdpp Require Import gmap list.
From Coq Require Import NArith Lia.
From RecordUpdate Require Import RecordSet.
From BS Require Import Sync.Types Sync.Model Sync.Observe.
From BS Require Import Sync.Proofs.PanicLemmas Sync.Proofs.Skin Sync.Proofs.Hierarchy Sync.Proofs.Panic.
Import RecordSetNotations.
Local Open Scope N_scope.

(* ================================================================================================ *)
(* 0. The property                                                                                   *)
(* ================================================================================================ *)

Definition tracker_ok (pr : peer_state) : Prop :=
  forall u e, t_u2e pr !! u = Some e -> t_e2u pr !! e = Some u.

(* decidable form *)
Definition tracker_okb (pr : peer_state) : bool :=
  forallb (fun x : uuid * ent => bool_decide (t_e2u pr !! x.2 = Some x.1)) (map_to_list (t_u2e pr)).

Lemma tracker_okb_spec pr : tracker_okb pr = true <-> tracker_ok pr.
Proof.
  unfold tracker_okb, tracker_ok. rewrite forallb_forall. split.
  - intros H u e Hl. apply elem_of_map_to_list in Hl. apply elem_of_list_In in Hl.
    specialize (H (u, e) Hl). apply bool_decide_eq_true in H. exact H.
  - intros H [u e] Hin. apply elem_of_list_In in Hin. apply elem_of_map_to_list in Hin.
    apply bool_decide_eq_true. simpl. apply H. exact Hin.
Qed.

(* the converse direction is not expected (removal paths leave stale entity_to_uuid entries) *)
Definition tracker_conv (pr : peer_state) : Prop :=
  forall e u, t_e2u pr !! e = Some u -> t_u2e pr !! u = Some e.

(* tracker_ok makes uuid_to_entity injective *)
Lemma tracker_ok_inj pr u1 u2 e :
  tracker_ok pr -> t_u2e pr !! u1 = Some e -> t_u2e pr !! u2 = Some e -> u1 = u2.
Proof. intros H H1 H2. apply H in H1. apply H in H2. congruence. Qed.

(* ================================================================================================ *)
(* 1. Refutation under the premise of the hierarchy theorems                                         *)
(* ================================================================================================ *)

(* Hierarchy.session: host 0 spawns the marked script entities 1..4, client 1 replicates them as
   E0 .. E0+3 (E0 = 2^32).  Then the application of the client marks its replica E0 (of uuid 1):
   entity_created_on_client registers E0 under a fresh uuid (the model: E0 itself). *)
Definition remark : list step := session ++ [StApp 1 (OMark E0); StFrame 1 (fc 0)].

Example remark_hier_conforming : hier_conforming 2 remark.
Proof. vm_compute. reflexivity. Qed.

Example remark_maps :
  (fun pr => (u2e_list pr, e2u_list pr)) <$> (grun (init_global 2) session !! 1)
  = Some ([(1, E0); (3, E0 + 1); (2, E0 + 2); (4, E0 + 3)], [(E0 + 3, 4); (E0 + 1, 3); (E0, 1); (E0 + 2, 2)]) /\
  (fun pr => (u2e_list pr, e2u_list pr)) <$> (grun (init_global 2) remark !! 1)
  = Some ([(1, E0); (3, E0 + 1); (2, E0 + 2); (4, E0 + 3); (E0, E0)], [(E0 + 3, 4); (E0 + 1, 3); (E0, E0); (E0 + 2, 2)]).
Proof. vm_compute. split; reflexivity. Qed.

Theorem tracker_ok_refuted :
  exists n tr p pr, hier_conforming n tr /\ grun (init_global n) tr !! p = Some pr /\ ~ tracker_ok pr.
Proof.
  exists 2%nat, remark, 1.
  destruct (grun (init_global 2) remark !! 1) as [pr|] eqn:E; [|vm_compute in E; discriminate].
  exists pr. split; [exact remark_hier_conforming|]. split; [exact E|].
  intros H. apply tracker_okb_spec in H.
  assert (Hb : tracker_okb <$> (grun (init_global 2) remark !! 1) = Some false) by (vm_compute; reflexivity).
  rewrite E in Hb. simpl in Hb. congruence.
Qed.

(* the same at the level of one frame: a reachable state in which tracker_ok holds, and a frame that breaks it *)
Theorem frame_tracker_ok_literal_refuted :
  exists n tr p pr o, hier_conforming n tr /\ grun (init_global n) tr !! p = Some pr /\
                      tracker_ok pr /\ ~ tracker_ok (frame pr o).
Proof.
  exists 2%nat, (session ++ [StApp 1 (OMark E0)]), 1.
  destruct (grun (init_global 2) (session ++ [StApp 1 (OMark E0)]) !! 1) as [pr|] eqn:E; [|vm_compute in E; discriminate].
  exists pr, (fc 0). split; [vm_compute; reflexivity|]. split; [exact E|].
  assert (Hb : (fun pr => (tracker_okb pr, tracker_okb (frame pr (fc 0)))) <$>
               (grun (init_global 2) (session ++ [StApp 1 (OMark E0)]) !! 1) = Some (true, false))
    by (vm_compute; reflexivity).
  rewrite E in Hb. simpl in Hb. injection Hb as H1 H2. split.
  - apply tracker_okb_spec. exact H1.
  - intros H. apply tracker_okb_spec in H. congruence.
Qed.

(* the literal statements, kept visible: both are false *)
Definition frame_tracker_ok_statement : Prop := forall pr o, tracker_ok pr -> tracker_ok (frame pr o).
Definition grun_tracker_ok_statement : Prop :=
  forall n tr, hier_conforming n tr -> forall p pr, grun (init_global n) tr !! p = Some pr -> tracker_ok pr.

Corollary frame_tracker_ok_statement_refuted : ~ frame_tracker_ok_statement.
Proof.
  intros H. destruct frame_tracker_ok_literal_refuted as (n & tr & p & pr & o & _ & _ & H1 & H2).
  apply H2. apply H. exact H1.
Qed.
Corollary grun_tracker_ok_statement_refuted : ~ grun_tracker_ok_statement.
Proof.
  intros H. destruct tracker_ok_refuted as (n & tr & p & pr & H1 & H2 & H3).
  apply H3. eapply H; eassumption.
Qed.

(* What happens (src/server/track.rs, src/client/track.rs: entity_created_on_server / _on_client, query
   `Added<SyncMark>` with no `Without<SyncEntity>` filter): the entity already has SyncEntity{uuid = 1} and
   uuid_to_entity[1] = E0, entity_to_uuid[E0] = 1; the system draws a new uuid v, inserts
   uuid_to_entity[v] = E0 and OVERWRITES entity_to_uuid[E0] = v; nothing removes uuid_to_entity[1]
   (entity_removed_from_client keeps it: the entity still has a SyncEntity).  From then on messages about
   uuid 1 are still applied to E0 while everything E0 announces (components, parent links, skins: the
   joint E0 of a SkinnedMesh) goes out under v. *)

(* ================================================================================================ *)
(* 2. The inductive invariant: tracker_ok + u2e_ok                                                   *)
(* ================================================================================================ *)

(* ---------- the two maps as plain maps --------------------------------------------------------------- *)

Definition tk_ok (m : gmap uuid ent) (w : gmap ent uuid) : Prop :=
  forall u e, m !! u = Some e -> w !! e = Some u.

Lemma tk_insert m w u e :
  tk_ok m w -> (forall u', m !! u' = Some e -> u' = u) -> tk_ok (<[u := e]> m) (<[e := u]> w).
Proof.
  intros H Hf u' e' Hl. destruct (decide (u' = u)) as [->|Hne].
  - rewrite lookup_insert in Hl. injection Hl as <-. apply lookup_insert.
  - rewrite lookup_insert_ne in Hl by congruence.
    destruct (decide (e' = e)) as [->|Hne'].
    + exfalso. apply Hne. apply Hf. exact Hl.
    + rewrite lookup_insert_ne by congruence. apply H. exact Hl.
Qed.

Lemma tk_delete m w u e : tk_ok m w -> m !! u = Some e -> tk_ok (delete u m) (delete e w).
Proof.
  intros H Hu u' e' Hl. apply lookup_delete_Some in Hl as [Hne Hl].
  destruct (decide (e' = e)) as [->|Hne'].
  - exfalso. apply Hne. apply H in Hu. apply H in Hl. congruence.
  - rewrite lookup_delete_ne by congruence. apply H. exact Hl.
Qed.

Lemma tk_sub m m' w : (forall u e, m' !! u = Some e -> m !! u = Some e) -> tk_ok m w -> tk_ok m' w.
Proof. intros Hs H u e Hl. apply H. apply Hs. exact Hl. Qed.

(* ---------- the invariant ------------------------------------------------------------------------------ *)

(* u2e_ok (PanicLemmas): uuid_to_entity is injective; it maps below the allocator p_next_ent; a script
   entity (id below 2^32) is registered under its own id only; the allocator is at or above 2^32; only
   script entities carry SyncMark. *)
Definition tracker_inv (pr : peer_state) : Prop := u2e_ok pr /\ tracker_ok pr.

Lemma tracker_inv_ok pr : tracker_inv pr -> tracker_ok pr.
Proof. intros H. apply H. Qed.

(* the part of the state the two properties read *)
Definition tk (pr : peer_state) := (t_u2e pr, t_e2u pr).
Lemma tk_inv pr pr' : tk pr' = tk pr -> t_u2e pr' = t_u2e pr /\ t_e2u pr' = t_e2u pr.
Proof. unfold tk. intros H. split; [exact (f_equal fst H)|exact (f_equal snd H)]. Qed.
Lemma core_tk pr pr' : core pr' = core pr -> tk pr' = tk pr.
Proof. intros H. unfold tk. rewrite (core_u2e _ _ H), (core_e2u _ _ H). reflexivity. Qed.
Lemma rest_tk pr pr' : rest pr' = rest pr -> tk pr' = tk pr.
Proof.
  intros H. unfold tk. rewrite (rest_e2u _ _ H). apply rest_inv in H as (_ & -> & _). reflexivity.
Qed.
Lemma nocmdq_tk pr pr' : nocmdq pr' = nocmdq pr -> tk pr' = tk pr.
Proof.
  intros H. unfold tk. pose proof (f_equal snd H) as He. simpl in He. rewrite He.
  apply nocmdq_inv in H as (_ & _ & _ & -> & _). reflexivity.
Qed.

Lemma tracker_ok_tk pr pr' : tk pr' = tk pr -> tracker_ok pr -> tracker_ok pr'.
Proof. intros H. apply tk_inv in H as [Hu He]. unfold tracker_ok. rewrite Hu, He. auto. Qed.

Lemma tracker_inv_ext pr pr' :
  tk pr' = tk pr -> p_next_ent pr' = p_next_ent pr -> p_ents pr' = p_ents pr ->
  tracker_inv pr -> tracker_inv pr'.
Proof.
  intros Ht Hn He [H1 H2]. split; [|eapply tracker_ok_tk; eassumption].
  eapply u2e_ok_ext; [apply (proj1 (tk_inv _ _ Ht))|exact Hn|exact He|exact H1].
Qed.

Lemma tracker_inv_core pr pr' : core pr' = core pr -> tracker_inv pr -> tracker_inv pr'.
Proof.
  intros H. apply tracker_inv_ext; [apply core_tk; exact H|apply (core_next _ _ H)|apply (core_ents _ _ H)].
Qed.

Lemma tracker_inv_respects : respects_core tracker_inv.
Proof. intros pr pr' H _. apply tracker_inv_core. exact H. Qed.

(* u2e_ok as an instance of the generic invariant GI of the no-panic development *)
Definition anyc (_ : cmd) : Prop := True.
Definition anym (_ : msg) : Prop := True.
Lemma GI_any pr : GI true anyc anym pr <-> u2e_ok pr.
Proof.
  unfold GI, GS, cmdq_all, app_all, inbox_all, anyc, anym. split; [intros (_ & _ & _ & H); exact H|].
  intros H. split; [intros k cs c _ _; exact I|]. split; [intros x _; exact I|].
  split; [intros s l m _ _; exact I|exact H].
Qed.

Lemma u2e_ok_apply_cmd pr c : u2e_ok pr -> u2e_ok (apply_cmd pr c).
Proof. intros H. apply (proj1 (GI_any _)). apply GI_apply_cmd. apply (proj2 (GI_any _)). exact H. Qed.

Lemma u2e_ok_sys_body pr s o k last : u2e_ok pr -> u2e_ok (sys_body pr s o k last).
Proof.
  intros H. apply (proj1 (GI_any _)).
  apply sys_body_GI; [| | |apply (proj2 (GI_any _)); exact H]; intros; exact I.
Qed.

(* ---------- deferred commands: neither map is written --------------------------------------------------- *)

Lemma apply_cmd_tk pr c : tk (apply_cmd pr c) = tk pr.
Proof. apply rest_tk, apply_cmd_rest. Qed.

Lemma apply_cmd_tracker_inv pr c : tracker_inv pr -> tracker_inv (apply_cmd pr c).
Proof.
  intros [H1 H2]. split; [apply u2e_ok_apply_cmd; exact H1|].
  eapply tracker_ok_tk; [apply apply_cmd_tk|exact H2].
Qed.

Lemma flush_tracker_inv pr : tracker_inv pr -> tracker_inv (flush pr).
Proof.
  apply (flush_inv tracker_inv anyc).
  - intros a _ k cs c _ _. exact I.
  - intros a k. apply tracker_inv_ext; reflexivity.
  - intros a c Ha _ _. apply apply_cmd_tracker_inv. exact Ha.
Qed.

(* ---------- entity_created_on_server / _on_client ------------------------------------------------------- *)

Lemma entity_created_tracker_inv server pr k last :
  tracker_inv pr -> tracker_inv (entity_created server pr k last).
Proof.
  intros H. rewrite entity_created_eq.
  refine (proj2 (foldl_inv (fun a => fixed a = fixed pr /\ tracker_inv a) _ _ _ _ _));
    [split; [reflexivity|exact H]|].
  intros a [e en] Hin [Ha [Hu Ht]]. cbv beta iota.
  destruct (newly_marked last en) eqn:Enm; [|split; [exact Ha|split; assumption]].
  split; [rewrite created_body_fixed; exact Ha|].
  pose proof (created_body_fixed server k a e) as Hf.
  apply fixed_inv in Hf as (_ & He & _ & _ & Hx).
  apply fixed_inv in Ha as (_ & He' & _ & _ & _).
  unfold ents_list in Hin. apply elem_of_map_to_list in Hin.
  assert (Hmk : en_mark en <> None).
  { unfold newly_marked in Enm. destruct (en_mark en); [discriminate|discriminate]. }
  split.
  - unfold u2e_ok. rewrite created_body_u2e, He, Hx.
    apply (u2e_ok_self _ _ _ e en); [rewrite He'; exact Hin|exact Hmk|exact Hu].
  - unfold tracker_ok. rewrite created_body_u2e, created_body_e2u.
    apply tk_insert; [exact Ht|].
    intros u' Hu'. destruct Hu as (_ & Hb & _ & Hm).
    apply (proj2 (Hb u' e Hu')). apply (Hm e en); [rewrite He'; exact Hin|exact Hmk].
Qed.

(* ---------- entity_removed_from_server ------------------------------------------------------------------- *)

Lemma foldl_delete_fst_notin {A B} `{Countable K} (l : list (K * B)) (m : gmap K A) x :
  x ∉ l.*1 -> foldl (fun m '(k, _) => delete k m) m l !! x = m !! x.
Proof.
  revert m. induction l as [|[k b] l IH]; intros m Hx; simpl; [reflexivity|].
  simpl in Hx. apply not_elem_of_cons in Hx as [Hne Hx].
  rewrite IH by exact Hx. apply lookup_delete_ne. congruence.
Qed.

Lemma removed_server_fold (l : list uuid) : forall a u e,
  t_u2e (foldl (fun pr u => broadcast (pr <| t_u2e := delete u (t_u2e pr) |>) (MDelete u)) a l) !! u = Some e ->
  t_u2e a !! u = Some e /\ u ∉ l.
Proof.
  induction l as [|x l IH]; intros a u e Hl; simpl in Hl; [split; [exact Hl|apply not_elem_of_nil]|].
  apply IH in Hl as [Hl Hn]. rewrite (core_u2e _ _ (broadcast_core _ _)) in Hl. simpl in Hl.
  apply lookup_delete_Some in Hl as [Hne Hl]. split; [exact Hl|].
  apply not_elem_of_cons. split; [congruence|exact Hn].
Qed.

Lemma removed_server_fold_e2u (l : list uuid) a :
  t_e2u (foldl (fun pr u => broadcast (pr <| t_u2e := delete u (t_u2e pr) |>) (MDelete u)) a l) = t_e2u a.
Proof.
  apply (foldl_inv (fun b => t_e2u b = t_e2u a)); [reflexivity|].
  intros b u _ Hb. rewrite (core_e2u _ _ (broadcast_core _ _)). exact Hb.
Qed.

Lemma entity_removed_server_tracker_ok pr : tracker_ok pr -> tracker_ok (entity_removed_server pr).
Proof.
  intros H u e Hl. unfold entity_removed_server in *. cbv zeta in *.
  rewrite removed_server_fold_e2u. apply removed_server_fold in Hl as [Hl Hn]. simpl in Hl |- *.
  pose proof (H u e Hl) as He.
  rewrite foldl_delete_fst_notin; [exact He|].
  intros Hin. apply Hn. apply elem_of_remove_dups.
  apply elem_of_list_fmap in Hin as ([e' u'] & Heq & Hin). simpl in Heq. subst e'.
  apply elem_of_list_fmap. exists (e, u'). split; [|exact Hin]. simpl.
  apply elem_of_list_filter in Hin as [_ Hin]. apply elem_of_map_to_list in Hin. congruence.
Qed.

(* ---------- entity_removed_from_client -------------------------------------------------------------------- *)

Lemma entity_removed_client_e2u pr : t_e2u (entity_removed_client pr) = t_e2u pr.
Proof.
  unfold entity_removed_client. cbv zeta.
  apply (foldl_inv (fun a => t_e2u a = t_e2u pr)); [reflexivity|].
  intros a [u e] _ Ha. cbv beta iota. rewrite (core_e2u _ _ (send_up_core _ _)). exact Ha.
Qed.

Lemma entity_removed_client_tracker_ok pr : tracker_ok pr -> tracker_ok (entity_removed_client pr).
Proof.
  intros H u e Hl. rewrite entity_removed_client_e2u. apply H.
  apply (entity_removed_client_sub pr). exact Hl.
Qed.

(* ---------- receivers ---------------------------------------------------------------------------------------- *)

(* the replica id handed out next is not in the range of uuid_to_entity *)
Lemma u2e_ok_next_fresh pr u : u2e_ok pr -> t_u2e pr !! u = Some (p_next_ent pr) -> False.
Proof. intros (_ & Hb & _) Hl. apply Hb in Hl as [Hl _]. lia. Qed.

Lemma client_received_tracker_ok pr k m :
  u2e_ok pr -> tracker_ok pr -> tracker_ok (client_received pr k m).
Proof.
  intros Hu H. destruct m as [u|c p|u|u t v|a v|c a owner| |h| |]; simpl; try exact H.
  - (* MSpawn *) case_match; [exact H|].
    unfold tracker_ok. simpl. apply tk_insert; [exact H|].
    intros u' Hu'. exfalso. eapply u2e_ok_next_fresh; eassumption.
  - (* MParented *) repeat case_match; exact H.
  - (* MDelete *) destruct (t_u2e pr !! u) as [e|] eqn:Eu; [|exact H].
    destruct (cmd_get_entity pr e); [|exact H].
    unfold tracker_ok. simpl. apply tk_delete; [exact H|exact Eu].
  - (* MComp *) case_match; exact H.
Qed.

Lemma server_received_tracker_ok pr k from m :
  u2e_ok pr -> tracker_ok pr -> tracker_ok (server_received pr k from m).
Proof.
  intros Hu H. destruct m as [u|c p|u|u t v|a v|c a owner| |h| |]; simpl; try exact H.
  - (* MSpawn *)
    eapply tracker_ok_tk; [apply core_tk, relay_except_core|].
    unfold tracker_ok. simpl. apply tk_insert; [exact H|].
    intros u' Hu'. exfalso. eapply u2e_ok_next_fresh; eassumption.
  - (* MDelete *)
    eapply tracker_ok_tk; [apply core_tk, relay_except_core|].
    destruct (t_u2e pr !! u) as [e|] eqn:Eu; [|exact H].
    destruct (cmd_get_entity pr e); [|exact H].
    unfold tracker_ok. simpl. apply tk_delete; [exact H|exact Eu].
  - (* MComp *) case_match; exact H.
  - (* MNewHost *)
    match goal with |- tracker_ok (push_cmd ?x _ _) => change (tracker_ok x) end.
    eapply tracker_ok_tk; [apply core_tk, relay_except_core|]. exact H.
Qed.

Lemma client_received_tracker_inv pr k m : tracker_inv pr -> tracker_inv (client_received pr k m).
Proof.
  intros [H1 H2]. split; [apply client_received_u2e_ok; exact H1|apply client_received_tracker_ok; assumption].
Qed.
Lemma server_received_tracker_inv pr k from m : tracker_inv pr -> tracker_inv (server_received pr k from m).
Proof.
  intros [H1 H2]. split; [apply server_received_u2e_ok; exact H1|apply server_received_tracker_ok; assumption].
Qed.

(* ---------- every system ---------------------------------------------------------------------------------- *)

Lemma sys_body_tracker_inv pr s o k last : tracker_inv pr -> tracker_inv (sys_body pr s o k last).
Proof.
  intros HI. pose proof HI as [H1 H2].
  assert (Hof : forall pr', u2e_ok pr' -> tk pr' = tk pr -> tracker_inv pr').
  { intros pr' Hu Ht. split; [exact Hu|eapply tracker_ok_tk; eassumption]. }
  destruct s;
    try (apply Hof; [apply u2e_ok_sys_body; exact H1|]; simpl;
         first [ reflexivity
               | apply nocmdq_tk, fix_system_nocmdq
               | apply core_tk; first [apply react_assets_core|apply process_assets_core] ]).
  - (* SSrvRemoved *) split; [apply u2e_ok_sys_body; exact H1|]. simpl. apply entity_removed_server_tracker_ok. exact H2.
  - (* SSrvCreated *) simpl. apply entity_created_tracker_inv. exact HI.
  - apply Hof; [apply u2e_ok_sys_body; exact H1|]. simpl. apply core_tk, entity_parented_server_core.
  - apply Hof; [apply u2e_ok_sys_body; exact H1|]. simpl. apply core_tk, react_components_core.
  - apply Hof; [apply u2e_ok_sys_body; exact H1|]. simpl. apply core_tk, promote_reader_core.
  - apply Hof; [apply u2e_ok_sys_body; exact H1|]. simpl. apply nocmdq_tk, client_connected_nocmdq.
  - (* SSrvPoll *) simpl.
    apply (server_poll_inv tracker_inv anym); [intros a _ ? ? ? _ _; exact I| | |exact HI].
    + intros a from m rest_ Ha _. eapply tracker_inv_ext; [| | |exact Ha]; reflexivity.
    + intros a from m Ha _. apply server_received_tracker_inv. exact Ha.
  - apply Hof; [apply u2e_ok_sys_body; exact H1|]. simpl. apply nocmdq_tk, verify_nocmdq.
  - (* SCliRemoved *) split; [apply u2e_ok_sys_body; exact H1|]. simpl. apply entity_removed_client_tracker_ok. exact H2.
  - (* SCliCreated *) simpl. apply entity_created_tracker_inv. exact HI.
  - apply Hof; [apply u2e_ok_sys_body; exact H1|]. simpl. apply core_tk, entity_parented_client_core.
  - apply Hof; [apply u2e_ok_sys_body; exact H1|]. simpl. apply core_tk, react_components_core.
  - (* SCliPoll *) simpl. destruct (n_cli_transport pr) as [[h t]|]; [|exact HI].
    apply (client_poll_inv tracker_inv anym); [intros a _ ? ? ? _ _; exact I| | |exact HI].
    + intros a from m rest_ Ha _. eapply tracker_inv_ext; [| | |exact Ha]; reflexivity.
    + intros a m Ha _. apply client_received_tracker_inv. exact Ha.
  - apply Hof; [apply u2e_ok_sys_body; exact H1|]. simpl. apply core_tk, sync_detect_core.
  - (* SApp *) apply Hof; [apply u2e_ok_sys_body; exact H1|]. simpl.
    apply (foldl_inv (fun a => tk a = tk pr)); [reflexivity|]. intros a x _ Ha. exact Ha.
Qed.

(* ---------- run_system, frame -------------------------------------------------------------------------------- *)

Theorem run_system_tracker_inv pr s o : tracker_inv pr -> tracker_inv (run_system pr s o).
Proof.
  revert pr s o. apply (run_system_inv tracker_inv).
  - exact tracker_inv_respects.
  - intros pr H _. apply flush_tracker_inv. exact H.
  - apply run_body_inv; [exact tracker_inv_respects|]. intros pr s o k last. apply sys_body_tracker_inv.
Qed.

Theorem frame_tracker_inv pr o : tracker_inv pr -> tracker_inv (frame pr o).
Proof.
  revert pr o. apply (frame_inv tracker_inv).
  - exact tracker_inv_respects.
  - intros pr. apply tracker_inv_ext; reflexivity.
  - intros a h. apply tracker_inv_core. apply send_up_core.
  - intros pr H _. apply flush_tracker_inv. exact H.
  - intros pr s o k last. apply sys_body_tracker_inv.
Qed.

(* the statement asked for, with the side condition that makes it true (it is false without:
   frame_tracker_ok_literal_refuted) *)
Theorem frame_tracker_ok pr o : u2e_ok pr -> tracker_ok pr -> tracker_ok (frame pr o).
Proof. intros H1 H2. apply (frame_tracker_inv pr o (conj H1 H2)). Qed.
Theorem flush_tracker_ok pr : tracker_ok pr -> tracker_ok (flush pr).
Proof.
  intros H. rewrite flush_eq. unfold flush_with. apply (foldl_inv tracker_ok); [exact H|].
  intros a s _ Ha. cbv zeta. destruct (p_cmdq a !! sys_key s) as [cs|]; [|exact Ha].
  assert (Ht : forall cs b, tk (apply_cmds b cs) = tk b).
  { clear. induction cs as [|c cs IH]; intros b; simpl; [reflexivity|].
    destruct (p_panic b); [reflexivity|]. rewrite IH. apply apply_cmd_tk. }
  eapply tracker_ok_tk; [apply Ht|]. exact Ha.
Qed.

(* ================================================================================================ *)
(* 3. Application operations                                                                         *)
(* ================================================================================================ *)

(* The operations: OSpawn, ODespawn, OMark, OWrite, OExclude, OSetParent, OAddAsset, OPromote, OAppCmd,
   OSetup, OSwitches, ORemoveTransports, OReg, OSetRegistry, OSetOrder.  None of them writes either
   map; tracker_ok itself is preserved by all of them unconditionally. *)
Lemma app_step_tk pr op : tk (app_step pr op) = tk pr.
Proof.
  destruct op as [e marked comps|e|e|e t v|e t on|c p|ak a v|c|k c|host target|m1 m2 m3| |t|ts|ord];
    simpl; try reflexivity; try (apply rest_tk, upd_ent_rest).
  - destruct (alive pr c); [apply rest_tk, add_child_rest|reflexivity].
  - destruct host; reflexivity.
Qed.

Theorem app_step_tracker_ok pr op : tracker_ok pr -> tracker_ok (app_step pr op).
Proof. apply tracker_ok_tk, app_step_tk. Qed.

(* what the other half of the invariant needs: SyncMark is put on script entities only *)
Definition op_marks_script (op : app_op) : bool :=
  match op with
  | OSpawn e true _ => e <? SCRIPT_LIMIT
  | OMark e => e <? SCRIPT_LIMIT
  | _ => true
  end.

Lemma put_comps_mark now comps : forall en0,
  en_mark (foldl (fun en '(t, v) => put_comp now t v en) en0 comps) = en_mark en0.
Proof.
  induction comps as [|[t v] comps IH]; intros en0; simpl; [reflexivity|].
  rewrite IH. unfold put_comp. destruct (en_comps en0 !! t); reflexivity.
Qed.

Lemma u2e_ok_rest pr pr' : rest pr' = rest pr -> ents_all mark_ok pr' -> u2e_ok pr -> u2e_ok pr'.
Proof.
  intros H Hm Hu. apply rest_inv in H as (_ & Hu2e & _ & Hn & _).
  unfold u2e_ok. rewrite Hu2e, Hn. eapply u2e_ok_ents; [exact Hm|exact Hu].
Qed.

Lemma u2e_ok_marks pr : u2e_ok pr -> ents_all mark_ok pr.
Proof. intros (_ & _ & _ & H). exact H. Qed.

Lemma app_step_u2e_ok pr op : u2e_ok pr -> op_marks_script op = true -> u2e_ok (app_step pr op).
Proof.
  intros H Hop. pose proof (u2e_ok_marks pr H) as Hm.
  destruct op as [e marked comps|e|e|e t v|e t on|c p|ak a v|c|k c|host target|m1 m2 m3| |t|ts|ord];
    simpl in Hop |- *;
    try (eapply u2e_ok_ext; [| | |exact H]; reflexivity).
  - (* OSpawn *) apply (u2e_ok_rest pr); [reflexivity| |exact H].
    apply ents_all_insert; [|exact Hm]. intros Hmk. rewrite put_comps_mark in Hmk.
    destruct marked; [apply N.ltb_lt; exact Hop|]. simpl in Hmk. contradiction.
  - (* ODespawn *) apply (u2e_ok_rest pr); [reflexivity| |exact H]. apply ents_all_delete. exact Hm.
  - (* OMark *) apply N.ltb_lt in Hop.
    apply (u2e_ok_rest pr); [apply upd_ent_rest| |exact H].
    apply upd_ent_ents_all; [|exact Hm]. intros en _ _. exact Hop.
  - (* OWrite *) apply (u2e_ok_rest pr); [apply upd_ent_rest| |exact H].
    apply upd_ent_ents_all; [|exact Hm]. intros en Hen. unfold mark_ok, put_comp in *.
    destruct (en_comps en !! t); exact Hen.
  - (* OExclude *) apply (u2e_ok_rest pr); [apply upd_ent_rest| |exact H].
    apply upd_ent_ents_all; [|exact Hm]. intros en Hen. exact Hen.
  - (* OSetParent *) destruct (alive pr c); [|exact H].
    apply (u2e_ok_rest pr); [apply add_child_rest| |exact H].
    apply add_child_ents_all; [exact mark_ok_blind|exact Hm].
  - (* OSetup *) eapply u2e_ok_ext; [| | |exact H]; destruct host; reflexivity.
Qed.

Theorem app_step_tracker_inv pr op :
  tracker_inv pr -> op_marks_script op = true -> tracker_inv (app_step pr op).
Proof.
  intros [H1 H2] Hop. split; [apply app_step_u2e_ok; assumption|apply app_step_tracker_ok; exact H2].
Qed.

(* ================================================================================================ *)
(* 4. Initial states                                                                                 *)
(* ================================================================================================ *)

Lemma tracker_ok_init id sync_types registry order : tracker_ok (init_peer id sync_types registry order).
Proof. intros u e H. simpl in H. rewrite lookup_empty in H. discriminate. Qed.

Lemma tracker_inv_init id sync_types registry order : tracker_inv (init_peer id sync_types registry order).
Proof.
  split; [|apply tracker_ok_init]. unfold u2e_ok, u2e_ok_. simpl.
  split; [intros u1 u2 e Hl; rewrite lookup_empty in Hl; discriminate|].
  split; [intros u e Hl; rewrite lookup_empty in Hl; discriminate|].
  split; [unfold SCRIPT_LIMIT; lia|].
  intros e en Hl. rewrite lookup_empty in Hl. discriminate.
Qed.

Lemma tracker_inv_init_global n : all_peers tracker_inv (init_global n).
Proof. intros p pr H. apply init_global_lookup in H as ->. apply tracker_inv_init. Qed.

Corollary tracker_ok_init_global n p pr : init_global n !! p = Some pr -> tracker_ok pr.
Proof. intros H. apply tracker_inv_ok. eapply tracker_inv_init_global. exact H. Qed.

(* ================================================================================================ *)
(* 5. Every reachable state of a global run                                                          *)
(* ================================================================================================ *)

(* The premise: on the peers of the run, OSpawn with SyncMark and OMark concern script entities
   (ids below 2^32) only — the application never marks a network replica.  Everything else is
   arbitrary: frames, oracles, orders, set-ups, interleavings, reorderings, all other operations
   (including unmarked spawns, despawns, application commands of any kind). *)
Definition step_marks_script (g : global) (s : step) : bool :=
  match s with
  | StApp p op => match g !! p with Some _ => op_marks_script op | None => true end
  | _ => true
  end.
Fixpoint marks_script_from (g : global) (tr : list step) : bool :=
  match tr with
  | [] => true
  | s :: tr' => step_marks_script g s && marks_script_from (gstep g s) tr'
  end.
Definition marks_script_only (n : nat) (tr : list step) : Prop :=
  marks_script_from (init_global n) tr = true.

Lemma tracker_inv_inbox pd (ib : gmap peer (list msg)) : tracker_inv pd -> tracker_inv (pd <| n_inbox := ib |>).
Proof. apply tracker_inv_ext; reflexivity. Qed.

Lemma gstep_tracker_inv g s :
  all_peers tracker_inv g -> step_marks_script g s = true -> all_peers tracker_inv (gstep g s).
Proof.
  intros Hg Hs. destruct s as [p op|p o|dst src i j]; simpl in *.
  - destruct (g !! p) as [pr|] eqn:E; [|exact Hg].
    apply all_peers_insert; [exact Hg|]. apply app_step_tracker_inv; [eapply Hg; exact E|exact Hs].
  - destruct (g !! p) as [pr|] eqn:E; [|exact Hg].
    apply (Panic.deliver_out_inv tracker_inv anym).
    + intros pd m Hpd _. apply tracker_inv_inbox. exact Hpd.
    + intros d m _. exact I.
    + apply all_peers_insert; [exact Hg|]. apply frame_tracker_inv. eapply Hg. exact E.
  - destruct (g !! dst) as [pd|] eqn:E; [|exact Hg].
    destruct (n_inbox pd !! src) as [l|]; [|exact Hg].
    apply all_peers_insert; [exact Hg|]. apply tracker_inv_inbox. eapply Hg. exact E.
Qed.

Lemma grun_tracker_inv_from tr : forall g,
  all_peers tracker_inv g -> marks_script_from g tr = true -> all_peers tracker_inv (grun g tr).
Proof.
  induction tr as [|s tr IH]; intros g Hg Hc; simpl in *; [exact Hg|].
  apply andb_true_iff in Hc as [H1 H2]. apply IH; [|exact H2]. apply gstep_tracker_inv; assumption.
Qed.

Theorem grun_tracker_inv n tr :
  marks_script_only n tr -> forall p pr, grun (init_global n) tr !! p = Some pr -> tracker_inv pr.
Proof. intros Hc. apply grun_tracker_inv_from; [apply tracker_inv_init_global|exact Hc]. Qed.

Theorem grun_tracker_ok n tr :
  marks_script_only n tr -> forall p pr, grun (init_global n) tr !! p = Some pr -> tracker_ok pr.
Proof. intros Hc p pr H. apply tracker_inv_ok. eapply grun_tracker_inv; eassumption. Qed.

(* ---------- the premise follows from the ones used elsewhere ------------------------------------------------- *)

(* the `conforming` of the no-panic theorems (C08) contains it *)
Lemma conforming_marks_from tr : forall g used marked,
  conforming_from g used marked tr = true -> marks_script_from g tr = true.
Proof.
  induction tr as [|s tr IH]; intros g used marked Hc; simpl in *; [reflexivity|].
  apply andb_true_iff in Hc as [H1 H2]. rewrite (IH _ _ _ H2), andb_true_r.
  destruct s as [p op|p o|dst src i j]; simpl in *; try reflexivity.
  destruct (g !! p); [|reflexivity].
  destruct op as [e mk cs|e|e|e t v|e t on|c q|ak a v|c|k c|host target|m1 m2 m3| |t|ts|ord];
    simpl in *; try reflexivity.
  - apply andb_true_iff in H1 as [H1 _]. destruct mk; [exact H1|reflexivity].
  - apply andb_true_iff in H1 as [H1 _]. exact H1.
Qed.
Lemma conforming_marks n tr : conforming n tr -> marks_script_only n tr.
Proof. apply conforming_marks_from. Qed.

Corollary grun_tracker_ok_conforming n tr :
  conforming n tr -> forall p pr, grun (init_global n) tr !! p = Some pr -> tracker_ok pr.
Proof. intros H. apply grun_tracker_ok, conforming_marks, H. Qed.

(* the `hier_conforming` of the hierarchy theorems lacks exactly the condition on OMark *)
Definition marks_below (tr : list step) : Prop :=
  Forall (fun s => match s with StApp _ (OMark e) => e < SCRIPT_LIMIT | _ => True end) tr.

Lemma hier_conforming_marks_from tr : forall g,
  hier_conforming_from g tr = true -> marks_below tr -> marks_script_from g tr = true.
Proof.
  induction tr as [|s tr IH]; intros g Hc Hm; simpl in *; [reflexivity|].
  apply andb_true_iff in Hc as [H1 H2]. inversion Hm as [|? ? Hs Hm']; subst.
  rewrite (IH _ H2 Hm'), andb_true_r.
  destruct s as [p op|p o|dst src i j]; simpl in *; try reflexivity.
  destruct (g !! p); [|reflexivity].
  destruct op as [e mk cs|e|e|e t v|e t on|c q|ak a v|c|k c|host target|m1 m2 m3| |t|ts|ord];
    simpl in *; try reflexivity.
  - apply andb_true_iff in H1 as [H1 _]. destruct mk; [exact H1|reflexivity].
  - apply N.ltb_lt. exact Hs.
Qed.

Corollary grun_tracker_ok_hier n tr :
  hier_conforming n tr -> marks_below tr ->
  forall p pr, grun (init_global n) tr !! p = Some pr -> tracker_ok pr.
Proof. intros H1 H2. apply grun_tracker_ok. apply hier_conforming_marks_from; assumption. Qed.

(* ---------- the premise is necessary, in both of its parts ------------------------------------------------------ *)

(* OMark on a replica: tracker_ok_refuted above (the trace violates marks_script_only in that step only) *)
Example remark_not_marks_script :
  marks_script_only 2 session /\ ~ marks_script_only 2 remark.
Proof. split; [vm_compute; reflexivity|]. intros H. vm_compute in H. discriminate. Qed.

(* OSpawn with SyncMark at an id of the replica range (a modelling premise: Bevy's allocator never hands the
   same Entity to the application and to the receiver; the model takes the script id as an argument): the
   host registers E0 under its own id, then hands E0 out again as the replica of the client's entity 5 *)
Definition spawn_high : list step :=
  [StApp 0 (OSetup true 0); StApp 1 (OSetup false 0);
   StApp 0 (OSetOrder host_order); StApp 1 (OSetOrder cli_order);
   StFrame 0 (fh []); StFrame 0 (fh []);
   StFrame 1 (fc 0); StFrame 1 (fc 0); StFrame 1 (fc 0);
   StApp 0 (OSpawn E0 true []); StFrame 0 (fh []);
   StApp 1 (OSpawn 5 true []); StFrame 1 (fc 0);
   StFrame 0 (fh [1; 1])].      (* MReqInit, MSpawn 5 *)

Example spawn_high_refuted :
  (fun pr => (u2e_list pr, e2u_list pr, tracker_okb pr)) <$> (grun (init_global 2) spawn_high !! 0)
  = Some ([(5, E0); (E0, E0)], [(E0, 5)], false).
Proof. vm_compute. reflexivity. Qed.

(* ================================================================================================ *)
(* 6. Consequence for skinned meshes                                                                 *)
(* ================================================================================================ *)

Lemma omap_fmap_all {A B C} (f : B -> option C) (g : A -> B) (h : A -> C) (l : list A) :
  Forall (fun x => f (g x) = Some (h x)) l -> omap f (g <$> l) = h <$> l.
Proof.
  induction 1 as [|x l Hx _ IH]; [reflexivity|].
  change (omap f (g <$> x :: l)) with (match f (g x) with Some y => y :: omap f (g <$> l) | None => omap f (g <$> l) end).
  rewrite Hx, IH. reflexivity.
Qed.

(* A peer B that holds a skin it received (uuids us, all known to it) re-announces — in the snapshot
   for a later joiner, or when its detector fires — exactly the uuids it received, in the same order. *)
Theorem skin_reencode (B : peer_state) (us : list uuid) (ps : list N) :
  tracker_ok B -> Forall (fun u => is_Some (t_u2e B !! u)) us ->
  exists js, to_skinned_mesh B us ps = VSkin js ps /\ to_skinned_mapper B js ps = VMapper us ps.
Proof.
  intros Hok Hus.
  set (g := fun u : uuid => default (0 : ent) (t_u2e B !! u : option ent)).
  assert (Hg : Forall (fun u => t_u2e B !! u = Some (g u)) us).
  { eapply Forall_impl; [exact Hus|]. intros u [e He]. cbv beta in *. unfold g. rewrite He. reflexivity. }
  exists (g <$> us). unfold to_skinned_mesh, to_skinned_mapper. split.
  - f_equal. apply omap_all_some. exact Hg.
  - f_equal. rewrite <- (list_fmap_id us) at 2.
    apply (omap_fmap_all (fun e => t_e2u B !! e) g id).
    eapply Forall_impl; [exact Hg|]. intros u Hu. apply Hok. exact Hu.
Qed.

(* Three peers: A's joints are synchronised entities with uuids u; B knows them (replicas repB) and its
   tracker is consistent; C knows them (replicas repC).  What A announces arrives on B as B's replicas,
   what B re-announces are the SAME uuids, and they decode on C to C's replicas of A's joints, in A's
   order, repeats included. *)
Theorem skin_via_snapshot (A B C : peer_state) (joints : list ent) (ps : list N)
    (u : ent -> uuid) (repB repC : ent -> ent) :
  Forall (fun j => t_e2u A !! j = Some (u j)) joints ->
  tracker_ok B ->
  Forall (fun j => t_u2e B !! (u j) = Some (repB j)) joints ->
  Forall (fun j => t_u2e C !! (u j) = Some (repC j)) joints ->
  to_skinned_mapper A joints ps = VMapper (u <$> joints) ps /\
  to_skinned_mesh B (u <$> joints) ps = VSkin (repB <$> joints) ps /\
  to_skinned_mapper B (repB <$> joints) ps = VMapper (u <$> joints) ps /\
  to_skinned_mesh C (u <$> joints) ps = VSkin (repC <$> joints) ps.
Proof.
  intros HA Hok HB HC.
  destruct (skin_roundtrip A B joints ps u repB HA HB) as [H1 H2].
  destruct (skin_roundtrip A C joints ps u repC HA HC) as [_ H4].
  split; [exact H1|]. split; [exact H2|]. split; [|exact H4].
  unfold to_skinned_mapper. f_equal.
  apply (omap_fmap_all (fun e => t_e2u B !! e) repB u).
  eapply Forall_impl; [exact HB|]. intros j Hj. apply Hok. exact Hj.
Qed.

(* the form asked for: whatever B holds after decoding A's announcement, re-encoded by B and decoded
   by C, is C's replicas of A's joints *)
Corollary skin_via_snapshot' (A B C : peer_state) (joints : list ent) (ps : list N)
    (u : ent -> uuid) (repC : ent -> ent) :
  Forall (fun j => t_e2u A !! j = Some (u j)) joints ->
  tracker_ok B ->
  Forall (fun j => is_Some (t_u2e B !! (u j))) joints ->
  Forall (fun j => t_u2e C !! (u j) = Some (repC j)) joints ->
  exists us js us',
    to_skinned_mapper A joints ps = VMapper us ps /\
    to_skinned_mesh B us ps = VSkin js ps /\
    to_skinned_mapper B js ps = VMapper us' ps /\
    to_skinned_mesh C us' ps = VSkin (repC <$> joints) ps.
Proof.
  intros HA Hok HB HC.
  set (repB := fun j : ent => default (0 : ent) (t_u2e B !! (u j) : option ent)).
  assert (HB' : Forall (fun j => t_u2e B !! (u j) = Some (repB j)) joints).
  { eapply Forall_impl; [exact HB|]. intros j [e He]. cbv beta in *. unfold repB. rewrite He. reflexivity. }
  destruct (skin_via_snapshot A B C joints ps u repB repC HA Hok HB' HC) as (H1 & H2 & H3 & H4).
  exists (u <$> joints), (repB <$> joints), (u <$> joints). auto.
Qed.

(* without tracker_ok the re-announcement can name other uuids: the state refuted above *)
Example skin_reencode_needs_tracker_ok :
  (fun pr => (to_skinned_mesh pr [1; 2] [7], to_skinned_mapper pr [E0; E0 + 2] [7])) <$>
    (grun (init_global 2) remark !! 1)
  = Some (VSkin [E0; E0 + 2] [7], VMapper [E0; 2] [7]).
Proof. vm_compute. reflexivity. Qed.

(* ================================================================================================ *)
(* 7. Non-vacuity                                                                                    *)
(* ================================================================================================ *)

(* Hierarchy.whole: a two-peer session with four tracked entities on both peers; the premise holds of
   it (also in the `conforming` form), tracker_ok holds on both peers by the theorem and by evaluation *)
Example whole_marks_script : marks_script_only 2 whole.
Proof. vm_compute. reflexivity. Qed.

Example tracker_ok_nonvacuous :
  (fun pr => (u2e_list pr, e2u_list pr, tracker_okb pr)) <$> (grun (init_global 2) whole !! 0)
  = Some ([(1, 1); (3, 3); (2, 2); (4, 4)], [(1, 1); (3, 3); (2, 2); (4, 4)], true) /\
  (fun pr => (u2e_list pr, e2u_list pr, tracker_okb pr)) <$> (grun (init_global 2) whole !! 1)
  = Some ([(1, E0); (3, E0 + 1); (2, E0 + 2); (4, E0 + 3)], [(E0 + 3, 4); (E0 + 1, 3); (E0, 1); (E0 + 2, 2)], true).
Proof. vm_compute. split; reflexivity. Qed.

Example whole_tracker_ok_by_theorem p pr : grun (init_global 2) whole !! p = Some pr -> tracker_ok pr.
Proof. apply grun_tracker_ok. exact whole_marks_script. Qed.

(* the converse direction does fail in reachable states of conforming runs (stale entity_to_uuid entry
   after a client despawns a replica): tracker_ok is the direction that holds *)
Definition client_despawn : list step := session ++ [StApp 1 (ODespawn E0); StFrame 1 (fc 0)].
Example converse_fails :
  marks_script_only 2 client_despawn /\
  (fun pr => (u2e_list pr, e2u_list pr, tracker_okb pr)) <$> (grun (init_global 2) client_despawn !! 1)
  = Some ([(3, E0 + 1); (2, E0 + 2); (4, E0 + 3)], [(E0 + 3, 4); (E0 + 1, 3); (E0, 1); (E0 + 2, 2)], true).
Proof. split; vm_compute; reflexivity. Qed.

(* skin: B = the client of the session re-announces the uuids [1; 2; 1] it received *)
Example skin_reencode_example :
  (fun pr => (to_skinned_mesh pr [1; 2; 1] [7], to_skinned_mapper pr [E0; E0 + 2; E0] [7])) <$>
    (grun (init_global 2) session !! 1)
  = Some (VSkin [E0; E0 + 2; E0] [7], VMapper [1; 2; 1] [7]).
Proof. vm_compute. reflexivity. Qed.

Print Assumptions tracker_ok_refuted.
Print Assumptions frame_tracker_ok_literal_refuted.
Print Assumptions frame_tracker_ok_statement_refuted.
Print Assumptions grun_tracker_ok_statement_refuted.
Print Assumptions frame_tracker_inv.
Print Assumptions frame_tracker_ok.
Print Assumptions run_system_tracker_inv.
Print Assumptions app_step_tracker_inv.
Print Assumptions app_step_tracker_ok.
Print Assumptions tracker_inv_init.
Print Assumptions grun_tracker_inv.
Print Assumptions grun_tracker_ok.
Print Assumptions grun_tracker_ok_conforming.
Print Assumptions grun_tracker_ok_hier.
Print Assumptions skin_reencode.
Print Assumptions skin_via_snapshot.
Print Assumptions skin_via_snapshot'.
Print Assumptions whole_tracker_ok_by_theorem.
