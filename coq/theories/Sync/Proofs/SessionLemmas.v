(* Frame lemmas for the session-related fields of the bevy_sync model (used by Session.v, C15).
   Which function of Model.v touches which of: the two states and their NextState, n_setup,
   p_order, the `existed` bits, the tick counter / last-run table, the two transports,
   the InitialSyncFinished counter, the deferred-command queues. *)
From stdpp Require Import gmap list.
From Coq Require Import NArith Lia.
From RecordUpdate Require Import RecordSet.
From BS Require Import Sync.Types Sync.Model.
Import RecordSetNotations.
Local Open Scope N_scope.

(* ---------- projections ------------------------------------------------------------------ *)

(* fields no helper, handler or deferred command ever writes (only the five state systems,
   the run conditions, begin_run/end_run, state_transition and app_step do) *)
Definition c1 (pr : peer_state) :=
  (s_client pr, s_server pr, s_next_client pr, s_next_server pr, n_setup pr, p_order pr,
   p_cond_bit pr, p_tick pr, p_last_run pr).
Definition tv (pr : peer_state) := (n_cli_transport pr, n_srv_transport pr).

Definition g0 (pr : peer_state) := (c1 pr, tv pr, p_finished_events pr, p_cmdq pr).
Definition G1 {A B C D} (x : A * B * C * D) : A * B * C := let '(c, t, f, _) := x in (c, t, f).
Definition G2 {A B C} (x : A * B * C) : A * B := let '(c, t, _) := x in (c, t).
Definition G3 {A B C D} (x : A * B * C * D) : A * C * D := let '(c, _, f, q) := x in (c, f, q).
(* g1: everything but the command queues (helpers that push commands);
   g2: additionally not the finished counter (client_received);
   g3: everything but the transports (deferred commands) *)
Notation g1 pr := (G1 (g0 pr)).
Notation g2 pr := (G2 (G1 (g0 pr))).
Notation g3 pr := (G3 (g0 pr)).

Lemma foldl_pres {A B} (P : peer_state -> A) (f : peer_state -> B -> peer_state) (l : list B) :
  (forall a x, P (f a x) = P a) -> forall a, P (foldl f a l) = P a.
Proof.
  intros Hf. induction l as [|x l IH]; intros a; [reflexivity|].
  cbn [foldl]. rewrite IH. apply Hf.
Qed.

Create HintDb sess discriminated.


(* record updates of fields outside g0 *)
Lemma g0_set_p_id f x : g0 (set p_id f x) = g0 x.
Proof. reflexivity. Qed.
Lemma g0_set_p_sync_types f x : g0 (set p_sync_types f x) = g0 x.
Proof. reflexivity. Qed.
Lemma g0_set_p_registry f x : g0 (set p_registry f x) = g0 x.
Proof. reflexivity. Qed.
Lemma g0_set_p_ents f x : g0 (set p_ents f x) = g0 x.
Proof. reflexivity. Qed.
Lemma g0_set_p_reserved f x : g0 (set p_reserved f x) = g0 x.
Proof. reflexivity. Qed.
Lemma g0_set_p_next_ent f x : g0 (set p_next_ent f x) = g0 x.
Proof. reflexivity. Qed.
Lemma g0_set_t_u2e f x : g0 (set t_u2e f x) = g0 x.
Proof. reflexivity. Qed.
Lemma g0_set_t_e2u f x : g0 (set t_e2u f x) = g0 x.
Proof. reflexivity. Qed.
Lemma g0_set_t_queue f x : g0 (set t_queue f x) = g0 x.
Proof. reflexivity. Qed.
Lemma g0_set_t_ctok f x : g0 (set t_ctok f x) = g0 x.
Proof. reflexivity. Qed.
Lemma g0_set_t_htok f x : g0 (set t_htok f x) = g0 x.
Proof. reflexivity. Qed.
Lemma g0_set_t_tomb f x : g0 (set t_tomb f x) = g0 x.
Proof. reflexivity. Qed.
Lemma g0_set_t_ptok f x : g0 (set t_ptok f x) = g0 x.
Proof. reflexivity. Qed.
Lemma g0_set_t_mat f x : g0 (set t_mat f x) = g0 x.
Proof. reflexivity. Qed.
Lemma g0_set_t_mesh f x : g0 (set t_mesh f x) = g0 x.
Proof. reflexivity. Qed.
Lemma g0_set_t_audio f x : g0 (set t_audio f x) = g0 x.
Proof. reflexivity. Qed.
Lemma g0_set_t_promo f x : g0 (set t_promo f x) = g0 x.
Proof. reflexivity. Qed.
Lemma g0_set_t_closing f x : g0 (set t_closing f x) = g0 x.
Proof. reflexivity. Qed.
Lemma g0_set_a_store f x : g0 (set a_store f x) = g0 x.
Proof. reflexivity. Qed.
Lemma g0_set_a_events f x : g0 (set a_events f x) = g0 x.
Proof. reflexivity. Qed.
Lemma g0_set_a_ready f x : g0 (set a_ready f x) = g0 x.
Proof. reflexivity. Qed.
Lemma g0_set_h_cache f x : g0 (set h_cache f x) = g0 x.
Proof. reflexivity. Qed.
Lemma g0_set_d_pending f x : g0 (set d_pending f x) = g0 x.
Proof. reflexivity. Qed.
Lemma g0_set_n_promote_events f x : g0 (set n_promote_events f x) = g0 x.
Proof. reflexivity. Qed.
Lemma g0_set_p_app_cmds f x : g0 (set p_app_cmds f x) = g0 x.
Proof. reflexivity. Qed.
Lemma g0_set_n_clients f x : g0 (set n_clients f x) = g0 x.
Proof. reflexivity. Qed.
Lemma g0_set_n_srv_events f x : g0 (set n_srv_events f x) = g0 x.
Proof. reflexivity. Qed.
Lemma g0_set_n_kicked f x : g0 (set n_kicked f x) = g0 x.
Proof. reflexivity. Qed.
Lemma g0_set_n_status f x : g0 (set n_status f x) = g0 x.
Proof. reflexivity. Qed.
Lemma g0_set_n_sticky_disconnect f x : g0 (set n_sticky_disconnect f x) = g0 x.
Proof. reflexivity. Qed.
Lemma g0_set_n_inbox f x : g0 (set n_inbox f x) = g0 x.
Proof. reflexivity. Qed.
Lemma g0_set_p_out f x : g0 (set p_out f x) = g0 x.
Proof. reflexivity. Qed.
Lemma g0_set_p_panic f x : g0 (set p_panic f x) = g0 x.
Proof. reflexivity. Qed.
#[export] Hint Rewrite g0_set_p_id g0_set_p_sync_types g0_set_p_registry g0_set_p_ents g0_set_p_reserved g0_set_p_next_ent g0_set_t_u2e g0_set_t_e2u g0_set_t_queue g0_set_t_ctok g0_set_t_htok g0_set_t_tomb g0_set_t_ptok g0_set_t_mat g0_set_t_mesh g0_set_t_audio g0_set_t_promo g0_set_t_closing g0_set_a_store g0_set_a_events g0_set_a_ready g0_set_h_cache g0_set_d_pending g0_set_n_promote_events g0_set_p_app_cmds g0_set_n_clients g0_set_n_srv_events g0_set_n_kicked g0_set_n_status g0_set_n_sticky_disconnect g0_set_n_inbox g0_set_p_out g0_set_p_panic : sess.

Ltac proj_step :=
  first
    [ reflexivity
    | progress (autorewrite with sess)
    | progress (cbv zeta)
    | case_match ].
Ltac proj_solve := repeat proj_step.

(* ---------- G0: helpers that touch none of the projected fields ----------------------------- *)

Lemma g0_send pr d m : g0 (send pr d m) = g0 pr.
Proof. reflexivity. Qed.
#[export] Hint Rewrite g0_send : sess.

Lemma g0_send_all pr ds m : g0 (send_all pr ds m) = g0 pr.
Proof. unfold send_all. apply foldl_pres. intros. apply g0_send. Qed.
#[export] Hint Rewrite g0_send_all : sess.

Lemma g0_broadcast pr m : g0 (broadcast pr m) = g0 pr.
Proof. unfold broadcast. apply g0_send_all. Qed.
Lemma g0_relay_except pr c m : g0 (relay_except pr c m) = g0 pr.
Proof. unfold relay_except. apply g0_send_all. Qed.
Lemma g0_send_up pr m : g0 (send_up pr m) = g0 pr.
Proof. unfold send_up. proj_solve. Qed.
Lemma g0_set_panic pr s : g0 (set_panic pr s) = g0 pr.
Proof. unfold set_panic. proj_solve. Qed.
Lemma g0_upd_ent pr e f : g0 (upd_ent pr e f) = g0 pr.
Proof. unfold upd_ent. proj_solve. Qed.
#[export] Hint Rewrite g0_broadcast g0_relay_except g0_send_up g0_set_panic g0_upd_ent : sess.

Lemma g0_add_child pr p c : g0 (add_child pr p c) = g0 pr.
Proof. unfold add_child. proj_solve. Qed.
#[export] Hint Rewrite g0_add_child : sess.
Lemma g0_set_parent_twice pr c p : g0 (set_parent_twice pr c p) = g0 pr.
Proof. unfold set_parent_twice. proj_solve. Qed.
Lemma g0_signal pr u t v ch : g0 (signal_component_changed pr u t v ch) = g0 pr.
Proof. unfold signal_component_changed. proj_solve. Qed.
#[export] Hint Rewrite g0_set_parent_twice g0_signal : sess.

Lemma g0_apply_component_change pr e t v : g0 (apply_component_change pr e t v).1 = g0 pr.
Proof. unfold apply_component_change. proj_solve; cbn [fst]; proj_solve. Qed.

Lemma g0_serve_all pr c : g0 (serve_all pr c).1 = g0 pr.
Proof. unfold serve_all. proj_solve. Qed.

Lemma g0_build_full_sync pr : g0 (build_full_sync pr).1 = g0 pr.
Proof.
  unfold build_full_sync. cbv zeta.
  destruct (serve_all pr AImage) as [p1 l1] eqn:E1.
  destruct (serve_all p1 AMesh) as [p2 l2] eqn:E2.
  destruct (serve_all p2 AAudio) as [p3 l3] eqn:E3.
  cbn [fst].
  pose proof (g0_serve_all pr AImage) as H1. rewrite E1 in H1.
  pose proof (g0_serve_all p1 AMesh) as H2. rewrite E2 in H2.
  pose proof (g0_serve_all p2 AAudio) as H3. rewrite E3 in H3.
  cbn [fst] in *. congruence.
Qed.

Lemma g0_request_asset pr c a o : g0 (request_asset pr c a o) = g0 pr.
Proof. unfold request_asset. proj_solve. Qed.
Lemma g0_insert_asset pr k a v : g0 (insert_asset pr k a v) = g0 pr.
Proof. reflexivity. Qed.
#[export] Hint Rewrite g0_request_asset g0_insert_asset : sess.

Lemma g0_entity_removed_server pr : g0 (entity_removed_server pr) = g0 pr.
Proof.
  unfold entity_removed_server. cbv zeta.
  rewrite foldl_pres; [reflexivity|]. intros. proj_solve.
Qed.
Lemma g0_entity_removed_client pr : g0 (entity_removed_client pr) = g0 pr.
Proof.
  unfold entity_removed_client. cbv zeta.
  rewrite foldl_pres; [reflexivity|]. intros a [u e]. proj_solve.
Qed.
Lemma g0_entity_parented_server pr last : g0 (entity_parented_server pr last) = g0 pr.
Proof. unfold entity_parented_server. apply foldl_pres. intros a [e en]. proj_solve. Qed.
Lemma g0_entity_parented_client pr last : g0 (entity_parented_client pr last) = g0 pr.
Proof. unfold entity_parented_client. apply foldl_pres. intros a [e en]. proj_solve. Qed.
Lemma g0_sync_detect pr t last : g0 (sync_detect pr t last) = g0 pr.
Proof. unfold sync_detect. apply foldl_pres. intros a [e en]. proj_solve. Qed.
Lemma g0_react_components b pr : g0 (react_on_changed_components b pr) = g0 pr.
Proof.
  unfold react_on_changed_components. cbv zeta.
  rewrite foldl_pres; [reflexivity|]. intros a [[u t] v]. proj_solve.
Qed.
Lemma g0_react_assets b k pr : g0 (react_on_changed_assets b k pr) = g0 pr.
Proof.
  unfold react_on_changed_assets. cbv zeta.
  rewrite foldl_pres; [reflexivity|]. intros a [k' x]. proj_solve.
Qed.
Lemma g0_process_assets pr c done : g0 (process_assets pr c done) = g0 pr.
Proof. unfold process_assets. apply foldl_pres. intros a [[c' x] v]. proj_solve. Qed.
Lemma g0_promote_reader pr : g0 (promote_reader pr) = g0 pr.
Proof. unfold promote_reader. cbv zeta. rewrite foldl_pres; [reflexivity|]. intros. reflexivity. Qed.
#[export] Hint Rewrite g0_entity_removed_server g0_entity_removed_client g0_entity_parented_server
  g0_entity_parented_client g0_sync_detect g0_react_components g0_react_assets g0_process_assets
  g0_promote_reader : sess.

(* ---------- G1: helpers that push deferred commands under the key of the running system ----- *)

(* everything of g1, and the queues of all other systems *)
Definition Q {A B C} (k : N) (x : A * B * C * gmap N (list cmd)) := (G1 x, delete k (x.2)).
Definition Q2 {A B C D} (y : (A * B * C) * D) := (G2 y.1, y.2).
Notation g1k k pr := (Q k (g0 pr)).
Notation g2k k pr := (Q2 (Q k (g0 pr))).

Lemma g1k_push_cmd pr k c : g1k k (push_cmd pr k c) = g1k k pr.
Proof.
  unfold push_cmd, Q, g0. cbn [snd]. f_equal.
  cbn. apply delete_insert_delete.
Qed.
#[export] Hint Rewrite g1k_push_cmd : sess.

Lemma g1k_entity_created b pr k last : g1k k (entity_created b pr k last) = g1k k pr.
Proof. unfold entity_created. apply (foldl_pres (fun p => g1k k p)). intros a [e en]. proj_solve. Qed.

Lemma g1k_fix_system pr k last tr wo co : g1k k (fix_system pr k last tr wo co) = g1k k pr.
Proof. unfold fix_system. apply (foldl_pres (fun p => g1k k p)). intros a [e en]. proj_solve. Qed.

Lemma g1k_server_received pr k from m : g1k k (server_received pr k from m) = g1k k pr.
Proof. unfold server_received. destruct m; proj_solve. Qed.

Lemma g0_pop_inbox pr from m pr' : pop_inbox pr from = Some (m, pr') -> g0 pr' = g0 pr.
Proof.
  unfold pop_inbox. intros H. repeat case_match; try discriminate.
  injection H as _ <-. reflexivity.
Qed.

Lemma g1k_server_poll pr k froms : g1k k (server_poll pr k froms) = g1k k pr.
Proof.
  unfold server_poll. apply (foldl_pres (fun p => g1k k p)). intros a from.
  destruct (pop_inbox a from) as [[m a']|] eqn:E; [|reflexivity].
  rewrite g1k_server_received. rewrite (g0_pop_inbox _ _ _ _ E). reflexivity.
Qed.

Lemma g1k_client_connected pr k : g1k k (client_connected pr k) = g1k k pr.
Proof.
  unfold client_connected. cbv zeta.
  rewrite (foldl_pres (fun p => g1k k p)); [reflexivity|]. intros a [b c]. proj_solve.
Qed.

Lemma g1k_app_body pr k (mine : list (N * cmd)) :
  g1k k (foldl (fun pr x => push_cmd pr k x.2) pr mine) = g1k k pr.
Proof. apply (foldl_pres (fun p => g1k k p)). intros. apply g1k_push_cmd. Qed.
#[export] Hint Rewrite g1k_entity_created g1k_fix_system g1k_server_received g1k_server_poll
  g1k_client_connected g1k_app_body : sess.

(* ---------- G2: the client receiver (also counts FinishedInitialSync) ------------------------ *)

Lemma g2k_client_received pr k m : g2k k (client_received pr k m) = g2k k pr.
Proof. unfold client_received. destruct m; proj_solve. Qed.

Lemma g2k_client_poll pr k h n : g2k k (client_poll pr k h n) = g2k k pr.
Proof.
  unfold client_poll. apply (foldl_pres (fun p => g2k k p)). intros a [].
  destruct (pop_inbox a h) as [[m a']|] eqn:E; [|reflexivity].
  rewrite g2k_client_received. rewrite (g0_pop_inbox _ _ _ _ E). reflexivity.
Qed.

(* ---------- G3: deferred commands --------------------------------------------------------- *)

Lemma g3_apply_cmd pr c : g3 (apply_cmd pr c) = g3 pr.
Proof.
  destruct c; unfold apply_cmd; try (proj_solve; fail).
  - (* CApplyComp *)
    pose proof (g0_apply_component_change pr e t v) as H.
    destruct (apply_component_change pr e t v) as [p' ch]. cbn [fst] in H.
    destruct from; [destruct ch|]; proj_solve; rewrite H; reflexivity.
  - (* CSendInitialSync *)
    cbv zeta. pose proof (g0_react_components true pr) as H0.
    set (pr0 := react_on_changed_components true pr) in *.
    pose proof (g0_build_full_sync pr0) as H.
    destruct (build_full_sync pr0) as [p' ms]. cbn [fst] in H.
    rewrite g0_send. rewrite (foldl_pres g0); [rewrite H, H0; reflexivity|]. intros; apply g0_send.
  - (* CRequestInitialSync *)
    pose proof (g0_build_full_sync pr) as H.
    destruct (build_full_sync pr) as [p' ms]. cbn [fst] in H.
    rewrite g0_send_up, H. reflexivity.
  - (* CFixInsert *)
    cbv zeta. rewrite (foldl_pres g0); [reflexivity|]. intros; apply g0_upd_ent.
Qed.

Lemma g3_apply_cmds cs : forall pr, g3 (apply_cmds pr cs) = g3 pr.
Proof.
  induction cs as [|c cs IH]; intros pr; cbn [apply_cmds]; [reflexivity|].
  destruct (p_panic pr); [reflexivity|]. rewrite IH. apply g3_apply_cmd.
Qed.

(* ---------- flush ---------------------------------------------------------------------------- *)

Definition flush_step (pr : peer_state) (s : sysid) : peer_state :=
  let k := sys_key s in
  match p_cmdq pr !! k with
  | Some cs => apply_cmds (pr <| p_cmdq := delete k (p_cmdq pr) |>) cs
  | None => pr
  end.

Lemma flush_unfold pr : flush pr = foldl flush_step pr (p_order pr).
Proof. reflexivity. Qed.

Definition cf (pr : peer_state) := (c1 pr, p_finished_events pr).

Lemma g3_cf a b : g3 a = g3 b -> cf a = cf b /\ p_cmdq a = p_cmdq b.
Proof. intros H. split; [exact (f_equal fst H) | exact (f_equal snd H)]. Qed.

Lemma cf_flush_step pr s : cf (flush_step pr s) = cf pr.
Proof.
  unfold flush_step. cbv zeta. destruct (p_cmdq pr !! sys_key s) as [cs|]; [|reflexivity].
  destruct (g3_cf _ _ (g3_apply_cmds cs (pr <| p_cmdq := delete (sys_key s) (p_cmdq pr) |>))) as [H _].
  rewrite H. reflexivity.
Qed.

Lemma cf_flush_steps l : forall pr, cf (foldl flush_step pr l) = cf pr.
Proof. apply foldl_pres. intros. apply cf_flush_step. Qed.

Lemma cf_flush pr : cf (flush pr) = cf pr.
Proof. rewrite flush_unfold. apply cf_flush_steps. Qed.

Lemma cmdq_flush_step pr s :
  p_cmdq (flush_step pr s) = delete (sys_key s) (p_cmdq pr).
Proof.
  unfold flush_step. cbv zeta. destruct (p_cmdq pr !! sys_key s) as [cs|] eqn:E.
  - destruct (g3_cf _ _ (g3_apply_cmds cs (pr <| p_cmdq := delete (sys_key s) (p_cmdq pr) |>))) as [_ H].
    rewrite H. reflexivity.
  - symmetry. apply delete_notin. exact E.
Qed.

Lemma cmdq_flush_steps_none l k : forall pr,
  p_cmdq pr !! k = None -> p_cmdq (foldl flush_step pr l) !! k = None.
Proof.
  induction l as [|s l IH]; intros pr H; cbn [foldl]; [exact H|].
  apply IH. rewrite cmdq_flush_step.
  destruct (decide (sys_key s = k)) as [->|Hne];
    [apply lookup_delete | rewrite lookup_delete_ne by exact Hne; exact H].
Qed.

Lemma cmdq_flush_steps_in l s : forall pr,
  s ∈ l -> p_cmdq (foldl flush_step pr l) !! sys_key s = None.
Proof.
  induction l as [|s' l IH]; intros pr Hin; [inversion Hin|].
  cbn [foldl]. apply elem_of_cons in Hin as [->|Hin].
  - apply cmdq_flush_steps_none. rewrite cmdq_flush_step. apply lookup_delete.
  - apply IH. exact Hin.
Qed.

(* ---------- one system body ------------------------------------------------------------------ *)

(* what remains of a system run when its body is neutral: one tick, one last-run entry *)
Definition tickonly (pr : peer_state) (k : N) : peer_state :=
  end_run (pr <| p_tick := p_tick pr + 1 |>) k (p_tick pr).

Ltac rw_all := repeat match goal with E : _ = _ |- _ => try rewrite E; clear E end; reflexivity.

Lemma Q_end_run k t a b : g1k k a = g1k k b -> g1k k (end_run a k t) = g1k k (end_run b k t).
Proof.
  unfold Q, G1, g0, c1, tv, end_run. cbn. intros H.
  injection H; clear H; intros. rw_all.
Qed.

Lemma Q2_end_run k t a b : g2k k a = g2k k b -> g2k k (end_run a k t) = g2k k (end_run b k t).
Proof.
  unfold Q2, Q, G2, G1, g0, c1, tv, end_run. cbn. intros H.
  injection H; clear H; intros. rw_all.
Qed.

(* systems whose body writes none of the session fields *)
Definition neutral_sys (s : sysid) : bool :=
  match s with
  | SSrvConnected | SSrvDisconnected | SCliConnecting | SCliVerify | SCliDisconnected
  | SCliPoll | SSync => false
  | _ => true
  end.

Lemma run_body_neutral pr s o :
  neutral_sys s = true ->
  g1k (sys_key s) (run_body pr s o) = g1k (sys_key s) (tickonly pr (sys_key s)).
Proof.
  intros Hs. unfold run_body, tickonly, begin_run. cbv zeta. apply Q_end_run.
  destruct s; try discriminate Hs; proj_solve.
Qed.

Lemma run_body_clipoll pr o :
  g2k (sys_key SCliPoll) (run_body pr SCliPoll o) = g2k (sys_key SCliPoll) (tickonly pr (sys_key SCliPoll)).
Proof.
  unfold run_body, tickonly, begin_run. cbv zeta. apply Q2_end_run.
  destruct (n_cli_transport _) as [[h t]|]; [|reflexivity].
  apply g2k_client_poll.
Qed.
