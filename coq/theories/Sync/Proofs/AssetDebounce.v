(* The debounce of ASSETS applied from the network, at function level (the counter semantics of
   pushed_handles_from_network that repaired defect S7):
   process_assets / CApplyMaterial push ONE token (the uuid) onto t_htok and insert the asset;
   react_on_changed_assets, for every readable event of its kind whose asset exists, removes ONE token of
   the id if there is one and otherwise announces the CURRENT content of the store.

   Main results (all for ARBITRARY states, no reachability premise):
     react_counts                         n tokens, m readable events of (k, a): min(n,m) swallowed, m-n announced
     applied_download_is_not_announced    process_assets + end of frame + react: nothing about a is sent
     applied_material_is_not_announced    the same for the inline path CApplyMaterial
     local_publication_is_announced       OAddAsset without tokens: announced (once per event) with the current content
     leftover_token_swallows_a_local_publication   the hazard, with its witnesses (also across kinds)
   with a counterexample (vm_compute) for each side condition and non-vacuity examples. *)
From stdpp Require Import gmap list.
From Coq Require Import NArith Lia.
From RecordUpdate Require Import RecordSet.
From BS Require Import Sync.Types Sync.Model Sync.Observe.
Import RecordSetNotations.
Local Open Scope N_scope.

(* ================================================================================================ *)
(* 0. Counting tokens / events of one id, the messages about one id                                 *)
(* ================================================================================================ *)

Fixpoint ntok (a : N) (l : list N) : nat :=
  match l with [] => 0%nat | y :: l => if a =? y then S (ntok a l) else ntok a l end.

Fixpoint cnt_id (a : N) (l : list (akind * uuid)) : nat :=
  match l with [] => 0%nat | x :: l => if x.2 =? a then S (cnt_id a l) else cnt_id a l end.

Definition kindf (k : akind) : akind * uuid -> bool := fun x => kind_num x.1 =? kind_num k.

(* events of kind k and id a among the readable ones / among all unread ones (readable after last_schedule) *)
Definition readable (k : akind) (a : uuid) (pr : peer_state) : nat :=
  cnt_id a (filter (fun x => kindf k x) (a_ready pr)).
Definition pending (k : akind) (a : uuid) (pr : peer_state) : nat :=
  cnt_id a (filter (fun x => kindf k x) (a_ready pr ++ a_events pr)).

Definition about (a : uuid) (m : msg) : bool :=
  match m with MMaterial a' _ => a' =? a | MAsset _ a' _ => a' =? a | _ => false end.
Definition out_of (a : uuid) (o : list (peer * msg)) : list (peer * msg) :=
  filter (fun x : peer * msg => about a x.2) o.

(* whom an announcement goes to, what it says *)
Definition dests (server : bool) (pr : peer_state) : list peer :=
  if server then n_clients pr else match n_cli_transport pr with Some (h, _) => [h] | None => [] end.
Definition amsg (k : akind) (a : uuid) (v : N) (me : peer) : msg :=
  match k with KMaterial => MMaterial a v | KClass c => MAsset c a me end.
Definition ann (server : bool) (k : akind) (pr : peer_state) (a : uuid) (v : N) : list (peer * msg) :=
  (fun d => (d, amsg k a v (p_id pr))) <$> dests server pr.

(* what the react systems read and never write *)
Definition env (pr : peer_state) := (a_store pr, n_clients pr, n_cli_transport pr, p_id pr).

(* the HTTP cache after an announcement of (k, a) with content v *)
Definition cache_ins (k : akind) (a : uuid) (v : N) (h : gmap N N) : gmap N N :=
  match k with KMaterial => h | KClass _ => <[akey k a := v]> h end.
Definition cache_after (k : akind) (v : N) (old : option N) : option N :=
  match k with KMaterial => old | KClass _ => Some v end.

Lemma filter_bool_cons {A} (f : A -> bool) (x : A) (l : list A) :
  filter (fun y => f y) (x :: l) = if f x then x :: filter (fun y => f y) l else filter (fun y => f y) l.
Proof.
  rewrite filter_cons. cbv beta. destruct (decide _) as [H|H]; destruct (f x) eqn:E; try reflexivity.
  - destruct H.
  - exfalso. apply H. exact I.
Qed.

Lemma memN_ntok a l : memN a l = (0 <? ntok a l)%nat.
Proof.
  unfold memN. induction l as [|y l IH]; [reflexivity|]. cbn [existsb ntok].
  destruct (a =? y); [reflexivity|]. exact IH.
Qed.

Lemma ntok_remove1_same a l : ntok a (remove1N a l) = pred (ntok a l).
Proof.
  induction l as [|y l IH]; [reflexivity|]. cbn [remove1N ntok].
  destruct (a =? y) eqn:E; [reflexivity|]. cbn [ntok]. rewrite E. exact IH.
Qed.

Lemma ntok_remove1_other a a' l : a <> a' -> ntok a (remove1N a' l) = ntok a l.
Proof.
  intros Hne. induction l as [|y l IH]; [reflexivity|]. cbn [remove1N ntok].
  destruct (a' =? y) eqn:E.
  - apply N.eqb_eq in E. subst y. apply N.eqb_neq in Hne. rewrite Hne. reflexivity.
  - cbn [ntok]. rewrite IH. reflexivity.
Qed.

Lemma cnt_id_app a l l' : cnt_id a (l ++ l') = (cnt_id a l + cnt_id a l')%nat.
Proof.
  induction l as [|x l IH]; [reflexivity|]. cbn [app cnt_id]. destruct (x.2 =? a); rewrite IH; reflexivity.
Qed.

Lemma out_of_app a o o' : out_of a (o ++ o') = out_of a o ++ out_of a o'.
Proof. apply filter_app. Qed.

Lemma about_amsg_same k a v me : about a (amsg k a v me) = true.
Proof. destruct k; cbn; apply N.eqb_refl. Qed.

Lemma about_amsg_other k a a' v me : a' <> a -> about a (amsg k a' v me) = false.
Proof. intros H. destruct k; cbn; apply N.eqb_neq; exact H. Qed.

Lemma out_of_ann_same s k pr a v : out_of a (ann s k pr a v) = ann s k pr a v.
Proof.
  unfold ann, out_of. induction (dests s pr) as [|d l IH]; [reflexivity|]. cbn [fmap list_fmap].
  rewrite (filter_bool_cons (fun x : peer * msg => about a x.2)). cbn [snd]. rewrite about_amsg_same.
  f_equal. exact IH.
Qed.

Lemma out_of_ann_other s k pr a a' v : a' <> a -> out_of a (ann s k pr a' v) = [].
Proof.
  intros Hne. unfold ann, out_of. induction (dests s pr) as [|d l IH]; [reflexivity|]. cbn [fmap list_fmap].
  rewrite (filter_bool_cons (fun x : peer * msg => about a x.2)). cbn [snd].
  rewrite (about_amsg_other _ _ _ _ _ Hne). exact IH.
Qed.

Lemma ann_congr s k pr pr' a v :
  n_clients pr' = n_clients pr -> n_cli_transport pr' = n_cli_transport pr -> p_id pr' = p_id pr ->
  ann s k pr' a v = ann s k pr a v.
Proof. unfold ann, dests. intros H2 H3 H4. rewrite H2, H3, H4. reflexivity. Qed.

Lemma ann_env s k pr pr' a v : env pr' = env pr -> ann s k pr' a v = ann s k pr a v.
Proof. unfold env. intros H. inversion H as [[H1 H2 H3 H4]]. apply ann_congr; assumption. Qed.

Lemma akey_inj k a a' : akey k a = akey k a' -> a = a'.
Proof. unfold akey. lia. Qed.

(* ================================================================================================ *)
(* 1. One step of the react fold                                                                    *)
(* ================================================================================================ *)

Definition react_step (server : bool) (k : akind) (pr : peer_state) (a : uuid) : peer_state :=
  match a_store pr !! akey k a with
  | None => pr
  | Some v =>
      if memN a (t_htok pr) then pr <| t_htok := remove1N a (t_htok pr) |>
      else
        match k with
        | KMaterial => if server then broadcast pr (MMaterial a v) else send_up pr (MMaterial a v)
        | KClass c =>
            let pr := pr <| h_cache := <[akey k a := v]> (h_cache pr) |> in
            let m := MAsset c a (p_id pr) in
            if server then broadcast pr m else send_up pr m
        end
  end.

Definition react_fold (server : bool) (k : akind) (pr : peer_state) (l : list (akind * uuid)) : peer_state :=
  foldl (fun p (x : akind * uuid) => react_step server k p x.2) pr l.

Lemma foldl_ext' {A B} (f g : A -> B -> A) (l : list B) :
  (forall a x, f a x = g a x) -> forall a, foldl f a l = foldl g a l.
Proof. intros H. induction l as [|x l IH]; intros a; [reflexivity|]. cbn [foldl]. rewrite H. apply IH. Qed.

Lemma react_unfold s k pr :
  react_on_changed_assets s k pr =
  react_fold s k (pr <| a_ready := filter (fun x : akind * uuid => negb (kind_num x.1 =? kind_num k)) (a_ready pr) |>)
             (filter (fun x => kindf k x) (a_ready pr)).
Proof.
  unfold react_on_changed_assets, react_fold, kindf. cbv zeta. apply foldl_ext'.
  intros p [k' a']. reflexivity.
Qed.

Lemma send_all_spec ds m : forall pr,
  p_out (send_all pr ds m) = p_out pr ++ ((fun d => (d, m)) <$> ds) /\
  env (send_all pr ds m) = env pr /\ t_htok (send_all pr ds m) = t_htok pr /\ h_cache (send_all pr ds m) = h_cache pr.
Proof.
  unfold send_all. induction ds as [|d ds IH]; intros pr.
  - cbn [foldl fmap list_fmap]. rewrite app_nil_r. repeat split; reflexivity.
  - cbn [foldl]. destruct (IH (send pr d m)) as (H1 & H2 & H3 & H4). rewrite H1, H2, H3, H4.
    unfold send. cbn. rewrite <- app_assoc. repeat split; reflexivity.
Qed.

Lemma send_all_ready ds m : forall pr, a_ready (send_all pr ds m) = a_ready pr.
Proof. unfold send_all. induction ds as [|d ds IH]; intros pr; [reflexivity|]. cbn [foldl]. rewrite IH. reflexivity. Qed.
Lemma send_all_events ds m : forall pr, a_events (send_all pr ds m) = a_events pr.
Proof. unfold send_all. induction ds as [|d ds IH]; intros pr; [reflexivity|]. cbn [foldl]. rewrite IH. reflexivity. Qed.

Lemma emit_spec (s : bool) pr m :
  let p1 := if s then broadcast pr m else send_up pr m in
  p_out p1 = p_out pr ++ ((fun d => (d, m)) <$> dests s pr) /\
  env p1 = env pr /\ t_htok p1 = t_htok pr /\ h_cache p1 = h_cache pr.
Proof.
  cbv zeta. unfold dests. destruct s.
  - unfold broadcast. apply send_all_spec.
  - unfold send_up. destruct (n_cli_transport pr) as [[h t]|].
    + unfold send. cbn. repeat split; reflexivity.
    + cbn. rewrite app_nil_r. repeat split; reflexivity.
Qed.

Lemma react_step_spec s k pr a :
  let p1 := react_step s k pr a in
  env p1 = env pr /\
  match a_store pr !! akey k a with
  | None => t_htok p1 = t_htok pr /\ p_out p1 = p_out pr /\ h_cache p1 = h_cache pr
  | Some v =>
      if memN a (t_htok pr)
      then t_htok p1 = remove1N a (t_htok pr) /\ p_out p1 = p_out pr /\ h_cache p1 = h_cache pr
      else t_htok p1 = t_htok pr /\ p_out p1 = p_out pr ++ ann s k pr a v /\ h_cache p1 = cache_ins k a v (h_cache pr)
  end.
Proof.
  cbv zeta. unfold react_step.
  destruct (a_store pr !! akey k a) as [v|]; [|repeat split; reflexivity].
  destruct (memN a (t_htok pr)); [repeat split; reflexivity|].
  destruct k as [|c].
  - destruct (emit_spec s pr (MMaterial a v)) as (H1 & H2 & H3 & H4). cbv zeta in H1, H2, H3, H4.
    rewrite H1, H2, H3, H4. repeat split; reflexivity.
  - cbv zeta.
    destruct (emit_spec s (pr <| h_cache := <[akey (KClass c) a := v]> (h_cache pr) |>)
                (MAsset c a (p_id (pr <| h_cache := <[akey (KClass c) a := v]> (h_cache pr) |>))))
      as (H1 & H2 & H3 & H4). cbv zeta in H1, H2, H3, H4.
    rewrite H1, H2, H3, H4. repeat split; reflexivity.
Qed.

(* a step on another id leaves everything of id a alone *)
Lemma react_step_other s k pr a a' :
  a' <> a ->
  let p1 := react_step s k pr a' in
  env p1 = env pr /\ ntok a (t_htok p1) = ntok a (t_htok pr) /\
  out_of a (p_out p1) = out_of a (p_out pr) /\ h_cache p1 !! akey k a = h_cache pr !! akey k a.
Proof.
  intros Hne. cbv zeta. destruct (react_step_spec s k pr a') as [He Hm]. cbv zeta in He, Hm.
  split; [exact He|].
  destruct (a_store pr !! akey k a') as [v'|].
  - destruct (memN a' (t_htok pr)); destruct Hm as (H1 & H2 & H3); rewrite H1, H2, H3.
    + split; [apply ntok_remove1_other; congruence|]. split; reflexivity.
    + split; [reflexivity|]. split.
      * rewrite out_of_app, (out_of_ann_other _ _ _ _ _ _ Hne). apply app_nil_r.
      * unfold cache_ins. destruct k; [reflexivity|]. apply lookup_insert_ne.
        intros Hk. apply akey_inj in Hk. contradiction.
  - destruct Hm as (H1 & H2 & H3). rewrite H1, H2, H3. repeat split; reflexivity.
Qed.

(* ================================================================================================ *)
(* 2. The counter semantics of one react run                                                        *)
(* ================================================================================================ *)

Lemma concat_replicate_S {A} n (l : list A) : concat (replicate (S n) l) = l ++ concat (replicate n l).
Proof. reflexivity. Qed.

Lemma react_fold_counts s k a v : forall l pr,
  a_store pr !! akey k a = Some v ->
  let n := ntok a (t_htok pr) in
  let m := cnt_id a l in
  let pr' := react_fold s k pr l in
  env pr' = env pr /\
  ntok a (t_htok pr') = (n - m)%nat /\
  out_of a (p_out pr') = out_of a (p_out pr) ++ concat (replicate (m - n) (ann s k pr a v)) /\
  ((m <= n)%nat -> h_cache pr' !! akey k a = h_cache pr !! akey k a) /\
  ((n < m)%nat -> h_cache pr' !! akey k a = cache_after k v (h_cache pr !! akey k a)).
Proof.
  induction l as [|[kx a'] l IH]; intros pr Hst; cbv zeta.
  - cbn [react_fold foldl cnt_id]. rewrite Nat.sub_0_r. cbn [replicate concat]. rewrite app_nil_r.
    split; [reflexivity|]. split; [reflexivity|]. split; [reflexivity|]. split; [reflexivity|]. lia.
  - unfold react_fold. cbn [foldl snd cnt_id]. fold (react_fold s k (react_step s k pr a') l).
    set (p1 := react_step s k pr a').
    destruct (N.eqb_spec a' a) as [->|Hne].
    + destruct (react_step_spec s k pr a) as [He Hm]. cbv zeta in He, Hm. fold p1 in He, Hm.
      assert (Hst1 : a_store p1 !! akey k a = Some v).
      { unfold env in He. inversion He as [[E1 E2 E3 E4]]. rewrite E1. exact Hst. }
      destruct (IH p1 Hst1) as (I1 & I2 & I3 & I4 & I5). cbv zeta in I1, I2, I3, I4, I5.
      rewrite (ann_env s k pr p1 a v He) in I3.
      rewrite Hst in Hm. rewrite memN_ntok in Hm.
      destruct (0 <? ntok a (t_htok pr))%nat eqn:Hn.
      * apply Nat.ltb_lt in Hn. destruct Hm as (H1 & H2 & H3).
        rewrite H1, ntok_remove1_same in I2, I3, I4, I5. rewrite H2 in I3. rewrite H3 in I4, I5.
        split; [rewrite I1; exact He|]. split; [rewrite I2; lia|]. split.
        { rewrite I3. do 3 f_equal. lia. }
        split; [intros Hle; apply I4; lia|intros Hlt; apply I5; lia].
      * apply Nat.ltb_ge in Hn. assert (Hn0 : ntok a (t_htok pr) = 0%nat) by lia.
        destruct Hm as (H1 & H2 & H3). rewrite H1, Hn0 in I2, I3, I4, I5. rewrite H2 in I3. rewrite H3 in I4, I5.
        rewrite Hn0.
        assert (Hc : cache_ins k a v (h_cache pr) !! akey k a = cache_after k v (h_cache pr !! akey k a)).
        { unfold cache_ins, cache_after. destruct k; [reflexivity|]. apply lookup_insert. }
        split; [rewrite I1; exact He|]. split; [rewrite I2; lia|]. split.
        { rewrite I3, out_of_app, out_of_ann_same, Nat.sub_0_r, <- app_assoc. rewrite Nat.sub_0_r.
          rewrite concat_replicate_S. reflexivity. }
        split; [intros Hle; lia|]. intros _.
        destruct (cnt_id a l) as [|m'] eqn:Hm'.
        { rewrite I4 by lia. exact Hc. }
        { rewrite I5 by lia. rewrite Hc. unfold cache_after. destruct k; reflexivity. }
    + destruct (react_step_other s k pr a a' Hne) as (He & H1 & H2 & H3). cbv zeta in He, H1, H2, H3.
      fold p1 in He, H1, H2, H3.
      assert (Hst1 : a_store p1 !! akey k a = Some v).
      { unfold env in He. inversion He as [[E1 E2 E3 E4]]. rewrite E1. exact Hst. }
      destruct (IH p1 Hst1) as (I1 & I2 & I3 & I4 & I5). cbv zeta in I1, I2, I3, I4, I5.
      rewrite (ann_env s k pr p1 a v He) in I3. rewrite H1 in I2, I3, I4, I5. rewrite H2 in I3. rewrite H3 in I4, I5.
      split; [rewrite I1; exact He|]. split; [exact I2|]. split; [exact I3|]. split; assumption.
Qed.

(* THE COUNTER SEMANTICS.  One run of react_on_changed_assets of kind k on ANY state where the asset
   (k, a) exists with content v: with n tokens of a and m readable events of (k, a),
   min(n, m) events are swallowed (n - m tokens remain) and m - n are announced, each with the
   CURRENT content v, to dests; the HTTP cache entry of (k, a) changes iff something is announced. *)
Theorem react_counts s k a v pr :
  a_store pr !! akey k a = Some v ->
  let n := ntok a (t_htok pr) in
  let m := readable k a pr in
  let pr' := react_on_changed_assets s k pr in
  env pr' = env pr /\
  ntok a (t_htok pr') = (n - m)%nat /\
  out_of a (p_out pr') = out_of a (p_out pr) ++ concat (replicate (m - n) (ann s k pr a v)) /\
  ((m <= n)%nat -> h_cache pr' !! akey k a = h_cache pr !! akey k a) /\
  ((n < m)%nat -> h_cache pr' !! akey k a = cache_after k v (h_cache pr !! akey k a)).
Proof.
  intros Hst. cbv zeta. rewrite react_unfold. unfold readable.
  set (pr0 := pr <| a_ready := filter (fun x : akind * uuid => negb (kind_num x.1 =? kind_num k)) (a_ready pr) |>).
  assert (Hst0 : a_store pr0 !! akey k a = Some v) by exact Hst.
  pose proof (react_fold_counts s k a v (filter (fun x => kindf k x) (a_ready pr)) pr0 Hst0) as H.
  cbv zeta in H. exact H.
Qed.

(* the same after the end of the frame: last_schedule makes the queued events readable *)
Theorem react_counts_next_frame s k a v pr :
  a_store pr !! akey k a = Some v ->
  let n := ntok a (t_htok pr) in
  let m := pending k a pr in
  let pr' := react_on_changed_assets s k (last_schedule pr) in
  env pr' = env pr /\
  ntok a (t_htok pr') = (n - m)%nat /\
  out_of a (p_out pr') = out_of a (p_out pr) ++ concat (replicate (m - n) (ann s k pr a v)) /\
  ((m <= n)%nat -> h_cache pr' !! akey k a = h_cache pr !! akey k a) /\
  ((n < m)%nat -> h_cache pr' !! akey k a = cache_after k v (h_cache pr !! akey k a)).
Proof.
  intros Hst. exact (react_counts s k a v (last_schedule pr) Hst).
Qed.

(* ================================================================================================ *)
(* 3. What the three ways of inserting an asset leave behind                                        *)
(* ================================================================================================ *)

Lemma pending_insert k a pr0 pr1 :
  a_ready pr1 = a_ready pr0 -> a_events pr1 = a_events pr0 ++ [(k, a)] ->
  pending k a pr1 = S (pending k a pr0).
Proof.
  intros H1 H2. unfold pending. rewrite H1, H2, app_assoc, filter_app, cnt_id_app.
  assert (Hs : filter (fun x => kindf k x) [(k, a)] = [(k, a)]).
  { rewrite (filter_bool_cons (kindf k)). unfold kindf. cbn [fst]. rewrite N.eqb_refl. reflexivity. }
  rewrite Hs. cbn [cnt_id snd]. rewrite N.eqb_refl. lia.
Qed.

Lemma process_single pr c a v fl :
  let pr1 := process_assets pr c [(c, a, Some v, fl)] in
  t_htok pr1 = a :: t_htok pr /\ a_store pr1 = <[akey (KClass c) a := v]> (a_store pr) /\
  a_ready pr1 = a_ready pr /\ a_events pr1 = a_events pr ++ [(KClass c, a)] /\
  p_out pr1 = p_out pr /\ h_cache pr1 = h_cache pr /\
  n_clients pr1 = n_clients pr /\ n_cli_transport pr1 = n_cli_transport pr /\ p_id pr1 = p_id pr.
Proof.
  cbv zeta. unfold process_assets. cbn [foldl]. rewrite N.eqb_refl. unfold insert_asset.
  destruct fl; cbn; repeat split; reflexivity.
Qed.

Lemma apply_material_facts pr from a v :
  let pr1 := apply_cmd pr (CApplyMaterial from a v) in
  t_htok pr1 = a :: t_htok pr /\ a_store pr1 = <[akey KMaterial a := v]> (a_store pr) /\
  a_ready pr1 = a_ready pr /\ a_events pr1 = a_events pr ++ [(KMaterial, a)] /\
  h_cache pr1 = h_cache pr /\
  n_clients pr1 = n_clients pr /\ n_cli_transport pr1 = n_cli_transport pr /\ p_id pr1 = p_id pr.
Proof.
  cbv zeta. unfold apply_cmd, insert_asset. destruct from as [c|].
  - unfold relay_except.
    match goal with |- context [send_all ?p ?ds ?m] => destruct (send_all_spec ds m p) as (_ & He & H3 & H4); set (q := send_all p ds m) in * end.
    unfold env in He. inversion He as [[E1 E2 E3 E4]]. rewrite H3, H4, E1, E2, E3, E4.
    assert (Hr : a_ready q = a_ready pr /\ a_events q = a_events pr ++ [(KMaterial, a)]).
    { unfold q. rewrite send_all_ready, send_all_events. split; reflexivity. }
    destruct Hr as [R1 R2]. rewrite R1, R2. cbn. repeat split; reflexivity.
  - cbn. repeat split; reflexivity.
Qed.

Lemma add_asset_facts pr k a v :
  let pr1 := app_step pr (OAddAsset k a v) in
  t_htok pr1 = t_htok pr /\ a_store pr1 = <[akey k a := v]> (a_store pr) /\
  a_ready pr1 = a_ready pr /\ a_events pr1 = a_events pr ++ [(k, a)] /\
  p_out pr1 = p_out pr /\ h_cache pr1 = h_cache pr /\
  n_clients pr1 = n_clients pr /\ n_cli_transport pr1 = n_cli_transport pr /\ p_id pr1 = p_id pr.
Proof. cbv zeta. unfold app_step, insert_asset. cbn. repeat split; reflexivity. Qed.

(* the common shape: pr1 is pr with (k, a) := v inserted and its event queued; the frame ends; react runs *)
Lemma insert_then_react s k a v pr pr1 :
  a_store pr1 !! akey k a = Some v ->
  a_ready pr1 = a_ready pr -> a_events pr1 = a_events pr ++ [(k, a)] ->
  n_clients pr1 = n_clients pr -> n_cli_transport pr1 = n_cli_transport pr -> p_id pr1 = p_id pr ->
  let n1 := ntok a (t_htok pr1) in
  let m := pending k a pr in
  let pr3 := react_on_changed_assets s k (last_schedule pr1) in
  ntok a (t_htok pr3) = (n1 - S m)%nat /\
  out_of a (p_out pr3) = out_of a (p_out pr1) ++ concat (replicate (S m - n1) (ann s k pr a v)) /\
  ((S m <= n1)%nat -> h_cache pr3 !! akey k a = h_cache pr1 !! akey k a) /\
  ((n1 < S m)%nat -> h_cache pr3 !! akey k a = cache_after k v (h_cache pr1 !! akey k a)).
Proof.
  intros Hst Hr He Hc Ht Hi. cbv zeta.
  destruct (react_counts_next_frame s k a v pr1 Hst) as (_ & I2 & I3 & I4 & I5). cbv zeta in I2, I3, I4, I5.
  rewrite (pending_insert k a pr pr1 Hr He) in I2, I3, I4, I5.
  rewrite (ann_congr s k pr pr1 a v Hc Ht Hi) in I3.
  split; [exact I2|]. split; [exact I3|]. split; assumption.
Qed.

Lemma ntok_cons_same a l : ntok a (a :: l) = S (ntok a l).
Proof. cbn [ntok]. rewrite N.eqb_refl. reflexivity. Qed.

(* ================================================================================================ *)
(* 4. The theorems                                                                                  *)
(* ================================================================================================ *)

(* (1) APPLIED DOWNLOAD, counting form.  On ANY state pr with n tokens of a and m unread events of
   (KClass c, a): the download pushes one token and queues one event; after the end of the frame the
   react run of the class leaves n - m tokens and announces max(0, m - n) times. *)
Theorem applied_download_counts s c a v fl pr :
  let k := KClass c in
  let pr1 := process_assets pr c [(c, a, Some v, fl)] in
  let pr3 := react_on_changed_assets s k (last_schedule pr1) in
  let n := ntok a (t_htok pr) in
  let m := pending k a pr in
  ntok a (t_htok pr1) = S n /\
  ntok a (t_htok pr3) = (n - m)%nat /\
  out_of a (p_out pr3) = out_of a (p_out pr1) ++ concat (replicate (m - n) (ann s k pr a v)) /\
  ((m <= n)%nat -> h_cache pr3 !! akey k a = h_cache pr !! akey k a) /\
  ((n < m)%nat -> h_cache pr3 !! akey k a = Some v).
Proof.
  cbv zeta. destruct (process_single pr c a v fl) as (H1 & H2 & H3 & H4 & H5 & H6 & H7 & H8 & H9).
  cbv zeta in H1, H2, H3, H4, H5, H6, H7, H8, H9.
  assert (Hst : a_store (process_assets pr c [(c, a, Some v, fl)]) !! akey (KClass c) a = Some v)
    by (rewrite H2; apply lookup_insert).
  destruct (insert_then_react s (KClass c) a v pr _ Hst H3 H4 H7 H8 H9) as (I2 & I3 & I4 & I5).
  cbv zeta in I2, I3, I4, I5. rewrite H1, ntok_cons_same in I2, I3, I4, I5. rewrite H6 in I4, I5.
  split; [rewrite H1; apply ntok_cons_same|]. split; [rewrite I2; lia|]. split; [exact I3|].
  split; [intros Hle; apply I4; lia|]. intros Hlt. rewrite I5 by lia. reflexivity.
Qed.

(* (1) NOT ANNOUNCED.  Side condition: at most as many unread events of (KClass c, a) as tokens of a
   before the download (in particular: none pending) — refuted without: pending_event_makes_download_announced.
   Nothing about a is sent by the react run, the HTTP cache entry of a is untouched, and if no event was
   pending exactly the one token of the download is consumed. *)
Theorem applied_download_is_not_announced s c a v fl pr :
  let k := KClass c in
  let pr1 := process_assets pr c [(c, a, Some v, fl)] in
  let pr3 := react_on_changed_assets s k (last_schedule pr1) in
  (pending k a pr <= ntok a (t_htok pr))%nat ->
  out_of a (p_out pr3) = out_of a (p_out pr1) /\ out_of a (p_out pr3) = out_of a (p_out pr) /\
  h_cache pr3 !! akey k a = h_cache pr !! akey k a /\
  ntok a (t_htok pr1) = S (ntok a (t_htok pr)) /\
  ntok a (t_htok pr3) = (ntok a (t_htok pr) - pending k a pr)%nat /\
  (pending k a pr = 0%nat -> ntok a (t_htok pr3) = ntok a (t_htok pr)).
Proof.
  cbv zeta. intros Hle. destruct (applied_download_counts s c a v fl pr) as (H1 & H2 & H3 & H4 & _).
  cbv zeta in H1, H2, H3, H4.
  destruct (process_single pr c a v fl) as (_ & _ & _ & _ & Ho & _). cbv zeta in Ho.
  replace (pending (KClass c) a pr - ntok a (t_htok pr))%nat with 0%nat in H3 by lia.
  cbn [replicate concat] in H3. rewrite app_nil_r in H3.
  split; [exact H3|]. split; [rewrite H3, Ho; reflexivity|]. split; [exact (H4 Hle)|]. split; [exact H1|].
  split; [exact H2|]. intros H0. rewrite H2, H0. lia.
Qed.

(* (2) APPLIED MATERIAL (inline path), counting form and the corollary.  The relay of the command itself
   (server role, from = Some c) is a message about a: the statement compares with the state after the command. *)
Theorem applied_material_counts s from a v pr :
  let k := KMaterial in
  let pr1 := apply_cmd pr (CApplyMaterial from a v) in
  let pr3 := react_on_changed_assets s k (last_schedule pr1) in
  let n := ntok a (t_htok pr) in
  let m := pending k a pr in
  ntok a (t_htok pr1) = S n /\
  ntok a (t_htok pr3) = (n - m)%nat /\
  out_of a (p_out pr3) = out_of a (p_out pr1) ++ concat (replicate (m - n) (ann s k pr a v)) /\
  h_cache pr3 !! akey k a = h_cache pr !! akey k a.
Proof.
  cbv zeta. destruct (apply_material_facts pr from a v) as (H1 & H2 & H3 & H4 & H6 & H7 & H8 & H9).
  cbv zeta in H1, H2, H3, H4, H6, H7, H8, H9.
  assert (Hst : a_store (apply_cmd pr (CApplyMaterial from a v)) !! akey KMaterial a = Some v)
    by (rewrite H2; apply lookup_insert).
  destruct (insert_then_react s KMaterial a v pr _ Hst H3 H4 H7 H8 H9) as (I2 & I3 & I4 & I5).
  cbv zeta in I2, I3, I4, I5. rewrite H1, ntok_cons_same in I2, I3, I4, I5. rewrite H6 in I4, I5.
  split; [rewrite H1; apply ntok_cons_same|]. split; [rewrite I2; lia|]. split; [exact I3|].
  destruct (le_lt_dec (S (pending KMaterial a pr)) (S (ntok a (t_htok pr)))) as [Hle|Hlt].
  - exact (I4 Hle).
  - rewrite (I5 Hlt). reflexivity.
Qed.

Theorem applied_material_is_not_announced s from a v pr :
  let k := KMaterial in
  let pr1 := apply_cmd pr (CApplyMaterial from a v) in
  let pr3 := react_on_changed_assets s k (last_schedule pr1) in
  (pending k a pr <= ntok a (t_htok pr))%nat ->
  out_of a (p_out pr3) = out_of a (p_out pr1) /\
  h_cache pr3 !! akey k a = h_cache pr !! akey k a /\
  ntok a (t_htok pr1) = S (ntok a (t_htok pr)) /\
  ntok a (t_htok pr3) = (ntok a (t_htok pr) - pending k a pr)%nat /\
  (pending k a pr = 0%nat -> ntok a (t_htok pr3) = ntok a (t_htok pr)).
Proof.
  cbv zeta. intros Hle. destruct (applied_material_counts s from a v pr) as (H1 & H2 & H3 & H4).
  cbv zeta in H1, H2, H3, H4.
  replace (pending KMaterial a pr - ntok a (t_htok pr))%nat with 0%nat in H3 by lia.
  cbn [replicate concat] in H3. rewrite app_nil_r in H3.
  split; [exact H3|]. split; [exact H4|]. split; [exact H1|]. split; [exact H2|].
  intros H0. rewrite H2, H0. lia.
Qed.

(* (3) LOCAL PUBLICATION, counting form: OAddAsset pushes no token. *)
Theorem local_publication_counts s k a v pr :
  let pr1 := app_step pr (OAddAsset k a v) in
  let pr3 := react_on_changed_assets s k (last_schedule pr1) in
  let n := ntok a (t_htok pr) in
  let m := pending k a pr in
  ntok a (t_htok pr3) = (n - S m)%nat /\
  out_of a (p_out pr3) = out_of a (p_out pr) ++ concat (replicate (S m - n) (ann s k pr a v)) /\
  ((S m <= n)%nat -> h_cache pr3 !! akey k a = h_cache pr !! akey k a) /\
  ((n < S m)%nat -> h_cache pr3 !! akey k a = cache_after k v (h_cache pr !! akey k a)).
Proof.
  cbv zeta. destruct (add_asset_facts pr k a v) as (H1 & H2 & H3 & H4 & H5 & H6 & H7 & H8 & H9).
  cbv zeta in H1, H2, H3, H4, H5, H6, H7, H8, H9.
  assert (Hst : a_store (app_step pr (OAddAsset k a v)) !! akey k a = Some v)
    by (rewrite H2; apply lookup_insert).
  destruct (insert_then_react s k a v pr _ Hst H3 H4 H7 H8 H9) as (I2 & I3 & I4 & I5).
  cbv zeta in I2, I3, I4, I5. rewrite H1 in I2, I3, I4, I5. rewrite H5 in I3. rewrite H6 in I4, I5.
  split; [exact I2|]. split; [exact I3|]. split; assumption.
Qed.

(* (3) ANNOUNCED EXACTLY ONCE.  Side conditions: no token of a (refuted without:
   leftover_token_swallows_a_local_publication), no other unread event of (k, a) (otherwise announced
   once more per event: two_local_overwrites_announce_latest_twice).  The content announced is the content
   of the store when the react system runs (see react_counts: v is read from a_store at that time). *)
Theorem local_publication_is_announced s k a v pr :
  let pr1 := app_step pr (OAddAsset k a v) in
  let pr3 := react_on_changed_assets s k (last_schedule pr1) in
  ntok a (t_htok pr) = 0%nat -> pending k a pr = 0%nat ->
  out_of a (p_out pr3) = out_of a (p_out pr) ++ ann s k pr a v /\
  h_cache pr3 !! akey k a = cache_after k v (h_cache pr !! akey k a) /\
  ntok a (t_htok pr3) = 0%nat.
Proof.
  cbv zeta. intros Hn Hm. destruct (local_publication_counts s k a v pr) as (H1 & H2 & _ & H4).
  cbv zeta in H1, H2, H4. rewrite Hn, Hm in H1, H2, H4.
  cbn [Nat.sub replicate concat] in H2. rewrite app_nil_r in H2.
  split; [exact H2|]. split; [apply H4; lia|exact H1].
Qed.

(* (4) THE HAZARD.  More tokens of a than unread events of (k, a) — a leftover token: the next local
   publication of (k, a) is swallowed: nothing about a is sent, the endpoint does not serve it, one
   token is consumed.  Tokens are keyed by the uuid alone: k is ANY kind (see
   mesh_token_swallows_material_publication). *)
Theorem leftover_token_swallows_a_local_publication s k a v pr :
  let pr1 := app_step pr (OAddAsset k a v) in
  let pr3 := react_on_changed_assets s k (last_schedule pr1) in
  (pending k a pr < ntok a (t_htok pr))%nat ->
  out_of a (p_out pr3) = out_of a (p_out pr) /\
  h_cache pr3 !! akey k a = h_cache pr !! akey k a /\
  ntok a (t_htok pr3) = (ntok a (t_htok pr) - S (pending k a pr))%nat.
Proof.
  cbv zeta. intros Hlt. destruct (local_publication_counts s k a v pr) as (H1 & H2 & H3 & _).
  cbv zeta in H1, H2, H3.
  replace (S (pending k a pr) - ntok a (t_htok pr))%nat with 0%nat in H2 by lia.
  cbn [replicate concat] in H2. rewrite app_nil_r in H2.
  split; [exact H2|]. split; [apply H3; lia|exact H1].
Qed.

Print Assumptions react_counts.
Print Assumptions react_counts_next_frame.
Print Assumptions applied_download_counts.
Print Assumptions applied_download_is_not_announced.
Print Assumptions applied_material_counts.
Print Assumptions applied_material_is_not_announced.
Print Assumptions local_publication_counts.
Print Assumptions local_publication_is_announced.
Print Assumptions leftover_token_swallows_a_local_publication.

(* ================================================================================================ *)
(* 5. Non-vacuity, and a counterexample for every side condition                                    *)
(* ================================================================================================ *)

(* a server (peer 1) with clients 2 and 3; a client (peer 2) of host 1; nothing else *)
Definition srv : peer_state := init_peer 1 [] [] [] <| n_clients := [2; 3] |>.
Definition cli : peer_state := init_peer 2 [] [] [] <| n_cli_transport := Some (1, 0) |>.
Definition mesh := KClass AMesh.

(* (1) a mesh download of id 7 is applied, the frame ends, react_on_changed_meshes runs:
   nothing is sent, the token is consumed, the endpoint serves nothing *)
Example applied_download_is_not_announced_nonvacuous :
  let pr1 := process_assets srv AMesh [(AMesh, 7, Some 20, true)] in
  let pr3 := react_on_changed_assets true mesh (last_schedule pr1) in
  (pending mesh 7%N srv <= ntok 7%N (t_htok srv))%nat /\
  t_htok pr1 = [7] /\ a_events pr1 = [(mesh, 7)] /\ a_store pr1 !! akey mesh 7 = Some 20 /\
  p_out pr3 = [] /\ t_htok pr3 = [] /\ h_cache pr3 !! akey mesh 7 = None /\ a_ready pr3 = [].
Proof. vm_compute. repeat split; reflexivity || lia. Qed.

(* side condition of (1): an unread event of (mesh, 7) and no token before the download (a local
   publication of the same id earlier in the frame): the react run announces — the downloaded content *)
Example pending_event_makes_download_announced :
  let pr0 := app_step srv (OAddAsset mesh 7 19) in
  let pr1 := process_assets pr0 AMesh [(AMesh, 7, Some 20, true)] in
  let pr3 := react_on_changed_assets true mesh (last_schedule pr1) in
  pending mesh 7 pr0 = 1%nat /\ ntok 7 (t_htok pr0) = 0%nat /\
  p_out pr3 = [(2, MAsset AMesh 7 1); (3, MAsset AMesh 7 1)] /\
  h_cache pr3 !! akey mesh 7 = Some 20 /\ t_htok pr3 = [].
Proof. vm_compute. repeat split; reflexivity. Qed.

(* (2) inline material: on a client nothing goes up; on the server the only messages about the id are
   the relay of the command itself (to the clients other than the sender) *)
Example applied_material_is_not_announced_nonvacuous :
  let pr1 := apply_cmd cli (CApplyMaterial None 7 20) in
  let pr3 := react_on_changed_assets false KMaterial (last_schedule pr1) in
  let qr1 := apply_cmd srv (CApplyMaterial (Some 2) 7 20) in
  let qr3 := react_on_changed_assets true KMaterial (last_schedule qr1) in
  t_htok pr1 = [7] /\ a_store pr1 !! akey KMaterial 7 = Some 20 /\ p_out pr3 = [] /\ t_htok pr3 = [] /\
  p_out qr1 = [(3, MMaterial 7 20)] /\ p_out qr3 = [(3, MMaterial 7 20)] /\ t_htok qr3 = [].
Proof. vm_compute. repeat split; reflexivity. Qed.

(* (3) a local publication without tokens is announced once to every client / to the host, and served *)
Example local_publication_is_announced_nonvacuous :
  let pr3 := react_on_changed_assets true mesh (last_schedule (app_step srv (OAddAsset mesh 7 20))) in
  let qr3 := react_on_changed_assets false KMaterial (last_schedule (app_step cli (OAddAsset KMaterial 7 20))) in
  ntok 7 (t_htok srv) = 0%nat /\ pending mesh 7 srv = 0%nat /\
  p_out pr3 = [(2, MAsset AMesh 7 1); (3, MAsset AMesh 7 1)] /\ h_cache pr3 !! akey mesh 7 = Some 20 /\
  p_out qr3 = [(1, MMaterial 7 20)].
Proof. vm_compute. repeat split; reflexivity. Qed.

(* (3) CURRENT content, once per event: two local overwrites before one react run announce the LATEST
   content TWICE (the first content is never announced) *)
Example two_local_overwrites_announce_latest_twice :
  let pr1 := app_step (app_step cli (OAddAsset KMaterial 7 20)) (OAddAsset KMaterial 7 21) in
  let pr3 := react_on_changed_assets false KMaterial (last_schedule pr1) in
  p_out pr3 = [(1, MMaterial 7 21); (1, MMaterial 7 21)].
Proof. vm_compute. reflexivity. Qed.

(* (4) the hazard: a token of 7 without an event — the local publication is swallowed *)
Example leftover_token_swallows_nonvacuous :
  let pr0 := srv <| t_htok := [7] |> in
  let pr3 := react_on_changed_assets true mesh (last_schedule (app_step pr0 (OAddAsset mesh 7 20))) in
  (pending mesh 7%N pr0 < ntok 7%N (t_htok pr0))%nat /\
  p_out pr3 = [] /\ h_cache pr3 !! akey mesh 7 = None /\ t_htok pr3 = [] /\ a_store pr3 !! akey mesh 7 = Some 20.
Proof. vm_compute. repeat split; reflexivity || lia. Qed.

(* how a leftover token arises in the model, and that tokens are keyed by the uuid only: a MESH download
   of id 7 is applied on a peer whose react_on_changed_meshes does not run (class not in the schedule);
   the frame ends; the application publishes a MATERIAL under the same id 7: react_on_changed_materials
   swallows it — the material is never sent *)
Example mesh_token_swallows_material_publication :
  let pr1 := last_schedule (process_assets cli AMesh [(AMesh, 7, Some 20, true)]) in
  let pr2 := last_schedule (app_step pr1 (OAddAsset KMaterial 7 30)) in
  let pr3 := react_on_changed_assets false KMaterial pr2 in
  t_htok pr1 = [7] /\ a_store pr2 !! akey KMaterial 7 = Some 30 /\
  p_out pr3 = [] /\ t_htok pr3 = [].
Proof. vm_compute. repeat split; reflexivity. Qed.

(* the same with both react systems running, in the frame order materials-before-meshes: the material
   event takes the token of the mesh download, the material publication is swallowed AND the applied
   download is echoed (announced with this peer as owner); in the order meshes-before-materials both
   behave as intended.  (Needs the same uuid under two kinds: uuids are drawn at random in the crate.) *)
Example token_theft_across_kinds_depends_on_order :
  let pr1 := process_assets srv AMesh [(AMesh, 7, Some 20, true)] in
  let pr2 := last_schedule (app_step pr1 (OAddAsset KMaterial 7 30)) in
  p_out (react_on_changed_assets true mesh (react_on_changed_assets true KMaterial pr2))
    = [(2, MAsset AMesh 7 1); (3, MAsset AMesh 7 1)] /\
  p_out (react_on_changed_assets true KMaterial (react_on_changed_assets true mesh pr2))
    = [(2, MMaterial 7 30); (3, MMaterial 7 30)].
Proof. vm_compute. split; reflexivity. Qed.

(* a download without content (None) pushes no token and inserts nothing: no leftover from that path *)
Example failed_download_pushes_no_token :
  let pr1 := process_assets srv AMesh [(AMesh, 7, None, true)] in
  t_htok pr1 = [] /\ a_events pr1 = [] /\ a_store pr1 !! akey mesh 7 = None.
Proof. vm_compute. repeat split; reflexivity. Qed.

(* the counter (repair of S7): two downloads of the same id applied before one react run are both swallowed *)
Example two_downloads_two_tokens :
  let pr1 := process_assets srv AMesh [(AMesh, 7, Some 20, false); (AMesh, 7, Some 21, true)] in
  let pr3 := react_on_changed_assets true mesh (last_schedule pr1) in
  t_htok pr1 = [7; 7] /\ p_out pr3 = [] /\ t_htok pr3 = [].
Proof. vm_compute. repeat split; reflexivity. Qed.
