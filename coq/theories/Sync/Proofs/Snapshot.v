(* Completeness of the joining snapshot (build_full_sync), the converse of OptIn.snapshot_opted.

   For EVERY peer state pr (no reachability hypothesis), the list of messages built for a joining
   client contains
     1. MSpawn u            for every live entity that carries SyncEntity and is tracked as u;
     2. MComp u t v         for every component of such an entity whose type is registered for sync
                            and not excluded on that entity (SkinnedMesh in its wire form);
     3. MParented u pu      for every such entity with a Parent, both ends tracked;
     4. MAsset c a (p_id)   for every stored asset of an enabled class no download of whose id is
                            under way (d_pending), and the returned state serves it (h_cache);
        MAsset c a o        for every id of an enabled class with a download under way — whether or not
                            a copy is stored — where o is the owner named by the LATEST pending request
                            of the id (since the repair of S26, 8b1d5d0); such an id is announced once,
                            not also as this peer's own, and is not (re-)served by the call;
                            conversely every MAsset of the snapshot is one of these two;
        MMaterial a v       for every stored material when materials are enabled (the default
                            material id 0 is not special here: snapshot_material_msgs lists every
                            entry of kind KMaterial);
     5. order               all MSpawn first: the list is spawns ++ rest with only spawns in the
                            first part and no spawn in the second.
   As in snapshot_opted the uuid is the one of entity_to_uuid (t_e2u), not the one inside the
   SyncEntity component. *)
From stdpp Require Import gmap list.
From Coq Require Import NArith Lia.
From RecordUpdate Require Import RecordSet.
From BS Require Import Sync.Types Sync.Model Sync.Proofs.OptInLemmas.
Import RecordSetNotations.
Local Open Scope N_scope.

(* ---------- the shape of the result ---------------------------------------------------------------- *)

Definition spawn_part (pr : peer_state) : list msg :=
  concat ((fun '(e, en) => firstn 1 (snapshot_entity_msgs pr e en)) <$> ents_list pr).
Definition value_part (pr : peer_state) : list msg :=
  concat ((fun '(e, en) => skipn 1 (snapshot_entity_msgs pr e en)) <$> ents_list pr).
Definition parent_part (pr : peer_state) : list msg :=
  concat ((fun '(e, en) => snapshot_parent_msgs pr e en) <$> ents_list pr).

Lemma build_full_sync_snd pr :
  (build_full_sync pr).2 =
    (spawn_part pr ++ value_part pr) ++ parent_part pr ++
    (serve_all pr AImage).2 ++ snapshot_material_msgs (serve_all pr AImage).1 ++
    (serve_all (serve_all pr AImage).1 AMesh).2 ++
    (serve_all (serve_all (serve_all pr AImage).1 AMesh).1 AAudio).2.
Proof.
  unfold build_full_sync, spawn_part, value_part, parent_part. cbv zeta.
  destruct (serve_all pr AImage) as [pr1 mi]. cbn [fst snd].
  destruct (serve_all pr1 AMesh) as [pr2 me]. cbn [fst snd].
  destruct (serve_all pr2 AAudio) as [pr3 ma]. reflexivity.
Qed.

Lemma build_full_sync_fst pr :
  (build_full_sync pr).1 = (serve_all (serve_all (serve_all pr AImage).1 AMesh).1 AAudio).1.
Proof.
  unfold build_full_sync. cbv zeta.
  destruct (serve_all pr AImage) as [pr1 mi]. cbn [fst snd].
  destruct (serve_all pr1 AMesh) as [pr2 me]. cbn [fst snd].
  destruct (serve_all pr2 AAudio) as [pr3 ma]. reflexivity.
Qed.

Lemma In_concat_fmap_intro {A B} (f : A -> list B) (l : list A) (x : A) (y : B) :
  In x l -> In y (f x) -> In y (concat (f <$> l)).
Proof.
  intros Hx Hy. apply in_concat. exists (f x). split; [|exact Hy].
  apply elem_of_list_In, elem_of_list_fmap. exists x. split; [reflexivity|apply elem_of_list_In; exact Hx].
Qed.

(* ---------- entities: spawn, components, parent ------------------------------------------------------ *)

Definition comp_msgs (pr : peer_state) (u : uuid) (en : entity) : list msg :=
  omap (fun '(t, c) =>
          if memN t (p_sync_types pr) && negb (memN t (en_excl en)) then
            Some (match c_val c with
                  | VSkin j p => MComp u T_MAPPER (to_skinned_mapper pr j p)
                  | v => MComp u t v
                  end)
          else None) (map_to_list (en_comps en)).

Lemma snapshot_entity_msgs_tracked pr e en u :
  is_Some (en_sync en) -> t_e2u pr !! e = Some u ->
  snapshot_entity_msgs pr e en = MSpawn u :: comp_msgs pr u en.
Proof. intros [su Hs] Hu. unfold snapshot_entity_msgs, comp_msgs. rewrite Hs, Hu. reflexivity. Qed.

Theorem snapshot_complete_spawn pr e en u :
  p_ents pr !! e = Some en -> is_Some (en_sync en) -> t_e2u pr !! e = Some u ->
  In (MSpawn u) (build_full_sync pr).2.
Proof.
  intros Hl Hs Hu. rewrite build_full_sync_snd. apply in_or_app. left. apply in_or_app. left.
  unfold spawn_part. apply (In_concat_fmap_intro _ _ (e, en)).
  - unfold ents_list. apply In_map_to_list. exact Hl.
  - rewrite (snapshot_entity_msgs_tracked pr e en u Hs Hu). left. reflexivity.
Qed.

Theorem snapshot_complete_comp pr e en u t c :
  p_ents pr !! e = Some en -> is_Some (en_sync en) -> t_e2u pr !! e = Some u ->
  en_comps en !! t = Some c -> In t (p_sync_types pr) -> ~ In t (en_excl en) ->
  In (match c_val c with
      | VSkin j p => MComp u T_MAPPER (to_skinned_mapper pr j p)
      | w => MComp u t w
      end) (build_full_sync pr).2.
Proof.
  intros Hl Hs Hu Hc Hty Hex. rewrite build_full_sync_snd. apply in_or_app. left. apply in_or_app. right.
  unfold value_part. apply (In_concat_fmap_intro _ _ (e, en)).
  - unfold ents_list. apply In_map_to_list. exact Hl.
  - rewrite (snapshot_entity_msgs_tracked pr e en u Hs Hu). change (skipn 1 (MSpawn u :: comp_msgs pr u en)) with (comp_msgs pr u en).
    apply elem_of_list_In. unfold comp_msgs. apply elem_of_list_omap. exists (t, c).
    split; [apply elem_of_map_to_list; exact Hc|].
    assert (E1 : memN t (p_sync_types pr) = true) by (apply memN_In; exact Hty).
    assert (E2 : memN t (en_excl en) = false).
    { destruct (memN t (en_excl en)) eqn:E; [|reflexivity]. exfalso. apply Hex. apply memN_In. exact E. }
    rewrite E1, E2. reflexivity.
Qed.

(* the same with the model's own membership tests *)
Corollary snapshot_complete_comp_memN pr e en u t c :
  p_ents pr !! e = Some en -> is_Some (en_sync en) -> t_e2u pr !! e = Some u ->
  en_comps en !! t = Some c -> memN t (p_sync_types pr) = true -> memN t (en_excl en) = false ->
  In (match c_val c with
      | VSkin j p => MComp u T_MAPPER (to_skinned_mapper pr j p)
      | w => MComp u t w
      end) (build_full_sync pr).2.
Proof.
  intros Hl Hs Hu Hc Hty Hex. apply (snapshot_complete_comp pr e en u t c Hl Hs Hu Hc).
  - apply memN_In. exact Hty.
  - intros Hin. apply memN_In in Hin. congruence.
Qed.

Theorem snapshot_complete_parent pr e en q tk u pu :
  p_ents pr !! e = Some en -> is_Some (en_sync en) -> en_parent en = Some (q, tk) ->
  t_e2u pr !! e = Some u -> t_e2u pr !! q = Some pu ->
  In (MParented u pu) (build_full_sync pr).2.
Proof.
  intros Hl [su Hs] Hp Hu Hpu. rewrite build_full_sync_snd. apply in_or_app. right. apply in_or_app. left.
  unfold parent_part. apply (In_concat_fmap_intro _ _ (e, en)).
  - unfold ents_list. apply In_map_to_list. exact Hl.
  - unfold snapshot_parent_msgs. rewrite Hs, Hp, Hu, Hpu. left. reflexivity.
Qed.

(* ---------- assets --------------------------------------------------------------------------------- *)

(* kind_num_lt, akey_mod, akey_div, akey_inj, akey_kind_ne and assets_of_kind_In (assets_of_kind lists
   exactly the store entries of that kind) are in OptInLemmas.v *)

(* serve_all changes the download cache only *)
Definition same_assets (pr pr' : peer_state) : Prop :=
  a_store pr' = a_store pr /\ t_mat pr' = t_mat pr /\ t_mesh pr' = t_mesh pr /\ t_audio pr' = t_audio pr /\
  p_id pr' = p_id pr /\ d_pending pr' = d_pending pr.
Lemma same_assets_refl a : same_assets a a.
Proof. repeat split; reflexivity. Qed.
Lemma same_assets_trans a b c : same_assets a b -> same_assets b c -> same_assets a c.
Proof. unfold same_assets. intros (?&?&?&?&?&?) (?&?&?&?&?&?). repeat split; congruence. Qed.
Lemma serve_all_same pr c : same_assets pr (serve_all pr c).1.
Proof. unfold serve_all. destruct (class_enabled pr (KClass c)); repeat split; reflexivity. Qed.
Lemma same_assets_enabled pr pr' k : same_assets pr pr' -> class_enabled pr' k = class_enabled pr k.
Proof. intros (_ & Hm & Hme & Ha & _). unfold class_enabled. destruct k as [|[]]; assumption. Qed.
Lemma same_assets_pending_of pr pr' c : same_assets pr pr' -> pending_of pr' c = pending_of pr c.
Proof. intros (_ & _ & _ & _ & _ & Hp). unfold pending_of. rewrite Hp. reflexivity. Qed.
Lemma same_assets_download_pending pr pr' c a :
  same_assets pr pr' -> download_pending pr' c a <-> download_pending pr c a.
Proof. intros (_ & _ & _ & _ & _ & Hp). unfold download_pending. rewrite Hp. reflexivity. Qed.

(* an asset with no download under way is announced as this peer's own *)
Lemma serve_all_In pr c a v :
  class_enabled pr (KClass c) = true -> a_store pr !! akey (KClass c) a = Some v ->
  ~ download_pending pr c a ->
  In (MAsset c a (p_id pr)) (serve_all pr c).2.
Proof.
  intros He Hl Hn. rewrite (serve_all_enabled pr c He). cbn [snd]. apply in_or_app. left.
  apply elem_of_list_In, elem_of_list_fmap. exists (a, v).
  split; [reflexivity|]. apply elem_of_list_In, served_assets_In. split; [|exact Hn].
  apply assets_of_kind_In. exact Hl.
Qed.

(* every id under download is announced with the owner its latest request names *)
Lemma serve_all_In_pending pr c a o :
  class_enabled pr (KClass c) = true -> In (a, o) (pending_of pr c) ->
  In (MAsset c a o) (serve_all pr c).2.
Proof.
  intros He Hp. rewrite (serve_all_enabled pr c He). cbn [snd]. apply in_or_app. right.
  apply elem_of_list_In, elem_of_list_fmap. exists (a, o).
  split; [reflexivity|apply elem_of_list_In; exact Hp].
Qed.

(* the cache after inserting a functional association list *)
Lemma fold_cache_hit k (l : list (uuid * N)) : forall (h : gmap N N) a v,
  (forall a' v1 v2, In (a', v1) l -> In (a', v2) l -> v1 = v2) ->
  In (a, v) l ->
  foldl (fun h '(a, v) => <[akey k a := v]> h) h l !! akey k a = Some v.
Proof.
  induction l as [|[a0 v0] l IH] using rev_ind; intros h a v Hfun Hin; [destruct Hin|].
  rewrite foldl_app. cbn [foldl].
  destruct (decide (a0 = a)) as [->|Hne].
  - rewrite lookup_insert. f_equal.
    apply (Hfun a); [apply in_or_app; right; left; reflexivity|exact Hin].
  - rewrite lookup_insert_ne by (intros Hk; apply Hne; exact (akey_inj k a0 a Hk)).
    apply in_app_or in Hin as [Hin|[Hin|[]]]; [|injection Hin as -> ->; contradiction].
    apply IH; [|exact Hin].
    intros a' v1 v2 H1 H2. apply (Hfun a'); apply in_or_app; left; assumption.
Qed.
Lemma fold_cache_other k (l : list (uuid * N)) key : forall (h : gmap N N),
  (forall a v, In (a, v) l -> key <> akey k a) ->
  foldl (fun h '(a, v) => <[akey k a := v]> h) h l !! key = h !! key.
Proof.
  induction l as [|[a0 v0] l IH]; intros h Hk; [reflexivity|].
  cbn [foldl]. rewrite IH by (intros a v Hin; apply (Hk a v); right; exact Hin).
  apply lookup_insert_ne. intros Heq. exact (Hk a0 v0 (or_introl eq_refl) (eq_sym Heq)).
Qed.

Lemma serve_all_cache_hit pr c a v :
  class_enabled pr (KClass c) = true -> a_store pr !! akey (KClass c) a = Some v ->
  ~ download_pending pr c a ->
  h_cache (serve_all pr c).1 !! akey (KClass c) a = Some v.
Proof.
  intros He Hl Hn. rewrite (serve_all_enabled pr c He). cbn [fst].
  change (foldl (fun h '(a, v) => <[akey (KClass c) a := v]> h) (h_cache pr) (served_assets pr c)
            !! akey (KClass c) a = Some v).
  apply fold_cache_hit.
  - intros a' v1 v2 H1 H2. apply served_assets_In in H1 as [H1 _], H2 as [H2 _].
    apply assets_of_kind_In in H1, H2. congruence.
  - apply served_assets_In. split; [apply assets_of_kind_In; exact Hl|exact Hn].
Qed.
Lemma serve_all_cache_other pr c key :
  (forall a, key <> akey (KClass c) a) -> h_cache (serve_all pr c).1 !! key = h_cache pr !! key.
Proof.
  intros Hk. destruct (class_enabled pr (KClass c)) eqn:He.
  2:{ unfold serve_all. rewrite He. reflexivity. }
  rewrite (serve_all_enabled pr c He). cbn [fst].
  change (foldl (fun h '(a, v) => <[akey (KClass c) a := v]> h) (h_cache pr) (served_assets pr c)
            !! key = h_cache pr !! key).
  apply fold_cache_other. intros a v _. apply Hk.
Qed.
(* an id under download is not (re-)served by the call: what the endpoint answers for it is unchanged *)
Lemma serve_all_cache_pending pr c a :
  download_pending pr c a ->
  h_cache (serve_all pr c).1 !! akey (KClass c) a = h_cache pr !! akey (KClass c) a.
Proof.
  intros Hp. destruct (class_enabled pr (KClass c)) eqn:He.
  2:{ unfold serve_all. rewrite He. reflexivity. }
  rewrite (serve_all_enabled pr c He). cbn [fst].
  change (foldl (fun h '(a, v) => <[akey (KClass c) a := v]> h) (h_cache pr) (served_assets pr c)
            !! akey (KClass c) a = h_cache pr !! akey (KClass c) a).
  apply fold_cache_other. intros a' v Hin Heq. apply akey_inj in Heq. subst a'.
  apply served_assets_In in Hin as [_ Hn]. exact (Hn Hp).
Qed.

Lemma class_key_other c c' a : c <> c' -> forall a', akey (KClass c) a <> akey (KClass c') a'.
Proof. intros Hne a'. apply akey_kind_ne. destruct c, c'; cbn; congruence. Qed.

(* the state in which the part of class c is computed: images first, then meshes, then audio *)
Definition at_class (pr : peer_state) (c : aclass) : peer_state :=
  match c with
  | AImage => pr
  | AMesh => (serve_all pr AImage).1
  | AAudio => (serve_all (serve_all pr AImage).1 AMesh).1
  end.

Lemma at_class_same pr c : same_assets pr (at_class pr c).
Proof.
  destruct c; cbn [at_class].
  - apply serve_all_same.
  - apply same_assets_refl.
  - eapply same_assets_trans; apply serve_all_same.
Qed.

Lemma class_part_In pr c m : In m (serve_all (at_class pr c) c).2 -> In m (build_full_sync pr).2.
Proof.
  intros H. rewrite build_full_sync_snd. apply in_or_app. right. apply in_or_app. right.
  destruct c; cbn [at_class] in H.
  - apply in_or_app. right. apply in_or_app. right. apply in_or_app. left. exact H.
  - apply in_or_app. left. exact H.
  - apply in_or_app. right. apply in_or_app. right. apply in_or_app. right. exact H.
Qed.

(* the cache entries of class c after the whole call are those written by the part of class c *)
Lemma class_part_cache pr c a :
  h_cache (build_full_sync pr).1 !! akey (KClass c) a =
  h_cache (serve_all (at_class pr c) c).1 !! akey (KClass c) a.
Proof.
  rewrite build_full_sync_fst. destruct c; cbn [at_class].
  - rewrite serve_all_cache_other by (apply class_key_other; discriminate). reflexivity.
  - rewrite serve_all_cache_other by (apply class_key_other; discriminate).
    rewrite serve_all_cache_other by (apply class_key_other; discriminate). reflexivity.
  - reflexivity.
Qed.
Lemma at_class_cache pr c a :
  h_cache (at_class pr c) !! akey (KClass c) a = h_cache pr !! akey (KClass c) a.
Proof.
  destruct c; cbn [at_class].
  - rewrite serve_all_cache_other by (apply class_key_other; discriminate). reflexivity.
  - reflexivity.
  - rewrite serve_all_cache_other by (apply class_key_other; discriminate).
    rewrite serve_all_cache_other by (apply class_key_other; discriminate). reflexivity.
Qed.

(* 4a. every stored asset of an enabled class is announced: as this peer's own, and served by the
   returned state, when no download of its id is under way; with the owner named by the latest pending
   request otherwise *)
Theorem snapshot_complete_asset pr c a v :
  class_enabled pr (KClass c) = true -> a_store pr !! akey (KClass c) a = Some v ->
  (~ download_pending pr c a ->
     In (MAsset c a (p_id pr)) (build_full_sync pr).2 /\
     h_cache (build_full_sync pr).1 !! akey (KClass c) a = Some v) /\
  (download_pending pr c a ->
     exists o, In (a, o) (pending_of pr c) /\ latest_owner pr c a o /\
               In (MAsset c a o) (build_full_sync pr).2).
Proof.
  intros He Hl. pose proof (at_class_same pr c) as S. set (pr' := at_class pr c) in *.
  assert (He' : class_enabled pr' (KClass c) = true) by (rewrite (same_assets_enabled _ _ _ S); exact He).
  assert (Hl' : a_store pr' !! akey (KClass c) a = Some v) by (rewrite (proj1 S); exact Hl).
  assert (Hid : p_id pr' = p_id pr) by apply S.
  split.
  - intros Hn. assert (Hn' : ~ download_pending pr' c a) by (rewrite (same_assets_download_pending _ _ _ _ S); exact Hn).
    split.
    + apply (class_part_In pr c). fold pr'. rewrite <- Hid. apply (serve_all_In pr' c a v He' Hl' Hn').
    + rewrite class_part_cache. fold pr'. apply (serve_all_cache_hit pr' c a v He' Hl' Hn').
  - intros Hp. apply pending_of_ids in Hp as (o & Ho). exists o. split; [exact Ho|].
    split; [apply pending_of_latest; exact Ho|].
    apply (class_part_In pr c). fold pr'. apply serve_all_In_pending; [exact He'|].
    rewrite (same_assets_pending_of _ _ _ S). exact Ho.
Qed.

(* 4b. every id of an enabled class with a download under way is announced, with the owner named by the
   latest pending request — whether or not this peer holds a copy of the asset *)
Theorem snapshot_complete_pending pr c a :
  class_enabled pr (KClass c) = true -> download_pending pr c a ->
  exists o, In (a, o) (pending_of pr c) /\ latest_owner pr c a o /\
            In (MAsset c a o) (build_full_sync pr).2.
Proof.
  intros He Hp. pose proof (at_class_same pr c) as S.
  apply pending_of_ids in Hp as (o & Ho). exists o. split; [exact Ho|].
  split; [apply pending_of_latest; exact Ho|].
  apply (class_part_In pr c). apply serve_all_In_pending.
  - rewrite (same_assets_enabled _ _ _ S). exact He.
  - rewrite (same_assets_pending_of _ _ _ S). exact Ho.
Qed.

(* ... and such an id is not (re-)served by the call *)
Theorem snapshot_pending_not_reserved pr c a :
  download_pending pr c a ->
  h_cache (build_full_sync pr).1 !! akey (KClass c) a = h_cache pr !! akey (KClass c) a.
Proof.
  intros Hp. pose proof (at_class_same pr c) as S.
  rewrite class_part_cache, serve_all_cache_pending, at_class_cache; [reflexivity|].
  rewrite (same_assets_download_pending _ _ _ _ S). exact Hp.
Qed.

(* 4c. conversely, every announcement of the snapshot is one of the two: (own endpoint, stored, no
   download under way, served afterwards) or (download under way, owner of its latest request) *)
Theorem snapshot_asset_justified pr c a o :
  In (MAsset c a o) (build_full_sync pr).2 ->
  class_enabled pr (KClass c) = true /\
  ((o = p_id pr /\ ~ download_pending pr c a /\
    exists v, a_store pr !! akey (KClass c) a = Some v /\
              h_cache (build_full_sync pr).1 !! akey (KClass c) a = Some v) \/
   (In (a, o) (pending_of pr c) /\ latest_owner pr c a o)).
Proof.
  intros Hin. apply build_full_sync_msgs in Hin as [H|[H|[H|H]]].
  - destruct H as (e & en & _ & Hm). apply snapshot_entity_msgs_In in Hm as (su & u & _ & _ & Hm).
    destruct Hm as [Hm|(t & c0 & _ & _ & _ & Hm)]; [discriminate Hm|]. destruct (c_val c0); discriminate Hm.
  - destruct H as (e & en & _ & Hm).
    apply snapshot_parent_msgs_In in Hm as (su & q & tk & u & pu & _ & _ & _ & _ & Hm). discriminate Hm.
  - destruct H as (_ & a' & v & Hm). discriminate Hm.
  - destruct H as (c' & a' & o' & He & Heq & Hj). injection Heq as <- <- <-. split; [exact He|].
    destruct Hj as [(-> & Hn & v & Hv)|Hp].
    + left. split; [reflexivity|]. split; [exact Hn|]. exists v. apply assets_of_kind_In in Hv.
      split; [exact Hv|]. exact (proj2 (proj1 (snapshot_complete_asset pr c a v He Hv) Hn)).
    + right. split; [exact Hp|apply pending_of_latest; exact Hp].
Qed.

(* each id is announced once: an id under download is not also announced as this peer's own *)
Corollary snapshot_asset_owner_unique pr c a o o' :
  In (MAsset c a o) (build_full_sync pr).2 -> In (MAsset c a o') (build_full_sync pr).2 -> o = o'.
Proof.
  intros H1 H2. apply snapshot_asset_justified in H1 as [_ H1], H2 as [_ H2].
  destruct H1 as [(-> & Hn & _)|[Hp _]], H2 as [(-> & Hn' & _)|[Hp' _]].
  - reflexivity.
  - exfalso. apply Hn. apply pending_of_ids. exists o'. exact Hp'.
  - exfalso. apply Hn'. apply pending_of_ids. exists o. exact Hp.
  - exact (pending_of_fun _ _ _ _ _ Hp Hp').
Qed.

(* materials travel inline; every stored material is listed, the default one (id 0) included *)
Theorem snapshot_complete_material pr a v :
  t_mat pr = true -> a_store pr !! akey KMaterial a = Some v ->
  In (MMaterial a v) (build_full_sync pr).2.
Proof.
  intros Hm Hl. pose proof (serve_all_same pr AImage) as (Hs & Hm1 & _).
  rewrite build_full_sync_snd.
  apply in_or_app. right. apply in_or_app. right. apply in_or_app. right. apply in_or_app. left.
  unfold snapshot_material_msgs. rewrite Hm1, Hm.
  apply elem_of_list_In, elem_of_list_fmap. exists (a, v). split; [reflexivity|].
  apply elem_of_list_In, assets_of_kind_In. rewrite Hs. exact Hl.
Qed.

(* ---------- order: every spawn precedes every value and every link ------------------------------------ *)

Definition is_spawn (m : msg) : bool := match m with MSpawn _ => true | _ => false end.

Lemma Forall_concat_fmap {A B} (P : B -> Prop) (f : A -> list B) (l : list A) :
  (forall x, Forall P (f x)) -> Forall P (concat (f <$> l)).
Proof. intros H. induction l as [|x l IH]; cbn; [constructor|]. apply Forall_app. split; [apply H|exact IH]. Qed.

Lemma spawn_part_spawns pr : Forall (fun m => is_spawn m = true) (spawn_part pr).
Proof.
  unfold spawn_part. apply Forall_concat_fmap. intros [e en]. unfold snapshot_entity_msgs.
  destruct (en_sync en) as [su|]; [|constructor]. destruct (t_e2u pr !! e) as [u|]; [|constructor].
  cbn [firstn]. repeat constructor.
Qed.

Lemma value_part_nospawn pr : Forall (fun m => is_spawn m = false) (value_part pr).
Proof.
  unfold value_part. apply Forall_concat_fmap. intros [e en]. unfold snapshot_entity_msgs.
  destruct (en_sync en) as [su|]; [|constructor]. destruct (t_e2u pr !! e) as [u|]; [|constructor].
  cbn [skipn]. apply Forall_forall. intros m Hm. apply elem_of_list_omap in Hm as ([t c] & _ & Hm).
  destruct (memN t (p_sync_types pr) && negb (memN t (en_excl en))); [|discriminate].
  injection Hm as <-. destruct (c_val c); reflexivity.
Qed.

Lemma parent_part_nospawn pr : Forall (fun m => is_spawn m = false) (parent_part pr).
Proof.
  unfold parent_part. apply Forall_concat_fmap. intros [e en]. unfold snapshot_parent_msgs.
  destruct (en_sync en) as [su|]; [|constructor]. destruct (en_parent en) as [[q tk]|]; [|constructor].
  destruct (t_e2u pr !! e) as [u|]; [|constructor]. destruct (t_e2u pr !! q) as [pu|]; repeat constructor.
Qed.

Lemma serve_all_nospawn pr c : Forall (fun m => is_spawn m = false) (serve_all pr c).2.
Proof.
  unfold serve_all. destruct (class_enabled pr (KClass c)); [|constructor]. cbn [snd].
  apply Forall_app; split; apply Forall_fmap, Forall_forall; intros [a v] _; reflexivity.
Qed.

Lemma material_msgs_nospawn pr : Forall (fun m => is_spawn m = false) (snapshot_material_msgs pr).
Proof.
  unfold snapshot_material_msgs. destruct (t_mat pr); [|constructor].
  apply Forall_fmap, Forall_forall. intros [a v] _. reflexivity.
Qed.

Theorem snapshot_spawns_first pr :
  exists spawns rest,
    (build_full_sync pr).2 = spawns ++ rest /\
    Forall (fun m => is_spawn m = true) spawns /\
    Forall (fun m => is_spawn m = false) rest.
Proof.
  exists (spawn_part pr),
         (value_part pr ++ parent_part pr ++
          (serve_all pr AImage).2 ++ snapshot_material_msgs (serve_all pr AImage).1 ++
          (serve_all (serve_all pr AImage).1 AMesh).2 ++
          (serve_all (serve_all (serve_all pr AImage).1 AMesh).1 AAudio).2).
  split; [rewrite build_full_sync_snd, <- app_assoc; reflexivity|].
  split; [apply spawn_part_spawns|].
  repeat (apply Forall_app; split);
    first [apply value_part_nospawn|apply parent_part_nospawn|apply serve_all_nospawn|apply material_msgs_nospawn].
Qed.

(* the same, read at a position: whatever precedes a spawn in the snapshot is a spawn, so no
   component value and no parent link is ever ahead of the spawn of any entity *)
Lemma split_prefix_spawns (spawns rest l1 l2 : list msg) x :
  Forall (fun m => is_spawn m = true) spawns -> Forall (fun m => is_spawn m = false) rest ->
  is_spawn x = true -> spawns ++ rest = l1 ++ x :: l2 -> Forall (fun m => is_spawn m = true) l1.
Proof.
  revert l1. induction spawns as [|s sp IH]; intros l1 Hs Hr Hx Heq.
  - exfalso. cbn [app] in Heq. rewrite Heq in Hr. apply Forall_app in Hr as [_ Hr].
    apply Forall_cons in Hr as [Hr _]. congruence.
  - destruct l1 as [|y l1]; [constructor|].
    cbn [app] in Heq. injection Heq as -> Heq. apply Forall_cons in Hs as [Hs1 Hs2].
    constructor; [exact Hs1|]. apply IH; assumption.
Qed.

Corollary snapshot_nothing_before_a_spawn pr l1 u l2 :
  (build_full_sync pr).2 = l1 ++ MSpawn u :: l2 -> Forall (fun m => is_spawn m = true) l1.
Proof.
  intros Heq. destruct (snapshot_spawns_first pr) as (spawns & rest & Hsplit & Hs & Hr).
  rewrite Hsplit in Heq. exact (split_prefix_spawns spawns rest l1 l2 (MSpawn u) Hs Hr eq_refl Heq).
Qed.

(* ---------- non-vacuity: a state in which every clause has an instance ------------------------------ *)

Definition mkc (v : value) : comp := {| c_val := v; c_added := 1; c_changed := 1 |}.
Definition ex_state : peer_state :=
  init_peer 0 [T_A; T_SKIN] [T_A] []
    <| p_ents := {[ 5 := new_entity <| en_sync := Some 5 |>
                           <| en_comps := {[ T_A := mkc (VN 3); T_B := mkc (VN 4);
                                             T_SKIN := mkc (VSkin [6; 9] [1]) ]} |>
                           <| en_parent := Some (6, 1) |>;
                   6 := new_entity <| en_sync := Some 6 |>
                           <| en_comps := {[ T_A := mkc (VN 8) ]} |>
                           <| en_excl := [T_A] |>;
                   7 := new_entity ]} |>
    <| t_e2u := {[ 5 := 50; 6 := 60 ]} |>
    <| t_mat := true |> <| t_mesh := true |>
    <| a_store := {[ akey KMaterial 0 := 500; akey KMaterial 3 := 31; akey (KClass AMesh) 9 := 77;
                     akey (KClass AImage) 4 := 44; akey (KClass AAudio) 2 := 22 ]} |>.

(* spawns of both tracked entities first; T_B is not registered, T_A is excluded on 6, the
   SkinnedMesh travels as a mapper with the untracked joint dropped; audio is not enabled *)
Example ex_snapshot :
  (build_full_sync ex_state).2 =
    [MSpawn 50; MSpawn 60;
     MComp 50 T_A (VN 3); MComp 50 T_MAPPER (VMapper [60] [1]);
     MParented 50 60;
     MAsset AImage 4 0; MMaterial 0 500; MMaterial 3 31; MAsset AMesh 9 0].
Proof. vm_compute. reflexivity. Qed.
Example ex_snapshot_serves :
  h_cache (build_full_sync ex_state).1 !! akey (KClass AMesh) 9 = Some 77 /\
  h_cache (build_full_sync ex_state).1 !! akey (KClass AImage) 4 = Some 44 /\
  h_cache (build_full_sync ex_state).1 !! akey (KClass AAudio) 2 = None.
Proof. vm_compute. repeat split; reflexivity. Qed.

(* the same state while downloads are under way: mesh 9 (a copy is stored, and an older copy is served)
   was requested from 3 and later from 4, mesh 12 (no copy yet) from 3, audio 2 from 3 (audio is not
   enabled); mesh 10 is stored and not under download.  Mesh 10 is announced as this peer's own and
   served; 12 and 9 are announced with the owner of their latest request; what the endpoint answers
   for mesh 9 stays as it was *)
Definition ex_state_pending : peer_state :=
  ex_state <| d_pending := [(AMesh, 9, 3); (AMesh, 12, 3); (AMesh, 9, 4); (AAudio, 2, 3)] |>
           <| a_store ::= <[akey (KClass AMesh) 10 := 78]> |>
           <| h_cache := {[ akey (KClass AMesh) 9 := 70 ]} |>.
Example ex_snapshot_pending :
  (build_full_sync ex_state_pending).2 =
    [MSpawn 50; MSpawn 60;
     MComp 50 T_A (VN 3); MComp 50 T_MAPPER (VMapper [60] [1]);
     MParented 50 60;
     MAsset AImage 4 0; MMaterial 0 500; MMaterial 3 31;
     MAsset AMesh 10 0; MAsset AMesh 12 3; MAsset AMesh 9 4].
Proof. vm_compute. reflexivity. Qed.
Example ex_snapshot_pending_serves :
  h_cache (build_full_sync ex_state_pending).1 !! akey (KClass AMesh) 10 = Some 78 /\
  h_cache (build_full_sync ex_state_pending).1 !! akey (KClass AMesh) 9 = Some 70 /\
  h_cache (build_full_sync ex_state_pending).1 !! akey (KClass AMesh) 12 = None.
Proof. vm_compute. repeat split; reflexivity. Qed.

(* the statement of snapshot_complete_asset as it was before the repair of S26 (every stored asset of an
   enabled class is announced as this peer's own and served afterwards) is false now: mesh 9 above *)
Example snapshot_complete_asset_unconditional_refuted :
  exists pr c a v,
    class_enabled pr (KClass c) = true /\ a_store pr !! akey (KClass c) a = Some v /\
    ~ In (MAsset c a (p_id pr)) (build_full_sync pr).2 /\
    h_cache (build_full_sync pr).1 !! akey (KClass c) a <> Some v.
Proof.
  exists ex_state_pending, AMesh, 9, 77. split; [reflexivity|]. split; [vm_compute; reflexivity|]. split.
  - rewrite ex_snapshot_pending. intros H. repeat (destruct H as [H|H]; [discriminate H|]). destruct H.
  - vm_compute. discriminate.
Qed.

Print Assumptions snapshot_complete_spawn.
Print Assumptions snapshot_complete_comp.
Print Assumptions snapshot_complete_comp_memN.
Print Assumptions snapshot_complete_parent.
Print Assumptions snapshot_complete_asset.
Print Assumptions snapshot_complete_pending.
Print Assumptions snapshot_pending_not_reserved.
Print Assumptions snapshot_asset_justified.
Print Assumptions snapshot_asset_owner_unique.
Print Assumptions snapshot_complete_asset_unconditional_refuted.
Print Assumptions snapshot_complete_material.
Print Assumptions snapshot_spawns_first.
Print Assumptions snapshot_nothing_before_a_spawn.
