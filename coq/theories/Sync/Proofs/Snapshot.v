(* Completeness of the joining snapshot (build_full_sync), the converse of OptIn.snapshot_opted.

   For EVERY peer state pr (no reachability hypothesis), the list of messages built for a joining
   client contains
     1. MSpawn u            for every live entity that carries SyncEntity and is tracked as u;
     2. MComp u t v         for every component of such an entity whose type is registered for sync
                            and not excluded on that entity (SkinnedMesh in its wire form);
     3. MParented u pu      for every such entity with a Parent, both ends tracked;
     4. MAsset c a (p_id)   for every stored asset of an enabled class, and the returned state
                            serves it (h_cache); MMaterial a v for every stored material when
                            materials are enabled (the default material id 0 is not special here:
                            snapshot_material_msgs lists every entry of kind KMaterial);
     5. order               all MSpawn first: the list is spawns ++ rest with only spawns in the
                            first part and no spawn in the second.
   As in snapshot_opted the uuid is the one of entity_to_uuid (t_e2u), not the one inside the
   SyncEntity component. *)
From stdpp Require Import gmap list.
From Coq Require Import NArith Lia.
From RecordUpdate Require Import RecordSet.
From BS Require Import Sync.Types Sync.Model Sync.Proofs.OptInLemmas.
Import RecordSetNotations.
Local Open Scope N_scope.

(* ---------- the shape of the result ---------------------------------------------------------------- *)

Definition spawn_part (pr : peer_state) : list msg :=
  concat ((fun '(e, en) => firstn 1 (snapshot_entity_msgs pr e en)) <$> ents_list pr).
Definition value_part (pr : peer_state) : list msg :=
  concat ((fun '(e, en) => skipn 1 (snapshot_entity_msgs pr e en)) <$> ents_list pr).
Definition parent_part (pr : peer_state) : list msg :=
  concat ((fun '(e, en) => snapshot_parent_msgs pr e en) <$> ents_list pr).

Lemma build_full_sync_snd pr :
  (build_full_sync pr).2 =
    (spawn_part pr ++ value_part pr) ++ parent_part pr ++
    (serve_all pr AImage).2 ++ snapshot_material_msgs (serve_all pr AImage).1 ++
    (serve_all (serve_all pr AImage).1 AMesh).2 ++
    (serve_all (serve_all (serve_all pr AImage).1 AMesh).1 AAudio).2.
Proof.
  unfold build_full_sync, spawn_part, value_part, parent_part. cbv zeta.
  destruct (serve_all pr AImage) as [pr1 mi]. cbn [fst snd].
  destruct (serve_all pr1 AMesh) as [pr2 me]. cbn [fst snd].
  destruct (serve_all pr2 AAudio) as [pr3 ma]. reflexivity.
Qed.

Lemma build_full_sync_fst pr :
  (build_full_sync pr).1 = (serve_all (serve_all (serve_all pr AImage).1 AMesh).1 AAudio).1.
Proof.
  unfold build_full_sync. cbv zeta.
  destruct (serve_all pr AImage) as [pr1 mi]. cbn [fst snd].
  destruct (serve_all pr1 AMesh) as [pr2 me]. cbn [fst snd].
  destruct (serve_all pr2 AAudio) as [pr3 ma]. reflexivity.
Qed.

Lemma In_concat_fmap_intro {A B} (f : A -> list B) (l : list A) (x : A) (y : B) :
  In x l -> In y (f x) -> In y (concat (f <$> l)).
Proof.
  intros Hx Hy. apply in_concat. exists (f x). split; [|exact Hy].
  apply elem_of_list_In, elem_of_list_fmap. exists x. split; [reflexivity|apply elem_of_list_In; exact Hx].
Qed.

(* ---------- entities: spawn, components, parent ------------------------------------------------------ *)

Definition comp_msgs (pr : peer_state) (u : uuid) (en : entity) : list msg :=
  omap (fun '(t, c) =>
          if memN t (p_sync_types pr) && negb (memN t (en_excl en)) then
            Some (match c_val c with
                  | VSkin j p => MComp u T_MAPPER (to_skinned_mapper pr j p)
                  | v => MComp u t v
                  end)
          else None) (map_to_list (en_comps en)).

Lemma snapshot_entity_msgs_tracked pr e en u :
  is_Some (en_sync en) -> t_e2u pr !! e = Some u ->
  snapshot_entity_msgs pr e en = MSpawn u :: comp_msgs pr u en.
Proof. intros [su Hs] Hu. unfold snapshot_entity_msgs, comp_msgs. rewrite Hs, Hu. reflexivity. Qed.

Theorem snapshot_complete_spawn pr e en u :
  p_ents pr !! e = Some en -> is_Some (en_sync en) -> t_e2u pr !! e = Some u ->
  In (MSpawn u) (build_full_sync pr).2.
Proof.
  intros Hl Hs Hu. rewrite build_full_sync_snd. apply in_or_app. left. apply in_or_app. left.
  unfold spawn_part. apply (In_concat_fmap_intro _ _ (e, en)).
  - unfold ents_list. apply In_map_to_list. exact Hl.
  - rewrite (snapshot_entity_msgs_tracked pr e en u Hs Hu). left. reflexivity.
Qed.

Theorem snapshot_complete_comp pr e en u t c :
  p_ents pr !! e = Some en -> is_Some (en_sync en) -> t_e2u pr !! e = Some u ->
  en_comps en !! t = Some c -> In t (p_sync_types pr) -> ~ In t (en_excl en) ->
  In (match c_val c with
      | VSkin j p => MComp u T_MAPPER (to_skinned_mapper pr j p)
      | w => MComp u t w
      end) (build_full_sync pr).2.
Proof.
  intros Hl Hs Hu Hc Hty Hex. rewrite build_full_sync_snd. apply in_or_app. left. apply in_or_app. right.
  unfold value_part. apply (In_concat_fmap_intro _ _ (e, en)).
  - unfold ents_list. apply In_map_to_list. exact Hl.
  - rewrite (snapshot_entity_msgs_tracked pr e en u Hs Hu). change (skipn 1 (MSpawn u :: comp_msgs pr u en)) with (comp_msgs pr u en).
    apply elem_of_list_In. unfold comp_msgs. apply elem_of_list_omap. exists (t, c).
    split; [apply elem_of_map_to_list; exact Hc|].
    assert (E1 : memN t (p_sync_types pr) = true) by (apply memN_In; exact Hty).
    assert (E2 : memN t (en_excl en) = false).
    { destruct (memN t (en_excl en)) eqn:E; [|reflexivity]. exfalso. apply Hex. apply memN_In. exact E. }
    rewrite E1, E2. reflexivity.
Qed.

(* the same with the model's own membership tests *)
Corollary snapshot_complete_comp_memN pr e en u t c :
  p_ents pr !! e = Some en -> is_Some (en_sync en) -> t_e2u pr !! e = Some u ->
  en_comps en !! t = Some c -> memN t (p_sync_types pr) = true -> memN t (en_excl en) = false ->
  In (match c_val c with
      | VSkin j p => MComp u T_MAPPER (to_skinned_mapper pr j p)
      | w => MComp u t w
      end) (build_full_sync pr).2.
Proof.
  intros Hl Hs Hu Hc Hty Hex. apply (snapshot_complete_comp pr e en u t c Hl Hs Hu Hc).
  - apply memN_In. exact Hty.
  - intros Hin. apply memN_In in Hin. congruence.
Qed.

Theorem snapshot_complete_parent pr e en q tk u pu :
  p_ents pr !! e = Some en -> is_Some (en_sync en) -> en_parent en = Some (q, tk) ->
  t_e2u pr !! e = Some u -> t_e2u pr !! q = Some pu ->
  In (MParented u pu) (build_full_sync pr).2.
Proof.
  intros Hl [su Hs] Hp Hu Hpu. rewrite build_full_sync_snd. apply in_or_app. right. apply in_or_app. left.
  unfold parent_part. apply (In_concat_fmap_intro _ _ (e, en)).
  - unfold ents_list. apply In_map_to_list. exact Hl.
  - unfold snapshot_parent_msgs. rewrite Hs, Hp, Hu, Hpu. left. reflexivity.
Qed.

(* ---------- assets --------------------------------------------------------------------------------- *)

Lemma kind_num_lt k : kind_num k < 4.
Proof. destruct k as [|[]]; cbn; lia. Qed.
Lemma akey_mod k a : akey k a `mod` 4 = kind_num k.
Proof. unfold akey. symmetry. apply (N.mod_unique _ 4 a); [apply kind_num_lt|reflexivity]. Qed.
Lemma akey_div k a : akey k a `div` 4 = a.
Proof. unfold akey. symmetry. apply (N.div_unique _ 4 a (kind_num k)); [apply kind_num_lt|reflexivity]. Qed.
Lemma akey_inj k a a' : akey k a = akey k a' -> a = a'.
Proof. intros H. rewrite <- (akey_div k a), <- (akey_div k a'), H. reflexivity. Qed.
Lemma akey_kind_ne k k' a a' : kind_num k <> kind_num k' -> akey k a <> akey k' a'.
Proof. intros Hne H. apply Hne. rewrite <- (akey_mod k a), <- (akey_mod k' a'), H. reflexivity. Qed.

(* assets_of_kind lists exactly the store entries of that kind *)
Lemma assets_of_kind_In pr k a v :
  In (a, v) (assets_of_kind pr k) <-> a_store pr !! akey k a = Some v.
Proof.
  unfold assets_of_kind. rewrite <- elem_of_list_In, elem_of_list_omap. split.
  - intros ([key v'] & Hin & Hf). apply elem_of_map_to_list in Hin.
    destruct (key `mod` 4 =? kind_num k) eqn:Em; [|discriminate]. injection Hf as <- <-.
    apply N.eqb_eq in Em.
    assert (Hk : key = akey k (key `div` 4)).
    { unfold akey. rewrite <- Em. apply (N.div_mod' key 4). }
    rewrite <- Hk. exact Hin.
  - intros Hl. exists (akey k a, v). split; [apply elem_of_map_to_list; exact Hl|].
    rewrite akey_mod, N.eqb_refl, akey_div. reflexivity.
Qed.

(* serve_all changes the download cache only *)
Definition same_assets (pr pr' : peer_state) : Prop :=
  a_store pr' = a_store pr /\ t_mat pr' = t_mat pr /\ t_mesh pr' = t_mesh pr /\ t_audio pr' = t_audio pr /\
  p_id pr' = p_id pr.
Lemma same_assets_trans a b c : same_assets a b -> same_assets b c -> same_assets a c.
Proof. unfold same_assets. intros (?&?&?&?&?) (?&?&?&?&?). repeat split; congruence. Qed.
Lemma serve_all_same pr c : same_assets pr (serve_all pr c).1.
Proof. unfold serve_all. destruct (class_enabled pr (KClass c)); repeat split; reflexivity. Qed.
Lemma same_assets_enabled pr pr' k : same_assets pr pr' -> class_enabled pr' k = class_enabled pr k.
Proof. intros (_ & Hm & Hme & Ha & _). unfold class_enabled. destruct k as [|[]]; assumption. Qed.

Lemma serve_all_In pr c a v :
  class_enabled pr (KClass c) = true -> a_store pr !! akey (KClass c) a = Some v ->
  In (MAsset c a (p_id pr)) (serve_all pr c).2.
Proof.
  intros He Hl. unfold serve_all. rewrite He. cbn [snd].
  apply elem_of_list_In, elem_of_list_fmap. exists (a, v).
  split; [reflexivity|]. apply elem_of_list_In, assets_of_kind_In. exact Hl.
Qed.

(* the cache after inserting a functional association list *)
Lemma fold_cache_hit k (l : list (uuid * N)) : forall (h : gmap N N) a v,
  (forall a' v1 v2, In (a', v1) l -> In (a', v2) l -> v1 = v2) ->
  In (a, v) l ->
  foldl (fun h '(a, v) => <[akey k a := v]> h) h l !! akey k a = Some v.
Proof.
  induction l as [|[a0 v0] l IH] using rev_ind; intros h a v Hfun Hin; [destruct Hin|].
  rewrite foldl_app. cbn [foldl].
  destruct (decide (a0 = a)) as [->|Hne].
  - rewrite lookup_insert. f_equal.
    apply (Hfun a); [apply in_or_app; right; left; reflexivity|exact Hin].
  - rewrite lookup_insert_ne by (intros Hk; apply Hne; exact (akey_inj k a0 a Hk)).
    apply in_app_or in Hin as [Hin|[Hin|[]]]; [|injection Hin as -> ->; contradiction].
    apply IH; [|exact Hin].
    intros a' v1 v2 H1 H2. apply (Hfun a'); apply in_or_app; left; assumption.
Qed.
Lemma fold_cache_other k (l : list (uuid * N)) key : forall (h : gmap N N),
  (forall a, key <> akey k a) ->
  foldl (fun h '(a, v) => <[akey k a := v]> h) h l !! key = h !! key.
Proof.
  induction l as [|[a0 v0] l IH]; intros h Hk; [reflexivity|].
  cbn [foldl]. rewrite IH by exact Hk. apply lookup_insert_ne. intros Heq. exact (Hk a0 (eq_sym Heq)).
Qed.

Lemma serve_all_cache_hit pr c a v :
  class_enabled pr (KClass c) = true -> a_store pr !! akey (KClass c) a = Some v ->
  h_cache (serve_all pr c).1 !! akey (KClass c) a = Some v.
Proof.
  intros He Hl. unfold serve_all. rewrite He. cbn [fst].
  change (foldl (fun h '(a, v) => <[akey (KClass c) a := v]> h) (h_cache pr) (assets_of_kind pr (KClass c))
            !! akey (KClass c) a = Some v).
  apply fold_cache_hit; [|apply assets_of_kind_In; exact Hl].
  intros a' v1 v2 H1 H2. apply assets_of_kind_In in H1, H2. congruence.
Qed.
Lemma serve_all_cache_other pr c key :
  (forall a, key <> akey (KClass c) a) -> h_cache (serve_all pr c).1 !! key = h_cache pr !! key.
Proof.
  intros Hk. unfold serve_all. destruct (class_enabled pr (KClass c)); [|reflexivity]. cbn [fst].
  change (foldl (fun h '(a, v) => <[akey (KClass c) a := v]> h) (h_cache pr) (assets_of_kind pr (KClass c))
            !! key = h_cache pr !! key).
  apply fold_cache_other. exact Hk.
Qed.

Lemma class_key_other c c' a : c <> c' -> forall a', akey (KClass c) a <> akey (KClass c') a'.
Proof. intros Hne a'. apply akey_kind_ne. destruct c, c'; cbn; congruence. Qed.

Theorem snapshot_complete_asset pr c a v :
  class_enabled pr (KClass c) = true -> a_store pr !! akey (KClass c) a = Some v ->
  In (MAsset c a (p_id pr)) (build_full_sync pr).2 /\
  h_cache (build_full_sync pr).1 !! akey (KClass c) a = Some v.
Proof.
  intros He Hl.
  pose proof (serve_all_same pr AImage) as S1. set (pr1 := (serve_all pr AImage).1) in *.
  pose proof (same_assets_trans _ _ _ S1 (serve_all_same pr1 AMesh)) as S2.
  set (pr2 := (serve_all pr1 AMesh).1) in *.
  assert (He1 : class_enabled pr1 (KClass c) = true) by (rewrite (same_assets_enabled _ _ _ S1); exact He).
  assert (He2 : class_enabled pr2 (KClass c) = true) by (rewrite (same_assets_enabled _ _ _ S2); exact He).
  assert (Hl1 : a_store pr1 !! akey (KClass c) a = Some v) by (rewrite (proj1 S1); exact Hl).
  assert (Hl2 : a_store pr2 !! akey (KClass c) a = Some v) by (rewrite (proj1 S2); exact Hl).
  assert (Hid1 : p_id pr1 = p_id pr) by apply S1.
  assert (Hid2 : p_id pr2 = p_id pr) by apply S2.
  split.
  - rewrite build_full_sync_snd. fold pr1. fold pr2.
    apply in_or_app. right. apply in_or_app. right.
    destruct c.
    + (* AMesh: served from pr1 *)
      apply in_or_app. right. apply in_or_app. right. apply in_or_app. left.
      rewrite <- Hid1. apply (serve_all_In pr1 AMesh a v He1 Hl1).
    + (* AImage: served from pr *)
      apply in_or_app. left. apply (serve_all_In pr AImage a v He Hl).
    + (* AAudio: served from pr2 *)
      apply in_or_app. right. apply in_or_app. right. apply in_or_app. right.
      rewrite <- Hid2. apply (serve_all_In pr2 AAudio a v He2 Hl2).
  - rewrite build_full_sync_fst. fold pr1. fold pr2.
    destruct c.
    + rewrite serve_all_cache_other by (apply class_key_other; discriminate).
      apply (serve_all_cache_hit pr1 AMesh a v He1 Hl1).
    + rewrite serve_all_cache_other by (apply class_key_other; discriminate).
      unfold pr2. rewrite serve_all_cache_other by (apply class_key_other; discriminate).
      apply (serve_all_cache_hit pr AImage a v He Hl).
    + apply (serve_all_cache_hit pr2 AAudio a v He2 Hl2).
Qed.

(* materials travel inline; every stored material is listed, the default one (id 0) included *)
Theorem snapshot_complete_material pr a v :
  t_mat pr = true -> a_store pr !! akey KMaterial a = Some v ->
  In (MMaterial a v) (build_full_sync pr).2.
Proof.
  intros Hm Hl. pose proof (serve_all_same pr AImage) as (Hs & Hm1 & _).
  rewrite build_full_sync_snd.
  apply in_or_app. right. apply in_or_app. right. apply in_or_app. right. apply in_or_app. left.
  unfold snapshot_material_msgs. rewrite Hm1, Hm.
  apply elem_of_list_In, elem_of_list_fmap. exists (a, v). split; [reflexivity|].
  apply elem_of_list_In, assets_of_kind_In. rewrite Hs. exact Hl.
Qed.

(* ---------- order: every spawn precedes every value and every link ------------------------------------ *)

Definition is_spawn (m : msg) : bool := match m with MSpawn _ => true | _ => false end.

Lemma Forall_concat_fmap {A B} (P : B -> Prop) (f : A -> list B) (l : list A) :
  (forall x, Forall P (f x)) -> Forall P (concat (f <$> l)).
Proof. intros H. induction l as [|x l IH]; cbn; [constructor|]. apply Forall_app. split; [apply H|exact IH]. Qed.

Lemma spawn_part_spawns pr : Forall (fun m => is_spawn m = true) (spawn_part pr).
Proof.
  unfold spawn_part. apply Forall_concat_fmap. intros [e en]. unfold snapshot_entity_msgs.
  destruct (en_sync en) as [su|]; [|constructor]. destruct (t_e2u pr !! e) as [u|]; [|constructor].
  cbn [firstn]. repeat constructor.
Qed.

Lemma value_part_nospawn pr : Forall (fun m => is_spawn m = false) (value_part pr).
Proof.
  unfold value_part. apply Forall_concat_fmap. intros [e en]. unfold snapshot_entity_msgs.
  destruct (en_sync en) as [su|]; [|constructor]. destruct (t_e2u pr !! e) as [u|]; [|constructor].
  cbn [skipn]. apply Forall_forall. intros m Hm. apply elem_of_list_omap in Hm as ([t c] & _ & Hm).
  destruct (memN t (p_sync_types pr) && negb (memN t (en_excl en))); [|discriminate].
  injection Hm as <-. destruct (c_val c); reflexivity.
Qed.

Lemma parent_part_nospawn pr : Forall (fun m => is_spawn m = false) (parent_part pr).
Proof.
  unfold parent_part. apply Forall_concat_fmap. intros [e en]. unfold snapshot_parent_msgs.
  destruct (en_sync en) as [su|]; [|constructor]. destruct (en_parent en) as [[q tk]|]; [|constructor].
  destruct (t_e2u pr !! e) as [u|]; [|constructor]. destruct (t_e2u pr !! q) as [pu|]; repeat constructor.
Qed.

Lemma serve_all_nospawn pr c : Forall (fun m => is_spawn m = false) (serve_all pr c).2.
Proof.
  unfold serve_all. destruct (class_enabled pr (KClass c)); [|constructor]. cbn [snd].
  apply Forall_fmap, Forall_forall. intros [a v] _. reflexivity.
Qed.

Lemma material_msgs_nospawn pr : Forall (fun m => is_spawn m = false) (snapshot_material_msgs pr).
Proof.
  unfold snapshot_material_msgs. destruct (t_mat pr); [|constructor].
  apply Forall_fmap, Forall_forall. intros [a v] _. reflexivity.
Qed.

Theorem snapshot_spawns_first pr :
  exists spawns rest,
    (build_full_sync pr).2 = spawns ++ rest /\
    Forall (fun m => is_spawn m = true) spawns /\
    Forall (fun m => is_spawn m = false) rest.
Proof.
  exists (spawn_part pr),
         (value_part pr ++ parent_part pr ++
          (serve_all pr AImage).2 ++ snapshot_material_msgs (serve_all pr AImage).1 ++
          (serve_all (serve_all pr AImage).1 AMesh).2 ++
          (serve_all (serve_all (serve_all pr AImage).1 AMesh).1 AAudio).2).
  split; [rewrite build_full_sync_snd, <- app_assoc; reflexivity|].
  split; [apply spawn_part_spawns|].
  repeat (apply Forall_app; split);
    first [apply value_part_nospawn|apply parent_part_nospawn|apply serve_all_nospawn|apply material_msgs_nospawn].
Qed.

(* the same, read at a position: whatever precedes a spawn in the snapshot is a spawn, so no
   component value and no parent link is ever ahead of the spawn of any entity *)
Lemma split_prefix_spawns (spawns rest l1 l2 : list msg) x :
  Forall (fun m => is_spawn m = true) spawns -> Forall (fun m => is_spawn m = false) rest ->
  is_spawn x = true -> spawns ++ rest = l1 ++ x :: l2 -> Forall (fun m => is_spawn m = true) l1.
Proof.
  revert l1. induction spawns as [|s sp IH]; intros l1 Hs Hr Hx Heq.
  - exfalso. cbn [app] in Heq. rewrite Heq in Hr. apply Forall_app in Hr as [_ Hr].
    apply Forall_cons in Hr as [Hr _]. congruence.
  - destruct l1 as [|y l1]; [constructor|].
    cbn [app] in Heq. injection Heq as -> Heq. apply Forall_cons in Hs as [Hs1 Hs2].
    constructor; [exact Hs1|]. apply IH; assumption.
Qed.

Corollary snapshot_nothing_before_a_spawn pr l1 u l2 :
  (build_full_sync pr).2 = l1 ++ MSpawn u :: l2 -> Forall (fun m => is_spawn m = true) l1.
Proof.
  intros Heq. destruct (snapshot_spawns_first pr) as (spawns & rest & Hsplit & Hs & Hr).
  rewrite Hsplit in Heq. exact (split_prefix_spawns spawns rest l1 l2 (MSpawn u) Hs Hr eq_refl Heq).
Qed.

(* ---------- non-vacuity: a state in which every clause has an instance ------------------------------ *)

Definition mkc (v : value) : comp := {| c_val := v; c_added := 1; c_changed := 1 |}.
Definition ex_state : peer_state :=
  init_peer 0 [T_A; T_SKIN] [T_A] []
    <| p_ents := {[ 5 := new_entity <| en_sync := Some 5 |>
                           <| en_comps := {[ T_A := mkc (VN 3); T_B := mkc (VN 4);
                                             T_SKIN := mkc (VSkin [6; 9] [1]) ]} |>
                           <| en_parent := Some (6, 1) |>;
                   6 := new_entity <| en_sync := Some 6 |>
                           <| en_comps := {[ T_A := mkc (VN 8) ]} |>
                           <| en_excl := [T_A] |>;
                   7 := new_entity ]} |>
    <| t_e2u := {[ 5 := 50; 6 := 60 ]} |>
    <| t_mat := true |> <| t_mesh := true |>
    <| a_store := {[ akey KMaterial 0 := 500; akey KMaterial 3 := 31; akey (KClass AMesh) 9 := 77;
                     akey (KClass AImage) 4 := 44; akey (KClass AAudio) 2 := 22 ]} |>.

(* spawns of both tracked entities first; T_B is not registered, T_A is excluded on 6, the
   SkinnedMesh travels as a mapper with the untracked joint dropped; audio is not enabled *)
Example ex_snapshot :
  (build_full_sync ex_state).2 =
    [MSpawn 50; MSpawn 60;
     MComp 50 T_A (VN 3); MComp 50 T_MAPPER (VMapper [60] [1]);
     MParented 50 60;
     MAsset AImage 4 0; MMaterial 0 500; MMaterial 3 31; MAsset AMesh 9 0].
Proof. vm_compute. reflexivity. Qed.
Example ex_snapshot_serves :
  h_cache (build_full_sync ex_state).1 !! akey (KClass AMesh) 9 = Some 77 /\
  h_cache (build_full_sync ex_state).1 !! akey (KClass AImage) 4 = Some 44 /\
  h_cache (build_full_sync ex_state).1 !! akey (KClass AAudio) 2 = None.
Proof. vm_compute. repeat split; reflexivity. Qed.

Print Assumptions snapshot_complete_spawn.
Print Assumptions snapshot_complete_comp.
Print Assumptions snapshot_complete_comp_memN.
Print Assumptions snapshot_complete_parent.
Print Assumptions snapshot_complete_asset.
Print Assumptions snapshot_complete_material.
Print Assumptions snapshot_spawns_first.
Print Assumptions snapshot_nothing_before_a_spawn.
