(* C15 — Published connection states and InitialSyncFinished are truthful.
   Rust: src/server/mod.rs (server_connected, server_disconnected, run conditions),
   src/client/mod.rs (set_client_to_connecting, verify_client_connected, set_client_to_disconnected),
   src/client/receiver.rs (FinishedInitialSync => InitialSyncFinished), src/server/initial_sync.rs.
   Everything is quantified over all executable orders, all oracles and all application
   operations.  Frame lemmas: SessionLemmas.v.

   1. client_state_path, client_never_skips_connecting
   2. connected_only_after_transport_connected
   3. client_back_to_disconnected_within_two_frames, server_state_tracks_hosting, and on reachable
      states client_removal_noticed, hosting_published, hosting_end_published;
      existed_bit_invariant_statement is FALSE: existed_bit_invariant_refuted (stuck_connecting),
      existed_bit_invariant_partial holds for runs whose frames do not change the client
      transport in the middle of the schedule
   4. acts_only_when_connected, acts_implies_connected, chain_idle_frame
   5. finished_event_sources, client_poll_fifo, finished_event_once_per_join,
      send_initial_sync_batch (since the repair of S21 the batch starts with the queued component
      changes, sent to every connected client: send_initial_sync_batch_pre_S21_statement is FALSE,
      send_initial_sync_batch_pre_S21_refuted; it still holds when nothing is queued:
      send_initial_sync_batch_nothing_queued), deliver_out_inbox, frame_cmdq_empty, client_poll_handles,
      finished_implies_snapshot_applied
   6. examples (vm_compute); S8_connected_while_renet_disconnected,
      connected_implies_renet_connected_refuted; cond_key_collision (model artefact) *)
From stdpp Require Import gmap list.
From Coq Require Import NArith Lia.
From RecordUpdate Require Import RecordSet.
From BS Require Import Sync.Types Sync.Model Sync.Proofs.SessionLemmas.
Import RecordSetNotations.
Local Open Scope N_scope.

(* ================================================================================================ *)
(* 0. Runs of one peer, positions inside a frame                                                     *)
(* ================================================================================================ *)

Fixpoint prun (pr : peer_state) (l : list (app_op + frame_oracle)) : peer_state :=
  match l with
  | [] => pr
  | inl op :: l' => prun (app_step pr op) l'
  | inr o :: l' => prun (frame pr o) l'
  end.

Lemma prun_app pr l1 l2 : prun pr (l1 ++ l2) = prun (prun pr l1) l2.
Proof. revert pr; induction l1 as [|[op|o] l1 IH]; intros pr; cbn [prun app]; auto. Qed.

(* the state after PreUpdate and StateTransition, and after the systems of a prefix of the order *)
Definition frame_start (pr : peer_state) (o : frame_oracle) : peer_state :=
  state_transition (pre_update (pr <| p_out := [] |>) o).
Definition run_systems (pr : peer_state) (l : list sysid) (o : frame_oracle) : peer_state :=
  foldl (fun pr s => run_system pr s o) pr l.
Definition frame_at (pr : peer_state) (o : frame_oracle) (l1 : list sysid) : peer_state :=
  run_systems (frame_start pr o) l1 o.
Definition frame_end (pr : peer_state) : peer_state :=
  last_schedule (match p_panic pr with Some _ => pr | None => flush pr end).

(* P holds at every position of the Update schedule of this frame (before each system, and
   after the last one) *)
Definition during (pr : peer_state) (o : frame_oracle) (P : peer_state -> Prop) : Prop :=
  forall l1 l2, p_order pr = l1 ++ l2 -> P (frame_at pr o l1).

(* each of the five state systems occurs exactly once, anywhere; everything else is arbitrary *)
Definition once (s : sysid) (l : list sysid) : Prop :=
  exists l1 l2, l = l1 ++ s :: l2 /\ s ∉ l1 /\ s ∉ l2.
Definition order_has_state_systems (l : list sysid) : Prop :=
  once SSrvConnected l /\ once SSrvDisconnected l /\ once SCliConnecting l /\ once SCliVerify l
  /\ once SCliDisconnected l.

(* the transitions ClientState may make *)
Definition cedge (a b : cstate) : Prop :=
  match a, b with
  | CliDisconnected, CliConnecting | CliConnecting, CliConnected
  | CliConnected, CliDisconnected | CliConnecting, CliDisconnected => True
  | _, _ => False
  end.

(* ---------- session abstraction of one schedule position -------------------------------------- *)

Definition bit (pr : peer_state) (k : N) : bool := default false (p_cond_bit pr !! k).
Definition bitupd (k : N) (ex : bool) (m : gmap N bool) : gmap N bool :=
  if ex then <[k := true]> m else if default false (m !! k) then <[k := false]> m else m.
Definition srv_added (pr : peer_state) : bool :=
  match n_srv_transport pr with Some t => last_run pr (ckey 10) <? t | None => false end.
Definition cli_added (pr : peer_state) : bool :=
  match n_cli_transport pr with Some (_, t) => last_run pr (ckey 23) <? t | None => false end.

(* the body of a state system runs *)
Definition fires (pr : peer_state) (s : sysid) : bool :=
  match s with
  | SSrvConnected => n_setup pr && negb (is_srv_connected (s_server pr)) && srv_added pr
  | SSrvDisconnected =>
      n_setup pr && is_srv_connected (s_server pr) && negb (is_some (n_srv_transport pr)) && bit pr 11
  | SCliConnecting => n_setup pr && is_cli_disconnected (s_client pr) && cli_added pr
  | SCliVerify => n_setup pr && is_some (n_cli_transport pr) && is_cli_connecting (s_client pr)
  | SCliDisconnected =>
      n_setup pr && negb (is_cli_disconnected (s_client pr)) && negb (is_some (n_cli_transport pr)) && bit pr 25
  | _ => false
  end.

Definition is_rconnected (r : renet_status) : bool := match r with RConnected => true | _ => false end.

Definition next_client_after (pr : peer_state) (s : sysid) : option cstate :=
  match s with
  | SCliConnecting => if fires pr s then Some CliConnecting else s_next_client pr
  | SCliVerify => if fires pr s && is_rconnected (n_status pr) then Some CliConnected else s_next_client pr
  | SCliDisconnected => if fires pr s then Some CliDisconnected else s_next_client pr
  | _ => s_next_client pr
  end.
Definition next_server_after (pr : peer_state) (s : sysid) : option sstate :=
  match s with
  | SSrvConnected => if fires pr s then Some SrvConnected else s_next_server pr
  | SSrvDisconnected => if fires pr s then Some SrvDisconnected else s_next_server pr
  | _ => s_next_server pr
  end.
Definition bits_after (pr : peer_state) (s : sysid) : gmap N bool :=
  match s with
  | SSrvDisconnected => bitupd 11 (is_some (n_srv_transport pr)) (p_cond_bit pr)
  | SCliDisconnected => bitupd 25 (is_some (n_cli_transport pr)) (p_cond_bit pr)
  | _ => p_cond_bit pr
  end.

(* the tick counter only advances; new last-run entries are stamped inside the interval *)
Definition clock_le (pr pr' : peer_state) : Prop :=
  p_tick pr <= p_tick pr' /\
  forall k t, p_last_run pr' !! k = Some t -> p_last_run pr !! k = Some t \/ (p_tick pr <= t /\ t < p_tick pr').

Lemma clock_le_refl pr : clock_le pr pr.
Proof. split; [lia|]. auto. Qed.
Lemma clock_le_trans a b c : clock_le a b -> clock_le b c -> clock_le a c.
Proof.
  intros [H1 H2] [H3 H4]. split; [lia|]. intros k t H.
  destruct (H4 k t H) as [H5|H5]; [|right; lia].
  destruct (H2 k t H5) as [H6|H6]; [auto|right; lia].
Qed.

Lemma clock_le_insert pr pr' k :
  p_tick pr' = p_tick pr + 1 -> p_last_run pr' = <[k := p_tick pr]> (p_last_run pr) -> clock_le pr pr'.
Proof.
  intros Ht Hl. split; [lia|]. intros k' t. rewrite Hl.
  destruct (decide (k = k')) as [->|Hne].
  - rewrite lookup_insert. intros [= <-]. right. lia.
  - rewrite lookup_insert_ne by exact Hne. auto.
Qed.

#[local] Instance sysid_eq_dec : EqDecision sysid.
Proof. solve_decision. Defined.

(* what one schedule position does to the session fields (exact for the state systems) *)
Definition fin_after (pr : peer_state) (s : sysid) (pr' : peer_state) : N :=
  match s with
  | SSrvConnected => if fires pr s then p_finished_events pr + 1 else p_finished_events pr
  | SCliPoll => p_finished_events pr'
  | _ => p_finished_events pr
  end.

Record pos_spec (pr : peer_state) (s : sysid) (pr' : peer_state) : Prop := {
  ps_client : s_client pr' = s_client pr;
  ps_server : s_server pr' = s_server pr;
  ps_setup : n_setup pr' = n_setup pr;
  ps_order : p_order pr' = p_order pr;
  ps_next_client : s_next_client pr' = next_client_after pr s;
  ps_next_server : s_next_server pr' = next_server_after pr s;
  ps_bits : p_cond_bit pr' = bits_after pr s;
  ps_tv : tv pr' = tv pr;
  ps_fin : p_finished_events pr' = fin_after pr s pr';
  ps_clock : clock_le pr pr';
  ps_last_run : forall k, k <> sys_key s -> k <> ckey (sys_key s) -> p_last_run pr' !! k = p_last_run pr !! k;
  ps_cmdq : forall k, k <> sys_key s -> p_cmdq pr' !! k = p_cmdq pr !! k;
}.

Lemma g1k_elim k a b :
  g1k k a = g1k k b ->
  c1 a = c1 b /\ tv a = tv b /\ p_finished_events a = p_finished_events b
  /\ delete k (p_cmdq a) = delete k (p_cmdq b).
Proof.
  intros H. repeat split.
  - exact (f_equal (fun x => x.1.1.1) H).
  - exact (f_equal (fun x => x.1.1.2) H).
  - exact (f_equal (fun x => x.1.2) H).
  - exact (f_equal snd H).
Qed.

Lemma g2k_elim k a b :
  g2k k a = g2k k b ->
  c1 a = c1 b /\ tv a = tv b /\ delete k (p_cmdq a) = delete k (p_cmdq b).
Proof.
  intros H. repeat split.
  - exact (f_equal (fun x => x.1.1) H).
  - exact (f_equal (fun x => x.1.2) H).
  - exact (f_equal snd H).
Qed.

Lemma delete_eq_lookup {A} k (m1 m2 : gmap N A) k' :
  delete k m1 = delete k m2 -> k' <> k -> m1 !! k' = m2 !! k'.
Proof.
  intros H Hne. rewrite <- (lookup_delete_ne m1 k k') by auto.
  rewrite <- (lookup_delete_ne m2 k k') by auto. rewrite H. reflexivity.
Qed.

Lemma neutral_after pr s :
  neutral_sys s = true ->
  next_client_after pr s = s_next_client pr /\ next_server_after pr s = s_next_server pr
  /\ bits_after pr s = p_cond_bit pr /\ (forall pr', fin_after pr s pr' = p_finished_events pr).
Proof. destruct s; try discriminate; intros _; repeat split; reflexivity. Qed.

Lemma pos_spec_id pr s :
  (next_client_after pr s = s_next_client pr) -> (next_server_after pr s = s_next_server pr) ->
  (bits_after pr s = p_cond_bit pr) -> (fin_after pr s pr = p_finished_events pr) -> pos_spec pr s pr.
Proof. intros; split; auto using clock_le_refl. Qed.

(* a state that differs from [tickonly pr k] in none of the g1 fields *)
Lemma pos_spec_tickonly pr s pr' :
  c1 pr' = c1 (tickonly pr (sys_key s)) -> tv pr' = tv pr ->
  delete (sys_key s) (p_cmdq pr') = delete (sys_key s) (p_cmdq pr) ->
  (next_client_after pr s = s_next_client pr) -> (next_server_after pr s = s_next_server pr) ->
  (bits_after pr s = p_cond_bit pr) -> (p_finished_events pr' = fin_after pr s pr') -> pos_spec pr s pr'.
Proof.
  intros Hc Ht Hq H1 H2 H3 H4. unfold c1, tickonly, end_run in Hc. cbn in Hc.
  injection Hc as E1 E2 E3 E4 E5 E6 E7 E8 E9.
  split; try congruence.
  - eapply clock_le_insert; eauto.
  - intros k Hk _. rewrite E9. apply lookup_insert_ne. auto.
  - intros k Hk. eapply delete_eq_lookup; eauto.
Qed.

Lemma run_system_cases pr s o :
  p_panic pr = None -> neutral_sys s = true ->
  run_system pr s o = pr \/ run_system pr s o = run_body pr s o.
Proof.
  intros Hp Hs. unfold run_system. rewrite Hp.
  destruct s; try discriminate Hs; cbv beta iota zeta; repeat case_match; auto.
Qed.

Lemma run_system_panicked pr s o x : p_panic pr = Some x -> run_system pr s o = pr.
Proof. intros H. unfold run_system. rewrite H. reflexivity. Qed.

Lemma run_system_spec_neutral pr s o :
  p_panic pr = None -> neutral_sys s = true -> pos_spec pr s (run_system pr s o).
Proof.
  intros Hp Hs. destruct (neutral_after pr s Hs) as (N1 & N2 & N3 & N4).
  destruct (run_system_cases pr s o Hp Hs) as [-> | ->].
  - apply pos_spec_id; auto.
  - destruct (g1k_elim _ _ _ (run_body_neutral pr s o Hs)) as (Hc & Ht & Hf & Hq).
    apply pos_spec_tickonly; auto.
    rewrite N4. exact Hf.
Qed.

Lemma run_system_spec_clipoll pr o :
  p_panic pr = None -> pos_spec pr SCliPoll (run_system pr SCliPoll o).
Proof.
  intros Hp. unfold run_system. rewrite Hp. cbv beta iota zeta.
  destruct (client_gate pr).
  - destruct (g2k_elim _ _ _ (run_body_clipoll pr o)) as (Hc & Ht & Hq).
    apply pos_spec_tickonly; auto.
  - apply pos_spec_id; reflexivity.
Qed.

Lemma clock_le_2 pr pr' k1 k2 :
  p_tick pr' = p_tick pr + 1 + 1 ->
  p_last_run pr' = <[k2 := p_tick pr + 1]> (<[k1 := p_tick pr]> (p_last_run pr)) -> clock_le pr pr'.
Proof.
  intros Ht Hl. split; [lia|]. intros k' t. rewrite Hl.
  destruct (decide (k2 = k')) as [->|Hne].
  - rewrite lookup_insert. intros [= <-]. right. lia.
  - rewrite lookup_insert_ne by exact Hne.
    destruct (decide (k1 = k')) as [->|Hne'].
    + rewrite lookup_insert. intros [= <-]. right. lia.
    + rewrite lookup_insert_ne by exact Hne'. auto.
Qed.

Ltac spec_goal :=
  first [ reflexivity | assumption | congruence | (split; cbn; [lia | intros; auto]; fail) | (eapply clock_le_insert; reflexivity)
        | (eapply clock_le_2; reflexivity)
        | (intros; cbn; rewrite ?lookup_insert_ne by (unfold ckey in *; cbn in *; congruence); reflexivity) ].

Lemma run_system_spec_clidisconnected pr o :
  p_panic pr = None -> pos_spec pr SCliDisconnected (run_system pr SCliDisconnected o).
Proof.
  intros Hp. unfold run_system. rewrite Hp. cbv beta iota zeta.
  unfold cond_resource_removed. cbn [sys_key].
  destruct (n_cli_transport pr) as [[h t]|] eqn:Et; cbn [is_some];
  (destruct (p_cond_bit pr !! 25) as [[]|] eqn:Eb; cbn [default]);
  destruct (n_setup pr) eqn:Es; destruct (s_client pr) eqn:Ec; cbn.
  all: split; unfold next_client_after, next_server_after, bits_after, fin_after, fires, bit, bitupd, tv; cbn;
    rewrite ?Et, ?Eb, ?Es, ?Ec; cbn.
  all: spec_goal.
Qed.

Ltac spec_unf :=
  split; unfold next_client_after, next_server_after, bits_after, fin_after, fires, bit, bitupd, tv,
    srv_added, cli_added, last_run; cbn.

Lemma run_system_spec_srvdisconnected pr o :
  p_panic pr = None -> pos_spec pr SSrvDisconnected (run_system pr SSrvDisconnected o).
Proof.
  intros Hp. unfold run_system. rewrite Hp. cbv beta iota zeta.
  unfold cond_resource_removed. cbn [sys_key].
  destruct (n_srv_transport pr) as [t|] eqn:Et; cbn [is_some];
  (destruct (p_cond_bit pr !! 11) as [[]|] eqn:Eb; cbn [default]);
  destruct (n_setup pr) eqn:Es; destruct (s_server pr) eqn:Ec; cbn.
  all: spec_unf; rewrite ?Et, ?Eb, ?Es, ?Ec; cbn.
  all: spec_goal.
Qed.

Lemma run_system_spec_srvconnected pr o :
  p_panic pr = None -> pos_spec pr SSrvConnected (run_system pr SSrvConnected o).
Proof.
  intros Hp. unfold run_system. rewrite Hp. cbv beta iota zeta.
  unfold cond_resource_added, begin_run, end_run, last_run. cbn [sys_key].
  destruct (n_srv_transport pr) as [t|] eqn:Et; cbn;
  [destruct (default 0 (p_last_run pr !! ckey 10) <? t) eqn:El|];
  destruct (n_setup pr) eqn:Es; destruct (s_server pr) eqn:Ec; cbn.
  all: spec_unf; rewrite ?Et, ?Es, ?Ec; cbn; rewrite ?El; cbn.
  all: spec_goal.
Qed.

Lemma run_system_spec_cliconnecting pr o :
  p_panic pr = None -> pos_spec pr SCliConnecting (run_system pr SCliConnecting o).
Proof.
  intros Hp. unfold run_system. rewrite Hp. cbv beta iota zeta.
  unfold cond_resource_added, begin_run, end_run, last_run. cbn [sys_key].
  destruct (n_cli_transport pr) as [[h t]|] eqn:Et; cbn;
  [destruct (default 0 (p_last_run pr !! ckey 23) <? t) eqn:El|];
  destruct (n_setup pr) eqn:Es; destruct (s_client pr) eqn:Ec; cbn.
  all: spec_unf; rewrite ?Et, ?Es, ?Ec; cbn; rewrite ?El; cbn.
  all: spec_goal.
Qed.

Lemma run_system_spec_cliverify pr o :
  p_panic pr = None -> pos_spec pr SCliVerify (run_system pr SCliVerify o).
Proof.
  intros Hp. unfold run_system. rewrite Hp. cbv beta iota zeta.
  unfold run_body, verify_client_connected, begin_run, end_run, push_cmd. cbn [sys_key].
  destruct (n_cli_transport pr) as [[h t]|] eqn:Et; cbn;
  destruct (n_setup pr) eqn:Es; destruct (s_client pr) eqn:Ec; cbn;
  try (destruct (n_status pr) eqn:En; cbn; try (destruct (t_promo pr) eqn:Ep; cbn)).
  all: spec_unf; rewrite ?Et, ?Es, ?Ec; cbn; rewrite ?En; cbn.
  all: spec_goal.
Qed.

Lemma run_system_spec pr s o :
  p_panic pr = None -> s <> SSync -> pos_spec pr s (run_system pr s o).
Proof.
  intros Hp Hs. destruct (neutral_sys s) eqn:Hn; [apply run_system_spec_neutral; auto|].
  destruct s; try discriminate Hn; try congruence;
    auto using run_system_spec_clipoll, run_system_spec_cliverify, run_system_spec_cliconnecting,
      run_system_spec_srvconnected, run_system_spec_srvdisconnected, run_system_spec_clidisconnected.
Qed.

(* ---------- flush as a schedule position, panicked states -------------------------------------- *)

Lemma flush_c1 pr : c1 (flush pr) = c1 pr /\ p_finished_events (flush pr) = p_finished_events pr.
Proof. pose proof (cf_flush pr) as H. split; [exact (f_equal fst H) | exact (f_equal snd H)]. Qed.

Lemma run_system_sync pr o : p_panic pr = None -> run_system pr SSync o = flush pr.
Proof. intros H. unfold run_system. rewrite H. reflexivity. Qed.

(* the fields every schedule position leaves alone *)
Definition cA (pr : peer_state) := (s_client pr, s_server pr, n_setup pr, p_order pr).

Lemma c1_cA a b : c1 a = c1 b -> cA a = cA b.
Proof. unfold c1, cA. intros H. injection H; intros; congruence. Qed.

Lemma run_system_cA pr s o : cA (run_system pr s o) = cA pr.
Proof.
  destruct (p_panic pr) eqn:Hp; [erewrite run_system_panicked; eauto|].
  destruct (decide (s = SSync)) as [->|Hs].
  - rewrite run_system_sync by auto. apply c1_cA, flush_c1.
  - destruct (run_system_spec pr s o Hp Hs). unfold cA. congruence.
Qed.

Lemma run_systems_snoc pr l s o : run_systems pr (l ++ [s]) o = run_system (run_systems pr l o) s o.
Proof. unfold run_systems. rewrite foldl_app. reflexivity. Qed.

Lemma run_systems_app pr l1 l2 o : run_systems pr (l1 ++ l2) o = run_systems (run_systems pr l1 o) l2 o.
Proof. unfold run_systems. apply foldl_app. Qed.

Lemma run_systems_ind (P : list sysid -> peer_state -> Prop) st o :
  P [] st ->
  (forall l s m, m = run_systems st l o -> P l m -> P (l ++ [s]) (run_system m s o)) ->
  forall l, P l (run_systems st l o).
Proof.
  intros H0 Hs l. induction l as [|s l IH] using rev_ind; [exact H0|].
  rewrite run_systems_snoc. apply Hs; [reflexivity|exact IH].
Qed.

Lemma run_systems_cA st l o : cA (run_systems st l o) = cA st.
Proof.
  apply (run_systems_ind (fun _ m => cA m = cA st)); [reflexivity|].
  intros ? s m _ IH. rewrite run_system_cA. exact IH.
Qed.

Lemma run_systems_panicked pr l o x : p_panic pr = Some x -> run_systems pr l o = pr.
Proof.
  intros H. induction l as [|s l IH] using rev_ind; [reflexivity|].
  rewrite run_systems_snoc, IH. eapply run_system_panicked; eauto.
Qed.

(* no panic at the end of the schedule => none at any earlier position *)
Lemma run_systems_no_panic st l1 l2 o :
  p_panic (run_systems st (l1 ++ l2) o) = None -> p_panic (run_systems st l1 o) = None.
Proof.
  rewrite run_systems_app. destruct (p_panic (run_systems st l1 o)) eqn:E; [|reflexivity].
  erewrite run_systems_panicked by eauto. rewrite E. discriminate.
Qed.

(* ---------- PreUpdate + StateTransition ---------------------------------------------------------- *)

Record start_spec (pr : peer_state) (o : frame_oracle) (st : peer_state) : Prop := {
  ss_client : s_client st = default (s_client pr) (s_next_client pr);
  ss_server : s_server st = default (s_server pr) (s_next_server pr);
  ss_next_client : s_next_client st = None;
  ss_next_server : s_next_server st = None;
  ss_setup : n_setup st = n_setup pr;
  ss_order : p_order st = p_order pr;
  ss_bits : p_cond_bit st = p_cond_bit pr;
  ss_tv : tv st = tv pr;
  ss_fin : p_finished_events st = p_finished_events pr;
  ss_tick : p_tick st = p_tick pr;
  ss_last_run : p_last_run st = p_last_run pr;
  ss_cmdq : p_cmdq st = p_cmdq pr;
  ss_panic : p_panic st = p_panic pr;
  ss_status : n_status st = default (n_status pr) (fo_status o);
}.

Lemma frame_start_spec pr o : start_spec pr o (frame_start pr o).
Proof.
  unfold frame_start, state_transition, pre_update, send_up. cbv zeta.
  destruct (fo_status o) as [rs|] eqn:E0; cbn;
  (destruct (s_next_client pr) as [c|] eqn:E1; cbn);
  (destruct (s_next_server pr) as [s|] eqn:E2; cbn);
  repeat case_match; split; cbn; rewrite ?E0, ?E1, ?E2; reflexivity.
Qed.

Lemma frame_unfold pr o :
  p_panic pr = None -> frame pr o = frame_end (frame_at pr o (p_order pr)).
Proof.
  intros Hp. unfold frame. rewrite Hp. cbv zeta. unfold frame_end, frame_at, run_systems.
  fold (frame_start pr o). rewrite (ss_order _ _ _ (frame_start_spec pr o)). reflexivity.
Qed.

Lemma frame_panicked pr o x : p_panic pr = Some x -> frame pr o = pr.
Proof. intros H. unfold frame. rewrite H. reflexivity. Qed.

(* the end of a frame leaves the c1 fields alone, except that the last schedule advances the tick *)
Lemma frame_end_c1 pr :
  c1 (frame_end pr) = (s_client pr, s_server pr, s_next_client pr, s_next_server pr, n_setup pr, p_order pr,
                       p_cond_bit pr, p_tick pr + 1, p_last_run pr)
  /\ p_finished_events (frame_end pr) = p_finished_events pr.
Proof.
  unfold frame_end, last_schedule. destruct (p_panic pr); [split; reflexivity|].
  destruct (flush_c1 pr) as [H1 H2]. split; [|rewrite <- H2; reflexivity].
  unfold c1 in H1. injection H1 as E1 E2 E3 E4 E5 E6 E7 E8 E9.
  set (fl := flush pr) in *.
  transitivity (s_client fl, s_server fl, s_next_client fl, s_next_server fl, n_setup fl, p_order fl,
                p_cond_bit fl, p_tick fl + 1, p_last_run fl); [reflexivity|].
  congruence.
Qed.
Lemma frame_end_cA pr : cA (frame_end pr) = cA pr.
Proof.
  destruct (frame_end_c1 pr) as [Hc _].
  exact (f_equal (fun c => (fst (fst (fst (fst (fst (fst (fst (fst c))))))), snd (fst (fst (fst (fst (fst (fst (fst c))))))),
                            snd (fst (fst (fst (fst c)))), snd (fst (fst (fst c))))) Hc).
Qed.

Lemma frame_at_cA pr o l : cA (frame_at pr o l) = (default (s_client pr) (s_next_client pr),
  default (s_server pr) (s_next_server pr), n_setup pr, p_order pr).
Proof.
  unfold frame_at. rewrite run_systems_cA. destruct (frame_start_spec pr o). unfold cA. congruence.
Qed.

(* ================================================================================================ *)
(* 1. client_state_path                                                                              *)
(* ================================================================================================ *)

Definition nc_ok (c : cstate) (n : option cstate) : Prop :=
  match n with None => True | Some v => cedge c v end.
(* the pending NextState<ClientState>, if any, is a legal successor of the published state *)
Definition next_client_legal (pr : peer_state) : Prop := nc_ok (s_client pr) (s_next_client pr).

Lemma next_client_after_ok pr s :
  nc_ok (s_client pr) (s_next_client pr) -> nc_ok (s_client pr) (next_client_after pr s).
Proof.
  intros H. destruct s; try exact H; unfold next_client_after, fires.
  - destruct (n_setup pr); [|exact H]. destruct (s_client pr); try exact H.
    cbn. destruct (cli_added pr); [exact I|exact H].
  - destruct (n_setup pr); [|exact H]. destruct (is_some (n_cli_transport pr)); [|exact H].
    destruct (s_client pr); try exact H. cbn. destruct (is_rconnected (n_status pr)); [exact I|exact H].
  - destruct (n_setup pr); [|exact H]. destruct (s_client pr); try exact H; cbn;
    destruct (is_some (n_cli_transport pr)); try exact H; cbn; destruct (bit pr 25); try exact H; exact I.
Qed.

Lemma run_system_next_client_legal pr s o :
  next_client_legal pr -> next_client_legal (run_system pr s o).
Proof.
  unfold next_client_legal. intros H.
  destruct (p_panic pr) eqn:Hp; [erewrite run_system_panicked; eauto|].
  destruct (decide (s = SSync)) as [->|Hs].
  - rewrite run_system_sync by auto. destruct (flush_c1 pr) as [Hc _].
    unfold c1 in Hc. injection Hc; intros. congruence.
  - destruct (run_system_spec pr s o Hp Hs). rewrite ps_client0, ps_next_client0.
    apply next_client_after_ok, H.
Qed.

Lemma frame_next_client_legal pr o : next_client_legal pr -> next_client_legal (frame pr o).
Proof.
  intros H. destruct (p_panic pr) eqn:Hp; [erewrite frame_panicked; eauto|].
  rewrite frame_unfold by auto.
  assert (next_client_legal (frame_at pr o (p_order pr))) as H1.
  { unfold frame_at. apply (run_systems_ind (fun _ m => next_client_legal m)).
    - unfold next_client_legal. rewrite (ss_next_client _ _ _ (frame_start_spec pr o)). exact I.
    - intros ? s m _. apply run_system_next_client_legal. }
  unfold next_client_legal in *. destruct (frame_end_c1 (frame_at pr o (p_order pr))) as [Hc _].
  unfold c1 in Hc. injection Hc; intros. congruence.
Qed.

Lemma frame_s_client pr o :
  p_panic pr = None -> s_client (frame pr o) = default (s_client pr) (s_next_client pr).
Proof.
  intros Hp. rewrite frame_unfold by auto.
  pose proof (frame_end_cA (frame_at pr o (p_order pr))) as Hc.
  rewrite frame_at_cA in Hc. unfold cA in Hc. injection Hc; intros; congruence.
Qed.

Lemma frame_s_server pr o :
  p_panic pr = None -> s_server (frame pr o) = default (s_server pr) (s_next_server pr).
Proof.
  intros Hp. rewrite frame_unfold by auto.
  pose proof (frame_end_cA (frame_at pr o (p_order pr))) as Hc.
  rewrite frame_at_cA in Hc. unfold cA in Hc. injection Hc; intros; congruence.
Qed.

(* one frame: the published state stays or moves along an edge *)
Lemma frame_client_edge pr o :
  next_client_legal pr ->
  s_client (frame pr o) = s_client pr \/ cedge (s_client pr) (s_client (frame pr o)).
Proof.
  intros H. destruct (p_panic pr) eqn:Hp; [erewrite frame_panicked; eauto|].
  rewrite frame_s_client by auto. unfold next_client_legal in H.
  destruct (s_next_client pr); cbn; auto.
Qed.

(* ---------- application operations ------------------------------------------------------------- *)

(* what no application operation writes *)
Definition AV {T F Q} (x : (cstate * sstate * option cstate * option sstate * bool * list sysid
                            * gmap N bool * tick * gmap N tick) * T * F * Q) :=
  let '((sc, ss, nc, ns, _, _, bits, tk, lr), _, f, q) := x in (sc, ss, nc, ns, bits, tk, lr, f, q).
Notation av pr := (AV (g0 pr)).

Lemma av_app_step pr op : av (app_step pr op) = av pr.
Proof. destruct op; unfold app_step; proj_solve. Qed.

Record app_spec (pr pr' : peer_state) : Prop := {
  as_client : s_client pr' = s_client pr;
  as_server : s_server pr' = s_server pr;
  as_next_client : s_next_client pr' = s_next_client pr;
  as_next_server : s_next_server pr' = s_next_server pr;
  as_bits : p_cond_bit pr' = p_cond_bit pr;
  as_tick : p_tick pr' = p_tick pr;
  as_last_run : p_last_run pr' = p_last_run pr;
  as_fin : p_finished_events pr' = p_finished_events pr;
  as_cmdq : p_cmdq pr' = p_cmdq pr;
}.

Lemma app_step_spec pr op : app_spec pr (app_step pr op).
Proof.
  pose proof (av_app_step pr op) as H. unfold AV, g0, c1 in H.
  injection H; intros. split; assumption.
Qed.

Lemma prun_inv (ok : app_op -> Prop) (P : peer_state -> Prop) :
  (forall pr op, ok op -> P pr -> P (app_step pr op)) -> (forall pr o, P pr -> P (frame pr o)) ->
  forall l pr, (forall op, inl op ∈ l -> ok op) -> P pr -> P (prun pr l).
Proof.
  intros Ha Hf. induction l as [|[op|o] l IH]; intros pr Hok Hpr; cbn [prun]; [exact Hpr| |].
  - apply IH; [intros; apply Hok; right; auto|]. apply Ha; [apply Hok; left|exact Hpr].
  - apply IH; [intros; apply Hok; right; auto|]. apply Hf, Hpr.
Qed.

Lemma prun_inv' (P : peer_state -> Prop) :
  (forall pr op, P pr -> P (app_step pr op)) -> (forall pr o, P pr -> P (frame pr o)) ->
  forall l pr, P pr -> P (prun pr l).
Proof. intros Ha Hf l pr. apply (prun_inv (fun _ => True)); auto. Qed.

Lemma prun_next_client_legal id st rg ord l : next_client_legal (prun (init_peer id st rg ord) l).
Proof.
  apply prun_inv'; [| apply frame_next_client_legal | exact I].
  intros pr op. unfold next_client_legal. destruct (app_step_spec pr op). congruence.
Qed.

(* Every change of the published ClientState between two consecutive points of a run (an
   application operation or a whole frame) is one of Disconnected->Connecting,
   Connecting->Connected, Connected->Disconnected, Connecting->Disconnected. *)
Theorem client_state_path id st rg ord l x :
  let pr := prun (init_peer id st rg ord) l in
  let pr' := prun pr [x] in
  s_client pr' = s_client pr \/ cedge (s_client pr) (s_client pr').
Proof.
  cbv zeta. destruct x as [op|o]; cbn [prun].
  - left. apply app_step_spec.
  - apply frame_client_edge, prun_next_client_legal.
Qed.

(* in particular Disconnected -> Connected and Connected -> Connecting never happen *)
Corollary client_never_skips_connecting id st rg ord l o :
  let pr := prun (init_peer id st rg ord) l in
  (s_client pr = CliDisconnected -> s_client (frame pr o) <> CliConnected)
  /\ (s_client pr = CliConnected -> s_client (frame pr o) <> CliConnecting).
Proof.
  cbv zeta. pose proof (client_state_path id st rg ord l (inr o)) as H. cbn [prun] in H.
  split; intros E E'; rewrite E, E' in H; destruct H as [H|H]; try discriminate; exact H.
Qed.

(* ================================================================================================ *)
(* 2. connected_only_after_transport_connected                                                       *)
(* ================================================================================================ *)

Lemma next_client_connected_witness st o l :
  s_next_client st <> Some CliConnected ->
  s_next_client (run_systems st l o) = Some CliConnected ->
  exists l1 l2, l = l1 ++ SCliVerify :: l2 /\
    let m := run_systems st l1 o in
    p_panic m = None /\ fires m SCliVerify = true /\ n_status m = RConnected.
Proof.
  intros H0. apply (run_systems_ind (fun l m => s_next_client m = Some CliConnected ->
    exists l1 l2, l = l1 ++ SCliVerify :: l2 /\
      let m := run_systems st l1 o in p_panic m = None /\ fires m SCliVerify = true /\ n_status m = RConnected)).
  { intros H; contradiction. }
  clear l. intros l s m Em IH H.
  assert (s_next_client m = Some CliConnected -> exists l1 l2, l ++ [s] = l1 ++ SCliVerify :: l2 /\
      let m := run_systems st l1 o in p_panic m = None /\ fires m SCliVerify = true /\ n_status m = RConnected) as IH'.
  { intros Hm. destruct (IH Hm) as (l1 & l2 & -> & Hw). exists l1, (l2 ++ [s]).
    split; [rewrite <- app_assoc; reflexivity|exact Hw]. }
  destruct (p_panic m) eqn:Hp; [erewrite run_system_panicked in H by eauto; auto|].
  destruct (decide (s = SSync)) as [->|Hs].
  { rewrite run_system_sync in H by auto. destruct (flush_c1 m) as [Hc _].
    unfold c1 in Hc. injection Hc; intros. apply IH'. congruence. }
  destruct (run_system_spec m s o Hp Hs). rewrite ps_next_client0 in H.
  destruct s; try (apply IH'; exact H); unfold next_client_after in H.
  - destruct (fires m SCliConnecting); [discriminate|exact (IH' H)].
  - destruct (fires m SCliVerify) eqn:Hf; [|exact (IH' H)]. destruct (n_status m) eqn:Hn; cbn in H; try exact (IH' H).
    exists l, []. split; [reflexivity|]. cbv zeta. rewrite <- Em. auto.
  - destruct (fires m SCliDisconnected); [discriminate|exact (IH' H)].
Qed.

(* ClientState becomes Connected in frame k+1 only if in frame k verify_client_connected ran,
   in state Connecting, with a client transport present and the renet client reporting
   Connected: never "Connected before the transport is connected". *)
Theorem connected_only_after_transport_connected pr o o' :
  s_client (frame pr o) <> CliConnected ->
  s_client (frame (frame pr o) o') = CliConnected ->
  exists l1 l2, p_order pr = l1 ++ SCliVerify :: l2 /\
    let m := frame_at pr o l1 in
    p_panic m = None /\ n_setup m = true /\ n_cli_transport m <> None
    /\ s_client m = CliConnecting /\ n_status m = RConnected.
Proof.
  intros H1 H2.
  destruct (p_panic (frame pr o)) eqn:Hp1; [erewrite frame_panicked in H2 by eauto; contradiction|].
  destruct (p_panic pr) eqn:Hp; [erewrite frame_panicked in Hp1 by eauto; congruence|].
  rewrite frame_s_client in H2 by auto.
  destruct (s_next_client (frame pr o)) as [c|] eqn:Hn; cbn in H2; [subst c|contradiction].
  rewrite frame_unfold in Hn by auto.
  destruct (frame_end_c1 (frame_at pr o (p_order pr))) as [Hc _].
  assert (s_next_client (frame_at pr o (p_order pr)) = Some CliConnected) as Hn'.
  { unfold c1 in Hc. injection Hc; intros. congruence. }
  unfold frame_at in Hn'. apply next_client_connected_witness in Hn'.
  2:{ rewrite (ss_next_client _ _ _ (frame_start_spec pr o)). discriminate. }
  destruct Hn' as (l1 & l2 & Ho & Hpm & Hf & Hs). exists l1, l2. split; [exact Ho|].
  cbv zeta. fold (frame_at pr o l1) in *. unfold fires in Hf.
  destruct (n_setup (frame_at pr o l1)); [|discriminate].
  destruct (n_cli_transport (frame_at pr o l1)); [|discriminate].
  destruct (s_client (frame_at pr o l1)); try discriminate. repeat split; auto.
Qed.

(* ================================================================================================ *)
(* 3. the published states follow the transports within two frames                                   *)
(* ================================================================================================ *)

(* one schedule position, any system (SSync included), on the fields the state machines read *)
Record step_spec (pr : peer_state) (s : sysid) (pr' : peer_state) : Prop := {
  st_next_client : s_next_client pr' = next_client_after pr s;
  st_next_server : s_next_server pr' = next_server_after pr s;
  st_bits : p_cond_bit pr' = bits_after pr s;
  st_clock : clock_le pr pr';
  st_last_run : forall k, k <> sys_key s -> k <> ckey (sys_key s) -> p_last_run pr' !! k = p_last_run pr !! k;
  st_fin : s <> SCliPoll -> p_finished_events pr' = fin_after pr s pr';
}.

Lemma run_system_step pr s o : p_panic pr = None -> step_spec pr s (run_system pr s o).
Proof.
  intros Hp. destruct (decide (s = SSync)) as [->|Hs].
  - rewrite run_system_sync by auto. destruct (flush_c1 pr) as [Hc Hf].
    unfold c1 in Hc. injection Hc; intros.
    split; cbn; try congruence. split; [lia|]. intros k t. rewrite H. auto.
  - destruct (run_system_spec pr s o Hp Hs). split; auto.
Qed.

Lemma bitupd_other k k' ex m : k <> k' -> default false (bitupd k ex m !! k') = default false (m !! k').
Proof.
  intros Hne. unfold bitupd. destruct ex; [rewrite lookup_insert_ne by auto; reflexivity|].
  destruct (default false (m !! k)); [rewrite lookup_insert_ne by auto|]; reflexivity.
Qed.

Lemma bit_after_other pr s pr' k :
  p_cond_bit pr' = bits_after pr s ->
  (k = 25 -> s <> SCliDisconnected) -> (k = 11 -> s <> SSrvDisconnected) -> bit pr' k = bit pr k.
Proof.
  intros H H25 H11. unfold bit. rewrite H. unfold bits_after.
  destruct s; try reflexivity; apply bitupd_other; intros <-; [apply H11|apply H25]; reflexivity.
Qed.

(* prefixes of the executable order *)
Lemma prefix_snoc {A} (l : list A) s ord : (exists l2, ord = (l ++ [s]) ++ l2) -> exists l2, ord = l ++ l2.
Proof. intros [l2 ->]. exists (s :: l2). rewrite <- app_assoc. reflexivity. Qed.

Lemma frame_at_no_panic pr o l l2 :
  p_order pr = l ++ l2 -> p_panic (frame pr o) = None -> p_panic (frame_at pr o l) = None.
Proof.
  intros Ho Hp.
  destruct (p_panic pr) eqn:Hp0; [erewrite frame_panicked in Hp by eauto; congruence|].
  rewrite frame_unfold in Hp by auto. unfold frame_at in *. rewrite Ho in Hp.
  destruct (p_panic (run_systems (frame_start pr o) (l ++ l2) o)) eqn:E.
  - unfold frame_end in Hp. rewrite E in Hp. cbn in Hp. congruence.
  - exact (run_systems_no_panic _ l l2 o E).
Qed.

Lemma frame_next_client pr o :
  p_panic pr = None -> s_next_client (frame pr o) = s_next_client (frame_at pr o (p_order pr)).
Proof.
  intros Hp. rewrite frame_unfold by auto.
  destruct (frame_end_c1 (frame_at pr o (p_order pr))) as [Hc _].
  unfold c1 in Hc. injection Hc; intros. congruence.
Qed.

Lemma frame_next_server pr o :
  p_panic pr = None -> s_next_server (frame pr o) = s_next_server (frame_at pr o (p_order pr)).
Proof.
  intros Hp. rewrite frame_unfold by auto.
  destruct (frame_end_c1 (frame_at pr o (p_order pr))) as [Hc _].
  unfold c1 in Hc. injection Hc; intros. congruence.
Qed.

Lemma frame_at_fields pr o l :
  s_client (frame_at pr o l) = default (s_client pr) (s_next_client pr)
  /\ s_server (frame_at pr o l) = default (s_server pr) (s_next_server pr)
  /\ n_setup (frame_at pr o l) = n_setup pr /\ p_order (frame_at pr o l) = p_order pr.
Proof. pose proof (frame_at_cA pr o l) as H. unfold cA in H. injection H; auto. Qed.

(* The client transport is absent during a whole frame, and resource_removed had seen it
   present (its `existed` bit is set): the next state written in this frame is Disconnected
   unless the state already is. *)
Lemma client_removal_frame pr o :
  p_panic (frame pr o) = None -> n_setup pr = true -> SCliDisconnected ∈ p_order pr ->
  (is_cli_disconnected (default (s_client pr) (s_next_client pr)) = false -> bit pr 25 = true) ->
  during pr o (fun m => n_cli_transport m = None) ->
  s_next_client (frame pr o) =
    if is_cli_disconnected (default (s_client pr) (s_next_client pr)) then None else Some CliDisconnected.
Proof.
  intros Hp Hs Hin Hb Hd.
  assert (p_panic pr = None) as Hp0.
  { destruct (p_panic pr) eqn:E; [erewrite frame_panicked in Hp by eauto; congruence|reflexivity]. }
  rewrite frame_next_client by auto.
  set (c := default (s_client pr) (s_next_client pr)).
  assert (forall l, (exists l2, p_order pr = l ++ l2) ->
    let m := frame_at pr o l in
    if is_cli_disconnected c then s_next_client m = None
    else (SCliDisconnected ∉ l -> s_next_client m = None /\ bit m 25 = true)
         /\ (SCliDisconnected ∈ l -> s_next_client m = Some CliDisconnected)) as Hinv.
  { intros l. unfold frame_at.
    apply (run_systems_ind (fun l m => (exists l2, p_order pr = l ++ l2) ->
      if is_cli_disconnected c then s_next_client m = None
      else (SCliDisconnected ∉ l -> s_next_client m = None /\ bit m 25 = true)
           /\ (SCliDisconnected ∈ l -> s_next_client m = Some CliDisconnected))).
    - intros _. destruct (frame_start_spec pr o).
      destruct (is_cli_disconnected c) eqn:Hcd; [auto|]. split.
      + intros _. split; [auto|]. unfold bit. rewrite ss_bits0. exact (Hb Hcd).
      + intros H. inversion H.
    - clear l. intros l s m Em IH Hpre. specialize (IH (prefix_snoc _ _ _ Hpre)).
      destruct Hpre as [l2 Hpre]. rewrite <- app_assoc in Hpre. cbn [app] in Hpre.
      fold (frame_at pr o l) in Em.
      assert (p_panic m = None) as Hpm by (subst m; eapply frame_at_no_panic; eauto).
      assert (n_cli_transport m = None) as Htm by (subst m; eapply Hd; eauto).
      destruct (frame_at_fields pr o l) as (Hc & _ & Hsm & _). rewrite <- Em in Hc, Hsm. fold c in Hc.
      destruct (run_system_step m s o Hpm) as [Hnc _ Hbits _ _ _].
      assert (s <> SCliDisconnected -> next_client_after m s = s_next_client m) as Hother.
      { intros Hne. destruct s; try reflexivity; try congruence; unfold next_client_after, fires, cli_added;
          rewrite Htm; cbn; rewrite ?andb_false_r; reflexivity. }
      destruct (is_cli_disconnected c) eqn:Hcd.
      + rewrite Hnc. destruct (decide (s = SCliDisconnected)) as [->|Hne]; [|rewrite Hother; auto].
        unfold next_client_after, fires. rewrite Hc, Hcd, andb_false_r. exact IH.
      + destruct IH as [IH1 IH2]. destruct (decide (s = SCliDisconnected)) as [->|Hne].
        * split; [intros Hn; exfalso; apply Hn, elem_of_app; right; left|]. intros _.
          rewrite Hnc. unfold next_client_after, fires. rewrite Hsm, Hs, Hc, Hcd, Htm. cbn.
          destruct (decide (SCliDisconnected ∈ l)) as [Hl|Hl].
          -- rewrite (IH2 Hl). destruct (bit m 25); reflexivity.
          -- destruct (IH1 Hl) as [_ ->]. reflexivity.
        * rewrite Hnc, (Hother Hne). split.
          -- intros Hn. assert (SCliDisconnected ∉ l) as Hl by (intros Hl; apply Hn, elem_of_app; auto).
             destruct (IH1 Hl) as [-> Hb']. split; [reflexivity|].
             rewrite (bit_after_other m s _ 25 Hbits); [exact Hb'|congruence|discriminate].
          -- intros Hn. apply elem_of_app in Hn as [Hl|Hl]; [auto|].
             apply elem_of_list_singleton in Hl. congruence. }
  specialize (Hinv (p_order pr) (ex_intro _ [] (eq_sym (app_nil_r _)))). cbv zeta in Hinv.
  destruct (is_cli_disconnected c); [exact Hinv|]. apply Hinv, Hin.
Qed.

(* Removal is noticed: if the application removes the client transport while the published
   state is not Disconnected, resource_removed had seen the transport, and no new transport
   appears during the next frame, then after two frames (any oracles) the state is Disconnected. *)
Theorem client_back_to_disconnected_within_two_frames pr o1 o2 :
  let pr0 := app_step pr ORemoveTransports in
  n_setup pr = true -> SCliDisconnected ∈ p_order pr -> bit pr 25 = true ->
  during pr0 o1 (fun m => n_cli_transport m = None) ->
  p_panic (frame pr0 o1) = None ->
  s_client (frame (frame pr0 o1) o2) = CliDisconnected.
Proof.
  cbv zeta. intros Hs Hin Hb Hd Hp.
  set (pr0 := app_step pr ORemoveTransports) in *.
  assert (p_panic pr0 = None) as Hp0.
  { destruct (p_panic pr0) eqn:E; [erewrite frame_panicked in Hp by eauto; congruence|reflexivity]. }
  pose proof (client_removal_frame pr0 o1 Hp Hs Hin (fun _ => Hb) Hd) as Hn.
  rewrite frame_s_client by auto. rewrite Hn. rewrite frame_s_client by auto.
  destruct (default (s_client pr0) (s_next_client pr0)); reflexivity.
Qed.

(* ---------- server ------------------------------------------------------------------------------ *)

Lemma sys_key_10 s : sys_key s = 10 -> s = SSrvConnected.
Proof. destruct s; cbn; intros H; try discriminate H; try reflexivity; lia. Qed.

(* The server transport is absent during a whole frame and resource_removed had seen it. *)
Lemma server_removal_frame pr o :
  p_panic (frame pr o) = None -> n_setup pr = true -> SSrvDisconnected ∈ p_order pr ->
  bit pr 11 = true ->
  during pr o (fun m => n_srv_transport m = None) ->
  s_next_server (frame pr o) =
    if is_srv_connected (default (s_server pr) (s_next_server pr)) then Some SrvDisconnected else None.
Proof.
  intros Hp Hs Hin Hb Hd.
  assert (p_panic pr = None) as Hp0.
  { destruct (p_panic pr) eqn:E; [erewrite frame_panicked in Hp by eauto; congruence|reflexivity]. }
  rewrite frame_next_server by auto.
  set (c := default (s_server pr) (s_next_server pr)).
  assert (forall l, (exists l2, p_order pr = l ++ l2) ->
    let m := frame_at pr o l in
    if is_srv_connected c
    then (SSrvDisconnected ∉ l -> s_next_server m = None /\ bit m 11 = true)
         /\ (SSrvDisconnected ∈ l -> s_next_server m = Some SrvDisconnected)
    else s_next_server m = None) as Hinv.
  { intros l. unfold frame_at.
    apply (run_systems_ind (fun l m => (exists l2, p_order pr = l ++ l2) ->
      if is_srv_connected c
      then (SSrvDisconnected ∉ l -> s_next_server m = None /\ bit m 11 = true)
           /\ (SSrvDisconnected ∈ l -> s_next_server m = Some SrvDisconnected)
      else s_next_server m = None)).
    - intros _. destruct (frame_start_spec pr o).
      destruct (is_srv_connected c); [|auto]. split.
      + intros _. split; [auto|]. unfold bit. rewrite ss_bits0. exact Hb.
      + intros H. inversion H.
    - clear l. intros l s m Em IH Hpre. specialize (IH (prefix_snoc _ _ _ Hpre)).
      destruct Hpre as [l2 Hpre]. rewrite <- app_assoc in Hpre. cbn [app] in Hpre.
      fold (frame_at pr o l) in Em.
      assert (p_panic m = None) as Hpm by (subst m; eapply frame_at_no_panic; eauto).
      assert (n_srv_transport m = None) as Htm by (subst m; eapply Hd; eauto).
      destruct (frame_at_fields pr o l) as (_ & Hc & Hsm & _). rewrite <- Em in Hc, Hsm. fold c in Hc.
      destruct (run_system_step m s o Hpm) as [_ Hnc Hbits _ _ _].
      assert (s <> SSrvDisconnected -> next_server_after m s = s_next_server m) as Hother.
      { intros Hne. destruct s; try reflexivity; try congruence; unfold next_server_after, fires, srv_added;
          rewrite Htm; cbn; rewrite ?andb_false_r; reflexivity. }
      destruct (is_srv_connected c) eqn:Hcd.
      + destruct IH as [IH1 IH2]. destruct (decide (s = SSrvDisconnected)) as [->|Hne].
        * split; [intros Hn; exfalso; apply Hn, elem_of_app; right; left|]. intros _.
          rewrite Hnc. unfold next_server_after, fires. rewrite Hsm, Hs, Hc, Hcd, Htm. cbn.
          destruct (decide (SSrvDisconnected ∈ l)) as [Hl|Hl].
          -- rewrite (IH2 Hl). destruct (bit m 11); reflexivity.
          -- destruct (IH1 Hl) as [_ ->]. reflexivity.
        * rewrite Hnc, (Hother Hne). split.
          -- intros Hn. assert (SSrvDisconnected ∉ l) as Hl by (intros Hl; apply Hn, elem_of_app; auto).
             destruct (IH1 Hl) as [-> Hb']. split; [reflexivity|].
             rewrite (bit_after_other m s _ 11 Hbits); [exact Hb'|discriminate|congruence].
          -- intros Hn. apply elem_of_app in Hn as [Hl|Hl]; [auto|].
             apply elem_of_list_singleton in Hl. congruence.
      + rewrite Hnc. destruct (decide (s = SSrvDisconnected)) as [->|Hne]; [|rewrite Hother; auto].
        unfold next_server_after, fires. rewrite Hc, Hcd, andb_false_r. exact IH. }
  specialize (Hinv (p_order pr) (ex_intro _ [] (eq_sym (app_nil_r _)))). cbv zeta in Hinv.
  destruct (is_srv_connected c); [|exact Hinv]. apply Hinv, Hin.
Qed.

(* no system of the order shares its last-run key with the resource_added condition of
   server_connected (sys_key (SApp 3010) = sys_key (SDetect 4010) = ckey 10 in the model) *)
Definition order_keys_ok (l : list sysid) : Prop := forall s, s ∈ l -> sys_key s <> ckey 10.

(* A server transport is present during a whole frame, either not yet seen by resource_added
   or with the state already (becoming) Connected. *)
Lemma server_insertion_frame pr o t :
  p_panic (frame pr o) = None -> n_setup pr = true -> SSrvConnected ∈ p_order pr ->
  order_keys_ok (p_order pr) ->
  during pr o (fun m => n_srv_transport m = Some t) ->
  last_run pr (ckey 10) < t \/ default (s_server pr) (s_next_server pr) = SrvConnected ->
  s_next_server (frame pr o) =
    if is_srv_connected (default (s_server pr) (s_next_server pr)) then None else Some SrvConnected.
Proof.
  intros Hp Hs Hin Hk Hd Hfresh.
  assert (p_panic pr = None) as Hp0.
  { destruct (p_panic pr) eqn:E; [erewrite frame_panicked in Hp by eauto; congruence|reflexivity]. }
  rewrite frame_next_server by auto.
  set (c := default (s_server pr) (s_next_server pr)) in *.
  assert (forall l, (exists l2, p_order pr = l ++ l2) ->
    let m := frame_at pr o l in
    if is_srv_connected c then s_next_server m = None
    else (SSrvConnected ∉ l -> s_next_server m = None /\ last_run m (ckey 10) < t)
         /\ (SSrvConnected ∈ l -> s_next_server m = Some SrvConnected)) as Hinv.
  { intros l. unfold frame_at.
    apply (run_systems_ind (fun l m => (exists l2, p_order pr = l ++ l2) ->
      if is_srv_connected c then s_next_server m = None
      else (SSrvConnected ∉ l -> s_next_server m = None /\ last_run m (ckey 10) < t)
           /\ (SSrvConnected ∈ l -> s_next_server m = Some SrvConnected))).
    - intros _. destruct (frame_start_spec pr o).
      destruct (is_srv_connected c) eqn:Hcd; [auto|]. split.
      + intros _. split; [auto|]. unfold last_run. rewrite ss_last_run0.
        destruct Hfresh as [Hf|Hf]; [exact Hf|]. rewrite Hf in Hcd. discriminate.
      + intros H. inversion H.
    - clear l. intros l s m Em IH Hpre. specialize (IH (prefix_snoc _ _ _ Hpre)).
      destruct Hpre as [l2 Hpre]. rewrite <- app_assoc in Hpre. cbn [app] in Hpre.
      fold (frame_at pr o l) in Em.
      assert (p_panic m = None) as Hpm by (subst m; eapply frame_at_no_panic; eauto).
      assert (n_srv_transport m = Some t) as Htm by (subst m; eapply Hd; eauto).
      assert (sys_key s <> ckey 10) as Hks.
      { apply Hk. rewrite Hpre. apply elem_of_app. right. left. }
      destruct (frame_at_fields pr o l) as (_ & Hc & Hsm & _). rewrite <- Em in Hc, Hsm. fold c in Hc.
      destruct (run_system_step m s o Hpm) as [_ Hnc _ _ Hlr _].
      assert (s <> SSrvConnected -> next_server_after m s = s_next_server m) as Hother.
      { intros Hne. destruct s; try reflexivity; try congruence; unfold next_server_after, fires.
        rewrite Htm. cbn. rewrite ?andb_false_r. reflexivity. }
      destruct (is_srv_connected c) eqn:Hcd.
      + rewrite Hnc. destruct (decide (s = SSrvConnected)) as [->|Hne]; [|rewrite Hother; auto].
        unfold next_server_after, fires. rewrite Hc, Hcd, andb_false_r. exact IH.
      + destruct IH as [IH1 IH2]. destruct (decide (s = SSrvConnected)) as [->|Hne].
        * split; [intros Hn; exfalso; apply Hn, elem_of_app; right; left|]. intros _.
          rewrite Hnc. unfold next_server_after, fires, srv_added. rewrite Hsm, Hs, Hc, Hcd, Htm. cbn.
          destruct (decide (SSrvConnected ∈ l)) as [Hl|Hl].
          -- rewrite (IH2 Hl). destruct (_ <? _); reflexivity.
          -- destruct (IH1 Hl) as [_ Hlt]. apply N.ltb_lt in Hlt. rewrite Hlt. reflexivity.
        * rewrite Hnc, (Hother Hne). split.
          -- intros Hn. assert (SSrvConnected ∉ l) as Hl by (intros Hl; apply Hn, elem_of_app; auto).
             destruct (IH1 Hl) as [-> Hlt]. split; [reflexivity|].
             unfold last_run. rewrite Hlr; [exact Hlt|auto|].
             unfold ckey. intros E. apply Hne, sys_key_10. lia.
          -- intros Hn. apply elem_of_app in Hn as [Hl|Hl]; [auto|].
             apply elem_of_list_singleton in Hl. congruence. }
  specialize (Hinv (p_order pr) (ex_intro _ [] (eq_sym (app_nil_r _)))). cbv zeta in Hinv.
  destruct (is_srv_connected c); [exact Hinv|]. apply Hinv, Hin.
Qed.

(* ServerState follows the server transport within two frames (any oracles):
   present throughout the next frame (fresh for resource_added, or the state already is or is
   becoming Connected) => Connected; absent throughout the next frame, after resource_removed
   had seen it => Disconnected. *)
Theorem server_state_tracks_hosting pr o1 o2 :
  n_setup pr = true -> p_panic (frame pr o1) = None ->
  (forall t, SSrvConnected ∈ p_order pr -> order_keys_ok (p_order pr) ->
     during pr o1 (fun m => n_srv_transport m = Some t) ->
     last_run pr (ckey 10) < t \/ default (s_server pr) (s_next_server pr) = SrvConnected ->
     s_server (frame (frame pr o1) o2) = SrvConnected)
  /\ (SSrvDisconnected ∈ p_order pr -> bit pr 11 = true ->
      during pr o1 (fun m => n_srv_transport m = None) ->
      s_server (frame (frame pr o1) o2) = SrvDisconnected).
Proof.
  intros Hs Hp.
  assert (p_panic pr = None) as Hp0.
  { destruct (p_panic pr) eqn:E; [erewrite frame_panicked in Hp by eauto; congruence|reflexivity]. }
  split.
  - intros t Hin Hk Hd Hf. pose proof (server_insertion_frame pr o1 t Hp Hs Hin Hk Hd Hf) as Hn.
    rewrite frame_s_server by auto. rewrite Hn. rewrite frame_s_server by auto.
    destruct (default (s_server pr) (s_next_server pr)); reflexivity.
  - intros Hin Hb Hd. pose proof (server_removal_frame pr o1 Hp Hs Hin Hb Hd) as Hn.
    rewrite frame_s_server by auto. rewrite Hn. rewrite frame_s_server by auto.
    destruct (default (s_server pr) (s_next_server pr)); reflexivity.
Qed.

(* ---------- invariants of runs from init_peer --------------------------------------------------- *)

(* before ServerPlugin / ClientPlugin is added, nothing is ever published *)
Definition setup_inv (pr : peer_state) : Prop :=
  n_setup pr = false ->
  s_client pr = CliDisconnected /\ s_next_client pr = None
  /\ s_server pr = SrvDisconnected /\ s_next_server pr = None.

Lemma g0_fields a b : g0 a = g0 b -> n_setup a = n_setup b /\ p_order a = p_order b /\ tv a = tv b.
Proof. unfold g0, c1, tv. intros H. injection H; intros. repeat split; congruence. Qed.

Lemma app_step_setup pr op : n_setup (app_step pr op) = n_setup pr \/ n_setup (app_step pr op) = true.
Proof.
  destruct op; unfold app_step; cbv zeta; try (left; reflexivity).
  - left. apply (g0_fields _ _ (g0_upd_ent _ _ _)).
  - left. apply (g0_fields _ _ (g0_upd_ent _ _ _)).
  - left. apply (g0_fields _ _ (g0_upd_ent _ _ _)).
  - left. destruct (alive pr c); [|reflexivity]. apply (g0_fields _ _ (g0_add_child _ _ _)).
  - right. destruct host; reflexivity.
Qed.

Lemma fires_no_setup pr s : n_setup pr = false -> fires pr s = false.
Proof. intros H. destruct s; try reflexivity; unfold fires; rewrite H; reflexivity. Qed.

Lemma after_no_fire pr s :
  fires pr s = false -> next_client_after pr s = s_next_client pr /\ next_server_after pr s = s_next_server pr.
Proof.
  intros H. destruct s; try (split; reflexivity); unfold next_client_after, next_server_after;
    rewrite H; split; reflexivity.
Qed.

Lemma frame_setup_inv pr o : setup_inv pr -> setup_inv (frame pr o).
Proof.
  intros Hi. destruct (p_panic pr) eqn:Hp; [erewrite frame_panicked; eauto|].
  intros Hs. rewrite frame_unfold in * by auto.
  destruct (frame_end_c1 (frame_at pr o (p_order pr))) as [Hc _].
  assert (n_setup pr = false) as Hs0.
  { destruct (frame_at_fields pr o (p_order pr)) as (_ & _ & <- & _).
    unfold c1 in Hc. injection Hc; intros. congruence. }
  destruct (Hi Hs0) as (I1 & I2 & I3 & I4).
  assert (s_next_client (frame_at pr o (p_order pr)) = None /\ s_next_server (frame_at pr o (p_order pr)) = None) as [N1 N2].
  { unfold frame_at. apply (run_systems_ind (fun _ m => s_next_client m = None /\ s_next_server m = None)).
    - destruct (frame_start_spec pr o). auto.
    - intros l s m Em [IH1 IH2]. fold (frame_at pr o l) in Em.
      destruct (p_panic m) eqn:Hpm; [erewrite run_system_panicked; eauto|].
      destruct (run_system_step m s o Hpm) as [-> -> _ _ _ _].
      destruct (frame_at_fields pr o l) as (_ & _ & Hsm & _). rewrite <- Em in Hsm.
      destruct (after_no_fire m s (fires_no_setup m s (eq_trans Hsm Hs0))) as [-> ->]. auto. }
  destruct (frame_at_fields pr o (p_order pr)) as (F1 & F2 & _ & _).
  rewrite I1, I2 in F1. rewrite I3, I4 in F2. cbn in F1, F2.
  unfold c1 in Hc. injection Hc; intros. repeat split; congruence.
Qed.

Lemma app_step_setup_inv pr op : setup_inv pr -> setup_inv (app_step pr op).
Proof.
  intros Hi Hs. destruct (app_step_setup pr op) as [E|E]; [|congruence].
  destruct (app_step_spec pr op). rewrite E in Hs. destruct (Hi Hs) as (? & ? & ? & ?).
  repeat split; congruence.
Qed.

Lemma prun_setup_inv id st rg ord l : setup_inv (prun (init_peer id st rg ord) l).
Proof.
  apply prun_inv'; [apply app_step_setup_inv | apply frame_setup_inv |].
  intros _. repeat split; reflexivity.
Qed.

Corollary published_implies_setup id st rg ord l :
  let pr := prun (init_peer id st rg ord) l in
  (s_client pr <> CliDisconnected \/ s_server pr <> SrvDisconnected) -> n_setup pr = true.
Proof.
  cbv zeta. intros H. destruct (n_setup _) eqn:E; [reflexivity|].
  destruct (prun_setup_inv id st rg ord l E) as (? & _ & ? & _). destruct H; contradiction.
Qed.

(* last-run stamps are in the past: a resource inserted now is fresh for every resource_added *)
Definition ticks_ok (pr : peer_state) : Prop :=
  0 < p_tick pr /\ forall k t, p_last_run pr !! k = Some t -> t < p_tick pr.

Lemma clock_le_ticks_ok a b : clock_le a b -> ticks_ok a -> ticks_ok b.
Proof.
  intros [H1 H2] [Ha0 Ha]. split; [lia|]. intros k t H.
  destruct (H2 k t H) as [H3|H3]; [|lia]. specialize (Ha k t H3). lia.
Qed.

Lemma frame_clock_le pr o : clock_le pr (frame pr o).
Proof.
  destruct (p_panic pr) eqn:Hp; [erewrite frame_panicked by eauto; apply clock_le_refl|].
  rewrite frame_unfold by auto.
  assert (clock_le pr (frame_at pr o (p_order pr))) as H.
  { unfold frame_at. apply (run_systems_ind (fun _ m => clock_le pr m)).
    - destruct (frame_start_spec pr o). split; [lia|]. intros k t. rewrite ss_last_run0. auto.
    - intros l s m _ IH. destruct (p_panic m) eqn:Hpm; [erewrite run_system_panicked; eauto|].
      eapply clock_le_trans; [exact IH|]. apply (run_system_step m s o Hpm). }
  destruct (frame_end_c1 (frame_at pr o (p_order pr))) as [Hc _].
  set (X := frame_at pr o (p_order pr)) in *.
  assert (p_tick (frame_end X) = p_tick X + 1) as Ht by exact (f_equal (fun c => snd (fst c)) Hc).
  assert (p_last_run (frame_end X) = p_last_run X) as Hl by exact (f_equal snd Hc).
  destruct H as [H1 H2]. split; [rewrite Ht; lia|]. intros k t. rewrite Hl, Ht. intros Hk.
  destruct (H2 k t Hk) as [Hold|Hnew]; [left; exact Hold|right; lia].
Qed.

Lemma prun_ticks_ok id st rg ord l : ticks_ok (prun (init_peer id st rg ord) l).
Proof.
  apply prun_inv'.
  - intros pr op H. destruct (app_step_spec pr op). unfold ticks_ok. rewrite as_last_run0, as_tick0. apply H.
  - intros pr o. apply clock_le_ticks_ok, frame_clock_le.
  - split; [reflexivity|]. intros k t H. cbn in H. rewrite lookup_empty in H. discriminate.
Qed.

(* the order observed for the peer always has the five state systems *)
Definition order_op_ok (op : app_op) : Prop :=
  match op with OSetOrder ord => order_has_state_systems ord /\ order_keys_ok ord | _ => True end.
Definition ops_ok (l : list (app_op + frame_oracle)) : Prop := forall op, inl op ∈ l -> order_op_ok op.

Lemma frame_order pr o : p_order (frame pr o) = p_order pr.
Proof.
  destruct (p_panic pr) eqn:Hp; [erewrite frame_panicked; eauto|]. rewrite frame_unfold by auto.
  pose proof (frame_end_cA (frame_at pr o (p_order pr))) as Hc.
  destruct (frame_at_fields pr o (p_order pr)) as (_ & _ & _ & F4).
  exact (eq_trans (f_equal snd Hc) F4).
Qed.

Lemma app_step_order pr op :
  p_order (app_step pr op) = match op with OSetOrder ord => ord | _ => p_order pr end.
Proof.
  destruct op; unfold app_step; cbv zeta; try reflexivity.
  - apply (g0_fields _ _ (g0_upd_ent _ _ _)).
  - apply (g0_fields _ _ (g0_upd_ent _ _ _)).
  - apply (g0_fields _ _ (g0_upd_ent _ _ _)).
  - destruct (alive pr c); [|reflexivity]. apply (g0_fields _ _ (g0_add_child _ _ _)).
  - destruct host; reflexivity.
Qed.

Lemma prun_order_ok id st rg ord l :
  order_has_state_systems ord -> order_keys_ok ord -> ops_ok l ->
  let pr := prun (init_peer id st rg ord) l in
  order_has_state_systems (p_order pr) /\ order_keys_ok (p_order pr).
Proof.
  intros H1 H2 Hok. cbv zeta.
  apply (prun_inv order_op_ok (fun pr => order_has_state_systems (p_order pr) /\ order_keys_ok (p_order pr))).
  - intros pr op Hop H. rewrite app_step_order. destruct op; auto.
  - intros pr o H. rewrite frame_order. exact H.
  - exact Hok.
  - auto.
Qed.

Lemma once_in s l : once s l -> s ∈ l.
Proof. intros (l1 & l2 & -> & _). apply elem_of_app. right. left. Qed.

Lemma fresh_now pr k : ticks_ok pr -> last_run pr k < p_tick pr.
Proof.
  intros [H0 H]. unfold last_run. destruct (p_last_run pr !! k) as [t|] eqn:E; cbn; [eauto|exact H0].
Qed.

(* ---------- the two theorems on reachable states -------------------------------------------------- *)

Section Reachable.
  Variables (id : peer) (sty rg : list tyid) (ord : list sysid) (l : list (app_op + frame_oracle)).
  Hypothesis order_ok : order_has_state_systems ord.
  Hypothesis keys_ok : order_keys_ok ord.
  Hypothesis l_ok : ops_ok l.
  Let pr := prun (init_peer id sty rg ord) l.

  Theorem client_removal_noticed o1 o2 :
    let pr0 := app_step pr ORemoveTransports in
    s_client pr <> CliDisconnected -> bit pr 25 = true ->
    during pr0 o1 (fun m => n_cli_transport m = None) -> p_panic (frame pr0 o1) = None ->
    s_client (frame (frame pr0 o1) o2) = CliDisconnected.
  Proof.
    cbv zeta. intros Hc Hb Hd Hp.
    destruct (prun_order_ok id sty rg ord l order_ok keys_ok l_ok) as [(_ & _ & _ & _ & Ho) _].
    apply client_back_to_disconnected_within_two_frames; auto using once_in.
    apply published_implies_setup. auto.
  Qed.

  (* hosting starts (ServerPlugin added): Connected after two frames *)
  Theorem hosting_published o1 o2 x :
    let pr0 := app_step pr (OSetup true x) in
    during pr0 o1 (fun m => n_srv_transport m = Some (p_tick pr)) -> p_panic (frame pr0 o1) = None ->
    s_server (frame (frame pr0 o1) o2) = SrvConnected.
  Proof.
    cbv zeta. intros Hd Hp.
    destruct (prun_order_ok id sty rg ord l order_ok keys_ok l_ok) as [(Ho & _) Hk].
    apply (proj1 (server_state_tracks_hosting (app_step pr (OSetup true x)) o1 o2 eq_refl Hp) (p_tick pr)); auto using once_in.
    left. apply (fresh_now pr), prun_ticks_ok.
  Qed.

  (* hosting stops *)
  Theorem hosting_end_published o1 o2 :
    let pr0 := app_step pr ORemoveTransports in
    s_server pr = SrvConnected -> bit pr 11 = true ->
    during pr0 o1 (fun m => n_srv_transport m = None) -> p_panic (frame pr0 o1) = None ->
    s_server (frame (frame pr0 o1) o2) = SrvDisconnected.
  Proof.
    cbv zeta. unfold pr. intros Hc Hb Hd Hp.
    destruct (prun_order_ok id sty rg ord l order_ok keys_ok l_ok) as [(_ & Ho & _) _].
    assert (n_setup (prun (init_peer id sty rg ord) l) = true) as Hs by (apply published_implies_setup; right; congruence).
    apply (proj2 (server_state_tracks_hosting (app_step (prun (init_peer id sty rg ord) l) ORemoveTransports) o1 o2 Hs Hp)); auto using once_in.
  Qed.
End Reachable.

(* ---------- the `existed` bit ------------------------------------------------------------------- *)

Definition o_idle : frame_oracle :=
  {| fo_conn_events := []; fo_clients := []; fo_status := None; fo_srv_poll := []; fo_cli_poll := 0;
     fo_downloads := [] |}.

(* Full-strength statement asked for: on every state reachable from init_peer (orders with the
   five state systems), a published state other than Disconnected implies that resource_removed
   has seen the client transport. *)
Definition existed_bit_invariant_statement : Prop :=
  forall id sty rg ord l,
    order_has_state_systems ord -> order_keys_ok ord -> ops_ok l ->
    let pr := prun (init_peer id sty rg ord) l in
    s_client pr <> CliDisconnected -> bit pr 25 = true.

(* It is FALSE in the model (and in Bevy: resource_removed only samples the resource when it is
   evaluated).  A transport inserted by a deferred command between the evaluation of
   set_client_to_disconnected's condition and that of set_client_to_connecting's, and removed
   before the next frame, is seen by resource_added but never by resource_removed: ClientState
   goes to Connecting and stays there for ever, with no transport. *)
Definition stuck_order : list sysid :=
  [SApp 0; SCliDisconnected; SSync; SCliConnecting; SCliVerify; SSrvConnected; SSrvDisconnected].
Definition stuck_trace : list (app_op + frame_oracle) :=
  [inl (OSetup false 0); inl ORemoveTransports; inl (OAppCmd 0 (CStartClientTo 0 false));
   inr o_idle; inl ORemoveTransports; inr o_idle].

Ltac once_tac :=
  split; [reflexivity|split; intros H; repeat (apply elem_of_cons in H as [H|H]; [discriminate H|]); inversion H].

Lemma stuck_order_ok : order_has_state_systems stuck_order /\ order_keys_ok stuck_order.
Proof.
  split.
  - unfold order_has_state_systems, stuck_order. repeat split.
    + exists [SApp 0; SCliDisconnected; SSync; SCliConnecting; SCliVerify], [SSrvDisconnected].
      once_tac.
    + exists [SApp 0; SCliDisconnected; SSync; SCliConnecting; SCliVerify; SSrvConnected], [].
      once_tac.
    + exists [SApp 0; SCliDisconnected; SSync], [SCliVerify; SSrvConnected; SSrvDisconnected].
      once_tac.
    + exists [SApp 0; SCliDisconnected; SSync; SCliConnecting], [SSrvConnected; SSrvDisconnected].
      once_tac.
    + exists [SApp 0], [SSync; SCliConnecting; SCliVerify; SSrvConnected; SSrvDisconnected].
      once_tac.
  - intros s H. unfold stuck_order in H.
    repeat (apply elem_of_cons in H as [->|H]; [cbn; discriminate|]). inversion H.
Qed.

Example stuck_connecting :
  let pr := prun (init_peer 1 [] [] stuck_order) stuck_trace in
  s_client pr = CliConnecting /\ n_cli_transport pr = None /\ bit pr 25 = false /\ p_panic pr = None
  /\ s_client (prun pr [inr o_idle; inr o_idle; inr o_idle]) = CliConnecting.
Proof. vm_compute. repeat split. Qed.

Theorem existed_bit_invariant_refuted : ~ existed_bit_invariant_statement.
Proof.
  intros H. destruct stuck_order_ok as [H1 H2].
  specialize (H 1 [] [] stuck_order stuck_trace H1 H2).
  assert (ops_ok stuck_trace) as Hok.
  { intros op Hin. unfold stuck_trace in Hin.
    repeat (apply elem_of_cons in Hin as [Hin|Hin]; [first [discriminate Hin | injection Hin as ->; exact I]|]).
    inversion Hin. }
  specialize (H Hok). cbv zeta in H.
  assert (s_client (prun (init_peer 1 [] [] stuck_order) stuck_trace) <> CliDisconnected) as Hc
    by (vm_compute; discriminate).
  specialize (H Hc). vm_compute in H. discriminate H.
Qed.

(* What does hold: if the client transport changes only between frames (no deferred command
   inserts or removes it in the middle of the schedule), the bit is set whenever a state other
   than Disconnected is published or pending and no return to Disconnected is pending. *)
Definition quiet (pr : peer_state) (o : frame_oracle) : Prop :=
  during pr o (fun m => n_cli_transport m = n_cli_transport pr).
Fixpoint quiet_run (pr : peer_state) (l : list (app_op + frame_oracle)) : Prop :=
  match l with
  | [] => True
  | inl op :: l' => quiet_run (app_step pr op) l'
  | inr o :: l' => quiet pr o /\ quiet_run (frame pr o) l'
  end.
Definition existed_seen (pr : peer_state) : Prop :=
  p_panic pr = None ->
  s_next_client pr = Some CliConnecting
  \/ (s_client pr <> CliDisconnected /\ s_next_client pr <> Some CliDisconnected) ->
  bit pr 25 = true.

Lemma frame_bits pr o :
  p_panic pr = None -> p_cond_bit (frame pr o) = p_cond_bit (frame_at pr o (p_order pr)).
Proof.
  intros Hp. rewrite frame_unfold by auto.
  destruct (frame_end_c1 (frame_at pr o (p_order pr))) as [Hc _].
  exact (f_equal (fun c => snd (fst (fst c))) Hc).
Qed.

Lemma bit_set_when_present pr o x :
  p_panic (frame pr o) = None -> SCliDisconnected ∈ p_order pr ->
  during pr o (fun m => n_cli_transport m = Some x) -> bit (frame pr o) 25 = true.
Proof.
  intros Hp Hin Hd.
  assert (p_panic pr = None) as Hp0.
  { destruct (p_panic pr) eqn:E; [erewrite frame_panicked in Hp by eauto; congruence|reflexivity]. }
  unfold bit. rewrite frame_bits by auto. fold (bit (frame_at pr o (p_order pr)) 25).
  assert (forall l, (exists l2, p_order pr = l ++ l2) -> SCliDisconnected ∈ l -> bit (frame_at pr o l) 25 = true) as Hinv.
  { intros l. unfold frame_at.
    apply (run_systems_ind (fun l m => (exists l2, p_order pr = l ++ l2) -> SCliDisconnected ∈ l -> bit m 25 = true)).
    - intros _ H. inversion H.
    - clear l. intros l s m Em IH Hpre Hl. specialize (IH (prefix_snoc _ _ _ Hpre)).
      destruct Hpre as [l2 Hpre]. rewrite <- app_assoc in Hpre. cbn [app] in Hpre.
      fold (frame_at pr o l) in Em.
      assert (p_panic m = None) as Hpm by (subst m; eapply frame_at_no_panic; eauto).
      assert (n_cli_transport m = Some x) as Htm by (subst m; eapply Hd; eauto).
      destruct (run_system_step m s o Hpm) as [_ _ Hbits _ _ _].
      destruct (decide (s = SCliDisconnected)) as [->|Hne].
      + unfold bit. rewrite Hbits. unfold bits_after, bitupd. rewrite Htm. cbn.
        rewrite lookup_insert. reflexivity.
      + rewrite (bit_after_other m s _ 25 Hbits); [|congruence|discriminate].
        apply IH. apply elem_of_app in Hl as [Hl|Hl]; [exact Hl|].
        apply elem_of_list_singleton in Hl. congruence. }
  apply Hinv; [exists []; symmetry; apply app_nil_r|exact Hin].
Qed.

Lemma upd_ent_panic pr e f : p_panic (upd_ent pr e f) = p_panic pr.
Proof. unfold upd_ent. case_match; reflexivity. Qed.

Lemma add_child_panic_mono pr p c x : p_panic pr = Some x -> p_panic (add_child pr p c) = Some x.
Proof.
  intros H. unfold add_child, set_panic. rewrite H.
  repeat case_match; rewrite ?upd_ent_panic; assumption.
Qed.

Lemma app_step_panic_mono pr op x : p_panic pr = Some x -> p_panic (app_step pr op) = Some x.
Proof.
  intros H. destruct op; unfold app_step; cbv zeta; rewrite ?upd_ent_panic; try exact H.
  - destruct (alive pr c); [apply add_child_panic_mono|]; exact H.
  - destruct host; exact H.
Qed.

Lemma frame_existed_seen pr o :
  existed_seen pr -> setup_inv pr -> next_client_legal pr -> SCliDisconnected ∈ p_order pr ->
  quiet pr o -> existed_seen (frame pr o).
Proof.
  intros HJ Hsi Hleg Hin Hq Hp Hante.
  assert (p_panic pr = None) as Hp0.
  { destruct (p_panic pr) eqn:E; [erewrite frame_panicked in Hp by eauto; congruence|reflexivity]. }
  unfold quiet in Hq. destruct (n_cli_transport pr) as [x|] eqn:Ht.
  { eapply bit_set_when_present; eauto. }
  exfalso.
  destruct (n_setup pr) eqn:Hs.
  2:{ pose proof (frame_setup_inv pr o Hsi) as Hsi'.
      assert (n_setup (frame pr o) = false) as Hs'.
      { rewrite frame_unfold by auto. pose proof (frame_end_cA (frame_at pr o (p_order pr))) as Hc.
        destruct (frame_at_fields pr o (p_order pr)) as (_ & _ & F & _).
        rewrite <- Hs, <- F. exact (f_equal (fun c => snd (fst c)) Hc). }
      destruct (Hsi' Hs') as (E1 & E2 & _). rewrite E1, E2 in Hante.
      destruct Hante as [H|[H _]]; [discriminate|contradiction]. }
  assert (is_cli_disconnected (default (s_client pr) (s_next_client pr)) = false -> bit pr 25 = true) as Hb.
  { intros Hc. apply HJ; [exact Hp0|]. unfold next_client_legal, nc_ok in Hleg.
    destruct (s_next_client pr) as [[]|] eqn:En; cbn in Hc; try discriminate.
    - right. split; [|discriminate]. destruct (s_client pr); try contradiction; discriminate.
    - left. reflexivity.
    - right. split; [|discriminate]. destruct (s_client pr); try discriminate. }
  pose proof (client_removal_frame pr o Hp Hs Hin Hb Hq) as Hn.
  pose proof (frame_s_client pr o Hp0) as Hc.
  destruct (is_cli_disconnected (default (s_client pr) (s_next_client pr))) eqn:Hcd.
  - rewrite Hn in Hante. destruct Hante as [H|[H _]]; [discriminate|].
    rewrite Hc in H. destruct (default (s_client pr) (s_next_client pr)); try discriminate. contradiction.
  - rewrite Hn in Hante. destruct Hante as [H|[_ H]]; [discriminate|contradiction].
Qed.

Theorem existed_bit_invariant_partial id sty rg ord l :
  order_has_state_systems ord -> order_keys_ok ord -> ops_ok l ->
  quiet_run (init_peer id sty rg ord) l ->
  existed_seen (prun (init_peer id sty rg ord) l).
Proof.
  intros Ho Hk Hok Hq.
  assert (forall l pr, ops_ok l -> quiet_run pr l ->
    existed_seen pr /\ setup_inv pr /\ next_client_legal pr /\ order_has_state_systems (p_order pr) ->
    existed_seen (prun pr l)) as Hgen.
  { clear. induction l as [|[op|o] l IH]; intros pr Hok Hq (H1 & H2 & H3 & H4); cbn [prun]; [exact H1| |].
    - apply IH; [intros op' Hin; apply Hok; right; exact Hin|exact Hq|].
      destruct (app_step_spec pr op). split; [|split; [|split]].
      + intros Hp Ha. unfold bit. rewrite as_bits0. apply H1.
        * destruct (p_panic pr) eqn:E; [|reflexivity]. exfalso.
          rewrite (app_step_panic_mono pr op _ E) in Hp. discriminate.
        * rewrite <- as_client0, <- as_next_client0. exact Ha.
      + apply app_step_setup_inv, H2.
      + unfold next_client_legal. rewrite as_client0, as_next_client0. exact H3.
      + rewrite app_step_order. destruct op; try exact H4. apply (Hok (OSetOrder order)). left.
    - destruct Hq as [Hq1 Hq2].
      apply IH; [intros op' Hin; apply Hok; right; exact Hin|exact Hq2|]. split; [|split; [|split]].
      + apply frame_existed_seen; auto. destruct H4 as (_ & _ & _ & _ & H4). apply once_in, H4.
      + apply frame_setup_inv, H2.
      + apply frame_next_client_legal, H3.
      + rewrite frame_order. exact H4. }
  apply Hgen; auto. split; [|split; [|split]].
  - intros _ [H|[H _]]; [discriminate H|exfalso; apply H; reflexivity].
  - intros _. repeat split; reflexivity.
  - exact I.
  - exact Ho.
Qed.

(* ================================================================================================ *)
(* 4. acts_only_when_connected                                                                       *)
(* ================================================================================================ *)

Definition server_chain (s : sysid) : bool :=
  match s with
  | SSrvRemoved | SSrvCreated | SSrvParented | SSrvReact | SSrvMat | SSrvImg | SSrvMesh | SSrvAudio
  | SSrvPromote | SSrvClientConnected | SSrvPoll => true
  | _ => false
  end.
Definition client_chain (s : sysid) : bool :=
  match s with
  | SCliRemoved | SCliCreated | SCliParented | SCliReact | SCliMat | SCliImg | SCliMesh | SCliAudio
  | SCliPoll => true
  | _ => false
  end.

(* A tracking / receiving system whose gate is closed does nothing at all: not even a tick. *)
Theorem acts_only_when_connected pr s o :
  (server_chain s = true -> server_gate pr = false -> run_system pr s o = pr)
  /\ (client_chain s = true -> client_gate pr = false -> run_system pr s o = pr).
Proof.
  split; intros Hs Hg; unfold run_system; destruct (p_panic pr); try reflexivity;
    destruct s; try discriminate Hs; rewrite Hg; reflexivity.
Qed.

(* contrapositive: a system of the chains that changes anything ran in state Connected, with its
   transport present and the plugin set up, at that point of the frame *)
Corollary acts_implies_connected pr s o :
  run_system pr s o <> pr ->
  (server_chain s = true -> n_setup pr = true /\ n_srv_transport pr <> None /\ s_server pr = SrvConnected)
  /\ (client_chain s = true -> n_setup pr = true /\ n_cli_transport pr <> None /\ s_client pr = CliConnected).
Proof.
  intros Hne. destruct (acts_only_when_connected pr s o) as [H1 H2]. split; intros Hs.
  - destruct (server_gate pr) eqn:Hg; [|exfalso; auto]. unfold server_gate in Hg.
    destruct (n_setup pr), (n_srv_transport pr), (s_server pr); try discriminate Hg. repeat split; discriminate.
  - destruct (client_gate pr) eqn:Hg; [|exfalso; auto]. unfold client_gate in Hg.
    destruct (n_setup pr), (n_cli_transport pr), (s_client pr); try discriminate Hg. repeat split; discriminate.
Qed.

(* whole frames: while the published state is not Connected at the start of the schedule, the
   chain's systems are the identity at every position of that frame *)
Corollary chain_idle_frame pr o l1 s l2 :
  p_order pr = l1 ++ s :: l2 ->
  (server_chain s = true -> default (s_server pr) (s_next_server pr) <> SrvConnected ->
     frame_at pr o (l1 ++ [s]) = frame_at pr o l1)
  /\ (client_chain s = true -> default (s_client pr) (s_next_client pr) <> CliConnected ->
     frame_at pr o (l1 ++ [s]) = frame_at pr o l1).
Proof.
  intros Ho. unfold frame_at. rewrite run_systems_snoc. fold (frame_at pr o l1).
  destruct (frame_at_fields pr o l1) as (Hc & Hs & _ & _).
  destruct (acts_only_when_connected (frame_at pr o l1) s o) as [H1 H2].
  split; intros Hch Hne; [apply H1|apply H2]; auto.
  - unfold server_gate. rewrite Hs. destruct (default (s_server pr) (s_next_server pr)); [congruence|]. apply andb_false_r.
  - unfold client_gate. rewrite Hc. destruct (default (s_client pr) (s_next_client pr)); try apply andb_false_r. congruence.
Qed.

(* ================================================================================================ *)
(* 5. InitialSyncFinished                                                                            *)
(* ================================================================================================ *)

Definition is_fin (m : msg) : bool := match m with MFinInit => true | _ => false end.
Definition inbox (pr : peer_state) (h : peer) : list msg := default [] (n_inbox pr !! h).

(* 5a. where the counter can move: only client poll and the body of server_connected *)
Theorem finished_event_sources pr s o :
  s <> SCliPoll ->
  p_finished_events (run_system pr s o) =
    match s, p_panic pr with
    | SSrvConnected, None => if fires pr SSrvConnected then p_finished_events pr + 1 else p_finished_events pr
    | _, _ => p_finished_events pr
    end.
Proof.
  intros Hs. destruct (p_panic pr) eqn:Hp.
  - erewrite run_system_panicked by eauto. destruct s; reflexivity.
  - destruct (run_system_step pr s o Hp) as [_ _ _ _ _ Hf]. rewrite (Hf Hs).
    destruct s; try reflexivity. congruence.
Qed.

Lemma frame_start_fin pr o : p_finished_events (frame_start pr o) = p_finished_events pr.
Proof. apply frame_start_spec. Qed.

(* 5b. the client receiver: one event per FinishedInitialSync polled, FIFO *)
Lemma g1k_client_received_other pr k m :
  is_fin m = false -> g1k k (client_received pr k m) = g1k k pr.
Proof. intros H. destruct m; try discriminate H; unfold client_received; proj_solve. Qed.

Lemma client_received_fin pr k m :
  p_finished_events (client_received pr k m)
  = p_finished_events pr + (if is_fin m then 1 else 0).
Proof.
  destruct (is_fin m) eqn:E.
  - destruct m; try discriminate E. reflexivity.
  - destruct (g1k_elim _ _ _ (g1k_client_received_other pr k m E)) as (_ & _ & -> & _). lia.
Qed.

Lemma client_received_inbox pr k m : n_inbox (client_received pr k m) = n_inbox pr.
Proof.
  destruct m; unfold client_received, push_cmd, request_asset; cbv zeta; repeat case_match; reflexivity.
Qed.

Lemma client_received_inbox' pr k m h : inbox (client_received pr k m) h = inbox pr h.
Proof. unfold inbox. rewrite client_received_inbox. reflexivity. Qed.

Lemma client_poll_S pr k h n :
  client_poll pr k h (S n) =
    client_poll (match pop_inbox pr h with Some (m, pr') => client_received pr' k m | None => pr end) k h n.
Proof. reflexivity. Qed.

Lemma pop_inbox_spec pr h :
  match pop_inbox pr h with
  | Some (m, pr') => exists rest, inbox pr h = m :: rest /\ inbox pr' h = rest
                     /\ p_finished_events pr' = p_finished_events pr
  | None => inbox pr h = []
  end.
Proof.
  unfold pop_inbox, inbox. destruct (n_inbox pr !! h) as [[|m rest]|] eqn:E; cbn; try reflexivity.
  exists rest. cbn. rewrite lookup_insert. auto.
Qed.

Theorem client_poll_fifo pr k h n :
  inbox (client_poll pr k h n) h = drop n (inbox pr h)
  /\ p_finished_events (client_poll pr k h n)
     = p_finished_events pr + N.of_nat (length (filter (fun m => is_fin m = true) (take n (inbox pr h)))).
Proof.
  revert pr. induction n as [|n IH]; intros pr.
  - split; [reflexivity|]. change (client_poll pr k h 0) with pr.
    change (take 0 (inbox pr h)) with (@nil msg). rewrite filter_nil. symmetry. apply N.add_0_r.
  - rewrite client_poll_S. pose proof (pop_inbox_spec pr h) as Hpop.
    destruct (pop_inbox pr h) as [[m pr']|].
    + destruct Hpop as (rest & E1 & E2 & E3). destruct (IH (client_received pr' k m)) as [I1 I2].
      rewrite client_received_inbox' in I1, I2.
      rewrite I1, I2, E1, E2, client_received_fin, E3. cbn [drop take]. split; [reflexivity|].
      rewrite filter_cons. destruct (is_fin m); cbn.
      * destruct (decide (true = true)); [|congruence]. cbn [length]. lia.
      * destruct (decide (false = true)); [discriminate|]. lia.
    + destruct (IH pr) as [I1 I2]. rewrite I1, I2, Hpop. rewrite drop_nil, take_nil. cbn. auto.
Qed.

(* at the schedule position of the client poll *)
Theorem finished_event_once_per_join pr o :
  p_panic pr = None ->
  p_finished_events (run_system pr SCliPoll o) =
    match n_cli_transport pr with
    | Some (h, _) =>
        if client_gate pr
        then p_finished_events pr
             + N.of_nat (length (filter (fun m => is_fin m = true) (take (fo_cli_poll o) (inbox pr h))))
        else p_finished_events pr
    | None => p_finished_events pr
    end.
Proof.
  intros Hp. unfold run_system. rewrite Hp. cbv beta iota zeta.
  destruct (client_gate pr) eqn:Hg.
  2:{ destruct (n_cli_transport pr) as [[h t]|]; reflexivity. }
  unfold run_body, begin_run, end_run. cbv zeta. cbn [sys_key].
  unfold client_gate in Hg. destruct (n_cli_transport pr) as [[h t]|] eqn:Ht.
  2:{ rewrite andb_false_r in Hg. discriminate. }
  cbn. rewrite Ht.
  destruct (client_poll_fifo (pr <| p_tick := p_tick pr + 1 |>) 34 h (fo_cli_poll o)) as [_ H].
  exact H.
Qed.

(* 5c. the host's reply to RequestInitialSync: the snapshot, then exactly one FinishedInitialSync *)
Lemma p_out_serve_all pr c : p_out (serve_all pr c).1 = p_out pr.
Proof. unfold serve_all. case_match; reflexivity. Qed.

Lemma serve_all_msgs pr c : Forall (fun m => is_fin m = false) (serve_all pr c).2.
Proof.
  unfold serve_all. case_match; cbn [snd]; [|constructor].
  apply Forall_app_2; apply Forall_fmap, Forall_forall; intros [a v] _; reflexivity.
Qed.

Lemma snapshot_entity_msgs_nofin pr e en : Forall (fun m => is_fin m = false) (snapshot_entity_msgs pr e en).
Proof.
  unfold snapshot_entity_msgs. repeat case_match; try constructor; [reflexivity|].
  apply Forall_forall. intros m Hm. apply elem_of_list_omap in Hm as ([t c] & _ & Hm).
  repeat case_match; try discriminate; injection Hm as <-; reflexivity.
Qed.

Lemma snapshot_parent_msgs_nofin pr e en : Forall (fun m => is_fin m = false) (snapshot_parent_msgs pr e en).
Proof. unfold snapshot_parent_msgs. repeat case_match; repeat constructor. Qed.

Lemma Forall_concat_fmap {A B} (P : B -> Prop) (f : A -> list B) l :
  (forall x, Forall P (f x)) -> Forall P (concat (f <$> l)).
Proof. intros H. induction l as [|x l IH]; cbn; [constructor|]. apply Forall_app. auto. Qed.

Lemma build_full_sync_spec pr :
  p_out (build_full_sync pr).1 = p_out pr /\ Forall (fun m => is_fin m = false) (build_full_sync pr).2.
Proof.
  unfold build_full_sync. cbv zeta.
  pose proof (p_out_serve_all pr AImage) as O1. pose proof (serve_all_msgs pr AImage) as M1.
  destruct (serve_all pr AImage) as [p1 l1]. cbn [fst snd] in O1, M1.
  pose proof (p_out_serve_all p1 AMesh) as O2. pose proof (serve_all_msgs p1 AMesh) as M2.
  destruct (serve_all p1 AMesh) as [p2 l2]. cbn [fst snd] in O2, M2.
  pose proof (p_out_serve_all p2 AAudio) as O3. pose proof (serve_all_msgs p2 AAudio) as M3.
  destruct (serve_all p2 AAudio) as [p3 l3]. cbn [fst snd] in *.
  split; [congruence|].
  repeat apply Forall_app_2; auto.
  - apply Forall_concat_fmap. intros [e en]. apply Forall_take, snapshot_entity_msgs_nofin.
  - apply Forall_concat_fmap. intros [e en]. apply Forall_drop, snapshot_entity_msgs_nofin.
  - apply Forall_concat_fmap. intros [e en]. apply snapshot_parent_msgs_nofin.
  - unfold snapshot_material_msgs. case_match; [|constructor].
    apply Forall_fmap, Forall_forall. intros [a v] _. reflexivity.
Qed.

Lemma p_out_send_list c ms : forall pr,
  p_out (foldl (fun pr m => send pr c m) pr ms) = p_out pr ++ ((fun m => (c, m)) <$> ms).
Proof.
  induction ms as [|m ms IH]; intros pr; cbn [foldl fmap list_fmap]; [symmetry; apply app_nil_r|].
  rewrite IH. unfold send. cbn. rewrite <- app_assoc. reflexivity.
Qed.

(* ---- since the repair of S21 (8f66353) CSendInitialSync first sends the queue of detected changes
   to every connected client (react_on_changed_components), then builds and sends the snapshot ---- *)

(* what the messages of a snapshot are computed from *)
Definition snap_key (pr : peer_state) :=
  (p_ents pr, t_e2u pr, p_sync_types pr, a_store pr, (t_mat pr, t_mesh pr, t_audio pr), p_id pr, d_pending pr).

Lemma snap_key_inv a b : snap_key a = snap_key b ->
  p_ents a = p_ents b /\ t_e2u a = t_e2u b /\ p_sync_types a = p_sync_types b /\ a_store a = a_store b /\
  t_mat a = t_mat b /\ t_mesh a = t_mesh b /\ t_audio a = t_audio b /\ p_id a = p_id b /\
  d_pending a = d_pending b.
Proof. unfold snap_key. intros H. injection H as -> -> -> -> -> -> -> -> ->. repeat split. Qed.

Lemma snap_key_serve_all a c : snap_key (serve_all a c).1 = snap_key a.
Proof. unfold serve_all. case_match; reflexivity. Qed.

Lemma serve_all_msgs_ext a b c : snap_key a = snap_key b -> (serve_all a c).2 = (serve_all b c).2.
Proof.
  intros H. apply snap_key_inv in H as (_ & _ & _ & Hs & Hm & Hme & Ha & Hid & Hpd).
  unfold serve_all.
  assert (pending_of a c = pending_of b c) as -> by (unfold pending_of; rewrite Hpd; reflexivity).
  assert (class_enabled a (KClass c) = class_enabled b (KClass c)) as -> by (destruct c; cbn; congruence).
  assert (assets_of_kind a (KClass c) = assets_of_kind b (KClass c)) as -> by (unfold assets_of_kind; congruence).
  case_match; cbn [snd]; [|reflexivity]. rewrite Hid. reflexivity.
Qed.

Lemma snapshot_entity_msgs_ext a b e en :
  snap_key a = snap_key b -> snapshot_entity_msgs a e en = snapshot_entity_msgs b e en.
Proof.
  intros H. apply snap_key_inv in H as (_ & Hu & Ht & _).
  unfold snapshot_entity_msgs, to_skinned_mapper. rewrite Hu, Ht. reflexivity.
Qed.
Lemma snapshot_parent_msgs_ext a b e en :
  snap_key a = snap_key b -> snapshot_parent_msgs a e en = snapshot_parent_msgs b e en.
Proof.
  intros H. apply snap_key_inv in H as (_ & Hu & _).
  unfold snapshot_parent_msgs. rewrite Hu. reflexivity.
Qed.
Lemma snapshot_material_msgs_ext a b :
  snap_key a = snap_key b -> snapshot_material_msgs a = snapshot_material_msgs b.
Proof.
  intros H. apply snap_key_inv in H as (_ & _ & _ & Hs & Hm & _).
  unfold snapshot_material_msgs, assets_of_kind. rewrite Hs, Hm. reflexivity.
Qed.

(* the messages of a snapshot do not depend on the outbox or on the queue of detected changes *)
Lemma build_full_sync_msgs_ext a b : snap_key a = snap_key b -> (build_full_sync a).2 = (build_full_sync b).2.
Proof.
  intros H. unfold build_full_sync. cbv zeta.
  assert (ents_list a = ents_list b) as He.
  { unfold ents_list. apply snap_key_inv in H as (-> & _). reflexivity. }
  pose proof (serve_all_msgs_ext a b AImage H) as M1.
  pose proof (snap_key_serve_all a AImage) as K1. pose proof (snap_key_serve_all b AImage) as K1'.
  destruct (serve_all a AImage) as [a1 l1]. destruct (serve_all b AImage) as [b1 l1']. cbn [fst snd] in *.
  assert (snap_key a1 = snap_key b1) as H1 by congruence.
  pose proof (serve_all_msgs_ext a1 b1 AMesh H1) as M2.
  pose proof (snap_key_serve_all a1 AMesh) as K2. pose proof (snap_key_serve_all b1 AMesh) as K2'.
  destruct (serve_all a1 AMesh) as [a2 l2]. destruct (serve_all b1 AMesh) as [b2 l2']. cbn [fst snd] in *.
  assert (snap_key a2 = snap_key b2) as H2 by congruence.
  pose proof (serve_all_msgs_ext a2 b2 AAudio H2) as M3.
  destruct (serve_all a2 AAudio) as [a3 l3]. destruct (serve_all b2 AAudio) as [b3 l3']. cbn [fst snd] in *.
  rewrite He, M1, M2, M3, (snapshot_material_msgs_ext a1 b1 H1).
  assert (E1 : ((fun '(e, en) => firstn 1 (snapshot_entity_msgs a e en)) <$> ents_list b)
             = ((fun '(e, en) => firstn 1 (snapshot_entity_msgs b e en)) <$> ents_list b)).
  { apply list_fmap_ext. intros _ [e en] _. cbn. rewrite (snapshot_entity_msgs_ext a b e en H). reflexivity. }
  assert (E2 : ((fun '(e, en) => skipn 1 (snapshot_entity_msgs a e en)) <$> ents_list b)
             = ((fun '(e, en) => skipn 1 (snapshot_entity_msgs b e en)) <$> ents_list b)).
  { apply list_fmap_ext. intros _ [e en] _. cbn. rewrite (snapshot_entity_msgs_ext a b e en H). reflexivity. }
  assert (E3 : ((fun '(e, en) => snapshot_parent_msgs a e en) <$> ents_list b)
             = ((fun '(e, en) => snapshot_parent_msgs b e en) <$> ents_list b)).
  { apply list_fmap_ext. intros _ [e en] _. cbn. apply snapshot_parent_msgs_ext, H. }
  rewrite E1, E2, E3. reflexivity.
Qed.

Lemma p_out_send_all m ds : forall pr,
  p_out (send_all pr ds m) = p_out pr ++ ((fun d => (d, m)) <$> ds).
Proof.
  unfold send_all. induction ds as [|d ds IH]; intros pr; cbn [foldl fmap list_fmap]; [symmetry; apply app_nil_r|].
  rewrite IH. unfold send. cbn. rewrite <- app_assoc. reflexivity.
Qed.
Lemma send_all_keeps {A} (P : peer_state -> A) m ds :
  (forall a d, P (send a d m) = P a) -> forall pr, P (send_all pr ds m) = P pr.
Proof.
  intros Hf. unfold send_all. induction ds as [|d ds IH]; intros pr; cbn [foldl]; [reflexivity|].
  rewrite IH. apply Hf.
Qed.

(* what react_on_changed_components puts on the wire on the host: every queued change, in order,
   to every connected client *)
Definition queued_msgs (pr : peer_state) : list (peer * msg) :=
  concat ((fun x : uuid * tyid * value => (fun d => (d, MComp x.1.1 x.1.2 x.2)) <$> n_clients pr) <$> t_queue pr).

Lemma react_components_srv_spec pr :
  let pr' := react_on_changed_components true pr in
  p_out pr' = p_out pr ++ queued_msgs pr /\ snap_key pr' = snap_key pr.
Proof.
  cbv zeta. unfold react_on_changed_components, queued_msgs. cbv zeta.
  assert (forall q a, n_clients a = n_clients pr ->
    let a' := foldl (fun pr0 '(u, t, v) => broadcast pr0 (MComp u t v)) a q in
    p_out a' = p_out a ++ concat ((fun x : uuid * tyid * value => (fun d => (d, MComp x.1.1 x.1.2 x.2)) <$> n_clients pr) <$> q)
    /\ snap_key a' = snap_key a) as H.
  { induction q as [|[[u t] v] q IH]; intros a Ha; cbn [foldl fmap list_fmap concat].
    - split; [symmetry; apply app_nil_r|reflexivity].
    - destruct (IH (broadcast a (MComp u t v))) as [H1 H2].
      { unfold broadcast. rewrite (send_all_keeps n_clients); [exact Ha|reflexivity]. }
      cbv zeta in H1, H2. rewrite H1, H2. split.
      + unfold broadcast. rewrite p_out_send_all, Ha, <- app_assoc. reflexivity.
      + unfold broadcast. apply (send_all_keeps snap_key). reflexivity. }
  match goal with |- context [foldl _ ?a0 _] => destruct (H (t_queue pr) a0 eq_refl) as [H1 H2] end.
  split; [exact H1|exact H2].
Qed.

Lemma queued_msgs_nofin pr : Forall (fun x => is_fin x.2 = false) (queued_msgs pr).
Proof.
  unfold queued_msgs. induction (t_queue pr) as [|x q IH]; cbn [fmap list_fmap concat]; [constructor|].
  apply Forall_app. split; [|exact IH]. apply Forall_fmap, Forall_forall. intros d _. reflexivity.
Qed.

(* CSendInitialSync c: first the queued component changes to every connected client (none of them a
   FinishedInitialSync), then the messages of build_full_sync (the same list as in the state before
   the queue was flushed), then one FinishedInitialSync, both to c; FinishedInitialSync is the last
   message of the batch and the only one *)
Theorem send_initial_sync_batch pr c :
  let pre := queued_msgs pr in
  let ms := (build_full_sync pr).2 in
  p_out (apply_cmd pr (CSendInitialSync c)) = p_out pr ++ pre ++ ((fun m => (c, m)) <$> ms) ++ [(c, MFinInit)]
  /\ Forall (fun x => is_fin x.2 = false) pre
  /\ Forall (fun m => is_fin m = false) ms.
Proof.
  cbv zeta. destruct (build_full_sync_spec pr) as [_ Hm]. split; [|split; [apply queued_msgs_nofin|exact Hm]].
  destruct (react_components_srv_spec pr) as [Hq Hk]. cbv zeta in Hq, Hk.
  unfold apply_cmd. cbv zeta.
  set (pr0 := react_on_changed_components true pr) in *.
  rewrite <- (build_full_sync_msgs_ext pr0 pr Hk).
  destruct (build_full_sync_spec pr0) as [Ho _].
  destruct (build_full_sync pr0) as [p' ms]. cbn [fst snd] in *.
  unfold send at 1. cbn. rewrite p_out_send_list, Ho, Hq, <- !app_assoc. reflexivity.
Qed.

(* with nothing queued (or nobody connected) this is the statement from before the repair *)
Corollary send_initial_sync_batch_nothing_queued pr c :
  t_queue pr = [] \/ n_clients pr = [] ->
  let ms := (build_full_sync pr).2 in
  p_out (apply_cmd pr (CSendInitialSync c)) = p_out pr ++ ((fun m => (c, m)) <$> ms) ++ [(c, MFinInit)]
  /\ Forall (fun m => is_fin m = false) ms.
Proof.
  intros Hq. cbv zeta. destruct (send_initial_sync_batch pr c) as (H1 & _ & H3). cbv zeta in H1, H3.
  split; [|exact H3]. rewrite H1. f_equal.
  assert (queued_msgs pr = []) as ->; [|reflexivity].
  unfold queued_msgs. destruct Hq as [-> | ->]; [reflexivity|].
  induction (t_queue pr) as [|x q IH]; [reflexivity|exact IH].
Qed.

(* The statement proved before the repair of S21 (the batch is exactly the snapshot followed by
   FinishedInitialSync) is FALSE for the repaired code: a host with a detected, not yet announced
   change (uuid 7, type 1, value 3) and two connected clients 1 and 2 answers the request of client 2
   with ComponentUpdated to 1 and to 2 first. *)
Definition send_initial_sync_batch_pre_S21_statement : Prop :=
  forall pr c,
    let ms := (build_full_sync pr).2 in
    p_out (apply_cmd pr (CSendInitialSync c)) = p_out pr ++ ((fun m => (c, m)) <$> ms) ++ [(c, MFinInit)]
    /\ Forall (fun m => is_fin m = false) ms.

Definition s21_host : peer_state :=
  init_peer 0 [1] [1] [] <| t_queue := [(7, 1, VN 3)] |> <| n_clients := [1; 2] |>.

Example s21_host_batch :
  p_out (apply_cmd s21_host (CSendInitialSync 2)) =
    [(1, MComp 7 1 (VN 3)); (2, MComp 7 1 (VN 3)); (2, MFinInit)]
  /\ p_out s21_host ++ ((fun m => (2, m)) <$> (build_full_sync s21_host).2) ++ [(2, MFinInit)] = [(2, MFinInit)].
Proof. split; vm_compute; reflexivity. Qed.

Theorem send_initial_sync_batch_pre_S21_refuted : ~ send_initial_sync_batch_pre_S21_statement.
Proof.
  intros H. destruct (H s21_host 2) as [H1 _]. cbv zeta in H1.
  destruct s21_host_batch as [E1 E2].
  pose proof (eq_trans (eq_sym E1) (eq_trans H1 E2)) as X. discriminate X.
Qed.

(* the link is FIFO: what a frame sent to dst is appended, in order, to dst's inbox from src *)
Lemma deliver_out_inbox out : forall (g : global) src dst pd,
  g !! dst = Some pd ->
  exists pd', deliver_out g src out !! dst = Some pd'
    /\ inbox pd' src = inbox pd src ++ (snd <$> filter (fun x => x.1 = dst) out).
Proof.
  induction out as [|[d m] out IH]; intros g src dst pd Hg.
  - exists pd. split; [exact Hg|]. cbn. symmetry. apply app_nil_r.
  - unfold deliver_out. cbn [foldl]. fold (deliver_out
      (match g !! d with
       | Some pd0 => <[d := pd0 <| n_inbox := <[src := default [] (n_inbox pd0 !! src) ++ [m]]> (n_inbox pd0) |>]> g
       | None => g end) src out).
    rewrite filter_cons. cbn [fst]. destruct (decide (d = dst)) as [->|Hne].
    + rewrite Hg.
      destruct (IH (<[dst := pd <| n_inbox := <[src := default [] (n_inbox pd !! src) ++ [m]]> (n_inbox pd) |>]> g)
                  src dst _ (lookup_insert _ _ _)) as (pd' & H1 & H2).
      exists pd'. split; [exact H1|]. rewrite H2. unfold inbox at 1. cbn. rewrite lookup_insert. cbn.
      rewrite <- app_assoc. reflexivity.
    + destruct (g !! d) as [pd0|] eqn:Hd.
      * apply IH. etrans; [apply lookup_insert_ne; exact Hne|exact Hg].
      * apply IH. exact Hg.
Qed.

(* 5d. at the end of a frame that did not panic every deferred command has been applied *)
Lemma run_system_cmdq_none pr s o k :
  k <> sys_key s -> p_cmdq pr !! k = None -> p_cmdq (run_system pr s o) !! k = None.
Proof.
  intros Hk H. destruct (p_panic pr) eqn:Hp; [erewrite run_system_panicked; eauto|].
  destruct (decide (s = SSync)) as [->|Hs].
  - rewrite run_system_sync, flush_unfold by auto. apply cmdq_flush_steps_none, H.
  - destruct (run_system_spec pr s o Hp Hs). rewrite ps_cmdq0 by exact Hk. exact H.
Qed.

Theorem frame_cmdq_empty pr o :
  (forall k, p_cmdq pr !! k <> None -> exists s, s ∈ p_order pr /\ sys_key s = k) ->
  p_panic (frame pr o) = None -> p_cmdq (frame pr o) = ∅.
Proof.
  intros Hdom Hp.
  assert (p_panic pr = None) as Hp0.
  { destruct (p_panic pr) eqn:E; [erewrite frame_panicked in Hp by eauto; congruence|reflexivity]. }
  assert (forall l, (forall s, s ∈ l -> s ∈ p_order pr) ->
    forall k, (forall s, s ∈ p_order pr -> sys_key s <> k) -> p_cmdq (frame_at pr o l) !! k = None) as Hout.
  { intros l. unfold frame_at.
    apply (run_systems_ind (fun l m => (forall s, s ∈ l -> s ∈ p_order pr) ->
      forall k, (forall s, s ∈ p_order pr -> sys_key s <> k) -> p_cmdq m !! k = None)).
    - intros _ k Hk. rewrite (ss_cmdq _ _ _ (frame_start_spec pr o)).
      destruct (p_cmdq pr !! k) eqn:E; [|reflexivity].
      destruct (Hdom k) as (s & Hs & Hks); [congruence|]. exfalso. exact (Hk s Hs Hks).
    - clear l. intros l s m _ IH Hsub k Hk. apply run_system_cmdq_none.
      + intros ->. apply (Hk s); [|reflexivity]. apply Hsub, elem_of_app. right. left.
      + apply IH; [|exact Hk]. intros s' Hs'. apply Hsub, elem_of_app. left. exact Hs'. }
  rewrite frame_unfold in * by auto. set (X := frame_at pr o (p_order pr)) in *.
  assert (p_panic X = None) as HpX.
  { destruct (p_panic X) eqn:E; [|reflexivity]. unfold frame_end in Hp. rewrite E in Hp. cbn in Hp. congruence. }
  unfold frame_end. rewrite HpX. unfold last_schedule. cbn.
  apply map_empty. intros k. rewrite flush_unfold.
  assert (p_order X = p_order pr) as HoX by apply frame_at_fields. rewrite HoX.
  destruct (decide (k ∈ sys_key <$> p_order pr)) as [Hin|Hin].
  - apply elem_of_list_fmap in Hin as (s & -> & Hs). apply cmdq_flush_steps_in, Hs.
  - apply cmdq_flush_steps_none. apply Hout; [auto|].
    intros s Hs <-. apply Hin, elem_of_list_fmap. eauto.
Qed.

Lemma prun_cmdq_empty id sty rg ord l :
  let pr := prun (init_peer id sty rg ord) l in p_panic pr = None -> p_cmdq pr = ∅.
Proof.
  cbv zeta. apply (prun_inv' (fun pr => p_panic pr = None -> p_cmdq pr = ∅)).
  - intros pr op H Hp. destruct (app_step_spec pr op). rewrite as_cmdq0. apply H.
    destruct (p_panic pr) eqn:E; [|reflexivity]. rewrite (app_step_panic_mono pr op _ E) in Hp. discriminate.
  - intros pr o H Hp. apply frame_cmdq_empty; [|exact Hp]. intros k Hk. exfalso. apply Hk.
    rewrite H; [apply lookup_empty|].
    destruct (p_panic pr) eqn:E; [erewrite frame_panicked in Hp by eauto; congruence|reflexivity].
  - reflexivity.
Qed.

(* 5e. the poll handles the head of the link, in order: the messages that precede
   FinishedInitialSync are handled before it *)
Definition client_handle (pr : peer_state) (k : N) (ms : list msg) : peer_state :=
  foldl (fun p m => client_received p k m) pr ms.

Lemma client_received_set_inbox pr k m ib :
  client_received (pr <| n_inbox := ib |>) k m = client_received pr k m <| n_inbox := ib |>.
Proof.
  destruct m; unfold client_received, push_cmd, request_asset, cmd_get_entity, alive, memN; cbn;
    repeat case_match; reflexivity.
Qed.

Lemma client_handle_set_inbox ms : forall pr k ib,
  client_handle (pr <| n_inbox := ib |>) k ms = client_handle pr k ms <| n_inbox := ib |>.
Proof.
  induction ms as [|m ms IH]; intros pr k ib; [reflexivity|].
  unfold client_handle in *. cbn [foldl]. rewrite client_received_set_inbox. apply IH.
Qed.

Lemma set_inbox_id (pr : peer_state) : pr <| n_inbox := n_inbox pr |> = pr.
Proof. destruct pr. reflexivity. Qed.

Lemma set_inbox_twice (pr : peer_state) a b : pr <| n_inbox := a |> <| n_inbox := b |> = pr <| n_inbox := b |>.
Proof. reflexivity. Qed.

Theorem client_poll_handles n : forall pr k h,
  exists ib, client_poll pr k h n = client_handle pr k (take n (inbox pr h)) <| n_inbox := ib |>.
Proof.
  induction n as [|n IH]; intros pr k h.
  - exists (n_inbox pr). change (client_poll pr k h 0) with pr. cbn. symmetry. apply set_inbox_id.
  - rewrite client_poll_S. unfold pop_inbox, inbox.
    destruct (n_inbox pr !! h) as [[|m rest]|] eqn:E; cbn [default].
    + destruct (IH pr k h) as [ib Hib]. exists ib. rewrite Hib. unfold inbox. rewrite E. cbn.
      rewrite take_nil. reflexivity.
    + set (pr1 := pr <| n_inbox := <[h := rest]> (n_inbox pr) |>).
      destruct (IH (client_received pr1 k m) k h) as [ib Hib]. exists ib. rewrite Hib.
      rewrite client_received_inbox'. unfold inbox at 1. unfold pr1 at 1. cbn. rewrite lookup_insert. cbn.
      unfold pr1. rewrite client_received_set_inbox, client_handle_set_inbox. reflexivity.
    + destruct (IH pr k h) as [ib Hib]. exists ib. rewrite Hib. unfold inbox. rewrite E. cbn.
      rewrite take_nil. reflexivity.
Qed.

(* In the frame in which a client polls FinishedInitialSync: every message that preceded it on
   the link from the host is handled by this poll (or was by an earlier one), in link order and
   before it; and at the end of the frame no deferred command is pending, for every order: every
   command those handlers queued has been applied.  What "the world reflects the snapshot"
   then means is the effect of the handlers and of their commands. *)
Theorem finished_implies_snapshot_applied pr o l1 l2 h t pre post :
  p_order pr = l1 ++ SCliPoll :: l2 ->
  let m := frame_at pr o l1 in
  p_panic m = None -> client_gate m = true -> n_cli_transport m = Some (h, t) ->
  inbox m h = pre ++ MFinInit :: post -> (length pre < fo_cli_poll o)%nat ->
  let handled := pre ++ MFinInit :: take (fo_cli_poll o - S (length pre)) post in
  (exists ib, run_system m SCliPoll o
              = end_run (client_handle (m <| p_tick := p_tick m + 1 |>) (sys_key SCliPoll) handled
                         <| n_inbox := ib |>) (sys_key SCliPoll) (p_tick m))
  /\ inbox (run_system m SCliPoll o) h = drop (fo_cli_poll o) (inbox m h)
  /\ ((forall k, p_cmdq pr !! k <> None -> exists s, s ∈ p_order pr /\ sys_key s = k) ->
      p_panic (frame pr o) = None -> p_cmdq (frame pr o) = ∅).
Proof.
  intros Ho m Hp Hg Ht Hin Hlen handled.
  assert (take (fo_cli_poll o) (inbox m h) = handled) as Htake.
  { rewrite Hin. rewrite take_app_ge by lia.
    replace (fo_cli_poll o - length pre)%nat with (S (fo_cli_poll o - S (length pre))) by lia.
    reflexivity. }
  assert (run_system m SCliPoll o
          = end_run (client_poll (m <| p_tick := p_tick m + 1 |>) (sys_key SCliPoll) h (fo_cli_poll o))
              (sys_key SCliPoll) (p_tick m)) as Hrun.
  { unfold run_system. rewrite Hp. cbv beta iota zeta. rewrite Hg.
    unfold run_body, begin_run. cbv zeta. cbn [n_cli_transport set]. rewrite Ht. reflexivity. }
  split; [|split].
  - destruct (client_poll_handles (fo_cli_poll o) (m <| p_tick := p_tick m + 1 |>) (sys_key SCliPoll) h) as [ib Hib].
    exists ib. rewrite Hrun, Hib. unfold inbox in *. cbn [n_inbox set] in *. rewrite Htake. reflexivity.
  - rewrite Hrun.
    destruct (client_poll_fifo (m <| p_tick := p_tick m + 1 |>) (sys_key SCliPoll) h (fo_cli_poll o)) as [H _].
    exact H.
  - apply frame_cmdq_empty.
Qed.

(* ================================================================================================ *)
(* 6. Non-vacuity, known findings                                                                    *)
(* ================================================================================================ *)

Lemma during_prefixes pr o (P : peer_state -> Prop) ord :
  p_order pr = ord ->
  Forall (fun i => P (frame_at pr o (take i ord))) (seq 0 (S (length ord))) -> during pr o P.
Proof.
  intros Ho H l1 l2 Hl. rewrite Ho in Hl. rewrite Forall_forall in H.
  specialize (H (length l1)). rewrite Hl, take_app in H. apply H.
  apply elem_of_seq. rewrite app_length. lia.
Qed.

Ltac during_compute ord :=
  apply (during_prefixes _ _ _ ord); [vm_compute; reflexivity|];
  unfold ord; cbn [length seq];
  repeat (apply Forall_cons_2; [vm_compute; reflexivity|]); apply Forall_nil_2.

Definition demo_order : list sysid :=
  [SFixVisibility; SSrvConnected; SSrvDisconnected; SCliRemoved; SCliCreated; SSrvRemoved; SSrvCreated;
   SSrvClientConnected; SSync; SSrvParented; SCliParented; SSrvPoll; SCliPoll; SCliConnecting; SCliVerify;
   SCliDisconnected; SSrvReact; SCliReact; SDetect 0; SSrvPromote].

Lemma demo_order_ok : order_has_state_systems demo_order /\ order_keys_ok demo_order.
Proof.
  split.
  - unfold order_has_state_systems, demo_order. repeat split.
    + exists [SFixVisibility], [SSrvDisconnected; SCliRemoved; SCliCreated; SSrvRemoved; SSrvCreated;
        SSrvClientConnected; SSync; SSrvParented; SCliParented; SSrvPoll; SCliPoll; SCliConnecting; SCliVerify;
        SCliDisconnected; SSrvReact; SCliReact; SDetect 0; SSrvPromote]. once_tac.
    + exists [SFixVisibility; SSrvConnected], [SCliRemoved; SCliCreated; SSrvRemoved; SSrvCreated;
        SSrvClientConnected; SSync; SSrvParented; SCliParented; SSrvPoll; SCliPoll; SCliConnecting; SCliVerify;
        SCliDisconnected; SSrvReact; SCliReact; SDetect 0; SSrvPromote]. once_tac.
    + exists [SFixVisibility; SSrvConnected; SSrvDisconnected; SCliRemoved; SCliCreated; SSrvRemoved; SSrvCreated;
        SSrvClientConnected; SSync; SSrvParented; SCliParented; SSrvPoll; SCliPoll],
        [SCliVerify; SCliDisconnected; SSrvReact; SCliReact; SDetect 0; SSrvPromote]. once_tac.
    + exists [SFixVisibility; SSrvConnected; SSrvDisconnected; SCliRemoved; SCliCreated; SSrvRemoved; SSrvCreated;
        SSrvClientConnected; SSync; SSrvParented; SCliParented; SSrvPoll; SCliPoll; SCliConnecting],
        [SCliDisconnected; SSrvReact; SCliReact; SDetect 0; SSrvPromote]. once_tac.
    + exists [SFixVisibility; SSrvConnected; SSrvDisconnected; SCliRemoved; SCliCreated; SSrvRemoved; SSrvCreated;
        SSrvClientConnected; SSync; SSrvParented; SCliParented; SSrvPoll; SCliPoll; SCliConnecting; SCliVerify],
        [SSrvReact; SCliReact; SDetect 0; SSrvPromote]. once_tac.
  - intros s H. unfold demo_order in H.
    repeat (apply elem_of_cons in H as [->|H]; [cbn; discriminate|]). inversion H.
Qed.

Definition o_status (r : renet_status) : frame_oracle :=
  {| fo_conn_events := []; fo_clients := []; fo_status := Some r; fo_srv_poll := []; fo_cli_poll := 0;
     fo_downloads := [] |}.

(* a client of host 0: plugin added, two frames while renet is still connecting, renet reports
   Connected, one more frame *)
Definition join_trace : list (app_op + frame_oracle) :=
  [inl (OSetup false 0); inr o_idle; inr (o_status RConnecting); inr (o_status RConnected); inr (o_status RConnected)].
Definition demo_client : peer_state := prun (init_peer 1 [0] [0] demo_order) join_trace.

(* Disconnected -> Connecting -> Connected over four frames, then the transport is removed and
   the state is Disconnected two frames later *)
Example client_lifecycle :
  let p0 := init_peer 1 [0] [0] demo_order in
  (fun n => s_client (prun p0 (take n (join_trace ++ [inl ORemoveTransports; inr o_idle; inr o_idle]))))
    <$> seq 0 9
  = [CliDisconnected; CliDisconnected; CliDisconnected; CliConnecting; CliConnecting; CliConnected;
     CliConnected; CliConnected; CliDisconnected].
Proof. vm_compute. reflexivity. Qed.

(* the hypotheses of client_removal_noticed / client_back_to_disconnected_within_two_frames hold there *)
Example client_removal_hypotheses :
  s_client demo_client = CliConnected /\ bit demo_client 25 = true /\ n_setup demo_client = true
  /\ p_panic (frame (app_step demo_client ORemoveTransports) o_idle) = None
  /\ during (app_step demo_client ORemoveTransports) o_idle (fun m => n_cli_transport m = None).
Proof.
  split; [vm_compute; reflexivity|]. split; [vm_compute; reflexivity|]. split; [vm_compute; reflexivity|].
  split; [vm_compute; reflexivity|]. during_compute demo_order.
Qed.

(* the witness of connected_only_after_transport_connected in the third frame *)
Example connected_witness :
  let pr := prun (init_peer 1 [0] [0] demo_order) (take 3 join_trace) in
  s_client (frame pr (o_status RConnected)) = CliConnecting
  /\ s_client (frame (frame pr (o_status RConnected)) (o_status RConnected)) = CliConnected
  /\ n_status (frame_at pr (o_status RConnected) (take 14 demo_order)) = RConnected.
Proof. vm_compute. repeat split. Qed.

(* a host: plugin added, Connected (and its own InitialSyncFinished) two frames later; transport
   removed, Disconnected two frames later *)
Example server_lifecycle :
  let p0 := init_peer 0 [0] [0] demo_order in
  let tr := [inl (OSetup true 0); inr o_idle; inr o_idle; inl ORemoveTransports; inr o_idle; inr o_idle] in
  (fun n => (s_server (prun p0 (take n tr)), p_finished_events (prun p0 (take n tr)))) <$> seq 0 7
  = [(SrvDisconnected, 0); (SrvDisconnected, 0); (SrvDisconnected, 1); (SrvConnected, 1);
     (SrvConnected, 1); (SrvConnected, 1); (SrvDisconnected, 1)].
Proof. vm_compute. reflexivity. Qed.

Example hosting_hypotheses :
  let pr := init_peer 0 [0] [0] demo_order in
  let pr0 := app_step pr (OSetup true 0) in
  p_panic (frame pr0 o_idle) = None
  /\ during pr0 o_idle (fun m => n_srv_transport m = Some (p_tick pr)).
Proof. cbv zeta. split; [vm_compute; reflexivity|]. during_compute demo_order. Qed.

Example hosting_end_hypotheses :
  let pr := prun (init_peer 0 [0] [0] demo_order) [inl (OSetup true 0); inr o_idle; inr o_idle] in
  let pr0 := app_step pr ORemoveTransports in
  s_server pr = SrvConnected /\ bit pr 11 = true /\ p_panic (frame pr0 o_idle) = None
  /\ during pr0 o_idle (fun m => n_srv_transport m = None).
Proof.
  cbv zeta. split; [vm_compute; reflexivity|]. split; [vm_compute; reflexivity|].
  split; [vm_compute; reflexivity|]. during_compute demo_order.
Qed.

(* the joined client receives [Spawn 7; Parented-free snapshot...; FinishedInitialSync] and polls
   both in one frame: one event, the entity exists at the end of the frame, nothing pending *)
Definition with_inbox (pr : peer_state) (h : peer) (ms : list msg) : peer_state :=
  pr <| n_inbox := <[h := ms]> (n_inbox pr) |>.
Definition o_poll (n : nat) : frame_oracle :=
  {| fo_conn_events := []; fo_clients := []; fo_status := None; fo_srv_poll := []; fo_cli_poll := n;
     fo_downloads := [] |}.

Example finished_after_snapshot :
  let pr := with_inbox demo_client 0 [MSpawn 7; MComp 7 0 (VN 5); MFinInit; MSpawn 8] in
  let pr' := frame pr (o_poll 3) in
  p_finished_events pr' = p_finished_events pr + 1
  /\ inbox pr' 0 = [MSpawn 8]
  /\ map_to_list (p_cmdq pr') = [] /\ p_panic pr' = None
  /\ (fun x => (en_sync x.2, (fun c => c_val c) <$> (en_comps x.2 !! 0))) <$> map_to_list (p_ents pr')
     = [(Some 7, Some (VN 5))].
Proof. vm_compute. repeat split. Qed.

(* "ClientState::Connected implies the renet client is connected" is false: the published state
   only follows the transport RESOURCE (resource_added / resource_removed) and, while Connecting,
   renet's status; once Connected nothing looks at the status again. *)
Definition connected_implies_renet_connected_statement : Prop :=
  forall pr o, p_panic pr = None -> next_client_legal pr ->
    s_client (frame pr o) = CliConnected -> n_status (frame pr o) = RConnected.

(* the witness: the RenetClient of a Connected client is kicked / times out (the frame oracle reports
   Disconnected) while the transport resource stays: ClientState remains Connected, frame after
   frame, with nothing pending *)
Example connected_while_renet_disconnected :
  let pr1 := frame demo_client (o_status RDisconnected) in
  let pr3 := prun pr1 [inr o_idle; inr o_idle] in
  s_client demo_client = CliConnected /\ n_status demo_client = RConnected
  /\ p_panic demo_client = None /\ s_next_client demo_client = None
  /\ s_client pr1 = CliConnected /\ n_status pr1 = RDisconnected /\ (fst <$> n_cli_transport pr1) = Some 0
  /\ s_client pr3 = CliConnected /\ n_status pr3 = RDisconnected /\ (fst <$> n_cli_transport pr3) = Some 0
  /\ s_next_client pr3 = None.
Proof. vm_compute. repeat split. Qed.

(* S8 (known finding, repaired with S9): NewHost makes the client call RenetClient::disconnect() and
   swap the transports inside one flush, so resource_removed never sees the transport absent and
   ClientState stays Connected across the switch.  Before the repair the sticky disconnect stranded
   the new transport (Connected for ever while renet reported Disconnected); now a new RenetClient
   is inserted with the transport: it starts Connecting and connects as usual.  During the switch
   the state is Connected while renet is only Connecting: a second, transient, counterexample. *)
Example S8_newhost_reconnects :
  let pr := with_inbox demo_client 0 [MNewHost 2] in
  let pr1 := frame pr (o_poll 1) in
  let pr3 := prun pr1 [inr o_idle; inr (o_status RConnected)] in
  s_client pr = CliConnected /\ n_status pr = RConnected
  /\ s_client pr1 = CliConnected /\ n_status pr1 = RConnecting /\ (fst <$> n_cli_transport pr1) = Some 2
  /\ n_sticky_disconnect pr1 = false
  /\ s_client pr3 = CliConnected /\ n_status pr3 = RConnected /\ s_next_client pr3 = None.
Proof. vm_compute. repeat split. Qed.

Theorem connected_implies_renet_connected_refuted : ~ connected_implies_renet_connected_statement.
Proof.
  intros H. specialize (H demo_client (o_status RDisconnected)).
  assert (n_status (frame demo_client (o_status RDisconnected)) = RConnected) as E.
  { apply H; vm_compute; auto. }
  vm_compute in E. discriminate E.
Qed.

(* the published state trusts renet's status alone: whatever else is true of the peer (e.g. the
   transport points to an old host whose server is gone), Connecting + status Connected gives
   Connected in the next frame *)
Example connected_trusts_renet_status :
  let pr := prun (init_peer 1 [0] [0] demo_order) [inl (OSetup false 99); inr o_idle; inr o_idle] in
  s_client pr = CliConnecting
  /\ s_client (prun pr [inr (o_status RConnected); inr o_idle]) = CliConnected.
Proof. vm_compute. repeat split. Qed.

(* a closed gate: the host's chain on a client, and vice versa *)
Example gate_closed :
  server_gate demo_client = false /\ client_gate demo_client = true
  /\ run_system demo_client SSrvPoll o_idle = demo_client.
Proof. vm_compute. repeat split. Qed.

(* Model artefact behind order_keys_ok: the last-run table is keyed by sys_key for systems and by
   sys_key + 5000 for conditions, and sys_key (SApp 3010) = sys_key (SDetect 4010) = 5010: such a
   system overwrites the last evaluation tick of server_connected's resource_added condition, and
   the host is never published as Connected. *)
Example cond_key_collision :
  sys_key (SApp 3010) = ckey (sys_key SSrvConnected)
  /\ let p0 := init_peer 0 [] [] (SApp 3010 :: demo_order) in
     s_server (prun p0 [inl (OSetup true 0); inr o_idle; inr o_idle; inr o_idle]) = SrvDisconnected.
Proof. vm_compute. split; reflexivity. Qed.

Print Assumptions client_state_path.
Print Assumptions connected_only_after_transport_connected.
Print Assumptions client_back_to_disconnected_within_two_frames.
Print Assumptions client_removal_noticed.
Print Assumptions server_state_tracks_hosting.
Print Assumptions hosting_published.
Print Assumptions hosting_end_published.
Print Assumptions existed_bit_invariant_refuted.
Print Assumptions existed_bit_invariant_partial.
Print Assumptions acts_only_when_connected.
Print Assumptions finished_event_sources.
Print Assumptions finished_event_once_per_join.
Print Assumptions send_initial_sync_batch.
Print Assumptions send_initial_sync_batch_nothing_queued.
Print Assumptions send_initial_sync_batch_pre_S21_refuted.
Print Assumptions deliver_out_inbox.
Print Assumptions frame_cmdq_empty.
Print Assumptions finished_implies_snapshot_applied.
Print Assumptions connected_implies_renet_connected_refuted.
