(* Property C01, clause "an entity's uuid never changes", on the frame-level model.

   en_sync en = Some u : the entity carries SyncEntity { uuid = u }.  Who writes it:
     - CSpawnSync e u   (the spawn handlers of both receivers: a fresh replica id e = p_next_ent, which only grows),
     - CInsertSync e u  (entity_created_on_server / _on_client for an entity with a new SyncMark: u = e, the model's
                         "fresh uuid" of a script entity is its own id),
     - application operations never write it, but OSpawn e REPLACES whatever lives at id e by an entity without
       SyncEntity, and OAppCmd can queue ANY command, CSpawnSync / CInsertSync included.

   Results (details at the statements):
   1. One step.  sync_stable pr (frame pr o) holds under the inductive invariant uuid_inv (NOT under tracker_inv
      alone: frame_sync_stable_tracker_inv_refuted); sync_stable pr (app_step pr op) holds unless op is an OSpawn
      over a live synchronised entity (app_step_sync_stable, app_step_sync_stable_respawn_refuted).
   2. Runs.  Under uuid_conforming (= Tracker.marks_script_only + "application systems queue no CSpawnSync /
      CInsertSync") an entity ID never carries two different uuids at two moments of a run, whatever happened in
      between, despawns and re-spawns of the id included (grun_uuid_fixed).  The literal sync_stable between two
      moments needs in addition that the application does not OSpawn over the id in between
      (grun_uuid_never_changes); "alive in every intermediate state" is NOT enough (respawn_alive_refuted), except
      together with Hierarchy.hier_conforming, which forbids OSpawn over a live id (grun_uuid_never_changes_alive).
   3. Without the premise the uuid of a live entity does change: SyncMark on a replica
      (uuid_changes_when_a_replica_is_marked), a queued CInsertSync (uuid_changes_by_app_command). *)
From stdpp Require Import gmap list.
From Coq Require Import NArith Lia.
From RecordUpdate Require Import RecordSet.
From BS Require Import Sync.Types Sync.Model Sync.Observe.
From BS Require Import Sync.Proofs.PanicLemmas Sync.Proofs.Hierarchy Sync.Proofs.Panic Sync.Proofs.Tracker.
Import RecordSetNotations.
Local Open Scope N_scope.

(* ================================================================================================ *)
(* 0. The property                                                                                   *)
(* ================================================================================================ *)

(* a live synchronised entity that is still there afterwards has the same uuid *)
Definition sync_stable (pr pr' : peer_state) : Prop :=
  forall e en en' u, p_ents pr !! e = Some en -> en_sync en = Some u ->
                     p_ents pr' !! e = Some en' -> en_sync en' = Some u.

(* the same for one id *)
Definition sync_stable_at (e : ent) (pr pr' : peer_state) : Prop :=
  forall en en' u, p_ents pr !! e = Some en -> en_sync en = Some u ->
                   p_ents pr' !! e = Some en' -> en_sync en' = Some u.

(* the id never stands for two uuids (says nothing when the entity at e lost its SyncEntity by being replaced) *)
Definition uuid_fixed (pr pr' : peer_state) : Prop :=
  forall e en en' u u', p_ents pr !! e = Some en -> en_sync en = Some u ->
                        p_ents pr' !! e = Some en' -> en_sync en' = Some u' -> u = u'.

Lemma sync_stable_all pr pr' : (forall e, sync_stable_at e pr pr') <-> sync_stable pr pr'.
Proof. split; intros H; [intros e|intros e]; intros en en' u; apply H. Qed.

Lemma sync_stable_fixed pr pr' : sync_stable pr pr' -> uuid_fixed pr pr'.
Proof. intros H e en en' u u' H1 H2 H3 H4. rewrite (H e en en' u H1 H2 H3) in H4. congruence. Qed.

(* decidable forms, for the examples *)
Definition sync_of (pr : peer_state) (e : ent) : option (option uuid) := en_sync <$> p_ents pr !! e.
Definition sync_list (pr : peer_state) : list (ent * option uuid) := (fun x : ent * entity => (x.1, en_sync x.2)) <$> ents_list pr.

(* ================================================================================================ *)
(* 1. The invariant                                                                                  *)
(* ================================================================================================ *)

(* commands that write SyncEntity *)
Definition names_uuid (c : cmd) : bool :=
  match c with CSpawnSync _ _ | CInsertSync _ _ => true | _ => false end.

(* what says that id e stands for uuid u: a live entity's SyncEntity, or a spawn waiting in a buffer
   (extra = the rest of the buffer a flush is applying) *)
Definition sfact (pr : peer_state) (extra : list cmd) (e : ent) (u : uuid) : Prop :=
  (exists en, p_ents pr !! e = Some en /\ en_sync en = Some u) \/ queued pr extra (CSpawnSync e u).

Record UI (pr : peer_state) (extra : list cmd) : Prop := {
  ui_agree : forall e u u', sfact pr extra e u -> sfact pr extra e u' -> u = u';
  ui_old : forall e u, sfact pr extra e u -> e < p_next_ent pr;            (* below the replica allocator *)
  ui_script : forall e u, sfact pr extra e u -> e < SCRIPT_LIMIT -> u = e;  (* a script entity's uuid is its id *)
  ui_next : SCRIPT_LIMIT <= p_next_ent pr;
  ui_mark : ents_all mark_ok pr;                                           (* only script entities carry SyncMark *)
  ui_isync : forall e u, queued pr extra (CInsertSync e u) -> u = e /\ e < SCRIPT_LIMIT;
  ui_app : forall x, x ∈ p_app_cmds pr -> names_uuid x.2 = false;
}.

Definition uuid_inv (pr : peer_state) : Prop := UI pr [].

(* The transition relation, transitive by itself.  X = the ids the application spawned over (OSpawn). *)
Definition sstep (X : ent -> Prop) (pr : peer_state) (extra : list cmd) (pr' : peer_state) (extra' : list cmd) : Prop :=
  p_next_ent pr <= p_next_ent pr' /\
  (forall e u, sfact pr' extra' e u ->
     sfact pr extra e u \/ (e < SCRIPT_LIMIT /\ u = e) \/ p_next_ent pr <= e) /\
  (forall e en', p_ents pr' !! e = Some en' -> en_sync en' = None ->
     (exists en, p_ents pr !! e = Some en /\ en_sync en = None) \/ X e).

Lemma sstep_refl X pr extra : sstep X pr extra pr extra.
Proof.
  split; [lia|]. split; [intros e u H; left; exact H|].
  intros e en' Hl Hs. left. exists en'. split; assumption.
Qed.

Lemma sstep_trans X a ea b eb c ec : sstep X a ea b eb -> sstep X b eb c ec -> sstep X a ea c ec.
Proof.
  intros (N1 & F1 & K1) (N2 & F2 & K2). split; [lia|]. split.
  - intros e u H. destruct (F2 e u H) as [H'|[H'|H']]; [|right; left; exact H'|right; right; lia].
    apply F1. exact H'.
  - intros e en' Hl Hs. destruct (K2 e en' Hl Hs) as [(en & Hl' & Hs')|HX]; [|right; exact HX].
    apply (K1 e en Hl' Hs').
Qed.

Lemma sstep_mono (X Y : ent -> Prop) a ea b eb : (forall e, X e -> Y e) -> sstep X a ea b eb -> sstep Y a ea b eb.
Proof.
  intros HXY (N1 & F1 & K1). split; [exact N1|]. split; [exact F1|].
  intros e en' Hl Hs. destruct (K1 e en' Hl Hs) as [H|H]; [left; exact H|right; apply HXY; exact H].
Qed.

(* what the invariant and the relation give *)
Lemma sstep_uuid_fixed X pr pr' : UI pr [] -> sstep X pr [] pr' [] -> uuid_fixed pr pr'.
Proof.
  intros HI (_ & F & _) e en en' u u' H1 H2 H3 H4.
  assert (Hf : sfact pr [] e u) by (left; exists en; split; assumption).
  assert (Hf' : sfact pr' [] e u') by (left; exists en'; split; assumption).
  destruct (F e u' Hf') as [H|[[Hlt ->]|H]].
  - apply (ui_agree _ _ HI e u u' Hf H).
  - apply (ui_script _ _ HI e u Hf Hlt).
  - pose proof (ui_old _ _ HI e u Hf). lia.
Qed.

Lemma sstep_sync_stable_at X pr pr' e : UI pr [] -> sstep X pr [] pr' [] -> ~ X e -> sync_stable_at e pr pr'.
Proof.
  intros HI Hs HX en en' u H1 H2 H3.
  destruct (en_sync en') as [u'|] eqn:E.
  - f_equal. symmetry. apply (sstep_uuid_fixed X pr pr' HI Hs e en en' u u' H1 H2 H3 E).
  - destruct Hs as (_ & _ & K). destruct (K e en' H3 E) as [(en0 & Hl & Hn)|H]; [|contradiction].
    rewrite H1 in Hl. injection Hl as <-. congruence.
Qed.

Lemma sstep_sync_stable pr pr' : UI pr [] -> sstep (fun _ => False) pr [] pr' [] -> sync_stable pr pr'.
Proof.
  intros HI Hs. apply sync_stable_all. intros e. eapply sstep_sync_stable_at; [exact HI|exact Hs|]. intros H; exact H.
Qed.

(* ---------- the two kinds of elementary step ----------------------------------------------------------- *)

(* (1) nothing is allocated: every entity afterwards is an old one with the same SyncEntity, or was brought to
   life / named by a pending command, or was spawned by the application; new naming commands are CInsertSync e e
   on script ids only *)
Definition ent_step (X : ent -> Prop) (pr : peer_state) (extra : list cmd) (e : ent) (en' : entity) : Prop :=
  (exists en, p_ents pr !! e = Some en /\ en_sync en' = en_sync en /\
              (en_mark en' <> None -> en_mark en <> None \/ e < SCRIPT_LIMIT)) \/
  (exists u, en_sync en' = Some u /\ en_mark en' = None /\
             (queued pr extra (CSpawnSync e u) \/ (u = e /\ e < SCRIPT_LIMIT))) \/
  (en_sync en' = None /\ X e /\ (en_mark en' <> None -> e < SCRIPT_LIMIT)).

Lemma UI_shrink X pr extra pr' extra' :
  UI pr extra ->
  p_next_ent pr' = p_next_ent pr ->
  (forall e en', p_ents pr' !! e = Some en' -> ent_step X pr extra e en') ->
  (forall c, names_uuid c = true -> queued pr' extra' c ->
     queued pr extra c \/ exists e, c = CInsertSync e e /\ e < SCRIPT_LIMIT) ->
  (forall x, x ∈ p_app_cmds pr' -> names_uuid x.2 = false) ->
  UI pr' extra' /\ sstep X pr extra pr' extra'.
Proof.
  intros HI Hn Hents Hq Happ.
  assert (F : forall e u, sfact pr' extra' e u -> sfact pr extra e u \/ (e < SCRIPT_LIMIT /\ u = e)).
  { intros e u [(en' & Hl & Hs)|H].
    - destruct (Hents e en' Hl) as [(en & Hl0 & Hs0 & _)|[(u0 & Hs0 & _ & [Hc|[-> Hlt]])|(Hs0 & _)]].
      + left. left. exists en. split; [exact Hl0|congruence].
      + rewrite Hs in Hs0. injection Hs0 as <-. left. right. exact Hc.
      + rewrite Hs in Hs0. injection Hs0 as ->. right. split; [exact Hlt|reflexivity].
      + congruence.
    - destruct (Hq (CSpawnSync e u) eq_refl H) as [H'|(x & Hx & _)]; [left; right; exact H'|discriminate]. }
  split.
  - constructor.
    + intros e u u' H1 H2. destruct (F e u H1) as [A|[A1 A2]]; destruct (F e u' H2) as [B|[B1 B2]].
      * apply (ui_agree _ _ HI e u u' A B).
      * subst u'. apply (ui_script _ _ HI e u A B1).
      * subst u. symmetry. apply (ui_script _ _ HI e u' B A1).
      * congruence.
    + intros e u H. rewrite Hn. destruct (F e u H) as [A|[A1 A2]]; [apply (ui_old _ _ HI e u A)|].
      pose proof (ui_next _ _ HI). lia.
    + intros e u H Hlt. destruct (F e u H) as [A|[A1 A2]]; [apply (ui_script _ _ HI e u A Hlt)|exact A2].
    + rewrite Hn. apply (ui_next _ _ HI).
    + intros e en' Hl Hmk.
      destruct (Hents e en' Hl) as [(en & Hl0 & _ & Hm)|[(u0 & _ & Hm & _)|(_ & _ & Hm)]].
      * destruct (Hm Hmk) as [Hm'|Hlt]; [apply (ui_mark _ _ HI e en Hl0 Hm')|exact Hlt].
      * contradiction.
      * apply Hm. exact Hmk.
    + intros e u H. destruct (Hq (CInsertSync e u) eq_refl H) as [H'|(x & Hx & Hlt)]; [apply (ui_isync _ _ HI e u H')|].
      injection Hx as -> ->. split; [reflexivity|exact Hlt].
    + exact Happ.
  - split; [rewrite Hn; lia|]. split.
    + intros e u H. destruct (F e u H) as [A|A]; [left; exact A|right; left; exact A].
    + intros e en' Hl Hs.
      destruct (Hents e en' Hl) as [(en & Hl0 & Hs0 & _)|[(u0 & Hs0 & _)|(_ & HX & _)]].
      * left. exists en. split; [exact Hl0|congruence].
      * congruence.
      * right. exact HX.
Qed.

(* an unchanged entity *)
Lemma ent_step_same X pr extra e en : p_ents pr !! e = Some en -> ent_step X pr extra e en.
Proof. intros H. left. exists en. split; [exact H|split; [reflexivity|]]. intros Hm. left. exact Hm. Qed.

(* (2) the replica allocator hands out its next id *)
Lemma UI_alloc X pr extra pr' k u :
  UI pr extra ->
  p_ents pr' = p_ents pr -> p_next_ent pr' = p_next_ent pr + 1 -> p_app_cmds pr' = p_app_cmds pr ->
  p_cmdq pr' = <[k := default [] (p_cmdq pr !! k) ++ [CSpawnSync (p_next_ent pr) u]]> (p_cmdq pr) ->
  UI pr' extra /\ sstep X pr extra pr' extra.
Proof.
  intros HI He Hn Ha Hq.
  assert (Q : forall c, queued pr' extra c <-> queued pr extra c \/ c = CSpawnSync (p_next_ent pr) u).
  { intros c. unfold queued. rewrite Hq. apply queued_push_. }
  assert (F : forall e v, sfact pr' extra e v -> sfact pr extra e v \/ (e = p_next_ent pr /\ v = u)).
  { intros e v [(en' & Hl & Hs)|H].
    - rewrite He in Hl. left. left. exists en'. split; assumption.
    - apply Q in H as [H|H]; [left; right; exact H|]. injection H as -> ->. right. split; reflexivity. }
  split.
  - constructor.
    + intros e v v' H1 H2. destruct (F e v H1) as [A|[A1 A2]]; destruct (F e v' H2) as [B|[B1 B2]].
      * apply (ui_agree _ _ HI e v v' A B).
      * pose proof (ui_old _ _ HI e v A). lia.
      * pose proof (ui_old _ _ HI e v' B). lia.
      * congruence.
    + intros e v H. rewrite Hn. destruct (F e v H) as [A|[A1 A2]]; [pose proof (ui_old _ _ HI e v A)|]; lia.
    + intros e v H Hlt. destruct (F e v H) as [A|[A1 A2]]; [apply (ui_script _ _ HI e v A Hlt)|].
      pose proof (ui_next _ _ HI). lia.
    + rewrite Hn. pose proof (ui_next _ _ HI). lia.
    + eapply ents_all_ext; [exact He|apply (ui_mark _ _ HI)].
    + intros e v H. apply Q in H as [H|H]; [apply (ui_isync _ _ HI e v H)|discriminate].
    + rewrite Ha. apply (ui_app _ _ HI).
  - split; [rewrite Hn; lia|]. split.
    + intros e v H. destruct (F e v H) as [A|[A1 A2]]; [left; exact A|right; right; lia].
    + intros e en' Hl Hs. rewrite He in Hl. left. exists en'. split; assumption.
Qed.

(* ---------- the invariant together with the relation to a fixed earlier state ---------------------------- *)

Definition UR (X : ent -> Prop) (pr0 : peer_state) (ex0 : list cmd) (pr : peer_state) (extra : list cmd) : Prop :=
  UI pr extra /\ sstep X pr0 ex0 pr extra.

Lemma UR_start X pr extra : UI pr extra -> UR X pr extra pr extra.
Proof. intros H. split; [exact H|apply sstep_refl]. Qed.

Lemma UR_via X pr0 ex0 a ea b eb :
  (UI a ea -> UI b eb /\ sstep X a ea b eb) -> UR X pr0 ex0 a ea -> UR X pr0 ex0 b eb.
Proof. intros H [H1 H2]. destruct (H H1) as [H3 H4]. split; [exact H3|eapply sstep_trans; eassumption]. Qed.

(* states that agree on the four fields the invariant reads *)
Lemma UR_ext X pr0 ex0 a b extra :
  p_ents b = p_ents a -> p_next_ent b = p_next_ent a -> p_cmdq b = p_cmdq a -> p_app_cmds b = p_app_cmds a ->
  UR X pr0 ex0 a extra -> UR X pr0 ex0 b extra.
Proof.
  intros He Hn Hq Ha. apply UR_via. intros HI.
  apply (UI_shrink X a extra b extra HI Hn).
  - intros e en' Hl. rewrite He in Hl. apply ent_step_same. exact Hl.
  - intros c _ Hc. left. unfold queued in *. rewrite Hq in Hc. exact Hc.
  - rewrite Ha. apply (ui_app _ _ HI).
Qed.

Lemma UR_core X pr0 ex0 a b extra : core b = core a -> UR X pr0 ex0 a extra -> UR X pr0 ex0 b extra.
Proof.
  intros H. apply UR_ext; [apply (core_ents _ _ H)|apply (core_next _ _ H)|apply (core_cmdq _ _ H)|apply (core_app _ _ H)].
Qed.
Lemma UR_nou2e X pr0 ex0 a b extra : nou2e b = nou2e a -> UR X pr0 ex0 a extra -> UR X pr0 ex0 b extra.
Proof. intros H. apply nou2e_inv in H as (_ & He & Ha & _ & Hn & Hq). apply UR_ext; assumption. Qed.

(* one more command in a buffer: not a naming one, or CInsertSync e e for a script id *)
Definition push_ok (c : cmd) : Prop := names_uuid c = false \/ exists e, c = CInsertSync e e /\ e < SCRIPT_LIMIT.

Lemma UR_push_eq X pr0 ex0 a b extra k c :
  push_ok c ->
  p_ents b = p_ents a -> p_next_ent b = p_next_ent a -> p_app_cmds b = p_app_cmds a ->
  p_cmdq b = <[k := default [] (p_cmdq a !! k) ++ [c]]> (p_cmdq a) ->
  UR X pr0 ex0 a extra -> UR X pr0 ex0 b extra.
Proof.
  intros Hc He Hn Ha Hq. apply UR_via. intros HI.
  apply (UI_shrink X a extra b extra HI Hn).
  - intros e en' Hl. rewrite He in Hl. apply ent_step_same. exact Hl.
  - intros c' Hc' H. unfold queued in H. rewrite Hq in H. apply queued_push_ in H as [H|H]; [left; exact H|].
    subst c'. destruct Hc as [Hc|Hc]; [congruence|right; exact Hc].
  - rewrite Ha. apply (ui_app _ _ HI).
Qed.

Lemma UR_push X pr0 ex0 a extra k c : push_ok c -> UR X pr0 ex0 a extra -> UR X pr0 ex0 (push_cmd a k c) extra.
Proof. intros Hc. apply (UR_push_eq X pr0 ex0 a _ extra k c Hc); reflexivity. Qed.

Lemma UR_alloc X pr0 ex0 a b extra k u :
  p_ents b = p_ents a -> p_next_ent b = p_next_ent a + 1 -> p_app_cmds b = p_app_cmds a ->
  p_cmdq b = <[k := default [] (p_cmdq a !! k) ++ [CSpawnSync (p_next_ent a) u]]> (p_cmdq a) ->
  UR X pr0 ex0 a extra -> UR X pr0 ex0 b extra.
Proof. intros He Hn Ha Hq. apply UR_via. intros HI. apply (UI_alloc X a extra b k u HI); assumption. Qed.

(* a flush takes a whole buffer *)
Lemma UR_take X pr0 ex0 a k cs :
  UR X pr0 ex0 a [] -> p_cmdq a !! k = Some cs -> UR X pr0 ex0 (a <| p_cmdq := delete k (p_cmdq a) |>) cs.
Proof.
  intros H Hk. revert H. apply UR_via. intros HI.
  apply (UI_shrink X a [] _ cs HI); [reflexivity| | |apply (ui_app _ _ HI)].
  - intros e en' Hl. apply ent_step_same. exact Hl.
  - intros c _ Hc. left. unfold queued in *. simpl in Hc. apply (queued_take_ _ _ _ _ Hk). exact Hc.
Qed.

(* the rest of a buffer is given up (panic) *)
Lemma UR_drop X pr0 ex0 a extra : UR X pr0 ex0 a extra -> UR X pr0 ex0 a [].
Proof.
  apply UR_via. intros HI.
  apply (UI_shrink X a extra a [] HI); [reflexivity| | |apply (ui_app _ _ HI)].
  - intros e en' Hl. apply ent_step_same. exact Hl.
  - intros c _ [Hc|Hc]; [inversion Hc|]. left. right. exact Hc.
Qed.

(* ================================================================================================ *)
(* 2. Deferred commands                                                                              *)
(* ================================================================================================ *)

(* an entity of the later state is an entity of pr0 with the same SyncEntity and no new SyncMark *)
Definition kept (pr0 : peer_state) (e : ent) (en' : entity) : Prop :=
  exists en, p_ents pr0 !! e = Some en /\ en_sync en' = en_sync en /\ (en_mark en' <> None -> en_mark en <> None).

Lemma kept_refl pr : ents_all (kept pr) pr.
Proof. intros e en H. exists en. split; [exact H|split; [reflexivity|auto]]. Qed.
Lemma kept_blind pr : hier_blind (kept pr).
Proof. intros e en p cs (en0 & H1 & H2 & H3). split; exists en0; (split; [exact H1|split; [exact H2|exact H3]]). Qed.
Lemma kept_put pr e en now t v : kept pr e en -> kept pr e (put_comp now t v en).
Proof.
  intros (en0 & H1 & H2 & H3). exists en0. unfold put_comp.
  destruct (en_comps en !! t); (split; [exact H1|split; [exact H2|exact H3]]).
Qed.
Lemma kept_delete pr pr' e : ents_all (kept pr) pr' -> ents_all (kept pr) (pr' <| p_ents := delete e (p_ents pr') |>).
Proof. apply ents_all_delete. Qed.

(* every command other than the two naming ones *)
Lemma apply_cmd_kept pr c : names_uuid c = false -> ents_all (kept pr) (apply_cmd pr c).
Proof.
  intros Hc. pose proof (kept_refl pr) as H.
  assert (Hput : forall x en now t' v', kept pr x en -> kept pr x (put_comp now t' v' en))
    by (intros; apply kept_put; assumption).
  destruct c; simpl in Hc |- *; try discriminate; try exact H.
  - apply kept_delete. exact H.
  - destruct (apply_component_change pr e t v) as [pr' ch] eqn:E.
    pose proof (acc_ents_all (kept pr) pr e t v Hput H) as H'. rewrite E in H'. simpl in H'.
    destruct from as [c|]; [destruct ch|];
      try (eapply ents_all_ext; [apply (core_ents _ _ (relay_except_core _ _ _))|]); exact H'.
  - destruct (t_u2e pr !! c) as [ce|]; [|exact H].
    destruct (t_u2e pr !! p) as [pe|]; [|exact H].
    destruct (negb (alive pr pe) || negb (alive pr ce)); [exact H|].
    assert (H' : ents_all (kept pr) (if parent_differs pr ce pe
                             then set_parent_twice pr ce pe <| t_ptok ::= <[c := p]> |> else pr)).
    { destruct (parent_differs pr ce pe); [|exact H].
      exact (set_parent_twice_ents_all (kept pr) pr ce pe (kept_blind pr) H). }
    destruct (p_panic _); [exact H'|].
    eapply ents_all_ext; [apply (core_ents _ _ (relay_except_core _ _ _))|exact H'].
  - destruct (negb (alive pr p) || negb (alive pr c)); [exact H|].
    destruct (parent_differs pr c p); [|exact H].
    exact (set_parent_twice_ents_all (kept pr) pr c p (kept_blind pr) H).
  - destruct from as [c|]; [|exact H].
    eapply ents_all_ext; [apply (core_ents _ _ (relay_except_core _ _ _))|exact H].
  - eapply ents_all_ext; [apply (core_ents _ _ (relay_except_core _ _ _))|exact H].
  - pose proof (core_ents _ _ (react_components_core true pr)) as H0.
    set (pr0 := react_on_changed_components true pr) in *.
    destruct (build_full_sync pr0) as [pr1 ms] eqn:E.
    pose proof (core_ents _ _ (build_full_sync_core pr0)) as H1. rewrite E in H1. simpl in H1.
    eapply ents_all_ext; [|exact H].
    change (p_ents (foldl (fun pr0 m => send pr0 to m) pr1 ms) = p_ents pr).
    rewrite (core_ents _ _ (foldl_core _ ms pr1 (fun a x => send_core a to x))). congruence.
  - destruct (build_full_sync pr) as [pr1 ms] eqn:E.
    pose proof (core_ents _ _ (build_full_sync_core pr)) as H1. rewrite E in H1. simpl in H1.
    eapply ents_all_ext; [|exact H]. rewrite (core_ents _ _ (send_up_core _ _)). exact H1.
  - apply (foldl_inv (ents_all (kept pr))); [exact H|].
    intros a x _ Ha. apply upd_ent_ents_all; [intros en Hen; apply Hput; exact Hen|exact Ha].
  - destruct set_flag; exact H.
  - destruct (filter _ _) as [|[e en] l]; [exact H|]. apply kept_delete. exact H.
  - apply kept_delete. exact H.
  - destruct (negb (alive pr e)); [eapply ents_all_ext; [apply set_panic_ents|exact H]|].
    apply upd_ent_ents_all; [intros en Hen; apply Hput; exact Hen|exact H].
Qed.

Lemma kept_ent_step X pr extra e en' : kept pr e en' -> ent_step X pr extra e en'.
Proof. intros (en & H1 & H2 & H3). left. exists en. split; [exact H1|split; [exact H2|]]. intros Hm. left. auto. Qed.

Lemma apply_cmd_UR X pr0 ex0 a c cs : UR X pr0 ex0 a (c :: cs) -> UR X pr0 ex0 (apply_cmd a c) cs.
Proof.
  apply UR_via. intros HI.
  pose proof (rest_inv _ _ (apply_cmd_rest a c)) as (Ha & _ & _ & Hn & Hq).
  apply (UI_shrink X a (c :: cs) _ cs HI Hn).
  - destruct (names_uuid c) eqn:Ec.
    + destruct c; try discriminate; intros x en' Hl.
      * (* CSpawnSync e u *) simpl in Hl. destruct (decide (x = e)) as [->|Hne].
        -- rewrite lookup_insert in Hl. injection Hl as <-. right. left. exists u.
           split; [reflexivity|split; [reflexivity|]]. left. apply queued_head_.
        -- rewrite lookup_insert_ne in Hl by congruence. apply ent_step_same. exact Hl.
      * (* CInsertSync e u *)
        destruct (ui_isync _ _ HI e u (queued_head_ _ _ _)) as [-> Hlt].
        unfold apply_cmd in Hl. rewrite upd_ent_lookup in Hl.
        destruct (p_ents a !! x) as [en|] eqn:E; [|discriminate]. simpl in Hl. injection Hl as <-.
        destruct (decide (x = e)) as [->|Hne]; [|apply ent_step_same; exact E].
        right. left. exists e. split; [reflexivity|split; [reflexivity|]]. right. split; [reflexivity|exact Hlt].
    + intros x en' Hl. apply kept_ent_step. apply (apply_cmd_kept a c Ec x en' Hl).
  - intros c' _ Hc'. left. unfold queued in *. rewrite Hq in Hc'. apply queued_tail_. exact Hc'.
  - rewrite Ha. apply (ui_app _ _ HI).
Qed.

Lemma apply_cmds_UR X pr0 ex0 cs : forall a, UR X pr0 ex0 a cs -> UR X pr0 ex0 (apply_cmds a cs) [].
Proof.
  induction cs as [|c cs IH]; intros a H; simpl; [exact H|].
  destruct (p_panic a); [eapply UR_drop; exact H|].
  apply IH. apply apply_cmd_UR. exact H.
Qed.

Lemma flush_UR X pr0 ex0 a : UR X pr0 ex0 a [] -> UR X pr0 ex0 (flush a) [].
Proof.
  intros H. rewrite flush_eq. unfold flush_with.
  apply (foldl_inv (fun b => UR X pr0 ex0 b [])); [exact H|].
  intros b s _ Hb. cbv zeta.
  destruct (p_cmdq b !! sys_key s) as [cs|] eqn:E; [|exact Hb].
  apply apply_cmds_UR. apply UR_take; assumption.
Qed.

(* ================================================================================================ *)
(* 3. Systems                                                                                        *)
(* ================================================================================================ *)

Lemma push_ok_plain c : names_uuid c = false -> push_ok c.
Proof. intros H. left. exact H. Qed.

Lemma fix_system_UR X pr0 ex0 a k last trig wo comps :
  UR X pr0 ex0 a [] -> UR X pr0 ex0 (fix_system a k last trig wo comps) [].
Proof.
  intros H. unfold fix_system. apply (foldl_inv (fun b => UR X pr0 ex0 b [])); [exact H|].
  intros b [e en] _ Hb. cbv beta iota.
  repeat case_match; try exact Hb. apply UR_push; [apply push_ok_plain; reflexivity|exact Hb].
Qed.

Lemma entity_created_UR X pr0 ex0 a server k last :
  UR X pr0 ex0 a [] -> UR X pr0 ex0 (entity_created server a k last) [].
Proof.
  intros H. rewrite entity_created_eq.
  refine (proj2 (foldl_inv (fun b => p_ents b = p_ents a /\ UR X pr0 ex0 b []) _ _ _ _ _));
    [split; [reflexivity|exact H]|].
  intros b [e en] Hin [Hb Hub]. cbv beta iota. destruct (newly_marked last en) eqn:Enm; [|split; assumption].
  pose proof (fixed_inv _ _ (created_body_fixed server k b e)) as (_ & He & Hap & _ & Hn).
  split; [rewrite He; exact Hb|].
  apply (UR_push_eq X pr0 ex0 b _ [] k (CInsertSync e e)); try assumption; [|apply created_body_cmdq_eq].
  right. exists e. split; [reflexivity|].
  unfold ents_list in Hin. apply elem_of_map_to_list in Hin. rewrite <- Hb in Hin.
  apply (ui_mark _ _ (proj1 Hub) e en Hin).
  unfold newly_marked in Enm. destruct (en_mark en); discriminate.
Qed.

Lemma client_connected_UR X pr0 ex0 a k : UR X pr0 ex0 a [] -> UR X pr0 ex0 (client_connected a k) [].
Proof.
  intros H. unfold client_connected. cbv zeta.
  apply (foldl_inv (fun b => UR X pr0 ex0 b [])); [eapply UR_ext; [| | | |exact H]; reflexivity|].
  intros b [conn c] _ Hb. cbv beta iota.
  repeat case_match; try exact Hb.
  - eapply (UR_push_eq X pr0 ex0 b _ [] k CRemoveClientTransport); [apply push_ok_plain| | | | |exact Hb]; reflexivity.
  - eapply (UR_push_eq X pr0 ex0 b _ [] k CRemoveServerTransport); [apply push_ok_plain| | | | |exact Hb]; reflexivity.
Qed.

Lemma verify_UR X pr0 ex0 a k : UR X pr0 ex0 a [] -> UR X pr0 ex0 (verify_client_connected a k) [].
Proof.
  intros H. unfold verify_client_connected.
  destruct (n_status a); try exact H. cbv zeta.
  destruct (negb _).
  - eapply (UR_push_eq X pr0 ex0 a _ [] k CRequestInitialSync); [apply push_ok_plain| | | | |exact H]; reflexivity.
  - eapply UR_ext; [| | | |exact H]; reflexivity.
Qed.

Lemma UR_pop X pr0 ex0 a from rest_ :
  UR X pr0 ex0 a [] -> UR X pr0 ex0 (a <| n_inbox := <[from := rest_]> (n_inbox a) |>) [].
Proof. apply UR_ext; reflexivity. Qed.

Lemma client_received_UR X pr0 ex0 a k m : UR X pr0 ex0 a [] -> UR X pr0 ex0 (client_received a k m) [].
Proof.
  intros H. destruct m; simpl; try exact H.
  - (* MSpawn *) case_match; [exact H|].
    eapply (UR_alloc X pr0 ex0 a _ [] k u); [| | | |exact H]; reflexivity.
  - (* MParented *) repeat case_match; try exact H. apply UR_push; [apply push_ok_plain; reflexivity|exact H].
  - (* MDelete *) repeat case_match; try exact H.
    eapply (UR_push_eq X pr0 ex0 a _ [] k (CDespawn _)); [apply push_ok_plain| | | | |exact H]; reflexivity.
  - (* MComp *) case_match; [|exact H]. apply UR_push; [apply push_ok_plain; reflexivity|exact H].
  - apply UR_push; [apply push_ok_plain; reflexivity|exact H].
  - eapply UR_core; [apply request_asset_core|exact H].
  - apply UR_push; [apply push_ok_plain; reflexivity|exact H].
  - (* MNewHost *)
    apply UR_push; [apply push_ok_plain; reflexivity|].
    eapply (UR_push_eq X pr0 ex0 a _ [] k CRemoveClientTransport); [apply push_ok_plain| | | | |exact H]; reflexivity.
  - eapply UR_ext; [| | | |exact H]; reflexivity.
Qed.

Lemma server_received_UR X pr0 ex0 a k from m : UR X pr0 ex0 a [] -> UR X pr0 ex0 (server_received a k from m) [].
Proof.
  intros H. destruct m; simpl; try exact H.
  - (* MSpawn *)
    eapply UR_core; [apply relay_except_core|].
    eapply (UR_alloc X pr0 ex0 a _ [] k u); [| | | |exact H]; reflexivity.
  - apply UR_push; [apply push_ok_plain; reflexivity|exact H].
  - (* MDelete *)
    eapply UR_core; [apply relay_except_core|].
    repeat case_match; try exact H.
    eapply (UR_push_eq X pr0 ex0 a _ [] k (CDespawn _)); [apply push_ok_plain| | | | |exact H]; reflexivity.
  - case_match; [|exact H]. apply UR_push; [apply push_ok_plain; reflexivity|exact H].
  - apply UR_push; [apply push_ok_plain; reflexivity|exact H].
  - apply UR_push; [apply push_ok_plain; reflexivity|]. eapply UR_core; [apply request_asset_core|exact H].
  - (* MNewHost *)
    apply UR_push; [apply push_ok_plain; reflexivity|].
    eapply UR_core; [apply relay_except_core|].
    eapply UR_ext; [| | | |exact H]; reflexivity.
  - apply UR_push; [apply push_ok_plain; reflexivity|exact H].
Qed.

Lemma app_system_UR X pr0 ex0 a k n :
  UR X pr0 ex0 a [] ->
  UR X pr0 ex0 (foldl (fun b x => push_cmd b k x.2)
            (a <| p_app_cmds := filter (fun x : N * cmd => negb (x.1 =? n)) (p_app_cmds a) |>)
            (filter (fun x : N * cmd => x.1 =? n) (p_app_cmds a))) [].
Proof.
  intros H.
  apply (foldl_inv (fun b => UR X pr0 ex0 b [])).
  - revert H. apply UR_via. intros HI.
    apply (UI_shrink X a [] _ [] HI); [reflexivity| | |].
    + intros e en' Hl. apply ent_step_same. exact Hl.
    + intros c _ Hc. left. exact Hc.
    + intros x Hx. simpl in Hx. apply elem_of_list_filter in Hx as [_ Hx]. apply (ui_app _ _ HI). exact Hx.
  - intros b x Hx Hb. apply UR_push; [|exact Hb]. apply push_ok_plain.
    apply elem_of_list_filter in Hx as [_ Hx]. apply (ui_app _ _ (proj1 H)). exact Hx.
Qed.

Lemma sys_body_UR X pr0 ex0 a s o k last : UR X pr0 ex0 a [] -> UR X pr0 ex0 (sys_body a s o k last) [].
Proof.
  intros H.
  destruct s; simpl; try apply fix_system_UR; try exact H;
    try (eapply UR_core; [|exact H]; first [reflexivity|apply react_assets_core|apply process_assets_core]).
  - eapply UR_nou2e; [apply entity_removed_server_nou2e|exact H].
  - apply entity_created_UR. exact H.
  - eapply UR_core; [apply entity_parented_server_core|exact H].
  - eapply UR_core; [apply react_components_core|exact H].
  - eapply UR_core; [apply promote_reader_core|exact H].
  - apply client_connected_UR. exact H.
  - apply (server_poll_inv (fun b => UR X pr0 ex0 b []) (fun _ => True)); [intros b _ ? ? ? _ _; exact I| | |exact H].
    + intros b from m rest_ Hb _. apply UR_pop. exact Hb.
    + intros b from m Hb _. apply server_received_UR. exact Hb.
  - apply verify_UR. exact H.
  - eapply UR_nou2e; [apply entity_removed_client_nou2e|exact H].
  - apply entity_created_UR. exact H.
  - eapply UR_core; [apply entity_parented_client_core|exact H].
  - eapply UR_core; [apply react_components_core|exact H].
  - destruct (n_cli_transport a) as [[h t]|]; [|exact H].
    apply (client_poll_inv (fun b => UR X pr0 ex0 b []) (fun _ => True)); [intros b _ ? ? ? _ _; exact I| | |exact H].
    + intros b from m rest_ Hb _. apply UR_pop. exact Hb.
    + intros b m Hb _. apply client_received_UR. exact Hb.
  - eapply UR_core; [apply sync_detect_core|exact H].
  - apply app_system_UR. exact H.
Qed.

Lemma UR_respects X pr0 ex0 : respects_core (fun a => UR X pr0 ex0 a []).
Proof. intros a b Hc _. apply UR_core. exact Hc. Qed.

Lemma frame_UR X pr0 ex0 a o : UR X pr0 ex0 a [] -> UR X pr0 ex0 (frame a o) [].
Proof.
  revert a o. apply (frame_inv (fun a => UR X pr0 ex0 a [])).
  - apply UR_respects.
  - intros a. apply UR_ext; reflexivity.
  - intros a h. apply UR_core. apply send_up_core.
  - intros a H _. apply flush_UR. exact H.
  - intros a s o k last. apply sys_body_UR.
Qed.

Lemma run_system_UR X pr0 ex0 a s o : UR X pr0 ex0 a [] -> UR X pr0 ex0 (run_system a s o) [].
Proof.
  revert a s o. apply (run_system_inv (fun a => UR X pr0 ex0 a [])).
  - apply UR_respects.
  - intros a H _. apply flush_UR. exact H.
  - apply run_body_inv; [apply UR_respects|]. intros a s o k last. apply sys_body_UR.
Qed.

(* ---------- the one-frame theorems ---------------------------------------------------------------------- *)

Theorem frame_uuid_inv pr o : uuid_inv pr -> uuid_inv (frame pr o).
Proof. intros H. apply (frame_UR (fun _ => False) pr [] pr o (UR_start _ pr [] H)). Qed.

(* Premise: the invariant uuid_inv (it holds initially and is kept by every frame and by every application
   operation that respects op_uuid_ok below).  tracker_inv is neither needed nor enough. *)
Theorem frame_sync_stable pr o : uuid_inv pr -> sync_stable pr (frame pr o).
Proof.
  intros H. apply (sstep_sync_stable pr (frame pr o) H).
  apply (frame_UR (fun _ => False) pr [] pr o (UR_start _ pr [] H)).
Qed.

Theorem flush_sync_stable pr : uuid_inv pr -> sync_stable pr (flush pr).
Proof.
  intros H. apply (sstep_sync_stable pr (flush pr) H).
  apply (flush_UR (fun _ => False) pr [] pr (UR_start _ pr [] H)).
Qed.

Theorem run_system_sync_stable pr s o : uuid_inv pr -> sync_stable pr (run_system pr s o).
Proof.
  intros H. apply (sstep_sync_stable pr (run_system pr s o) H).
  apply (run_system_UR (fun _ => False) pr [] pr s o (UR_start _ pr [] H)).
Qed.

(* ================================================================================================ *)
(* 4. Application operations                                                                         *)
(* ================================================================================================ *)

Lemma put_comps_sync now comps : forall en0,
  en_sync (foldl (fun en '(t, v) => put_comp now t v en) en0 comps) = en_sync en0.
Proof.
  induction comps as [|[t v] comps IH]; intros en0; simpl; [reflexivity|].
  rewrite IH. unfold put_comp. destruct (en_comps en0 !! t); reflexivity.
Qed.

(* what an application operation does to the entity at an id: nothing to its SyncEntity, unless it is an OSpawn
   of that very id, which puts a new entity WITHOUT SyncEntity there (over whatever was there) *)
Lemma app_step_ent pr op x en' :
  p_ents (app_step pr op) !! x = Some en' ->
  (exists en, p_ents pr !! x = Some en /\ en_sync en' = en_sync en /\
              (en_mark en' <> None -> en_mark en <> None \/ op = OMark x)) \/
  (exists m cs, op = OSpawn x m cs /\ en_sync en' = None /\ (en_mark en' <> None -> m = true)).
Proof.
  assert (Hk : forall pr', ents_all (kept pr) pr' -> p_ents pr' !! x = Some en' ->
           exists en, p_ents pr !! x = Some en /\ en_sync en' = en_sync en /\
                      (en_mark en' <> None -> en_mark en <> None \/ op = OMark x)).
  { intros pr' H Hl. destruct (H x en' Hl) as (en & H1 & H2 & H3). exists en. split; [exact H1|split; [exact H2|]].
    intros Hm. left. auto. }
  destruct op as [e marked comps|e|e|e t v|e t on|c p|ak a v|c|k c|host target|m1 m2 m3| |t|ts|ord];
    simpl; intros Hl; try (left; apply (Hk pr (kept_refl pr) Hl)).
  - (* OSpawn *) destruct (decide (x = e)) as [->|Hne].
    + rewrite lookup_insert in Hl. injection Hl as <-. right. exists marked, comps.
      split; [reflexivity|]. rewrite put_comps_sync, put_comps_mark. simpl.
      split; [reflexivity|]. destruct marked; [reflexivity|]. intros H. contradiction.
    + rewrite lookup_insert_ne in Hl by congruence. left. apply (Hk pr (kept_refl pr) Hl).
  - (* ODespawn *) left. apply (Hk _ (kept_delete pr pr e (kept_refl pr)) Hl).
  - (* OMark *) left. rewrite upd_ent_lookup in Hl.
    destruct (p_ents pr !! x) as [en|] eqn:E; [|discriminate]. simpl in Hl. injection Hl as <-.
    exists en. split; [reflexivity|]. destruct (decide (x = e)) as [->|Hne]; simpl; [|auto].
    split; [reflexivity|]. intros _. right. reflexivity.
  - (* OWrite *) left. refine (Hk _ _ Hl). apply upd_ent_ents_all; [|apply kept_refl].
    intros en Hen. apply kept_put. exact Hen.
  - (* OExclude *) left. refine (Hk _ _ Hl). apply upd_ent_ents_all; [|apply kept_refl].
    intros en (en0 & H1 & H2 & H3). exists en0. split; [exact H1|split; [exact H2|exact H3]].
  - (* OSetParent *) left. destruct (alive pr c); [|apply (Hk pr (kept_refl pr) Hl)].
    refine (Hk _ _ Hl). apply add_child_ents_all; [apply kept_blind|apply kept_refl].
  - (* OSetup *) left. destruct host; apply (Hk pr (kept_refl pr) Hl).
Qed.

(* The side condition of the one-step statement: the operation is not an OSpawn over a live synchronised entity
   (Bevy never spawns over a live Entity; the model takes the id as an argument).  Nothing else is needed: no
   invariant, no op_marks_script. *)
Definition op_keeps (pr : peer_state) (op : app_op) : bool :=
  match op with OSpawn e _ _ => negb (has_sync pr e) | _ => true end.

Theorem app_step_sync_stable pr op : op_keeps pr op = true -> sync_stable pr (app_step pr op).
Proof.
  intros Hop e en en' u H1 H2 H3.
  destruct (app_step_ent pr op e en' H3) as [(en0 & Hl & Hs & _)|(m & cs & -> & _)].
  - rewrite H1 in Hl. injection Hl as <-. congruence.
  - simpl in Hop. unfold has_sync in Hop. rewrite H1, H2 in Hop. discriminate.
Qed.

(* unconditionally: the id does not change its uuid *)
Theorem app_step_uuid_fixed pr op : uuid_fixed pr (app_step pr op).
Proof.
  intros e en en' u u' H1 H2 H3 H4.
  destruct (app_step_ent pr op e en' H3) as [(en0 & Hl & Hs & _)|(m & cs & _ & Hn & _)]; [|congruence].
  rewrite H1 in Hl. injection Hl as <-. congruence.
Qed.

(* what the invariant needs of an operation: SyncMark on script ids only (Tracker.op_marks_script), and no
   naming command handed to an application system *)
Definition op_uuid_ok (op : app_op) : bool :=
  op_marks_script op && match op with OAppCmd _ c => negb (names_uuid c) | _ => true end.

Lemma app_step_UR (X : ent -> Prop) pr0 ex0 a op :
  op_uuid_ok op = true -> (forall e, op_sid op = Some e -> X e) ->
  UR X pr0 ex0 a [] -> UR X pr0 ex0 (app_step a op) [].
Proof.
  intros Hop HX. apply UR_via. intros HI.
  apply andb_true_iff in Hop as [Hmk Hcmd].
  destruct (app_step_rest_q a op) as [Hn Hq].
  apply (UI_shrink X a [] _ [] HI Hn).
  - intros x en' Hl. destruct (app_step_ent a op x en' Hl) as [(en & H1 & H2 & H3)|(m & cs & -> & H2 & H3)].
    + left. exists en. split; [exact H1|split; [exact H2|]]. intros Hm.
      destruct (H3 Hm) as [H| ->]; [left; exact H|]. right. simpl in Hmk. apply N.ltb_lt. exact Hmk.
    + right. right. split; [exact H2|]. split; [apply HX; reflexivity|].
      intros Hm. rewrite (H3 Hm) in Hmk. simpl in Hmk. apply N.ltb_lt. exact Hmk.
  - intros c _ Hc. left. unfold queued in *. rewrite Hq in Hc. exact Hc.
  - intros x Hx. apply app_step_app_cmds in Hx as [Hx|[n ->]]; [apply (ui_app _ _ HI); exact Hx|].
    simpl in Hcmd. apply negb_true_iff in Hcmd. exact Hcmd.
Qed.

Theorem app_step_uuid_inv pr op : uuid_inv pr -> op_uuid_ok op = true -> uuid_inv (app_step pr op).
Proof.
  intros H Hop. apply (app_step_UR (fun _ => True) pr [] pr op Hop (fun _ _ => I) (UR_start _ pr [] H)).
Qed.

Lemma uuid_inv_init id sync_types registry order : uuid_inv (init_peer id sync_types registry order).
Proof.
  assert (Hq : forall c, ~ queued (init_peer id sync_types registry order) [] c).
  { intros c [H|(k & cs & H & _)]; [inversion H|]. simpl in H. rewrite lookup_empty in H. discriminate. }
  assert (Hf : forall e u, ~ sfact (init_peer id sync_types registry order) [] e u).
  { intros e u [(en & H & _)|H]; [simpl in H; rewrite lookup_empty in H; discriminate|apply (Hq _ H)]. }
  constructor.
  - intros e u u' H. destruct (Hf _ _ H).
  - intros e u H. destruct (Hf _ _ H).
  - intros e u H. destruct (Hf _ _ H).
  - simpl. unfold SCRIPT_LIMIT. lia.
  - intros e en H. simpl in H. rewrite lookup_empty in H. discriminate.
  - intros e u H. destruct (Hq _ H).
  - intros x Hx. simpl in Hx. inversion Hx.
Qed.

(* ================================================================================================ *)
(* 5. Runs                                                                                           *)
(* ================================================================================================ *)

(* The premise: Tracker.marks_script_only (SyncMark is put on script ids only, never on a replica) STRENGTHENED
   by: application systems are handed no CSpawnSync / CInsertSync command (OAppCmd can queue any `cmd` of the
   model; a queued CInsertSync e u renames e: uuid_changes_by_app_command).  Everything else is arbitrary:
   frames, oracles, orders, interleavings, reorderings, spawns at any id, despawns, re-spawns of the same id. *)
Definition step_uuid_ok (g : global) (s : step) : bool :=
  match s with
  | StApp p op => match g !! p with Some _ => op_uuid_ok op | None => true end
  | _ => true
  end.
Fixpoint uuid_conforming_from (g : global) (tr : list step) : bool :=
  match tr with
  | [] => true
  | s :: tr' => step_uuid_ok g s && uuid_conforming_from (gstep g s) tr'
  end.
Definition uuid_conforming (n : nat) (tr : list step) : Prop :=
  uuid_conforming_from (init_global n) tr = true.

(* it is marks_script_only plus the condition on OAppCmd *)
Definition no_naming_cmds (tr : list step) : Prop :=
  Forall (fun s => match s with StApp _ (OAppCmd _ c) => names_uuid c = false | _ => True end) tr.

Lemma uuid_conforming_from_marks tr : forall g, uuid_conforming_from g tr = true -> marks_script_from g tr = true.
Proof.
  induction tr as [|s tr IH]; intros g Hc; simpl in *; [reflexivity|].
  apply andb_true_iff in Hc as [H1 H2]. rewrite (IH _ H2), andb_true_r.
  destruct s as [p op|p o|dst src i j]; simpl in *; try reflexivity.
  destruct (g !! p); [|reflexivity]. apply andb_true_iff in H1 as [H1 _]. exact H1.
Qed.
Lemma uuid_conforming_marks n tr : uuid_conforming n tr -> marks_script_only n tr.
Proof. apply uuid_conforming_from_marks. Qed.

Lemma marks_uuid_conforming_from tr : forall g,
  marks_script_from g tr = true -> no_naming_cmds tr -> uuid_conforming_from g tr = true.
Proof.
  induction tr as [|s tr IH]; intros g Hc Hm; simpl in *; [reflexivity|].
  apply andb_true_iff in Hc as [H1 H2]. inversion Hm as [|? ? Hs Hm']; subst.
  rewrite (IH _ H2 Hm'), andb_true_r.
  destruct s as [p op|p o|dst src i j]; simpl in *; try reflexivity.
  destruct (g !! p); [|reflexivity]. unfold op_uuid_ok. rewrite H1. simpl.
  destruct op; try reflexivity. rewrite Hs. reflexivity.
Qed.
Lemma marks_uuid_conforming n tr : marks_script_only n tr -> no_naming_cmds tr -> uuid_conforming n tr.
Proof. apply marks_uuid_conforming_from. Qed.

(* the `conforming` of the no-panic theorems contains it (application systems issue despawns only) *)
Lemma conforming_uuid_from tr : forall g used marked,
  conforming_from g used marked tr = true -> uuid_conforming_from g tr = true.
Proof.
  induction tr as [|s tr IH]; intros g used marked Hc; simpl in *; [reflexivity|].
  apply andb_true_iff in Hc as [H1 H2]. rewrite (IH _ _ _ H2), andb_true_r.
  destruct s as [p op|p o|dst src i j]; simpl in *; try reflexivity.
  destruct (g !! p); [|reflexivity].
  destruct op as [e mk cs|e|e|e t v|e t on|c q|ak a v|c|k c|host target|m1 m2 m3| |t|ts|ord];
    simpl in *; try reflexivity.
  - apply andb_true_iff in H1 as [H1 _]. destruct mk; [|reflexivity].
    change ((e <? 4294967296) && true = true). rewrite H1. reflexivity.
  - apply andb_true_iff in H1 as [H1 _].
    change ((e <? 4294967296) && true = true). rewrite H1. reflexivity.
  - unfold op_uuid_ok. simpl. destruct c; simpl in *; try discriminate; reflexivity.
Qed.
Lemma conforming_uuid n tr : conforming n tr -> uuid_conforming n tr.
Proof. apply conforming_uuid_from. Qed.

Lemma uuid_conforming_from_app tr1 : forall g tr2,
  uuid_conforming_from g (tr1 ++ tr2) = true ->
  uuid_conforming_from g tr1 = true /\ uuid_conforming_from (grun g tr1) tr2 = true.
Proof.
  induction tr1 as [|s tr1 IH]; intros g tr2 H; simpl in *; [split; [reflexivity|exact H]|].
  apply andb_true_iff in H as [H1 H2]. destruct (IH _ _ H2) as [H3 H4]. rewrite H1, H3. split; [reflexivity|exact H4].
Qed.

Lemma grun_app g tr1 tr2 : grun g (tr1 ++ tr2) = grun (grun g tr1) tr2.
Proof. unfold grun. apply foldl_app. Qed.

(* the application spawned over id e of peer p somewhere in tr *)
Definition respawned (p : peer) (e : ent) (tr : list step) : bool :=
  existsb (fun s => match s with StApp p' (OSpawn e' _ _) => (p' =? p) && (e' =? e) | _ => false end) tr.

Lemma respawned_cons p e s tr : respawned p e (s :: tr) = respawned p e [s] || respawned p e tr.
Proof. simpl. rewrite orb_false_r. reflexivity. Qed.

(* every peer of the later global state is a peer of the earlier one, in the relation of section 1 *)
Definition grel (tr : list step) (g g' : global) : Prop :=
  forall p pr', g' !! p = Some pr' ->
    exists pr, g !! p = Some pr /\ UR (fun e => respawned p e tr = true) pr [] pr' [].

Definition all_uuid_inv (g : global) : Prop := all_peers uuid_inv g.

Lemma grel_inv tr g g' : grel tr g g' -> all_uuid_inv g'.
Proof. intros H p pr' Hl. destruct (H p pr' Hl) as (pr & _ & HU & _). exact HU. Qed.

Lemma grel_refl g : all_uuid_inv g -> grel [] g g.
Proof. intros H p pr Hl. exists pr. split; [exact Hl|]. apply UR_start. apply (H p pr Hl). Qed.

Lemma grel_trans s tr g1 g2 g3 : grel [s] g1 g2 -> grel tr g2 g3 -> grel (s :: tr) g1 g3.
Proof.
  intros H12 H23 p pr3 Hl3. destruct (H23 p pr3 Hl3) as (pr2 & Hl2 & HU3 & HS3).
  destruct (H12 p pr2 Hl2) as (pr1 & Hl1 & _ & HS2). exists pr1. split; [exact Hl1|]. split; [exact HU3|].
  eapply sstep_trans; (eapply sstep_mono; [|eassumption]); intros e He; cbv beta in *;
    rewrite respawned_cons, He; [reflexivity|apply orb_true_r].
Qed.

(* only the four fields the invariant reads *)
Definition same4 (a b : peer_state) : Prop :=
  p_ents b = p_ents a /\ p_next_ent b = p_next_ent a /\ p_cmdq b = p_cmdq a /\ p_app_cmds b = p_app_cmds a.

Lemma UR_same4 X pr0 ex0 a b : same4 a b -> UR X pr0 ex0 a [] -> UR X pr0 ex0 b [].
Proof. intros (H1 & H2 & H3 & H4). apply UR_ext; assumption. Qed.

Lemma deliver_out_lookup (g : global) src out p pd' :
  deliver_out g src out !! p = Some pd' -> exists pd, g !! p = Some pd /\ same4 pd pd'.
Proof.
  unfold deliver_out. revert p pd'.
  apply (foldl_inv (fun a : global => forall p pd', a !! p = Some pd' -> exists pd, g !! p = Some pd /\ same4 pd pd')).
  - intros p pd' H. exists pd'. split; [exact H|]. repeat split.
  - intros a [dst m] _ Ha p pd' Hl. cbv beta iota in Hl. unfold global in *.
    destruct (a !! dst) as [pd|] eqn:E; [|apply Ha; exact Hl].
    destruct (decide (p = dst)) as [->|Hne].
    + rewrite lookup_insert in Hl. injection Hl as <-. destruct (Ha dst pd E) as (pd0 & H0 & H1 & H2 & H3 & H4).
      exists pd0. split; [exact H0|]. repeat split; assumption.
    + rewrite lookup_insert_ne in Hl by congruence. apply Ha. exact Hl.
Qed.

Lemma gstep_grel (g : global) s : all_uuid_inv g -> step_uuid_ok g s = true -> grel [s] g (gstep g s).
Proof.
  intros Hg Hs.
  assert (Hrefl : forall p pr', g !! p = Some pr' ->
            exists pr, g !! p = Some pr /\ UR (fun e => respawned p e [s] = true) pr [] pr' []).
  { intros p pr' Hl. exists pr'. split; [exact Hl|]. apply UR_start. apply (Hg p pr' Hl). }
  unfold grel. destruct s as [q op|q o|dst src i j]; simpl in Hs |- *; unfold global in *.
  - destruct (g !! q) as [prq|] eqn:E; [|exact Hrefl].
    intros p pr' Hl. destruct (decide (p = q)) as [->|Hne].
    + rewrite lookup_insert in Hl. injection Hl as <-. exists prq. split; [exact E|].
      apply app_step_UR; [exact Hs| |apply UR_start; apply (Hg q prq E)].
      intros e He. destruct op; try discriminate. simpl in He. injection He as ->.
      simpl. rewrite !N.eqb_refl. reflexivity.
    + rewrite lookup_insert_ne in Hl by congruence. apply Hrefl. exact Hl.
  - destruct (g !! q) as [prq|] eqn:E; [|exact Hrefl].
    intros p pr' Hl. apply deliver_out_lookup in Hl as (pd & Hl & H4). unfold global in *.
    destruct (decide (p = q)) as [->|Hne].
    + rewrite lookup_insert in Hl. injection Hl as <-. exists prq. split; [exact E|].
      apply (UR_same4 _ _ _ _ _ H4). apply frame_UR. apply UR_start. apply (Hg q prq E).
    + rewrite lookup_insert_ne in Hl by congruence. exists pd. split; [exact Hl|].
      apply (UR_same4 _ _ _ _ _ H4). apply UR_start. apply (Hg p pd Hl).
  - destruct (g !! dst) as [pd|] eqn:E; [|exact Hrefl].
    destruct (n_inbox pd !! src) as [l|]; [|exact Hrefl].
    intros p pr' Hl. destruct (decide (p = dst)) as [->|Hne].
    + rewrite lookup_insert in Hl. injection Hl as <-. exists pd. split; [exact E|].
      eapply UR_ext; [| | | |apply UR_start; apply (Hg dst pd E)]; reflexivity.
    + rewrite lookup_insert_ne in Hl by congruence. apply Hrefl. exact Hl.
Qed.

Lemma grun_grel tr : forall g : global,
  all_uuid_inv g -> uuid_conforming_from g tr = true -> grel tr g (grun g tr).
Proof.
  induction tr as [|s tr IH]; intros g Hg Hc; simpl in *; [apply grel_refl; exact Hg|].
  apply andb_true_iff in Hc as [H1 H2].
  pose proof (gstep_grel g s Hg H1) as Hs.
  eapply grel_trans; [exact Hs|]. apply IH; [|exact H2]. eapply grel_inv. exact Hs.
Qed.

Lemma uuid_inv_init_global n : all_uuid_inv (init_global n).
Proof. intros p pr H. apply init_global_lookup in H as ->. apply uuid_inv_init. Qed.

(* the invariant holds in every reachable state *)
Theorem grun_uuid_inv n tr :
  uuid_conforming n tr -> forall p pr, grun (init_global n) tr !! p = Some pr -> uuid_inv pr.
Proof.
  intros Hc. eapply grel_inv. apply grun_grel; [apply uuid_inv_init_global|exact Hc].
Qed.

(* two moments of a run *)
Lemma grun_two_moments n tr1 tr2 :
  uuid_conforming n (tr1 ++ tr2) ->
  forall p pr1 pr2, grun (init_global n) tr1 !! p = Some pr1 -> grun (init_global n) (tr1 ++ tr2) !! p = Some pr2 ->
    uuid_inv pr1 /\ sstep (fun e => respawned p e tr2 = true) pr1 [] pr2 [].
Proof.
  intros Hc p pr1 pr2 H1 H2. apply uuid_conforming_from_app in Hc as [Hc1 Hc2].
  assert (Hg1 : all_uuid_inv (grun (init_global n) tr1)).
  { eapply grel_inv. apply grun_grel; [apply uuid_inv_init_global|exact Hc1]. }
  rewrite grun_app in H2. destruct (grun_grel tr2 _ Hg1 Hc2 p pr2 H2) as (pr & Hl & _ & HS).
  rewrite H1 in Hl. injection Hl as <-. split; [apply (Hg1 p pr1 H1)|exact HS].
Qed.

(* (a) The strong form: an entity ID never stands for two uuids, at any two moments of a run, no matter what
   happened to the id in between (the entity may have been despawned, its id spawned again by the application,
   marked again: a script entity's uuid is its id, a replica id is handed out once, by a counter that only grows,
   for one uuid). *)
Theorem grun_uuid_fixed n tr1 tr2 :
  uuid_conforming n (tr1 ++ tr2) ->
  forall p pr1 pr2, grun (init_global n) tr1 !! p = Some pr1 -> grun (init_global n) (tr1 ++ tr2) !! p = Some pr2 ->
    uuid_fixed pr1 pr2.
Proof.
  intros Hc p pr1 pr2 H1 H2. destruct (grun_two_moments n tr1 tr2 Hc p pr1 pr2 H1 H2) as [HI HS].
  eapply sstep_uuid_fixed; eassumption.
Qed.

(* (b) sync_stable for one id: if the application does not OSpawn over the id in between.  No aliveness condition:
   if the entity was despawned in between and the id is alive again, it was re-created by a replica spawn of the
   SAME uuid. *)
Theorem grun_uuid_never_changes_at n tr1 tr2 :
  uuid_conforming n (tr1 ++ tr2) ->
  forall p pr1 pr2, grun (init_global n) tr1 !! p = Some pr1 -> grun (init_global n) (tr1 ++ tr2) !! p = Some pr2 ->
    forall e, respawned p e tr2 = false -> sync_stable_at e pr1 pr2.
Proof.
  intros Hc p pr1 pr2 H1 H2 e He. destruct (grun_two_moments n tr1 tr2 Hc p pr1 pr2 H1 H2) as [HI HS].
  eapply sstep_sync_stable_at; [exact HI|exact HS|]. cbv beta. rewrite He. discriminate.
Qed.

(* (c) the statement asked for: the side condition is on the ids that are synchronised at the first moment *)
Theorem grun_uuid_never_changes n tr1 tr2 :
  uuid_conforming n (tr1 ++ tr2) ->
  forall p pr1 pr2, grun (init_global n) tr1 !! p = Some pr1 -> grun (init_global n) (tr1 ++ tr2) !! p = Some pr2 ->
    (forall e, has_sync pr1 e = true -> respawned p e tr2 = false) ->
    sync_stable pr1 pr2.
Proof.
  intros Hc p pr1 pr2 H1 H2 Hre e en en' u Hl Hs.
  assert (He : respawned p e tr2 = false) by (apply Hre; unfold has_sync; rewrite Hl, Hs; reflexivity).
  exact (grun_uuid_never_changes_at n tr1 tr2 Hc p pr1 pr2 H1 H2 e He en en' u Hl Hs).
Qed.

(* every frame taken in a reachable state keeps every uuid (no side condition: frames never spawn over an id
   with another uuid, and never leave an id alive without its SyncEntity) *)
Corollary grun_frame_sync_stable n tr :
  uuid_conforming n tr -> forall p pr o, grun (init_global n) tr !! p = Some pr -> sync_stable pr (frame pr o).
Proof. intros Hc p pr o H. apply frame_sync_stable. eapply grun_uuid_inv; eassumption. Qed.

(* under the premise of the no-panic theorems *)
Corollary grun_uuid_fixed_conforming n tr1 tr2 :
  conforming n (tr1 ++ tr2) ->
  forall p pr1 pr2, grun (init_global n) tr1 !! p = Some pr1 -> grun (init_global n) (tr1 ++ tr2) !! p = Some pr2 ->
    uuid_fixed pr1 pr2.
Proof. intros Hc. apply grun_uuid_fixed. apply conforming_uuid. exact Hc. Qed.

(* (d) the form "e is alive in every intermediate state": true together with Hierarchy.hier_conforming (an OSpawn
   takes an id that is not alive on the peer), false without (respawn_alive_refuted below) *)
Definition alive_at (g : global) (p : peer) (e : ent) : Prop := exists pr, g !! p = Some pr /\ alive pr e = true.
Definition alive_throughout (g : global) (p : peer) (e : ent) (tr : list step) : Prop :=
  forall k, (k <= length tr)%nat -> alive_at (grun g (take k tr)) p e.

Lemma alive_throughout_cons g p e s tr :
  alive_throughout g p e (s :: tr) -> alive_at g p e /\ alive_throughout (gstep g s) p e tr.
Proof.
  intros H. split.
  - apply (H 0%nat). simpl. lia.
  - intros k Hk. apply (H (S k)). simpl. lia.
Qed.

Lemma hier_alive_not_respawned tr : forall g p e,
  hier_conforming_from g tr = true -> alive_throughout g p e tr -> respawned p e tr = false.
Proof.
  induction tr as [|s tr IH]; intros g p e Hc Ha; [reflexivity|].
  simpl in Hc. apply andb_true_iff in Hc as [H1 H2].
  apply alive_throughout_cons in Ha as [(pr & Hl & Hal) Ha].
  rewrite respawned_cons, (IH _ _ _ H2 Ha), orb_false_r.
  destruct s as [q op|q o|dst src i j]; try reflexivity.
  destruct op; try reflexivity. simpl. rewrite orb_false_r.
  destruct (q =? p) eqn:Eq; [|reflexivity]. destruct (e0 =? e) eqn:Ee; [|reflexivity]. exfalso.
  apply N.eqb_eq in Eq as ->. apply N.eqb_eq in Ee as ->.
  simpl in H1. unfold global in *. rewrite Hl in H1. simpl in H1. apply andb_true_iff in H1 as [_ H1].
  unfold id_usedb in H1. rewrite Hal in H1. discriminate.
Qed.

Lemma hier_conforming_from_app tr1 : forall g tr2,
  hier_conforming_from g (tr1 ++ tr2) = true -> hier_conforming_from (grun g tr1) tr2 = true.
Proof.
  induction tr1 as [|s tr1 IH]; intros g tr2 H; simpl in *; [exact H|].
  apply andb_true_iff in H as [_ H2]. apply IH. exact H2.
Qed.

Theorem grun_uuid_never_changes_alive n tr1 tr2 :
  uuid_conforming n (tr1 ++ tr2) -> hier_conforming n (tr1 ++ tr2) ->
  forall p pr1 pr2, grun (init_global n) tr1 !! p = Some pr1 -> grun (init_global n) (tr1 ++ tr2) !! p = Some pr2 ->
    forall e, alive_throughout (grun (init_global n) tr1) p e tr2 -> sync_stable_at e pr1 pr2.
Proof.
  intros Hc Hh p pr1 pr2 H1 H2 e Ha.
  apply (grun_uuid_never_changes_at n tr1 tr2 Hc p pr1 pr2 H1 H2 e).
  eapply hier_alive_not_respawned; [|exact Ha]. apply hier_conforming_from_app. exact Hh.
Qed.

(* ================================================================================================ *)
(* 6. Decidable forms                                                                                *)
(* ================================================================================================ *)

Definition sync_stableb (pr pr' : peer_state) : bool :=
  forallb (fun x : ent * entity =>
             match en_sync x.2, p_ents pr' !! x.1 with
             | Some u, Some en' => bool_decide (en_sync en' = Some u)
             | _, _ => true
             end) (ents_list pr).

Lemma sync_stableb_spec pr pr' : sync_stableb pr pr' = true <-> sync_stable pr pr'.
Proof.
  unfold sync_stableb, sync_stable. rewrite forallb_forall. split.
  - intros H e en en' u H1 H2 H3.
    assert (Hin : In (e, en) (ents_list pr)) by (apply elem_of_list_In; unfold ents_list; apply elem_of_map_to_list; exact H1).
    specialize (H _ Hin). simpl in H. rewrite H2, H3 in H. apply bool_decide_eq_true in H. exact H.
  - intros H [e en] Hin. apply elem_of_list_In in Hin. unfold ents_list in Hin. apply elem_of_map_to_list in Hin. simpl.
    destruct (en_sync en) as [u|] eqn:Es; [|reflexivity].
    destruct (p_ents pr' !! e) as [en'|] eqn:El; [|reflexivity].
    apply bool_decide_eq_true. apply (H e en en' u Hin Es El).
Qed.

Lemma sync_of_Some pr e u :
  sync_of pr e = Some (Some u) -> exists en, p_ents pr !! e = Some en /\ en_sync en = Some u.
Proof.
  unfold sync_of. destruct (p_ents pr !! e) as [en|]; simpl; [|discriminate].
  intros H. injection H as H. exists en. split; [reflexivity|exact H].
Qed.

Lemma sync_of_None pr e :
  sync_of pr e = Some None -> exists en, p_ents pr !! e = Some en /\ en_sync en = None.
Proof.
  unfold sync_of. destruct (p_ents pr !! e) as [en|]; simpl; [|discriminate].
  intros H. injection H as H. exists en. split; [reflexivity|exact H].
Qed.

(* ================================================================================================ *)
(* 7. The premises are necessary                                                                     *)
(* ================================================================================================ *)

(* ---------- tracker_inv is not the right premise of the one-frame statement ----------------------------- *)

(* script entity 5 synchronised under its own id; a CInsertSync 5 99 waits in the buffer of the sync node *)
Definition pr_renamed : peer_state :=
  (init_peer 0 [] [] [SSync]) <| p_ents := {[ 5 := new_entity <| en_sync := Some 5 |> ]} |>
                               <| p_cmdq := {[ sys_key SSync := [CInsertSync 5 99] ]} |>.
Definition o_none : frame_oracle := Build_frame_oracle [] [] None [] 0 [].

Lemma pr_renamed_tracker_inv : tracker_inv pr_renamed.
Proof.
  split.
  - unfold u2e_ok, u2e_ok_. simpl.
    split; [intros u1 u2 e Hl; rewrite lookup_empty in Hl; discriminate|].
    split; [intros u e Hl; rewrite lookup_empty in Hl; discriminate|].
    split; [unfold SCRIPT_LIMIT; lia|].
    intros e en Hl. apply lookup_singleton_Some in Hl as [_ <-]. intros H. simpl in H. contradiction.
  - intros u e H. simpl in H. rewrite lookup_empty in H. discriminate.
Qed.

Theorem frame_sync_stable_tracker_inv_refuted :
  exists pr o, tracker_inv pr /\ ~ sync_stable pr (frame pr o).
Proof.
  exists pr_renamed, o_none. split; [exact pr_renamed_tracker_inv|].
  intros H. apply sync_stableb_spec in H.
  assert (Hb : sync_stableb pr_renamed (frame pr_renamed o_none) = false) by (vm_compute; reflexivity).
  congruence.
Qed.

Example pr_renamed_effect :
  sync_list pr_renamed = [(5, Some 5)] /\ sync_list (frame pr_renamed o_none) = [(5, Some 99)].
Proof. vm_compute. split; reflexivity. Qed.

Definition frame_sync_stable_tracker_statement : Prop :=
  forall pr o, tracker_inv pr -> sync_stable pr (frame pr o).
Corollary frame_sync_stable_tracker_statement_refuted : ~ frame_sync_stable_tracker_statement.
Proof.
  intros H. destruct frame_sync_stable_tracker_inv_refuted as (pr & o & H1 & H2). apply H2. apply H. exact H1.
Qed.

(* ---------- SyncMark on a replica: the uuid of a live entity changes -------------------------------------- *)

(* Tracker.remark = session ++ [StApp 1 (OMark E0); StFrame 1 (fc 0)]: the client's application marks its replica
   E0 of the host's entity 1; entity_created_on_client (query Added<SyncMark>, no Without<SyncEntity> filter)
   draws a new uuid (the model: E0 itself) and its command overwrites SyncEntity { uuid: 1 }. *)
Theorem uuid_changes_when_a_replica_is_marked :
  exists n tr1 tr2 p pr1 pr2 e en en' u u',
    grun (init_global n) tr1 !! p = Some pr1 /\ grun (init_global n) (tr1 ++ tr2) !! p = Some pr2 /\
    p_ents pr1 !! e = Some en /\ en_sync en = Some u /\ p_ents pr2 !! e = Some en' /\ en_sync en' = Some u' /\ u <> u'.
Proof.
  exists 2%nat, session, [StApp 1 (OMark E0); StFrame 1 (fc 0)], 1.
  destruct (grun (init_global 2) session !! 1) as [pr1|] eqn:E1; [|vm_compute in E1; discriminate].
  destruct (grun (init_global 2) (session ++ [StApp 1 (OMark E0); StFrame 1 (fc 0)]) !! 1) as [pr2|] eqn:E2;
    [|vm_compute in E2; discriminate].
  assert (H1 : (fun pr => sync_of pr E0) <$> (grun (init_global 2) session !! 1) = Some (Some (Some 1)))
    by (vm_compute; reflexivity).
  assert (H2 : (fun pr => sync_of pr E0) <$>
               (grun (init_global 2) (session ++ [StApp 1 (OMark E0); StFrame 1 (fc 0)]) !! 1) = Some (Some (Some E0)))
    by (vm_compute; reflexivity).
  rewrite E1 in H1. rewrite E2 in H2. simpl in H1, H2. injection H1 as H1. injection H2 as H2.
  apply sync_of_Some in H1 as (en & Hl1 & Hs1). apply sync_of_Some in H2 as (en' & Hl2 & Hs2).
  exists pr1, pr2, E0, en, en', 1, E0. repeat split; try assumption. unfold E0. discriminate.
Qed.

(* the trace violates the premise in that one step only, and all the other premises in use hold of it *)
Example remark_premises :
  uuid_conforming 2 session /\ ~ uuid_conforming 2 remark /\ hier_conforming 2 remark /\ no_naming_cmds remark.
Proof.
  split; [vm_compute; reflexivity|]. split; [intros H; vm_compute in H; discriminate|].
  split; [exact remark_hier_conforming|]. repeat constructor.
Qed.

(* ---------- a naming command queued by an application system ---------------------------------------------- *)

(* the premise of Tracker.v alone (marks_script_only) is not enough: host_order runs the application system
   SApp 7; it is handed CInsertSync 1 99 *)
Definition rename_cmd : list step := [StApp 0 (OAppCmd 7 (CInsertSync 1 99)); StFrame 0 (fh [])].

Theorem uuid_changes_by_app_command :
  marks_script_only 2 (session ++ rename_cmd) /\ hier_conforming 2 (session ++ rename_cmd) /\
  (fun pr => sync_of pr 1) <$> (grun (init_global 2) session !! 0) = Some (Some (Some 1)) /\
  (fun pr => sync_of pr 1) <$> (grun (init_global 2) (session ++ rename_cmd) !! 0) = Some (Some (Some 99)).
Proof. vm_compute. repeat split; reflexivity. Qed.

(* ---------- OSpawn over a live synchronised entity --------------------------------------------------------- *)

(* the client's application spawns a plain entity at the id of its live replica E0: allowed by uuid_conforming
   (and by marks_script_only), the id stays alive throughout, and sync_stable fails for the trivial reason that
   another entity (without SyncEntity) now lives at the id *)
Definition respawn : list step := [StApp 1 (OSpawn E0 false [])].

Theorem respawn_alive_refuted :
  exists n tr1 tr2 p pr1 pr2 e,
    uuid_conforming n (tr1 ++ tr2) /\
    grun (init_global n) tr1 !! p = Some pr1 /\ grun (init_global n) (tr1 ++ tr2) !! p = Some pr2 /\
    alive_throughout (grun (init_global n) tr1) p e tr2 /\ ~ sync_stable_at e pr1 pr2.
Proof.
  exists 2%nat, session, respawn, 1.
  destruct (grun (init_global 2) session !! 1) as [pr1|] eqn:E1; [|vm_compute in E1; discriminate].
  destruct (grun (init_global 2) (session ++ respawn) !! 1) as [pr2|] eqn:E2; [|vm_compute in E2; discriminate].
  exists pr1, pr2, E0. split; [vm_compute; reflexivity|]. split; [exact E1|]. split; [exact E2|]. split.
  - intros k Hk.
    assert (Hb : forall k, (k <= 1)%nat ->
              (fun pr => alive pr E0) <$> (grun (grun (init_global 2) session) (take k respawn) !! 1) = Some true).
    { intros [|[|k']] Hk'; [vm_compute; reflexivity|vm_compute; reflexivity|lia]. }
    specialize (Hb k Hk). unfold alive_at.
    destruct (grun (grun (init_global 2) session) (take k respawn) !! 1) as [pr|] eqn:Ek; [|discriminate].
    exists pr. split; [exact Ek|]. simpl in Hb. injection Hb as Hb. exact Hb.
  - intros H.
    assert (H1 : (fun pr => sync_of pr E0) <$> (grun (init_global 2) session !! 1) = Some (Some (Some 1)))
      by (vm_compute; reflexivity).
    assert (H2 : (fun pr => sync_of pr E0) <$> (grun (init_global 2) (session ++ respawn) !! 1) = Some (Some None))
      by (vm_compute; reflexivity).
    rewrite E1 in H1. rewrite E2 in H2. simpl in H1, H2. injection H1 as H1. injection H2 as H2.
    apply sync_of_Some in H1 as (en & Hl1 & Hs1).
    apply sync_of_None in H2 as (en' & Hl2 & Hs2).
    rewrite (H en en' 1 Hl1 Hs1 Hl2) in Hs2. discriminate.
Qed.

(* the one-step form: a reachable state and an operation allowed by op_uuid_ok *)
Theorem app_step_sync_stable_respawn_refuted :
  exists n tr p pr op, uuid_conforming n tr /\ grun (init_global n) tr !! p = Some pr /\
                       op_uuid_ok op = true /\ ~ sync_stable pr (app_step pr op).
Proof.
  exists 2%nat, session, 1.
  destruct (grun (init_global 2) session !! 1) as [pr|] eqn:E; [|vm_compute in E; discriminate].
  exists pr, (OSpawn E0 false []). split; [vm_compute; reflexivity|]. split; [exact E|]. split; [reflexivity|].
  intros H. apply sync_stableb_spec in H.
  assert (Hb : (fun pr => sync_stableb pr (app_step pr (OSpawn E0 false []))) <$> (grun (init_global 2) session !! 1)
               = Some false) by (vm_compute; reflexivity).
  rewrite E in Hb. change (Some (sync_stableb pr (app_step pr (OSpawn E0 false []))) = Some false) in Hb.
  rewrite H in Hb. discriminate.
Qed.

(* ================================================================================================ *)
(* 8. Non-vacuity                                                                                    *)
(* ================================================================================================ *)

(* Hierarchy.whole = session ++ (move_to_B ++ move_to_A ++ client_move): after `session` the host's script entities
   1..4 and the client's replicas E0..E0+3 are synchronised; eleven steps later (re-parentings on both peers, frames
   of both peers) they are all still alive under the same uuids *)
Definition later : list step := move_to_B ++ move_to_A ++ client_move.

Example whole_split : whole = session ++ later.
Proof. reflexivity. Qed.

Example whole_uuid_conforming : uuid_conforming 2 (session ++ later).
Proof. vm_compute. reflexivity. Qed.

Example whole_not_respawned p e : respawned p e later = false.
Proof. reflexivity. Qed.

Example uuid_never_changes_nonvacuous :
  sync_list <$> (grun (init_global 2) session !! 0) = Some [(1, Some 1); (3, Some 3); (2, Some 2); (4, Some 4)] /\
  sync_list <$> (grun (init_global 2) (session ++ later) !! 0) = Some [(1, Some 1); (3, Some 3); (2, Some 2); (4, Some 4)] /\
  sync_list <$> (grun (init_global 2) session !! 1)
    = Some [(E0 + 3, Some 4); (E0 + 1, Some 3); (E0, Some 1); (E0 + 2, Some 2)] /\
  sync_list <$> (grun (init_global 2) (session ++ later) !! 1)
    = Some [(E0 + 3, Some 4); (E0 + 1, Some 3); (E0, Some 1); (E0 + 2, Some 2)].
Proof. vm_compute. repeat split; reflexivity. Qed.

Example whole_by_theorem p pr1 pr2 :
  grun (init_global 2) session !! p = Some pr1 -> grun (init_global 2) (session ++ later) !! p = Some pr2 ->
  sync_stable pr1 pr2.
Proof.
  intros H1 H2. apply (grun_uuid_never_changes 2 session later whole_uuid_conforming p pr1 pr2 H1 H2).
  intros e _. apply whole_not_respawned.
Qed.

(* the invariant in a reachable state with pending work: the client has received the four spawns and not yet run
   the frame that applies them *)
Example uuid_inv_nonvacuous p pr : grun (init_global 2) (take 19 session) !! p = Some pr -> uuid_inv pr.
Proof. apply grun_uuid_inv. vm_compute. reflexivity. Qed.

(* re-use of ids: the host despawns its script entity 1 and spawns id 1 again, marked: the new entity is
   synchronised under uuid 1 again (its uuid IS its id); the client despawns its replica E0, its application
   spawns a plain entity at E0: no SyncEntity, and never a different uuid (grun_uuid_fixed) *)
Definition reuse : list step :=
  [StApp 0 (ODespawn 1); StFrame 0 (fh []); StApp 0 (OSpawn 1 true []); StFrame 0 (fh []); StFrame 0 (fh []);
   StFrame 1 (fc 20); StApp 1 (OSpawn E0 false []); StFrame 1 (fc 20)].

Example reuse_conforming : uuid_conforming 2 (session ++ reuse).
Proof. vm_compute. reflexivity. Qed.

Example reuse_effect :
  (fun pr => sync_of pr 1) <$> (grun (init_global 2) session !! 0) = Some (Some (Some 1)) /\
  (fun pr => sync_of pr 1) <$> (grun (init_global 2) (session ++ take 2 reuse) !! 0) = Some None /\
  (fun pr => sync_of pr 1) <$> (grun (init_global 2) (session ++ reuse) !! 0) = Some (Some (Some 1)) /\
  sync_list <$> (grun (init_global 2) (session ++ reuse) !! 1)
    = Some [(E0 + 3, Some 4); (E0 + 1, Some 3); (E0, None); (E0 + 4, Some 1); (E0 + 2, Some 2)].
Proof. vm_compute. repeat split; reflexivity. Qed.

Example reuse_by_theorem p pr1 pr2 :
  grun (init_global 2) session !! p = Some pr1 -> grun (init_global 2) (session ++ reuse) !! p = Some pr2 ->
  uuid_fixed pr1 pr2.
Proof. apply (grun_uuid_fixed 2 session reuse reuse_conforming). Qed.

Print Assumptions frame_uuid_inv.
Print Assumptions frame_sync_stable.
Print Assumptions flush_sync_stable.
Print Assumptions run_system_sync_stable.
Print Assumptions app_step_sync_stable.
Print Assumptions app_step_uuid_fixed.
Print Assumptions app_step_uuid_inv.
Print Assumptions uuid_inv_init.
Print Assumptions grun_uuid_inv.
Print Assumptions grun_uuid_fixed.
Print Assumptions grun_uuid_never_changes_at.
Print Assumptions grun_uuid_never_changes.
Print Assumptions grun_uuid_never_changes_alive.
Print Assumptions grun_frame_sync_stable.
Print Assumptions grun_uuid_fixed_conforming.
Print Assumptions conforming_uuid.
Print Assumptions marks_uuid_conforming.
Print Assumptions frame_sync_stable_tracker_inv_refuted.
Print Assumptions uuid_changes_when_a_replica_is_marked.
Print Assumptions uuid_changes_by_app_command.
Print Assumptions respawn_alive_refuted.
Print Assumptions app_step_sync_stable_respawn_refuted.
Print Assumptions whole_by_theorem.
Print Assumptions reuse_by_theorem.
