(* C04 "Only opted-in data ever leaves a peer".

   What a peer ORIGINATES in one frame (all states, all schedule orders, all oracles):
   - a component update only for a type registered with sync_component on that peer
     (p_sync_types; SkinnedMesh travels as T_MAPPER and needs T_SKIN registered), about a uuid the
     sync machinery of that peer knows, detected on an entity that carries SyncEntity{uuid} and
     no SyncExclude<T> in the very state in which the detector ran;
   - an asset update only if the class of the asset is enabled on that peer;
   - entity messages only about uuids of marked / synchronised / tracked entities.
   Messages a host merely relays (relay_except in server_received, CRelay, CApplyComp (Some _),
   CSetParentSrv, CApplyMaterial (Some _)) are copies of received messages: `relayed`.

   The walk through the model is in OptInLemmas.v (a generic frame invariant); this file
   instantiates it (trivially: configuration is constant, command buffers; lightly: assets, entity
   messages; fully: component types) and lifts the result to all traces of the global system. *)
From stdpp Require Import gmap list.
From Coq Require Import NArith Lia.
From RecordUpdate Require Import RecordSet.
From BS Require Import Sync.Types Sync.Model Sync.Observe Sync.Proofs.OptInLemmas.
Import RecordSetNotations.
Local Open Scope N_scope.

(* ---------- vocabulary --------------------------------------------------------------------- *)

(* m was received by pr and not yet (completely) handled: it sits in an inbox, or in a deferred
   command that will re-send it to the other clients *)
Definition relayed (pr : peer_state) (m : msg) : Prop :=
  (exists from l, n_inbox pr !! from = Some l /\ In m l) \/
  (exists k cs c, p_cmdq pr !! k = Some cs /\ In c cs /\ cmd_relays c m).

(* u is the uuid of something the sync machinery of pr already deals with: a tracked uuid, the
   SyncEntity of an entity, a marked entity (whose uuid will be its id), a queued change, an
   announced spawn *)
Definition known (pr : peer_state) (u : uuid) : Prop :=
  (exists e, t_u2e pr !! u = Some e) \/
  (exists e, t_e2u pr !! e = Some u) \/
  (exists e en, p_ents pr !! e = Some en /\ en_sync en = Some u) \/
  (exists en, p_ents pr !! u = Some en /\ en_mark en <> None) \/
  (exists t v, In (u, t, v) (t_queue pr)) \/
  relayed pr (MSpawn u) \/
  (exists k cs e, p_cmdq pr !! k = Some cs /\ (In (CSpawnSync e u) cs \/ In (CInsertSync e u) cs)).

Definition marked (pr : peer_state) (e : ent) : Prop :=
  exists en, p_ents pr !! e = Some en /\ en_mark en <> None.
Definition key_ok (pr : peer_state) (e : ent) : Prop :=
  is_Some (t_e2u pr !! e) \/ marked pr e \/ p_next_ent pr <= e.

(* the wire type t is opted in on pr *)
Definition wire_opted (pr : peer_state) (t : tyid) : Prop :=
  In t (p_sync_types pr) \/ (t = T_MAPPER /\ In T_SKIN (p_sync_types pr)).

Definition queue_ok (pr : peer_state) : Prop :=
  forall u t v, In (u, t, v) (t_queue pr) -> wire_opted pr t /\ not_skin v.

(* A detector system exists only for registered types: sync_component::<T>() is what adds
   sync_detect::<T> to the schedule.  The harness reads p_order from the real schedule, so this
   hypothesis is discharged by the schedule audit; it is preserved by every application
   operation except OSetOrder (app_step_order_ok below). *)
Definition order_ok (pr : peer_state) : Prop :=
  forall t, In (SDetect t) (p_order pr) -> In t (p_sync_types pr).

Definition is_app_cmd (c : cmd) : Prop :=
  match c with CAppDespawnUuid _ | CAppDespawn _ | CAppInsert _ _ _ => True | _ => False end.
Definition app_cmds_ok (pr : peer_state) : Prop :=
  forall n c, In (n, c) (p_app_cmds pr) -> is_app_cmd c.

(* values are untyped in the model; in Rust a SkinnedMesh value can only sit in the SkinnedMesh
   component.  `typed_state` says so for everything pr holds. *)
Definition cmd_typed (c : cmd) : Prop :=
  match c with
  | CApplyComp _ _ _ t v | CAppInsert _ t v | CRelay _ (MComp _ t v) => val_typed t v
  | _ => True
  end.
Record typed_state (pr : peer_state) : Prop := {
  ts_ents : forall e en t c, p_ents pr !! e = Some en -> en_comps en !! t = Some c -> val_typed t (c_val c);
  ts_inbox : forall from l u t v, n_inbox pr !! from = Some l -> In (MComp u t v) l -> val_typed t v;
  ts_cmdq : forall k cs c, p_cmdq pr !! k = Some cs -> In c cs -> cmd_typed c;
  ts_app : forall n c, In (n, c) (p_app_cmds pr) -> cmd_typed c;
}.

(* x was queued by the detector of a registered type t, at the point of the schedule where that
   detector ran, from an entity carrying SyncEntity{uuid = x.1.1}, the component, and no
   SyncExclude<t> in that state *)
Definition detected_in (pr : peer_state) (o : frame_oracle) (x : uuid * tyid * value) : Prop :=
  exists pre t post, p_order pr = pre ++ SDetect t :: post /\
    detect_witness (frame_mid pr o pre) t x /\ In t (p_sync_types pr) /\
    (x.1.2 = t \/ (x.1.2 = T_MAPPER /\ t = T_SKIN)).

Definition opted (pr : peer_state) (x : uuid * tyid * value) : Prop :=
  known pr x.1.1 /\ wire_opted pr x.1.2 /\ not_skin x.2.

Definition Qf (pr : peer_state) (o : frame_oracle) (x : uuid * tyid * value) : Prop :=
  opted pr x /\ (In x (t_queue pr) \/ detected_in pr o x).

(* keys under which commands are buffered: those of the systems of the schedule (flushed by the
   frame), or keys that were already in use *)
Definition key_fine (pr : peer_state) (k : N) : Prop :=
  (exists s, In s (p_order pr) /\ sys_key s = k) \/ is_Some (p_cmdq pr !! k).

(* a download of asset a of class c from owner's endpoint was requested (the peer was told
   `MAsset c a owner`) and its payload is not applied yet *)
Definition downloading (pr : peer_state) (c : aclass) (a : uuid) (owner : peer) : Prop :=
  In (c, a, owner) (d_pending pr).

(* ---------- the three instances of the invariant ---------------------------------------------- *)

Definition TInv (pr : peer_state) : peer_state -> Prop :=
  Inv (p_sync_types pr) (t_mat pr) (t_mesh pr) (t_audio pr) (p_id pr) (p_order pr)
      (fun _ => True) (fun _ => True) (fun _ => True) (fun _ => True) 0 (fun _ => True)
      (fun _ _ => True) True (fun _ => True) (fun _ => True) (fun _ _ _ => True).

Definition LInv (pr : peer_state) : peer_state -> Prop :=
  Inv (p_sync_types pr) (t_mat pr) (t_mesh pr) (t_audio pr) (p_id pr) (p_order pr)
      (relayed pr) (known pr) (marked pr) (key_ok pr) (p_next_ent pr) (fun x => known pr x.1.1)
      (fun _ _ => True) True is_app_cmd (key_fine pr) (downloading pr).

Definition FInv (pr : peer_state) (o : frame_oracle) : peer_state -> Prop :=
  Inv (p_sync_types pr) (t_mat pr) (t_mesh pr) (t_audio pr) (p_id pr) (p_order pr)
      (relayed pr) (known pr) (marked pr) (key_ok pr) (p_next_ent pr) (Qf pr o)
      val_typed (In T_SKIN (p_sync_types pr)) (fun c => is_app_cmd c /\ cmd_typed c) (key_fine pr)
      (downloading pr).

Lemma relayed_typed pr u t v : typed_state pr -> relayed pr (MComp u t v) -> val_typed t v.
Proof.
  intros Ht [(from & l & Hl & Hin)|(k & cs & c & Hl & Hin & Hr)].
  - eapply ts_inbox; eassumption.
  - pose proof (ts_cmdq pr Ht _ _ _ Hl Hin) as Hc.
    destruct c; simpl in Hr; try contradiction.
    + destruct from; [|contradiction]. injection Hr as <- <- <-. exact Hc.
    + discriminate.
    + destruct from; [discriminate|contradiction].
    + subst m. exact Hc.
Qed.

Lemma pending_cmd_ok pr (vt : tyid -> value -> Prop) k cs c :
  p_cmdq pr !! k = Some cs -> In c cs ->
  (forall e u t v from, c = CApplyComp from e u t v -> vt t v) ->
  (forall e t v, c = CAppInsert e t v -> vt t v) ->
  cmd_ok (relayed pr) (known pr) vt c.
Proof.
  intros Hl Hin H1 H2.
  assert (Hrel : forall m, cmd_relays c m -> relayed pr m).
  { intros m Hm. right. exists k, cs, c. repeat split; assumption. }
  destruct c; simpl; try exact I.
  - do 6 right. exists k, cs, e. split; [exact Hl|left; exact Hin].
  - do 6 right. exists k, cs, e. split; [exact Hl|right; exact Hin].
  - split; [|eapply H1; reflexivity]. intros Hf. apply Hrel. destruct from; [reflexivity|congruence].
  - apply Hrel. reflexivity.
  - intros Hf. apply Hrel. destruct from; [reflexivity|congruence].
  - apply Hrel. reflexivity.
  - eapply H2. reflexivity.
Qed.

Lemma app_cmd_ok_any (inb : msg -> Prop) (kn : uuid -> Prop) (vt : tyid -> value -> Prop) c :
  is_app_cmd c -> (forall e t v, c = CAppInsert e t v -> vt t v) -> cmd_ok inb kn vt c.
Proof. intros Ha Hv. destruct c; simpl in *; try contradiction; try exact I. eapply Hv. reflexivity. Qed.

Lemma TInv_frame pr o : p_panic pr = None -> TInv pr (frame pr o).
Proof.
  intros Hp. unfold TInv. apply Inv_frame; try (intros; exact I); try exact Hp.
  - intros c _. destruct c; simpl; try exact I; tauto.
  - constructor; try reflexivity; try (intros; exact I); try (intros; repeat split; exact I).
    + intros d m [].
    + intros k cs c _ _. destruct c; simpl; try exact I; tauto.
    + apply N.le_0_l.
    + intros c a o' _. left. exact I.
Qed.

Lemma LInv_start pr : app_cmds_ok pr -> LInv pr (pr <| p_out := [] |>).
Proof.
  intros Ha. constructor; try reflexivity.
  - intros d m [].
  - intros k cs c Hl Hin. eapply pending_cmd_ok; try eassumption; intros; exact I.
  - intros k cs Hl. right. exists cs. exact Hl.
  - exact Ha.
  - intros [[u t] v] Hin. do 4 right. left. exists t, v. exact Hin.
  - intros from l m Hl Hin. left. exists from, l. split; assumption.
  - intros u e Hl. left. exists e. exact Hl.
  - intros e u Hl. split; [right; left; exists e; exact Hl|left; exists u; exact Hl].
  - intros e en Hl. split; [|split].
    + intros u Hu. do 2 right. left. exists e, en. split; assumption.
    + intros Hm. exists en. split; assumption.
    + intros; exact I.
  - intros c a o Hin. right. exact Hin.
Qed.

Lemma LInv_frame pr o : p_panic pr = None -> app_cmds_ok pr -> LInv pr (frame pr o).
Proof.
  intros Hp Ha. unfold LInv. apply Inv_frame; try (intros; exact I); try exact Hp.
  - intros u Hu. do 5 right. left. exact Hu.
  - intros e He. do 3 right. left. exact He.
  - intros e He. right. left. exact He.
  - intros e He. right. right. exact He.
  - intros c Hc. apply app_cmd_ok_any; [exact Hc|intros; exact I].
  - apply LInv_start. exact Ha.
  - intros s Hs. left. exists s. split; [exact Hs|reflexivity].
  - intros pre t post x _ HI (e & en & c & Hl & Hs & _).
    destruct (i_ents _ _ _ _ _ _ _ _ _ _ _ _ _ _ _ _ _ _ HI _ _ Hl) as (Hk & _). apply Hk. exact Hs.
Qed.

Lemma FInv_start pr o :
  queue_ok pr -> typed_state pr -> app_cmds_ok pr -> FInv pr o (pr <| p_out := [] |>).
Proof.
  intros Hq Ht Ha. constructor; try reflexivity.
  - intros d m [].
  - intros k cs c Hl Hin. pose proof (ts_cmdq pr Ht _ _ _ Hl Hin) as Hc.
    eapply pending_cmd_ok; try eassumption; intros; subst c; exact Hc.
  - intros k cs Hl. right. exists cs. exact Hl.
  - intros n c Hin. split; [eapply Ha; eassumption|eapply ts_app; eassumption].
  - intros [[u t] v] Hin. split; [|left; exact Hin]. destruct (Hq _ _ _ Hin) as [Hw Hs].
    split; [|split; assumption]. do 4 right. left. exists t, v. exact Hin.
  - intros from l m Hl Hin. left. exists from, l. split; assumption.
  - intros u e Hl. left. exists e. exact Hl.
  - intros e u Hl. split; [right; left; exists e; exact Hl|left; exists u; exact Hl].
  - intros e en Hl. split; [|split].
    + intros u Hu. do 2 right. left. exists e, en. split; assumption.
    + intros Hm. exists en. split; assumption.
    + intros t c Hc. eapply ts_ents; eassumption.
  - intros c a o' Hin. right. exact Hin.
Qed.

Lemma FInv_frame pr o :
  p_panic pr = None -> queue_ok pr -> order_ok pr -> typed_state pr -> app_cmds_ok pr ->
  FInv pr o (frame pr o).
Proof.
  intros Hp Hq Ho Ht Ha. unfold FInv. apply Inv_frame; try exact Hp.
  - intros u Hu. do 5 right. left. exact Hu.
  - intros u t v Hr. eapply relayed_typed; eassumption.
  - intros j p. reflexivity.
  - intros t n. exact I.
  - intros t j p Hv Hin. simpl in Hv. subst t. exact Hin.
  - intros e He. do 3 right. left. exact He.
  - intros e He. right. left. exact He.
  - intros e He. right. right. exact He.
  - intros c [Hc Hty]. apply app_cmd_ok_any; [exact Hc|]. intros e t v ->. exact Hty.
  - apply FInv_start; assumption.
  - intros s Hs. left. exists s. split; [exact Hs|reflexivity].
  - intros pre t post x Hord HI Hw.
    assert (Hin : In t (p_sync_types pr)).
    { apply Ho. rewrite Hord. apply in_or_app. right. left. reflexivity. }
    assert (Hb : opted pr x).
    { eapply witness_base; [|exact HI|exact Hin|exact Hw].
      intros t' j p Hv Hin'. simpl in Hv. subst t'. exact Hin'. }
    split; [exact Hb|]. right. exists pre, t, post. split; [exact Hord|]. split; [exact Hw|].
    split; [exact Hin|].
    destruct Hw as (e & en & c & Hl & _ & Hc & _ & Hm).
    destruct (i_ents _ _ _ _ _ _ _ _ _ _ _ _ _ _ _ _ _ _ HI _ _ Hl) as (_ & _ & Hty).
    specialize (Hty _ _ Hc). destruct (c_val c); destruct Hm as [-> _].
    + left. reflexivity.
    + right. split; [reflexivity|exact Hty].
    + left. reflexivity.
Qed.

(* ---------- per-frame theorems ------------------------------------------------------------------ *)

(* a panicked peer is frozen: its frame is the identity (p_out keeps the outputs of the frame that
   panicked) — hence `p_panic pr = None` below *)
Lemma frame_panicked pr o : p_panic pr <> None -> frame pr o = pr.
Proof. unfold frame. destruct (p_panic pr); [reflexivity|congruence]. Qed.

(* Remark on the model: gstep (StFrame p o) delivers p_out (frame pr o); for a panicked peer this is
   the unchanged p_out of the frame that panicked, delivered again at every StFrame. *)
Lemma panicked_peer_resends g p pr o :
  g !! p = Some pr -> p_panic pr <> None ->
  gstep g (StFrame p o) = deliver_out (<[p := pr]> g) p (p_out pr).
Proof. intros Hp Hn. unfold gstep. rewrite Hp. cbv zeta. rewrite (frame_panicked pr o Hn). reflexivity. Qed.

(* the opt-in configuration is constant during a frame, unconditionally *)
Theorem frame_config pr o :
  p_sync_types (frame pr o) = p_sync_types pr /\ t_mat (frame pr o) = t_mat pr /\
  t_mesh (frame pr o) = t_mesh pr /\ t_audio (frame pr o) = t_audio pr /\
  p_id (frame pr o) = p_id pr /\ p_order (frame pr o) = p_order pr.
Proof.
  destruct (p_panic pr) eqn:Hp; [rewrite frame_panicked by congruence; tauto|].
  destruct (TInv_frame pr o Hp) as [H1 H2 H3 H4 H5 H6 _ _ _ _ _ _ _ _ _ _]. tauto.
Qed.

(* ---- the command buffers are empty between frames ---- *)

Definition KInv (pr0 : peer_state) (K : N -> Prop) : peer_state -> Prop :=
  Inv (p_sync_types pr0) (t_mat pr0) (t_mesh pr0) (t_audio pr0) (p_id pr0) (p_order pr0)
      (fun _ => True) (fun _ => True) (fun _ => True) (fun _ => True) 0 (fun _ => True)
      (fun _ _ => True) True (fun _ => True) K (fun _ _ _ => True).

Lemma trivial_cmd_ok c : cmd_ok (fun _ => True) (fun _ => True) (fun _ _ => True) c.
Proof. destruct c; simpl; try exact I; tauto. Qed.

Lemma KInv_any pr0 pr (K : N -> Prop) :
  p_sync_types pr = p_sync_types pr0 -> t_mat pr = t_mat pr0 -> t_mesh pr = t_mesh pr0 ->
  t_audio pr = t_audio pr0 -> p_id pr = p_id pr0 -> p_order pr = p_order pr0 ->
  (forall k cs, p_cmdq pr !! k = Some cs -> K k) -> KInv pr0 K pr.
Proof.
  intros E1 E2 E3 E4 E5 E6 Hk. constructor; try assumption; try (intros; exact I);
    try (intros; repeat split; exact I).
  - intros d m _. destruct m; simpl; try exact I; tauto.
  - intros k cs c _ _. apply trivial_cmd_ok.
  - apply N.le_0_l.
  - intros c a o _. left. exact I.
Qed.

Lemma apply_cmds_keys pr cs :
  KInv pr (fun k => is_Some (p_cmdq pr !! k)) (apply_cmds pr cs).
Proof.
  apply Inv_apply_cmds; try (intros; exact I).
  - apply KInv_any; try reflexivity. intros k cs' Hl. exists cs'. exact Hl.
  - intros c _. apply trivial_cmd_ok.
Qed.

Lemma flush_keys (l : list sysid) : forall a k,
  is_Some (p_cmdq (foldl (fun pr s =>
             let k := sys_key s in
             match p_cmdq pr !! k with
             | Some cs => apply_cmds (pr <| p_cmdq := delete k (p_cmdq pr) |>) cs
             | None => pr
             end) a l) !! k) ->
  is_Some (p_cmdq a !! k) /\ forall s, In s l -> sys_key s <> k.
Proof.
  induction l as [|s l IH]; intros a k Hk; [split; [exact Hk|intros s []]|].
  cbn [foldl] in Hk. apply IH in Hk as [Hk Hl]. cbv zeta in Hk.
  assert (Hs : is_Some (p_cmdq a !! k) /\ sys_key s <> k).
  { destruct (p_cmdq a !! sys_key s) as [cs|] eqn:E.
    - destruct Hk as [x Hx].
      destruct (i_keys _ _ _ _ _ _ _ _ _ _ _ _ _ _ _ _ _ _ (apply_cmds_keys (a <| p_cmdq := delete (sys_key s) (p_cmdq a) |>) cs) _ _ Hx)
        as [y Hy].
      cbn [p_cmdq set] in Hy. apply lookup_delete_Some in Hy as [Hne Hy]. split; [exists y; exact Hy|exact Hne].
    - split; [exact Hk|]. intros <-. rewrite E in Hk. destruct Hk as [x Hx]. discriminate. }
  destruct Hs as [Hs1 Hs2]. split; [exact Hs1|]. intros s' [<-|Hin]; [exact Hs2|apply Hl; exact Hin].
Qed.

Lemma flush_empties pr :
  (forall k, is_Some (p_cmdq pr !! k) -> exists s, In s (p_order pr) /\ sys_key s = k) ->
  p_cmdq (flush pr) = ∅.
Proof.
  intros Hkeys. apply map_empty. intros k. destruct (p_cmdq (flush pr) !! k) as [cs|] eqn:E; [exfalso|reflexivity].
  unfold flush in E. destruct (flush_keys (p_order pr) pr k) as [H1 H2]; [exists cs; exact E|].
  destruct (Hkeys k H1) as (s & Hs & Hk). exact (H2 s Hs Hk).
Qed.

(* every system buffers its commands under its own key, and the final flush of the frame applies
   the buffers of all systems of the schedule *)
Theorem frame_cmdq_empty pr o :
  p_panic pr = None -> p_cmdq pr = ∅ -> p_panic (frame pr o) = None -> p_cmdq (frame pr o) = ∅.
Proof.
  intros Hp Hq Hpf. rewrite (frame_unfold pr o Hp) in *.
  set (K := fun k => exists s, In s (p_order pr) /\ sys_key s = k).
  assert (H0 : KInv pr K (frame_start pr o)).
  { apply Inv_frame_start; try (intros; exact I).
    apply KInv_any; try reflexivity. intros k cs Hl. cbn [p_cmdq set] in Hl. rewrite Hq, lookup_empty in Hl. discriminate. }
  pose proof (i_order _ _ _ _ _ _ _ _ _ _ _ _ _ _ _ _ _ _ H0) as Eo. rewrite Eo in *.
  assert (Hm : KInv pr K (frame_mid pr o (p_order pr))).
  { apply Inv_run_systems; try (intros; exact I); try exact H0.
    - intros c _. apply trivial_cmd_ok.
    - intros s Hs. exists s. split; [exact Hs|reflexivity]. }
  destruct (p_panic (frame_mid pr o (p_order pr))) eqn:Epm.
  - unfold last_schedule in Hpf. cbn [p_panic set] in Hpf. congruence.
  - unfold last_schedule. cbn [p_cmdq set]. apply flush_empties.
    rewrite (i_order _ _ _ _ _ _ _ _ _ _ _ _ _ _ _ _ _ _ Hm). intros k [cs Hk].
    exact (i_keys _ _ _ _ _ _ _ _ _ _ _ _ _ _ _ _ _ _ Hm _ _ Hk).
Qed.

(* with empty command buffers, `relayed` is "sits in an inbox" *)
Lemma relayed_inbox pr m :
  p_cmdq pr = ∅ -> relayed pr m -> exists from l, n_inbox pr !! from = Some l /\ In m l.
Proof.
  intros Hq [H|(k & cs & c & Hl & _)]; [exact H|]. rewrite Hq, lookup_empty in Hl. discriminate.
Qed.

Lemma cmd_ok_relays (inb : msg -> Prop) (kn : uuid -> Prop) (vt : tyid -> value -> Prop) c m :
  cmd_ok inb kn vt c -> cmd_relays c m -> inb m.
Proof.
  intros Hc Hr. destruct c; simpl in *; try contradiction.
  - destruct from; [|contradiction]. subst m. apply Hc. discriminate.
  - subst m. exact Hc.
  - destruct from; [|contradiction]. subst m. apply Hc. discriminate.
  - subst m0. exact Hc.
Qed.

(* what is pending relay after the frame was pending relay before it *)
Theorem relayed_frame pr o m :
  p_panic pr = None -> app_cmds_ok pr -> relayed (frame pr o) m -> relayed pr m.
Proof.
  intros Hp Ha Hr. pose proof (LInv_frame pr o Hp Ha) as HI.
  destruct Hr as [(from & l & Hl & Hin)|(k & cs & c & Hl & Hin & Hr)].
  - eapply (i_inbox _ _ _ _ _ _ _ _ _ _ _ _ _ _ _ _ _ _ HI); eassumption.
  - eapply cmd_ok_relays; [|exact Hr]. eapply (i_cmdq _ _ _ _ _ _ _ _ _ _ _ _ _ _ _ _ _ _ HI); eassumption.
Qed.

(* a frame invents no uuid *)
Theorem known_frame pr o u :
  p_panic pr = None -> app_cmds_ok pr -> known (frame pr o) u -> known pr u.
Proof.
  intros Hp Ha Hk. pose proof (LInv_frame pr o Hp Ha) as HI.
  destruct Hk as [(e & Hl)|[(e & Hl)|[(e & en & Hl & Hs)|[(en & Hl & Hm)|[(t & v & Hq)|[Hr|(k & cs & e & Hl & Hin)]]]]]].
  - eapply (i_u2e _ _ _ _ _ _ _ _ _ _ _ _ _ _ _ _ _ _ HI); eassumption.
  - eapply (i_e2u _ _ _ _ _ _ _ _ _ _ _ _ _ _ _ _ _ _ HI); eassumption.
  - destruct (i_ents _ _ _ _ _ _ _ _ _ _ _ _ _ _ _ _ _ _ HI _ _ Hl) as (H & _). apply H. exact Hs.
  - destruct (i_ents _ _ _ _ _ _ _ _ _ _ _ _ _ _ _ _ _ _ HI _ _ Hl) as (_ & H & _).
    do 3 right. left. apply H. exact Hm.
  - exact (i_queue _ _ _ _ _ _ _ _ _ _ _ _ _ _ _ _ _ _ HI _ Hq).
  - do 5 right. left. eapply relayed_frame; eassumption.
  - destruct Hin as [Hin|Hin]; exact (i_cmdq _ _ _ _ _ _ _ _ _ _ _ _ _ _ _ _ _ _ HI _ _ _ Hl Hin).
Qed.

(* (3) assets: an originated asset update has its class enabled on this peer and, for the URL
   classes, points either to this peer's own endpoint or — since the repair of S26 (8b1d5d0: a joining
   client is told where to fetch the assets the host is still downloading) — to the endpoint this peer
   was itself told to fetch the asset from, by an announcement received earlier whose download is
   still under way at the start of the frame (`downloading`).  An announcement received in this very
   frame and repeated in a snapshot of the same frame falls under `relayed`. *)
Theorem originated_assets_enabled pr o :
  p_panic pr = None -> app_cmds_ok pr ->
  (forall dst a v, In (dst, MMaterial a v) (p_out (frame pr o)) ->
     relayed pr (MMaterial a v) \/ t_mat pr = true) /\
  (forall dst c a owner, In (dst, MAsset c a owner) (p_out (frame pr o)) ->
     relayed pr (MAsset c a owner) \/
     (class_enabled pr (KClass c) = true /\ (owner = p_id pr \/ downloading pr c a owner))).
Proof.
  intros Hp Ha. pose proof (LInv_frame pr o Hp Ha) as HI. split.
  - intros dst a v Hin. exact (i_out _ _ _ _ _ _ _ _ _ _ _ _ _ _ _ _ _ _ HI _ _ Hin).
  - intros dst c a owner Hin. pose proof (i_out _ _ _ _ _ _ _ _ _ _ _ _ _ _ _ _ _ _ HI _ _ Hin) as H.
    simpl in H. destruct H as [H|[H1 H2]]; [left; exact H|right]. split; [|exact H2].
    destruct c; exact H1.
Qed.

(* entity-level and component messages only mention uuids this peer's sync machinery knew *)
Theorem originated_subjects_known pr o :
  p_panic pr = None -> app_cmds_ok pr ->
  forall dst m, In (dst, m) (p_out (frame pr o)) ->
    relayed pr m \/ forall u, In u (msg_subjects m) -> known pr u.
Proof.
  intros Hp Ha dst m Hin. pose proof (LInv_frame pr o Hp Ha) as HI.
  pose proof (i_out _ _ _ _ _ _ _ _ _ _ _ _ _ _ _ _ _ _ HI _ _ Hin) as H.
  destruct m; simpl in H; simpl msg_subjects; [| | | |right; intros ? []..].
  - destruct H as [H|H]; [left; exact H|right]. intros u' [<-|[]]. exact H.
  - destruct H as [H|[H1 H2]]; [left; exact H|right]. intros u' [<-|[<-|[]]]; assumption.
  - destruct H as [H|H]; [left; exact H|right]. intros u' [<-|[]]. exact H.
  - destruct H as [H|[H|(H & _)]]; [left; exact H|right|right]; intros u' [<-|[]]; exact H.
Qed.

(* (4) an entity the application never marked: its id is not a uuid the machinery knows, so no
   originated message is about it, MSpawn e is not sent at all, and it stays unknown *)
Theorem never_marked_never_sent pr o e :
  p_panic pr = None -> app_cmds_ok pr -> ~ known pr e ->
  (forall dst m, In (dst, m) (p_out (frame pr o)) -> In e (msg_subjects m) -> relayed pr m) /\
  (forall dst, ~ In (dst, MSpawn e) (p_out (frame pr o))) /\
  ~ known (frame pr o) e.
Proof.
  intros Hp Ha Hk. split; [|split].
  - intros dst m Hin He. destruct (originated_subjects_known pr o Hp Ha _ _ Hin) as [H|H]; [exact H|].
    exfalso. apply Hk. apply H. exact He.
  - intros dst Hin. destruct (originated_subjects_known pr o Hp Ha _ _ Hin) as [H|H].
    + apply Hk. do 5 right. left. exact H.
    + apply Hk. apply H. left. reflexivity.
  - intros H. apply Hk. eapply known_frame; eassumption.
Qed.

(* ... and the frame does not enter it into entity_to_uuid (entity ids allocated by the frame are
   >= p_next_ent) *)
Theorem unmarked_stays_untracked pr o e :
  p_panic pr = None -> app_cmds_ok pr ->
  t_e2u pr !! e = None -> ~ marked pr e -> e < p_next_ent pr ->
  t_e2u (frame pr o) !! e = None.
Proof.
  intros Hp Ha Hn Hm Hlt. pose proof (LInv_frame pr o Hp Ha) as HI.
  destruct (t_e2u (frame pr o) !! e) as [u|] eqn:E; [|reflexivity]. exfalso.
  destruct (i_e2u _ _ _ _ _ _ _ _ _ _ _ _ _ _ _ _ _ _ HI _ _ E) as [_ [[x Hx]|[H|H]]].
  - congruence.
  - exact (Hm H).
  - lia.
Qed.

(* (2) components *)
Definition comp_provenance (pr : peer_state) (o : frame_oracle) (u : uuid) (t : tyid) (v : value) : Prop :=
  relayed pr (MComp u t v) \/                                            (* copy of a received message *)
  (opted pr (u, t, v) /\ (In (u, t, v) (t_queue pr) \/ detected_in pr o (u, t, v))) \/  (* change detection *)
  opted pr (u, t, v).                                                    (* snapshot (build_full_sync) *)

Theorem component_provenance pr o :
  p_panic pr = None -> queue_ok pr -> order_ok pr -> typed_state pr -> app_cmds_ok pr ->
  forall dst u t v, In (dst, MComp u t v) (p_out (frame pr o)) -> comp_provenance pr o u t v.
Proof.
  intros Hp Hq Ho Ht Ha dst u t v Hin. pose proof (FInv_frame pr o Hp Hq Ho Ht Ha) as HI.
  exact (i_out _ _ _ _ _ _ _ _ _ _ _ _ _ _ _ _ _ _ HI _ _ Hin).
Qed.

Theorem queued_at_detection pr o :
  p_panic pr = None -> queue_ok pr -> order_ok pr -> typed_state pr -> app_cmds_ok pr ->
  forall x, In x (t_queue (frame pr o)) -> opted pr x /\ (In x (t_queue pr) \/ detected_in pr o x).
Proof.
  intros Hp Hq Ho Ht Ha x Hin. pose proof (FInv_frame pr o Hp Hq Ho Ht Ha) as HI.
  exact (i_queue _ _ _ _ _ _ _ _ _ _ _ _ _ _ _ _ _ _ HI _ Hin).
Qed.

Lemma relayed_frame_typed pr o u t v :
  p_panic pr = None -> typed_state pr -> app_cmds_ok pr ->
  relayed (frame pr o) (MComp u t v) -> val_typed t v.
Proof. intros Hp Ht Ha Hr. eapply relayed_typed; [exact Ht|]. eapply relayed_frame; eassumption. Qed.

Theorem frame_preserves_hyps pr o :
  p_panic pr = None -> queue_ok pr -> order_ok pr -> typed_state pr -> app_cmds_ok pr ->
  queue_ok (frame pr o) /\ order_ok (frame pr o) /\ typed_state (frame pr o) /\ app_cmds_ok (frame pr o).
Proof.
  intros Hp Hq Ho Ht Ha. pose proof (FInv_frame pr o Hp Hq Ho Ht Ha) as HI.
  destruct (frame_config pr o) as (Ety & _ & _ & _ & _ & Eor).
  split; [|split; [|split]].
  - intros u t v Hin. destruct (i_queue _ _ _ _ _ _ _ _ _ _ _ _ _ _ _ _ _ _ HI _ Hin) as [(_ & Hw & Hs) _].
    split; [|exact Hs]. unfold wire_opted in *. rewrite Ety. exact Hw.
  - intros t Hin. rewrite Ety. apply Ho. rewrite <- Eor. exact Hin.
  - constructor.
    + intros e en t c Hl Hc. destruct (i_ents _ _ _ _ _ _ _ _ _ _ _ _ _ _ _ _ _ _ HI _ _ Hl) as (_ & _ & H).
      eapply H. exact Hc.
    + intros from l u t v Hl Hin. eapply relayed_typed; [exact Ht|].
      eapply (i_inbox _ _ _ _ _ _ _ _ _ _ _ _ _ _ _ _ _ _ HI); eassumption.
    + intros k cs c Hl Hin. pose proof (i_cmdq _ _ _ _ _ _ _ _ _ _ _ _ _ _ _ _ _ _ HI _ _ _ Hl Hin) as Hc.
      destruct c; simpl in *; try exact I; try tauto.
      destruct m; try exact I. eapply relayed_typed; eassumption.
    + intros n c Hin. apply (i_app _ _ _ _ _ _ _ _ _ _ _ _ _ _ _ _ _ _ HI _ _ Hin).
  - intros n c Hin. apply (i_app _ _ _ _ _ _ _ _ _ _ _ _ _ _ _ _ _ _ HI _ _ Hin).
Qed.

Theorem originated_components_opted_in pr o :
  p_panic pr = None -> queue_ok pr -> order_ok pr -> typed_state pr -> app_cmds_ok pr ->
  (forall dst u t v, In (dst, MComp u t v) (p_out (frame pr o)) ->
     relayed pr (MComp u t v) \/ (known pr u /\ wire_opted pr t /\ not_skin v)) /\
  queue_ok (frame pr o).
Proof.
  intros Hp Hq Ho Ht Ha. split; [|apply frame_preserves_hyps; assumption].
  intros dst u t v Hin.
  destruct (component_provenance pr o Hp Hq Ho Ht Ha _ _ _ _ Hin) as [H|[[H _]|H]];
    [left; exact H|right; exact H|right; exact H].
Qed.

(* unregistered component types are never originated *)
Corollary unregistered_type_never_originated pr o t :
  p_panic pr = None -> queue_ok pr -> order_ok pr -> typed_state pr -> app_cmds_ok pr ->
  ~ wire_opted pr t ->
  forall dst u v, In (dst, MComp u t v) (p_out (frame pr o)) -> relayed pr (MComp u t v).
Proof.
  intros Hp Hq Ho Ht Ha Hn dst u v Hin.
  destruct (proj1 (originated_components_opted_in pr o Hp Hq Ho Ht Ha) _ _ _ _ Hin) as [H|(_ & H & _)];
    [exact H|contradiction].
Qed.

(* every message this frame emits is well typed (no raw SkinnedMesh value travels) *)
Theorem out_typed pr o :
  p_panic pr = None -> queue_ok pr -> order_ok pr -> typed_state pr -> app_cmds_ok pr ->
  forall dst u t v, In (dst, MComp u t v) (p_out (frame pr o)) -> val_typed t v.
Proof.
  intros Hp Hq Ho Ht Ha dst u t v Hin.
  destruct (proj1 (originated_components_opted_in pr o Hp Hq Ho Ht Ha) _ _ _ _ Hin) as [H|(_ & _ & H)].
  - eapply relayed_typed; eassumption.
  - destruct v; simpl in *; [exact I|contradiction|exact I].
Qed.

(* always-excluded components: if at every point of the schedule where the detector of t runs all
   synchronised entities carrying t also carry SyncExclude<t>, that detector queues nothing *)
Definition excluded_at_detection (pr : peer_state) (o : frame_oracle) (t : tyid) : Prop :=
  forall pre post e en, p_order pr = pre ++ SDetect t :: post ->
    p_ents (frame_mid pr o pre) !! e = Some en -> is_Some (en_sync en) -> is_Some (en_comps en !! t) ->
    In t (en_excl en).

Theorem excluded_detector_silent pr o t :
  p_panic pr = None -> queue_ok pr -> order_ok pr -> typed_state pr -> app_cmds_ok pr ->
  excluded_at_detection pr o t ->
  forall x, In x (t_queue (frame pr o)) ->
    In x (t_queue pr) \/
    exists pre t0 post, t0 <> t /\ p_order pr = pre ++ SDetect t0 :: post /\
      detect_witness (frame_mid pr o pre) t0 x /\ (x.1.2 = t0 \/ (x.1.2 = T_MAPPER /\ t0 = T_SKIN)).
Proof.
  intros Hp Hq Ho Ht Ha Hex x Hin.
  destruct (queued_at_detection pr o Hp Hq Ho Ht Ha x Hin) as [_ [H|(pre & t0 & post & Hord & Hw & _ & Hty)]];
    [left; exact H|right].
  exists pre, t0, post. split; [|split; [exact Hord|split; [exact Hw|exact Hty]]].
  intros ->. destruct Hw as (e & en & c & Hl & Hs & Hc & Hne & _). apply Hne.
  eapply Hex; [exact Hord|exact Hl|eexists; exact Hs|eexists; exact Hc].
Qed.

Corollary excluded_type_not_queued pr o t :
  p_panic pr = None -> queue_ok pr -> order_ok pr -> typed_state pr -> app_cmds_ok pr ->
  excluded_at_detection pr o t -> t <> T_MAPPER ->
  forall u v, In (u, t, v) (t_queue (frame pr o)) -> In (u, t, v) (t_queue pr).
Proof.
  intros Hp Hq Ho Ht Ha Hex Hnm u v Hin.
  destruct (excluded_detector_silent pr o t Hp Hq Ho Ht Ha Hex _ Hin) as [H|(pre & t0 & post & Hne & _ & _ & Hty)];
    [exact H|]. cbn [fst snd] in Hty. destruct Hty as [H|[H _]]; congruence.
Qed.

Corollary excluded_skin_not_queued pr o :
  p_panic pr = None -> queue_ok pr -> order_ok pr -> typed_state pr -> app_cmds_ok pr ->
  excluded_at_detection pr o T_SKIN -> ~ In T_MAPPER (p_sync_types pr) ->
  forall u v, In (u, T_MAPPER, v) (t_queue (frame pr o)) -> In (u, T_MAPPER, v) (t_queue pr).
Proof.
  intros Hp Hq Ho Ht Ha Hex Hnm u v Hin.
  destruct (excluded_detector_silent pr o T_SKIN Hp Hq Ho Ht Ha Hex _ Hin)
    as [H|(pre & t0 & post & Hne & Hord & _ & Hty)]; [exact H|].
  cbn [fst snd] in Hty. destruct Hty as [H|[_ H]]; [|congruence].
  exfalso. apply Hnm. rewrite H. apply Ho. rewrite Hord. apply in_or_app. right. left. reflexivity.
Qed.

(* ---------- the emitting functions, on the state in which they run ----------------------------- *)

(* (1) what sync_detect::<t> adds to the queue: OptInLemmas.sync_detect_adds, restated *)
Theorem sync_detect_adds_opted pr t last u t' v :
  In (u, t', v) (t_queue (sync_detect pr t last)) ->
  In (u, t', v) (t_queue pr) \/
  exists e en, p_ents pr !! e = Some en /\ en_sync en = Some u /\ ~ In t (en_excl en) /\
    en_comps en !! t <> None /\
    (t' = t \/ (t' = T_MAPPER /\ exists c j p, en_comps en !! t = Some c /\ c_val c = VSkin j p)).
Proof.
  intros Hin. apply sync_detect_adds in Hin as [H|(e & en & c & Hl & Hs & Hc & Hne & Hm)]; [left; exact H|right].
  exists e, en. split; [exact Hl|]. split; [exact Hs|]. split; [exact Hne|]. split; [congruence|].
  cbn [fst snd] in Hm. destruct (c_val c) as [n|j p|j p] eqn:Ev; destruct Hm as [-> _].
  - left. reflexivity.
  - right. split; [reflexivity|]. exists c, j, p. split; assumption.
  - left. reflexivity.
Qed.

(* the snapshot sent to a joining client (build_full_sync), in the state in which it is built.
   Note: the uuid is read from entity_to_uuid, not from the SyncEntity component. *)
Theorem snapshot_opted pr m :
  In m (build_full_sync pr).2 ->
  match m with
  | MSpawn u => exists e en, p_ents pr !! e = Some en /\ is_Some (en_sync en) /\ t_e2u pr !! e = Some u
  | MParented u pu =>
      exists e en q tk, p_ents pr !! e = Some en /\ is_Some (en_sync en) /\ en_parent en = Some (q, tk) /\
        t_e2u pr !! e = Some u /\ t_e2u pr !! q = Some pu
  | MComp u t' v =>
      exists e en t c, p_ents pr !! e = Some en /\ is_Some (en_sync en) /\ t_e2u pr !! e = Some u /\
        en_comps en !! t = Some c /\ In t (p_sync_types pr) /\ ~ In t (en_excl en) /\
        match c_val c with
        | VSkin j p => t' = T_MAPPER /\ v = to_skinned_mapper pr j p
        | w => t' = t /\ v = w
        end
  | MMaterial _ _ => t_mat pr = true
  | MAsset c a owner =>
      class_enabled pr (KClass c) = true /\
      ((owner = p_id pr /\ ~ download_pending pr c a /\ exists v, a_store pr !! akey (KClass c) a = Some v) \/
       (In (a, owner) (pending_of pr c) /\ latest_owner pr c a owner))
  | _ => False
  end.
Proof.
  intros Hin. apply build_full_sync_msgs in Hin as [H|[H|[H|H]]].
  - destruct H as (e & en & Hl & Hin). apply snapshot_entity_msgs_In in Hin as (su & u & Hs & Hu & Hm).
    destruct Hm as [->|(t & c & Hc & Ht & Hne & ->)].
    + exists e, en. split; [exact Hl|]. split; [eexists; exact Hs|exact Hu].
    + destruct (c_val c) as [n|j p|j p] eqn:Ev; exists e, en, t, c; rewrite Ev;
        (split; [exact Hl|split; [eexists; exact Hs|split; [exact Hu|split; [exact Hc|split; [exact Ht|split; [exact Hne|split; reflexivity]]]]]]).
  - destruct H as (e & en & Hl & Hin).
    apply snapshot_parent_msgs_In in Hin as (su & q & tk & u & pu & Hs & Hp & Hu & Hq & ->).
    exists e, en, q, tk. split; [exact Hl|]. split; [eexists; exact Hs|]. split; [exact Hp|]. split; assumption.
  - destruct H as (Hm & a & v & ->). exact Hm.
  - destruct H as (c & a & o & Hc & -> & Hj). split; [exact Hc|].
    destruct Hj as [(-> & Hn & v & Hv)|Hp].
    + left. split; [reflexivity|]. split; [exact Hn|]. exists v. apply assets_of_kind_In. exact Hv.
    + right. split; [exact Hp|apply pending_of_latest; exact Hp].
Qed.

(* entity_created_on_server / _on_client announce exactly the newly marked entities *)
Lemma send_all_out pr ds m' d m : In (d, m) (p_out (send_all pr ds m')) -> In (d, m) (p_out pr) \/ m = m'.
Proof.
  unfold send_all. revert d m.
  apply (foldl_inv (fun a => forall d m, In (d, m) (p_out a) -> In (d, m) (p_out pr) \/ m = m')); [tauto|].
  intros a x _ Ha d m Hin. unfold send in Hin. cbn [p_out set] in Hin.
  apply in_app_or in Hin as [Hin|[Heq|[]]]; [apply Ha; exact Hin|right; congruence].
Qed.

Lemma send_up_out pr m' d m : In (d, m) (p_out (send_up pr m')) -> In (d, m) (p_out pr) \/ m = m'.
Proof.
  unfold send_up. destruct (n_cli_transport pr) as [[h ?]|]; [|tauto]. unfold send. cbn [p_out set].
  intros Hin. apply in_app_or in Hin as [Hin|[Heq|[]]]; [left; exact Hin|right; congruence].
Qed.

Theorem entity_created_out server pr k last d m :
  In (d, m) (p_out (entity_created server pr k last)) ->
  In (d, m) (p_out pr) \/ exists e en, p_ents pr !! e = Some en /\ en_mark en <> None /\ m = MSpawn e.
Proof.
  unfold entity_created. revert d m.
  apply (foldl_inv (fun a => forall d m, In (d, m) (p_out a) ->
           In (d, m) (p_out pr) \/ exists e en, p_ents pr !! e = Some en /\ en_mark en <> None /\ m = MSpawn e));
    [tauto|].
  intros a [e en] Hin Ha d m. destruct (newly_marked last en) eqn:Hn; [|apply Ha]. cbv zeta.
  assert (Hnew : exists e0 en0, p_ents pr !! e0 = Some en0 /\ en_mark en0 <> None /\ MSpawn e = MSpawn e0).
  { exists e, en. split; [apply In_map_to_list; exact Hin|]. split; [|reflexivity].
    unfold newly_marked in Hn. destruct (en_mark en); [discriminate|discriminate]. }
  destruct server.
  - change (In (d, m) (p_out (broadcast a (MSpawn e))) -> In (d, m) (p_out pr) \/
            exists e0 en0, p_ents pr !! e0 = Some en0 /\ en_mark en0 <> None /\ m = MSpawn e0).
    intros H. apply send_all_out in H as [H| ->]; [apply Ha; exact H|right; exact Hnew].
  - change (In (d, m) (p_out (send_up (a <| t_u2e := <[e := e]> (t_u2e a) |> <| t_e2u := <[e := e]> (t_e2u a) |>) (MSpawn e))) ->
            In (d, m) (p_out pr) \/
            exists e0 en0, p_ents pr !! e0 = Some en0 /\ en_mark en0 <> None /\ m = MSpawn e0).
    intros H. apply send_up_out in H as [H| ->]; [apply Ha; exact H|right; exact Hnew].
Qed.

(* ---------- application operations and the schedule hypothesis ---------------------------------- *)

Ltac dmi := match goal with |- context [match ?x with _ => _ end] =>
  lazymatch x with
  | context [match _ with _ => _ end] => fail
  | _ => destruct x eqn:?; cbv beta iota
  end end.

Lemma app_step_static pr op :
  p_order (app_step pr op) = match op with OSetOrder order => order | _ => p_order pr end /\
  p_sync_types (app_step pr op) = match op with OReg t => t :: removeN t (p_sync_types pr) | _ => p_sync_types pr end /\
  t_queue (app_step pr op) = t_queue pr /\ n_inbox (app_step pr op) = n_inbox pr /\
  p_cmdq (app_step pr op) = p_cmdq pr /\ p_out (app_step pr op) = p_out pr.
Proof.
  destruct op; unfold app_step; cbv zeta;
    unfold add_child, insert_asset, upd_ent, set_panic; cbv zeta;
    repeat dmi; repeat split; reflexivity.
Qed.

Lemma In_removeN_other x y l : In y l -> y <> x -> In y (removeN x l).
Proof.
  intros Hin Hne. unfold removeN. apply elem_of_list_In. apply elem_of_list_filter. split.
  - apply Is_true_true. apply negb_true_iff. apply N.eqb_neq. congruence.
  - apply elem_of_list_In. exact Hin.
Qed.

Lemma reg_mono t x l : In x l -> In x (t :: removeN t l).
Proof.
  intros Hin. destruct (N.eq_dec x t) as [->|Hne]; [left; reflexivity|right].
  apply In_removeN_other; assumption.
Qed.

(* order_ok is preserved by every application operation; for OSetOrder provided the new order
   only contains detectors of registered types (which is what the real schedule contains) *)
Theorem app_step_order_ok pr op :
  order_ok pr ->
  (forall order, op = OSetOrder order -> forall t, In (SDetect t) order -> In t (p_sync_types pr)) ->
  order_ok (app_step pr op).
Proof.
  intros Ho Hset t. destruct (app_step_static pr op) as (E1 & E2 & _). rewrite E1, E2.
  destruct op; try apply Ho.
  - intros Hin. apply reg_mono. apply Ho. exact Hin.
  - apply (Hset _ eq_refl).
Qed.

(* ---------- (5) all traces of the global system ------------------------------------------------- *)

(* t is opted in (as a wire type) on some peer of g *)
Definition registered_somewhere (g : global) (t : tyid) : Prop :=
  exists q prq, g !! q = Some prq /\ wire_opted prq t.

Definition msg_fine (T : tyid -> Prop) (m : msg) : Prop :=
  match m with MComp _ t v => T t /\ val_typed t v | _ => True end.

Record peer_fine (T : tyid -> Prop) (pr : peer_state) : Prop := {
  pf_queue : queue_ok pr;
  pf_order : order_ok pr;
  pf_typed : typed_state pr;
  pf_app : app_cmds_ok pr;
  pf_cmdq : p_panic pr = None -> p_cmdq pr = ∅;
  pf_relayed : forall m, relayed pr m -> msg_fine T m;
  pf_out : forall d m, In (d, m) (p_out pr) -> msg_fine T m;
}.

Definition all_fine (T : tyid -> Prop) (g : global) : Prop :=
  forall p pr, g !! p = Some pr -> peer_fine T pr.
Definition global_fine (g : global) : Prop := all_fine (registered_somewhere g) g.

(* the discipline of the application (what the harness generates): a schedule only contains the
   detectors of registered types; application systems only issue application commands; values
   are well typed *)
Definition op_ok (pr : peer_state) (op : app_op) : Prop :=
  match op with
  | OSetOrder order => forall t, In (SDetect t) order -> In t (p_sync_types pr)
  | OAppCmd _ c => is_app_cmd c /\ cmd_typed c
  | OSpawn _ _ comps => forall t v, In (t, v) comps -> val_typed t v
  | OWrite _ t v => val_typed t v
  | _ => True
  end.
Definition step_ok (g : global) (s : step) : Prop :=
  match s with
  | StApp p op => forall pr, g !! p = Some pr -> op_ok pr op
  | _ => True
  end.
Fixpoint trace_ok (g : global) (tr : list step) : Prop :=
  match tr with
  | [] => True
  | s :: tr' => step_ok g s /\ trace_ok (gstep g s) tr'
  end.

Lemma msg_fine_mono (T T' : tyid -> Prop) m : (forall t, T t -> T' t) -> msg_fine T m -> msg_fine T' m.
Proof. intros H. destruct m; simpl; try tauto. intros [? ?]. split; [apply H|]; assumption. Qed.

Lemma peer_fine_mono (T T' : tyid -> Prop) pr : (forall t, T t -> T' t) -> peer_fine T pr -> peer_fine T' pr.
Proof.
  intros H [H1 H2 H3 H4 Hc H5 H6]. constructor; try assumption.
  - intros m Hm. eapply msg_fine_mono; [exact H|apply H5; exact Hm].
  - intros d m Hm. eapply msg_fine_mono; [exact H|eapply H6; exact Hm].
Qed.

Lemma frame_fine (T : tyid -> Prop) pr o :
  peer_fine T pr -> (forall t, wire_opted pr t -> T t) -> peer_fine T (frame pr o).
Proof.
  intros Hf Hself. destruct (p_panic pr) eqn:Hp; [rewrite frame_panicked by congruence; exact Hf|].
  destruct Hf as [Hq Ho Ht Ha Hc Hr _].
  destruct (frame_preserves_hyps pr o Hp Hq Ho Ht Ha) as (Q1 & Q2 & Q3 & Q4).
  constructor; try assumption.
  - intros Hpf. apply frame_cmdq_empty; [exact Hp|apply Hc; exact Hp|exact Hpf].
  - intros m Hm. apply Hr. eapply relayed_frame; eassumption.
  - intros d m Hin. destruct m; try exact I.
    destruct (proj1 (originated_components_opted_in pr o Hp Hq Ho Ht Ha) _ _ _ _ Hin) as [H|(_ & Hw & Hs)].
    + apply Hr in H. exact H.
    + split; [apply Hself; exact Hw|]. destruct v; simpl in *; [exact I|contradiction|exact I].
Qed.

Definition ents_typed (m : gmap ent entity) : Prop :=
  forall e en t c, m !! e = Some en -> en_comps en !! t = Some c -> val_typed t (c_val c).

Lemma ents_typed_upd pr e f :
  ents_typed (p_ents pr) ->
  (forall en, (forall t c, en_comps en !! t = Some c -> val_typed t (c_val c)) ->
              forall t c, en_comps (f en) !! t = Some c -> val_typed t (c_val c)) ->
  ents_typed (p_ents (upd_ent pr e f)).
Proof.
  intros Ht Hf. unfold upd_ent. destruct (p_ents pr !! e) as [en0|] eqn:E; [|exact Ht].
  cbn [p_ents set]. intros e' en t c Hl Hc. destruct (decide (e' = e)) as [->|Hne].
  - rewrite lookup_insert in Hl. injection Hl as <-. eapply Hf; [|exact Hc]. intros t' c' Hc'. eapply Ht; eassumption.
  - rewrite lookup_insert_ne in Hl by congruence. eapply Ht; eassumption.
Qed.

Lemma put_comp_typed now t v en :
  val_typed t v -> (forall t' c, en_comps en !! t' = Some c -> val_typed t' (c_val c)) ->
  forall t' c, en_comps (put_comp now t v en) !! t' = Some c -> val_typed t' (c_val c).
Proof.
  intros Hv Hen t' c. unfold put_comp. destruct (en_comps en !! t) eqn:E; cbn [en_comps set]; intros Hl;
    (destruct (decide (t' = t)) as [->|Hne];
     [rewrite lookup_insert in Hl; injection Hl as <-; exact Hv
     |rewrite lookup_insert_ne in Hl by congruence; eapply Hen; eassumption]).
Qed.

Lemma set_panic_ents pr s : p_ents (set_panic pr s) = p_ents pr.
Proof. unfold set_panic. destruct (p_panic pr); reflexivity. Qed.

Lemma ents_typed_add_child pr p c : ents_typed (p_ents pr) -> ents_typed (p_ents (add_child pr p c)).
Proof.
  intros Ht. unfold add_child.
  destruct (negb (alive pr p)); [rewrite set_panic_ents; exact Ht|].
  destruct (p =? c); [rewrite set_panic_ents; exact Ht|]. cbv zeta.
  apply ents_typed_upd; [|intros en H; exact H].
  assert (H1 : ents_typed (p_ents (upd_ent pr c (fun en => en <| en_parent := Some (p, p_tick pr) |>))))
    by (apply ents_typed_upd; [exact Ht|intros en H; exact H]).
  repeat dmi; try exact H1. apply ents_typed_upd; [exact H1|intros en H; exact H].
Qed.

Lemma app_step_ents_typed pr op : ents_typed (p_ents pr) -> op_ok pr op -> ents_typed (p_ents (app_step pr op)).
Proof.
  intros Ht Hok. destruct op; unfold app_step; cbv zeta; try exact Ht.
  - (* OSpawn *) cbn [p_ents set]. intros e' en t c Hl Hc. destruct (decide (e' = e)) as [->|Hne].
    + rewrite lookup_insert in Hl. injection Hl as <-. revert t c Hc.
      simpl in Hok.
      refine (foldl_inv (fun en => forall t c, en_comps en !! t = Some c -> val_typed t (c_val c)) _ _ _ _ _).
      * intros t c Hc. cbn in Hc. rewrite lookup_empty in Hc. discriminate.
      * intros en [t v] Hin Hen. apply put_comp_typed; [eapply Hok; exact Hin|exact Hen].
    + rewrite lookup_insert_ne in Hl by congruence. eapply Ht; eassumption.
  - (* ODespawn *) cbn [p_ents set]. intros e' en t c Hl Hc. apply lookup_delete_Some in Hl as [_ Hl]. eapply Ht; eassumption.
  - apply ents_typed_upd; [exact Ht|intros en H; exact H].
  - apply ents_typed_upd; [exact Ht|]. intros en H. apply put_comp_typed; [exact Hok|exact H].
  - apply ents_typed_upd; [exact Ht|intros en H; exact H].
  - destruct (alive pr c); [apply ents_typed_add_child; exact Ht|exact Ht].
  - (* OSetup *) destruct host; exact Ht.
Qed.

Lemma app_step_app_cmds pr op :
  p_app_cmds (app_step pr op) = match op with OAppCmd n c => p_app_cmds pr ++ [(n, c)] | _ => p_app_cmds pr end.
Proof.
  destruct op; unfold app_step; cbv zeta;
    unfold add_child, insert_asset, upd_ent, set_panic; cbv zeta; repeat dmi; reflexivity.
Qed.

Lemma app_step_wire_opted pr op t : wire_opted pr t -> wire_opted (app_step pr op) t.
Proof.
  unfold wire_opted. destruct (app_step_static pr op) as (_ & E & _). rewrite E.
  destruct op; try tauto. intros [H|[H1 H2]]; [left|right; split; [exact H1|]]; apply reg_mono; assumption.
Qed.

Lemma relayed_ext pr pr' m : n_inbox pr' = n_inbox pr -> p_cmdq pr' = p_cmdq pr -> relayed pr' m -> relayed pr m.
Proof. unfold relayed. intros -> ->. tauto. Qed.

Lemma app_step_panic pr op : p_panic (app_step pr op) = None -> p_panic pr = None.
Proof.
  destruct op; unfold app_step; cbv zeta;
    unfold add_child, insert_asset, upd_ent, set_panic; cbv zeta; repeat dmi;
    intros H; first [exact H|simpl in H; congruence].
Qed.

Lemma app_step_fine (T : tyid -> Prop) pr op : peer_fine T pr -> op_ok pr op -> peer_fine T (app_step pr op).
Proof.
  intros [Hq Ho Ht Ha Hc Hr Hout] Hok.
  destruct (app_step_static pr op) as (E1 & E2 & E3 & E4 & E5 & E6).
  pose proof (app_step_app_cmds pr op) as E7.
  constructor.
  - intros u t v Hin. rewrite E3 in Hin. destruct (Hq _ _ _ Hin) as [Hw Hs]. split; [|exact Hs].
    apply app_step_wire_opted. exact Hw.
  - apply app_step_order_ok; [exact Ho|]. intros order ->. exact Hok.
  - destruct Ht as [T1 T2 T3 T4]. constructor.
    + apply app_step_ents_typed; assumption.
    + rewrite E4. exact T2.
    + rewrite E5. exact T3.
    + rewrite E7. destruct op; try exact T4. intros n' c' Hin. apply in_app_or in Hin as [Hin|[Heq|[]]].
      * eapply T4; exact Hin.
      * injection Heq as <- <-. apply Hok.
  - unfold app_cmds_ok. rewrite E7. destruct op; try exact Ha. intros n' c' Hin. apply in_app_or in Hin as [Hin|[Heq|[]]].
    + eapply Ha; exact Hin.
    + injection Heq as <- <-. apply Hok.
  - intros Hpn. rewrite E5. apply Hc. eapply app_step_panic; exact Hpn.
  - intros m Hm. apply Hr. eapply relayed_ext; [exact E4|exact E5|exact Hm].
  - rewrite E6. exact Hout.
Qed.

Lemma inbox_fine (T : tyid -> Prop) pd src (l' : list msg) :
  peer_fine T pd ->
  (forall m, In m l' -> In m (default [] (n_inbox pd !! src)) \/ msg_fine T m) ->
  peer_fine T (pd <| n_inbox := <[src := l']> (n_inbox pd) |>).
Proof.
  intros [Hq Ho Ht Ha Hc Hr Hout] Hl'.
  assert (Hnew : forall from l m, <[src := l']> (n_inbox pd) !! from = Some l -> In m l ->
                   (exists l0, n_inbox pd !! from = Some l0 /\ In m l0) \/ msg_fine T m).
  { intros from l m Hl Hin. destruct (decide (from = src)) as [->|Hne].
    - rewrite lookup_insert in Hl. injection Hl as <-. destruct (Hl' _ Hin) as [H|H]; [left|right; exact H].
      destruct (n_inbox pd !! src) as [l0|]; [exists l0; split; [reflexivity|exact H]|destruct H].
    - rewrite lookup_insert_ne in Hl by congruence. left. exists l. split; assumption. }
  constructor; try assumption.
  - destruct Ht as [T1 T2 T3 T4]. constructor; try assumption.
    intros from l u t v Hl Hin. cbn [n_inbox set] in Hl. destruct (Hnew _ _ _ Hl Hin) as [(l0 & H0 & H1)|[_ H]].
    + eapply T2; eassumption.
    + exact H.
  - intros m [(from & l & Hl & Hin)|Hpend].
    + cbn [n_inbox set] in Hl. destruct (Hnew _ _ _ Hl Hin) as [(l0 & H0 & H1)|H]; [|exact H].
      apply Hr. left. exists from, l0. split; assumption.
    + apply Hr. right. exact Hpend.
Qed.

Lemma deliver_out_fine (T : tyid -> Prop) g src out :
  all_fine T g -> (forall d m, In (d, m) out -> msg_fine T m) -> all_fine T (deliver_out g src out).
Proof.
  intros Hg Hout. unfold deliver_out. apply foldl_inv; [exact Hg|].
  intros g' [dst m] Hin Hg'. destruct (g' !! dst) as [pd|] eqn:E; [|exact Hg'].
  intros p pr Hl. unfold global in *. destruct (decide (p = dst)) as [->|Hne].
  - rewrite lookup_insert in Hl. injection Hl as <-. apply inbox_fine; [eapply Hg'; exact E|].
    intros m' Hm'. apply in_app_or in Hm' as [H|[<-|[]]]; [left; exact H|right]. eapply Hout; exact Hin.
  - rewrite lookup_insert_ne in Hl by congruence. eapply Hg'; exact Hl.
Qed.

(* registrations only grow along a step *)
Definition types_grow (g g' : global) : Prop :=
  forall q prq, g !! q = Some prq -> exists prq', g' !! q = Some prq' /\ forall t, wire_opted prq t -> wire_opted prq' t.

Lemma types_grow_refl g : types_grow g g.
Proof. intros q prq H. exists prq. split; [exact H|tauto]. Qed.

Lemma types_grow_trans g1 g2 g3 : types_grow g1 g2 -> types_grow g2 g3 -> types_grow g1 g3.
Proof.
  intros H12 H23 q prq H. destruct (H12 _ _ H) as (p2 & H2 & W2). destruct (H23 _ _ H2) as (p3 & H3 & W3).
  exists p3. split; [exact H3|]. intros t Ht. apply W3, W2, Ht.
Qed.

Lemma types_grow_reg g g' t : types_grow g g' -> registered_somewhere g t -> registered_somewhere g' t.
Proof. intros H (q & prq & Hq & Hw). destruct (H _ _ Hq) as (prq' & Hq' & W). exists q, prq'. split; [exact Hq'|apply W, Hw]. Qed.

Lemma types_grow_insert g p pr pr' :
  g !! p = Some pr -> (forall t, wire_opted pr t -> wire_opted pr' t) -> types_grow g (<[p := pr']> g).
Proof.
  intros Hp W q prq Hq. unfold global in *. destruct (decide (q = p)) as [->|Hne].
  - exists pr'. rewrite lookup_insert. split; [reflexivity|]. rewrite Hp in Hq. injection Hq as <-. exact W.
  - exists prq. rewrite lookup_insert_ne by congruence. split; [exact Hq|tauto].
Qed.

Lemma types_grow_deliver g src out : types_grow g (deliver_out g src out).
Proof.
  unfold deliver_out. apply (foldl_inv (fun g' => types_grow g g')); [apply types_grow_refl|].
  intros g' [dst m] _ Hg'. destruct (g' !! dst) as [pd|] eqn:E; [|exact Hg'].
  eapply types_grow_trans; [exact Hg'|]. eapply types_grow_insert; [exact E|]. intros t Ht. exact Ht.
Qed.

Lemma In_take {A} (x : A) n l : In x (take n l) -> In x l.
Proof. intros H. rewrite <- (take_drop n l). apply in_or_app. left. exact H. Qed.
Lemma In_drop {A} (x : A) n l : In x (drop n l) -> In x l.
Proof. intros H. rewrite <- (take_drop n l). apply in_or_app. right. exact H. Qed.

Lemma reorder_In (l : list msg) i j m : In m (reorder l i j) -> In m l.
Proof.
  unfold reorder. destruct (l !! i) as [mi|] eqn:E; [|tauto].
  destruct (Nat.leb j i && forallb (independent mi) (take (i - j) (drop j l))); [|tauto].
  intros H. apply in_app_or in H as [H|[<-|H]].
  - eapply In_take; exact H.
  - apply elem_of_list_In. eapply elem_of_list_lookup_2; exact E.
  - apply in_app_or in H as [H|H].
    + eapply In_drop, In_take, H.
    + eapply In_drop, H.
Qed.

Lemma all_fine_insert (T : tyid -> Prop) g p pr' : all_fine T g -> peer_fine T pr' -> all_fine T (<[p := pr']> g).
Proof.
  intros Hg Hp q prq Hq. unfold global in *. destruct (decide (q = p)) as [->|Hne].
  - rewrite lookup_insert in Hq. injection Hq as <-. exact Hp.
  - rewrite lookup_insert_ne in Hq by congruence. eapply Hg; exact Hq.
Qed.

Lemma gstep_fine g s : global_fine g -> step_ok g s -> global_fine (gstep g s).
Proof.
  intros Hg Hok. unfold global_fine.
  assert (Hmono : forall g', types_grow g g' -> all_fine (registered_somewhere g) g' ->
                        all_fine (registered_somewhere g') g').
  { intros g' Hgr Hf p pr Hp. eapply peer_fine_mono; [|eapply Hf; exact Hp].
    intros t. apply types_grow_reg. exact Hgr. }
  destruct s as [p op|p o|dst src i j]; unfold gstep.
  - destruct (g !! p) as [pr|] eqn:E; [|exact Hg]. apply Hmono.
    + eapply types_grow_insert; [exact E|]. intros t. apply app_step_wire_opted.
    + apply all_fine_insert; [exact Hg|]. apply app_step_fine; [eapply Hg; exact E|]. apply Hok. exact E.
  - destruct (g !! p) as [pr|] eqn:E; [|exact Hg]. cbv zeta.
    assert (Hfr : peer_fine (registered_somewhere g) (frame pr o)).
    { apply frame_fine; [eapply Hg; exact E|]. intros t Ht. exists p, pr. split; [exact E|exact Ht]. }
    apply Hmono.
    + eapply types_grow_trans; [|apply types_grow_deliver].
      eapply types_grow_insert; [exact E|]. intros t. unfold wire_opted.
      destruct (frame_config pr o) as (-> & _). tauto.
    + apply deliver_out_fine; [apply all_fine_insert; [exact Hg|exact Hfr]|].
      intros d m Hin. eapply pf_out; [exact Hfr|exact Hin].
  - destruct (g !! dst) as [pd|] eqn:E; [|exact Hg].
    destruct (n_inbox pd !! src) as [l|] eqn:El; [|exact Hg]. apply Hmono.
    + eapply types_grow_insert; [exact E|]. intros t Ht. exact Ht.
    + apply all_fine_insert; [exact Hg|]. apply inbox_fine; [eapply Hg; exact E|].
      intros m Hm. left. rewrite El. simpl. eapply reorder_In. exact Hm.
Qed.

Lemma init_peer_fine (T : tyid -> Prop) id : peer_fine T (init_peer id [] [] []).
Proof.
  constructor.
  - intros u t v [].
  - intros t [].
  - constructor.
    + intros e en t c Hl. cbn in Hl. rewrite lookup_empty in Hl. discriminate.
    + intros from l u t v Hl. cbn in Hl. rewrite lookup_empty in Hl. discriminate.
    + intros k cs c Hl. cbn in Hl. rewrite lookup_empty in Hl. discriminate.
    + intros n c [].
  - intros n c [].
  - intros _. reflexivity.
  - intros m [(from & l & Hl & _)|(k & cs & c & Hl & _)]; cbn in Hl; rewrite lookup_empty in Hl; discriminate.
  - intros d m [].
Qed.

Lemma init_global_fine n : global_fine (init_global n).
Proof.
  unfold global_fine. generalize (registered_somewhere (init_global n)). intros T.
  unfold init_global. apply foldl_inv.
  - intros p pr Hl. unfold global in *. rewrite lookup_empty in Hl. discriminate.
  - intros g i _ Hg. cbv zeta. apply all_fine_insert; [exact Hg|apply init_peer_fine].
Qed.

Lemma grun_fine tr : forall g, global_fine g -> trace_ok g tr -> global_fine (grun g tr).
Proof.
  induction tr as [|s tr IH]; intros g Hg Hok; [exact Hg|].
  destruct Hok as [H1 H2]. simpl. apply IH; [apply gstep_fine; assumption|exact H2].
Qed.

(* In every state reachable from the initial one under the application discipline, a component
   message that sits in an inbox, is about to be relayed, or was just emitted, has a (wire) type that
   is registered with sync_component on some peer and is well typed; every peer satisfies the
   hypotheses of the per-frame theorems. *)
Theorem C04_global n tr :
  trace_ok (init_global n) tr -> global_fine (grun (init_global n) tr).
Proof. intros Hok. apply grun_fine; [apply init_global_fine|exact Hok]. Qed.

Corollary C04_inbox_registered n tr p pr src l u t v :
  trace_ok (init_global n) tr ->
  grun (init_global n) tr !! p = Some pr -> n_inbox pr !! src = Some l -> In (MComp u t v) l ->
  registered_somewhere (grun (init_global n) tr) t.
Proof.
  intros Hok Hp Hl Hin. pose proof (C04_global n tr Hok p pr Hp) as Hf.
  apply (pf_relayed _ _ Hf (MComp u t v)). left. exists src, l. split; assumption.
Qed.

(* item (2) read literally, on the reachable states: a component message emitted by a frame of a
   (non-panicked) peer is a copy of a message of one of its inboxes, or is opted in on that peer *)
Corollary C04_frame_of_reachable n tr p pr o :
  trace_ok (init_global n) tr -> grun (init_global n) tr !! p = Some pr -> p_panic pr = None ->
  forall dst u t v, In (dst, MComp u t v) (p_out (frame pr o)) ->
    (exists from l, n_inbox pr !! from = Some l /\ In (MComp u t v) l) \/
    (known pr u /\ wire_opted pr t /\ not_skin v).
Proof.
  intros Hok Hp Hpn dst u t v Hin. destruct (C04_global n tr Hok p pr Hp) as [Hq Ho Ht Ha Hc _ _].
  destruct (proj1 (originated_components_opted_in pr o Hpn Hq Ho Ht Ha) _ _ _ _ Hin) as [H|H]; [left|right; exact H].
  apply relayed_inbox; [apply Hc; exact Hpn|exact H].
Qed.

(* a component type that no peer registers never travels *)
Corollary C04_unregistered_never_travels n tr t :
  trace_ok (init_global n) tr ->
  (forall q prq, grun (init_global n) tr !! q = Some prq -> ~ wire_opted prq t) ->
  forall p pr src l u v, grun (init_global n) tr !! p = Some pr -> n_inbox pr !! src = Some l ->
    ~ In (MComp u t v) l.
Proof.
  intros Hok Hno p pr src l u v Hp Hl Hin.
  destruct (C04_inbox_registered n tr p pr src l u t v Hok Hp Hl Hin) as (q & prq & Hq & Hw).
  exact (Hno _ _ Hq Hw).
Qed.

(* The global statement.  Messages of the model carry no origin, so "registered on its ORIGINATOR"
   is not expressible over grun without a ghost origin threaded through the relays; what is proved
   is "registered on some peer of the session" (registrations never shrink, so this is the peer that
   originated it or a later registration elsewhere), together with C04_frame_of_reachable, which
   says for every frame of every reachable peer that what is not a copy of an inbox message is
   opted in on the emitting peer itself. *)
Definition C04_global_statement : Prop :=
  forall n tr, trace_ok (init_global n) tr ->
  forall p pr src l u t v, grun (init_global n) tr !! p = Some pr -> n_inbox pr !! src = Some l ->
    In (MComp u t v) l ->
    exists origin pro, grun (init_global n) tr !! origin = Some pro /\ wire_opted pro t.
Theorem C04_global_statement_holds : C04_global_statement.
Proof. intros n tr Hok p pr src l u t v Hp Hl Hin. eapply C04_inbox_registered; eassumption. Qed.

(* ---------- non-vacuity ---------------------------------------------------------------------------- *)

Definition ex_ent (sync : option uuid) (mark : option tick) (comps : list (tyid * value)) (excl : list tyid) : entity :=
  {| en_mark := mark; en_sync := sync; en_sync_added := 0;
     en_comps := list_to_map ((fun '(t, v) => (t, {| c_val := v; c_added := 5; c_changed := 5 |})) <$> comps);
     en_excl := excl; en_parent := None; en_children := [] |}.

(* a connected host with one client (7): T_A is registered, T_B is not; entity 1 is synchronised
   and carries both; entity 2 is synchronised, carries T_A and SyncExclude<T_A>; entity 3 carries
   T_A but was never marked *)
Definition ex_state : peer_state :=
  (init_peer 0 [T_A] [T_A; T_B] [SDetect T_A; SSrvReact; SSync])
    <| p_ents := list_to_map [(1, ex_ent (Some 1) None [(T_A, VN 5); (T_B, VN 7)] []);
                              (2, ex_ent (Some 2) None [(T_A, VN 6)] [T_A]);
                              (3, ex_ent None None [(T_A, VN 8)] [])] |>
    <| t_u2e := list_to_map [(1, 1); (2, 2)] |> <| t_e2u := list_to_map [(1, 1); (2, 2)] |>
    <| p_tick := 10 |> <| n_setup := true |> <| n_srv_transport := Some 1 |> <| s_server := SrvConnected |>.
Definition ex_oracle : frame_oracle :=
  {| fo_conn_events := []; fo_clients := [7]; fo_status := None; fo_srv_poll := []; fo_cli_poll := 0%nat;
     fo_downloads := [] |}.

(* one frame emits exactly the one allowed update *)
Example ex_out : p_out (frame ex_state ex_oracle) = [(7, MComp 1 T_A (VN 5))].
Proof. vm_compute. reflexivity. Qed.

Ltac lookup_cases H :=
  apply elem_of_map_to_list in H; apply elem_of_list_In in H; vm_compute in H;
  repeat (destruct H as [H|H]; [inversion H; subst; clear H|]); try contradiction.

Example ex_typed : typed_state ex_state.
Proof.
  constructor.
  - intros e en t c He Hc. lookup_cases He; lookup_cases Hc; exact I.
  - intros from l u t v Hl. vm_compute in Hl. discriminate.
  - intros k cs c Hl. vm_compute in Hl. discriminate.
  - intros n c [].
Qed.

Example ex_hyps :
  p_panic ex_state = None /\ queue_ok ex_state /\ order_ok ex_state /\ typed_state ex_state /\
  app_cmds_ok ex_state.
Proof.
  split; [reflexivity|]. split; [intros u t v []|]. split; [|split; [exact ex_typed|intros n c []]].
  intros t [H|[H|[H|[]]]]; try discriminate. injection H as <-. left. reflexivity.
Qed.

Example ex_unregistered : ~ wire_opted ex_state T_B.
Proof. intros [[H|[]]|[H _]]; discriminate. Qed.

Example ex_unknown : ~ known ex_state 3 /\ t_e2u ex_state !! 3 = None /\ ~ marked ex_state 3 /\
                     3 < p_next_ent ex_state.
Proof.
  split; [|split; [reflexivity|split; [|reflexivity]]].
  - intros [(e & H)|[(e & H)|[(e & en & H & Hs)|[(en & H & Hm)|[(t & v & [])|[Hr|(k & cs & e & H & _)]]]]]].
    + vm_compute in H. discriminate.
    + lookup_cases H.
    + lookup_cases H; vm_compute in Hs; discriminate.
    + vm_compute in H. inversion H; subst. apply Hm. reflexivity.
    + destruct Hr as [(from & l & H & _)|(k & cs & c & H & _)]; vm_compute in H; discriminate.
    + vm_compute in H. discriminate.
  - intros (en & H & Hm). vm_compute in H. inversion H; subst. apply Hm. reflexivity.
Qed.

(* the detector of T_A finds entity 2 excluded at the (only) point where it runs *)
Example ex_excluded_entity :
  exists en, p_ents (frame_mid ex_state ex_oracle []) !! 2 = Some en /\ en_sync en = Some 2 /\
             In T_A (en_excl en) /\ is_Some (en_comps en !! T_A).
Proof. eexists. split; [vm_compute; reflexivity|]. split; [reflexivity|]. split; [left; reflexivity|]. vm_compute. eauto. Qed.

(* typed_state cannot be dropped: values are untyped in the model, and a SkinnedMesh value stored
   under a registered plain type leaves as T_MAPPER although T_SKIN is not registered (cannot
   happen in Rust, where the value determines the component type) *)
Definition ex_untyped : peer_state :=
  ex_state <| p_ents := list_to_map [(1, ex_ent (Some 1) None [(T_A, VSkin [] [])] [])] |>.
Example untyped_skin_leaks_mapper :
  p_out (frame ex_untyped ex_oracle) = [(7, MComp 1 T_MAPPER (VMapper [] []))] /\
  ~ wire_opted ex_untyped T_MAPPER.
Proof. split; [vm_compute; reflexivity|]. intros [[H|[]]|[_ [H|[]]]]; discriminate. Qed.

(* assets: the default material (asset 0) was modified; it leaves only if materials are enabled *)
Definition ex_assets (mat : bool) : peer_state :=
  ex_state <| p_order := [SSrvMat] |> <| a_ready := [(KMaterial, 0)] |> <| t_mat := mat |>.
Example ex_assets_on : p_out (frame (ex_assets true) ex_oracle) = [(7, MMaterial 0 500)].
Proof. vm_compute. reflexivity. Qed.
Example ex_assets_off : p_out (frame (ex_assets false) ex_oracle) = [].
Proof. vm_compute. reflexivity. Qed.
Example ex_assets_hyps b : p_panic (ex_assets b) = None /\ app_cmds_ok (ex_assets b).
Proof. split; [reflexivity|intros n c []]. Qed.

(* assets under download: the host (0) was told by client 7 to fetch mesh 9 from 7's endpoint and the
   download is not applied yet; a joining client (8) is sent the snapshot in this frame.  Mesh 4, which
   the host holds, is announced at the host's endpoint, mesh 9 at the endpoint of 7 *)
Definition ex_pending : peer_state :=
  ex_state <| p_order := [SSync] |> <| t_mesh := true |>
           <| a_store := {[ akey (KClass AMesh) 4 := 44 ]} |>
           <| d_pending := [(AMesh, 9, 7)] |>
           <| p_cmdq := {[ sys_key SSync := [CSendInitialSync 8] ]} |>.
Example ex_pending_out :
  p_out (frame ex_pending ex_oracle) =
    [(8, MSpawn 1); (8, MSpawn 2); (8, MComp 1 T_A (VN 5));
     (8, MAsset AMesh 4 0); (8, MAsset AMesh 9 7); (8, MFinInit)].
Proof. vm_compute. reflexivity. Qed.

(* the justification of originated_assets_enabled as it was before the repair of S26 ("... and
   owner = p_id pr") does not hold any more: the announcement of mesh 9 is no copy of a received message
   still held, and names another peer's endpoint *)
Example own_endpoint_only_refuted :
  exists pr o dst c a owner,
    p_panic pr = None /\ app_cmds_ok pr /\ In (dst, MAsset c a owner) (p_out (frame pr o)) /\
    ~ relayed pr (MAsset c a owner) /\ owner <> p_id pr /\
    class_enabled pr (KClass c) = true /\ downloading pr c a owner.
Proof.
  exists ex_pending, ex_oracle, 8, AMesh, 9, 7.
  split; [reflexivity|]. split; [intros n c []|]. split; [rewrite ex_pending_out; cbn; tauto|].
  split; [|split; [discriminate|split; [reflexivity|left; reflexivity]]].
  intros [(from & l & Hl & _)|(k & cs & c & Hl & Hin & Hr)].
  - vm_compute in Hl. discriminate.
  - change (p_cmdq ex_pending) with ({[ sys_key SSync := [CSendInitialSync 8] ]} : gmap N (list cmd)) in Hl.
    apply lookup_singleton_Some in Hl as [_ <-]. destruct Hin as [<-|[]]. exact Hr.
Qed.

(* a trace of the global system that satisfies the discipline and makes a component travel *)
Definition ex_o1 : frame_oracle :=
  {| fo_conn_events := []; fo_clients := [1]; fo_status := None; fo_srv_poll := []; fo_cli_poll := 0%nat;
     fo_downloads := [] |}.
Definition ex_trace : list step :=
  [StApp 0 (OReg T_A);
   StApp 0 (OSetOrder [SSrvConnected; SSrvCreated; SSync; SDetect T_A; SSrvReact]);
   StApp 0 (OSetup true 0);
   StApp 0 (OSpawn 1 true [(T_A, VN 5); (T_B, VN 7)]);
   StApp 0 (OSpawn 2 false [(T_A, VN 6)]);
   StFrame 0 ex_o1; StFrame 0 ex_o1].

Example ex_trace_delivers :
  match grun (init_global 2) ex_trace !! 1 with Some pr => inbox_of pr 0 | None => [] end
  = [MSpawn 1; MComp 1 T_A (VN 5)].
Proof. vm_compute. reflexivity. Qed.

(* a boolean checker of the discipline, to validate concrete traces by computation *)
Definition val_typedb (t : tyid) (v : value) : bool :=
  match v with VSkin _ _ => t =? T_SKIN | _ => true end.
Definition op_okb (pr : peer_state) (op : app_op) : bool :=
  match op with
  | OSetOrder order =>
      forallb (fun s => match s with SDetect t => memN t (p_sync_types pr) | _ => true end) order
  | OAppCmd _ c =>
      match c with
      | CAppDespawnUuid _ | CAppDespawn _ => true
      | CAppInsert _ t v => val_typedb t v
      | _ => false
      end
  | OSpawn _ _ comps => forallb (fun x : tyid * value => val_typedb x.1 x.2) comps
  | OWrite _ t v => val_typedb t v
  | _ => true
  end.
Fixpoint trace_okb (g : global) (tr : list step) : bool :=
  match tr with
  | [] => true
  | s :: tr' =>
      match s with
      | StApp p op => match g !! p with Some pr => op_okb pr op | None => true end
      | _ => true
      end && trace_okb (gstep g s) tr'
  end.

Lemma val_typedb_sound t v : val_typedb t v = true -> val_typed t v.
Proof. destruct v; simpl; try (intros; exact I). apply N.eqb_eq. Qed.

Lemma op_okb_sound pr op : op_okb pr op = true -> op_ok pr op.
Proof.
  destruct op; simpl; try (intros; exact I).
  - intros H t v Hin. rewrite forallb_forall in H. apply val_typedb_sound. exact (H (t, v) Hin).
  - apply val_typedb_sound.
  - destruct c; try discriminate; intros H; (split; [exact I|]); simpl; try exact I. apply val_typedb_sound. exact H.
  - intros H t Hin. rewrite forallb_forall in H. apply memN_In. exact (H _ Hin).
Qed.

Lemma trace_okb_sound tr : forall g, trace_okb g tr = true -> trace_ok g tr.
Proof.
  induction tr as [|s tr IH]; intros g H; [exact I|]. simpl in H. apply andb_true_iff in H as [H1 H2].
  split; [|apply IH; exact H2]. destruct s; try exact I. intros pr Hp. unfold global in *. rewrite Hp in H1.
  apply op_okb_sound. exact H1.
Qed.

Example ex_trace_ok : trace_ok (init_global 2) ex_trace.
Proof. apply trace_okb_sound. vm_compute. reflexivity. Qed.

(* `~ known pr e` cannot be weakened to "e is unmarked, unsynchronised and not a key of
   entity_to_uuid": uuids of remote entities live in the same number space as local entity ids, and
   the tracker may hold uuid 3 for the (despawned) local copy 9 of a remote entity *)
Definition ex_collision : peer_state :=
  ex_state <| p_order := [SSrvRemoved] |> <| t_e2u := {[ 9 := 3 ]} |> <| t_u2e := {[ 3 := 9 ]} |>.
Example never_marked_needs_unknown :
  (exists en, p_ents ex_collision !! 3 = Some en /\ en_mark en = None /\ en_sync en = None) /\
  t_e2u ex_collision !! 3 = None /\
  p_out (frame ex_collision ex_oracle) = [(7, MDelete 3)] /\
  ~ relayed ex_collision (MDelete 3).
Proof.
  split; [eexists; split; [vm_compute; reflexivity|split; reflexivity]|].
  split; [reflexivity|]. split; [vm_compute; reflexivity|].
  intros [(from & l & H & _)|(k & cs & c & H & _)]; vm_compute in H; discriminate.
Qed.

(* the corollaries applied to the examples *)
Example ex_unregistered_silent dst u v :
  In (dst, MComp u T_B v) (p_out (frame ex_state ex_oracle)) -> relayed ex_state (MComp u T_B v).
Proof.
  destruct ex_hyps as (H1 & H2 & H3 & H4 & H5).
  exact (unregistered_type_never_originated ex_state ex_oracle T_B H1 H2 H3 H4 H5 ex_unregistered dst u v).
Qed.

Example ex_unmarked_silent :
  (forall dst, ~ In (dst, MSpawn 3) (p_out (frame ex_state ex_oracle))) /\
  t_e2u (frame ex_state ex_oracle) !! 3 = None.
Proof.
  destruct ex_hyps as (H1 & _ & _ & _ & H5). destruct ex_unknown as (K1 & K2 & K3 & K4). split.
  - apply (never_marked_never_sent ex_state ex_oracle 3 H1 H5 K1).
  - exact (unmarked_stays_untracked ex_state ex_oracle 3 H1 H5 K2 K3 K4).
Qed.

Print Assumptions frame_config.
Print Assumptions sync_detect_adds_opted.
Print Assumptions snapshot_opted.
Print Assumptions component_provenance.
Print Assumptions originated_components_opted_in.
Print Assumptions originated_assets_enabled.
Print Assumptions own_endpoint_only_refuted.
Print Assumptions originated_subjects_known.
Print Assumptions never_marked_never_sent.
Print Assumptions unmarked_stays_untracked.
Print Assumptions excluded_detector_silent.
Print Assumptions frame_preserves_hyps.
Print Assumptions app_step_order_ok.
Print Assumptions frame_cmdq_empty.
Print Assumptions C04_global.
Print Assumptions C04_frame_of_reachable.
Print Assumptions C04_unregistered_never_travels.
Print Assumptions ex_trace_ok.
