(* C04 "Only opted-in data ever leaves a peer".

   What a peer ORIGINATES in one frame (all states, all schedule orders, all oracles):
   - a component update only for a type registered with sync_component on that peer
     (p_sync_types; SkinnedMesh travels as T_MAPPER and needs T_SKIN registered), about a uuid the
     sync machinery of that peer knows, detected on an entity that carries SyncEntity{uuid} and
     no SyncExclude<T> in the very state in which the detector ran;
   - an asset update only if the class of the asset is enabled on that peer;
   - entity messages only about uuids of marked / synchronised / tracked entities.
   Messages a host merely relays (relay_except in server_received, CRelay, CApplyComp (Some _),
   CSetParentSrv, CApplyMaterial (Some _)) are copies of received messages: `relayed`.

   The walk through the model is in OptInLemmas.v (a generic frame invariant); this file
   instantiates it three times (trivially: configuration is constant; lightly: assets, entity
   messages; fully: component types) and lifts the result to all traces of the global system. *)
From stdpp Require Import gmap list.
From Coq Require Import NArith Lia.
From RecordUpdate Require Import RecordSet.
From BS Require Import Sync.Types Sync.Model Sync.Observe Sync.Proofs.OptInLemmas.
Import RecordSetNotations.
Local Open Scope N_scope.

(* ---------- vocabulary --------------------------------------------------------------------- *)

(* m was received by pr and not yet (completely) handled: it sits in an inbox, or in a deferred
   command that will re-send it to the other clients *)
Definition relayed (pr : peer_state) (m : msg) : Prop :=
  (exists from l, n_inbox pr !! from = Some l /\ In m l) \/
  (exists k cs c, p_cmdq pr !! k = Some cs /\ In c cs /\ cmd_relays c m).

(* u is the uuid of something the sync machinery of pr already deals with: a tracked uuid, the
   SyncEntity of an entity, a marked entity (whose uuid will be its id), a queued change, an
   announced spawn *)
Definition known (pr : peer_state) (u : uuid) : Prop :=
  (exists e, t_u2e pr !! u = Some e) \/
  (exists e, t_e2u pr !! e = Some u) \/
  (exists e en, p_ents pr !! e = Some en /\ en_sync en = Some u) \/
  (exists en, p_ents pr !! u = Some en /\ en_mark en <> None) \/
  (exists t v, In (u, t, v) (t_queue pr)) \/
  relayed pr (MSpawn u) \/
  (exists k cs e, p_cmdq pr !! k = Some cs /\ (In (CSpawnSync e u) cs \/ In (CInsertSync e u) cs)).

Definition marked (pr : peer_state) (e : ent) : Prop :=
  exists en, p_ents pr !! e = Some en /\ en_mark en <> None.
Definition key_ok (pr : peer_state) (e : ent) : Prop :=
  is_Some (t_e2u pr !! e) \/ marked pr e \/ p_next_ent pr <= e.

(* the wire type t is opted in on pr *)
Definition wire_opted (pr : peer_state) (t : tyid) : Prop :=
  In t (p_sync_types pr) \/ (t = T_MAPPER /\ In T_SKIN (p_sync_types pr)).

Definition queue_ok (pr : peer_state) : Prop :=
  forall u t v, In (u, t, v) (t_queue pr) -> wire_opted pr t /\ not_skin v.

(* A detector system exists only for registered types: sync_component::<T>() is what adds
   sync_detect::<T> to the schedule.  The harness reads p_order from the real schedule, so this
   hypothesis is discharged by the schedule audit; it is preserved by every application
   operation except OSetOrder (app_step_order_ok below). *)
Definition order_ok (pr : peer_state) : Prop :=
  forall t, In (SDetect t) (p_order pr) -> In t (p_sync_types pr).

Definition is_app_cmd (c : cmd) : Prop :=
  match c with CAppDespawnUuid _ | CAppDespawn _ | CAppInsert _ _ _ => True | _ => False end.
Definition app_cmds_ok (pr : peer_state) : Prop :=
  forall n c, In (n, c) (p_app_cmds pr) -> is_app_cmd c.

(* values are untyped in the model; in Rust a SkinnedMesh value can only sit in the SkinnedMesh
   component.  `typed_state` says so for everything pr holds. *)
Definition cmd_typed (c : cmd) : Prop :=
  match c with
  | CApplyComp _ _ _ t v | CAppInsert _ t v | CRelay _ (MComp _ t v) => val_typed t v
  | _ => True
  end.
Record typed_state (pr : peer_state) : Prop := {
  ts_ents : forall e en t c, p_ents pr !! e = Some en -> en_comps en !! t = Some c -> val_typed t (c_val c);
  ts_inbox : forall from l u t v, n_inbox pr !! from = Some l -> In (MComp u t v) l -> val_typed t v;
  ts_cmdq : forall k cs c, p_cmdq pr !! k = Some cs -> In c cs -> cmd_typed c;
  ts_app : forall n c, In (n, c) (p_app_cmds pr) -> cmd_typed c;
}.

(* x was queued by the detector of a registered type t, at the point of the schedule where that
   detector ran, from an entity carrying SyncEntity{uuid = x.1.1}, the component, and no
   SyncExclude<t> in that state *)
Definition detected_in (pr : peer_state) (o : frame_oracle) (x : uuid * tyid * value) : Prop :=
  exists pre t post, p_order pr = pre ++ SDetect t :: post /\
    detect_witness (frame_mid pr o pre) t x /\ In t (p_sync_types pr) /\
    (x.1.2 = t \/ (x.1.2 = T_MAPPER /\ t = T_SKIN)).

Definition opted (pr : peer_state) (x : uuid * tyid * value) : Prop :=
  known pr x.1.1 /\ wire_opted pr x.1.2 /\ not_skin x.2.

Definition Qf (pr : peer_state) (o : frame_oracle) (x : uuid * tyid * value) : Prop :=
  opted pr x /\ (In x (t_queue pr) \/ detected_in pr o x).

(* ---------- the three instances of the invariant ---------------------------------------------- *)

Definition TInv (pr : peer_state) : peer_state -> Prop :=
  Inv (p_sync_types pr) (t_mat pr) (t_mesh pr) (t_audio pr) (p_id pr) (p_order pr)
      (fun _ => True) (fun _ => True) (fun _ => True) (fun _ => True) 0 (fun _ => True)
      (fun _ _ => True) True (fun _ => True).

Definition LInv (pr : peer_state) : peer_state -> Prop :=
  Inv (p_sync_types pr) (t_mat pr) (t_mesh pr) (t_audio pr) (p_id pr) (p_order pr)
      (relayed pr) (known pr) (marked pr) (key_ok pr) (p_next_ent pr) (fun x => known pr x.1.1)
      (fun _ _ => True) True is_app_cmd.

Definition FInv (pr : peer_state) (o : frame_oracle) : peer_state -> Prop :=
  Inv (p_sync_types pr) (t_mat pr) (t_mesh pr) (t_audio pr) (p_id pr) (p_order pr)
      (relayed pr) (known pr) (marked pr) (key_ok pr) (p_next_ent pr) (Qf pr o)
      val_typed (In T_SKIN (p_sync_types pr)) (fun c => is_app_cmd c /\ cmd_typed c).

Lemma relayed_typed pr u t v : typed_state pr -> relayed pr (MComp u t v) -> val_typed t v.
Proof.
  intros Ht [(from & l & Hl & Hin)|(k & cs & c & Hl & Hin & Hr)].
  - eapply ts_inbox; eassumption.
  - pose proof (ts_cmdq pr Ht _ _ _ Hl Hin) as Hc.
    destruct c; simpl in Hr; try contradiction.
    + destruct from; [|contradiction]. injection Hr as <- <- <-. exact Hc.
    + discriminate.
    + destruct from; [discriminate|contradiction].
    + subst m. exact Hc.
Qed.

Lemma pending_cmd_ok pr (vt : tyid -> value -> Prop) k cs c :
  p_cmdq pr !! k = Some cs -> In c cs ->
  (forall e u t v from, c = CApplyComp from e u t v -> vt t v) ->
  (forall e t v, c = CAppInsert e t v -> vt t v) ->
  cmd_ok (relayed pr) (known pr) vt c.
Proof.
  intros Hl Hin H1 H2.
  assert (Hrel : forall m, cmd_relays c m -> relayed pr m).
  { intros m Hm. right. exists k, cs, c. repeat split; assumption. }
  destruct c; simpl; try exact I.
  - do 6 right. exists k, cs, e. split; [exact Hl|left; exact Hin].
  - do 6 right. exists k, cs, e. split; [exact Hl|right; exact Hin].
  - split; [|eapply H1; reflexivity]. intros Hf. apply Hrel. destruct from; [reflexivity|congruence].
  - apply Hrel. reflexivity.
  - intros Hf. apply Hrel. destruct from; [reflexivity|congruence].
  - apply Hrel. reflexivity.
  - eapply H2. reflexivity.
Qed.

Lemma app_cmd_ok_any (inb : msg -> Prop) (kn : uuid -> Prop) (vt : tyid -> value -> Prop) c :
  is_app_cmd c -> (forall e t v, c = CAppInsert e t v -> vt t v) -> cmd_ok inb kn vt c.
Proof. intros Ha Hv. destruct c; simpl in *; try contradiction; try exact I. eapply Hv. reflexivity. Qed.

Lemma TInv_frame pr o : p_panic pr = None -> TInv pr (frame pr o).
Proof.
  intros Hp. unfold TInv. apply Inv_frame; try (intros; exact I); try exact Hp.
  - intros c _. destruct c; simpl; try exact I; tauto.
  - constructor; try reflexivity; try (intros; exact I); try (intros; repeat split; exact I).
    + intros d m [].
    + intros k cs c _ _. destruct c; simpl; try exact I; tauto.
    + apply N.le_0_l.
Qed.

Lemma LInv_start pr : app_cmds_ok pr -> LInv pr (pr <| p_out := [] |>).
Proof.
  intros Ha. constructor; try reflexivity.
  - intros d m [].
  - intros k cs c Hl Hin. eapply pending_cmd_ok; try eassumption; intros; exact I.
  - exact Ha.
  - intros [[u t] v] Hin. do 4 right. left. exists t, v. exact Hin.
  - intros from l m Hl Hin. left. exists from, l. split; assumption.
  - intros u e Hl. left. exists e. exact Hl.
  - intros e u Hl. split; [right; left; exists e; exact Hl|left; exists u; exact Hl].
  - intros e en Hl. split; [|split].
    + intros u Hu. do 2 right. left. exists e, en. split; assumption.
    + intros Hm. exists en. split; assumption.
    + intros; exact I.
Qed.

Lemma LInv_frame pr o : p_panic pr = None -> app_cmds_ok pr -> LInv pr (frame pr o).
Proof.
  intros Hp Ha. unfold LInv. apply Inv_frame; try (intros; exact I); try exact Hp.
  - intros u Hu. do 5 right. left. exact Hu.
  - intros e He. do 3 right. left. exact He.
  - intros e He. right. left. exact He.
  - intros e He. right. right. exact He.
  - intros c Hc. apply app_cmd_ok_any; [exact Hc|intros; exact I].
  - apply LInv_start. exact Ha.
  - intros pre t post x _ HI (e & en & c & Hl & Hs & _).
    destruct (i_ents _ _ _ _ _ _ _ _ _ _ _ _ _ _ _ _ HI _ _ Hl) as (Hk & _). apply Hk. exact Hs.
Qed.

Lemma FInv_start pr o :
  queue_ok pr -> typed_state pr -> app_cmds_ok pr -> FInv pr o (pr <| p_out := [] |>).
Proof.
  intros Hq Ht Ha. constructor; try reflexivity.
  - intros d m [].
  - intros k cs c Hl Hin. pose proof (ts_cmdq pr Ht _ _ _ Hl Hin) as Hc.
    eapply pending_cmd_ok; try eassumption; intros; subst c; exact Hc.
  - intros n c Hin. split; [eapply Ha; eassumption|eapply ts_app; eassumption].
  - intros [[u t] v] Hin. split; [|left; exact Hin]. destruct (Hq _ _ _ Hin) as [Hw Hs].
    split; [|split; assumption]. do 4 right. left. exists t, v. exact Hin.
  - intros from l m Hl Hin. left. exists from, l. split; assumption.
  - intros u e Hl. left. exists e. exact Hl.
  - intros e u Hl. split; [right; left; exists e; exact Hl|left; exists u; exact Hl].
  - intros e en Hl. split; [|split].
    + intros u Hu. do 2 right. left. exists e, en. split; assumption.
    + intros Hm. exists en. split; assumption.
    + intros t c Hc. eapply ts_ents; eassumption.
Qed.

Lemma FInv_frame pr o :
  p_panic pr = None -> queue_ok pr -> order_ok pr -> typed_state pr -> app_cmds_ok pr ->
  FInv pr o (frame pr o).
Proof.
  intros Hp Hq Ho Ht Ha. unfold FInv. apply Inv_frame; try exact Hp.
  - intros u Hu. do 5 right. left. exact Hu.
  - intros u t v Hr. eapply relayed_typed; eassumption.
  - intros j p. reflexivity.
  - intros t n. exact I.
  - intros t j p Hv Hin. simpl in Hv. subst t. exact Hin.
  - intros e He. do 3 right. left. exact He.
  - intros e He. right. left. exact He.
  - intros e He. right. right. exact He.
  - intros c [Hc Hty]. apply app_cmd_ok_any; [exact Hc|]. intros e t v ->. exact Hty.
  - apply FInv_start; assumption.
  - intros pre t post x Hord HI Hw.
    assert (Hin : In t (p_sync_types pr)).
    { apply Ho. rewrite Hord. apply in_or_app. right. left. reflexivity. }
    assert (Hb : opted pr x).
    { eapply witness_base; [|exact HI|exact Hin|exact Hw].
      intros t' j p Hv Hin'. simpl in Hv. subst t'. exact Hin'. }
    split; [exact Hb|]. right. exists pre, t, post. split; [exact Hord|]. split; [exact Hw|].
    split; [exact Hin|].
    destruct Hw as (e & en & c & Hl & _ & Hc & _ & Hm).
    destruct (i_ents _ _ _ _ _ _ _ _ _ _ _ _ _ _ _ _ HI _ _ Hl) as (_ & _ & Hty).
    specialize (Hty _ _ Hc). destruct (c_val c); destruct Hm as [-> _].
    + left. reflexivity.
    + right. split; [reflexivity|exact Hty].
    + left. reflexivity.
Qed.
