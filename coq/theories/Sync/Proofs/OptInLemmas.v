(* C04 "only opted-in data ever leaves a peer": the frame invariant and its preservation by
   every function of the model.  The invariant is generic in the predicates that classify
   messages (relayed / known uuid / queue-entry provenance / value typing) so that the same
   walk through the model serves the unconditional configuration-constancy theorem, the opt-in
   theorem and the detection-time provenance theorem of OptIn.v. *)
From stdpp Require Import gmap list.
From Coq Require Import NArith Lia.
From RecordUpdate Require Import RecordSet.
From BS Require Import Sync.Types Sync.Model.
Import RecordSetNotations.
Local Open Scope N_scope.

(* ---------- generic list / map helpers ---------------------------------------------------- *)

Lemma foldl_inv {A B} (P : A -> Prop) (f : A -> B -> A) (l : list B) (a : A) :
  P a -> (forall a x, In x l -> P a -> P (f a x)) -> P (foldl f a l).
Proof.
  revert a. induction l as [|x l IH]; intros a Ha Hf; simpl; [exact Ha|].
  apply IH; [apply Hf; [left; reflexivity|exact Ha]|].
  intros a' y Hy. apply Hf. right. exact Hy.
Qed.

Lemma memN_In x l : memN x l = true <-> In x l.
Proof.
  unfold memN. rewrite existsb_exists. split.
  - intros (y & Hy & He). apply N.eqb_eq in He. subst. exact Hy.
  - intros H. exists x. split; [exact H|apply N.eqb_refl].
Qed.

Lemma In_removeN x y l : In y (removeN x l) -> In y l.
Proof.
  unfold removeN. intros H. apply elem_of_list_In in H. apply elem_of_list_filter in H.
  apply elem_of_list_In. tauto.
Qed.

Lemma In_filter_std {A} (P : A -> Prop) `{forall x, Decision (P x)} (x : A) (l : list A) :
  In x (filter P l) -> In x l /\ P x.
Proof.
  intros Hx. apply elem_of_list_In in Hx. apply elem_of_list_filter in Hx.
  rewrite <- elem_of_list_In. tauto.
Qed.

Lemma In_map_to_list {K A} `{Countable K} (m : gmap K A) k v :
  In (k, v) (map_to_list m) <-> m !! k = Some v.
Proof. rewrite <- elem_of_list_In. apply elem_of_map_to_list. Qed.

Lemma foldl_delete_lookup {K A B} `{Countable K} (l : list (K * B)) (m : gmap K A) k v :
  foldl (fun m '(e, _) => delete e m) m l !! k = Some v -> m !! k = Some v.
Proof.
  revert m. induction l as [|[e b] l IH]; intros m; simpl; [tauto|].
  intros Hl. apply IH in Hl. apply lookup_delete_Some in Hl. tauto.
Qed.

(* ---------- classification of values, messages, commands ----------------------------------- *)

Definition not_skin (v : value) : Prop := match v with VSkin _ _ => False | _ => True end.
Definition val_typed (t : tyid) (v : value) : Prop :=
  match v with VSkin _ _ => t = T_SKIN | _ => True end.

(* a deferred command that re-sends message m to the other clients when applied *)
Definition cmd_relays (c : cmd) (m : msg) : Prop :=
  match c with
  | CRelay _ m' => m' = m
  | CApplyComp (Some _) _ u t v => m = MComp u t v
  | CSetParentSrv _ cu pu => m = MParented cu pu
  | CApplyMaterial (Some _) a v => m = MMaterial a v
  | _ => False
  end.

(* the entity (uuid) a message is about *)
Definition msg_subjects (m : msg) : list uuid :=
  match m with
  | MSpawn u | MDelete u | MComp u _ _ => [u]
  | MParented c p => [c; p]
  | _ => []
  end.

(* the fields the invariant reads: everything else is irrelevant *)
Definition view (pr : peer_state) :=
  (p_sync_types pr, t_mat pr, t_mesh pr, t_audio pr, p_id pr, p_order pr,
   p_out pr, p_cmdq pr, p_app_cmds pr, t_queue pr, n_inbox pr, t_u2e pr, t_e2u pr, p_ents pr,
   p_next_ent pr, d_pending pr).

(* ---------- the snapshot (build_full_sync): what it contains, on the state alone ------------ *)

Lemma snapshot_entity_msgs_In pr e en m :
  In m (snapshot_entity_msgs pr e en) ->
  exists su u, en_sync en = Some su /\ t_e2u pr !! e = Some u /\
    (m = MSpawn u \/
     exists t c, en_comps en !! t = Some c /\ In t (p_sync_types pr) /\ ~ In t (en_excl en) /\
       m = match c_val c with
           | VSkin j p => MComp u T_MAPPER (to_skinned_mapper pr j p)
           | v => MComp u t v
           end).
Proof.
  unfold snapshot_entity_msgs. destruct (en_sync en) as [su|]; [|intros []].
  destruct (t_e2u pr !! e) as [u|]; [|intros []].
  intros [<-|Hin]; exists su, u; (split; [reflexivity|split;[reflexivity|]]); [left; reflexivity|].
  right. apply elem_of_list_In in Hin. apply elem_of_list_omap in Hin as ([t c] & Hl & Hf).
  apply elem_of_map_to_list in Hl.
  destruct (memN t (p_sync_types pr) && negb (memN t (en_excl en))) eqn:Hb; [|discriminate].
  apply andb_true_iff in Hb as [H1 H2]. apply memN_In in H1. apply negb_true_iff in H2.
  exists t, c. split; [exact Hl|]. split; [exact H1|]. split.
  - intros Hx. apply memN_In in Hx. congruence.
  - injection Hf as <-. reflexivity.
Qed.

Lemma snapshot_parent_msgs_In pr e en m :
  In m (snapshot_parent_msgs pr e en) ->
  exists su q tk u pu, en_sync en = Some su /\ en_parent en = Some (q, tk) /\
    t_e2u pr !! e = Some u /\ t_e2u pr !! q = Some pu /\ m = MParented u pu.
Proof.
  unfold snapshot_parent_msgs. destruct (en_sync en) as [su|] eqn:E1; [|intros []].
  destruct (en_parent en) as [[q tk]|] eqn:E2; [|intros []].
  destruct (t_e2u pr !! e) as [u|] eqn:E3; [|intros []].
  destruct (t_e2u pr !! q) as [pu|] eqn:E4; [|intros []].
  intros [<-|[]]. exists su, q, tk, u, pu. repeat split; assumption.
Qed.

Lemma serve_all_view pr c : view (serve_all pr c).1 = view pr.
Proof. unfold serve_all. destruct (class_enabled pr (KClass c)); reflexivity. Qed.

Lemma view_class_enabled a b k : view a = view b -> class_enabled a k = class_enabled b k.
Proof.
  unfold view. intros Hv. injection Hv as E1 E2 E3 E4 E5 E6 E7 E8 E9 E10 E11 E12 E13 E14 E15 E16.
  unfold class_enabled. destruct k as [|[]]; congruence.
Qed.

Lemma view_id a b : view a = view b -> p_id a = p_id b.
Proof.
  unfold view. intros Hv. injection Hv as E1 E2 E3 E4 E5 E6 E7 E8 E9 E10 E11 E12 E13 E14 E15 E16.
  congruence.
Qed.

Lemma view_mat a b : view a = view b -> t_mat a = t_mat b.
Proof.
  unfold view. intros Hv. injection Hv as E1 E2 E3 E4 E5 E6 E7 E8 E9 E10 E11 E12 E13 E14 E15 E16.
  congruence.
Qed.

Lemma view_pending a b : view a = view b -> d_pending a = d_pending b.
Proof.
  unfold view. intros Hv. injection Hv as E1 E2 E3 E4 E5 E6 E7 E8 E9 E10 E11 E12 E13 E14 E15 E16.
  congruence.
Qed.

(* ---------- downloads under way (pending_of): each id once, with the owner of the latest request -- *)

Lemma kind_num_class_inj c c' : kind_num (KClass c) = kind_num (KClass c') -> c = c'.
Proof. destruct c, c'; cbn; intros H; first [reflexivity|discriminate H]. Qed.

(* the list pending_of deduplicates: the requests of class c, oldest first *)
Definition pending_reqs (pr : peer_state) (c : aclass) : list (uuid * peer) :=
  omap (fun x : aclass * uuid * peer =>
          if kind_num (KClass x.1.1) =? kind_num (KClass c) then Some (x.1.2, x.2) else None) (d_pending pr).
Definition keep_last (l : list (uuid * peer)) : list (uuid * peer) :=
  foldr (fun '(a, o) acc => if existsb (fun y : uuid * peer => fst y =? a) acc then acc else (a, o) :: acc) [] l.

Lemma pending_of_eq pr c : pending_of pr c = keep_last (pending_reqs pr c).
Proof. reflexivity. Qed.

Lemma pending_reqs_In pr c a o : In (a, o) (pending_reqs pr c) <-> In (c, a, o) (d_pending pr).
Proof.
  unfold pending_reqs. rewrite <- !elem_of_list_In, elem_of_list_omap. split.
  - intros ([[c' a'] o'] & Hin & Hf). cbn [fst snd] in Hf.
    destruct (kind_num (KClass c') =? kind_num (KClass c)) eqn:E; [|discriminate].
    apply N.eqb_eq, kind_num_class_inj in E. injection Hf as <- <-. subst c'. exact Hin.
  - intros Hin. exists (c, a, o). split; [exact Hin|]. cbn [fst snd]. rewrite N.eqb_refl. reflexivity.
Qed.

Lemma has_id_true (l : list (uuid * peer)) a :
  existsb (fun y : uuid * peer => fst y =? a) l = true <-> exists o, In (a, o) l.
Proof.
  rewrite existsb_exists. split.
  - intros ([a' o] & Hin & He). apply N.eqb_eq in He. cbn [fst] in He. subst a'. exists o. exact Hin.
  - intros (o & Hin). exists (a, o). split; [exact Hin|apply N.eqb_refl].
Qed.

Lemma keep_last_cons a o l :
  keep_last ((a, o) :: l) =
    if existsb (fun y : uuid * peer => fst y =? a) (keep_last l) then keep_last l else (a, o) :: keep_last l.
Proof. reflexivity. Qed.

(* the same ids *)
Lemma keep_last_ids l a : (exists o, In (a, o) (keep_last l)) <-> (exists o, In (a, o) l).
Proof.
  induction l as [|[a0 o0] l IH]; [reflexivity|]. rewrite keep_last_cons.
  destruct (existsb (fun y : uuid * peer => fst y =? a0) (keep_last l)) eqn:E.
  - rewrite IH. split.
    + intros (o & Ho). exists o. right. exact Ho.
    + intros (o & [Heq|Ho]); [|exists o; exact Ho]. injection Heq as -> ->.
      apply IH. apply has_id_true. exact E.
  - split.
    + intros (o & [Heq|Ho]); [exists o; left; exact Heq|].
      destruct (proj1 IH (ex_intro _ o Ho)) as (o' & Ho'). exists o'. right. exact Ho'.
    + intros (o & [Heq|Ho]); [exists o; left; exact Heq|].
      destruct (proj2 IH (ex_intro _ o Ho)) as (o' & Ho'). exists o'. right. exact Ho'.
Qed.

(* an entry of the result is the LAST request of its id *)
Lemma keep_last_latest l a o :
  In (a, o) (keep_last l) <-> exists l1 l2, l = l1 ++ (a, o) :: l2 /\ forall o', ~ In (a, o') l2.
Proof.
  induction l as [|[a0 o0] l IH].
  - split; [intros []|]. intros (l1 & l2 & Heq & _). destruct l1; discriminate Heq.
  - rewrite keep_last_cons.
    destruct (existsb (fun y : uuid * peer => fst y =? a0) (keep_last l)) eqn:E.
    + rewrite IH. split.
      * intros (l1 & l2 & -> & Hl). exists ((a0, o0) :: l1), l2. split; [reflexivity|exact Hl].
      * intros (l1 & l2 & Heq & Hl). destruct l1 as [|x l1]; cbn [app] in Heq.
        -- injection Heq as -> -> ->. exfalso.
           apply has_id_true in E. apply (proj1 (keep_last_ids _ _)) in E as (o' & Ho'). exact (Hl o' Ho').
        -- injection Heq as _ ->. exists l1, l2. split; [reflexivity|exact Hl].
    + assert (Hno : forall o', ~ In (a0, o') l).
      { intros o' Ho'. assert (Hx : exists o1, In (a0, o1) (keep_last l))
          by (apply keep_last_ids; exists o'; exact Ho').
        apply has_id_true in Hx. congruence. }
      split.
      * intros [Heq|Hin].
        -- injection Heq as -> ->. exists [], l. split; [reflexivity|exact Hno].
        -- apply IH in Hin as (l1 & l2 & -> & Hl). exists ((a0, o0) :: l1), l2. split; [reflexivity|exact Hl].
      * intros (l1 & l2 & Heq & Hl). destruct l1 as [|x l1]; cbn [app] in Heq.
        -- injection Heq as -> -> ->. left. reflexivity.
        -- injection Heq as _ ->. right. apply IH. exists l1, l2. split; [reflexivity|exact Hl].
Qed.

Lemma keep_last_In l x : In x (keep_last l) -> In x l.
Proof.
  destruct x as [a o]. intros H. apply keep_last_latest in H as (l1 & l2 & -> & _).
  apply in_or_app. right. left. reflexivity.
Qed.

(* each id once *)
Lemma keep_last_fun l a o o' : In (a, o) (keep_last l) -> In (a, o') (keep_last l) -> o = o'.
Proof.
  intros H1 H2. apply keep_last_latest in H1 as (l1 & l2 & -> & Hl).
  apply keep_last_latest in H2 as (l1' & l2' & Heq & Hl').
  revert l1' Heq. induction l1 as [|x l1 IH]; intros l1' Heq; cbn [app] in Heq.
  - destruct l1' as [|y l1']; cbn [app] in Heq; [congruence|].
    injection Heq as _ ->. exfalso. apply (Hl o'). apply in_or_app. right. left. reflexivity.
  - destruct l1' as [|y l1']; cbn [app] in Heq.
    + injection Heq as -> <-. exfalso. apply (Hl' o). apply in_or_app. right. left. reflexivity.
    + injection Heq as _ Heq. exact (IH l1' Heq).
Qed.

Lemma keep_last_NoDup l : NoDup (fst <$> keep_last l).
Proof.
  induction l as [|[a0 o0] l IH]; [constructor|]. rewrite keep_last_cons.
  destruct (existsb (fun y : uuid * peer => fst y =? a0) (keep_last l)) eqn:E; [exact IH|].
  cbn [fmap list_fmap fst]. constructor; [|exact IH].
  intros Hin. apply elem_of_list_fmap in Hin as ([a' o'] & Ha & Hin). cbn [fst] in Ha. subst a'.
  assert (Hx : existsb (fun y : uuid * peer => fst y =? a0) (keep_last l) = true)
    by (apply has_id_true; exists o'; apply elem_of_list_In; exact Hin).
  congruence.
Qed.

(* a download of id a of class c is under way *)
Definition download_pending (pr : peer_state) (c : aclass) (a : uuid) : Prop :=
  exists o, In (c, a, o) (d_pending pr).

(* o is the owner named by the latest pending request of (c, a) *)
Definition latest_owner (pr : peer_state) (c : aclass) (a : uuid) (o : peer) : Prop :=
  exists l1 l2, d_pending pr = l1 ++ (c, a, o) :: l2 /\ forall o', ~ In (c, a, o') l2.

Lemma pending_of_In pr c a o : In (a, o) (pending_of pr c) -> In (c, a, o) (d_pending pr).
Proof. rewrite pending_of_eq. intros H. apply keep_last_In in H. apply pending_reqs_In. exact H. Qed.

Lemma pending_of_ids pr c a : (exists o, In (a, o) (pending_of pr c)) <-> download_pending pr c a.
Proof.
  rewrite pending_of_eq, keep_last_ids. unfold download_pending.
  split; intros (o & Ho); exists o; apply pending_reqs_In; exact Ho.
Qed.

Lemma pending_of_fun pr c a o o' : In (a, o) (pending_of pr c) -> In (a, o') (pending_of pr c) -> o = o'.
Proof. rewrite pending_of_eq. apply keep_last_fun. Qed.

Lemma pending_of_NoDup pr c : NoDup (fst <$> pending_of pr c).
Proof. rewrite pending_of_eq. apply keep_last_NoDup. Qed.

Lemma pending_reqs_app_inv c : forall (d : list (aclass * uuid * peer)) l1 a o l2,
  omap (fun x : aclass * uuid * peer =>
          if kind_num (KClass x.1.1) =? kind_num (KClass c) then Some (x.1.2, x.2) else None) d
    = l1 ++ (a, o) :: l2 ->
  exists d1 d2, d = d1 ++ (c, a, o) :: d2 /\
    l2 = omap (fun x : aclass * uuid * peer =>
                 if kind_num (KClass x.1.1) =? kind_num (KClass c) then Some (x.1.2, x.2) else None) d2.
Proof.
  induction d as [|[[c' a'] o'] d IH]; intros l1 a o l2 Heq.
  - destruct l1; discriminate Heq.
  - cbn [omap list_omap fst snd] in Heq.
    destruct (kind_num (KClass c') =? kind_num (KClass c)) eqn:E.
    + apply N.eqb_eq, kind_num_class_inj in E. subst c'. destruct l1 as [|y l1]; cbn [app] in Heq.
      * injection Heq as -> -> <-. exists [], d. split; reflexivity.
      * injection Heq as _ Heq. destruct (IH _ _ _ _ Heq) as (d1 & d2 & -> & ->).
        exists ((c, a', o') :: d1), d2. split; reflexivity.
    + destruct (IH _ _ _ _ Heq) as (d1 & d2 & -> & ->).
      exists ((c', a', o') :: d1), d2. split; reflexivity.
Qed.

(* the entries of pending_of: exactly the latest request of each id under download *)
Lemma pending_of_latest pr c a o : In (a, o) (pending_of pr c) <-> latest_owner pr c a o.
Proof.
  rewrite pending_of_eq, keep_last_latest. unfold latest_owner. split.
  - intros (l1 & l2 & Heq & Hl). unfold pending_reqs in Heq.
    destruct (pending_reqs_app_inv c _ _ _ _ _ Heq) as (d1 & d2 & Hd & ->).
    exists d1, d2. split; [exact Hd|]. intros o' Ho'. apply (Hl o').
    apply elem_of_list_In, elem_of_list_omap. exists (c, a, o'). split; [apply elem_of_list_In; exact Ho'|].
    cbn [fst snd]. rewrite N.eqb_refl. reflexivity.
  - intros (d1 & d2 & Hd & Hl). unfold pending_reqs. rewrite Hd, omap_app. cbn [omap list_omap fst snd].
    rewrite N.eqb_refl. eexists _, _. split; [reflexivity|].
    intros o' Ho'. apply elem_of_list_In, elem_of_list_omap in Ho' as ([[c' a'] o''] & Hin & Hf).
    cbn [fst snd] in Hf. destruct (kind_num (KClass c') =? kind_num (KClass c)) eqn:E; [|discriminate].
    apply N.eqb_eq, kind_num_class_inj in E. injection Hf as -> ->. subst c'.
    apply (Hl o'). apply elem_of_list_In. exact Hin.
Qed.

Lemma latest_owner_pending pr c a o : latest_owner pr c a o -> In (c, a, o) (d_pending pr).
Proof. intros (l1 & l2 & -> & _). apply in_or_app. right. left. reflexivity. Qed.

Lemma is_pending_true pr c a :
  existsb (fun y : uuid * peer => fst y =? a) (pending_of pr c) = true <-> download_pending pr c a.
Proof. rewrite has_id_true. apply pending_of_ids. Qed.

Lemma is_pending_false pr c a :
  existsb (fun y : uuid * peer => fst y =? a) (pending_of pr c) = false <-> ~ download_pending pr c a.
Proof. rewrite <- is_pending_true. destruct (existsb _ _); split; congruence. Qed.

(* the assets serve_all serves and announces as this peer's own: those with no download under way *)
Definition served_assets (pr : peer_state) (c : aclass) : list (uuid * N) :=
  filter (fun x : uuid * N => negb (existsb (fun y : uuid * peer => fst y =? fst x) (pending_of pr c)))
         (assets_of_kind pr (KClass c)).

Lemma served_assets_In pr c a v :
  In (a, v) (served_assets pr c) <-> In (a, v) (assets_of_kind pr (KClass c)) /\ ~ download_pending pr c a.
Proof.
  unfold served_assets. rewrite <- !elem_of_list_In, elem_of_list_filter. cbn [fst].
  rewrite <- is_pending_false. destruct (existsb _ _); cbn [negb]; split; intros [H1 H2]; split;
    first [assumption|reflexivity|exact I|discriminate H2|destruct H1].
Qed.

Lemma serve_all_enabled pr c :
  class_enabled pr (KClass c) = true ->
  serve_all pr c =
    (pr <| h_cache := foldl (fun h '(a, v) => <[akey (KClass c) a := v]> h) (h_cache pr) (served_assets pr c) |>,
     ((fun '(a, _) => MAsset c a (p_id pr)) <$> served_assets pr c) ++
     ((fun '(a, o) => MAsset c a o) <$> pending_of pr c)).
Proof. intros He. unfold serve_all. rewrite He. reflexivity. Qed.

(* every announcement of the class part of the snapshot: the class is enabled and either the asset is
   stored here, no download of its id is under way, and it is announced as this peer's own, or a
   download of the id is under way and the owner is the one the latest request names *)
Lemma serve_all_msgs pr c m :
  In m (serve_all pr c).2 ->
  class_enabled pr (KClass c) = true /\
  exists a o, m = MAsset c a o /\
    ((o = p_id pr /\ ~ download_pending pr c a /\ exists v, In (a, v) (assets_of_kind pr (KClass c))) \/
     In (a, o) (pending_of pr c)).
Proof.
  destruct (class_enabled pr (KClass c)) eqn:He.
  2:{ unfold serve_all. rewrite He. intros []. }
  rewrite (serve_all_enabled pr c He). cbn [snd].
  intros Hin. split; [reflexivity|]. apply in_app_or in Hin as [Hin|Hin]; apply elem_of_list_In in Hin.
  - apply elem_of_list_fmap in Hin as ([a v] & -> & Hin). exists a, (p_id pr). split; [reflexivity|left].
    apply elem_of_list_In, served_assets_In in Hin as [H1 H2]. split; [reflexivity|]. split; [exact H2|].
    exists v. exact H1.
  - apply elem_of_list_fmap in Hin as ([a o] & -> & Hin). exists a, o. split; [reflexivity|right].
    apply elem_of_list_In. exact Hin.
Qed.

Lemma view_pending_of a b c : view a = view b -> pending_of a c = pending_of b c.
Proof. intros Hv. unfold pending_of. rewrite (view_pending _ _ Hv). reflexivity. Qed.

Lemma In_concat_fmap {A B} (f : A -> list B) (l : list A) (y : B) :
  In y (concat (f <$> l)) -> exists x, In x l /\ In y (f x).
Proof.
  intros Hin. apply in_concat in Hin as (l' & Hl' & Hy).
  apply elem_of_list_In in Hl'. apply elem_of_list_fmap in Hl' as (x & -> & Hx).
  exists x. split; [apply elem_of_list_In; exact Hx|exact Hy].
Qed.

Lemma build_full_sync_view pr : view (build_full_sync pr).1 = view pr.
Proof.
  unfold build_full_sync. cbv zeta.
  pose proof (serve_all_view pr AImage) as V1.
  destruct (serve_all pr AImage) as [pr1 mi].
  pose proof (serve_all_view pr1 AMesh) as V2.
  destruct (serve_all pr1 AMesh) as [pr2 me].
  pose proof (serve_all_view pr2 AAudio) as V3.
  destruct (serve_all pr2 AAudio) as [pr3 ma].
  cbn [fst] in *. congruence.
Qed.

Lemma In_take_drop {A} (x : A) n l : In x (take n l) \/ In x (drop n l) -> In x l.
Proof. intros H. rewrite <- (take_drop n l). apply in_or_app. exact H. Qed.

Lemma kind_num_lt k : kind_num k < 4.
Proof. destruct k as [|[]]; cbn; lia. Qed.
Lemma akey_mod k a : akey k a `mod` 4 = kind_num k.
Proof. unfold akey. symmetry. apply (N.mod_unique _ 4 a); [apply kind_num_lt|reflexivity]. Qed.
Lemma akey_div k a : akey k a `div` 4 = a.
Proof. unfold akey. symmetry. apply (N.div_unique _ 4 a (kind_num k)); [apply kind_num_lt|reflexivity]. Qed.
Lemma akey_inj k a a' : akey k a = akey k a' -> a = a'.
Proof. intros H. rewrite <- (akey_div k a), <- (akey_div k a'), H. reflexivity. Qed.
Lemma akey_kind_ne k k' a a' : kind_num k <> kind_num k' -> akey k a <> akey k' a'.
Proof. intros Hne H. apply Hne. rewrite <- (akey_mod k a), <- (akey_mod k' a'), H. reflexivity. Qed.

(* assets_of_kind lists exactly the store entries of that kind *)
Lemma assets_of_kind_In pr k a v :
  In (a, v) (assets_of_kind pr k) <-> a_store pr !! akey k a = Some v.
Proof.
  unfold assets_of_kind. rewrite <- elem_of_list_In, elem_of_list_omap. split.
  - intros ([key v'] & Hin & Hf). apply elem_of_map_to_list in Hin.
    destruct (key `mod` 4 =? kind_num k) eqn:Em; [|discriminate]. injection Hf as <- <-.
    apply N.eqb_eq in Em.
    assert (Hk : key = akey k (key `div` 4)).
    { unfold akey. rewrite <- Em. apply (N.div_mod' key 4). }
    rewrite <- Hk. exact Hin.
  - intros Hl. exists (akey k a, v). split; [apply elem_of_map_to_list; exact Hl|].
    rewrite akey_mod, N.eqb_refl, akey_div. reflexivity.
Qed.

Lemma view_assets_of_kind_class a b c :
  a_store a = a_store b -> assets_of_kind a (KClass c) = assets_of_kind b (KClass c).
Proof. intros H. unfold assets_of_kind. rewrite H. reflexivity. Qed.

Lemma serve_all_store pr c : a_store (serve_all pr c).1 = a_store pr.
Proof. unfold serve_all. destruct (class_enabled pr (KClass c)); reflexivity. Qed.

Lemma download_pending_ext a b c x : d_pending a = d_pending b -> download_pending a c x <-> download_pending b c x.
Proof. intros H. unfold download_pending. rewrite H. reflexivity. Qed.

Lemma build_full_sync_msgs pr m :
  In m (build_full_sync pr).2 ->
  (exists e en, p_ents pr !! e = Some en /\ In m (snapshot_entity_msgs pr e en)) \/
  (exists e en, p_ents pr !! e = Some en /\ In m (snapshot_parent_msgs pr e en)) \/
  (t_mat pr = true /\ exists a v, m = MMaterial a v) \/
  (exists c a o, class_enabled pr (KClass c) = true /\ m = MAsset c a o /\
     ((o = p_id pr /\ ~ download_pending pr c a /\ exists v, In (a, v) (assets_of_kind pr (KClass c))) \/
      In (a, o) (pending_of pr c))).
Proof.
  unfold build_full_sync. cbv zeta.
  pose proof (serve_all_view pr AImage) as V1.
  pose proof (serve_all_store pr AImage) as S1.
  pose proof (serve_all_msgs pr AImage m) as M1.
  destruct (serve_all pr AImage) as [pr1 mi].
  pose proof (serve_all_view pr1 AMesh) as V2.
  pose proof (serve_all_store pr1 AMesh) as S2.
  pose proof (serve_all_msgs pr1 AMesh m) as M2.
  destruct (serve_all pr1 AMesh) as [pr2 me].
  pose proof (serve_all_view pr2 AAudio) as V3.
  pose proof (serve_all_msgs pr2 AAudio m) as M3.
  destruct (serve_all pr2 AAudio) as [pr3 ma].
  cbn [fst snd] in *. intros Hin.
  rewrite !in_app_iff in Hin. destruct Hin as [[H|H]|[H|[H|[H|[H|H]]]]].
  - left. apply In_concat_fmap in H as ([e en] & Hx & Hy).
    exists e, en. split; [apply In_map_to_list; exact Hx|apply (In_take_drop _ 1); left; exact Hy].
  - left. apply In_concat_fmap in H as ([e en] & Hx & Hy).
    exists e, en. split; [apply In_map_to_list; exact Hx|apply (In_take_drop _ 1); right; exact Hy].
  - right. left. apply In_concat_fmap in H as ([e en] & Hx & Hy).
    exists e, en. split; [apply In_map_to_list; exact Hx|exact Hy].
  - right. right. right. destruct (M1 H) as (Hc & a & o & -> & Hj). exists AImage, a, o.
    split; [exact Hc|]. split; [reflexivity|exact Hj].
  - right. right. left. unfold snapshot_material_msgs in H.
    rewrite (view_mat _ _ V1) in H. destruct (t_mat pr); [|destruct H]. split; [reflexivity|].
    apply elem_of_list_In in H. apply elem_of_list_fmap in H as ([a v] & -> & _). eauto.
  - right. right. right. destruct (M2 H) as (Hc & a & o & -> & Hj). exists AMesh, a, o.
    rewrite (view_class_enabled _ _ _ V1) in Hc. split; [exact Hc|]. split; [reflexivity|].
    rewrite (view_id _ _ V1), (view_pending_of _ _ _ V1), (view_assets_of_kind_class _ _ _ S1),
      (download_pending_ext _ _ _ _ (view_pending _ _ V1)) in Hj. exact Hj.
  - right. right. right. destruct (M3 H) as (Hc & a & o & -> & Hj). exists AAudio, a, o.
    rewrite (view_class_enabled _ _ _ V2), (view_class_enabled _ _ _ V1) in Hc.
    split; [exact Hc|]. split; [reflexivity|].
    rewrite (view_id _ _ V2), (view_id _ _ V1), (view_pending_of _ _ _ V2), (view_pending_of _ _ _ V1),
      (view_assets_of_kind_class _ _ _ S2), (view_assets_of_kind_class _ _ _ S1),
      (download_pending_ext _ _ _ _ (view_pending _ _ V2)),
      (download_pending_ext _ _ _ _ (view_pending _ _ V1)) in Hj. exact Hj.
Qed.

(* what sync_detect::<t> reads when it queues an entry: a synchronised entity, carrying t, not
   excluded for t, in the state in which the detector runs *)
Definition detect_witness (pr : peer_state) (t : tyid) (x : uuid * tyid * value) : Prop :=
  exists e en c, p_ents pr !! e = Some en /\ en_sync en = Some x.1.1 /\
    en_comps en !! t = Some c /\ ~ In t (en_excl en) /\
    match c_val c with
    | VSkin j p => x.1.2 = T_MAPPER /\ x.2 = to_skinned_mapper pr j p
    | v => x.1.2 = t /\ x.2 = v
    end.

Lemma signal_e2u pr u t v ch : t_e2u (signal_component_changed pr u t v ch) = t_e2u pr.
Proof.
  unfold signal_component_changed. destruct (tok_find (u, t) (t_ctok pr)) as [at_|]; [|reflexivity].
  cbv zeta. destruct (at_ =? ch); reflexivity.
Qed.

(* whichever branch is taken (no debounce entry, or an entry of another tick), the only value that
   can be queued is the signalled one *)
Lemma signal_queue pr u t v ch x :
  In x (t_queue (signal_component_changed pr u t v ch)) -> In x (t_queue pr) \/ x = (u, t, v).
Proof.
  unfold signal_component_changed. destruct (tok_find (u, t) (t_ctok pr)) as [at_|]; cbv zeta.
  - destruct (at_ =? ch); cbn [t_queue set]; [tauto|].
    intros H. apply in_app_or in H as [H|[<-|[]]]; tauto.
  - cbn [t_queue set]. intros H. apply in_app_or in H as [H|[<-|[]]]; tauto.
Qed.

(* the asset switch a react system is gated by *)
Definition asset_gate (mat mesh audio : bool) (s : sysid) : Prop :=
  match s with
  | SSrvMat | SCliMat | SSrvImg | SCliImg => mat = true
  | SSrvMesh | SCliMesh => mesh = true
  | SSrvAudio | SCliAudio => audio = true
  | _ => True
  end.

Lemma sync_detect_adds pr t last x :
  In x (t_queue (sync_detect pr t last)) -> In x (t_queue pr) \/ detect_witness pr t x.
Proof.
  unfold sync_detect.
  refine (proj2 (foldl_inv (fun a => t_e2u a = t_e2u pr /\
            (In x (t_queue a) -> In x (t_queue pr) \/ detect_witness pr t x)) _ _ _ _ _));
    [split; [reflexivity|tauto]|].
  intros a [e en] Hin [He Hq]. apply In_map_to_list in Hin.
  destruct (en_sync en) as [u|] eqn:E1; [|split; assumption].
  destruct (en_comps en !! t) as [c|] eqn:E2; [|split; assumption].
  destruct (negb (memN t (en_excl en)) && ((last <? c_changed c) || (last <? en_sync_added en))) eqn:E3;
    [|split; assumption].
  apply andb_true_iff in E3 as [E3 _]. apply negb_true_iff in E3.
  assert (Hne : ~ In t (en_excl en)) by (intros Hx; apply memN_In in Hx; congruence).
  destruct (c_val c) as [n|j p|j p] eqn:Ev; (split; [rewrite signal_e2u; exact He|]);
    intros Hx; apply signal_queue in Hx as [Hx| ->]; try (apply Hq; exact Hx);
    right; exists e, en, c; rewrite Ev; cbn [fst snd];
    (split; [exact Hin|split; [exact E1|split; [exact E2|split; [exact Hne|]]]]).
  - split; reflexivity.
  - split; [reflexivity|]. unfold to_skinned_mapper. rewrite He. reflexivity.
  - split; reflexivity.
Qed.

(* the states a frame goes through: after PreUpdate and StateTransition, and after a prefix
   of the Update schedule *)
Definition frame_start (pr : peer_state) (o : frame_oracle) : peer_state :=
  state_transition (pre_update (pr <| p_out := [] |>) o).
Definition frame_mid (pr : peer_state) (o : frame_oracle) (pre : list sysid) : peer_state :=
  foldl (fun pr s => run_system pr s o) (frame_start pr o) pre.

Lemma frame_unfold pr o :
  p_panic pr = None ->
  frame pr o =
  last_schedule (match p_panic (frame_mid pr o (p_order (frame_start pr o))) with
                 | Some _ => frame_mid pr o (p_order (frame_start pr o))
                 | None => flush (frame_mid pr o (p_order (frame_start pr o)))
                 end).
Proof. intros Hp. unfold frame. rewrite Hp. reflexivity. Qed.


Section invariant.
  (* the configuration of the peer during the frame *)
  Variable types : list tyid.
  Variable mat mesh audio : bool.
  Variable me : peer.
  Variable order : list sysid.
  (* messages that may be relayed: they were received *)
  Variable inb : msg -> Prop.
  (* uuids the sync machinery of this peer knew at the start of the frame *)
  Variable known : uuid -> Prop.
  (* entities carrying SyncMark at the start of the frame; allowed keys of entity_to_uuid *)
  Variable markP : ent -> Prop.
  Variable keyP : ent -> Prop.
  Variable lo : N.
  (* provenance of the entries of the change queue *)
  Variable qP : uuid * tyid * value -> Prop.
  (* typing of component values, and what a skinned-mesh value under a registered type implies *)
  Variable vt : tyid -> value -> Prop.
  Variable skinreg : Prop.
  (* the commands application systems may issue *)
  Variable appP : cmd -> Prop.
  (* the keys under which deferred commands may be buffered *)
  Variable keyOK : N -> Prop.
  (* the downloads that were under way at the start of the frame: (class, id, owner to fetch it from) *)
  Variable pendP : aclass -> uuid -> peer -> Prop.

  Hypothesis inb_spawn : forall u, inb (MSpawn u) -> known u.
  Hypothesis inb_vt : forall u t v, inb (MComp u t v) -> vt t v.
  Hypothesis vt_skin_any : forall j p, vt T_SKIN (VSkin j p).
  Hypothesis vt_vn : forall t n, vt t (VN n).
  Hypothesis vt_skinreg : forall t j p, vt t (VSkin j p) -> In t types -> skinreg.
  Hypothesis mark_known : forall e, markP e -> known e.
  Hypothesis mark_key : forall e, markP e -> keyP e.
  Hypothesis fresh_key : forall e, lo <= e -> keyP e.

  Definition comp_opted (t : tyid) : Prop := In t types \/ (t = T_MAPPER /\ skinreg).
  Definition class_on (c : aclass) : bool :=
    match c with AImage => mat | AMesh => mesh | AAudio => audio end.
  Definition kind_on (k : akind) : bool :=
    match k with KMaterial => mat | KClass c => class_on c end.

  Definition msg_ok (m : msg) : Prop :=
    match m with
    | MSpawn u | MDelete u => inb m \/ known u
    | MParented c p => inb m \/ (known c /\ known p)
    | MComp u t v => inb m \/ qP (u, t, v) \/ (known u /\ comp_opted t /\ not_skin v)
    | MMaterial a v => inb m \/ mat = true
    | MAsset c a owner => inb m \/ (class_on c = true /\ (owner = me \/ pendP c a owner))
    | MPromote | MNewHost _ | MReqInit | MFinInit => True
    end.

  Definition cmd_ok (c : cmd) : Prop :=
    match c with
    | CSpawnSync _ u | CInsertSync _ u => known u
    | CApplyComp from _ u t v => (from <> None -> inb (MComp u t v)) /\ vt t v
    | CSetParentSrv _ cu pu => inb (MParented cu pu)
    | CApplyMaterial from a v => from <> None -> inb (MMaterial a v)
    | CRelay _ m => inb m
    | CAppInsert _ t v => vt t v
    | _ => True
    end.

  Hypothesis app_cmd_ok : forall c, appP c -> cmd_ok c.

  Definition ent_ok (e : ent) (en : entity) : Prop :=
    (forall u, en_sync en = Some u -> known u) /\
    (en_mark en <> None -> markP e) /\
    (forall t c, en_comps en !! t = Some c -> vt t (c_val c)).

  Record Inv (pr : peer_state) : Prop := {
    i_types : p_sync_types pr = types;
    i_mat : t_mat pr = mat;
    i_mesh : t_mesh pr = mesh;
    i_audio : t_audio pr = audio;
    i_id : p_id pr = me;
    i_order : p_order pr = order;
    i_out : forall d m, In (d, m) (p_out pr) -> msg_ok m;
    i_cmdq : forall k cs c, p_cmdq pr !! k = Some cs -> In c cs -> cmd_ok c;
    i_keys : forall k cs, p_cmdq pr !! k = Some cs -> keyOK k;
    i_app : forall n c, In (n, c) (p_app_cmds pr) -> appP c;
    i_queue : forall x, In x (t_queue pr) -> qP x;
    i_inbox : forall from l m, n_inbox pr !! from = Some l -> In m l -> inb m;
    i_u2e : forall u e, t_u2e pr !! u = Some e -> known u;
    i_e2u : forall e u, t_e2u pr !! e = Some u -> known u /\ keyP e;
    i_ents : forall e en, p_ents pr !! e = Some en -> ent_ok e en;
    i_next : lo <= p_next_ent pr;
    i_pend : forall c a o, In (c, a, o) (d_pending pr) -> inb (MAsset c a o) \/ pendP c a o;
  }.

  Lemma Inv_view pr pr' : view pr = view pr' -> Inv pr -> Inv pr'.
  Proof.
    unfold view. intros Hv [? ? ? ? ? ? ? ? ? ? ? ? ? ? ? ? ?].
    injection Hv as E1 E2 E3 E4 E5 E6 E7 E8 E9 E10 E11 E12 E13 E14 E15 E16.
    constructor;
      first [rewrite <- E1|rewrite <- E2|rewrite <- E3|rewrite <- E4|rewrite <- E5|rewrite <- E6
            |rewrite <- E7|rewrite <- E8|rewrite <- E9|rewrite <- E10|rewrite <- E11|rewrite <- E12
            |rewrite <- E13|rewrite <- E14|rewrite <- E15|rewrite <- E16]; assumption.
  Qed.

  Ltac irr := (eapply Inv_view; [|eassumption]; reflexivity).
  Ltac dm := match goal with |- context [match ?x with _ => _ end] =>
    lazymatch x with
    | context [match _ with _ => _ end] => fail
    | _ => destruct x eqn:?; cbv beta iota
    end end.

  (* ---- setters of the relevant fields ---- *)

  Lemma Inv_set_out pr o :
    Inv pr -> (forall d m, In (d, m) o -> msg_ok m) -> Inv (pr <| p_out := o |>).
  Proof. intros [] Ho. constructor; try assumption. Qed.

  Lemma Inv_set_cmdq pr q :
    Inv pr -> (forall k cs c, q !! k = Some cs -> In c cs -> cmd_ok c) ->
    (forall k cs, q !! k = Some cs -> keyOK k) -> Inv (pr <| p_cmdq := q |>).
  Proof. intros [] Ho Hk. constructor; try assumption. Qed.

  Lemma Inv_set_app pr q :
    Inv pr -> (forall n c, In (n, c) q -> appP c) -> Inv (pr <| p_app_cmds := q |>).
  Proof. intros [] Ho. constructor; try assumption. Qed.

  Lemma Inv_set_queue pr q :
    Inv pr -> (forall x, In x q -> qP x) -> Inv (pr <| t_queue := q |>).
  Proof. intros [] Ho. constructor; try assumption. Qed.

  Lemma Inv_set_inbox pr q :
    Inv pr -> (forall from l m, q !! from = Some l -> In m l -> inb m) -> Inv (pr <| n_inbox := q |>).
  Proof. intros [] Ho. constructor; try assumption. Qed.

  Lemma Inv_set_u2e pr q :
    Inv pr -> (forall u e, q !! u = Some e -> known u) -> Inv (pr <| t_u2e := q |>).
  Proof. intros [] Ho. constructor; try assumption. Qed.

  Lemma Inv_set_e2u pr q :
    Inv pr -> (forall e u, q !! e = Some u -> known u /\ keyP e) -> Inv (pr <| t_e2u := q |>).
  Proof. intros [] Ho. constructor; try assumption. Qed.

  Lemma Inv_set_ents pr q :
    Inv pr -> (forall e en, q !! e = Some en -> ent_ok e en) -> Inv (pr <| p_ents := q |>).
  Proof. intros [] Ho. constructor; try assumption. Qed.

  Lemma Inv_set_next pr n :
    Inv pr -> lo <= n -> Inv (pr <| p_next_ent := n |>).
  Proof. intros [] Ho. constructor; try assumption. Qed.

  Lemma Inv_set_pending pr q :
    Inv pr -> (forall c a o, In (c, a, o) q -> inb (MAsset c a o) \/ pendP c a o) ->
    Inv (pr <| d_pending := q |>).
  Proof. intros [] Ho. constructor; try assumption. Qed.

  (* ---- primitives ---- *)

  Lemma Inv_send pr d m : Inv pr -> msg_ok m -> Inv (send pr d m).
  Proof.
    intros HI Hm. unfold send. apply Inv_set_out; [exact HI|].
    intros d' m' Hin. apply in_app_or in Hin as [Hin|[Heq|[]]].
    - eapply i_out; eassumption.
    - injection Heq as <- <-. exact Hm.
  Qed.

  Lemma Inv_send_all pr ds m : Inv pr -> msg_ok m -> Inv (send_all pr ds m).
  Proof.
    intros HI Hm. unfold send_all. apply foldl_inv; [exact HI|].
    intros a x _ Ha. apply Inv_send; assumption.
  Qed.

  Lemma Inv_broadcast pr m : Inv pr -> msg_ok m -> Inv (broadcast pr m).
  Proof. intros. unfold broadcast. apply Inv_send_all; assumption. Qed.

  Lemma Inv_relay_except pr from m : Inv pr -> msg_ok m -> Inv (relay_except pr from m).
  Proof. intros. unfold relay_except. apply Inv_send_all; assumption. Qed.

  Lemma Inv_send_up pr m : Inv pr -> msg_ok m -> Inv (send_up pr m).
  Proof.
    intros. unfold send_up. destruct (n_cli_transport pr) as [[h ?]|]; [apply Inv_send|]; assumption.
  Qed.

  Lemma inb_msg_ok m : inb m -> msg_ok m.
  Proof. intros H. destruct m; simpl; auto. Qed.

  Lemma Inv_push_cmd pr k c : keyOK k -> Inv pr -> cmd_ok c -> Inv (push_cmd pr k c).
  Proof.
    intros Hk HI Hc. unfold push_cmd. apply Inv_set_cmdq; [exact HI| |].
    - intros k' cs c' Hl Hin. destruct (decide (k' = k)) as [->|Hne].
      + rewrite lookup_insert in Hl. injection Hl as <-.
        apply in_app_or in Hin as [Hin|[<-|[]]]; [|exact Hc].
        destruct (p_cmdq pr !! k) eqn:E; simpl in Hin; [eapply i_cmdq; eassumption|destruct Hin].
      + rewrite lookup_insert_ne in Hl by congruence. eapply i_cmdq; eassumption.
    - intros k' cs Hl. destruct (decide (k' = k)) as [->|Hne]; [exact Hk|].
      rewrite lookup_insert_ne in Hl by congruence. eapply i_keys; eassumption.
  Qed.

  Lemma Inv_set_panic pr s : Inv pr -> Inv (set_panic pr s).
  Proof. intros HI. unfold set_panic. destruct (p_panic pr); [exact HI|irr]. Qed.

  Lemma Inv_upd_ent pr e f :
    Inv pr -> (forall en, p_ents pr !! e = Some en -> ent_ok e en -> ent_ok e (f en)) ->
    Inv (upd_ent pr e f).
  Proof.
    intros HI Hf. unfold upd_ent. destruct (p_ents pr !! e) as [en|] eqn:E; [|exact HI].
    apply Inv_set_ents; [exact HI|].
    intros e' en' Hl. destruct (decide (e' = e)) as [->|Hne].
    - rewrite lookup_insert in Hl. injection Hl as <-. apply Hf; [reflexivity|].
      eapply i_ents; eassumption.
    - rewrite lookup_insert_ne in Hl by congruence. eapply i_ents; eassumption.
  Qed.

  Lemma ent_ok_same e en en' :
    en_sync en' = en_sync en -> en_mark en' = en_mark en -> en_comps en' = en_comps en ->
    ent_ok e en -> ent_ok e en'.
  Proof. unfold ent_ok. intros -> -> ->. tauto. Qed.

  Lemma Inv_upd_ent_same pr e f :
    Inv pr ->
    (forall en, en_sync (f en) = en_sync en /\ en_mark (f en) = en_mark en /\ en_comps (f en) = en_comps en) ->
    Inv (upd_ent pr e f).
  Proof.
    intros HI Hf. apply Inv_upd_ent; [exact HI|]. intros en _. destruct (Hf en) as (? & ? & ?).
    apply ent_ok_same; assumption.
  Qed.

  Lemma ent_ok_put_comp e en now t v : ent_ok e en -> vt t v -> ent_ok e (put_comp now t v en).
  Proof.
    intros (Hs & Hm & Hc) Hv. unfold put_comp.
    destruct (en_comps en !! t) as [c0|] eqn:E; (split; [exact Hs|split; [exact Hm|]]);
      intros t' c' Hl; simpl in Hl;
      (destruct (decide (t' = t)) as [->|Hne];
       [rewrite lookup_insert in Hl; injection Hl as <-; exact Hv
       |rewrite lookup_insert_ne in Hl by congruence; eapply Hc; eassumption]).
  Qed.

  Lemma Inv_put_comp pr e now t v : Inv pr -> vt t v -> Inv (upd_ent pr e (put_comp now t v)).
  Proof. intros HI Hv. apply Inv_upd_ent; [exact HI|]. intros en _ Hen. apply ent_ok_put_comp; assumption. Qed.

  Ltac same_ent := (intros; repeat split; reflexivity).

  Lemma Inv_add_child pr p c : Inv pr -> Inv (add_child pr p c).
  Proof.
    intros HI. unfold add_child.
    destruct (negb (alive pr p)); [apply Inv_set_panic; exact HI|].
    destruct (p =? c); [apply Inv_set_panic; exact HI|].
    cbv zeta. apply Inv_upd_ent_same; [|same_ent].
    assert (HI1 : Inv (upd_ent pr c (fun en => en <| en_parent := Some (p, p_tick pr) |>)))
      by (apply Inv_upd_ent_same; [exact HI|same_ent]).
    repeat dm; try exact HI1; apply Inv_upd_ent_same; [exact HI1|same_ent].
  Qed.

  Lemma Inv_set_parent_twice pr c p : Inv pr -> Inv (set_parent_twice pr c p).
  Proof.
    intros HI. unfold set_parent_twice. cbv zeta.
    destruct (p_panic (add_child pr p c)); repeat apply Inv_add_child; exact HI.
  Qed.

  Lemma Inv_signal pr u t v ch : Inv pr -> qP (u, t, v) -> Inv (signal_component_changed pr u t v ch).
  Proof.
    intros HI Hq.
    assert (Hpush : forall a, Inv a -> Inv (a <| t_queue := t_queue a ++ [(u, t, v)] |>)).
    { intros a Ha. apply Inv_set_queue; [exact Ha|]. intros x Hx.
      apply in_app_or in Hx as [Hx|[<-|[]]]; [eapply i_queue; eassumption|exact Hq]. }
    unfold signal_component_changed. destruct (tok_find (u, t) (t_ctok pr)) as [at_|]; [|apply Hpush; exact HI].
    cbv zeta. assert (HI' : Inv (pr <| t_ctok := tok_remove (u, t) (t_ctok pr) |>)) by irr.
    destruct (at_ =? ch); [exact HI'|apply Hpush; exact HI'].
  Qed.

  Lemma Inv_apply_component_change pr e t v :
    Inv pr -> vt t v -> Inv (apply_component_change pr e t v).1.
  Proof.
    intros HI Hv. unfold apply_component_change. cbv zeta.
    destruct (negb (memN (wire_type t v) (p_registry pr))); [exact HI|].
    assert (Hgen : forall t' v', vt t' v' ->
      Inv (if negb (memN t' (p_registry pr)) then (pr, false)
           else match p_ents pr !! e with
                | None => (pr, false)
                | Some en =>
                    match en_sync en with
                    | None => (pr, false)
                    | Some u =>
                        if match en_comps en !! t' with
                           | None => true
                           | Some c => negb (value_eqb (c_val c) v')
                           end
                        then (upd_ent (pr <| t_ctok := (u, wire_type t v, p_tick pr) :: tok_remove (u, wire_type t v) (t_ctok pr) |>) e
                                (put_comp (p_tick (pr <| t_ctok := (u, wire_type t v, p_tick pr) :: tok_remove (u, wire_type t v) (t_ctok pr) |>)) t' v'), true)
                        else (pr, false)
                    end
                end).1).
    { intros t' v' Hv'. destruct (negb (memN t' (p_registry pr))); [exact HI|].
      destruct (p_ents pr !! e) as [en|]; [|exact HI].
      destruct (en_sync en) as [u|]; [|exact HI].
      destruct (match en_comps en !! t' with None => true | Some c => negb (value_eqb (c_val c) v') end);
        [|exact HI].
      cbn [fst]. apply Inv_put_comp; [irr|exact Hv']. }
    destruct v as [n|j p|j p]; cbv beta iota.
    - apply Hgen. exact Hv.
    - apply Hgen. exact Hv.
    - apply Hgen. unfold to_skinned_mesh. apply vt_skin_any.
  Qed.

  Ltac peel_irr := match goal with |- Inv (set ?proj ?f ?pr) => apply (Inv_view pr); [reflexivity|] end.
  Ltac inv_step := first
    [ assumption
    | apply Inv_send | apply Inv_send_all | apply Inv_broadcast | apply Inv_relay_except | apply Inv_send_up
    | apply Inv_push_cmd; [assumption| |] | apply Inv_set_panic | apply Inv_add_child | apply Inv_set_parent_twice
    | apply Inv_upd_ent_same; [|same_ent]
    | apply inb_msg_ok
    | peel_irr ].

  (* ---- snapshot ---- *)

  Lemma Inv_build_full_sync pr :
    Inv pr -> Inv (build_full_sync pr).1 /\ forall m, In m (build_full_sync pr).2 -> msg_ok m.
  Proof.
    intros HI. split.
    - apply (Inv_view pr); [symmetry; apply build_full_sync_view|exact HI].
    - intros m Hm. apply build_full_sync_msgs in Hm as [H|[H|[H|H]]].
      + destruct H as (e & en & Hl & Hin).
        apply snapshot_entity_msgs_In in Hin as (su & u & Hs & Hu & Hm).
        destruct (i_e2u pr HI _ _ Hu) as [Hk _].
        destruct Hm as [->|(t & c & Hc & Ht & _ & ->)]; [right; exact Hk|].
        destruct (i_ents pr HI _ _ Hl) as (_ & _ & Hty). specialize (Hty _ _ Hc).
        rewrite (i_types pr HI) in Ht.
        destruct (c_val c) as [n|j p|j p] eqn:Ev; simpl; right; right.
        * split; [exact Hk|]. split; [left; exact Ht|exact I].
        * split; [exact Hk|]. split; [right; split; [reflexivity|eapply vt_skinreg; eassumption]|exact I].
        * split; [exact Hk|]. split; [left; exact Ht|exact I].
      + destruct H as (e & en & Hl & Hin).
        apply snapshot_parent_msgs_In in Hin as (su & q & tk & u & pu & _ & _ & Hu & Hp & ->).
        right. split; [eapply i_e2u; eassumption|eapply i_e2u; eassumption].
      + destruct H as (Hmat & a & v & ->). right. rewrite <- (i_mat pr HI). exact Hmat.
      + destruct H as (c & a & o & Hc & -> & Hj).
        assert (Hon : class_on c = true).
        { unfold class_enabled in Hc. unfold class_on.
          destruct c; [rewrite <- (i_mesh pr HI)|rewrite <- (i_mat pr HI)|rewrite <- (i_audio pr HI)]; exact Hc. }
        destruct Hj as [(-> & _)|Hp].
        * right. split; [exact Hon|]. left. apply (i_id pr HI).
        * apply pending_of_In in Hp. destruct (i_pend pr HI _ _ _ Hp) as [Hi|Hq]; [left; exact Hi|].
          right. split; [exact Hon|]. right. exact Hq.
  Qed.

  (* ---- the queue of detected changes goes out (the system, and since the repair of S21 the first
     step of the host's CSendInitialSync) ---- *)

  Lemma Inv_react_components server pr : Inv pr -> Inv (react_on_changed_components server pr).
  Proof.
    intros HI. unfold react_on_changed_components. cbv zeta. apply foldl_inv.
    - apply Inv_set_queue; [exact HI|intros x []].
    - intros a [[u t] v] Hin Ha.
      destruct server; [apply Inv_broadcast|apply Inv_send_up]; try exact Ha;
        right; left; eapply (i_queue pr HI); eassumption.
  Qed.

  (* ---- deferred commands ---- *)

  Lemma Inv_apply_cmd pr c : Inv pr -> cmd_ok c -> Inv (apply_cmd pr c).
  Proof.
    intros HI Hc. destruct c; unfold apply_cmd; cbv beta iota.
    - (* CSpawnSync *) peel_irr. apply Inv_set_ents; [exact HI|]. intros e' en' Hl.
      destruct (decide (e' = e)) as [->|Hne].
      + rewrite lookup_insert in Hl. injection Hl as <-. split; [|split].
        * intros u' Hu'. injection Hu' as <-. exact Hc.
        * intros Hm. exfalso. apply Hm. reflexivity.
        * intros t c Hl. exfalso. cbn in Hl. rewrite lookup_empty in Hl. discriminate.
      + rewrite lookup_insert_ne in Hl by congruence. eapply i_ents; eassumption.
    - (* CDespawn *) apply Inv_set_ents; [exact HI|]. intros e' en' Hl.
      apply lookup_delete_Some in Hl as [_ Hl]. eapply i_ents; eassumption.
    - (* CInsertSync *) apply Inv_upd_ent; [exact HI|]. intros en _ (Hs & Hm & Hcs). split; [|split].
      + intros u' Hu'. injection Hu' as <-. exact Hc.
      + intros Hx. exfalso. apply Hx. reflexivity.
      + exact Hcs.
    - (* CApplyComp *) destruct Hc as [Hrel Hv].
      pose proof (Inv_apply_component_change pr e t v HI Hv) as H'.
      destruct (apply_component_change pr e t v) as [pr' ch]. cbn [fst] in H'.
      destruct from as [cl|]; [|exact H']. destruct ch; [|exact H'].
      apply Inv_relay_except; [exact H'|]. apply inb_msg_ok. apply Hrel. discriminate.
    - (* CSetParentSrv *) simpl in Hc. repeat dm; repeat inv_step.
    - (* CSetParentCli *) repeat dm; repeat inv_step.
    - (* CApplyMaterial *) cbv zeta. unfold insert_asset. simpl in Hc.
      destruct from as [cl|]; repeat inv_step. apply Hc. discriminate.
    - (* CRelay *) repeat inv_step.
    - (* CSendInitialSync *) cbv zeta. apply (Inv_react_components true) in HI.
      set (pr0 := react_on_changed_components true pr) in *.
      destruct (Inv_build_full_sync pr0 HI) as [H1 H2].
      destruct (build_full_sync pr0) as [pr1 ms]. cbn [fst snd] in *.
      apply Inv_send; [|exact I]. apply foldl_inv; [exact H1|].
      intros a x Hx Ha. apply Inv_send; [exact Ha|apply H2; exact Hx].
    - (* CRequestInitialSync *) destruct (Inv_build_full_sync pr HI) as [H1 _].
      destruct (build_full_sync pr) as [pr1 ms]. cbn [fst] in *. apply Inv_send_up; [exact H1|exact I].
    - (* CFixInsert *) cbv zeta. apply foldl_inv; [exact HI|]. intros a x _ Ha.
      apply Inv_put_comp; [exact Ha|apply vt_vn].
    - (* CStartServer *) repeat inv_step.
    - (* CStartClientTo *) cbv zeta. destruct set_flag; repeat inv_step.
    - repeat inv_step.
    - repeat inv_step.
    - (* CAppDespawnUuid *) dm; [exact HI|]. dm. apply Inv_set_ents; [exact HI|]. intros e' en' Hl.
      apply lookup_delete_Some in Hl as [_ Hl]. eapply i_ents; eassumption.
    - (* CAppDespawn *) apply Inv_set_ents; [exact HI|]. intros e' en' Hl.
      apply lookup_delete_Some in Hl as [_ Hl]. eapply i_ents; eassumption.
    - (* CAppInsert *) dm; [repeat inv_step|]. apply Inv_put_comp; [exact HI|exact Hc].
  Qed.

  Lemma Inv_apply_cmds cs : forall pr, Inv pr -> (forall c, In c cs -> cmd_ok c) -> Inv (apply_cmds pr cs).
  Proof.
    induction cs as [|c cs IH]; intros pr HI Hcs; simpl; [exact HI|].
    destruct (p_panic pr); [exact HI|]. apply IH.
    - apply Inv_apply_cmd; [exact HI|apply Hcs; left; reflexivity].
    - intros c' Hc'. apply Hcs. right. exact Hc'.
  Qed.

  Lemma Inv_flush pr : Inv pr -> Inv (flush pr).
  Proof.
    intros HI. unfold flush. apply foldl_inv; [exact HI|]. intros a s _ Ha. cbv zeta.
    destruct (p_cmdq a !! sys_key s) as [cs|] eqn:E; [|exact Ha].
    apply Inv_apply_cmds.
    - apply Inv_set_cmdq; [exact Ha| |].
      + intros k' cs' c' Hl Hin. apply lookup_delete_Some in Hl as [_ Hl]. eapply i_cmdq; eassumption.
      + intros k' cs' Hl. apply lookup_delete_Some in Hl as [_ Hl]. eapply i_keys; eassumption.
    - intros c Hc. eapply i_cmdq; eassumption.
  Qed.

  Ltac inv_auto := repeat first [exact I | inv_step].

  Lemma Inv_track pr u e :
    Inv pr -> known u -> keyP e ->
    Inv (pr <| t_u2e := <[u := e]> (t_u2e pr) |> <| t_e2u := <[e := u]> (t_e2u pr) |>).
  Proof.
    intros HI Hu He. apply Inv_set_e2u; [apply Inv_set_u2e; [exact HI|]|].
    - intros u' e' Hl. destruct (decide (u' = u)) as [->|Hne]; [exact Hu|].
      rewrite lookup_insert_ne in Hl by congruence. eapply i_u2e; eassumption.
    - intros e' u' Hl. destruct (decide (e' = e)) as [->|Hne].
      + rewrite lookup_insert in Hl. injection Hl as <-. split; assumption.
      + rewrite lookup_insert_ne in Hl by congruence. eapply i_e2u; eassumption.
  Qed.

  Lemma Inv_untrack pr u e :
    Inv pr -> Inv (pr <| t_u2e := delete u (t_u2e pr) |> <| t_e2u := delete e (t_e2u pr) |>).
  Proof.
    intros HI. apply Inv_set_e2u; [apply Inv_set_u2e; [exact HI|]|].
    - intros u' e' Hl. apply lookup_delete_Some in Hl as [_ Hl]. eapply i_u2e; eassumption.
    - intros e' u' Hl. apply lookup_delete_Some in Hl as [_ Hl]. eapply i_e2u; eassumption.
  Qed.

  (* ---- systems ---- *)

  Lemma Inv_entity_created server pr k last : keyOK k -> Inv pr -> Inv (entity_created server pr k last).
  Proof.
    intros Hk HI. unfold entity_created. apply foldl_inv; [exact HI|].
    intros a [e en] Hin Ha. destruct (newly_marked last en) eqn:Hn; [|exact Ha]. cbv zeta.
    assert (Hm : markP e).
    { apply In_map_to_list in Hin. destruct (i_ents pr HI _ _ Hin) as (_ & Hm & _).
      apply Hm. unfold newly_marked in Hn. destruct (en_mark en); [discriminate|discriminate]. }
    apply (Inv_push_cmd _ _ _ Hk); [|apply mark_known; exact Hm].
    destruct server.
    - apply Inv_track; [|apply mark_known; exact Hm|apply mark_key; exact Hm].
      apply Inv_broadcast; [exact Ha|]. right. apply mark_known; exact Hm.
    - apply Inv_send_up; [|right; apply mark_known; exact Hm].
      apply Inv_track; [exact Ha|apply mark_known; exact Hm|apply mark_key; exact Hm].
  Qed.

  Lemma Inv_entity_removed_server pr : Inv pr -> Inv (entity_removed_server pr).
  Proof.
    intros HI. unfold entity_removed_server. cbv zeta. apply foldl_inv.
    - apply Inv_set_e2u; [exact HI|]. intros e u Hl. apply foldl_delete_lookup in Hl.
      eapply i_e2u; eassumption.
    - intros a u Hin Ha. apply elem_of_list_In in Hin. rewrite elem_of_remove_dups in Hin.
      apply elem_of_list_fmap in Hin as ([e u'] & -> & Hin). apply elem_of_list_filter in Hin as [_ Hin].
      apply elem_of_map_to_list in Hin. destruct (i_e2u pr HI _ _ Hin) as [Hk _].
      apply Inv_broadcast; [|right; exact Hk]. apply Inv_set_u2e; [exact Ha|].
      intros u2 e2 Hl. apply lookup_delete_Some in Hl as [_ Hl]. eapply i_u2e; eassumption.
  Qed.

  Lemma Inv_entity_removed_client pr : Inv pr -> Inv (entity_removed_client pr).
  Proof.
    intros HI. unfold entity_removed_client. cbv zeta. apply foldl_inv.
    - peel_irr. apply Inv_set_u2e; [exact HI|]. intros u e Hl. apply foldl_delete_lookup in Hl.
      eapply i_u2e; eassumption.
    - intros a [u e] Hin Ha. apply elem_of_list_In in Hin. apply elem_of_list_filter in Hin as [_ Hin].
      apply elem_of_map_to_list in Hin. apply Inv_send_up; [exact Ha|]. right. eapply (i_u2e pr HI); eassumption.
  Qed.

  Lemma Inv_entity_parented_server pr last : Inv pr -> Inv (entity_parented_server pr last).
  Proof.
    intros HI. unfold entity_parented_server. apply foldl_inv; [exact HI|].
    intros a [e en] _ Ha. destruct (parent_changed last en) as [p|]; [|exact Ha].
    destruct (t_e2u a !! e) as [u|] eqn:E1; [|exact Ha].
    destruct (t_e2u a !! p) as [pu|] eqn:E2; [|exact Ha].
    cbv zeta. assert (Ha' : Inv (a <| t_ptok ::= delete u |>)) by (peel_irr; exact Ha).
    destruct (bool_decide (t_ptok a !! u = Some pu)); [exact Ha'|].
    apply Inv_broadcast; [exact Ha'|]. right.
    split; [eapply (i_e2u a Ha); eassumption|eapply (i_e2u a Ha); eassumption].
  Qed.

  Lemma Inv_entity_parented_client pr last : Inv pr -> Inv (entity_parented_client pr last).
  Proof.
    intros HI. unfold entity_parented_client. apply foldl_inv; [exact HI|].
    intros a [e en] Hin Ha. destruct (parent_changed last en) as [p|]; [|exact Ha].
    destruct (en_sync en) as [u|] eqn:E1; [|exact Ha].
    destruct (p_ents a !! p) as [pen|] eqn:E2; [|exact Ha].
    destruct (en_sync pen) as [pu|] eqn:E3; [|exact Ha].
    destruct (en_children pen); [exact Ha|].
    cbv zeta. assert (Ha' : Inv (a <| t_ptok ::= delete u |>)) by (peel_irr; exact Ha).
    destruct (bool_decide (t_ptok a !! u = Some pu)); [exact Ha'|].
    apply Inv_send_up; [exact Ha'|]. right. split.
    - apply In_map_to_list in Hin. destruct (i_ents pr HI _ _ Hin) as (Hs & _). apply Hs. exact E1.
    - destruct (i_ents a Ha _ _ E2) as (Hs & _). apply Hs. exact E3.
  Qed.

  Lemma Inv_sync_detect pr t last :
    Inv pr -> (forall x, detect_witness pr t x -> qP x) -> Inv (sync_detect pr t last).
  Proof.
    intros HI Hw. unfold sync_detect.
    refine (proj1 (foldl_inv (fun a => Inv a /\ t_e2u a = t_e2u pr) _ _ _ _ _));
      [split; [exact HI|reflexivity]|].
    intros a [e en] Hin [Ha He]. apply In_map_to_list in Hin.
    destruct (en_sync en) as [u|] eqn:E1; [|split; assumption].
    destruct (en_comps en !! t) as [c|] eqn:E2; [|split; assumption].
    destruct (negb (memN t (en_excl en)) && ((last <? c_changed c) || (last <? en_sync_added en))) eqn:E3;
      [|split; assumption].
    apply andb_true_iff in E3 as [E3 _]. apply negb_true_iff in E3.
    assert (Hne : ~ In t (en_excl en)) by (intros Hx; apply memN_In in Hx; congruence).
    destruct (c_val c) as [n|j p|j p] eqn:Ev; (split; [apply Inv_signal; [exact Ha|]|rewrite signal_e2u; exact He]);
      apply Hw; exists e, en, c; rewrite Ev; cbn [fst snd];
      (split; [exact Hin|split; [exact E1|split; [exact E2|split; [exact Hne|]]]]).
    - split; reflexivity.
    - split; [reflexivity|]. unfold to_skinned_mapper. rewrite He. reflexivity.
    - split; reflexivity.
  Qed.

  Lemma Inv_react_assets server k pr :
    Inv pr -> kind_on k = true -> Inv (react_on_changed_assets server k pr).
  Proof.
    intros HI Hk. unfold react_on_changed_assets. cbv zeta. apply foldl_inv; [irr|].
    intros a [k0 a0] _ Ha. destruct (a_store a !! akey k a0) as [v|]; [|exact Ha].
    destruct (memN a0 (t_htok a)); [irr|].
    destruct k as [|c].
    - destruct server; [apply Inv_broadcast|apply Inv_send_up]; try exact Ha; right; exact Hk.
    - cbv zeta. destruct server; [apply Inv_broadcast|apply Inv_send_up]; try irr;
        right; (split; [exact Hk|left; exact (i_id a Ha)]).
  Qed.

  Lemma Inv_process_assets pr c done : Inv pr -> Inv (process_assets pr c done).
  Proof.
    intros HI. unfold process_assets. apply foldl_inv; [exact HI|].
    intros a [[[c' a0] v] lst] _ Ha. dm; [|exact Ha]. cbv zeta. destruct v as [v|].
    - unfold insert_asset. do 2 peel_irr.
      apply Inv_set_pending; [irr|]. intros c1 a1 o1 Hin. cbn [d_pending set] in Hin.
      apply (i_pend a Ha). destruct lst.
      + apply In_filter_std in Hin as [Hin _]. exact Hin.
      + exact Hin.
    - apply Inv_set_pending; [exact Ha|]. intros c1 a1 o1 Hin. cbn [d_pending set] in Hin.
      apply (i_pend a Ha). destruct lst.
      + apply In_filter_std in Hin as [Hin _]. exact Hin.
      + exact Hin.
  Qed.

  Lemma Inv_promote_reader pr : Inv pr -> Inv (promote_reader pr).
  Proof.
    intros HI. unfold promote_reader. cbv zeta. apply foldl_inv; [irr|].
    intros a c _ Ha. apply Inv_send; [exact Ha|exact I].
  Qed.

  Lemma Inv_fix_system pr k last trigger without companions :
    keyOK k -> Inv pr -> Inv (fix_system pr k last trigger without companions).
  Proof.
    intros Hk HI. unfold fix_system. apply foldl_inv; [exact HI|].
    intros a [e en] _ Ha. repeat dm; try exact Ha. apply (Inv_push_cmd _ _ _ Hk); [exact Ha|exact I].
  Qed.

  Lemma Inv_request_asset pr c a owner : Inv pr -> inb (MAsset c a owner) -> Inv (request_asset pr c a owner).
  Proof.
    intros HI Hm. unfold request_asset. apply Inv_set_pending; [exact HI|].
    intros c1 a1 o1 Hin. apply in_app_or in Hin as [Hin|[Heq|[]]]; [exact (i_pend pr HI _ _ _ Hin)|].
    injection Heq as <- <- <-. left. exact Hm.
  Qed.

  Lemma Inv_server_received pr k from m : keyOK k -> Inv pr -> inb m -> Inv (server_received pr k from m).
  Proof.
    intros Hk HI Hm. destruct m; unfold server_received; cbv beta iota zeta.
    - (* MSpawn *) pose proof (inb_spawn _ Hm) as Hu. pose proof (i_next pr HI) as Hn.
      apply Inv_relay_except; [|apply inb_msg_ok; exact Hm].
      apply Inv_track; [|exact Hu|apply fresh_key; exact Hn].
      apply (Inv_push_cmd _ _ _ Hk); [|exact Hu]. peel_irr. apply Inv_set_next; [exact HI|lia].
    - (* MParented *) apply (Inv_push_cmd _ _ _ Hk); [exact HI|exact Hm].
    - (* MDelete *) apply Inv_relay_except; [|apply inb_msg_ok; exact Hm].
      destruct (t_u2e pr !! u) as [e|]; [|exact HI]. destruct (cmd_get_entity pr e); [|exact HI].
      apply Inv_untrack. apply (Inv_push_cmd _ _ _ Hk); [exact HI|exact I].
    - (* MComp *) destruct (t_u2e pr !! u) as [e|]; [|exact HI].
      apply (Inv_push_cmd _ _ _ Hk); [exact HI|]. split; [intros _; exact Hm|eapply inb_vt; exact Hm].
    - (* MMaterial *) apply (Inv_push_cmd _ _ _ Hk); [exact HI|]. intros _. exact Hm.
    - (* MAsset *) apply (Inv_push_cmd _ _ _ Hk); [apply Inv_request_asset; [exact HI|exact Hm]|exact Hm].
    - exact HI.
    - (* MNewHost *) apply (Inv_push_cmd _ _ _ Hk); [|exact I]. apply Inv_relay_except; [|exact I]. irr.
    - apply (Inv_push_cmd _ _ _ Hk); [exact HI|exact I].
    - exact HI.
  Qed.

  Lemma Inv_client_received pr k m : keyOK k -> Inv pr -> inb m -> Inv (client_received pr k m).
  Proof.
    intros Hk HI Hm. destruct m; unfold client_received; cbv beta iota zeta.
    - (* MSpawn *) pose proof (inb_spawn _ Hm) as Hu. pose proof (i_next pr HI) as Hn.
      match goal with |- Inv (if ?b then _ else _) => destruct b end; [exact HI|].
      apply Inv_track; [|exact Hu|apply fresh_key; exact Hn].
      apply (Inv_push_cmd _ _ _ Hk); [|exact Hu]. peel_irr. apply Inv_set_next; [exact HI|lia].
    - (* MParented *) repeat dm; try exact HI. apply (Inv_push_cmd _ _ _ Hk); [exact HI|exact I].
    - (* MDelete *) destruct (t_u2e pr !! u) as [e|]; [|exact HI]. destruct (cmd_get_entity pr e); [|exact HI].
      apply (Inv_push_cmd _ _ _ Hk); [|exact I]. apply Inv_untrack. exact HI.
    - (* MComp *) destruct (t_u2e pr !! u) as [e|]; [|exact HI].
      apply (Inv_push_cmd _ _ _ Hk); [exact HI|]. split; [intros Hx; exfalso; apply Hx; reflexivity|eapply inb_vt; exact Hm].
    - (* MMaterial *) apply (Inv_push_cmd _ _ _ Hk); [exact HI|]. intros Hx. exfalso. apply Hx. reflexivity.
    - (* MAsset *) apply Inv_request_asset; [exact HI|exact Hm].
    - apply (Inv_push_cmd _ _ _ Hk); [exact HI|exact I].
    - (* MNewHost *) apply (Inv_push_cmd _ _ _ Hk); [|exact I]. apply (Inv_push_cmd _ _ _ Hk); [|exact I]. irr.
    - exact HI.
    - irr.
  Qed.

  Lemma Inv_pop_inbox pr from m pr' :
    pop_inbox pr from = Some (m, pr') -> Inv pr -> Inv pr' /\ inb m.
  Proof.
    unfold pop_inbox. intros Hp HI. destruct (n_inbox pr !! from) as [[|m0 rest]|] eqn:E; try discriminate.
    injection Hp as <- <-. split.
    - apply Inv_set_inbox; [exact HI|]. intros from' l m' Hl Hin.
      destruct (decide (from' = from)) as [->|Hne].
      + rewrite lookup_insert in Hl. injection Hl as <-. eapply i_inbox; [exact HI|exact E|right; exact Hin].
      + rewrite lookup_insert_ne in Hl by congruence. eapply i_inbox; eassumption.
    - eapply i_inbox; [exact HI|exact E|left; reflexivity].
  Qed.

  Lemma Inv_server_poll pr k froms : keyOK k -> Inv pr -> Inv (server_poll pr k froms).
  Proof.
    intros Hk HI. unfold server_poll. apply foldl_inv; [exact HI|].
    intros a from _ Ha. destruct (pop_inbox a from) as [[m a']|] eqn:E; [|exact Ha].
    destruct (Inv_pop_inbox _ _ _ _ E Ha). apply Inv_server_received; assumption.
  Qed.

  Lemma Inv_client_poll pr k host n : keyOK k -> Inv pr -> Inv (client_poll pr k host n).
  Proof.
    intros Hk HI. unfold client_poll. apply foldl_inv; [exact HI|].
    intros a from _ Ha. destruct (pop_inbox a host) as [[m a']|] eqn:E; [|exact Ha].
    destruct (Inv_pop_inbox _ _ _ _ E Ha). apply Inv_client_received; assumption.
  Qed.

  Lemma Inv_client_connected pr k : keyOK k -> Inv pr -> Inv (client_connected pr k).
  Proof.
    intros Hk HI. unfold client_connected. cbv zeta. apply foldl_inv; [irr|].
    intros a [connected c] _ Ha. repeat dm; try exact Ha; (apply (Inv_push_cmd _ _ _ Hk); [irr|exact I]).
  Qed.

  Lemma Inv_verify_client_connected pr k : keyOK k -> Inv pr -> Inv (verify_client_connected pr k).
  Proof.
    intros Hk HI. unfold verify_client_connected. destruct (n_status pr); try exact HI. cbv zeta.
    dm; [apply (Inv_push_cmd _ _ _ Hk); [irr|exact I]|irr].
  Qed.

  Lemma Inv_run_body pr s o :
    keyOK (sys_key s) ->
    Inv pr -> (forall t, s = SDetect t -> forall x, detect_witness pr t x -> qP x) ->
    asset_gate mat mesh audio s -> Inv (run_body pr s o).
  Proof.
    intros Hk HI Hd Hg. unfold run_body, begin_run, end_run. cbv beta iota zeta. peel_irr.
    assert (HI' : Inv (pr <| p_tick := p_tick pr + 1 |>)) by irr.
    destruct s; cbv beta iota;
      try (apply Inv_fix_system; [exact Hk|exact HI']);
      try (apply Inv_react_assets; [exact HI'|exact Hg]).
    - irr.
    - irr.
    - apply Inv_entity_removed_server; exact HI'.
    - apply Inv_entity_created; [exact Hk|exact HI'].
    - apply Inv_entity_parented_server; exact HI'.
    - apply Inv_react_components; exact HI'.
    - apply Inv_promote_reader; exact HI'.
    - apply Inv_client_connected; [exact Hk|exact HI'].
    - apply Inv_server_poll; [exact Hk|exact HI'].
    - irr.
    - apply Inv_verify_client_connected; [exact Hk|exact HI'].
    - irr.
    - apply Inv_entity_removed_client; exact HI'.
    - apply Inv_entity_created; [exact Hk|exact HI'].
    - apply Inv_entity_parented_client; exact HI'.
    - apply Inv_react_components; exact HI'.
    - dm; [|exact HI']. dm. apply Inv_client_poll; [exact Hk|exact HI'].
    - apply Inv_process_assets; exact HI'.
    - apply Inv_process_assets; exact HI'.
    - apply Inv_process_assets; exact HI'.
    - apply Inv_sync_detect; [exact HI'|]. exact (Hd t eq_refl).
    - exact HI'.
    - apply foldl_inv.
      + apply Inv_set_app; [exact HI'|]. intros n c Hin. apply elem_of_list_In in Hin.
        apply elem_of_list_filter in Hin as [_ Hin]. apply elem_of_list_In in Hin.
        exact (i_app _ HI' _ _ Hin).
      + intros a [n c] Hin Ha. apply (Inv_push_cmd _ _ _ Hk); [exact Ha|]. apply elem_of_list_In in Hin.
        apply elem_of_list_filter in Hin as [_ Hin]. apply elem_of_list_In in Hin.
        apply app_cmd_ok. exact (i_app _ HI' _ _ Hin).
  Qed.

  Lemma Inv_run_system pr s o :
    keyOK (sys_key s) ->
    Inv pr -> (forall t, s = SDetect t -> forall x, detect_witness pr t x -> qP x) ->
    Inv (run_system pr s o).
  Proof.
    intros Hk HI Hd. unfold run_system. destruct (p_panic pr); [exact HI|]. cbv zeta.
    destruct s; cbv beta iota;
      unfold cond_resource_added, cond_resource_removed, begin_run, end_run; cbv beta iota zeta;
      try (apply Inv_flush; exact HI);
      try (apply Inv_run_body; [exact Hk|exact HI|intros ? ?; discriminate|exact I]).
    all: try (repeat dm;
              first [exact HI | irr
                    | apply Inv_run_body; [exact Hk|first [exact HI|irr]|intros ? ?; discriminate|exact I]]).
    - (* SSrvMat *) destruct (server_gate pr && t_mat pr) eqn:G; [|exact HI].
      apply andb_true_iff in G as [_ G]. apply Inv_run_body; [exact Hk|exact HI|intros ? ?; discriminate|].
      simpl. rewrite <- (i_mat pr HI). exact G.
    - (* SSrvImg *) destruct (server_gate pr && t_mat pr) eqn:G; [|exact HI].
      apply andb_true_iff in G as [_ G]. apply Inv_run_body; [exact Hk|exact HI|intros ? ?; discriminate|].
      simpl. rewrite <- (i_mat pr HI). exact G.
    - (* SSrvMesh *) destruct (server_gate pr && t_mesh pr) eqn:G; [|exact HI].
      apply andb_true_iff in G as [_ G]. apply Inv_run_body; [exact Hk|exact HI|intros ? ?; discriminate|].
      simpl. rewrite <- (i_mesh pr HI). exact G.
    - (* SSrvAudio *) destruct (server_gate pr && t_audio pr) eqn:G; [|exact HI].
      apply andb_true_iff in G as [_ G]. apply Inv_run_body; [exact Hk|exact HI|intros ? ?; discriminate|].
      simpl. rewrite <- (i_audio pr HI). exact G.
    - (* SCliMat *) destruct (client_gate pr && t_mat pr) eqn:G; [|exact HI].
      apply andb_true_iff in G as [_ G]. apply Inv_run_body; [exact Hk|exact HI|intros ? ?; discriminate|].
      simpl. rewrite <- (i_mat pr HI). exact G.
    - (* SCliImg *) destruct (client_gate pr && t_mat pr) eqn:G; [|exact HI].
      apply andb_true_iff in G as [_ G]. apply Inv_run_body; [exact Hk|exact HI|intros ? ?; discriminate|].
      simpl. rewrite <- (i_mat pr HI). exact G.
    - (* SCliMesh *) destruct (client_gate pr && t_mesh pr) eqn:G; [|exact HI].
      apply andb_true_iff in G as [_ G]. apply Inv_run_body; [exact Hk|exact HI|intros ? ?; discriminate|].
      simpl. rewrite <- (i_mesh pr HI). exact G.
    - (* SCliAudio *) destruct (client_gate pr && t_audio pr) eqn:G; [|exact HI].
      apply andb_true_iff in G as [_ G]. apply Inv_run_body; [exact Hk|exact HI|intros ? ?; discriminate|].
      simpl. rewrite <- (i_audio pr HI). exact G.
    - (* SDetect *) apply Inv_run_body; [exact Hk|exact HI|exact Hd|exact I].
  Qed.

  Lemma Inv_pre_update pr o : Inv pr -> Inv (pre_update pr o).
  Proof. intros HI. unfold pre_update. cbv zeta. destruct (fo_status o); irr. Qed.

  Lemma Inv_state_transition pr : Inv pr -> Inv (state_transition pr).
  Proof.
    intros HI. unfold state_transition. cbv zeta.
    destruct (s_next_client pr); cbv beta iota;
      (match goal with |- Inv (match ?x with _ => _ end) => destruct x end; [|first [exact HI|irr]]);
      (match goal with |- Inv (if ?b then _ else _) => destruct b end;
       [apply Inv_send_up; [irr|exact I]|irr]).
  Qed.

  Lemma Inv_last_schedule pr : Inv pr -> Inv (last_schedule pr).
  Proof. intros HI. unfold last_schedule. irr. Qed.

  Lemma Inv_frame_start pr o : Inv (pr <| p_out := [] |>) -> Inv (frame_start pr o).
  Proof. intros HI. unfold frame_start. apply Inv_state_transition, Inv_pre_update, HI. Qed.

  Lemma Inv_run_systems st o l :
    (forall s, In s l -> keyOK (sys_key s)) ->
    Inv st ->
    (forall pre t post x, l = pre ++ SDetect t :: post ->
       Inv (foldl (fun pr s => run_system pr s o) st pre) ->
       detect_witness (foldl (fun pr s => run_system pr s o) st pre) t x -> qP x) ->
    Inv (foldl (fun pr s => run_system pr s o) st l).
  Proof.
    intros Hks Hst. revert Hks. induction l as [|s l IH] using rev_ind; intros Hks Hd; [exact Hst|].
    rewrite foldl_app. cbn [foldl].
    assert (IH' : Inv (foldl (fun pr s => run_system pr s o) st l)).
    { apply IH; [intros s' Hs'; apply Hks; apply in_or_app; left; exact Hs'|].
      intros pre t post x -> HI Hw. eapply (Hd pre t (post ++ [s])); [|exact HI|exact Hw].
      rewrite <- app_assoc. reflexivity. }
    apply Inv_run_system; [apply Hks; apply in_or_app; right; left; reflexivity|exact IH'|]. intros t -> x Hw. eapply (Hd l t []); [reflexivity|exact IH'|exact Hw].
  Qed.

  Lemma Inv_frame pr o :
    p_panic pr = None -> Inv (pr <| p_out := [] |>) ->
    (forall s, In s order -> keyOK (sys_key s)) ->
    (forall pre t post x, order = pre ++ SDetect t :: post ->
       Inv (frame_mid pr o pre) -> detect_witness (frame_mid pr o pre) t x -> qP x) ->
    Inv (frame pr o).
  Proof.
    intros Hp HI Hks Hd. rewrite (frame_unfold pr o Hp). apply Inv_frame_start with (o := o) in HI.
    rewrite (i_order _ HI). apply Inv_last_schedule.
    assert (Hm : Inv (frame_mid pr o order)) by (apply Inv_run_systems; [exact Hks|exact HI|exact Hd]).
    destruct (p_panic (frame_mid pr o order)); [exact Hm|apply Inv_flush; exact Hm].
  Qed.

  (* what a detection-time witness implies, given the invariant of that state *)
  Lemma witness_base pr t x :
    Inv pr -> In t types -> detect_witness pr t x ->
    known x.1.1 /\ comp_opted x.1.2 /\ not_skin x.2.
  Proof.
    intros HI Ht (e & en & c & Hl & Hs & Hc & _ & Hm).
    destruct (i_ents pr HI _ _ Hl) as (Hk & _ & Hty). specialize (Hty _ _ Hc).
    split; [apply Hk; exact Hs|].
    destruct (c_val c) as [n|j p|j p]; destruct Hm as [-> ->].
    - split; [left; exact Ht|exact I].
    - split; [right; split; [reflexivity|eapply vt_skinreg; eassumption]|exact I].
    - split; [left; exact Ht|exact I].
  Qed.

End invariant.
