(* C04 "only opted-in data ever leaves a peer": the frame invariant and its preservation by
   every function of the model.  The invariant is generic in the predicates that classify
   messages (relayed / known uuid / queue-entry provenance / value typing) so that the same
   walk through the model serves the unconditional configuration-constancy theorem, the opt-in
   theorem and the detection-time provenance theorem of OptIn.v. *)
From stdpp Require Import gmap list.
From Coq Require Import NArith Lia.
From RecordUpdate Require Import RecordSet.
From BS Require Import Sync.Types Sync.Model.
Import RecordSetNotations.
Local Open Scope N_scope.

(* ---------- generic list / map helpers ---------------------------------------------------- *)

Lemma foldl_inv {A B} (P : A -> Prop) (f : A -> B -> A) (l : list B) (a : A) :
  P a -> (forall a x, In x l -> P a -> P (f a x)) -> P (foldl f a l).
Proof.
  revert a. induction l as [|x l IH]; intros a Ha Hf; simpl; [exact Ha|].
  apply IH; [apply Hf; [left; reflexivity|exact Ha]|].
  intros a' y Hy. apply Hf. right. exact Hy.
Qed.

Lemma memN_In x l : memN x l = true <-> In x l.
Proof.
  unfold memN. rewrite existsb_exists. split.
  - intros (y & Hy & He). apply N.eqb_eq in He. subst. exact Hy.
  - intros H. exists x. split; [exact H|apply N.eqb_refl].
Qed.

Lemma In_removeN x y l : In y (removeN x l) -> In y l.
Proof.
  unfold removeN. intros H. apply elem_of_list_In in H. apply elem_of_list_filter in H.
  apply elem_of_list_In. tauto.
Qed.

Lemma In_filter_std {A} (P : A -> Prop) `{forall x, Decision (P x)} (x : A) (l : list A) :
  In x (filter P l) -> In x l /\ P x.
Proof.
  intros Hx. apply elem_of_list_In in Hx. apply elem_of_list_filter in Hx.
  rewrite <- elem_of_list_In. tauto.
Qed.

Lemma In_map_to_list {K A} `{Countable K} (m : gmap K A) k v :
  In (k, v) (map_to_list m) <-> m !! k = Some v.
Proof. rewrite <- elem_of_list_In. apply elem_of_map_to_list. Qed.

Lemma foldl_delete_lookup {K A B} `{Countable K} (l : list (K * B)) (m : gmap K A) k v :
  foldl (fun m '(e, _) => delete e m) m l !! k = Some v -> m !! k = Some v.
Proof.
  revert m. induction l as [|[e b] l IH]; intros m; simpl; [tauto|].
  intros Hl. apply IH in Hl. apply lookup_delete_Some in Hl. tauto.
Qed.

(* ---------- classification of values, messages, commands ----------------------------------- *)

Definition not_skin (v : value) : Prop := match v with VSkin _ _ => False | _ => True end.
Definition val_typed (t : tyid) (v : value) : Prop :=
  match v with VSkin _ _ => t = T_SKIN | _ => True end.

(* a deferred command that re-sends message m to the other clients when applied *)
Definition cmd_relays (c : cmd) (m : msg) : Prop :=
  match c with
  | CRelay _ m' => m' = m
  | CApplyComp (Some _) _ u t v => m = MComp u t v
  | CSetParentSrv _ cu pu => m = MParented cu pu
  | CApplyMaterial (Some _) a v => m = MMaterial a v
  | _ => False
  end.

(* the entity (uuid) a message is about *)
Definition msg_subjects (m : msg) : list uuid :=
  match m with
  | MSpawn u | MDelete u | MComp u _ _ => [u]
  | MParented c p => [c; p]
  | _ => []
  end.

(* the fields the invariant reads: everything else is irrelevant *)
Definition view (pr : peer_state) :=
  (p_sync_types pr, t_mat pr, t_mesh pr, t_audio pr, p_id pr, p_order pr,
   p_out pr, p_cmdq pr, p_app_cmds pr, t_queue pr, n_inbox pr, t_u2e pr, t_e2u pr, p_ents pr,
   p_next_ent pr).

(* ---------- the snapshot (build_full_sync): what it contains, on the state alone ------------ *)

Lemma snapshot_entity_msgs_In pr e en m :
  In m (snapshot_entity_msgs pr e en) ->
  exists su u, en_sync en = Some su /\ t_e2u pr !! e = Some u /\
    (m = MSpawn u \/
     exists t c, en_comps en !! t = Some c /\ In t (p_sync_types pr) /\ ~ In t (en_excl en) /\
       m = match c_val c with
           | VSkin j p => MComp u T_MAPPER (to_skinned_mapper pr j p)
           | v => MComp u t v
           end).
Proof.
  unfold snapshot_entity_msgs. destruct (en_sync en) as [su|]; [|intros []].
  destruct (t_e2u pr !! e) as [u|]; [|intros []].
  intros [<-|Hin]; exists su, u; (split; [reflexivity|split;[reflexivity|]]); [left; reflexivity|].
  right. apply elem_of_list_In in Hin. apply elem_of_list_omap in Hin as ([t c] & Hl & Hf).
  apply elem_of_map_to_list in Hl.
  destruct (memN t (p_sync_types pr) && negb (memN t (en_excl en))) eqn:Hb; [|discriminate].
  apply andb_true_iff in Hb as [H1 H2]. apply memN_In in H1. apply negb_true_iff in H2.
  exists t, c. split; [exact Hl|]. split; [exact H1|]. split.
  - intros Hx. apply memN_In in Hx. congruence.
  - injection Hf as <-. reflexivity.
Qed.

Lemma snapshot_parent_msgs_In pr e en m :
  In m (snapshot_parent_msgs pr e en) ->
  exists su q tk u pu, en_sync en = Some su /\ en_parent en = Some (q, tk) /\
    t_e2u pr !! e = Some u /\ t_e2u pr !! q = Some pu /\ m = MParented u pu.
Proof.
  unfold snapshot_parent_msgs. destruct (en_sync en) as [su|] eqn:E1; [|intros []].
  destruct (en_parent en) as [[q tk]|] eqn:E2; [|intros []].
  destruct (t_e2u pr !! e) as [u|] eqn:E3; [|intros []].
  destruct (t_e2u pr !! q) as [pu|] eqn:E4; [|intros []].
  intros [<-|[]]. exists su, q, tk, u, pu. repeat split; assumption.
Qed.

Lemma serve_all_view pr c : view (serve_all pr c).1 = view pr.
Proof. unfold serve_all. destruct (class_enabled pr (KClass c)); reflexivity. Qed.

Lemma view_class_enabled a b k : view a = view b -> class_enabled a k = class_enabled b k.
Proof.
  unfold view. intros Hv. injection Hv as E1 E2 E3 E4 E5 E6 E7 E8 E9 E10 E11 E12 E13 E14 E15.
  unfold class_enabled. destruct k as [|[]]; congruence.
Qed.

Lemma view_id a b : view a = view b -> p_id a = p_id b.
Proof.
  unfold view. intros Hv. injection Hv as E1 E2 E3 E4 E5 E6 E7 E8 E9 E10 E11 E12 E13 E14 E15.
  congruence.
Qed.

Lemma view_mat a b : view a = view b -> t_mat a = t_mat b.
Proof.
  unfold view. intros Hv. injection Hv as E1 E2 E3 E4 E5 E6 E7 E8 E9 E10 E11 E12 E13 E14 E15.
  congruence.
Qed.

Lemma serve_all_msgs pr c m :
  In m (serve_all pr c).2 -> class_enabled pr (KClass c) = true /\ exists a, m = MAsset c a (p_id pr).
Proof.
  unfold serve_all. destruct (class_enabled pr (KClass c)); cbn [snd]; [|intros []].
  intros Hin. split; [reflexivity|]. apply elem_of_list_In in Hin.
  apply elem_of_list_fmap in Hin as ([a v] & -> & _). exists a. reflexivity.
Qed.

Lemma In_concat_fmap {A B} (f : A -> list B) (l : list A) (y : B) :
  In y (concat (f <$> l)) -> exists x, In x l /\ In y (f x).
Proof.
  intros Hin. apply in_concat in Hin as (l' & Hl' & Hy).
  apply elem_of_list_In in Hl'. apply elem_of_list_fmap in Hl' as (x & -> & Hx).
  exists x. split; [apply elem_of_list_In; exact Hx|exact Hy].
Qed.

Lemma build_full_sync_view pr : view (build_full_sync pr).1 = view pr.
Proof.
  unfold build_full_sync. cbv zeta.
  pose proof (serve_all_view pr AImage) as V1.
  destruct (serve_all pr AImage) as [pr1 mi].
  pose proof (serve_all_view pr1 AMesh) as V2.
  destruct (serve_all pr1 AMesh) as [pr2 me].
  pose proof (serve_all_view pr2 AAudio) as V3.
  destruct (serve_all pr2 AAudio) as [pr3 ma].
  cbn [fst] in *. congruence.
Qed.

Lemma In_take_drop {A} (x : A) n l : In x (take n l) \/ In x (drop n l) -> In x l.
Proof. intros H. rewrite <- (take_drop n l). apply in_or_app. exact H. Qed.

Lemma build_full_sync_msgs pr m :
  In m (build_full_sync pr).2 ->
  (exists e en, p_ents pr !! e = Some en /\ In m (snapshot_entity_msgs pr e en)) \/
  (exists e en, p_ents pr !! e = Some en /\ In m (snapshot_parent_msgs pr e en)) \/
  (t_mat pr = true /\ exists a v, m = MMaterial a v) \/
  (exists c a, class_enabled pr (KClass c) = true /\ m = MAsset c a (p_id pr)).
Proof.
  unfold build_full_sync. cbv zeta.
  pose proof (serve_all_view pr AImage) as V1.
  pose proof (serve_all_msgs pr AImage m) as M1.
  destruct (serve_all pr AImage) as [pr1 mi].
  pose proof (serve_all_view pr1 AMesh) as V2.
  pose proof (serve_all_msgs pr1 AMesh m) as M2.
  destruct (serve_all pr1 AMesh) as [pr2 me].
  pose proof (serve_all_view pr2 AAudio) as V3.
  pose proof (serve_all_msgs pr2 AAudio m) as M3.
  destruct (serve_all pr2 AAudio) as [pr3 ma].
  cbn [fst snd] in *. intros Hin.
  rewrite !in_app_iff in Hin. destruct Hin as [[H|H]|[H|[H|[H|[H|H]]]]].
  - left. apply In_concat_fmap in H as ([e en] & Hx & Hy).
    exists e, en. split; [apply In_map_to_list; exact Hx|apply (In_take_drop _ 1); left; exact Hy].
  - left. apply In_concat_fmap in H as ([e en] & Hx & Hy).
    exists e, en. split; [apply In_map_to_list; exact Hx|apply (In_take_drop _ 1); right; exact Hy].
  - right. left. apply In_concat_fmap in H as ([e en] & Hx & Hy).
    exists e, en. split; [apply In_map_to_list; exact Hx|exact Hy].
  - right. right. right. destruct (M1 H) as (Hc & a & ->). exists AImage, a. split; [exact Hc|reflexivity].
  - right. right. left. unfold snapshot_material_msgs in H.
    rewrite (view_mat _ _ V1) in H. destruct (t_mat pr); [|destruct H]. split; [reflexivity|].
    apply elem_of_list_In in H. apply elem_of_list_fmap in H as ([a v] & -> & _). eauto.
  - right. right. right. destruct (M2 H) as (Hc & a & ->). exists AMesh, a.
    rewrite (view_class_enabled _ _ _ V1) in Hc. rewrite (view_id _ _ V1). split; [exact Hc|reflexivity].
  - right. right. right. destruct (M3 H) as (Hc & a & ->). exists AAudio, a.
    rewrite (view_class_enabled _ _ _ V2), (view_class_enabled _ _ _ V1) in Hc.
    rewrite (view_id _ _ V2), (view_id _ _ V1). split; [exact Hc|reflexivity].
Qed.

(* what sync_detect::<t> reads when it queues an entry: a synchronised entity, carrying t, not
   excluded for t, in the state in which the detector runs *)
Definition detect_witness (pr : peer_state) (t : tyid) (x : uuid * tyid * value) : Prop :=
  exists e en c, p_ents pr !! e = Some en /\ en_sync en = Some x.1.1 /\
    en_comps en !! t = Some c /\ ~ In t (en_excl en) /\
    match c_val c with
    | VSkin j p => x.1.2 = T_MAPPER /\ x.2 = to_skinned_mapper pr j p
    | v => x.1.2 = t /\ x.2 = v
    end.

Lemma signal_e2u pr u t v ch : t_e2u (signal_component_changed pr u t v ch) = t_e2u pr.
Proof.
  unfold signal_component_changed. destruct (tok_find (u, t) (t_ctok pr)) as [at_|]; [|reflexivity].
  cbv zeta. destruct (at_ =? ch); reflexivity.
Qed.

(* whichever branch is taken (no debounce entry, or an entry of another tick), the only value that
   can be queued is the signalled one *)
Lemma signal_queue pr u t v ch x :
  In x (t_queue (signal_component_changed pr u t v ch)) -> In x (t_queue pr) \/ x = (u, t, v).
Proof.
  unfold signal_component_changed. destruct (tok_find (u, t) (t_ctok pr)) as [at_|]; cbv zeta.
  - destruct (at_ =? ch); cbn [t_queue set]; [tauto|].
    intros H. apply in_app_or in H as [H|[<-|[]]]; tauto.
  - cbn [t_queue set]. intros H. apply in_app_or in H as [H|[<-|[]]]; tauto.
Qed.

(* the asset switch a react system is gated by *)
Definition asset_gate (mat mesh audio : bool) (s : sysid) : Prop :=
  match s with
  | SSrvMat | SCliMat | SSrvImg | SCliImg => mat = true
  | SSrvMesh | SCliMesh => mesh = true
  | SSrvAudio | SCliAudio => audio = true
  | _ => True
  end.

Lemma sync_detect_adds pr t last x :
  In x (t_queue (sync_detect pr t last)) -> In x (t_queue pr) \/ detect_witness pr t x.
Proof.
  unfold sync_detect.
  refine (proj2 (foldl_inv (fun a => t_e2u a = t_e2u pr /\
            (In x (t_queue a) -> In x (t_queue pr) \/ detect_witness pr t x)) _ _ _ _ _));
    [split; [reflexivity|tauto]|].
  intros a [e en] Hin [He Hq]. apply In_map_to_list in Hin.
  destruct (en_sync en) as [u|] eqn:E1; [|split; assumption].
  destruct (en_comps en !! t) as [c|] eqn:E2; [|split; assumption].
  destruct (negb (memN t (en_excl en)) && ((last <? c_changed c) || (last <? en_sync_added en))) eqn:E3;
    [|split; assumption].
  apply andb_true_iff in E3 as [E3 _]. apply negb_true_iff in E3.
  assert (Hne : ~ In t (en_excl en)) by (intros Hx; apply memN_In in Hx; congruence).
  destruct (c_val c) as [n|j p|j p] eqn:Ev; (split; [rewrite signal_e2u; exact He|]);
    intros Hx; apply signal_queue in Hx as [Hx| ->]; try (apply Hq; exact Hx);
    right; exists e, en, c; rewrite Ev; cbn [fst snd];
    (split; [exact Hin|split; [exact E1|split; [exact E2|split; [exact Hne|]]]]).
  - split; reflexivity.
  - split; [reflexivity|]. unfold to_skinned_mapper. rewrite He. reflexivity.
  - split; reflexivity.
Qed.

(* the states a frame goes through: after PreUpdate and StateTransition, and after a prefix
   of the Update schedule *)
Definition frame_start (pr : peer_state) (o : frame_oracle) : peer_state :=
  state_transition (pre_update (pr <| p_out := [] |>) o).
Definition frame_mid (pr : peer_state) (o : frame_oracle) (pre : list sysid) : peer_state :=
  foldl (fun pr s => run_system pr s o) (frame_start pr o) pre.

Lemma frame_unfold pr o :
  p_panic pr = None ->
  frame pr o =
  last_schedule (match p_panic (frame_mid pr o (p_order (frame_start pr o))) with
                 | Some _ => frame_mid pr o (p_order (frame_start pr o))
                 | None => flush (frame_mid pr o (p_order (frame_start pr o)))
                 end).
Proof. intros Hp. unfold frame. rewrite Hp. reflexivity. Qed.

Section invariant.
  (* the configuration of the peer during the frame *)
  Variable types : list tyid.
  Variable mat mesh audio : bool.
  Variable me : peer.
  Variable order : list sysid.
  (* messages that may be relayed: they were received *)
  Variable inb : msg -> Prop.
  (* uuids the sync machinery of this peer knew at the start of the frame *)
  Variable known : uuid -> Prop.
  (* entities carrying SyncMark at the start of the frame; allowed keys of entity_to_uuid *)
  Variable markP : ent -> Prop.
  Variable keyP : ent -> Prop.
  Variable lo : N.
  (* provenance of the entries of the change queue *)
  Variable qP : uuid * tyid * value -> Prop.
  (* typing of component values, and what a skinned-mesh value under a registered type implies *)
  Variable vt : tyid -> value -> Prop.
  Variable skinreg : Prop.
  (* the commands application systems may issue *)
  Variable appP : cmd -> Prop.
  (* the keys under which deferred commands may be buffered *)
  Variable keyOK : N -> Prop.

  Hypothesis inb_spawn : forall u, inb (MSpawn u) -> known u.
  Hypothesis inb_vt : forall u t v, inb (MComp u t v) -> vt t v.
  Hypothesis vt_skin_any : forall j p, vt T_SKIN (VSkin j p).
  Hypothesis vt_vn : forall t n, vt t (VN n).
  Hypothesis vt_skinreg : forall t j p, vt t (VSkin j p) -> In t types -> skinreg.
  Hypothesis mark_known : forall e, markP e -> known e.
  Hypothesis mark_key : forall e, markP e -> keyP e.
  Hypothesis fresh_key : forall e, lo <= e -> keyP e.

  Definition comp_opted (t : tyid) : Prop := In t types \/ (t = T_MAPPER /\ skinreg).
  Definition class_on (c : aclass) : bool :=
    match c with AImage => mat | AMesh => mesh | AAudio => audio end.
  Definition kind_on (k : akind) : bool :=
    match k with KMaterial => mat | KClass c => class_on c end.

  Definition msg_ok (m : msg) : Prop :=
    match m with
    | MSpawn u | MDelete u => inb m \/ known u
    | MParented c p => inb m \/ (known c /\ known p)
    | MComp u t v => inb m \/ qP (u, t, v) \/ (known u /\ comp_opted t /\ not_skin v)
    | MMaterial a v => inb m \/ mat = true
    | MAsset c a owner => inb m \/ (class_on c = true /\ owner = me)
    | MPromote | MNewHost _ | MReqInit | MFinInit => True
    end.

  Definition cmd_ok (c : cmd) : Prop :=
    match c with
    | CSpawnSync _ u | CInsertSync _ u => known u
    | CApplyComp from _ u t v => (from <> None -> inb (MComp u t v)) /\ vt t v
    | CSetParentSrv _ cu pu => inb (MParented cu pu)
    | CApplyMaterial from a v => from <> None -> inb (MMaterial a v)
    | CRelay _ m => inb m
    | CAppInsert _ t v => vt t v
    | _ => True
    end.

  Hypothesis app_cmd_ok : forall c, appP c -> cmd_ok c.

  Definition ent_ok (e : ent) (en : entity) : Prop :=
    (forall u, en_sync en = Some u -> known u) /\
    (en_mark en <> None -> markP e) /\
    (forall t c, en_comps en !! t = Some c -> vt t (c_val c)).

  Record Inv (pr : peer_state) : Prop := {
    i_types : p_sync_types pr = types;
    i_mat : t_mat pr = mat;
    i_mesh : t_mesh pr = mesh;
    i_audio : t_audio pr = audio;
    i_id : p_id pr = me;
    i_order : p_order pr = order;
    i_out : forall d m, In (d, m) (p_out pr) -> msg_ok m;
    i_cmdq : forall k cs c, p_cmdq pr !! k = Some cs -> In c cs -> cmd_ok c;
    i_keys : forall k cs, p_cmdq pr !! k = Some cs -> keyOK k;
    i_app : forall n c, In (n, c) (p_app_cmds pr) -> appP c;
    i_queue : forall x, In x (t_queue pr) -> qP x;
    i_inbox : forall from l m, n_inbox pr !! from = Some l -> In m l -> inb m;
    i_u2e : forall u e, t_u2e pr !! u = Some e -> known u;
    i_e2u : forall e u, t_e2u pr !! e = Some u -> known u /\ keyP e;
    i_ents : forall e en, p_ents pr !! e = Some en -> ent_ok e en;
    i_next : lo <= p_next_ent pr;
  }.

  Lemma Inv_view pr pr' : view pr = view pr' -> Inv pr -> Inv pr'.
  Proof.
    unfold view. intros Hv [? ? ? ? ? ? ? ? ? ? ? ? ? ? ? ?].
    injection Hv as E1 E2 E3 E4 E5 E6 E7 E8 E9 E10 E11 E12 E13 E14 E15.
    constructor;
      first [rewrite <- E1|rewrite <- E2|rewrite <- E3|rewrite <- E4|rewrite <- E5|rewrite <- E6
            |rewrite <- E7|rewrite <- E8|rewrite <- E9|rewrite <- E10|rewrite <- E11|rewrite <- E12
            |rewrite <- E13|rewrite <- E14|rewrite <- E15]; assumption.
  Qed.

  Ltac irr := (eapply Inv_view; [|eassumption]; reflexivity).
  Ltac dm := match goal with |- context [match ?x with _ => _ end] =>
    lazymatch x with
    | context [match _ with _ => _ end] => fail
    | _ => destruct x eqn:?; cbv beta iota
    end end.

  (* ---- setters of the relevant fields ---- *)

  Lemma Inv_set_out pr o :
    Inv pr -> (forall d m, In (d, m) o -> msg_ok m) -> Inv (pr <| p_out := o |>).
  Proof. intros [] Ho. constructor; try assumption. Qed.

  Lemma Inv_set_cmdq pr q :
    Inv pr -> (forall k cs c, q !! k = Some cs -> In c cs -> cmd_ok c) ->
    (forall k cs, q !! k = Some cs -> keyOK k) -> Inv (pr <| p_cmdq := q |>).
  Proof. intros [] Ho Hk. constructor; try assumption. Qed.

  Lemma Inv_set_app pr q :
    Inv pr -> (forall n c, In (n, c) q -> appP c) -> Inv (pr <| p_app_cmds := q |>).
  Proof. intros [] Ho. constructor; try assumption. Qed.

  Lemma Inv_set_queue pr q :
    Inv pr -> (forall x, In x q -> qP x) -> Inv (pr <| t_queue := q |>).
  Proof. intros [] Ho. constructor; try assumption. Qed.

  Lemma Inv_set_inbox pr q :
    Inv pr -> (forall from l m, q !! from = Some l -> In m l -> inb m) -> Inv (pr <| n_inbox := q |>).
  Proof. intros [] Ho. constructor; try assumption. Qed.

  Lemma Inv_set_u2e pr q :
    Inv pr -> (forall u e, q !! u = Some e -> known u) -> Inv (pr <| t_u2e := q |>).
  Proof. intros [] Ho. constructor; try assumption. Qed.

  Lemma Inv_set_e2u pr q :
    Inv pr -> (forall e u, q !! e = Some u -> known u /\ keyP e) -> Inv (pr <| t_e2u := q |>).
  Proof. intros [] Ho. constructor; try assumption. Qed.

  Lemma Inv_set_ents pr q :
    Inv pr -> (forall e en, q !! e = Some en -> ent_ok e en) -> Inv (pr <| p_ents := q |>).
  Proof. intros [] Ho. constructor; try assumption. Qed.

  Lemma Inv_set_next pr n :
    Inv pr -> lo <= n -> Inv (pr <| p_next_ent := n |>).
  Proof. intros [] Ho. constructor; try assumption. Qed.

  (* ---- primitives ---- *)

  Lemma Inv_send pr d m : Inv pr -> msg_ok m -> Inv (send pr d m).
  Proof.
    intros HI Hm. unfold send. apply Inv_set_out; [exact HI|].
    intros d' m' Hin. apply in_app_or in Hin as [Hin|[Heq|[]]].
    - eapply i_out; eassumption.
    - injection Heq as <- <-. exact Hm.
  Qed.

  Lemma Inv_send_all pr ds m : Inv pr -> msg_ok m -> Inv (send_all pr ds m).
  Proof.
    intros HI Hm. unfold send_all. apply foldl_inv; [exact HI|].
    intros a x _ Ha. apply Inv_send; assumption.
  Qed.

  Lemma Inv_broadcast pr m : Inv pr -> msg_ok m -> Inv (broadcast pr m).
  Proof. intros. unfold broadcast. apply Inv_send_all; assumption. Qed.

  Lemma Inv_relay_except pr from m : Inv pr -> msg_ok m -> Inv (relay_except pr from m).
  Proof. intros. unfold relay_except. apply Inv_send_all; assumption. Qed.

  Lemma Inv_send_up pr m : Inv pr -> msg_ok m -> Inv (send_up pr m).
  Proof.
    intros. unfold send_up. destruct (n_cli_transport pr) as [[h ?]|]; [apply Inv_send|]; assumption.
  Qed.

  Lemma inb_msg_ok m : inb m -> msg_ok m.
  Proof. intros H. destruct m; simpl; auto. Qed.

  Lemma Inv_push_cmd pr k c : keyOK k -> Inv pr -> cmd_ok c -> Inv (push_cmd pr k c).
  Proof.
    intros Hk HI Hc. unfold push_cmd. apply Inv_set_cmdq; [exact HI| |].
    - intros k' cs c' Hl Hin. destruct (decide (k' = k)) as [->|Hne].
      + rewrite lookup_insert in Hl. injection Hl as <-.
        apply in_app_or in Hin as [Hin|[<-|[]]]; [|exact Hc].
        destruct (p_cmdq pr !! k) eqn:E; simpl in Hin; [eapply i_cmdq; eassumption|destruct Hin].
      + rewrite lookup_insert_ne in Hl by congruence. eapply i_cmdq; eassumption.
    - intros k' cs Hl. destruct (decide (k' = k)) as [->|Hne]; [exact Hk|].
      rewrite lookup_insert_ne in Hl by congruence. eapply i_keys; eassumption.
  Qed.

  Lemma Inv_set_panic pr s : Inv pr -> Inv (set_panic pr s).
  Proof. intros HI. unfold set_panic. destruct (p_panic pr); [exact HI|irr]. Qed.

  Lemma Inv_upd_ent pr e f :
    Inv pr -> (forall en, p_ents pr !! e = Some en -> ent_ok e en -> ent_ok e (f en)) ->
    Inv (upd_ent pr e f).
  Proof.
    intros HI Hf. unfold upd_ent. destruct (p_ents pr !! e) as [en|] eqn:E; [|exact HI].
    apply Inv_set_ents; [exact HI|].
    intros e' en' Hl. destruct (decide (e' = e)) as [->|Hne].
    - rewrite lookup_insert in Hl. injection Hl as <-. apply Hf; [reflexivity|].
      eapply i_ents; eassumption.
    - rewrite lookup_insert_ne in Hl by congruence. eapply i_ents; eassumption.
  Qed.

  Lemma ent_ok_same e en en' :
    en_sync en' = en_sync en -> en_mark en' = en_mark en -> en_comps en' = en_comps en ->
    ent_ok e en -> ent_ok e en'.
  Proof. unfold ent_ok. intros -> -> ->. tauto. Qed.

  Lemma Inv_upd_ent_same pr e f :
    Inv pr ->
    (forall en, en_sync (f en) = en_sync en /\ en_mark (f en) = en_mark en /\ en_comps (f en) = en_comps en) ->
    Inv (upd_ent pr e f).
  Proof.
    intros HI Hf. apply Inv_upd_ent; [exact HI|]. intros en _. destruct (Hf en) as (? & ? & ?).
    apply ent_ok_same; assumption.
  Qed.

  Lemma ent_ok_put_comp e en now t v : ent_ok e en -> vt t v -> ent_ok e (put_comp now t v en).
  Proof.
    intros (Hs & Hm & Hc) Hv. unfold put_comp.
    destruct (en_comps en !! t) as [c0|] eqn:E; (split; [exact Hs|split; [exact Hm|]]);
      intros t' c' Hl; simpl in Hl;
      (destruct (decide (t' = t)) as [->|Hne];
       [rewrite lookup_insert in Hl; injection Hl as <-; exact Hv
       |rewrite lookup_insert_ne in Hl by congruence; eapply Hc; eassumption]).
  Qed.

  Lemma Inv_put_comp pr e now t v : Inv pr -> vt t v -> Inv (upd_ent pr e (put_comp now t v)).
  Proof. intros HI Hv. apply Inv_upd_ent; [exact HI|]. intros en _ Hen. apply ent_ok_put_comp; assumption. Qed.

  Ltac same_ent := (intros; repeat split; reflexivity).

  Lemma Inv_add_child pr p c : Inv pr -> Inv (add_child pr p c).
  Proof.
    intros HI. unfold add_child.
    destruct (negb (alive pr p)); [apply Inv_set_panic; exact HI|].
    destruct (p =? c); [apply Inv_set_panic; exact HI|].
    cbv zeta. apply Inv_upd_ent_same; [|same_ent].
    assert (HI1 : Inv (upd_ent pr c (fun en => en <| en_parent := Some (p, p_tick pr) |>)))
      by (apply Inv_upd_ent_same; [exact HI|same_ent]).
    repeat dm; try exact HI1; apply Inv_upd_ent_same; [exact HI1|same_ent].
  Qed.

  Lemma Inv_set_parent_twice pr c p : Inv pr -> Inv (set_parent_twice pr c p).
  Proof.
    intros HI. unfold set_parent_twice. cbv zeta.
    destruct (p_panic (add_child pr p c)); repeat apply Inv_add_child; exact HI.
  Qed.

  Lemma Inv_signal pr u t v ch : Inv pr -> qP (u, t, v) -> Inv (signal_component_changed pr u t v ch).
  Proof.
    intros HI Hq.
    assert (Hpush : forall a, Inv a -> Inv (a <| t_queue := t_queue a ++ [(u, t, v)] |>)).
    { intros a Ha. apply Inv_set_queue; [exact Ha|]. intros x Hx.
      apply in_app_or in Hx as [Hx|[<-|[]]]; [eapply i_queue; eassumption|exact Hq]. }
    unfold signal_component_changed. destruct (tok_find (u, t) (t_ctok pr)) as [at_|]; [|apply Hpush; exact HI].
    cbv zeta. assert (HI' : Inv (pr <| t_ctok := tok_remove (u, t) (t_ctok pr) |>)) by irr.
    destruct (at_ =? ch); [exact HI'|apply Hpush; exact HI'].
  Qed.

  Lemma Inv_apply_component_change pr e t v :
    Inv pr -> vt t v -> Inv (apply_component_change pr e t v).1.
  Proof.
    intros HI Hv. unfold apply_component_change. cbv zeta.
    destruct (negb (memN (wire_type t v) (p_registry pr))); [exact HI|].
    assert (Hgen : forall t' v', vt t' v' ->
      Inv (if negb (memN t' (p_registry pr)) then (pr, false)
           else match p_ents pr !! e with
                | None => (pr, false)
                | Some en =>
                    match en_sync en with
                    | None => (pr, false)
                    | Some u =>
                        if match en_comps en !! t' with
                           | None => true
                           | Some c => negb (value_eqb (c_val c) v')
                           end
                        then (upd_ent (pr <| t_ctok := (u, wire_type t v, p_tick pr) :: tok_remove (u, wire_type t v) (t_ctok pr) |>) e
                                (put_comp (p_tick (pr <| t_ctok := (u, wire_type t v, p_tick pr) :: tok_remove (u, wire_type t v) (t_ctok pr) |>)) t' v'), true)
                        else (pr, false)
                    end
                end).1).
    { intros t' v' Hv'. destruct (negb (memN t' (p_registry pr))); [exact HI|].
      destruct (p_ents pr !! e) as [en|]; [|exact HI].
      destruct (en_sync en) as [u|]; [|exact HI].
      destruct (match en_comps en !! t' with None => true | Some c => negb (value_eqb (c_val c) v') end);
        [|exact HI].
      cbn [fst]. apply Inv_put_comp; [irr|exact Hv']. }
    destruct v as [n|j p|j p]; cbv beta iota.
    - apply Hgen. exact Hv.
    - apply Hgen. exact Hv.
    - apply Hgen. unfold to_skinned_mesh. apply vt_skin_any.
  Qed.

  Ltac peel_irr := match goal with |- Inv (set ?proj ?f ?pr) => apply (Inv_view pr); [reflexivity|] end.
  Ltac inv_step := first
    [ assumption
    | apply Inv_send | apply Inv_send_all | apply Inv_broadcast | apply Inv_relay_except | apply Inv_send_up
    | apply Inv_push_cmd; [assumption| |] | apply Inv_set_panic | apply Inv_add_child | apply Inv_set_parent_twice
    | apply Inv_upd_ent_same; [|same_ent]
    | apply inb_msg_ok
    | peel_irr ].

  (* ---- snapshot ---- *)

  Lemma Inv_build_full_sync pr :
    Inv pr -> Inv (build_full_sync pr).1 /\ forall m, In m (build_full_sync pr).2 -> msg_ok m.
  Proof.
    intros HI. split.
    - apply (Inv_view pr); [symmetry; apply build_full_sync_view|exact HI].
    - intros m Hm. apply build_full_sync_msgs in Hm as [H|[H|[H|H]]].
      + destruct H as (e & en & Hl & Hin).
        apply snapshot_entity_msgs_In in Hin as (su & u & Hs & Hu & Hm).
        destruct (i_e2u pr HI _ _ Hu) as [Hk _].
        destruct Hm as [->|(t & c & Hc & Ht & _ & ->)]; [right; exact Hk|].
        destruct (i_ents pr HI _ _ Hl) as (_ & _ & Hty). specialize (Hty _ _ Hc).
        rewrite (i_types pr HI) in Ht.
        destruct (c_val c) as [n|j p|j p] eqn:Ev; simpl; right; right.
        * split; [exact Hk|]. split; [left; exact Ht|exact I].
        * split; [exact Hk|]. split; [right; split; [reflexivity|eapply vt_skinreg; eassumption]|exact I].
        * split; [exact Hk|]. split; [left; exact Ht|exact I].
      + destruct H as (e & en & Hl & Hin).
        apply snapshot_parent_msgs_In in Hin as (su & q & tk & u & pu & _ & _ & Hu & Hp & ->).
        right. split; [eapply i_e2u; eassumption|eapply i_e2u; eassumption].
      + destruct H as (Hmat & a & v & ->). right. rewrite <- (i_mat pr HI). exact Hmat.
      + destruct H as (c & a & Hc & ->). right. split; [|apply (i_id pr HI)].
        unfold class_enabled in Hc. unfold class_on.
        destruct c; [rewrite <- (i_mesh pr HI)|rewrite <- (i_mat pr HI)|rewrite <- (i_audio pr HI)]; exact Hc.
  Qed.

  (* ---- the queue of detected changes goes out (the system, and since the repair of S21 the first
     step of the host's CSendInitialSync) ---- *)

  Lemma Inv_react_components server pr : Inv pr -> Inv (react_on_changed_components server pr).
  Proof.
    intros HI. unfold react_on_changed_components. cbv zeta. apply foldl_inv.
    - apply Inv_set_queue; [exact HI|intros x []].
    - intros a [[u t] v] Hin Ha.
      destruct server; [apply Inv_broadcast|apply Inv_send_up]; try exact Ha;
        right; left; eapply (i_queue pr HI); eassumption.
  Qed.

  (* ---- deferred commands ---- *)

  Lemma Inv_apply_cmd pr c : Inv pr -> cmd_ok c -> Inv (apply_cmd pr c).
  Proof.
    intros HI Hc. destruct c; unfold apply_cmd; cbv beta iota.
    - (* CSpawnSync *) peel_irr. apply Inv_set_ents; [exact HI|]. intros e' en' Hl.
      destruct (decide (e' = e)) as [->|Hne].
      + rewrite lookup_insert in Hl. injection Hl as <-. split; [|split].
        * intros u' Hu'. injection Hu' as <-. exact Hc.
        * intros Hm. exfalso. apply Hm. reflexivity.
        * intros t c Hl. exfalso. cbn in Hl. rewrite lookup_empty in Hl. discriminate.
      + rewrite lookup_insert_ne in Hl by congruence. eapply i_ents; eassumption.
    - (* CDespawn *) apply Inv_set_ents; [exact HI|]. intros e' en' Hl.
      apply lookup_delete_Some in Hl as [_ Hl]. eapply i_ents; eassumption.
    - (* CInsertSync *) apply Inv_upd_ent; [exact HI|]. intros en _ (Hs & Hm & Hcs). split; [|split].
      + intros u' Hu'. injection Hu' as <-. exact Hc.
      + intros Hx. exfalso. apply Hx. reflexivity.
      + exact Hcs.
    - (* CApplyComp *) destruct Hc as [Hrel Hv].
      pose proof (Inv_apply_component_change pr e t v HI Hv) as H'.
      destruct (apply_component_change pr e t v) as [pr' ch]. cbn [fst] in H'.
      destruct from as [cl|]; [|exact H']. destruct ch; [|exact H'].
      apply Inv_relay_except; [exact H'|]. apply inb_msg_ok. apply Hrel. discriminate.
    - (* CSetParentSrv *) simpl in Hc. repeat dm; repeat inv_step.
    - (* CSetParentCli *) repeat dm; repeat inv_step.
    - (* CApplyMaterial *) cbv zeta. unfold insert_asset. simpl in Hc.
      destruct from as [cl|]; repeat inv_step. apply Hc. discriminate.
    - (* CRelay *) repeat inv_step.
    - (* CSendInitialSync *) cbv zeta. apply (Inv_react_components true) in HI.
      set (pr0 := react_on_changed_components true pr) in *.
      destruct (Inv_build_full_sync pr0 HI) as [H1 H2].
      destruct (build_full_sync pr0) as [pr1 ms]. cbn [fst snd] in *.
      apply Inv_send; [|exact I]. apply foldl_inv; [exact H1|].
      intros a x Hx Ha. apply Inv_send; [exact Ha|apply H2; exact Hx].
    - (* CRequestInitialSync *) destruct (Inv_build_full_sync pr HI) as [H1 _].
      destruct (build_full_sync pr) as [pr1 ms]. cbn [fst] in *. apply Inv_send_up; [exact H1|exact I].
    - (* CFixInsert *) cbv zeta. apply foldl_inv; [exact HI|]. intros a x _ Ha.
      apply Inv_put_comp; [exact Ha|apply vt_vn].
    - (* CStartServer *) repeat inv_step.
    - (* CStartClientTo *) cbv zeta. destruct set_flag; repeat inv_step.
    - repeat inv_step.
    - repeat inv_step.
    - (* CAppDespawnUuid *) dm; [exact HI|]. dm. apply Inv_set_ents; [exact HI|]. intros e' en' Hl.
      apply lookup_delete_Some in Hl as [_ Hl]. eapply i_ents; eassumption.
    - (* CAppDespawn *) apply Inv_set_ents; [exact HI|]. intros e' en' Hl.
      apply lookup_delete_Some in Hl as [_ Hl]. eapply i_ents; eassumption.
    - (* CAppInsert *) dm; [repeat inv_step|]. apply Inv_put_comp; [exact HI|exact Hc].
  Qed.

  Lemma Inv_apply_cmds cs : forall pr, Inv pr -> (forall c, In c cs -> cmd_ok c) -> Inv (apply_cmds pr cs).
  Proof.
    induction cs as [|c cs IH]; intros pr HI Hcs; simpl; [exact HI|].
    destruct (p_panic pr); [exact HI|]. apply IH.
    - apply Inv_apply_cmd; [exact HI|apply Hcs; left; reflexivity].
    - intros c' Hc'. apply Hcs. right. exact Hc'.
  Qed.

  Lemma Inv_flush pr : Inv pr -> Inv (flush pr).
  Proof.
    intros HI. unfold flush. apply foldl_inv; [exact HI|]. intros a s _ Ha. cbv zeta.
    destruct (p_cmdq a !! sys_key s) as [cs|] eqn:E; [|exact Ha].
    apply Inv_apply_cmds.
    - apply Inv_set_cmdq; [exact Ha| |].
      + intros k' cs' c' Hl Hin. apply lookup_delete_Some in Hl as [_ Hl]. eapply i_cmdq; eassumption.
      + intros k' cs' Hl. apply lookup_delete_Some in Hl as [_ Hl]. eapply i_keys; eassumption.
    - intros c Hc. eapply i_cmdq; eassumption.
  Qed.

  Ltac inv_auto := repeat first [exact I | inv_step].

  Lemma Inv_track pr u e :
    Inv pr -> known u -> keyP e ->
    Inv (pr <| t_u2e := <[u := e]> (t_u2e pr) |> <| t_e2u := <[e := u]> (t_e2u pr) |>).
  Proof.
    intros HI Hu He. apply Inv_set_e2u; [apply Inv_set_u2e; [exact HI|]|].
    - intros u' e' Hl. destruct (decide (u' = u)) as [->|Hne]; [exact Hu|].
      rewrite lookup_insert_ne in Hl by congruence. eapply i_u2e; eassumption.
    - intros e' u' Hl. destruct (decide (e' = e)) as [->|Hne].
      + rewrite lookup_insert in Hl. injection Hl as <-. split; assumption.
      + rewrite lookup_insert_ne in Hl by congruence. eapply i_e2u; eassumption.
  Qed.

  Lemma Inv_untrack pr u e :
    Inv pr -> Inv (pr <| t_u2e := delete u (t_u2e pr) |> <| t_e2u := delete e (t_e2u pr) |>).
  Proof.
    intros HI. apply Inv_set_e2u; [apply Inv_set_u2e; [exact HI|]|].
    - intros u' e' Hl. apply lookup_delete_Some in Hl as [_ Hl]. eapply i_u2e; eassumption.
    - intros e' u' Hl. apply lookup_delete_Some in Hl as [_ Hl]. eapply i_e2u; eassumption.
  Qed.

  (* ---- systems ---- *)

  Lemma Inv_entity_created server pr k last : keyOK k -> Inv pr -> Inv (entity_created server pr k last).
  Proof.
    intros Hk HI. unfold entity_created. apply foldl_inv; [exact HI|].
    intros a [e en] Hin Ha. destruct (newly_marked last en) eqn:Hn; [|exact Ha]. cbv zeta.
    assert (Hm : markP e).
    { apply In_map_to_list in Hin. destruct (i_ents pr HI _ _ Hin) as (_ & Hm & _).
      apply Hm. unfold newly_marked in Hn. destruct (en_mark en); [discriminate|discriminate]. }
    apply (Inv_push_cmd _ _ _ Hk); [|apply mark_known; exact Hm].
    destruct server.
    - apply Inv_track; [|apply mark_known; exact Hm|apply mark_key; exact Hm].
      apply Inv_broadcast; [exact Ha|]. right. apply mark_known; exact Hm.
    - apply Inv_send_up; [|right; apply mark_known; exact Hm].
      apply Inv_track; [exact Ha|apply mark_known; exact Hm|apply mark_key; exact Hm].
  Qed.

  Lemma Inv_entity_removed_server pr : Inv pr -> Inv (entity_removed_server pr).
  Proof.
    intros HI. unfold entity_removed_server. cbv zeta. apply foldl_inv.
    - apply Inv_set_e2u; [exact HI|]. intros e u Hl. apply foldl_delete_lookup in Hl.
      eapply i_e2u; eassumption.
    - intros a u Hin Ha. apply elem_of_list_In in Hin. rewrite elem_of_remove_dups in Hin.
      apply elem_of_list_fmap in Hin as ([e u'] & -> & Hin). apply elem_of_list_filter in Hin as [_ Hin].
      apply elem_of_map_to_list in Hin. destruct (i_e2u pr HI _ _ Hin) as [Hk _].
      apply Inv_broadcast; [|right; exact Hk]. apply Inv_set_u2e; [exact Ha|].
      intros u2 e2 Hl. apply lookup_delete_Some in Hl as [_ Hl]. eapply i_u2e; eassumption.
  Qed.

  Lemma Inv_entity_removed_client pr : Inv pr -> Inv (entity_removed_client pr).
  Proof.
    intros HI. unfold entity_removed_client. cbv zeta. apply foldl_inv.
    - peel_irr. apply Inv_set_u2e; [exact HI|]. intros u e Hl. apply foldl_delete_lookup in Hl.
      eapply i_u2e; eassumption.
    - intros a [u e] Hin Ha. apply elem_of_list_In in Hin. apply elem_of_list_filter in Hin as [_ Hin].
      apply elem_of_map_to_list in Hin. apply Inv_send_up; [exact Ha|]. right. eapply (i_u2e pr HI); eassumption.
  Qed.

  Lemma Inv_entity_parented_server pr last : Inv pr -> Inv (entity_parented_server pr last).
  Proof.
    intros HI. unfold entity_parented_server. apply foldl_inv; [exact HI|].
    intros a [e en] _ Ha. destruct (parent_changed last en) as [p|]; [|exact Ha].
    destruct (t_e2u a !! e) as [u|] eqn:E1; [|exact Ha].
    destruct (t_e2u a !! p) as [pu|] eqn:E2; [|exact Ha].
    cbv zeta. assert (Ha' : Inv (a <| t_ptok ::= delete u |>)) by (peel_irr; exact Ha).
    destruct (bool_decide (t_ptok a !! u = Some pu)); [exact Ha'|].
    apply Inv_broadcast; [exact Ha'|]. right.
    split; [eapply (i_e2u a Ha); eassumption|eapply (i_e2u a Ha); eassumption].
  Qed.

  Lemma Inv_entity_parented_client pr last : Inv pr -> Inv (entity_parented_client pr last).
  Proof.
    intros HI. unfold entity_parented_client. apply foldl_inv; [exact HI|].
    intros a [e en] Hin Ha. destruct (parent_changed last en) as [p|]; [|exact Ha].
    destruct (en_sync en) as [u|] eqn:E1; [|exact Ha].
    destruct (p_ents a !! p) as [pen|] eqn:E2; [|exact Ha].
    destruct (en_sync pen) as [pu|] eqn:E3; [|exact Ha].
    destruct (en_children pen); [exact Ha|].
    cbv zeta. assert (Ha' : Inv (a <| t_ptok ::= delete u |>)) by (peel_irr; exact Ha).
    destruct (bool_decide (t_ptok a !! u = Some pu)); [exact Ha'|].
    apply Inv_send_up; [exact Ha'|]. right. split.
    - apply In_map_to_list in Hin. destruct (i_ents pr HI _ _ Hin) as (Hs & _). apply Hs. exact E1.
    - destruct (i_ents a Ha _ _ E2) as (Hs & _). apply Hs. exact E3.
  Qed.

  Lemma Inv_sync_detect pr t last :
    Inv pr -> (forall x, detect_witness pr t x -> qP x) -> Inv (sync_detect pr t last).
  Proof.
    intros HI Hw. unfold sync_detect.
    refine (proj1 (foldl_inv (fun a => Inv a /\ t_e2u a = t_e2u pr) _ _ _ _ _));
      [split; [exact HI|reflexivity]|].
    intros a [e en] Hin [Ha He]. apply In_map_to_list in Hin.
    destruct (en_sync en) as [u|] eqn:E1; [|split; assumption].
    destruct (en_comps en !! t) as [c|] eqn:E2; [|split; assumption].
    destruct (negb (memN t (en_excl en)) && ((last <? c_changed c) || (last <? en_sync_added en))) eqn:E3;
      [|split; assumption].
    apply andb_true_iff in E3 as [E3 _]. apply negb_true_iff in E3.
    assert (Hne : ~ In t (en_excl en)) by (intros Hx; apply memN_In in Hx; congruence).
    destruct (c_val c) as [n|j p|j p] eqn:Ev; (split; [apply Inv_signal; [exact Ha|]|rewrite signal_e2u; exact He]);
      apply Hw; exists e, en, c; rewrite Ev; cbn [fst snd];
      (split; [exact Hin|split; [exact E1|split; [exact E2|split; [exact Hne|]]]]).
    - split; reflexivity.
    - split; [reflexivity|]. unfold to_skinned_mapper. rewrite He. reflexivity.
    - split; reflexivity.
  Qed.

  Lemma Inv_react_assets server k pr :
    Inv pr -> kind_on k = true -> Inv (react_on_changed_assets server k pr).
  Proof.
    intros HI Hk. unfold react_on_changed_assets. cbv zeta. apply foldl_inv; [irr|].
    intros a [k0 a0] _ Ha. destruct (a_store a !! akey k a0) as [v|]; [|exact Ha].
    destruct (memN a0 (t_htok a)); [irr|].
    destruct k as [|c].
    - destruct server; [apply Inv_broadcast|apply Inv_send_up]; try exact Ha; right; exact Hk.
    - cbv zeta. destruct server; [apply Inv_broadcast|apply Inv_send_up]; try irr;
        right; (split; [exact Hk|exact (i_id a Ha)]).
  Qed.

  Lemma Inv_process_assets pr c done : Inv pr -> Inv (process_assets pr c done).
  Proof.
    intros HI. unfold process_assets. apply foldl_inv; [exact HI|].
    intros a [[c' a0] v] _ Ha. dm; [|exact Ha]. cbv zeta. unfold insert_asset. irr.
  Qed.

  Lemma Inv_promote_reader pr : Inv pr -> Inv (promote_reader pr).
  Proof.
    intros HI. unfold promote_reader. cbv zeta. apply foldl_inv; [irr|].
    intros a c _ Ha. apply Inv_send; [exact Ha|exact I].
  Qed.

  Lemma Inv_fix_system pr k last trigger without companions :
    keyOK k -> Inv pr -> Inv (fix_system pr k last trigger without companions).
  Proof.
    intros Hk HI. unfold fix_system. apply foldl_inv; [exact HI|].
    intros a [e en] _ Ha. repeat dm; try exact Ha. apply (Inv_push_cmd _ _ _ Hk); [exact Ha|exact I].
  Qed.

  Lemma Inv_request_asset pr c a owner : Inv pr -> Inv (request_asset pr c a owner).
  Proof. intros HI. unfold request_asset. irr. Qed.

  Lemma Inv_server_received pr k from m : keyOK k -> Inv pr -> inb m -> Inv (server_received pr k from m).
  Proof.
    intros Hk HI Hm. destruct m; unfold server_received; cbv beta iota zeta.
    - (* MSpawn *) pose proof (inb_spawn _ Hm) as Hu. pose proof (i_next pr HI) as Hn.
      apply Inv_relay_except; [|apply inb_msg_ok; exact Hm].
      apply Inv_track; [|exact Hu|apply fresh_key; exact Hn].
      apply (Inv_push_cmd _ _ _ Hk); [|exact Hu]. peel_irr. apply Inv_set_next; [exact HI|lia].
    - (* MParented *) apply (Inv_push_cmd _ _ _ Hk); [exact HI|exact Hm].
    - (* MDelete *) apply Inv_relay_except; [|apply inb_msg_ok; exact Hm].
      destruct (t_u2e pr !! u) as [e|]; [|exact HI]. destruct (cmd_get_entity pr e); [|exact HI].
      apply Inv_untrack. apply (Inv_push_cmd _ _ _ Hk); [exact HI|exact I].
    - (* MComp *) destruct (t_u2e pr !! u) as [e|]; [|exact HI].
      apply (Inv_push_cmd _ _ _ Hk); [exact HI|]. split; [intros _; exact Hm|eapply inb_vt; exact Hm].
    - (* MMaterial *) apply (Inv_push_cmd _ _ _ Hk); [exact HI|]. intros _. exact Hm.
    - (* MAsset *) apply (Inv_push_cmd _ _ _ Hk); [apply Inv_request_asset; exact HI|exact Hm].
    - exact HI.
    - (* MNewHost *) apply (Inv_push_cmd _ _ _ Hk); [|exact I]. apply Inv_relay_except; [|exact I]. irr.
    - apply (Inv_push_cmd _ _ _ Hk); [exact HI|exact I].
    - exact HI.
  Qed.

  Lemma Inv_client_received pr k m : keyOK k -> Inv pr -> inb m -> Inv (client_received pr k m).
  Proof.
    intros Hk HI Hm. destruct m; unfold client_received; cbv beta iota zeta.
    - (* MSpawn *) pose proof (inb_spawn _ Hm) as Hu. pose proof (i_next pr HI) as Hn.
      match goal with |- Inv (if ?b then _ else _) => destruct b end; [exact HI|].
      apply Inv_track; [|exact Hu|apply fresh_key; exact Hn].
      apply (Inv_push_cmd _ _ _ Hk); [|exact Hu]. peel_irr. apply Inv_set_next; [exact HI|lia].
    - (* MParented *) repeat dm; try exact HI. apply (Inv_push_cmd _ _ _ Hk); [exact HI|exact I].
    - (* MDelete *) destruct (t_u2e pr !! u) as [e|]; [|exact HI]. destruct (cmd_get_entity pr e); [|exact HI].
      apply (Inv_push_cmd _ _ _ Hk); [|exact I]. apply Inv_untrack. exact HI.
    - (* MComp *) destruct (t_u2e pr !! u) as [e|]; [|exact HI].
      apply (Inv_push_cmd _ _ _ Hk); [exact HI|]. split; [intros Hx; exfalso; apply Hx; reflexivity|eapply inb_vt; exact Hm].
    - (* MMaterial *) apply (Inv_push_cmd _ _ _ Hk); [exact HI|]. intros Hx. exfalso. apply Hx. reflexivity.
    - (* MAsset *) apply Inv_request_asset; exact HI.
    - apply (Inv_push_cmd _ _ _ Hk); [exact HI|exact I].
    - (* MNewHost *) apply (Inv_push_cmd _ _ _ Hk); [|exact I]. apply (Inv_push_cmd _ _ _ Hk); [|exact I]. irr.
    - exact HI.
    - irr.
  Qed.

  Lemma Inv_pop_inbox pr from m pr' :
    pop_inbox pr from = Some (m, pr') -> Inv pr -> Inv pr' /\ inb m.
  Proof.
    unfold pop_inbox. intros Hp HI. destruct (n_inbox pr !! from) as [[|m0 rest]|] eqn:E; try discriminate.
    injection Hp as <- <-. split.
    - apply Inv_set_inbox; [exact HI|]. intros from' l m' Hl Hin.
      destruct (decide (from' = from)) as [->|Hne].
      + rewrite lookup_insert in Hl. injection Hl as <-. eapply i_inbox; [exact HI|exact E|right; exact Hin].
      + rewrite lookup_insert_ne in Hl by congruence. eapply i_inbox; eassumption.
    - eapply i_inbox; [exact HI|exact E|left; reflexivity].
  Qed.

  Lemma Inv_server_poll pr k froms : keyOK k -> Inv pr -> Inv (server_poll pr k froms).
  Proof.
    intros Hk HI. unfold server_poll. apply foldl_inv; [exact HI|].
    intros a from _ Ha. destruct (pop_inbox a from) as [[m a']|] eqn:E; [|exact Ha].
    destruct (Inv_pop_inbox _ _ _ _ E Ha). apply Inv_server_received; assumption.
  Qed.

  Lemma Inv_client_poll pr k host n : keyOK k -> Inv pr -> Inv (client_poll pr k host n).
  Proof.
    intros Hk HI. unfold client_poll. apply foldl_inv; [exact HI|].
    intros a from _ Ha. destruct (pop_inbox a host) as [[m a']|] eqn:E; [|exact Ha].
    destruct (Inv_pop_inbox _ _ _ _ E Ha). apply Inv_client_received; assumption.
  Qed.

  Lemma Inv_client_connected pr k : keyOK k -> Inv pr -> Inv (client_connected pr k).
  Proof.
    intros Hk HI. unfold client_connected. cbv zeta. apply foldl_inv; [irr|].
    intros a [connected c] _ Ha. repeat dm; try exact Ha; (apply (Inv_push_cmd _ _ _ Hk); [irr|exact I]).
  Qed.

  Lemma Inv_verify_client_connected pr k : keyOK k -> Inv pr -> Inv (verify_client_connected pr k).
  Proof.
    intros Hk HI. unfold verify_client_connected. destruct (n_status pr); try exact HI. cbv zeta.
    dm; [apply (Inv_push_cmd _ _ _ Hk); [irr|exact I]|irr].
  Qed.

  Lemma Inv_run_body pr s o :
    keyOK (sys_key s) ->
    Inv pr -> (forall t, s = SDetect t -> forall x, detect_witness pr t x -> qP x) ->
    asset_gate mat mesh audio s -> Inv (run_body pr s o).
  Proof.
    intros Hk HI Hd Hg. unfold run_body, begin_run, end_run. cbv beta iota zeta. peel_irr.
    assert (HI' : Inv (pr <| p_tick := p_tick pr + 1 |>)) by irr.
    destruct s; cbv beta iota;
      try (apply Inv_fix_system; [exact Hk|exact HI']);
      try (apply Inv_react_assets; [exact HI'|exact Hg]).
    - irr.
    - irr.
    - apply Inv_entity_removed_server; exact HI'.
    - apply Inv_entity_created; [exact Hk|exact HI'].
    - apply Inv_entity_parented_server; exact HI'.
    - apply Inv_react_components; exact HI'.
    - apply Inv_promote_reader; exact HI'.
    - apply Inv_client_connected; [exact Hk|exact HI'].
    - apply Inv_server_poll; [exact Hk|exact HI'].
    - irr.
    - apply Inv_verify_client_connected; [exact Hk|exact HI'].
    - irr.
    - apply Inv_entity_removed_client; exact HI'.
    - apply Inv_entity_created; [exact Hk|exact HI'].
    - apply Inv_entity_parented_client; exact HI'.
    - apply Inv_react_components; exact HI'.
    - dm; [|exact HI']. dm. apply Inv_client_poll; [exact Hk|exact HI'].
    - apply Inv_process_assets; exact HI'.
    - apply Inv_process_assets; exact HI'.
    - apply Inv_process_assets; exact HI'.
    - apply Inv_sync_detect; [exact HI'|]. exact (Hd t eq_refl).
    - exact HI'.
    - apply foldl_inv.
      + apply Inv_set_app; [exact HI'|]. intros n c Hin. apply elem_of_list_In in Hin.
        apply elem_of_list_filter in Hin as [_ Hin]. apply elem_of_list_In in Hin.
        exact (i_app _ HI' _ _ Hin).
      + intros a [n c] Hin Ha. apply (Inv_push_cmd _ _ _ Hk); [exact Ha|]. apply elem_of_list_In in Hin.
        apply elem_of_list_filter in Hin as [_ Hin]. apply elem_of_list_In in Hin.
        apply app_cmd_ok. exact (i_app _ HI' _ _ Hin).
  Qed.

  Lemma Inv_run_system pr s o :
    keyOK (sys_key s) ->
    Inv pr -> (forall t, s = SDetect t -> forall x, detect_witness pr t x -> qP x) ->
    Inv (run_system pr s o).
  Proof.
    intros Hk HI Hd. unfold run_system. destruct (p_panic pr); [exact HI|]. cbv zeta.
    destruct s; cbv beta iota;
      unfold cond_resource_added, cond_resource_removed, begin_run, end_run; cbv beta iota zeta;
      try (apply Inv_flush; exact HI);
      try (apply Inv_run_body; [exact Hk|exact HI|intros ? ?; discriminate|exact I]).
    all: try (repeat dm;
              first [exact HI | irr
                    | apply Inv_run_body; [exact Hk|first [exact HI|irr]|intros ? ?; discriminate|exact I]]).
    - (* SSrvMat *) destruct (server_gate pr && t_mat pr) eqn:G; [|exact HI].
      apply andb_true_iff in G as [_ G]. apply Inv_run_body; [exact Hk|exact HI|intros ? ?; discriminate|].
      simpl. rewrite <- (i_mat pr HI). exact G.
    - (* SSrvImg *) destruct (server_gate pr && t_mat pr) eqn:G; [|exact HI].
      apply andb_true_iff in G as [_ G]. apply Inv_run_body; [exact Hk|exact HI|intros ? ?; discriminate|].
      simpl. rewrite <- (i_mat pr HI). exact G.
    - (* SSrvMesh *) destruct (server_gate pr && t_mesh pr) eqn:G; [|exact HI].
      apply andb_true_iff in G as [_ G]. apply Inv_run_body; [exact Hk|exact HI|intros ? ?; discriminate|].
      simpl. rewrite <- (i_mesh pr HI). exact G.
    - (* SSrvAudio *) destruct (server_gate pr && t_audio pr) eqn:G; [|exact HI].
      apply andb_true_iff in G as [_ G]. apply Inv_run_body; [exact Hk|exact HI|intros ? ?; discriminate|].
      simpl. rewrite <- (i_audio pr HI). exact G.
    - (* SCliMat *) destruct (client_gate pr && t_mat pr) eqn:G; [|exact HI].
      apply andb_true_iff in G as [_ G]. apply Inv_run_body; [exact Hk|exact HI|intros ? ?; discriminate|].
      simpl. rewrite <- (i_mat pr HI). exact G.
    - (* SCliImg *) destruct (client_gate pr && t_mat pr) eqn:G; [|exact HI].
      apply andb_true_iff in G as [_ G]. apply Inv_run_body; [exact Hk|exact HI|intros ? ?; discriminate|].
      simpl. rewrite <- (i_mat pr HI). exact G.
    - (* SCliMesh *) destruct (client_gate pr && t_mesh pr) eqn:G; [|exact HI].
      apply andb_true_iff in G as [_ G]. apply Inv_run_body; [exact Hk|exact HI|intros ? ?; discriminate|].
      simpl. rewrite <- (i_mesh pr HI). exact G.
    - (* SCliAudio *) destruct (client_gate pr && t_audio pr) eqn:G; [|exact HI].
      apply andb_true_iff in G as [_ G]. apply Inv_run_body; [exact Hk|exact HI|intros ? ?; discriminate|].
      simpl. rewrite <- (i_audio pr HI). exact G.
    - (* SDetect *) apply Inv_run_body; [exact Hk|exact HI|exact Hd|exact I].
  Qed.

  Lemma Inv_pre_update pr o : Inv pr -> Inv (pre_update pr o).
  Proof. intros HI. unfold pre_update. cbv zeta. destruct (fo_status o); irr. Qed.

  Lemma Inv_state_transition pr : Inv pr -> Inv (state_transition pr).
  Proof.
    intros HI. unfold state_transition. cbv zeta.
    destruct (s_next_client pr); cbv beta iota;
      (match goal with |- Inv (match ?x with _ => _ end) => destruct x end; [|first [exact HI|irr]]);
      (match goal with |- Inv (if ?b then _ else _) => destruct b end;
       [apply Inv_send_up; [irr|exact I]|irr]).
  Qed.

  Lemma Inv_last_schedule pr : Inv pr -> Inv (last_schedule pr).
  Proof. intros HI. unfold last_schedule. irr. Qed.

  Lemma Inv_frame_start pr o : Inv (pr <| p_out := [] |>) -> Inv (frame_start pr o).
  Proof. intros HI. unfold frame_start. apply Inv_state_transition, Inv_pre_update, HI. Qed.

  Lemma Inv_run_systems st o l :
    (forall s, In s l -> keyOK (sys_key s)) ->
    Inv st ->
    (forall pre t post x, l = pre ++ SDetect t :: post ->
       Inv (foldl (fun pr s => run_system pr s o) st pre) ->
       detect_witness (foldl (fun pr s => run_system pr s o) st pre) t x -> qP x) ->
    Inv (foldl (fun pr s => run_system pr s o) st l).
  Proof.
    intros Hks Hst. revert Hks. induction l as [|s l IH] using rev_ind; intros Hks Hd; [exact Hst|].
    rewrite foldl_app. cbn [foldl].
    assert (IH' : Inv (foldl (fun pr s => run_system pr s o) st l)).
    { apply IH; [intros s' Hs'; apply Hks; apply in_or_app; left; exact Hs'|].
      intros pre t post x -> HI Hw. eapply (Hd pre t (post ++ [s])); [|exact HI|exact Hw].
      rewrite <- app_assoc. reflexivity. }
    apply Inv_run_system; [apply Hks; apply in_or_app; right; left; reflexivity|exact IH'|]. intros t -> x Hw. eapply (Hd l t []); [reflexivity|exact IH'|exact Hw].
  Qed.

  Lemma Inv_frame pr o :
    p_panic pr = None -> Inv (pr <| p_out := [] |>) ->
    (forall s, In s order -> keyOK (sys_key s)) ->
    (forall pre t post x, order = pre ++ SDetect t :: post ->
       Inv (frame_mid pr o pre) -> detect_witness (frame_mid pr o pre) t x -> qP x) ->
    Inv (frame pr o).
  Proof.
    intros Hp HI Hks Hd. rewrite (frame_unfold pr o Hp). apply Inv_frame_start with (o := o) in HI.
    rewrite (i_order _ HI). apply Inv_last_schedule.
    assert (Hm : Inv (frame_mid pr o order)) by (apply Inv_run_systems; [exact Hks|exact HI|exact Hd]).
    destruct (p_panic (frame_mid pr o order)); [exact Hm|apply Inv_flush; exact Hm].
  Qed.

  (* what a detection-time witness implies, given the invariant of that state *)
  Lemma witness_base pr t x :
    Inv pr -> In t types -> detect_witness pr t x ->
    known x.1.1 /\ comp_opted x.1.2 /\ not_skin x.2.
  Proof.
    intros HI Ht (e & en & c & Hl & Hs & Hc & _ & Hm).
    destruct (i_ents pr HI _ _ Hl) as (Hk & _ & Hty). specialize (Hty _ _ Hc).
    split; [apply Hk; exact Hs|].
    destruct (c_val c) as [n|j p|j p]; destruct Hm as [-> ->].
    - split; [left; exact Ht|exact I].
    - split; [right; split; [reflexivity|eapply vt_skinreg; eassumption]|exact I].
    - split; [left; exact Ht|exact I].
  Qed.

End invariant.
