(* C02 / C09 — the debounce of component values applied from the network, at function level:
   apply_component_change (the receiver's apply: value + change tick + a debounce entry that carries the
   tick of the apply), sync_detect (the change detector of one type) and signal_component_changed (an
   entry whose tick equals the component's change tick is consumed instead of queueing the change).

   Main results (all for ARBITRARY states, no reachability premise):
     applied_update_is_not_echoed          an applied value is not queued by the detector, the entry is consumed
     local_write_is_announced              a local write at a tick different from the entry's tick is queued
     local_write_after_apply_is_announced  ... in particular a write after the apply, at a later tick (S22)
     detector_without_token_announces      no entry for the key: exactly one queue entry for it
   with the side conditions they need, and a counterexample (vm_compute) for each side condition. *)
From stdpp Require Import gmap list.
From Coq Require Import NArith Lia.
From RecordUpdate Require Import RecordSet.
From BS Require Import Sync.Types Sync.Model Sync.Observe.
Import RecordSetNotations.
Local Open Scope N_scope.

(* ================================================================================================ *)
(* 0. Keys, and the parts of the debounce list / of the send queue that concern one key            *)
(* ================================================================================================ *)

Definition key := (uuid * tyid)%type.

Lemma pair_eqb_eq (a b : key) : pair_eqb a b = true <-> a = b.
Proof.
  unfold pair_eqb. destruct a as [a1 a2], b as [b1 b2]. cbn [fst snd].
  rewrite andb_true_iff, !N.eqb_eq. split.
  - intros [-> ->]. reflexivity.
  - intros H. inversion H. split; reflexivity.
Qed.

Lemma pair_eqb_refl (a : key) : pair_eqb a a = true.
Proof. apply pair_eqb_eq. reflexivity. Qed.

Lemma pair_eqb_neq (a b : key) : a <> b -> pair_eqb a b = false.
Proof. intros H. destruct (pair_eqb a b) eqn:E; [|reflexivity]. apply pair_eqb_eq in E. contradiction. Qed.

(* the debounce entries of key k, the queue entries of key k *)
Definition toks_of (k : key) (l : list (uuid * tyid * tick)) : list (uuid * tyid * tick) :=
  filter (fun y : uuid * tyid * tick => pair_eqb k y.1) l.
Definition queue_of (k : key) (q : list (uuid * tyid * value)) : list (uuid * tyid * value) :=
  filter (fun y : uuid * tyid * value => pair_eqb k y.1) q.

Lemma filter_bool_cons {A} (f : A -> bool) (x : A) (l : list A) :
  filter (fun y => f y) (x :: l) = if f x then x :: filter (fun y => f y) l else filter (fun y => f y) l.
Proof.
  rewrite filter_cons. cbv beta. destruct (decide _) as [H|H]; destruct (f x) eqn:E; try reflexivity.
  - destruct H.
  - exfalso. apply H. exact I.
Qed.

Lemma tok_find_toks (k : key) l :
  tok_find k l = match toks_of k l with (_, a) :: _ => Some a | [] => None end.
Proof. reflexivity. Qed.

Lemma tok_find_congr (k : key) l l' : toks_of k l = toks_of k l' -> tok_find k l = tok_find k l'.
Proof. intros H. rewrite !tok_find_toks, H. reflexivity. Qed.

Lemma tok_find_none (k : key) l : toks_of k l = [] -> tok_find k l = None.
Proof. intros H. rewrite tok_find_toks, H. reflexivity. Qed.

Lemma tok_find_none_inv (k : key) l : tok_find k l = None -> toks_of k l = [].
Proof. rewrite tok_find_toks. destruct (toks_of k l) as [|[? ?] ?]; [reflexivity|discriminate]. Qed.

Lemma toks_of_remove_same (k : key) l : toks_of k (tok_remove k l) = [].
Proof.
  unfold toks_of, tok_remove. induction l as [|y l IH]; [reflexivity|].
  rewrite (filter_bool_cons (fun y : uuid * tyid * tick => negb (pair_eqb k y.1))).
  destruct (pair_eqb k y.1) eqn:E; cbn [negb]; [exact IH|].
  rewrite (filter_bool_cons (fun y : uuid * tyid * tick => pair_eqb k y.1)), E. exact IH.
Qed.

Lemma toks_of_remove_other (k k' : key) l : k <> k' -> toks_of k (tok_remove k' l) = toks_of k l.
Proof.
  intros Hne. unfold toks_of, tok_remove. induction l as [|y l IH]; [reflexivity|].
  rewrite (filter_bool_cons (fun y : uuid * tyid * tick => negb (pair_eqb k' y.1))).
  rewrite (filter_bool_cons (fun y : uuid * tyid * tick => pair_eqb k y.1) y l).
  destruct (pair_eqb k' y.1) eqn:E; cbn [negb].
  - apply pair_eqb_eq in E. rewrite <- E, (pair_eqb_neq k k' Hne). exact IH.
  - rewrite (filter_bool_cons (fun y : uuid * tyid * tick => pair_eqb k y.1)).
    destruct (pair_eqb k y.1); [f_equal|]; exact IH.
Qed.

Lemma toks_of_cons (k : key) y l :
  toks_of k (y :: l) = if pair_eqb k y.1 then y :: toks_of k l else toks_of k l.
Proof. apply (filter_bool_cons (fun y : uuid * tyid * tick => pair_eqb k y.1)). Qed.

Lemma queue_of_app (k : key) q q' : queue_of k (q ++ q') = queue_of k q ++ queue_of k q'.
Proof. apply filter_app. Qed.

Lemma queue_of_single (k : key) x : queue_of k [x] = if pair_eqb k x.1 then [x] else [].
Proof. unfold queue_of. rewrite (filter_bool_cons (fun y : uuid * tyid * value => pair_eqb k y.1)). reflexivity. Qed.

(* ================================================================================================ *)
(* 1. signal_component_changed on one key                                                           *)
(* ================================================================================================ *)

(* the entry of key k (if any) carries exactly the change tick ch: the change is the apply's own *)
Definition swallowed (k : key) (l : list (uuid * tyid * tick)) (ch : tick) : bool :=
  match tok_find k l with Some a => a =? ch | None => false end.

Lemma swallowed_congr (k : key) l l' ch : toks_of k l = toks_of k l' -> swallowed k l ch = swallowed k l' ch.
Proof. intros H. unfold swallowed. rewrite (tok_find_congr k l l' H). reflexivity. Qed.

Lemma signal_proj pr u t v ch :
  let pr' := signal_component_changed pr u t v ch in
  t_ctok pr' = match tok_find (u, t) (t_ctok pr) with Some _ => tok_remove (u, t) (t_ctok pr) | None => t_ctok pr end /\
  t_queue pr' = t_queue pr ++ (if swallowed (u, t) (t_ctok pr) ch then [] else [(u, t, v)]) /\
  t_e2u pr' = t_e2u pr /\ p_ents pr' = p_ents pr /\ p_tick pr' = p_tick pr.
Proof.
  cbv zeta. unfold signal_component_changed, swallowed.
  destruct (tok_find (u, t) (t_ctok pr)) as [a|]; cbv zeta; [destruct (a =? ch)|]; cbn;
    rewrite ?app_nil_r; repeat split; reflexivity.
Qed.

Lemma signal_same pr u t v ch :
  let pr' := signal_component_changed pr u t v ch in
  toks_of (u, t) (t_ctok pr') = [] /\
  queue_of (u, t) (t_queue pr') =
    queue_of (u, t) (t_queue pr) ++ (if swallowed (u, t) (t_ctok pr) ch then [] else [(u, t, v)]).
Proof.
  cbv zeta. destruct (signal_proj pr u t v ch) as (Hc & Hq & _). rewrite Hc, Hq. split.
  - destruct (tok_find (u, t) (t_ctok pr)) eqn:E; [apply toks_of_remove_same|apply tok_find_none_inv; exact E].
  - rewrite queue_of_app. f_equal. destruct (swallowed _ _ _); [reflexivity|].
    rewrite queue_of_single. cbn [fst]. rewrite pair_eqb_refl. reflexivity.
Qed.

Lemma signal_other pr u t v ch (k : key) :
  k <> (u, t) ->
  let pr' := signal_component_changed pr u t v ch in
  toks_of k (t_ctok pr') = toks_of k (t_ctok pr) /\ queue_of k (t_queue pr') = queue_of k (t_queue pr).
Proof.
  intros Hne. cbv zeta. destruct (signal_proj pr u t v ch) as (Hc & Hq & _). rewrite Hc, Hq. split.
  - destruct (tok_find (u, t) (t_ctok pr)); [apply toks_of_remove_other; exact Hne|reflexivity].
  - rewrite queue_of_app. destruct (swallowed _ _ _); [apply app_nil_r|].
    rewrite queue_of_single. cbn [fst]. rewrite (pair_eqb_neq _ _ Hne). apply app_nil_r.
Qed.

(* ================================================================================================ *)
(* 2. sync_detect as a fold of signals                                                              *)
(* ================================================================================================ *)

(* the type and the value a component of type t with value v is announced under *)
Definition ann_type (t : tyid) (v : value) : tyid := match v with VSkin _ _ => T_MAPPER | _ => t end.
Definition ann_val (e2u : gmap ent uuid) (v : value) : value :=
  match v with VSkin j p => VMapper (omap (fun e => e2u !! e) j) p | _ => v end.

(* what the detector of type t signals for one entity: key, announced value, change tick *)
Definition det_sig (e2u : gmap ent uuid) (t : tyid) (last : tick) (en : entity)
    : option (uuid * tyid * value * tick) :=
  match en_sync en, en_comps en !! t with
  | Some u, Some c =>
      if negb (memN t (en_excl en)) && ((last <? c_changed c) || (last <? en_sync_added en))
      then Some (u, ann_type t (c_val c), ann_val e2u (c_val c), c_changed c)
      else None
  | _, _ => None
  end.

Definition sig_step (pr : peer_state) (s : option (uuid * tyid * value * tick)) : peer_state :=
  match s with Some (u, t, v, ch) => signal_component_changed pr u t v ch | None => pr end.

Lemma sig_step_e2u pr s : t_e2u (sig_step pr s) = t_e2u pr.
Proof. destruct s as [[[[u t] v] ch]|]; [|reflexivity]. apply (signal_proj pr u t v ch). Qed.

Lemma sync_detect_fold pr t last :
  sync_detect pr t last =
  foldl (fun a (x : ent * entity) => sig_step a (det_sig (t_e2u pr) t last x.2)) pr (ents_list pr).
Proof.
  unfold sync_detect. generalize (ents_list pr) as l.
  assert (Hgen : forall l a, t_e2u a = t_e2u pr ->
    foldl (fun pr0 '(_, en) =>
             match en_sync en, en_comps en !! t with
             | Some u, Some c =>
                 if negb (memN t (en_excl en)) && ((last <? c_changed c) || (last <? en_sync_added en)) then
                   match c_val c with
                   | VSkin j p => signal_component_changed pr0 u T_MAPPER (to_skinned_mapper pr0 j p) (c_changed c)
                   | v => signal_component_changed pr0 u t v (c_changed c)
                   end
                 else pr0
             | _, _ => pr0
             end) a l =
    foldl (fun a (x : ent * entity) => sig_step a (det_sig (t_e2u pr) t last x.2)) a l).
  { induction l as [|[e en] l IH]; intros a Ha; [reflexivity|].
    cbn [foldl snd].
    assert (Hstep :
      match en_sync en, en_comps en !! t with
      | Some u, Some c =>
          if negb (memN t (en_excl en)) && ((last <? c_changed c) || (last <? en_sync_added en)) then
            match c_val c with
            | VSkin j p => signal_component_changed a u T_MAPPER (to_skinned_mapper a j p) (c_changed c)
            | v => signal_component_changed a u t v (c_changed c)
            end
          else a
      | _, _ => a
      end = sig_step a (det_sig (t_e2u pr) t last en)).
    { unfold det_sig. destruct (en_sync en) as [u|]; [|reflexivity].
      destruct (en_comps en !! t) as [c|]; [|reflexivity].
      destruct (negb (memN t (en_excl en)) && ((last <? c_changed c) || (last <? en_sync_added en))); [|reflexivity].
      unfold sig_step, ann_type, ann_val, to_skinned_mapper. rewrite Ha.
      destruct (c_val c); reflexivity. }
    rewrite Hstep. apply IH. rewrite sig_step_e2u. exact Ha. }
  intros l. apply Hgen. reflexivity.
Qed.

Lemma sig_step_other pr s (k : key) :
  (forall x, s = Some x -> x.1.1 <> k) ->
  toks_of k (t_ctok (sig_step pr s)) = toks_of k (t_ctok pr) /\
  queue_of k (t_queue (sig_step pr s)) = queue_of k (t_queue pr).
Proof.
  intros H. destruct s as [[[[u t] v] ch]|]; [|split; reflexivity].
  apply signal_other. intros ->. exact (H _ eq_refl eq_refl).
Qed.

Lemma fold_sig_others e2u t last (k : key) (l : list (ent * entity)) : forall a,
  Forall (fun x : ent * entity => forall s, det_sig e2u t last x.2 = Some s -> s.1.1 <> k) l ->
  toks_of k (t_ctok (foldl (fun a (x : ent * entity) => sig_step a (det_sig e2u t last x.2)) a l))
    = toks_of k (t_ctok a) /\
  queue_of k (t_queue (foldl (fun a (x : ent * entity) => sig_step a (det_sig e2u t last x.2)) a l))
    = queue_of k (t_queue a).
Proof.
  induction l as [|x l IH]; intros a Hall; [split; reflexivity|].
  inversion Hall as [|? ? Hx Hl]; subst. cbn [foldl].
  destruct (IH (sig_step a (det_sig e2u t last x.2)) Hl) as [H1 H2].
  destruct (sig_step_other a (det_sig e2u t last x.2) k Hx) as [H3 H4].
  rewrite H1, H2, H3, H4. split; reflexivity.
Qed.

(* the queue only grows *)
Lemma sync_detect_queue_extends pr t last :
  exists added, t_queue (sync_detect pr t last) = t_queue pr ++ added.
Proof.
  rewrite sync_detect_fold. generalize (ents_list pr) as l. generalize (t_e2u pr) as e2u. intros e2u l.
  generalize pr. induction l as [|x l IH]; intros a; [exists []; symmetry; apply app_nil_r|].
  cbn [foldl]. destruct (IH (sig_step a (det_sig e2u t last x.2))) as [added Hadd]. rewrite Hadd.
  destruct (det_sig e2u t last x.2) as [[[[u t'] v] ch]|]; [|exists added; reflexivity].
  cbn [sig_step]. destruct (signal_proj a u t' v ch) as (_ & Hq & _). rewrite Hq, <- app_assoc.
  eexists. reflexivity.
Qed.

(* SIDE CONDITION: no entity other than e is signalled under key k by this run of the detector.
   (It is implied by: no other entity carries the uuid — uuid_unique below — which is what C01
   establishes for reachable states.) *)
Definition no_other_signal (pr : peer_state) (t : tyid) (last : tick) (e : ent) (k : key) : Prop :=
  forall e2 en2 s, p_ents pr !! e2 = Some en2 -> e2 <> e -> det_sig (t_e2u pr) t last en2 = Some s -> s.1.1 <> k.

Definition uuid_unique (pr : peer_state) (u : uuid) (e : ent) : Prop :=
  forall e2 en2, p_ents pr !! e2 = Some en2 -> en_sync en2 = Some u -> e2 = e.

Lemma det_sig_uuid e2u t last en s : det_sig e2u t last en = Some s -> en_sync en = Some s.1.1.1.
Proof.
  unfold det_sig. destruct (en_sync en) as [u|]; [|discriminate].
  destruct (en_comps en !! t) as [c|]; [|discriminate].
  destruct (_ && _); [|discriminate]. intros H. inversion H. reflexivity.
Qed.

Lemma uuid_unique_no_other pr t last e u ty : uuid_unique pr u e -> no_other_signal pr t last e (u, ty).
Proof.
  intros Hu e2 en2 s He2 Hne Hs Hk. apply det_sig_uuid in Hs. rewrite Hk in Hs. cbn [fst] in Hs.
  exact (Hne (Hu e2 en2 He2 Hs)).
Qed.

(* the detector's effect on key k is the effect of the one signal of e *)
Lemma detect_split pr t last e en (k : key) :
  p_ents pr !! e = Some en -> no_other_signal pr t last e k ->
  exists a,
    (toks_of k (t_ctok a) = toks_of k (t_ctok pr) /\ queue_of k (t_queue a) = queue_of k (t_queue pr)) /\
    (toks_of k (t_ctok (sync_detect pr t last)) = toks_of k (t_ctok (sig_step a (det_sig (t_e2u pr) t last en))) /\
     queue_of k (t_queue (sync_detect pr t last)) = queue_of k (t_queue (sig_step a (det_sig (t_e2u pr) t last en)))).
Proof.
  intros He Hno. rewrite sync_detect_fold. unfold ents_list.
  assert (Hin : (e, en) ∈ map_to_list (p_ents pr)) by (apply elem_of_map_to_list; exact He).
  destruct (elem_of_list_split _ _ Hin) as (l1 & l2 & Hl).
  assert (Hnd : NoDup (map_to_list (p_ents pr))) by apply NoDup_map_to_list.
  assert (Hothers : forall x, x ∈ l1 ++ l2 ->
            forall s, det_sig (t_e2u pr) t last x.2 = Some s -> s.1.1 <> k).
  { intros [e2 en2] Hx s Hs. cbn [snd] in Hs.
    assert (Hx' : (e2, en2) ∈ map_to_list (p_ents pr)).
    { rewrite Hl. apply elem_of_app in Hx as [Hx|Hx]; apply elem_of_app; [left; exact Hx|right; right; exact Hx]. }
    apply elem_of_map_to_list in Hx'.
    apply (Hno e2 en2 s Hx'); [|exact Hs].
    intros ->. rewrite He in Hx'. inversion Hx'; subst en2.
    rewrite Hl in Hnd. apply NoDup_app in Hnd as (_ & Hd1 & Hd2). apply NoDup_cons in Hd2 as [Hd2 _].
    apply elem_of_app in Hx as [Hx|Hx]; [|exact (Hd2 Hx)].
    apply (Hd1 _ Hx). left. }
  rewrite Hl, foldl_app. cbn [foldl snd].
  set (F := fun a (x : ent * entity) => sig_step a (det_sig (t_e2u pr) t last x.2)).
  exists (foldl F pr l1). split.
  - apply fold_sig_others. apply Forall_forall. intros x Hx. apply Hothers. apply elem_of_app. left. exact Hx.
  - apply fold_sig_others. apply Forall_forall. intros x Hx. apply Hothers. apply elem_of_app. right. exact Hx.
Qed.

(* e is signalled under k: the entry of k is consumed; the change is queued unless the entry carries its tick *)
Theorem detect_fires pr t last e en (k : key) v ch :
  p_ents pr !! e = Some en -> no_other_signal pr t last e k ->
  det_sig (t_e2u pr) t last en = Some (k, v, ch) ->
  toks_of k (t_ctok (sync_detect pr t last)) = [] /\
  queue_of k (t_queue (sync_detect pr t last)) =
    queue_of k (t_queue pr) ++ (if swallowed k (t_ctok pr) ch then [] else [(k, v)]).
Proof.
  intros He Hno Hs. destruct (detect_split pr t last e en k He Hno) as (a & [Ha1 Ha2] & [H1 H2]).
  rewrite H1, H2, Hs. destruct k as [u ty]. cbn [sig_step].
  destruct (signal_same a u ty v ch) as [H3 H4]. rewrite H3, H4, Ha2.
  rewrite (swallowed_congr (u, ty) _ _ ch Ha1). split; reflexivity.
Qed.

(* e is not signalled under k: nothing of k changes *)
Theorem detect_silent pr t last e en (k : key) :
  p_ents pr !! e = Some en -> no_other_signal pr t last e k ->
  (forall s, det_sig (t_e2u pr) t last en = Some s -> s.1.1 <> k) ->
  toks_of k (t_ctok (sync_detect pr t last)) = toks_of k (t_ctok pr) /\
  queue_of k (t_queue (sync_detect pr t last)) = queue_of k (t_queue pr).
Proof.
  intros He Hno Hs. destruct (detect_split pr t last e en k He Hno) as (a & [Ha1 Ha2] & [H1 H2]).
  destruct (sig_step_other a (det_sig (t_e2u pr) t last en) k Hs) as [H3 H4].
  rewrite H1, H2, H3, H4, Ha1, Ha2. split; reflexivity.
Qed.

(* ================================================================================================ *)
(* 3. What a successful apply_component_change leaves behind                                        *)
(* ================================================================================================ *)

(* the component type / value the apply stores (SkinnedMesh travels as its mapper) *)
Definition stored_type (t : tyid) (v : value) : tyid := match v with VMapper _ _ => T_SKIN | _ => t end.
Definition stored_val (pr : peer_state) (v : value) : value :=
  match v with VMapper j p => to_skinned_mesh pr j p | _ => v end.
Definition is_skin (v : value) : bool := match v with VSkin _ _ => true | _ => false end.

Lemma apply_true_inv pr e t v pr' :
  apply_component_change pr e t v = (pr', true) ->
  exists en u, p_ents pr !! e = Some en /\ en_sync en = Some u /\
    p_ents pr' = <[e := put_comp (p_tick pr) (stored_type t v) (stored_val pr v) en]> (p_ents pr) /\
    t_ctok pr' = (u, wire_type t v, p_tick pr) :: tok_remove (u, wire_type t v) (t_ctok pr) /\
    t_queue pr' = t_queue pr /\ t_e2u pr' = t_e2u pr /\ p_tick pr' = p_tick pr.
Proof.
  unfold apply_component_change. cbv zeta.
  destruct (negb (memN (wire_type t v) (p_registry pr))); [discriminate|].
  assert (Hpair : match v with VMapper j p => (T_SKIN, to_skinned_mesh pr j p) | _ => (t, v) end
                  = (stored_type t v, stored_val pr v)) by (destruct v; reflexivity).
  rewrite Hpair. cbv beta iota.
  destruct (negb (memN (stored_type t v) (p_registry pr))); [discriminate|].
  destruct (p_ents pr !! e) as [en|] eqn:He; [|discriminate].
  destruct (en_sync en) as [u|] eqn:Hu; [|discriminate].
  destruct (match en_comps en !! stored_type t v with
            | Some c => negb (value_eqb (c_val c) (stored_val pr v)) | None => true end); [|discriminate].
  intros H. inversion H as [H']. clear H H'.
  exists en, u. split; [reflexivity|]. split; [exact Hu|].
  unfold upd_ent. cbn. rewrite He. cbn. repeat split; reflexivity.
Qed.

Lemma put_comp_facts now t v en :
  en_sync (put_comp now t v en) = en_sync en /\ en_excl (put_comp now t v en) = en_excl en /\
  en_sync_added (put_comp now t v en) = en_sync_added en /\
  exists a, en_comps (put_comp now t v en) !! t = Some {| c_val := v; c_added := a; c_changed := now |}.
Proof.
  unfold put_comp. destruct (en_comps en !! t) as [c|]; cbn; rewrite lookup_insert; repeat split; eexists; reflexivity.
Qed.

Lemma det_sig_put_comp e2u t last now v en u :
  en_sync en = Some u ->
  det_sig e2u t last (put_comp now t v en) =
    if negb (memN t (en_excl en)) && ((last <? now) || (last <? en_sync_added en))
    then Some (u, ann_type t v, ann_val e2u v, now) else None.
Proof.
  intros Hu. destruct (put_comp_facts now t v en) as (H1 & H2 & H3 & a & H4).
  unfold det_sig. rewrite H1, H2, H3, H4, Hu. reflexivity.
Qed.

Lemma no_other_transfer pr pr2 t last e (k : key) :
  t_e2u pr2 = t_e2u pr -> (forall e2, e2 <> e -> p_ents pr2 !! e2 = p_ents pr !! e2) ->
  no_other_signal pr t last e k -> no_other_signal pr2 t last e k.
Proof.
  intros He2u Hents Hno e2 en2 s H2 Hne Hs. rewrite He2u in Hs. rewrite (Hents e2 Hne) in H2.
  exact (Hno e2 en2 s H2 Hne Hs).
Qed.

Lemma queue_of_nil_forall (k : key) q : queue_of k q = [] -> Forall (fun x : uuid * tyid * value => x.1 <> k) q.
Proof.
  unfold queue_of. induction q as [|x q IH]; intros H; [constructor|].
  rewrite (filter_bool_cons (fun y : uuid * tyid * value => pair_eqb k y.1)) in H.
  destruct (pair_eqb k x.1) eqn:E; [discriminate|]. constructor; [|exact (IH H)].
  intros Hx. rewrite Hx, pair_eqb_refl in E. discriminate.
Qed.

(* the announced type of what the apply stored is the wire type of what it received (not for a raw VSkin) *)
Lemma ann_type_stored pr t v :
  is_skin v = false -> ann_type (stored_type t v) (stored_val pr v) = wire_type t v.
Proof. destruct v; [reflexivity|discriminate|reflexivity]. Qed.

(* ================================================================================================ *)
(* 4. The theorems                                                                                  *)
(* ================================================================================================ *)

(* the effect on ANY key k of running the detector of the stored type right after a successful apply *)
Lemma apply_detect_key pr e t v pr' en u last (k : key) :
  apply_component_change pr e t v = (pr', true) ->
  p_ents pr !! e = Some en -> en_sync en = Some u ->
  is_skin v = false ->
  no_other_signal pr (stored_type t v) last e k ->
  let pr1 := sync_detect pr' (stored_type t v) last in
  queue_of k (t_queue pr1) = queue_of k (t_queue pr') /\
  (k = (u, wire_type t v) ->
   negb (memN (stored_type t v) (en_excl en)) && ((last <? p_tick pr) || (last <? en_sync_added en)) = true ->
   toks_of k (t_ctok pr1) = []).
Proof.
  intros Happly He Hu Hskin Hno. cbv zeta.
  destruct (apply_true_inv pr e t v pr' Happly) as (en0 & u0 & He0 & Hu0 & Hents & Hctok & Hq & He2u & Htick).
  rewrite He in He0. inversion He0; subst en0. rewrite Hu in Hu0. inversion Hu0; subst u0. clear He0 Hu0.
  set (t' := stored_type t v) in *. set (k0 := (u, wire_type t v)).
  set (en' := put_comp (p_tick pr) t' (stored_val pr v) en) in *.
  assert (He' : p_ents pr' !! e = Some en') by (rewrite Hents; apply lookup_insert).
  assert (Hno' : no_other_signal pr' t' last e k).
  { apply (no_other_transfer pr); [exact He2u| |exact Hno]. intros e2 Hne. rewrite Hents. apply lookup_insert_ne. congruence. }
  assert (Hsig : det_sig (t_e2u pr') t' last en' =
                 if negb (memN t' (en_excl en)) && ((last <? p_tick pr) || (last <? en_sync_added en))
                 then Some (k0, ann_val (t_e2u pr') (stored_val pr v), p_tick pr) else None).
  { unfold en'. rewrite (det_sig_put_comp _ _ _ _ _ _ u Hu). unfold t', k0. rewrite (ann_type_stored pr t v Hskin). reflexivity. }
  destruct (decide (k = k0)) as [->|Hk].
  - assert (Hsw : swallowed k0 (t_ctok pr') (p_tick pr) = true).
    { unfold swallowed. rewrite tok_find_toks, Hctok, toks_of_cons. cbn [fst]. rewrite pair_eqb_refl. apply N.eqb_refl. }
    destruct (negb (memN t' (en_excl en)) && ((last <? p_tick pr) || (last <? en_sync_added en))) eqn:Hc.
    + destruct (detect_fires pr' t' last e en' k0 _ _ He' Hno' Hsig) as [H1 H2].
      rewrite Hsw, app_nil_r in H2. split; [exact H2|intros _ _; exact H1].
    + destruct (detect_silent pr' t' last e en' k0 He' Hno') as [_ H2].
      { intros s Hs. rewrite Hsig in Hs. discriminate. }
      split; [exact H2|intros _; discriminate].
  - destruct (detect_silent pr' t' last e en' k He' Hno') as [_ H2].
    { intros s Hs. rewrite Hsig in Hs. destruct (_ && _); [|discriminate]. inversion Hs. cbn [fst]. congruence. }
    split; [exact H2|]. intros Hk'. contradiction.
Qed.

(* (1) NO ECHO.  A value applied from the network is not queued by the detector of the stored type,
   whatever [last] is; when the detector sees the change (last older than the apply, type not
   excluded on the entity) the debounce entry is consumed.
   Side conditions:  - v is not a raw VSkin (never on the wire: senders encode SkinnedMesh as VMapper;
                       refuted without: raw_skin_is_echoed);
                     - no other entity is signalled under the key (refuted without: twin_uuid_is_echoed). *)
Theorem applied_update_is_not_echoed pr e t v pr' en u last :
  apply_component_change pr e t v = (pr', true) ->
  p_ents pr !! e = Some en -> en_sync en = Some u ->
  is_skin v = false ->
  no_other_signal pr (stored_type t v) last e (u, wire_type t v) ->
  let k := (u, wire_type t v) in
  let pr1 := sync_detect pr' (stored_type t v) last in
  queue_of k (t_queue pr1) = queue_of k (t_queue pr') /\
  (exists added, t_queue pr1 = t_queue pr' ++ added /\ Forall (fun x : uuid * tyid * value => x.1 <> k) added) /\
  (last < p_tick pr -> memN (stored_type t v) (en_excl en) = false -> tok_find k (t_ctok pr1) = None).
Proof.
  intros Happly He Hu Hskin Hno. cbv zeta.
  destruct (apply_detect_key pr e t v pr' en u last _ Happly He Hu Hskin Hno) as [Hq1 Htok].
  split; [exact Hq1|]. split.
  - destruct (sync_detect_queue_extends pr' (stored_type t v) last) as [added Hadd]. exists added. split; [exact Hadd|].
    apply queue_of_nil_forall. rewrite Hadd, queue_of_app in Hq1.
    rewrite <- (app_nil_r (queue_of _ (t_queue pr'))) in Hq1 at 2. exact (app_inv_head _ _ _ Hq1).
  - intros Hlast Hexcl. apply tok_find_none. apply Htok; [reflexivity|]. rewrite Hexcl. cbn [negb andb].
    apply orb_true_iff. left. apply N.ltb_lt. exact Hlast.
Qed.

(* (1') entity-level form: when no other entity carries the uuid, this run of the detector queues
   NOTHING AT ALL about the uuid (under any type name) *)
Theorem applied_update_is_not_echoed_unique pr e t v pr' en u last :
  apply_component_change pr e t v = (pr', true) ->
  p_ents pr !! e = Some en -> en_sync en = Some u ->
  is_skin v = false ->
  uuid_unique pr u e ->
  let pr1 := sync_detect pr' (stored_type t v) last in
  exists added, t_queue pr1 = t_queue pr' ++ added /\ Forall (fun x : uuid * tyid * value => x.1.1 <> u) added.
Proof.
  intros Happly He Hu Hskin Huniq. cbv zeta.
  destruct (sync_detect_queue_extends pr' (stored_type t v) last) as [added Hadd]. exists added. split; [exact Hadd|].
  apply Forall_forall. intros [[u2 ty] v2] Hin Heq. cbn [fst] in Heq. subst u2.
  destruct (apply_detect_key pr e t v pr' en u last (u, ty) Happly He Hu Hskin
              (uuid_unique_no_other pr _ last e u ty Huniq)) as [Hq1 _].
  rewrite Hadd, queue_of_app in Hq1.
  rewrite <- (app_nil_r (queue_of _ (t_queue pr'))) in Hq1 at 2. apply app_inv_head in Hq1.
  apply queue_of_nil_forall in Hq1. rewrite Forall_forall in Hq1. exact (Hq1 _ Hin eq_refl).
Qed.

(* (2) LOCAL WRITE.  General form, on any state: the application writes w on component t of the
   synchronised entity e (app_step .. OWrite: stamped with the current tick p_tick pr), then the detector
   of t runs.  The write is queued — exactly once for the key — and the entry of the key is gone, PROVIDED
   no entry of the key carries the tick of the write.  The value need not differ from the old one
   (a write always stamps the change tick). *)
Lemma app_write_ents pr e en t w :
  p_ents pr !! e = Some en ->
  let pr2 := app_step pr (OWrite e t w) in
  p_ents pr2 = <[e := put_comp (p_tick pr) t w en]> (p_ents pr) /\
  t_ctok pr2 = t_ctok pr /\ t_queue pr2 = t_queue pr /\ t_e2u pr2 = t_e2u pr.
Proof.
  intros He. cbv zeta. unfold app_step, upd_ent. rewrite He. repeat split; reflexivity.
Qed.

Lemma write_then_detect pr e en u t w last :
  p_ents pr !! e = Some en -> en_sync en = Some u ->
  memN t (en_excl en) = false ->
  (last < p_tick pr \/ last < en_sync_added en) ->
  let k := (u, ann_type t w) in
  no_other_signal pr t last e k ->
  let pr1 := sync_detect (app_step pr (OWrite e t w)) t last in
  queue_of k (t_queue pr1) =
    queue_of k (t_queue pr) ++ (if swallowed k (t_ctok pr) (p_tick pr) then [] else [(k, ann_val (t_e2u pr) w)]) /\
  tok_find k (t_ctok pr1) = None.
Proof.
  intros He Hu Hexcl Hlast. cbv zeta. intros Hno.
  destruct (app_write_ents pr e en t w He) as (Hents & Hctok & Hq & He2u).
  set (pr2 := app_step pr (OWrite e t w)) in *. set (k := (u, ann_type t w)) in *.
  assert (He' : p_ents pr2 !! e = Some (put_comp (p_tick pr) t w en)) by (rewrite Hents; apply lookup_insert).
  assert (Hno' : no_other_signal pr2 t last e k).
  { apply (no_other_transfer pr); [exact He2u| |exact Hno]. intros e2 Hne. rewrite Hents. apply lookup_insert_ne. congruence. }
  assert (Hsig : det_sig (t_e2u pr2) t last (put_comp (p_tick pr) t w en) = Some (k, ann_val (t_e2u pr) w, p_tick pr)).
  { rewrite (det_sig_put_comp _ _ _ _ _ _ u Hu), Hexcl, He2u. cbn [negb andb].
    assert (Hc : (last <? p_tick pr) || (last <? en_sync_added en) = true).
    { apply orb_true_iff. destruct Hlast as [H|H]; [left|right]; apply N.ltb_lt; exact H. }
    rewrite Hc. reflexivity. }
  destruct (detect_fires pr2 t last e _ k _ _ He' Hno' Hsig) as [H1 H2].
  rewrite Hctok, Hq in H2. split; [exact H2|apply tok_find_none; exact H1].
Qed.

Theorem local_write_is_announced pr e en u t w last :
  p_ents pr !! e = Some en -> en_sync en = Some u ->
  memN t (en_excl en) = false ->
  (last < p_tick pr \/ last < en_sync_added en) ->
  let k := (u, ann_type t w) in
  no_other_signal pr t last e k ->
  swallowed k (t_ctok pr) (p_tick pr) = false ->
  let pr1 := sync_detect (app_step pr (OWrite e t w)) t last in
  queue_of k (t_queue pr1) = queue_of k (t_queue pr) ++ [(k, ann_val (t_e2u pr) w)] /\
  tok_find k (t_ctok pr1) = None.
Proof.
  intros He Hu Hexcl Hlast. cbv zeta. intros Hno Hsw.
  destruct (write_then_detect pr e en u t w last He Hu Hexcl Hlast Hno) as [H1 H2]. rewrite Hsw in H1.
  split; assumption.
Qed.

(* the other half of the dichotomy: a write stamped with the very tick of the entry IS swallowed *)
Theorem local_write_at_entry_tick_is_swallowed pr e en u t w last :
  p_ents pr !! e = Some en -> en_sync en = Some u ->
  memN t (en_excl en) = false ->
  (last < p_tick pr \/ last < en_sync_added en) ->
  let k := (u, ann_type t w) in
  no_other_signal pr t last e k ->
  tok_find k (t_ctok pr) = Some (p_tick pr) ->
  let pr1 := sync_detect (app_step pr (OWrite e t w)) t last in
  queue_of k (t_queue pr1) = queue_of k (t_queue pr) /\ tok_find k (t_ctok pr1) = None.
Proof.
  intros He Hu Hexcl Hlast. cbv zeta. intros Hno Htok.
  destruct (write_then_detect pr e en u t w last He Hu Hexcl Hlast Hno) as [H1 H2].
  unfold swallowed in H1. rewrite Htok, N.eqb_refl, app_nil_r in H1. split; assumption.
Qed.

(* (2') The S22 situation: apply from the network, then — in a state [mid] with the same world and
   tracker but a LATER tick (the model advances p_tick at every system run and in last_schedule) — the
   application writes w on the stored component, then the detector runs: w is queued, the entry is gone.
   Tick relation needed: p_tick pr < p_tick mid (refuted at equal ticks: same_tick_write_is_swallowed).
   The local value must be announced under the wire type of the applied one (both plain, or applied
   mapper / local SkinnedMesh): otherwise the two keys differ and an unrelated older entry decides. *)
Theorem local_write_after_apply_is_announced pr e t v pr' en u mid w last :
  apply_component_change pr e t v = (pr', true) ->
  p_ents pr !! e = Some en -> en_sync en = Some u ->
  p_ents mid = p_ents pr' -> t_ctok mid = t_ctok pr' -> t_e2u mid = t_e2u pr' ->
  p_tick pr < p_tick mid ->
  ann_type (stored_type t v) w = wire_type t v ->
  memN (stored_type t v) (en_excl en) = false ->
  (last < p_tick mid \/ last < en_sync_added en) ->
  no_other_signal pr (stored_type t v) last e (u, wire_type t v) ->
  let k := (u, wire_type t v) in
  let pr1 := sync_detect (app_step mid (OWrite e (stored_type t v) w)) (stored_type t v) last in
  queue_of k (t_queue pr1) = queue_of k (t_queue mid) ++ [(k, ann_val (t_e2u pr) w)] /\
  tok_find k (t_ctok pr1) = None.
Proof.
  intros Happly He Hu Hments Hmctok Hme2u Hlt Hann Hexcl Hlast Hno. cbv zeta.
  destruct (apply_true_inv pr e t v pr' Happly) as (en0 & u0 & He0 & Hu0 & Hents & Hctok & Hq & He2u & Htick).
  rewrite He in He0. inversion He0; subst en0. rewrite Hu in Hu0. inversion Hu0; subst u0. clear He0 Hu0.
  set (t' := stored_type t v) in *.
  set (en' := put_comp (p_tick pr) t' (stored_val pr v) en) in *.
  destruct (put_comp_facts (p_tick pr) t' (stored_val pr v) en) as (F1 & F2 & F3 & _). fold en' in F1, F2, F3.
  assert (He' : p_ents mid !! e = Some en') by (rewrite Hments, Hents; apply lookup_insert).
  assert (Hno' : no_other_signal mid t' last e (u, ann_type t' w)).
  { rewrite Hann. apply (no_other_transfer pr); [congruence| |exact Hno].
    intros e2 Hne. rewrite Hments, Hents. apply lookup_insert_ne. congruence. }
  assert (Hsw : swallowed (u, ann_type t' w) (t_ctok mid) (p_tick mid) = false).
  { rewrite Hann. unfold swallowed. rewrite tok_find_toks, Hmctok, Hctok, toks_of_cons. cbn [fst].
    rewrite pair_eqb_refl. apply N.eqb_neq. lia. }
  assert (Hu' : en_sync en' = Some u) by (rewrite F1; exact Hu).
  assert (Hexcl' : memN t' (en_excl en') = false) by (rewrite F2; exact Hexcl).
  assert (Hlast' : last < p_tick mid \/ last < en_sync_added en') by (rewrite F3; exact Hlast).
  pose proof (local_write_is_announced mid e en' u t' w last He' Hu' Hexcl' Hlast' Hno' Hsw) as H.
  cbv zeta in H. rewrite Hann in H. rewrite Hme2u, He2u in H. exact H.
Qed.

(* instance: the write happens between frames, after the frame of the apply ended (last_schedule) *)
Corollary local_write_next_frame_is_announced pr e t v pr' en u w last :
  apply_component_change pr e t v = (pr', true) ->
  p_ents pr !! e = Some en -> en_sync en = Some u ->
  ann_type (stored_type t v) w = wire_type t v ->
  memN (stored_type t v) (en_excl en) = false ->
  last <= p_tick pr ->
  no_other_signal pr (stored_type t v) last e (u, wire_type t v) ->
  let k := (u, wire_type t v) in
  let pr1 := sync_detect (app_step (last_schedule pr') (OWrite e (stored_type t v) w)) (stored_type t v) last in
  queue_of k (t_queue pr1) = queue_of k (t_queue pr') ++ [(k, ann_val (t_e2u pr) w)] /\
  tok_find k (t_ctok pr1) = None.
Proof.
  intros Happly He Hu Hann Hexcl Hlast Hno.
  destruct (apply_true_inv pr e t v pr' Happly) as (_ & _ & _ & _ & _ & _ & _ & _ & Htick).
  assert (Ht : p_tick (last_schedule pr') = p_tick pr + 1) by (unfold last_schedule; cbn; rewrite Htick; reflexivity).
  apply (local_write_after_apply_is_announced pr e t v pr' en u (last_schedule pr') w last Happly He Hu);
    try reflexivity; try assumption; try (left); lia.
Qed.

(* (3) NO ENTRY.  A synchronised entity with a component the detector sees as changed and no debounce
   entry for its key: exactly one queue entry is added for the key, carrying the announced value. *)
Theorem detector_without_token_announces pr (t : tyid) last e en u c :
  p_ents pr !! e = Some en -> en_sync en = Some u -> en_comps en !! t = Some c ->
  memN t (en_excl en) = false ->
  (last < c_changed c \/ last < en_sync_added en) ->
  let k := (u, ann_type t (c_val c)) in
  tok_find k (t_ctok pr) = None ->
  no_other_signal pr t last e k ->
  let pr1 := sync_detect pr t last in
  queue_of k (t_queue pr1) = queue_of k (t_queue pr) ++ [(k, ann_val (t_e2u pr) (c_val c))] /\
  (exists added, t_queue pr1 = t_queue pr ++ added /\ queue_of k added = [(k, ann_val (t_e2u pr) (c_val c))]) /\
  tok_find k (t_ctok pr1) = None.
Proof.
  intros He Hu Hc Hexcl Hlast. cbv zeta. intros Htok Hno.
  set (k := (u, ann_type t (c_val c))) in *.
  assert (Hsig : det_sig (t_e2u pr) t last en = Some (k, ann_val (t_e2u pr) (c_val c), c_changed c)).
  { unfold det_sig. rewrite Hu, Hc, Hexcl. cbn [negb andb].
    assert (Hb : (last <? c_changed c) || (last <? en_sync_added en) = true).
    { apply orb_true_iff. destruct Hlast as [H|H]; [left|right]; apply N.ltb_lt; exact H. }
    rewrite Hb. reflexivity. }
  destruct (detect_fires pr t last e en k _ _ He Hno Hsig) as [H1 H2].
  unfold swallowed in H2. rewrite Htok in H2.
  split; [exact H2|]. split; [|apply tok_find_none; exact H1].
  destruct (sync_detect_queue_extends pr t last) as [added Hadd]. exists added. split; [exact Hadd|].
  rewrite Hadd, queue_of_app in H2. exact (app_inv_head _ _ _ H2).
Qed.

(* ================================================================================================ *)
(* 5. Non-vacuity, and a counterexample for every side condition                                    *)
(* ================================================================================================ *)

Definition comp_at (v : value) (ch : tick) : comp := {| c_val := v; c_added := 1; c_changed := ch |}.
(* a synchronised entity (uuid u, SyncEntity added at tick 1) with component T_A = 1 changed at tick ch *)
Definition ent_a (u : uuid) (ch : tick) : entity :=
  new_entity <| en_sync := Some u |> <| en_sync_added := 1 |> <| en_comps := {[ T_A := comp_at (VN 1) ch ]} |>.
(* one peer at tick 10 holding entity 5 = uuid 7 *)
Definition st0 : peer_state :=
  init_peer 1 [T_A; T_SKIN] [T_A; T_SKIN; T_MAPPER] []
    <| p_ents := {[ 5 := ent_a 7 1 ]} |> <| p_tick := 10 |> <| t_u2e := {[ 7 := 5 ]} |> <| t_e2u := {[ 5 := 7 ]} |>.
(* the same with a second entity 6 carrying the SAME uuid 7, its T_A changed at tick 9 *)
Definition st_twin : peer_state := st0 <| p_ents := {[ 5 := ent_a 7 1; 6 := ent_a 7 9 ]} |>.

Lemma st0_unique : uuid_unique st0 7 5.
Proof.
  intros e2 en2 H _. change (p_ents st0) with ({[ 5 := ent_a 7 1 ]} : gmap ent entity) in H.
  apply lookup_singleton_Some in H as [H _]. congruence.
Qed.

(* (1) plain value: applied at tick 10, detector with last = 9: nothing queued, entry consumed *)
Example applied_update_is_not_echoed_nonvacuous :
  exists pr e t v pr' en u last,
    apply_component_change pr e t v = (pr', true) /\ p_ents pr !! e = Some en /\ en_sync en = Some u /\
    is_skin v = false /\ uuid_unique pr u e /\ no_other_signal pr (stored_type t v) last e (u, wire_type t v) /\
    last < p_tick pr /\ memN (stored_type t v) (en_excl en) = false /\
    t_ctok pr' = [(u, wire_type t v, p_tick pr)] /\
    t_queue (sync_detect pr' (stored_type t v) last) = [] /\ t_ctok (sync_detect pr' (stored_type t v) last) = [].
Proof.
  exists st0, 5, T_A, (VN 2), (apply_component_change st0 5 T_A (VN 2)).1, (ent_a 7 1), 7, 9.
  split; [vm_compute; reflexivity|]. split; [vm_compute; reflexivity|]. split; [reflexivity|].
  split; [reflexivity|]. split; [exact st0_unique|]. split; [apply uuid_unique_no_other; exact st0_unique|].
  split; [reflexivity|]. repeat split; vm_compute; reflexivity.
Qed.

(* (1) SkinnedMesh: the mapper [uuid 7] is applied as SkinnedMesh [entity 5] under T_SKIN with an entry
   under T_MAPPER; the detector of T_SKIN announces nothing and consumes the entry *)
Example applied_skin_is_not_echoed_nonvacuous :
  exists pr e t v pr' en u last,
    apply_component_change pr e t v = (pr', true) /\ p_ents pr !! e = Some en /\ en_sync en = Some u /\
    is_skin v = false /\ uuid_unique pr u e /\
    last < p_tick pr /\ memN (stored_type t v) (en_excl en) = false /\
    stored_type t v = T_SKIN /\ stored_val pr v = VSkin [5] [3] /\
    t_ctok pr' = [(u, T_MAPPER, p_tick pr)] /\
    t_queue (sync_detect pr' T_SKIN last) = [] /\ t_ctok (sync_detect pr' T_SKIN last) = [].
Proof.
  exists st0, 5, T_MAPPER, (VMapper [7] [3]), (apply_component_change st0 5 T_MAPPER (VMapper [7] [3])).1, (ent_a 7 1), 7, 9.
  split; [vm_compute; reflexivity|]. split; [vm_compute; reflexivity|]. split; [reflexivity|].
  split; [reflexivity|]. split; [exact st0_unique|]. split; [reflexivity|]. repeat split; vm_compute; reflexivity.
Qed.

(* side condition "not a raw VSkin": a VSkin on the wire is recorded under the announced name t but the
   detector announces a SkinnedMesh under T_MAPPER: echoed, and the entry survives *)
Example raw_skin_is_echoed :
  exists pr e t v pr' en u last,
    apply_component_change pr e t v = (pr', true) /\ p_ents pr !! e = Some en /\ en_sync en = Some u /\
    uuid_unique pr u e /\ last < p_tick pr /\ memN (stored_type t v) (en_excl en) = false /\
    t_queue pr' = [] /\
    t_queue (sync_detect pr' (stored_type t v) last) = [(u, T_MAPPER, VMapper [7] [3])] /\
    tok_find (u, wire_type t v) (t_ctok (sync_detect pr' (stored_type t v) last)) = Some (p_tick pr).
Proof.
  exists st0, 5, T_SKIN, (VSkin [5] [3]), (apply_component_change st0 5 T_SKIN (VSkin [5] [3])).1, (ent_a 7 1), 7, 9.
  split; [vm_compute; reflexivity|]. split; [vm_compute; reflexivity|]. split; [reflexivity|].
  split; [exact st0_unique|]. split; [reflexivity|]. repeat split; vm_compute; reflexivity.
Qed.

(* side condition "no other entity signalled under the key": a second entity with the same uuid whose
   component the detector also sees as changed — the entry is consumed by the applied entity and the
   twin's (old) value is queued under the very key of the update *)
Example twin_uuid_is_echoed :
  exists pr e t v pr' en u last,
    apply_component_change pr e t v = (pr', true) /\ p_ents pr !! e = Some en /\ en_sync en = Some u /\
    is_skin v = false /\ last < p_tick pr /\ memN (stored_type t v) (en_excl en) = false /\
    queue_of (u, wire_type t v) (t_queue pr') = [] /\
    queue_of (u, wire_type t v) (t_queue (sync_detect pr' (stored_type t v) last)) = [(u, wire_type t v, VN 1)].
Proof.
  exists st_twin, 5, T_A, (VN 2), (apply_component_change st_twin 5 T_A (VN 2)).1, (ent_a 7 1), 7, 8.
  split; [vm_compute; reflexivity|]. split; [vm_compute; reflexivity|]. split; [reflexivity|].
  split; [reflexivity|]. split; [reflexivity|]. repeat split; vm_compute; reflexivity.
Qed.

(* premises of the "entry is consumed" part: a detector that does not see the change (last = tick of
   the apply) leaves the entry; by local_write_is_announced a leftover entry can only ever swallow a
   change stamped with exactly its tick *)
Example unseen_apply_keeps_entry :
  let pr' := (apply_component_change st0 5 T_A (VN 2)).1 in
  t_queue (sync_detect pr' T_A 10) = [] /\ t_ctok (sync_detect pr' T_A 10) = [(7, T_A, 10)].
Proof. vm_compute. split; reflexivity. Qed.

(* (2) the S22 situation: apply at tick 10, the frame ends (tick 11), the application writes 3, the
   detector (last = 9) queues 3 and the entry is gone *)
Example local_write_after_apply_is_announced_nonvacuous :
  exists pr e t v pr' en u mid w last,
    apply_component_change pr e t v = (pr', true) /\ p_ents pr !! e = Some en /\ en_sync en = Some u /\
    p_ents mid = p_ents pr' /\ t_ctok mid = t_ctok pr' /\ t_e2u mid = t_e2u pr' /\ p_tick pr < p_tick mid /\
    ann_type (stored_type t v) w = wire_type t v /\ memN (stored_type t v) (en_excl en) = false /\
    (last < p_tick mid \/ last < en_sync_added en) /\
    no_other_signal pr (stored_type t v) last e (u, wire_type t v) /\
    t_queue (sync_detect (app_step mid (OWrite e (stored_type t v) w)) (stored_type t v) last) = [(u, wire_type t v, w)] /\
    t_ctok (sync_detect (app_step mid (OWrite e (stored_type t v) w)) (stored_type t v) last) = [].
Proof.
  exists st0, 5, T_A, (VN 2), (apply_component_change st0 5 T_A (VN 2)).1, (ent_a 7 1), 7,
         (last_schedule (apply_component_change st0 5 T_A (VN 2)).1), (VN 3), 9.
  split; [vm_compute; reflexivity|]. split; [vm_compute; reflexivity|]. split; [reflexivity|].
  split; [reflexivity|]. split; [reflexivity|]. split; [reflexivity|]. split; [reflexivity|].
  split; [reflexivity|]. split; [reflexivity|]. split; [left; reflexivity|].
  split; [apply uuid_unique_no_other; exact st0_unique|]. split; vm_compute; reflexivity.
Qed.

(* tick relation: a write stamped with the tick of the apply (no system run, no end of frame in
   between) is swallowed — the instance of local_write_at_entry_tick_is_swallowed *)
Example same_tick_write_is_swallowed :
  let pr' := (apply_component_change st0 5 T_A (VN 2)).1 in
  let pr1 := sync_detect (app_step pr' (OWrite 5 T_A (VN 3))) T_A 9 in
  p_tick pr' = p_tick st0 /\ t_queue pr1 = [] /\ t_ctok pr1 = [] /\
  (c_val <$> ((p_ents pr1 !! 5) ≫= (fun en => en_comps en !! T_A))) = Some (VN 3).
Proof. vm_compute. repeat split; reflexivity. Qed.

(* (3) no entry: exactly one queue entry; with an entry of another tick: still queued, entry consumed *)
Example detector_without_token_announces_nonvacuous :
  exists pr t last e en u c,
    p_ents pr !! e = Some en /\ en_sync en = Some u /\ en_comps en !! t = Some c /\
    memN t (en_excl en) = false /\ (last < c_changed c \/ last < en_sync_added en) /\
    tok_find (u, ann_type t (c_val c)) (t_ctok pr) = None /\
    no_other_signal pr t last e (u, ann_type t (c_val c)) /\
    t_queue (sync_detect pr t last) = [(u, t, c_val c)].
Proof.
  exists st0, T_A, 0, 5, (ent_a 7 1), 7, (comp_at (VN 1) 1).
  split; [vm_compute; reflexivity|]. split; [reflexivity|]. split; [vm_compute; reflexivity|].
  split; [reflexivity|]. split; [left; reflexivity|]. split; [reflexivity|].
  split; [apply uuid_unique_no_other; exact st0_unique|]. vm_compute. reflexivity.
Qed.

(* side condition of (3): two entities with one uuid are two entries for the key *)
Example twin_uuid_two_entries :
  t_queue (sync_detect st_twin T_A 0) = [(7, T_A, VN 1); (7, T_A, VN 1)].
Proof. vm_compute. reflexivity. Qed.

(* ================================================================================================ *)
(* 6. The tick relation on whole frames: a reachable instance of the equal-tick case (FINDING)      *)
(* ================================================================================================ *)

(* The commands of one flush are all applied at one value of p_tick (apply_cmd never advances it).  An
   application system (SApp 7) placed between the client's poll and the sync point issues
   commands.entity(e).insert(T_A(3)) in the frame in which the host's update T_A = 2 of the same entity
   arrives: the flush applies CApplyComp (value 2, entry stamped with the flush tick), then CAppInsert
   (value 3, stamped with the SAME tick).  The next frame's detector finds the entry's tick equal to the
   change tick and consumes it: the local 3 is never announced, host 2 / client 3 for ever.
   With the application system ahead of the poll the network value wins on both sides; with the write made
   between frames (app_step, later tick) it is announced — both by the theorems above. *)
Definition dh_order : list sysid :=
  [SSrvConnected; SSrvRemoved; SSrvCreated; SDetect T_A; SSrvParented; SSrvReact; SSrvPoll; SSync].
Definition dc_order : list sysid :=
  [SCliConnecting; SCliVerify; SCliRemoved; SCliCreated; SDetect T_A; SCliParented; SCliReact; SCliPoll; SApp 7; SSync].
Definition dc_order_app_first : list sysid :=
  [SCliConnecting; SCliVerify; SCliRemoved; SCliCreated; SDetect T_A; SCliParented; SCliReact; SApp 7; SCliPoll; SSync].
Definition dfh (poll : list peer) : frame_oracle := Build_frame_oracle [] [1] None poll 0 [].
Definition dfc (n : nat) : frame_oracle := Build_frame_oracle [] [] (Some RConnected) [] n [].
Definition DE0 : N := 4294967296.

(* host 0 and client 1 connect; the host spawns entity 1 with T_A = 1; the client replicates it as DE0 *)
Definition d_session : list step :=
  [StApp 0 (OSetup true 0); StApp 1 (OSetup false 0);
   StApp 0 (OSetOrder dh_order); StApp 1 (OSetOrder dc_order);
   StApp 0 (OSetRegistry [T_A]); StApp 1 (OSetRegistry [T_A]); StApp 0 (OReg T_A); StApp 1 (OReg T_A);
   StFrame 0 (dfh []); StFrame 0 (dfh []);
   StFrame 1 (dfc 0); StFrame 1 (dfc 0); StFrame 1 (dfc 0);
   StApp 0 (OSpawn 1 true [(T_A, VN 1)]);
   StFrame 0 (dfh [1]); StFrame 0 (dfh []); StFrame 0 (dfh []);
   StFrame 1 (dfc 20); StFrame 1 (dfc 20)].
(* frames in which everything in flight is delivered and handled *)
Definition d_settle : list step := [StFrame 1 (dfc 20); StFrame 0 (dfh [1]); StFrame 1 (dfc 20); StFrame 0 (dfh [1])].

(* value of T_A on an entity; everything still under way on a peer *)
Definition d_val (pr : peer_state) (e : ent) : option value :=
  c_val <$> ((p_ents pr !! e) ≫= (fun en => en_comps en !! T_A)).
Definition d_quiet (pr : peer_state) : bool :=
  is_nil (t_queue pr) && is_nil (t_ctok pr) && is_nil (p_out pr) && is_nil (p_app_cmds pr)
  && forallb (fun x : peer * list msg => is_nil x.2) (map_to_list (n_inbox pr))
  && (pending_cmds pr =? 0)%nat && negb (is_some (p_panic pr)).
Definition d_obs (tr : list step) : option (option value * bool) * option (option value * bool) :=
  let g := grun (init_global 2) tr in
  ((fun pr => (d_val pr 1, d_quiet pr)) <$> (g !! 0), (fun pr => (d_val pr DE0, d_quiet pr)) <$> (g !! 1)).

Example d_session_replicated :
  d_obs d_session = (Some (Some (VN 1), true), Some (Some (VN 1), true)).
Proof. vm_compute. reflexivity. Qed.

(* the host writes 2; the client's application system inserts 3 in the frame in which 2 arrives *)
Definition d_same_flush : list step :=
  [StApp 0 (OWrite 1 T_A (VN 2)); StApp 1 (OAppCmd 7 (CAppInsert DE0 T_A (VN 3)));
   StFrame 0 (dfh []); StFrame 1 (dfc 20)].

Example same_flush_write_is_swallowed :
  (* right after the flush: value 3 with the entry of the apply, both stamped 46 *)
  (let pr := grun (init_global 2) (d_session ++ d_same_flush) !! 1 in
   (fun pr => (d_val pr DE0, t_ctok pr,
               c_changed <$> ((p_ents pr !! DE0) ≫= (fun en => en_comps en !! T_A)))) <$> pr
   = Some (Some (VN 3), [(1, T_A, 46)], Some 46)) /\
  (* after everything settled: host 2, client 3, nothing under way anywhere *)
  d_obs (d_session ++ d_same_flush ++ d_settle) = (Some (Some (VN 2), true), Some (Some (VN 3), true)) /\
  d_obs (d_session ++ d_same_flush ++ d_settle ++ d_settle) = (Some (Some (VN 2), true), Some (Some (VN 3), true)).
Proof. vm_compute. repeat split; reflexivity. Qed.

(* contrast 1: the application system runs ahead of the poll: the network value is applied last, both hold 2 *)
Example app_system_before_poll_converges :
  d_obs (d_session ++ [StApp 1 (OSetOrder dc_order_app_first)] ++ d_same_flush ++ d_settle)
  = (Some (Some (VN 2), true), Some (Some (VN 2), true)).
Proof. vm_compute. reflexivity. Qed.

(* contrast 2 (local_write_after_apply_is_announced on frames): the write is made after the frame of the
   apply: it is announced, both hold 3 *)
Example write_after_the_frame_converges :
  d_obs (d_session ++ [StApp 0 (OWrite 1 T_A (VN 2)); StFrame 0 (dfh []); StFrame 1 (dfc 20);
                       StApp 1 (OWrite DE0 T_A (VN 3))] ++ d_settle ++ d_settle)
  = (Some (Some (VN 3), true), Some (Some (VN 3), true)).
Proof. vm_compute. reflexivity. Qed.

Print Assumptions detect_fires.
Print Assumptions detect_silent.
Print Assumptions applied_update_is_not_echoed.
Print Assumptions applied_update_is_not_echoed_unique.
Print Assumptions local_write_is_announced.
Print Assumptions local_write_at_entry_tick_is_swallowed.
Print Assumptions local_write_after_apply_is_announced.
Print Assumptions local_write_next_frame_is_announced.
Print Assumptions detector_without_token_announces.
Print Assumptions same_flush_write_is_swallowed.
