(* Property C17: replicated render components receive their engine companions (src/bundle_fix.rs).
   Model: fix_system, the nine SFix* cases of run_body, the command CFixInsert, flush. *)
From stdpp Require Import gmap list.
From Coq Require Import NArith Lia.
From RecordUpdate Require Import RecordSet.
From BS Require Import Sync.Types Sync.Model Sync.Proofs.FixLemmas.
Import RecordSetNotations.
Local Open Scope N_scope.

(* ================================================================================================
   1. A fix command changes nothing but companions
   ================================================================================================ *)

(* Applying CFixInsert e cs: every entity keeps all its non-component data; every component whose
   type is not in cs is literally the same record (value, added tick, changed tick); tracker queue,
   change tokens, outgoing messages, inboxes, command queues, panic flag are untouched. *)
Theorem fix_never_changes_replicated_values pr e cs :
  let pr' := apply_cmd pr (CFixInsert e cs) in
  (forall e', option_Forall2 (fix_ent_rel (fun t => t ∈ cs)) (p_ents pr !! e') (p_ents pr' !! e')) /\
  t_queue pr' = t_queue pr /\ t_ctok pr' = t_ctok pr /\ p_out pr' = p_out pr /\ n_inbox pr' = n_inbox pr /\
  p_cmdq pr' = p_cmdq pr /\ p_panic pr' = p_panic pr /\ t_e2u pr' = t_e2u pr /\ t_u2e pr' = t_u2e pr.
Proof.
  intros pr'. destruct (fix_insert_rel (fun t => t ∈ cs) pr e cs) as (E & Hq & Hr); [auto|].
  fold pr' in E, Hq, Hr. split; [exact Hr|].
  unfold others_eq in E. repeat split; try (rewrite E; reflexivity). exact Hq.
Qed.

(* spelled out for one component: value, change tick and added tick of a component that is not a
   companion being inserted are what they were - in particular the replicated Transform / Visibility /
   light components (type ids < 100) when cs are companions (type ids >= 100) *)
Corollary fix_keeps_component pr e cs e' en t c :
  p_ents pr !! e' = Some en -> en_comps en !! t = Some c -> t ∉ cs ->
  exists en', p_ents (apply_cmd pr (CFixInsert e cs)) !! e' = Some en' /\
    en_comps en' !! t = Some c /\ en_sync en' = en_sync en /\ en_sync_added en' = en_sync_added en /\
    en_excl en' = en_excl en.
Proof.
  intros He Hc Ht. destruct (fix_never_changes_replicated_values pr e cs) as (Hr & _).
  specialize (Hr e'). rewrite He in Hr. inversion Hr as [? en' (?&?&?&?&?&?&Hs&?) |]; subst.
  exists en'. repeat split; auto. rewrite Hs; auto.
Qed.

(* a flush in which every queued command is a bundle_fix command (companions have ids >= 100) *)
Theorem fix_flush_never_changes_replicated_values pr :
  fix_only pr ->
  let pr' := flush pr in
  (forall e', option_Forall2 (fix_ent_rel is_companion) (p_ents pr !! e') (p_ents pr' !! e')) /\
  t_queue pr' = t_queue pr /\ t_ctok pr' = t_ctok pr /\ p_out pr' = p_out pr /\ n_inbox pr' = n_inbox pr /\
  p_panic pr' = p_panic pr /\ t_e2u pr' = t_e2u pr /\ t_u2e pr' = t_u2e pr /\ p_tick pr' = p_tick pr.
Proof.
  intros Hf pr'. destruct (flush_fix_only_rel pr Hf) as (E & Hr). fold pr' in E, Hr.
  split; [exact Hr|]. unfold others_eq in E. repeat split; rewrite E; reflexivity.
Qed.

(* ... hence the change detector of every synchronised type (ids < 100) queues exactly the same
   updates and consumes exactly the same tokens after such a flush as before it *)
Theorem fix_flush_detector_unaffected pr t last :
  fix_only pr -> t < 100 ->
  t_queue (sync_detect (flush pr) t last) = t_queue (sync_detect pr t last) /\
  t_ctok (sync_detect (flush pr) t last) = t_ctok (sync_detect pr t last).
Proof.
  intros Hf Ht. destruct (fix_flush_never_changes_replicated_values pr Hf) as (Hr & Hq & Hc & _ & _ & _ & He & _).
  destruct (sync_detect_fix_rel pr (flush pr) t last Ht Hr) as (H1 & H2 & _); [repeat split; auto|]. auto.
Qed.
Theorem fix_cmd_detector_unaffected pr e cs t last :
  (forall c, c ∈ cs -> 100 <= c) -> t < 100 ->
  t_queue (sync_detect (apply_cmd pr (CFixInsert e cs)) t last) = t_queue (sync_detect pr t last) /\
  t_ctok (sync_detect (apply_cmd pr (CFixInsert e cs)) t last) = t_ctok (sync_detect pr t last).
Proof.
  intros Hcs Ht. destruct (fix_insert_rel is_companion pr e cs Hcs) as (E & _ & Hr).
  destruct (sync_detect_fix_rel pr _ t last Ht Hr) as (H1 & H2 & _); [|auto].
  unfold others_eq in E. repeat split; rewrite E; reflexivity.
Qed.

(* the nine systems themselves only queue commands (and advance the tick bookkeeping) *)
Theorem fix_systems_only_queue s T C pr o :
  fix_spec s = Some (T, C) ->
  let pr' := run_system pr s o in
  p_ents pr' = p_ents pr /\ t_queue pr' = t_queue pr /\ t_ctok pr' = t_ctok pr /\ p_out pr' = p_out pr /\
  n_inbox pr' = n_inbox pr /\ p_panic pr' = p_panic pr /\
  (forall k, k <> sys_key s -> p_cmdq pr' !! k = p_cmdq pr !! k) /\
  (forall c, c ∈ queue pr' (sys_key s) -> c ∈ queue pr (sys_key s) \/ exists e, c = CFixInsert e C).
Proof.
  intros Hs pr'. unfold pr'. rewrite (fix_spec_body _ _ _ _ _ Hs).
  destruct (p_panic pr) eqn:Ep; [repeat split; auto|].
  set (pr1 := pr <| p_tick := p_tick pr + 1 |>).
  destruct (fix_system_others pr1 (sys_key s) (last_run pr (sys_key s)) T C C) as (E & He).
  set (pr2 := fix_system _ _ _ _ _ _) in *. unfold others_eq in E.
  split; [exact He|]. repeat split; try (cbn; rewrite E; cbn; done).
  - intros k Hk. cbn. change (p_cmdq pr !! k) with (p_cmdq pr1 !! k). unfold pr2, fix_system.
    apply (foldl_rel (fun a b => p_cmdq b !! k = p_cmdq a !! k)); [done|congruence|].
    intros a [e en] _. destruct (en_comps en !! T); [|done]. destruct (_ && _); [|done].
    unfold push_cmd; cbn. by rewrite lookup_insert_ne.
  - intros c. unfold queue at 1. cbn. fold (queue pr2 (sys_key s)). unfold pr2, fix_system.
    change (queue pr (sys_key s)) with (queue pr1 (sys_key s)). generalize pr1.
    intros a0. revert c.
    apply (foldl_rel (fun a b => forall c, c ∈ queue b (sys_key s) -> c ∈ queue a (sys_key s) \/ exists e, c = CFixInsert e C)).
    + auto.
    + intros a b d H1 H2 c Hc. destruct (H2 c Hc) as [?|?]; auto.
    + intros a [e en] _ c. destruct (en_comps en !! T); [|auto]. destruct (_ && _); [|auto].
      unfold queue, push_cmd; cbn. rewrite lookup_insert; cbn.
      rewrite elem_of_app, elem_of_list_singleton. intros [?| ->]; eauto.
Qed.

(* ================================================================================================
   2. The Without<..> filter
   ================================================================================================ *)

(* If any companion of the kind is present (in particular: all of them), the system queues nothing
   for the entity. *)
Theorem fix_skips_when_companion_present s T C pr o e en :
  fix_spec s = Some (T, C) -> p_ents pr !! e = Some en ->
  (exists t, t ∈ C /\ has_comp en t = true) ->
  forall cs, CFixInsert e cs ∈ queue (run_system pr s o) (sys_key s) -> CFixInsert e cs ∈ queue pr (sys_key s).
Proof.
  intros Hs He Hsome cs. rewrite (fix_spec_body _ _ _ _ _ Hs). destruct (p_panic pr); [done|].
  unfold queue at 1. cbn. intros H.
  eapply (fix_system_skips (pr <| p_tick := p_tick pr + 1 |>)) in H; eauto.
  by apply sat_has_some.
Qed.

Theorem present_companions_untouched s T C pr o e en :
  fix_spec s = Some (T, C) -> p_ents pr !! e = Some en -> has_all C en ->
  forall cs, CFixInsert e cs ∈ queue (run_system pr s o) (sys_key s) -> CFixInsert e cs ∈ queue pr (sys_key s).
Proof.
  intros Hs He Hall. eapply fix_skips_when_companion_present; eauto.
  destruct (fix_spec_nonempty _ _ _ Hs) as (t & C' & ->). exists t. split; [by left|]. apply Hall. by left.
Qed.

(* Query<.., (Added<Visibility>, Without<ViewVisibility>, Without<InheritedVisibility>)>: one of the
   two present is enough for the entity to be skipped; the missing one is not inserted *)
Theorem visibility_partial_companion_not_fixed pr o e en :
  p_ents pr !! e = Some en ->
  has_comp en T_VIEWVIS = true \/ has_comp en T_INHERITEDVIS = true ->
  forall cs, CFixInsert e cs ∈ queue (run_system pr SFixVisibility o) (sys_key SFixVisibility) ->
             CFixInsert e cs ∈ queue pr (sys_key SFixVisibility).
Proof.
  intros He H. apply (fix_skips_when_companion_present SFixVisibility T_VISIBILITY [T_VIEWVIS; T_INHERITEDVIS] pr o e en eq_refl He).
  destruct H; [exists T_VIEWVIS|exists T_INHERITEDVIS]; split; auto; set_solver.
Qed.

(* ================================================================================================
   3. Companions arrive within a frame
   ================================================================================================ *)

(* tick bookkeeping: the counter is positive and ahead of every recorded last run *)
Lemma apply_cmd_ticks pr c :
  p_tick (apply_cmd pr c) = p_tick pr /\ p_last_run (apply_cmd pr c) = p_last_run pr /\
  p_order (apply_cmd pr c) = p_order pr.
Proof.
  assert (exists e, not_spawn_of e c) as [e He].
  { destruct c; try (exists 0; intros ? [=]; fail). exists (e + 1). intros u' [=]. lia. }
  destruct (cs_apply_cmd false [] e pr c He) as []; [intros [=]|]. auto.
Qed.
Lemma apply_cmds_ticks cs : forall pr,
  p_tick (apply_cmds pr cs) = p_tick pr /\ p_last_run (apply_cmds pr cs) = p_last_run pr /\
  p_order (apply_cmds pr cs) = p_order pr.
Proof.
  induction cs as [|c cs IH]; intros pr; cbn; [done|]. destruct (p_panic pr); [done|].
  destruct (IH (apply_cmd pr c)) as (-> & -> & ->). apply apply_cmd_ticks.
Qed.
Lemma flush_ticks pr :
  p_tick (flush pr) = p_tick pr /\ p_last_run (flush pr) = p_last_run pr /\ p_order (flush pr) = p_order pr.
Proof.
  unfold flush. generalize (p_order pr) at 1 2 3. intros l. revert pr.
  induction l as [|s l IH]; intros pr; cbn; [done|].
  destruct (p_cmdq pr !! sys_key s) as [cs|]; [|apply IH].
  match goal with |- context [foldl ?f ?a l] => destruct (IH a) as (-> & -> & ->) end.
  match goal with |- context [apply_cmds ?a cs] => destruct (apply_cmds_ticks cs a) as (-> & -> & ->) end.
  done.
Qed.
Lemma run_system_ticks_ok pr s o : ticks_ok pr -> ticks_ok (run_system pr s o).
Proof.
  intros H. destruct (decide (s = SSync)) as [->|Hs].
  - unfold run_system. destruct (p_panic pr); [done|]. unfold ticks_ok.
    destruct (flush_ticks pr) as (-> & -> & _). exact H.
  - eapply ticks_ok_sys_step; [apply ss_run_system; exact Hs|exact H].
Qed.
Theorem frame_ticks_ok pr o : ticks_ok pr -> ticks_ok (frame pr o).
Proof.
  intros H. unfold frame. destruct (p_panic pr); [done|].
  pose proof (prelude_core pr o) as (_ & Eo & _ & Et & _ & El & _).
  set (st2 := state_transition _) in *.
  assert (ticks_ok st2) as H2 by (unfold ticks_ok; rewrite Et, El; exact H).
  clearbody st2.
  assert (forall l st, ticks_ok st -> ticks_ok (foldl (fun pr s => run_system pr s o) st l)) as Hf.
  { induction l as [|s l IH]; intros st Hst; cbn; [done|]. apply IH. by apply run_system_ticks_ok. }
  specialize (Hf (p_order st2) st2 H2). set (st3 := foldl _ _ _) in *. clearbody st3.
  assert (Hbump : forall st, ticks_ok st ->
            0 < p_tick st + 1 /\ (forall k v, p_last_run st !! k = Some v -> v < p_tick st + 1)).
  { intros st [Hpos Hlr]. split; [lia|]. intros k v Hv. specialize (Hlr k v Hv). lia. }
  unfold last_schedule. unfold ticks_ok. cbn.
  destruct (p_panic st3); [exact (Hbump st3 Hf)|].
  destruct (flush_ticks st3) as (-> & -> & _). exact (Hbump st3 Hf).
Qed.
Theorem frame_keeps_order pr o : p_order (frame pr o) = p_order pr.
Proof.
  unfold frame. destruct (p_panic pr); [done|].
  pose proof (prelude_core pr o) as (_ & Eo & _).
  set (st2 := state_transition _) in *. rewrite <- Eo. clearbody st2.
  assert (forall l st, p_order (foldl (fun pr s => run_system pr s o) st l) = p_order st) as Hf.
  { induction l as [|s l IH]; intros st; cbn; [done|]. rewrite IH.
    destruct (decide (s = SSync)) as [->|Hs].
    - unfold run_system. destruct (p_panic st); [done|]. apply flush_ticks.
    - apply (ss_order _ _ _ (ss_run_system st s o Hs)). }
  set (st3 := foldl _ _ _). assert (p_order st3 = p_order st2) as E3 by apply Hf.
  clearbody st3. rewrite <- E3.
  unfold last_schedule. cbn. destruct (p_panic st3); [done|]. apply flush_ticks.
Qed.

(* e is not the id of a pending network spawn: the allocator is past it and no queued command (nor a
   command an application system is about to issue) spawns it again *)
Definition no_respawn (e : ent) (pr : peer_state) : Prop := inv_cmds false [] e pr.
(* in addition nobody but bundle_fix inserts companions of the list C on e: the registry does not
   resolve them (so the network cannot), application commands do not, and a queued fix command for e
   carries the whole list or none of it *)
Definition companions_reserved (C : list tyid) (e : ent) (pr : peer_state) : Prop := inv_cmds true C e pr.

Definition ent_has_some (C : list tyid) (pr : peer_state) (e : ent) : Prop :=
  match p_ents pr !! e with None => True | Some en => exists t, t ∈ C /\ has_comp en t = true end.
Definition ent_has_all (C : list tyid) (pr : peer_state) (e : ent) : Prop :=
  match p_ents pr !! e with None => True | Some en => has_all C en end.

Lemma inv_cmds_false C C' e pr : inv_cmds false C e pr -> inv_cmds false C' e pr.
Proof.
  intros [(Hb & Hq & Ha) _]. split; [|intros [=]]. split; [exact Hb|split].
  - intros k cs E. eapply Forall_impl; [exact (Hq k cs E)|]. intros c [? _]. split; [done|intros [=]].
  - intros n c Hc. destruct (Ha n c Hc) as [? _]. split; [done|intros [=]].
Qed.

(* MAIN THEOREM, one frame. Entity e is alive and carries the trigger component T, added after the
   last run of the fix system s; s is somewhere in the executable order (any order, any number of
   times, SSync anywhere or nowhere); the frame does not panic.  Then at the end of the frame e is
   gone (despawned meanwhile: try_insert does nothing) or carries a companion of the kind - for the
   eight single-companion systems: the companion. *)
Theorem companions_added_within_a_frame s T C pr o e en c :
  fix_spec s = Some (T, C) ->
  s ∈ p_order pr ->
  no_respawn e pr ->
  p_ents pr !! e = Some en -> en_comps en !! T = Some c -> last_run pr (sys_key s) < c_added c ->
  p_panic (frame pr o) = None ->
  ent_has_some C (frame pr o) e /\ no_respawn e (frame pr o).
Proof.
  intros Hs Hin Hnr He Hc Hl Hp.
  destruct (one_frame false s T C e Hs pr o Hin (inv_cmds_false _ _ _ _ Hnr)) as (H & Hi & _); auto.
  { cbn. rewrite He. cbn. right. eauto. }
  split; [|eapply inv_cmds_false; eauto]. cbn in H. unfold ent_has_some.
  destruct (p_ents (frame pr o) !! e); [|done]. by apply sat_has_some.
Qed.

Corollary companion_added_within_a_frame s T t pr o e en c :
  fix_spec s = Some (T, [t]) -> s ∈ p_order pr -> no_respawn e pr ->
  p_ents pr !! e = Some en -> en_comps en !! T = Some c -> last_run pr (sys_key s) < c_added c ->
  p_panic (frame pr o) = None ->
  match p_ents (frame pr o) !! e with None => True | Some en' => has_comp en' t = true end.
Proof.
  intros Hs Hin Hnr He Hc Hl Hp.
  destruct (companions_added_within_a_frame s T [t] pr o e en c Hs Hin Hnr He Hc Hl Hp) as [H _].
  unfold ent_has_some in H. destruct (p_ents (frame pr o) !! e); [|done].
  destruct H as (t' & Ht' & H). apply elem_of_list_singleton in Ht'. by subst.
Qed.

(* The full bundle (needed for Visibility, whose system inserts two companions but is disabled by
   either): if e lacks all companions and nobody else inserts single ones, e ends with all of them. *)
Theorem all_companions_added_within_a_frame s T C pr o e en c :
  fix_spec s = Some (T, C) ->
  s ∈ p_order pr ->
  companions_reserved C e pr ->
  p_ents pr !! e = Some en -> en_comps en !! T = Some c -> last_run pr (sys_key s) < c_added c ->
  (forall t, t ∈ C -> has_comp en t = false) ->
  p_panic (frame pr o) = None ->
  ent_has_all C (frame pr o) e /\ companions_reserved C e (frame pr o).
Proof.
  intros Hs Hin Hnr He Hc Hl Hlack Hp.
  destruct (one_frame true s T C e Hs pr o Hin Hnr) as (H & Hi & _); auto.
  { cbn. rewrite He. split; [cbn; right; eauto|]. cbn. intros (t & Ht & Hh). rewrite Hlack in Hh; done. }
  split; [|exact Hi]. unfold ent_has_all. cbn in H.
  apply (withP_full C (phiD C) _ _ H). auto.
Qed.

(* between frames: e is gone, or lacks the trigger, or has a companion, or its trigger is newer than
   the last run of the system *)
Definition fix_pending_or_done (s : sysid) (T : tyid) (C : list tyid) (pr : peer_state) (e : ent) : Prop :=
  phiFI T C (p_ents pr !! e) (last_run pr (sys_key s)).

Lemma fix_pending_or_done_absent s T C pr e :
  match p_ents pr !! e with None => True | Some en => has_comp en T = false end ->
  fix_pending_or_done s T C pr e.
Proof.
  unfold fix_pending_or_done, phiFI, has_comp. destruct (p_ents pr !! e) as [en|]; [|done].
  destruct (en_comps en !! T); [done|auto].
Qed.

Theorem fix_invariant_frame s T C pr o e :
  fix_spec s = Some (T, C) -> s ∈ p_order pr -> ticks_ok pr -> no_respawn e pr ->
  fix_pending_or_done s T C pr e -> p_panic (frame pr o) = None ->
  fix_pending_or_done s T C (frame pr o) e /\ ticks_ok (frame pr o) /\ no_respawn e (frame pr o).
Proof.
  intros Hs Hin Ht Hnr H Hp.
  destruct (inv_frame false s T C e Hs pr o Hin Ht (inv_cmds_false _ _ _ _ Hnr)) as ((H' & Hi & _) & Ht'); auto.
  split; [exact H'|split; [exact Ht'|eapply inv_cmds_false; eauto]].
Qed.

(* Two frames, for components that arrive during a frame (applied by the SSync flush, from the
   network or from an application command): whatever the state before (e absent, without trigger, or in
   the invariant above), if e carries the trigger at the end of frame 1 then at the end of frame 2 it is
   gone or has a companion. *)
Theorem companions_added_within_two_frames s T C pr o1 o2 e en1 :
  fix_spec s = Some (T, C) -> s ∈ p_order pr -> ticks_ok pr -> no_respawn e pr ->
  fix_pending_or_done s T C pr e ->
  p_panic (frame (frame pr o1) o2) = None ->
  p_ents (frame pr o1) !! e = Some en1 -> has_comp en1 T = true ->
  ent_has_some C (frame (frame pr o1) o2) e.
Proof.
  intros Hs Hin Ht Hnr H Hp He1 Hh.
  destruct (two_frames false s T C e Hs pr o1 o2 en1 Hin Ht (inv_cmds_false _ _ _ _ Hnr)) as (H' & _); auto.
  cbn in H'. unfold ent_has_some. unfold phiD in H'. destruct (p_ents (frame (frame pr o1) o2) !! e); [|done]. by apply sat_has_some.
Qed.

Theorem all_companions_added_within_two_frames s T C pr o1 o2 e en1 :
  fix_spec s = Some (T, C) -> s ∈ p_order pr -> ticks_ok pr -> companions_reserved C e pr ->
  fix_pending_or_done s T C pr e ->
  match p_ents pr !! e with None => True | Some en => forall t, t ∈ C -> has_comp en t = false end ->
  p_panic (frame (frame pr o1) o2) = None ->
  p_ents (frame pr o1) !! e = Some en1 -> has_comp en1 T = true ->
  ent_has_all C (frame (frame pr o1) o2) e.
Proof.
  intros Hs Hin Ht Hnr H Hlack Hp He1 Hh.
  destruct (two_frames true s T C e Hs pr o1 o2 en1 Hin Ht Hnr) as (H' & _); auto.
  { split; [exact H|]. destruct (p_ents pr !! e) as [en|]; cbn; [|done].
    intros (t & Ht' & Hh'). rewrite Hlack in Hh'; done. }
  unfold ent_has_all. cbn in H'. apply (withP_full C (phiD C) _ _ H'). auto.
Qed.

(* the between-frames invariant also survives the application's direct world accesses, so it holds in
   every state reachable from a state where it holds (in particular from init_peer) *)
Lemma spawn_comps_fresh now comps : forall en0,
  (forall t c, en_comps en0 !! t = Some c -> c_added c = now) ->
  forall t c, en_comps (foldl (fun en '(t, v) => put_comp now t v en) en0 comps) !! t = Some c -> c_added c = now.
Proof.
  induction comps as [|[t0 v0] comps IH]; intros en0 H0; cbn; [exact H0|].
  apply IH. intros t c. unfold put_comp. destruct (en_comps en0 !! t0) as [c0|] eqn:E0; cbn.
  - destruct (decide (t = t0)) as [->|].
    + rewrite lookup_insert. intros [= <-]. cbn. eauto.
    + rewrite lookup_insert_ne by done. eauto.
  - destruct (decide (t = t0)) as [->|].
    + rewrite lookup_insert. intros [= <-]. done.
    + rewrite lookup_insert_ne by done. eauto.
Qed.

Definition app_rel (e : ent) (pr pr' : peer_state) : Prop :=
  p_tick pr' = p_tick pr /\ p_last_run pr' = p_last_run pr /\
  ent_rel (p_tick pr) (p_ents pr !! e) (p_ents pr' !! e).
Lemma app_rel_cmd_step e pr pr' : cmd_step false [] e pr pr' -> app_rel e pr pr'.
Proof. intros []. split; [done|split; [done|done]]. Qed.
Lemma app_rel_same e pr pr' :
  p_tick pr' = p_tick pr -> p_last_run pr' = p_last_run pr -> p_ents pr' = p_ents pr -> app_rel e pr pr'.
Proof. intros ? ? E. split; [done|split; [done|]]. rewrite E. apply ent_rel_refl. Qed.

Theorem app_step_keeps_fix_invariant s T C pr op e :
  ticks_ok pr -> fix_pending_or_done s T C pr e ->
  fix_pending_or_done s T C (app_step pr op) e /\ ticks_ok (app_step pr op).
Proof.
  intros Ht H.
  assert (forall pr', app_rel e pr pr' -> fix_pending_or_done s T C pr' e /\ ticks_ok pr') as Hrel.
  { intros pr' (Et & El & Hr). split.
    - unfold fix_pending_or_done, last_run. rewrite El.
      eapply (phiFI_closed false T C (p_tick pr)); eauto; [intros _; by apply ticks_ok_last_run|intros [=]].
    - unfold ticks_ok. rewrite Et, El. exact Ht. }
  destruct op; cbn [app_step]; try (apply Hrel; apply app_rel_same; reflexivity).
  - (* OSpawn *)
    split; [|exact Ht]. unfold fix_pending_or_done. cbn.
    destruct (decide (e0 = e)) as [->|Hne]; [|by rewrite lookup_insert_ne].
    rewrite lookup_insert. cbn. right.
    match goal with |- match en_comps ?en !! T with _ => _ end => destruct (en_comps en !! T) as [c|] eqn:Ec end; [|done].
    eapply spawn_comps_fresh in Ec; [|cbn; intros ? ? E; rewrite lookup_empty in E; discriminate].
    rewrite Ec. change (last_run _ (sys_key s)) with (last_run pr (sys_key s)). by apply ticks_ok_last_run.
  - apply Hrel, app_rel_cmd_step, cs_delete.
  - apply Hrel, app_rel_cmd_step, cs_upd_nocomp. reflexivity.
  - apply Hrel, app_rel_cmd_step, cs_upd_put; [reflexivity|intros [=]].
  - apply Hrel, app_rel_cmd_step, cs_upd_nocomp. reflexivity.
  - destruct (alive pr c); [|apply Hrel, app_rel_cmd_step, cs_refl].
    apply Hrel, app_rel_cmd_step, cs_add_child.
  - destruct host; apply Hrel; apply app_rel_same; reflexivity.
Qed.

Lemma init_fix_invariant s T C id st reg ord e :
  fix_pending_or_done s T C (init_peer id st reg ord) e /\ ticks_ok (init_peer id st reg ord).
Proof.
  split; [unfold fix_pending_or_done; cbn; by rewrite lookup_empty|].
  split; [cbn; lia|]. intros k v E. cbn in E. rewrite lookup_empty in E. discriminate.
Qed.

(* ================================================================================================
   4. Fix commands cause no traffic
   ================================================================================================ *)

Theorem fix_does_not_disturb_convergence pr e cs :
  p_out (apply_cmd pr (CFixInsert e cs)) = p_out pr /\
  t_queue (apply_cmd pr (CFixInsert e cs)) = t_queue pr /\
  t_ctok (apply_cmd pr (CFixInsert e cs)) = t_ctok pr /\
  n_inbox (apply_cmd pr (CFixInsert e cs)) = n_inbox pr.
Proof. destruct (fix_never_changes_replicated_values pr e cs) as (_ & ? & ? & ? & ? & _). auto. Qed.

Theorem fix_flush_sends_nothing pr :
  fix_only pr -> p_out (flush pr) = p_out pr /\ t_queue (flush pr) = t_queue pr /\ t_ctok (flush pr) = t_ctok pr.
Proof. intros H. destruct (fix_flush_never_changes_replicated_values pr H) as (_ & ? & ? & ? & _). auto. Qed.

(* ================================================================================================
   Examples (non-vacuity) and the limits of the statements
   ================================================================================================ *)

Definition o0 : frame_oracle :=
  {| fo_conn_events := []; fo_clients := []; fo_status := None; fo_srv_poll := []; fo_cli_poll := 0;
     fo_downloads := [] |}.
Definition has (pr : peer_state) (e : ent) (t : tyid) : bool :=
  match p_ents pr !! e with Some en => has_comp en t | None => false end.

(* entity 7 spawned by the application with a Transform, before the first frame *)
Definition ex_state (order : list sysid) : peer_state :=
  app_step (init_peer 0 [T_TRANSFORM] [T_TRANSFORM] order) (OSpawn 7 false [(T_TRANSFORM, VN 5)]).

Lemma no_respawn_simple e pr :
  e < p_next_ent pr -> p_cmdq pr = ∅ -> (forall n c, (n, c) ∈ p_app_cmds pr -> not_spawn_of e c) ->
  no_respawn e pr.
Proof.
  intros Hl Hq Ha. split; [|intros [=]]. split; [lia|split].
  - intros k cs E. rewrite Hq, lookup_empty in E. discriminate.
  - intros n c Hc. split; [eauto|intros [=]].
Qed.

Example ex_hypotheses order :
  SFixGlobalTransform ∈ order ->
  let pr := ex_state order in
  exists en c, p_ents pr !! 7 = Some en /\ en_comps en !! T_TRANSFORM = Some c /\
    last_run pr (sys_key SFixGlobalTransform) < c_added c /\ no_respawn 7 pr /\ ticks_ok pr /\
    SFixGlobalTransform ∈ p_order pr /\ has pr 7 T_GLOBALTRANSFORM = false.
Proof.
  intros Hin pr. eexists _, _. split; [vm_compute; reflexivity|]. split; [vm_compute; reflexivity|].
  split; [vm_compute; reflexivity|]. split; [|split; [|split; [exact Hin|vm_compute; reflexivity]]].
  - apply no_respawn_simple; [vm_compute; reflexivity|reflexivity|].
    intros n c Hc. cbn in Hc. by apply elem_of_nil in Hc.
  - split; [vm_compute; reflexivity|]. intros k v E. cbn in E. rewrite lookup_empty in E. discriminate.
Qed.

(* the fix system before the sync point, and after it: GlobalTransform is there after one frame *)
Example ex_fix_before_sync :
  has (frame (ex_state [SFixGlobalTransform; SSync]) o0) 7 T_GLOBALTRANSFORM = true /\
  p_panic (frame (ex_state [SFixGlobalTransform; SSync]) o0) = None.
Proof. vm_compute. split; reflexivity. Qed.
Example ex_fix_after_sync :
  has (frame (ex_state [SSync; SDetect T_TRANSFORM; SFixGlobalTransform]) o0) 7 T_GLOBALTRANSFORM = true /\
  p_panic (frame (ex_state [SSync; SDetect T_TRANSFORM; SFixGlobalTransform]) o0) = None.
Proof. vm_compute. split; reflexivity. Qed.
(* and the replicated value is what it was *)
Example ex_value_kept :
  (p_ents (frame (ex_state [SFixGlobalTransform; SSync]) o0) !! 7) ≫= (fun en => c_val <$> en_comps en !! T_TRANSFORM)
  = Some (VN 5).
Proof. vm_compute. reflexivity. Qed.

(* a Transform that arrives during the frame (an application system inserts it by a command):
   the fix system sits before the application system: fixed in the next frame *)
Definition ex_late (order : list sysid) : peer_state :=
  app_step (app_step (init_peer 0 [T_TRANSFORM] [T_TRANSFORM] order) (OSpawn 7 false []))
    (OAppCmd 0 (CAppInsert 7 T_TRANSFORM (VN 5))).
Example ex_two_frames :
  let pr := ex_late [SFixGlobalTransform; SApp 0; SSync] in
  has pr 7 T_TRANSFORM = false /\
  has (frame pr o0) 7 T_TRANSFORM = true /\ has (frame pr o0) 7 T_GLOBALTRANSFORM = false /\
  has (frame (frame pr o0) o0) 7 T_GLOBALTRANSFORM = true /\ p_panic (frame (frame pr o0) o0) = None.
Proof. vm_compute. repeat split; reflexivity. Qed.
(* ... after the sync point that applies it: fixed in the same frame *)
Example ex_same_frame :
  let pr := ex_late [SApp 0; SSync; SFixGlobalTransform] in
  has pr 7 T_TRANSFORM = false /\ has (frame pr o0) 7 T_GLOBALTRANSFORM = true.
Proof. vm_compute. split; reflexivity. Qed.

(* despawned between the run of the system and the flush: nothing happens, no panic (try_insert) *)
Example ex_despawned_meanwhile :
  let pr := app_step (ex_state [SFixGlobalTransform; SApp 0; SSync]) (OAppCmd 0 (CAppDespawn 7)) in
  p_ents (frame pr o0) !! 7 = None /\ p_panic (frame pr o0) = None.
Proof. vm_compute. split; reflexivity. Qed.

(* Limits. (a) A frame that panics elsewhere stops everything (the process aborts). *)
Example panic_blocks_fix :
  let pr := app_step (ex_state [SApp 0; SSync; SFixGlobalTransform]) (OAppCmd 0 (CAppInsert 99 T_A (VN 1))) in
  p_panic pr = None /\ p_panic (frame pr o0) = Some PInsertDead /\ has (frame pr o0) 7 T_GLOBALTRANSFORM = false.
Proof. vm_compute. repeat split; reflexivity. Qed.

(* (b) no_respawn is needed by the literal conclusion "alive => has the companion": a queued spawn
   command re-using the id replaces the entity by a fresh one after the companion was inserted (in
   Bevy the generation of the id would differ; the model has no generations) *)
Example respawn_defeats_literal_statement :
  let pr := ex_state [SFixGlobalTransform; SSync] <| p_cmdq := {[ sys_key SSync := [CSpawnSync 7 9] ]} |> in
  p_panic (frame pr o0) = None /\ is_some (p_ents (frame pr o0) !! 7) = true /\
  has (frame pr o0) 7 T_GLOBALTRANSFORM = false /\ has (frame pr o0) 7 T_TRANSFORM = false.
Proof. vm_compute. repeat split; reflexivity. Qed.

(* (c) Visibility: a lone ViewVisibility inserted by somebody else before the system runs disables
   the system for good: InheritedVisibility never comes (Without<ViewVisibility>, Without<InheritedVisibility>) *)
Definition ex_vis : peer_state :=
  app_step (app_step (init_peer 0 [T_VISIBILITY] [T_VISIBILITY] [SApp 0; SSync; SFixVisibility])
              (OSpawn 7 false [(T_VISIBILITY, VN 1)]))
    (OAppCmd 0 (CAppInsert 7 T_VIEWVIS (VN 0))).
Example visibility_full_bundle_refuted :
  has ex_vis 7 T_VIEWVIS = false /\ has ex_vis 7 T_INHERITEDVIS = false /\
  no_respawn 7 ex_vis /\ p_panic (frame (frame ex_vis o0) o0) = None /\
  has (frame ex_vis o0) 7 T_VIEWVIS = true /\ has (frame ex_vis o0) 7 T_INHERITEDVIS = false /\
  has (frame (frame ex_vis o0) o0) 7 T_INHERITEDVIS = false.
Proof.
  split; [vm_compute; reflexivity|]. split; [vm_compute; reflexivity|]. split.
  - apply no_respawn_simple; [vm_compute; reflexivity|reflexivity|].
    intros n c Hc. cbn in Hc. apply elem_of_list_singleton in Hc. injection Hc as _ ->. intros u [=].
  - vm_compute. repeat split; reflexivity.
Qed.
(* without the foreign insert both companions arrive *)
Example ex_vis_both :
  let pr := app_step (init_peer 0 [T_VISIBILITY] [T_VISIBILITY] [SSync; SFixVisibility])
              (OSpawn 7 false [(T_VISIBILITY, VN 1)]) in
  has (frame pr o0) 7 T_VIEWVIS = true /\ has (frame pr o0) 7 T_INHERITEDVIS = true.
Proof. vm_compute. split; reflexivity. Qed.

(* the premise of the full-bundle theorem is satisfiable: nothing is queued, the registry knows
   Visibility only *)
Example ex_reserved :
  let pr := app_step (init_peer 0 [T_VISIBILITY] [T_VISIBILITY] [SSync; SFixVisibility])
              (OSpawn 7 false [(T_VISIBILITY, VN 1)]) in
  companions_reserved [T_VIEWVIS; T_INHERITEDVIS] 7 pr /\ ticks_ok pr.
Proof.
  intros pr. split; [split; [split; [vm_compute; discriminate|split]|]|].
  - intros k cs E. cbn in E. rewrite lookup_empty in E. discriminate.
  - intros n c Hc. cbn in Hc. by apply elem_of_nil in Hc.
  - intros _ t Ht. repeat (apply elem_of_cons in Ht as [->|Ht]); try reflexivity. by apply elem_of_nil in Ht.
  - split; [vm_compute; reflexivity|]. intros k v E. cbn in E. rewrite lookup_empty in E. discriminate.
Qed.

(* The three limits as refutations of the stronger statements. *)
Lemma ent_has_some_single t pr e : ent_has_some [t] pr e -> has pr e t = false -> p_ents pr !! e = None.
Proof.
  unfold ent_has_some, has. destruct (p_ents pr !! e) as [en|]; [|done].
  intros (t' & Ht' & Hh) Hf. apply elem_of_list_singleton in Ht'. subst. congruence.
Qed.
Lemma ent_has_all_elem C t pr e : ent_has_all C pr e -> t ∈ C -> has pr e t = false -> p_ents pr !! e = None.
Proof.
  unfold ent_has_all, has. destruct (p_ents pr !! e) as [en|]; [|done].
  intros Hall Ht Hf. rewrite (Hall t Ht) in Hf. discriminate.
Qed.

(* (a) "no panic in pr" instead of "no panic in the frame" *)
Example companions_added_despite_panic_refuted :
  exists pr o e en c,
    fix_spec SFixGlobalTransform = Some (T_TRANSFORM, [T_GLOBALTRANSFORM]) /\
    SFixGlobalTransform ∈ p_order pr /\ no_respawn e pr /\
    p_ents pr !! e = Some en /\ en_comps en !! T_TRANSFORM = Some c /\
    last_run pr (sys_key SFixGlobalTransform) < c_added c /\ p_panic pr = None /\
    ~ ent_has_some [T_GLOBALTRANSFORM] (frame pr o) e.
Proof.
  exists (app_step (ex_state [SApp 0; SSync; SFixGlobalTransform]) (OAppCmd 0 (CAppInsert 99 T_A (VN 1)))), o0, 7.
  eexists _, _. split; [reflexivity|]. split; [set_solver|]. split.
  { apply no_respawn_simple; [vm_compute; reflexivity|reflexivity|].
    intros n c Hc. cbn in Hc. apply elem_of_list_singleton in Hc. injection Hc as _ ->. intros u [=]. }
  split; [vm_compute; reflexivity|]. split; [vm_compute; reflexivity|]. split; [vm_compute; reflexivity|].
  split; [reflexivity|]. intros H. apply ent_has_some_single in H; [|vm_compute; reflexivity].
  vm_compute in H. discriminate.
Qed.

(* (b) without no_respawn *)
Example companions_added_without_no_respawn_refuted :
  exists pr o e en c,
    fix_spec SFixGlobalTransform = Some (T_TRANSFORM, [T_GLOBALTRANSFORM]) /\
    SFixGlobalTransform ∈ p_order pr /\
    p_ents pr !! e = Some en /\ en_comps en !! T_TRANSFORM = Some c /\
    last_run pr (sys_key SFixGlobalTransform) < c_added c /\ p_panic (frame pr o) = None /\
    ~ ent_has_some [T_GLOBALTRANSFORM] (frame pr o) e.
Proof.
  exists (ex_state [SFixGlobalTransform; SSync] <| p_cmdq := {[ sys_key SSync := [CSpawnSync 7 9] ]} |>), o0, 7.
  eexists _, _. split; [reflexivity|]. split; [set_solver|].
  split; [vm_compute; reflexivity|]. split; [vm_compute; reflexivity|]. split; [vm_compute; reflexivity|].
  split; [vm_compute; reflexivity|]. intros H. apply ent_has_some_single in H; [|vm_compute; reflexivity].
  vm_compute in H. discriminate.
Qed.

(* (c) all companions, without companions_reserved: Visibility *)
Example all_companions_added_without_reservation_refuted :
  exists pr o e en c,
    fix_spec SFixVisibility = Some (T_VISIBILITY, [T_VIEWVIS; T_INHERITEDVIS]) /\
    SFixVisibility ∈ p_order pr /\ no_respawn e pr /\
    p_ents pr !! e = Some en /\ en_comps en !! T_VISIBILITY = Some c /\
    last_run pr (sys_key SFixVisibility) < c_added c /\
    (forall t, t ∈ [T_VIEWVIS; T_INHERITEDVIS] -> has_comp en t = false) /\
    p_panic (frame pr o) = None /\
    ~ ent_has_all [T_VIEWVIS; T_INHERITEDVIS] (frame pr o) e.
Proof.
  exists ex_vis, o0, 7. eexists _, _. split; [reflexivity|]. split; [set_solver|].
  split; [exact (proj1 (proj2 (proj2 visibility_full_bundle_refuted)))|].
  split; [vm_compute; reflexivity|]. split; [vm_compute; reflexivity|]. split; [vm_compute; reflexivity|].
  split.
  { intros t Ht. repeat (apply elem_of_cons in Ht as [->|Ht]); try (vm_compute; reflexivity). by apply elem_of_nil in Ht. }
  split; [vm_compute; reflexivity|]. intros H.
  assert (has (frame ex_vis o0) 7 T_INHERITEDVIS = false) as Hf by (vm_compute; reflexivity).
  assert (T_INHERITEDVIS ∈ [T_VIEWVIS; T_INHERITEDVIS]) as Hin by (clear; set_solver).
  pose proof (ent_has_all_elem [T_VIEWVIS; T_INHERITEDVIS] T_INHERITEDVIS (frame ex_vis o0) 7 H Hin Hf) as Hn.
  vm_compute in Hn. discriminate.
Qed.

Print Assumptions fix_never_changes_replicated_values.
Print Assumptions fix_flush_detector_unaffected.
Print Assumptions fix_systems_only_queue.
Print Assumptions present_companions_untouched.
Print Assumptions visibility_partial_companion_not_fixed.
Print Assumptions frame_ticks_ok.
Print Assumptions companions_added_within_a_frame.
Print Assumptions all_companions_added_within_a_frame.
Print Assumptions companions_added_within_two_frames.
Print Assumptions all_companions_added_within_two_frames.
Print Assumptions app_step_keeps_fix_invariant.
Print Assumptions fix_does_not_disturb_convergence.
